package rules

// Pass-through obligations.
//
// Many rules follow a value to the call of a small function of the library — a constructor, a typed wrapper, a forwarder — and
// continue on the other side as if the function handed its argument on unchanged: the tag a typed reader is asked for is the tag it
// reads, the key Get is given is the key whose file it opens, the salt and info of the HKDF wrapper reach the HKDF. The sixth seeding
// round ("break it from afar") and an argument-transform sweep of the checker (`hcsa mutate all -files @lib -ops arg-transform`:
// every parameter that is stored, returned or passed on is replaced by a changed value; 139 of 234 variants went unnoticed) showed that
// nothing decided those assumptions. They are listed here, one line each, confirmed by reading the function, and decided by one
// engine:
//
//	for the parameter P of function F (and, if given, only for the named sinks):
//	  (1) no sink — a call argument, a stored value, a returned value, a make length — receives a value that is *computed from* P
//	      without being P itself (P + "x", P[:n], f(P) for a function outside the module, a conversion that changes the value);
//	  (2) at least one sink receives P;
//	  (3) if one call of a callee receives P at some position, every call of that callee in F does.
//
// "P itself" includes what only re-wraps it: conversion to an interface, string <-> []byte, a full slice, a copy made with
// append([]T(nil), P...), a bytes/strings reader over it, a local variable it was assigned to. A function of the module that
// receives P is its own obligation (or a rule's anchor), so dependence is not followed through module calls; len and cap say nothing
// about the content. The table names functions by their reference names (the rename layer applies); a function that no longer
// exists is reported, as everywhere, as an anchor that was not found.

import (
	"fmt"
	"go/token"
	"go/types"
	"strings"

	"golang.org/x/tools/go/ssa"

	"hcsa/core"
)

type passSpec struct {
	props string   // properties (rule runs) that use it, comma separated
	rel   string   // package, relative to the module
	fn    string   // reference name: "f" or "(*T).m"
	param int      // index among the declared parameters (receiver not counted)
	sinks []string // callee names (method / function name) that must receive the parameter; empty: every sink
	why   string
}

var passTable = []passSpec{
	// --- struct codec (C17): the tag a typed reader / writer is given is the tag it reads / writes; the value handed in is the value handled
	{"C17", "tlv8", "(*reader).readByte", 0, nil, "reads the tag it was asked for"},
	{"C17", "tlv8", "(*reader).readBool", 0, nil, "reads the tag it was asked for"},
	{"C17", "tlv8", "(*reader).readString", 0, nil, "reads the tag it was asked for"},
	{"C17", "tlv8", "(*reader).readUint16", 0, nil, "reads the tag it was asked for (guard and both widths)"},
	{"C17", "tlv8", "(*reader).readUint32", 0, nil, "reads the tag it was asked for (guard and both widths)"},
	{"C17", "tlv8", "(*reader).readUint64", 0, nil, "reads the tag it was asked for (guard and both widths)"},
	{"C17", "tlv8", "(*reader).readint16", 0, nil, "reads the tag it was asked for (guard and both widths)"},
	{"C17", "tlv8", "(*reader).readint32", 0, nil, "reads the tag it was asked for (guard and both widths)"},
	{"C17", "tlv8", "(*reader).readint64", 0, nil, "reads the tag it was asked for (guard and both widths)"},
	{"C17", "tlv8", "(*reader).readFloat32", 0, nil, "reads the tag it was asked for"},
	{"C17", "tlv8", "(*writer).writeUint16", 0, []string{"writeBytes"}, "writes under the tag it was given"},
	{"C17", "tlv8", "(*writer).writeUint32", 0, []string{"writeBytes"}, "writes under the tag it was given"},
	{"C17", "tlv8", "(*writer).writeUint64", 0, []string{"writeBytes"}, "writes under the tag it was given"},
	{"C17", "tlv8", "(*writer).writeInt16", 0, []string{"writeBytes"}, "writes under the tag it was given"},
	{"C17", "tlv8", "(*writer).writeInt32", 0, []string{"writeBytes"}, "writes under the tag it was given"},
	{"C17", "tlv8", "(*writer).writeInt64", 0, []string{"writeBytes"}, "writes under the tag it was given"},
	{"C17", "tlv8", "(*writer).writeFloat32", 0, []string{"writeBytes"}, "writes under the tag it was given"},
	{"C17", "tlv8", "(*writer).writeString", 0, []string{"writeBytes"}, "writes under the tag it was given"},
	{"C17", "tlv8", "(*writer).writeString", 1, []string{"writeBytes"}, "writes the string it was given"},
	{"C17", "tlv8", "(*writer).writeBytes", 0, nil, "writes under the tag it was given"},
	{"C17", "tlv8", "(*writer).writeBytes", 1, nil, "writes the bytes it was given"},
	{"C17", "tlv8", "(*writer).write", 0, nil, "appends the bytes it was given"},
	{"C17", "tlv8", "(*encoder).write", 0, nil, "appends the bytes it was given"},
	{"C17", "tlv8", "Marshal", 0, nil, "encodes the value it was given"},
	{"C17", "tlv8", "Unmarshal", 0, nil, "decodes the bytes it was given"},
	{"C17", "tlv8", "Unmarshal", 1, nil, "decodes into the value it was given"},
	{"C17", "tlv8", "unmarshal", 0, nil, "decodes the bytes it was given"},
	{"C17", "tlv8", "unmarshal", 1, nil, "decodes into the value it was given"},
	{"C17", "tlv8", "newDecoder", 0, nil, "reads the bytes it was given"},
	{"C17", "tlv8", "(*encoder).encode", 0, nil, "encodes the value it was given"},
	{"C17", "tlv8", "(*encoder).encodeSlice", 0, nil, "encodes the value it was given"},
	{"C17", "tlv8", "(*decoder).decode", 0, nil, "decodes into the value it was given"},
	{"C17", "tlv8", "(*decoder).decodeSlice", 0, nil, "decodes into the value it was given"},
	{"C17", "tlv8", "structPayload", 0, nil, "encodes the struct it was given"},
	{"C17", "tlv8", "slicePayload", 0, nil, "encodes the slice it was given"},
	// --- TLV8 container (C16; C04 through the pairing messages)
	{"C16,C04", "util", "(*tlv8Container).GetByte", 0, nil, "reads the tag it was asked for"},
	{"C16,C04", "util", "(*tlv8Container).GetBytes", 0, nil, "reads the tag it was asked for"},
	{"C16,C04", "util", "(*tlv8Container).GetString", 0, nil, "reads the tag it was asked for"},
	{"C16,C04", "util", "(*tlv8Container).SetString", 0, nil, "stores under the tag it was given"},
	{"C16,C04", "util", "(*tlv8Container).SetString", 1, nil, "stores the string it was given"},
	{"C16,C04", "util", "(*tlv8Container).SetByte", 0, nil, "stores under the tag it was given"},
	// --- storage and database (C18; C19 shares the path function)
	{"C18", "util", "NewFileStorage", 0, []string{"Abs"}, "creates and uses the directory it was given"},
	{"C18", "db", "NewDatabase", 0, nil, "opens the directory it was given"},
	{"C18", "db", "(*database).entityForKey", 0, []string{"Get", "TrimSuffix"}, "reads the key it was given and takes the name from it"},
	{"C18,C20", "db", "NewRandomEntityWithName", 0, nil, "the entity has the name it was given"},
	// --- primitive wrappers (C04: the specification's inputs reach the primitive; C05: the directions differ in info only)
	{"C04", "crypto", "ED25519Signature", 0, []string{"Sign"}, "signs with the key it was given"},
	{"C04", "crypto", "ED25519Signature", 1, []string{"Sign"}, "signs the data it was given"},
	{"C04,C05", "crypto/hkdf", "Sha512", 0, nil, "derives from the secret it was given"},
	{"C04,C05", "crypto/hkdf", "Sha512", 1, nil, "derives with the salt it was given"},
	{"C04,C05", "crypto/hkdf", "Sha512", 2, nil, "derives with the info it was given"},
	{"C06,C04", "crypto", "packetsWithSizeFromBytes", 0, nil, "packets have the size it was given"},
	// --- characteristic values (C09: what is written is what arrives; C12: what is stored went through convert)
	{"C09,C12", "characteristic", "(*Characteristic).updateValue", 0, []string{"convert"}, "converts the value it was given"},
	{"C09,C12", "characteristic", "(*Characteristic).convert", 0, nil, "converts the value it was given"},
	{"C09,C10", "characteristic", "(*Characteristic).onValueUpdate", 1, nil, "callbacks receive the new value"},
	{"C09,C10", "characteristic", "(*Characteristic).onValueUpdate", 2, nil, "callbacks receive the old value"},
	{"C09,C10", "characteristic", "(*Characteristic).onValueUpdateFromConn", 1, nil, "callbacks receive the connection"},
	{"C09,C10", "characteristic", "(*Characteristic).onValueUpdateFromConn", 2, nil, "callbacks receive the new value"},
	{"C09,C10", "characteristic", "(*Characteristic).onValueUpdateFromConn", 3, nil, "callbacks receive the old value"},
	{"C09", "characteristic", "(*Bytes).SetValue", 0, []string{"base64FromBytes", "EncodeToString"}, "stores the bytes it was given"},
	{"C09", "characteristic", "base64FromBytes", 0, []string{"EncodeToString"}, "encodes the bytes it was given"},
	{"C09", "hap/http", "JSONEncode", 0, nil, "encodes the value it was given"},
	{"C09", "hap/http", "JSONDecode", 1, nil, "decodes into the value it was given"},
	{"C09", "hap/http", "WriteJSON", 2, nil, "writes the value it was given"},
	{"C09", "hap/http", "ReadJSON", 2, nil, "reads into the value it was given"},
	// --- the read path (C07): the count compared with len(b) is the count read into b
	{"C07", "hap", "(*Connection).DecryptedRead", 0, []string{"Read"}, "reads into the buffer whose length decides 'message done'"},
	// --- configuration and identity (C20)
	{"C20", "accessory", "deleteFieldFromDict", 1, nil, "removes the member it was asked to remove, at every depth"},
	{"C20", "accessory", "deleteFieldFromArray", 1, nil, "removes the member it was asked to remove, at every depth"},
	{"C20", "accessory", "deleteFieldFromInterface", 1, nil, "removes the member it was asked to remove, at every depth"},
	{"C20", "", "(*Config).updateConfigHash", 0, nil, "stores the hash it was given"},
	{"C20", "hap", "NewDevice", 0, nil, "looks up and creates the entity of the name it was given: one identity per name"},
	{"C20", "hap", "NewSecuredDevice", 0, nil, "the device of the name it was given"},
	{"C20", "hap", "NewSecuredDevice", 1, nil, "the pin it was given"},
	{"C20", "event", "(*eventEmitter).Emit", 0, nil, "listeners receive the event that was emitted"},
	{"C20", "", "ValidatePin", 0, []string{"compare"}, "the code that is compared with the table of trivial codes is the code that was given"},
	{"C20", "util", "XHMURI", 0, []string{"Replace", "ReplaceAll"}, "the setup payload carries the code it was given"},
	{"C02,C04", "hap/pair", "NewSetupServerSession", 1, []string{"ComputeVerifier"}, "the verifier is computed from the setup code it was given"},
}

// passThrough runs the table entries of one property.
func passThrough(c *core.Ctx, prop string) {
	n := 0
	for _, sp := range passTable {
		use := false
		for _, p := range strings.Split(sp.props, ",") {
			if p == prop {
				use = true
			}
		}
		if !use {
			continue
		}
		n++
		passThroughOne(c, sp)
	}
	c.Count("pass_through_entries", n)
}

func passThroughOne(c *core.Ctx, sp passSpec) {
	p := c.P
	f := p.Func(sp.rel, sp.fn)
	key := fmt.Sprintf("passes-through:%s#%d", sp.fn, sp.param)
	if f == nil || f.Blocks == nil {
		// the forwarder is gone (inlined into its callers, merged with a neighbour): nothing forwards, the callers are seen directly
		c.Note(key, token.NoPos, "the function does not exist on this tree: no forwarder, no obligation")
		return
	}
	if !p.SameSignatureAsReference(f) {
		c.Note(key, f.Pos(), "the function has another parameter list than the one the table was written for: not examined")
		return
	}
	idx := sp.param
	if core.Active.RecvOf(f) != nil {
		idx++
	}
	if idx >= len(f.Params) {
		c.Note(key, f.Pos(), "the function no longer has this parameter: not examined")
		return
	}
	P := f.Params[idx]

	unchanged := func(v ssa.Value, depth int) bool { return unchangedValue(v, P, depth) }
	// values computed from P (not through module calls, not through len/cap)
	memo := map[ssa.Value]bool{}
	var depends func(v ssa.Value, depth int) bool
	depends = func(v ssa.Value, depth int) bool {
		if v == ssa.Value(P) {
			return true
		}
		if depth > 10 || v == nil {
			return false
		}
		if r, ok := memo[v]; ok {
			return r
		}
		memo[v] = false
		res := false
		switch x := v.(type) {
		case *ssa.Call:
			if b, ok := x.Call.Value.(*ssa.Builtin); ok {
				if b.Name() == "len" || b.Name() == "cap" {
					break
				}
			} else if g := x.Call.StaticCallee(); g == nil || core.InModule(g) || !valueTransformer(g) {
				// dynamic calls and module functions are their own obligation; what a library object (a reader, a hash, a reflect.Value)
				// makes of the parameter is not "the parameter changed". Only the text and byte transformers of the standard library
				// (strings.ToLower, bytes.TrimSpace, norm.NFC.String, filepath.Clean, hex / base64 encoders …) count as computing a value
				// from it.
				break
			}
			for _, a := range x.Call.Args {
				if depends(a, depth+1) {
					res = true
				}
			}
		case *ssa.MakeSlice, *ssa.MakeMap, *ssa.MakeChan, *ssa.MakeClosure:
			// a fresh object: sized by, or closing over, the parameter is not "the parameter changed"
		case *ssa.UnOp:
			if a, ok := x.X.(*ssa.Alloc); ok && x.Op == token.MUL {
				for _, r := range *a.Referrers() {
					if st, isSt := r.(*ssa.Store); isSt && st.Addr == ssa.Value(a) && depends(st.Val, depth+1) {
						res = true
					}
				}
			} else {
				res = depends(x.X, depth+1)
			}
		case *ssa.Alloc:
			for _, r := range *x.Referrers() {
				if st, isSt := r.(*ssa.Store); isSt && st.Addr == ssa.Value(x) && depends(st.Val, depth+1) {
					res = true
				}
			}
		default:
			if ins, ok := v.(ssa.Instruction); ok {
				for _, op := range ins.Operands(nil) {
					if *op != nil && depends(*op, depth+1) {
						res = true
					}
				}
			}
		}
		memo[v] = res
		return res
	}

	wantSink := func(name string) bool {
		if len(sp.sinks) == 0 {
			return true
		}
		for _, s := range sp.sinks {
			if s == name {
				return true
			}
		}
		return false
	}
	type callSite struct {
		callee string
		args   []ssa.Value
		at     ssa.Instruction
	}
	var calls []callSite
	received := 0
	var transformed ssa.Instruction
	var check func(name string, v ssa.Value, at ssa.Instruction)
	check = func(name string, v ssa.Value, at ssa.Instruction) {
		if !wantSink(name) {
			return
		}
		if unchanged(v, 0) {
			received++
			return
		}
		// a merged variable ( converted = f / current / v ): each incoming value by itself
		if ph, ok := v.(*ssa.Phi); ok {
			seen := map[ssa.Value]bool{}
			var each func(x ssa.Value, depth int)
			each = func(x ssa.Value, depth int) {
				if seen[x] || depth > 6 {
					return
				}
				seen[x] = true
				if q, isPhi := x.(*ssa.Phi); isPhi {
					for _, e := range q.Edges {
						each(e, depth+1)
					}
					return
				}
				check(name, x, at)
			}
			each(ph, 0)
			return
		}
		if depends(v, 0) && transformed == nil {
			transformed = at
		}
	}
	core.Instrs(f, func(i ssa.Instruction) {
		switch x := i.(type) {
		case *ssa.Store:
			if _, local := x.Addr.(*ssa.Alloc); local {
				return // a local variable: looked through where it is read
			}
			check("store", x.Val, i)
		case *ssa.Return:
			for _, r := range x.Results {
				check("return", r, i)
			}
		case *ssa.MakeSlice:
			check("make", x.Len, i)
		case *ssa.MapUpdate:
			check("store", x.Key, i)
			check("store", x.Value, i)
		case *ssa.Send:
			check("send", x.X, i)
		case *ssa.BinOp:
			// comparisons are sinks only where the table asks for them
			if len(sp.sinks) > 0 && (x.Op == token.EQL || x.Op == token.NEQ) && types.Identical(x.X.Type(), P.Type()) {
				check("compare", x.X, i)
				check("compare", x.Y, i)
			}
		}
		cc := core.CallOf(i)
		if cc == nil {
			return
		}
		name := "dyn"
		if cc.IsInvoke() {
			name = cc.Method.Name()
		} else if g := cc.StaticCallee(); g != nil {
			if isLogFunc(g) {
				return
			}
			name = cn(g)
		} else if b, ok := cc.Value.(*ssa.Builtin); ok {
			switch b.Name() {
			case "len", "cap", "print", "println", "panic", "delete":
				return
			}
			name = b.Name()
		}
		args := cc.Args
		for _, a := range args {
			check(name, a, i)
		}
		if cc.IsInvoke() {
			check(name, cc.Value, i)
		}
		calls = append(calls, callSite{name, args, i})
	})
	// (3) consistency between the calls of one callee
	var deviant ssa.Instruction
	for _, a := range calls {
		if !wantSink(a.callee) || a.callee == "dyn" {
			continue
		}
		for k, v := range a.args {
			if !unchanged(v, 0) {
				continue
			}
			for _, b := range calls {
				if b.callee == a.callee && len(b.args) == len(a.args) && !unchanged(b.args[k], 0) {
					// ... a constant (nil, a literal) where the parameter goes elsewhere; another variable is another call
					if _, isConst := b.args[k].(*ssa.Const); isConst {
						deviant = b.at
					}
				}
			}
		}
	}
	what := fmt.Sprintf("%s: parameter %d — %s", sp.fn, sp.param, sp.why)
	switch {
	case transformed != nil:
		c.Bad(key, posOf(transformed), what+": a value computed from the parameter (cut, extended, shifted, passed through a function outside the module) goes where the parameter itself is expected: callers that rely on this function handing its argument on unchanged — and the rules that follow a value through it — are wrong about what arrives")
	case received == 0:
		c.Bad(key, f.Pos(), what+": the parameter is not handed on at all (something else goes in its place)")
	case deviant != nil:
		c.Bad(key, posOf(deviant), what+": one call of a function receives the parameter, another call of the same function in this body receives a constant at that position")
	default:
		c.OK(key, f.Pos(), "%s (%d sink(s) receive it unchanged)", sp.why, received)
	}
}

// unchangedValue: v is P re-wrapped — P itself, converted to an interface, string <-> []byte, sliced in full ( P[:], P[:len(P)] ),
// copied ( append([]T(nil), P...) ), read through a bytes/strings reader, or held by a local variable that holds nothing else.
func unchangedValue(v ssa.Value, P ssa.Value, depth int) bool {
	unchanged := func(x ssa.Value, d int) bool { return unchangedValue(x, P, d) }
	if v == ssa.Value(P) {
		return true
	}
	if depth > 8 || v == nil {
		return false
	}
	switch x := v.(type) {
	case *ssa.MakeInterface:
		return unchanged(x.X, depth+1)
	case *ssa.ChangeInterface:
		return unchanged(x.X, depth+1)
	case *ssa.ChangeType:
		return unchanged(x.X, depth+1)
	case *ssa.Convert:
		return sameContentConversion(x) && unchanged(x.X, depth+1)
	case *ssa.Slice:
		if x.Max != nil {
			return false
		}
		if x.High != nil {
			// P[:len(P)] is P
			hc, isCall := core.StripConv(x.High).(*ssa.Call)
			if !isCall {
				return false
			}
			bi, isB := hc.Call.Value.(*ssa.Builtin)
			if !isB || bi.Name() != "len" || !unchanged(hc.Call.Args[0], depth+1) {
				return false
			}
		}
		if x.Low != nil {
			if k, isK := core.ConstInt(x.Low); !isK || k != 0 {
				return false
			}
		}
		return unchanged(x.X, depth+1)
	case *ssa.Phi:
		for _, e := range x.Edges {
			if !unchanged(e, depth+1) {
				return false
			}
		}
		return len(x.Edges) > 0
	case *ssa.UnOp:
		if x.Op != token.MUL {
			return false
		}
		a, ok := x.X.(*ssa.Alloc)
		return ok && allocHoldsOnly(a, func(s ssa.Value) bool { return unchanged(s, depth+1) })
	case *ssa.Alloc:
		// &local handed on, the local holding P
		return allocHoldsOnly(x, func(s ssa.Value) bool { return unchanged(s, depth+1) })
	case *ssa.Call:
		if g := x.Call.StaticCallee(); g != nil {
			switch core.QualName(g) {
			case "bytes.NewReader", "bytes.NewBuffer", "bytes.NewBufferString", "strings.NewReader", "bufio.NewReader":
				return len(x.Call.Args) > 0 && unchanged(x.Call.Args[0], depth+1)
			}
		}
		if b, ok := x.Call.Value.(*ssa.Builtin); ok && b.Name() == "append" && len(x.Call.Args) == 2 {
			// append([]T(nil), P...) / append([]T{}, P...): a copy
			if emptySlice(x.Call.Args[0]) {
				return unchanged(x.Call.Args[1], depth+1)
			}
		}
	}
	return false
}

// valueTransformer: a function outside the module whose result is a changed rendering of its argument.
func valueTransformer(g *ssa.Function) bool {
	if g.Pkg == nil {
		return false
	}
	path := g.Pkg.Pkg.Path()
	if g.Signature.Recv() != nil && !strings.HasPrefix(path, "golang.org/x/text") && path != "encoding/hex" && path != "encoding/base64" {
		return false // methods of library objects (a buffer's Write, a builder's String)
	}
	switch {
	case path == "strings" || path == "bytes":
		return !strings.HasPrefix(g.Name(), "New")
	case path == "path" || path == "path/filepath" || path == "strconv" || path == "encoding/hex" || path == "encoding/base64" || path == "unicode" || path == "unicode/utf8":
		return true
	case strings.HasPrefix(path, "golang.org/x/text"):
		return true
	}
	return false
}

func sameContentConversion(cv *ssa.Convert) bool {
	kind := func(t types.Type) string {
		switch u := t.Underlying().(type) {
		case *types.Basic:
			if u.Info()&types.IsString != 0 {
				return "bytes"
			}
			return "basic:" + u.Name()
		case *types.Slice:
			if b, ok := u.Elem().Underlying().(*types.Basic); ok && b.Kind() == types.Uint8 {
				return "bytes"
			}
		}
		return t.String()
	}
	return kind(cv.X.Type()) == kind(cv.Type())
}

func allocHoldsOnly(a *ssa.Alloc, ok func(ssa.Value) bool) bool {
	n := 0
	for _, r := range *a.Referrers() {
		if st, isSt := r.(*ssa.Store); isSt && st.Addr == ssa.Value(a) {
			n++
			if !ok(st.Val) {
				return false
			}
		}
	}
	return n > 0
}

func emptySlice(v ssa.Value) bool {
	if core.IsNilConst(v) {
		return true
	}
	if k, ok := v.(*ssa.Const); ok && k.Value == nil {
		return true
	}
	switch x := v.(type) {
	case *ssa.Slice:
		if a, ok := x.X.(*ssa.Alloc); ok {
			if arr, isArr := a.Type().Underlying().(*types.Pointer).Elem().Underlying().(*types.Array); isArr && arr.Len() == 0 {
				return true
			}
		}
	case *ssa.MakeSlice:
		if k, isK := core.ConstInt(x.Len); isK && k == 0 {
			return true
		}
	case *ssa.Convert:
		return emptySlice(x.X)
	case *ssa.ChangeType:
		return emptySlice(x.X)
	}
	return false
}

func isLogFunc(g *ssa.Function) bool {
	if g.Pkg == nil {
		return false
	}
	path := g.Pkg.Pkg.Path()
	if path == "log" || strings.HasSuffix(path, "/hc/log") {
		return true
	}
	if path == "fmt" && (strings.HasPrefix(g.Name(), "Print") || strings.HasPrefix(g.Name(), "Sprint") || strings.HasPrefix(g.Name(), "Errorf") || strings.HasPrefix(g.Name(), "Fprint")) {
		return true
	}
	if recv := g.Signature.Recv(); recv != nil && strings.Contains(recv.Type().String(), "log.Logger") {
		return true
	}
	return false
}

package rules

import (
	"fmt"
	"go/ast"
	"go/constant"
	"go/token"
	"go/types"
	"reflect"
	"sort"
	"strings"

	"golang.org/x/tools/go/ssa"

	"hcsa/core"
)

const tConfig = mod + ".Config"

func init() {
	register(&core.Property{
		ID:    "C20",
		Level: "other",
		Explanation: "Start-up ordering and derivations in NewIPTransport and Config: the stored configuration is loaded before the device identity is used; every accessory is added before the content hash is taken; " +
			"the configuration number is updated before it is saved, and saved on every successful path; load and save use the same key constants; the version is incremented by 1 only under 'a stored hash exists and " +
			"differs' and the new hash is always stored; the JSON key removed before hashing is exactly the JSON member name of Characteristic.Value and the removal recurses through objects and arrays; every writer " +
			"of Config.discoverable derives it from the stored pairing set (isPaired reads Database.Entities on every path — no event counting), the sf record derives from that field, every endpoint that can store " +
			"or delete a pairing emits an event the transport handles, and every event type has a case reaching updateMDNSReachability; ValidatePin accepts only strings of byte length 8 whose bytes are compared with " +
			"'0' and '9' and that are not in the table of twelve trivial codes; the setup payload has the bit layout version:3 | reserved:4 | category:8 | flags:4 | code:27 in nine base-36 digits.",
		Assumptions: []string{"encoding/json sorts map keys", "dnssd propagates TXT updates"},
		NotDecided:  []string{"restart histories as such", "the bijection code <-> URI over all codes beyond the layout"},
		NeedsCG:     true,
		Rules: []core.Rule{
			{ID: "C20-R1", Title: "start-up ordering; load/save key agreement; key pair created only when absent", Decides: "device id, key pair and pairings survive restarts", Floor: 7, Run: func(c *core.Ctx) { c20r1(c); passThrough(c, "C20"); keyPairRouting(c); returnsUndecorated(c, "C20") }},
			{ID: "C20-R2", Title: "configuration number bump rule; every stored configuration key is read and written on every path", Decides: "c# increases exactly when the structure changed", Floor: 3, Run: func(c *core.Ctx) { c20r2(c); configKeysUnconditional(c) }},
			{ID: "C20-R3", Title: "values do not count in the content hash", Decides: "never because characteristic values changed", Floor: 4, Run: func(c *core.Ctx) { c20r3(c); valuePathsStoreOnlyValue(c) }},
			{ID: "C20-R4", Title: "discoverable derives from the stored pairings; events wired", Decides: "discoverable exactly when no controller pairing is stored", Floor: 9, Run: func(c *core.Ctx) {
				c20r4(c)
				listenersAreKept(c)
				nameProfileErrorHandled(c)
				polarityEverywhere(c, "C20")
			}},
			{ID: "C20-R5", Title: "setup code validation", Decides: "accepted exactly when eight digits and not a trivial code", Floor: 5, Run: func(c *core.Ctx) { c20r5(c); pinFormatted(c) }},
			{ID: "C20-R6", Title: "setup payload layout", Decides: "the setup URI decodes back to code, category and flags", Floor: 4, Run: c20r6},
		},
	})
}

func findCallTo(f *ssa.Function, pred func(*ssa.Function) bool) ssa.Instruction {
	var out ssa.Instruction
	core.Instrs(f, func(i ssa.Instruction) {
		if _, isDefer := i.(*ssa.Defer); isDefer {
			return
		}
		if g := core.Callee(i); g != nil && pred(g) && out == nil {
			out = i
		}
	})
	return out
}

func c20r1(c *core.Ctx) {
	configLoadPolarity(c)
	ownEntityProtected(c)
	p := c.P
	nt := p.Func("", "NewIPTransport")
	if nt == nil {
		c.Undecided("NewIPTransport", token.NoPos, "not found")
		return
	}
	named := func(n string) func(*ssa.Function) bool { return func(g *ssa.Function) bool { return cn(g) == n } }
	load := findCallTo(nt, named("load"))
	dev := findCallTo(nt, named("NewSecuredDevice"))
	hash := findCallTo(nt, named("ContentHash"))
	upd := findCallTo(nt, named("updateConfigHash"))
	save := findCallTo(nt, named("save"))
	var adds []ssa.Instruction
	core.Instrs(nt, func(i ssa.Instruction) {
		if g := core.Callee(i); g != nil && cn(g) == "addAccessory" {
			adds = append(adds, i)
		}
	})
	if load == nil || dev == nil || hash == nil || upd == nil || save == nil || len(adds) == 0 {
		c.Undecided("startup-anchors@"+fname(nt), nt.Pos(), "load / NewSecuredDevice / addAccessory / ContentHash / updateConfigHash / save not all found")
		return
	}
	c.Check(instrDominates(load, dev), "load-before-identity@"+fname(nt), posOf(load), "cfg.load precedes NewSecuredDevice on every path", "the device identity is created before the stored configuration is loaded: a new id / key pair is generated on every start")
	// device id argument is cfg.id of the loaded config
	idOK := core.AnySource(core.Args(dev)[0], func(s ssa.Value) bool { _, ok := core.FieldLoad(s, tConfig, "id"); return ok })
	c.Check(idOK, "identity-from-config@"+fname(nt), posOf(dev), "the device name is cfg.id", "the device is not created under the stored id")
	okAdds := true
	for _, a := range adds {
		if reachesAfter(hash, a) {
			okAdds = false
		}
	}
	c.Check(okAdds && instrDominates(adds[0], hash), "accessories-before-hash@"+fname(nt), posOf(hash), "every addAccessory precedes ContentHash", "the content hash is taken before all accessories are added")
	c.Check(instrDominates(hash, upd) && instrDominates(upd, save), "hash-update-save-order@"+fname(nt), posOf(save), "ContentHash, updateConfigHash, save in this order", "the configuration is saved before the configuration number is updated")
	// save on every successful return
	ok := true
	core.Instrs(nt, func(i ssa.Instruction) {
		if r, isR := i.(*ssa.Return); isR {
			rs := res(r)
			if len(rs) == 2 && !core.IsNilConst(rs[0]) && !instrDominates(save, r) {
				ok = false
			}
		}
	})
	c.Check(ok, "save-on-success@"+fname(nt), posOf(save), "every return of a transport is preceded by cfg.save", "a transport can be returned without the configuration having been saved")
	// load/save keys
	keysOf := func(fn, method string) []string {
		f := p.Func("", fn)
		var out []string
		if f == nil {
			return nil
		}
		core.Instrs(f, func(i ssa.Instruction) {
			if core.IsInvoke(i, qStorage, method) {
				if s, ok := core.ConstString(core.Args(i)[0]); ok {
					out = append(out, s)
				}
			}
		})
		sort.Strings(out)
		return out
	}
	lk, sk := keysOf("(*Config).load", "Get"), keysOf("(*Config).save", "Set")
	c.Check(len(lk) >= 3 && fmt.Sprint(lk) == fmt.Sprint(sk), "load-save-keys", token.NoPos, fmt.Sprintf("load and save use the same keys %v", lk), fmt.Sprintf("load reads %v but save writes %v: a stored value is never read back", lk, sk))
	// field <-> key agreement
	if ld, sv := p.Func("", "(*Config).load"), p.Func("", "(*Config).save"); ld != nil && sv != nil {
		lmap, smap := map[string]string{}, map[string]string{}
		// load: the Store to field F dominated by/after Get(key): pair by block
		core.Instrs(ld, func(i ssa.Instruction) {
			st, ok := i.(*ssa.Store)
			if !ok {
				return
			}
			fa, ok := st.Addr.(*ssa.FieldAddr)
			if !ok || !core.TypeIs(fa.X.Type(), tConfig) {
				return
			}
			for _, s := range core.Sources(st.Val) {
				walkArgs(s, 4, func(v ssa.Value) {
					if e, ok := v.(*ssa.Extract); ok {
						if call, ok := e.Tuple.(*ssa.Call); ok && core.IsInvoke(call, qStorage, "Get") {
							if k, ok := core.ConstString(call.Call.Args[0]); ok {
								lmap[fieldNameOf(fa)] = k
							}
						}
					}
				})
			}
		})
		core.Instrs(sv, func(i ssa.Instruction) {
			if !core.IsInvoke(i, qStorage, "Set") {
				return
			}
			k, _ := core.ConstString(core.Args(i)[0])
			walkArgs(core.Args(i)[1], 5, func(v ssa.Value) {
				for _, fld := range []string{"id", "version", "configHash"} {
					if _, ok := core.FieldLoad(v, tConfig, fld); ok {
						smap[fld] = k
					}
				}
			})
		})
		okm := len(lmap) >= 3
		for f, k := range lmap {
			if smap[f] != k {
				okm = false
			}
		}
		c.Check(okm, "field-key-agreement", ld.Pos(), fmt.Sprintf("each field is saved and loaded under the same key %v", lmap), fmt.Sprintf("fields are loaded from %v but saved to %v", lmap, smap))
		// version format
		dec := false
		core.Instrs(sv, func(i ssa.Instruction) {
			if core.IsCall(i, "fmt.Sprintf") {
				if s, ok := core.ConstString(core.Args(i)[0]); ok && (s == "%d" || s == "%v") {
					dec = true
				}
			}
			// the same bytes by way of strconv
			if core.IsCall(i, "strconv.Itoa") {
				dec = true
			}
			if core.IsCall(i, "strconv.FormatInt") || core.IsCall(i, "strconv.FormatUint") {
				if base, ok := core.ConstInt(core.Args(i)[1]); ok && base == 10 {
					dec = true
				}
			}
		})
		c.Check(dec, "version-decimal", sv.Pos(), "the version is written as a decimal integer", "the version is not written as a decimal integer")
	}
	// NewDevice: key pair created only when the lookup fails, and saved
	if nd := p.Func("hap", "NewDevice"); nd != nil {
		gen := findCallTo(nd, named("NewRandomEntityWithName"))
		var save2 ssa.Instruction
		core.Instrs(nd, func(i ssa.Instruction) {
			if core.IsInvoke(i, qDatabase, "SaveEntity") {
				save2 = i
			}
		})
		lookupFailed := core.NonNilFact(func(v ssa.Value) bool {
			return core.AnySource(v, func(s ssa.Value) bool {
				return core.CallResult(s, 1, func(i ssa.Instruction) bool { return core.IsInvoke(i, qDatabase, "EntityWithName") }) != nil
			})
		})
		c.Check(gen != nil && core.Dominated(gen, lookupFailed), "keypair-only-when-absent@"+fname(nd), nd.Pos(), "a key pair is generated only on the failure branch of EntityWithName", "a new key pair can be generated although one is stored")
		c.Check(save2 != nil && gen != nil && reachesAfter(gen, save2), "keypair-saved@"+fname(nd), nd.Pos(), "the generated entity is saved", "a generated key pair is not saved")
	}
}

// walkArgs visits v and, through calls and conversions, the values it is computed from (bounded depth).
func walkArgs(v ssa.Value, depth int, f func(ssa.Value)) {
	if v == nil || depth == 0 {
		return
	}
	f(v)
	for _, s := range core.Sources(v) {
		f(s)
		switch x := s.(type) {
		case *ssa.Call:
			for _, a := range x.Call.Args {
				walkArgs(a, depth-1, f)
			}
		case *ssa.Extract:
			if call, ok := x.Tuple.(*ssa.Call); ok {
				for _, a := range call.Call.Args {
					walkArgs(a, depth-1, f)
				}
			}
		}
	}
}

func c20r2(c *core.Ctx) {
	p := c.P
	f := p.Func("", "(*Config).updateConfigHash")
	if f == nil {
		c.Undecided("updateConfigHash", token.NoPos, "not found")
		return
	}
	var inc, setHash *ssa.Store
	core.Instrs(f, func(i ssa.Instruction) {
		st, ok := i.(*ssa.Store)
		if !ok {
			return
		}
		if _, ok := core.FieldAddrOf(st.Addr, tConfig, "version"); ok {
			inc = st
		}
		if _, ok := core.FieldAddrOf(st.Addr, tConfig, "configHash"); ok {
			setHash = st
		}
	})
	if inc == nil || setHash == nil {
		c.Undecided("version/hash stores@"+fname(f), f.Pos(), "not found")
		return
	}
	one := false
	if b, ok := inc.Val.(*ssa.BinOp); ok && b.Op == token.ADD {
		if n, ok := core.ConstInt(b.Y); ok && n == 1 {
			if _, ok := core.FieldLoad(b.X, tConfig, "version"); ok {
				one = true
			}
		}
	}
	c.Check(one, "bump-by-one@"+fname(f), inc.Pos(), "version = version + 1", "the configuration number is not incremented by exactly 1")
	hasStored := core.NonNilFact(func(v ssa.Value) bool { _, ok := core.FieldLoad(v, tConfig, "configHash"); return ok })
	differs := core.FalseFact(func(v ssa.Value) bool {
		call, ok := v.(*ssa.Call)
		return ok && (core.IsCall(call, "reflect.DeepEqual") || core.IsCall(call, "bytes.Equal"))
	})
	c.Check(core.Dominated(inc, hasStored) && core.Dominated(inc, differs), "bump-only-when-changed@"+fname(f), inc.Pos(), "the increment is dominated by 'a stored hash exists' and 'hashes differ'", "the configuration number can increase although no stored hash exists or the hashes are equal")
	always := true
	core.Instrs(f, func(i ssa.Instruction) {
		if r, ok := i.(*ssa.Return); ok && !instrDominates(setHash, r) {
			always = false
		}
	})
	c.Check(always && setHash.Val == ssa.Value(f.Params[1]), "hash-always-stored@"+fname(f), setHash.Pos(), "the new hash is stored on every path", "the new hash is not stored on every path: the same change bumps the number again at the next start")
}

func c20r3(c *core.Ctx) {
	contentHashCovers(c)
	p := c.P
	f := p.Func("accessory", "(*Container).ContentHash")
	if f == nil {
		c.Undecided("ContentHash", token.NoPos, "not found")
		return
	}
	tag := ""
	if pk := p.Pkg("characteristic"); pk != nil {
		if tn, ok := pk.Types.Scope().Lookup("Characteristic").(*types.TypeName); ok {
			st := tn.Type().Underlying().(*types.Struct)
			for i := 0; i < st.NumFields(); i++ {
				if p.CanonFieldName(st.Field(i)) == "Value" {
					tag = strings.Split(reflect.StructTag(st.Tag(i)).Get("json"), ",")[0]
				}
			}
		}
	}
	removed := ""
	core.Instrs(f, func(i ssa.Instruction) {
		if g := core.Callee(i); g != nil && cn(g) == "deleteFieldFromDict" {
			removed, _ = core.ConstString(core.Args(i)[1])
		}
	})
	if p.Func("accessory", "deleteFieldFromDict") == nil {
		// the removal under other names (one recursive function with a type switch, say): examined by structure
		c20r3Structural(c, f, tag)
		c20r3Hash(c, f)
		return
	}
	c.Check(tag != "" && removed == tag, "hash-excludes-value-key", f.Pos(), fmt.Sprintf("the key removed before hashing is %q, the JSON name of Characteristic.Value", tag),
		fmt.Sprintf("the key removed before hashing is %q but Characteristic.Value is encoded as %q: value changes bump the configuration number (or a structural member is ignored)", removed, tag))
	calls := func(fn string, callee string) bool {
		g := p.Func("accessory", fn)
		ok := false
		if g != nil {
			core.Instrs(g, func(i ssa.Instruction) {
				if h := core.Callee(i); h != nil && cn(h) == callee {
					ok = true
				}
			})
		}
		return ok
	}
	c.Check(calls("deleteFieldFromDict", "deleteFieldFromInterface") && calls("deleteFieldFromInterface", "deleteFieldFromDict") && calls("deleteFieldFromInterface", "deleteFieldFromArray") && calls("deleteFieldFromArray", "deleteFieldFromInterface"),
		"removal-recurses", f.Pos(), "the removal recurses through objects and arrays", "the removal of the value key does not recurse through both objects and arrays")
	// the deletion compares the map key with the field parameter and deletes that key
	if g := p.Func("accessory", "deleteFieldFromDict"); g != nil {
		ok := false
		core.Instrs(g, func(i ssa.Instruction) {
			if call, isC := i.(*ssa.Call); isC {
				if b, isB := call.Call.Value.(*ssa.Builtin); isB && b.Name() == "delete" {
					ok = true
				}
			}
		})
		c.Check(ok, "removal-deletes", g.Pos(), "matching keys are deleted from the decoded object", "deleteFieldFromDict does not delete")
	}
	c20r3Hash(c, f)
}

// c20r3Structural: ContentHash hands the decoded structure and a constant key to a family of mutually recursive functions of the
// package which (1) range over a map[string]interface{}, delete the matching key and recurse into the other values, (2) range over a
// []interface{} and recurse into its elements, and (3) tell the two apart by type assertion.
func c20r3Structural(c *core.Ctx, f *ssa.Function, tag string) {
	var entry *ssa.Function
	removed := ""
	core.Instrs(f, func(i ssa.Instruction) {
		g := core.Callee(i)
		if g == nil || !core.InModule(g) || g.Blocks == nil || g.Pkg != f.Pkg {
			return
		}
		for _, a := range core.CallOf(i).Args {
			if k, isK := core.ConstString(a); isK && isString(a.Type()) {
				entry, removed = g, k
			}
		}
	})
	c.Check(tag != "" && removed == tag && entry != nil, "hash-excludes-value-key", f.Pos(), fmt.Sprintf("the key removed before hashing is %q, the JSON name of Characteristic.Value", tag),
		fmt.Sprintf("the key removed before hashing is %q but Characteristic.Value is encoded as %q: value changes bump the configuration number (or a structural member is ignored)", removed, tag))
	if entry == nil {
		return
	}
	family := map[*ssa.Function]bool{}
	var visit func(g *ssa.Function)
	visit = func(g *ssa.Function) {
		if family[g] {
			return
		}
		family[g] = true
		core.Instrs(g, func(i ssa.Instruction) {
			if h := core.Callee(i); h != nil && core.InModule(h) && h.Blocks != nil && h.Pkg == g.Pkg {
				visit(h)
			}
		})
	}
	visit(entry)
	isDict := func(t types.Type) bool {
		m, ok := t.Underlying().(*types.Map)
		return ok && isString(m.Key()) && types.IsInterface(m.Elem())
	}
	isArr := func(t types.Type) bool {
		sl, ok := t.Underlying().(*types.Slice)
		return ok && types.IsInterface(sl.Elem())
	}
	// an element of a map / slice being ranged over, possibly through a loop variable whose address is passed on
	var elemOf func(v ssa.Value, dict bool, depth int) bool
	elemOf = func(v ssa.Value, dict bool, depth int) bool {
		if depth > 4 {
			return false
		}
		if a, ok := v.(*ssa.Alloc); ok {
			for _, r := range *a.Referrers() {
				if st, isSt := r.(*ssa.Store); isSt && st.Addr == ssa.Value(a) && elemOf(st.Val, dict, depth+1) {
					return true
				}
			}
			return false
		}
		for _, s := range core.Sources(v) {
			if e, ok := s.(*ssa.Extract); ok && dict && e.Index == 2 {
				if nx, ok := e.Tuple.(*ssa.Next); ok {
					if rg, ok := nx.Iter.(*ssa.Range); ok && isDict(rg.X.Type()) {
						return true
					}
				}
			}
			if u, ok := s.(*ssa.UnOp); ok && !dict && u.Op == token.MUL {
				if ia, ok := u.X.(*ssa.IndexAddr); ok && isArr(ia.X.Type()) {
					return true
				}
			}
		}
		return false
	}
	dictRec, arrRec, deletes, asDict, asArr := false, false, false, false, false
	for g := range family {
		core.Instrs(g, func(i ssa.Instruction) {
			switch x := i.(type) {
			case *ssa.TypeAssert:
				if isDict(x.AssertedType) {
					asDict = true
				}
				if isArr(x.AssertedType) {
					asArr = true
				}
			case *ssa.Call:
				if b, isB := x.Call.Value.(*ssa.Builtin); isB && b.Name() == "delete" && len(x.Call.Args) == 2 && isDict(x.Call.Args[0].Type()) {
					deletes = true
				}
				if h := x.Call.StaticCallee(); h != nil && family[h] {
					for _, a := range x.Call.Args {
						if elemOf(a, true, 0) {
							dictRec = true
						}
						if elemOf(a, false, 0) {
							arrRec = true
						}
					}
				}
			}
		})
	}
	// the entry may take the map as such: then no assertion is needed to get into the dictionary case from ContentHash, but values
	// inside are interface{} and need both
	c.Check(dictRec && arrRec && asDict && asArr, "removal-recurses", entry.Pos(), "the removal recurses through objects and arrays (the values of every object and the elements of every array are handed back to it, told apart by type assertion)",
		"the removal of the value key does not recurse through both objects and arrays")
	c.Check(deletes, "removal-deletes", entry.Pos(), "matching keys are deleted from the decoded object", "the removal does not delete")
}

func c20r3Hash(c *core.Ctx, f *ssa.Function) {
	// hash input: json.Marshal of the decoded map (sorted keys)
	viaMap := false
	core.Instrs(f, func(i ssa.Instruction) {
		if core.IsCall(i, "encoding/json.Marshal") {
			if mi, ok := core.Args(i)[0].(*ssa.MakeInterface); ok {
				if _, isMap := mi.X.Type().Underlying().(*types.Map); isMap {
					viaMap = true
				}
			}
		}
	})
	c.Check(viaMap, "hash-of-sorted-encoding", f.Pos(), "the hash input is encoding/json's (key-sorted) encoding of the decoded map", "the hash input is not the re-encoded map")
	// numbers survive the detour through the generic map: encoding/json decodes a number into interface{} as float64 unless the
	// decoder was told UseNumber. Accessory ids are uint64 (an EUI-64 of a bridged device, say) and integer limits are ints: two
	// structures that differ in such a number above 2^53 have the same hash, and the configuration number does not move
	exact, viaUnmarshal := false, false
	core.Instrs(f, func(i ssa.Instruction) {
		if core.IsCall(i, "encoding/json.Unmarshal") {
			viaUnmarshal = true
		}
		if core.IsCall(i, "(*encoding/json.Decoder).UseNumber") {
			exact = true
		}
	})
	c.Check(exact && !viaUnmarshal, "hash-numbers-exact@"+fname(f), f.Pos(), "the structure is decoded with UseNumber: numbers enter the hash as they are written",
		"the structure is decoded into a generic map without UseNumber: every number becomes a float64, ids and limits above 2^53 that differ in the low bits collapse — a changed accessory id (an EUI-64 used as aid) leaves the configuration number where it was")
}

func c20r4(c *core.Ctx) {
	transportAnnouncement(c)
	p := c.P
	isPaired := p.Func("", "(*ipTransport).isPaired")
	if isPaired == nil {
		c.Undecided("isPaired", token.NoPos, "not found")
		return
	}
	// every return reads the database on its path
	reads := true
	n := 0
	core.EnumPaths(isPaired, 2, 1000, func(pa core.Path) {
		n++
		has := false
		pa.Instrs(func(i ssa.Instruction) {
			if core.IsInvoke(i, qDatabase, "Entities") {
				has = true
			}
		})
		if !has {
			reads = false
		}
	})
	c.Check(reads && n > 0, "isPaired-reads-database", isPaired.Pos(), "isPaired derives its answer from Database.Entities() on every path",
		"isPaired does not read the stored pairings (it answers from a counter or a cached flag): repeated or failed add/remove requests make the advertised flag drift from what is stored")
	// paired means: a controller is stored. Controllers are stored with their public key only; an entity that holds a private key is
	// a key pair of the accessory itself — the one in use, or one left behind by a start that failed after the device entity was
	// written and before the id was saved (the next start draws a new id and a new key pair). Counting entities ("more than one")
	// takes such a left-over for a controller: the accessory is "paired" with nobody, for ever.
	perEntity := false
	core.Instrs(isPaired, func(i ssa.Instruction) {
		if call, ok := i.(*ssa.Call); ok {
			if bi, isB := call.Call.Value.(*ssa.Builtin); isB && bi.Name() == "len" {
				if _, isPK := core.FieldLoad(call.Call.Args[0], mod+"/db.Entity", "PrivateKey"); isPK {
					perEntity = true
				}
				if f, isF := call.Call.Args[0].(*ssa.Field); isF && core.FieldName(f) == mod+"/db.Entity.PrivateKey" {
					perEntity = true
				}
			}
		}
	})
	c.Check(perEntity, "isPaired-counts-controllers", isPaired.Pos(), "an entity counts as a pairing when it holds no private key", "isPaired counts stored entities instead of stored controllers: a key-pair entity left behind by a start that did not complete (the device entity is written before the id is saved) makes the accessory 'paired' — not discoverable — although no controller is stored")
	// writers of discoverable
	n = 0
	for _, st := range p.FieldStores(tConfig, "discoverable") {
		f := st.Parent()
		if isTestFunc(p, f) {
			continue
		}
		n++
		key := "write:Config.discoverable@" + fname(f)
		switch {
		case cn(f) == "defaultConfig":
			v, isK := core.ConstInt(st.Val)
			c.Check(isK && v == 1, key, st.Pos(), "default: discoverable", "the default is not 'discoverable'")
		default:
			fromPaired := core.AnySource(st.Val, func(s ssa.Value) bool {
				found := false
				walkArgs(s, 3, func(v ssa.Value) {
					if call, ok := v.(*ssa.Call); ok && core.Callee(call) == isPaired {
						found = true
					}
					if b, ok := v.(*ssa.BinOp); ok {
						for _, o := range []ssa.Value{b.X, b.Y} {
							if call, ok := o.(*ssa.Call); ok && core.Callee(call) == isPaired {
								found = true
							}
						}
					}
				})
				return found
			})
			constFalseUnderPaired := false
			if v, isK := core.ConstInt(st.Val); isK && v == 0 {
				constFalseUnderPaired = core.Dominated(st, core.TrueFact(func(x ssa.Value) bool { call, ok := x.(*ssa.Call); return ok && core.Callee(call) == isPaired }))
			}
			c.Check(fromPaired || constFalseUnderPaired, key, st.Pos(), "derived from isPaired()", "Config.discoverable is written from something other than isPaired()")
		}
	}
	if n < 3 {
		c.Bad("write:Config.discoverable", token.NoPos, "expected the default, the start-up and the event-driven writer of Config.discoverable")
	}
	// the new state is pushed to the responder: the event-driven writer hands the text records of the configuration to the service
	// handle, where there is one (before Start there is none; the records are read when the service is registered)
	if f := p.Func("", "(*ipTransport).updateMDNSReachability"); f != nil {
		var push ssa.Instruction
		core.Instrs(f, func(i ssa.Instruction) {
			if cc := core.CallOf(i); cc != nil && cc.IsInvoke() && cc.Method.Name() == "UpdateText" {
				push = i
			}
		})
		if push == nil {
			c.Bad("reachability-update-pushed@"+fname(f), f.Pos(), "the writer of Config.discoverable that runs on pairing events does not hand the text records to the responder (no UpdateText): the advertisement keeps the state of the start — a freshly paired accessory stays discoverable, one whose last pairing was removed cannot be found")
		} else {
			fromCfg := core.AnySource(core.CallOf(push).Args[0], func(sv ssa.Value) bool {
				call, ok := sv.(*ssa.Call)
				return ok && core.Callee(call) != nil && cn(core.Callee(call)) == "txtRecords"
			})
			h := core.CallOf(push).Value
			_, hIsField := core.FieldLoad(h, mod+".ipTransport", "handle")
			guarded := core.Dominated(push, core.NonNilFact(func(v ssa.Value) bool {
				if v == h || sameValue(v, h) {
					return true
				}
				_, isField := core.FieldLoad(v, mod+".ipTransport", "handle")
				return isField && hIsField
			}))
			afterStore := false
			for _, st := range p.FieldStores(tConfig, "discoverable") {
				if st.Parent() == f && reachesAfter(st, push) {
					afterStore = true
				}
			}
			c.Check(fromCfg && guarded && afterStore, "reachability-update-pushed@"+fname(f), posOf(push), "after the new state is stored, the configuration's text records go to the service handle where there is one",
				"the text records handed to the responder are not the configuration's, the update is not made on the branch where a service handle exists (test inverted), or it is made before the new state is stored: the advertisement does not follow the stored pairings")
		}
	}
	// what is registered is a HAP service in the local domain (controllers browse for exactly that)
	if f := p.Func("", "newService"); f != nil {
		got := map[string]string{}
		core.Instrs(f, func(i ssa.Instruction) {
			st, ok := i.(*ssa.Store)
			if !ok {
				return
			}
			for _, fld := range []string{"Type", "Domain"} {
				if _, isF := core.FieldAddrOf(st.Addr, "github.com/brutella/dnssd.Config", fld); isF {
					if k, isK := core.ConstString(st.Val); isK {
						got[fld] = k
					} else {
						got[fld] = "(not a constant)"
					}
				}
			}
		})
		c.Check(got["Type"] == "_hap._tcp" && got["Domain"] == "local", "service-type-and-domain@"+fname(f), f.Pos(), "registered as _hap._tcp in local",
			fmt.Sprintf("the service is registered as %q in %q: controllers browse for _hap._tcp in local, the accessory is not found", got["Type"], got["Domain"]))
	}
	// sf from the field
	if f := p.Func("", "(Config).txtRecords"); f != nil {
		ok := false
		core.Instrs(f, func(i ssa.Instruction) {
			if mu, isMU := i.(*ssa.MapUpdate); isMU {
				if k, isK := core.ConstString(mu.Key); isK && k == "sf" {
					walkArgs(mu.Value, 5, func(v ssa.Value) {
						if fl, ok2 := v.(*ssa.Field); ok2 {
							st, _ := fl.X.Type().Underlying().(*types.Struct)
							if st != nil && p.CanonFieldName(st.Field(fl.Field)) == "discoverable" {
								ok = true
							}
						}
						if _, ok2 := core.FieldLoad(v, tConfig, "discoverable"); ok2 {
							ok = true
						}
					})
				}
			}
		})
		c.Check(ok, "sf-from-discoverable", f.Pos(), "the sf record is computed from Config.discoverable", "the sf record is not computed from Config.discoverable")
	} else {
		c.Undecided("txtRecords", token.NoPos, "not found")
	}
	// endpoints that can reach SaveEntity/DeleteEntity emit events
	for _, spec := range []struct{ rel, fn string }{{"hap/endpoint", "(*PairSetup).ServeHTTP"}, {"hap/endpoint", "(*Pairing).ServeHTTP"}} {
		f := p.Func(spec.rel, spec.fn)
		if f == nil {
			c.Undecided(spec.fn, token.NoPos, "not found")
			continue
		}
		emits := map[string]bool{}
		core.Instrs(f, func(i ssa.Instruction) {
			if core.IsInvoke(i, mod+"/event.Emitter", "Emit") {
				if mi, ok := core.Args(i)[0].(*ssa.MakeInterface); ok {
					emits[mi.X.Type().String()] = true
				}
			}
		})
		want := []string{mod + "/event.DevicePaired"}
		if strings.Contains(spec.fn, "Pairing)") {
			want = append(want, mod+"/event.DeviceUnpaired")
		}
		ok := true
		for _, w := range want {
			if !emits[w] {
				ok = false
			}
		}
		c.Check(ok, "emits-events@"+fname(f), f.Pos(), "emits the pairing events after handling", "the endpoint does not emit the pairing event(s): the advertised flag is not refreshed after a change of the pairing set")
	}
	// the transport listens and handles every event type
	if nt := p.Func("", "NewIPTransport"); nt != nil {
		ok := false
		core.Instrs(nt, func(i ssa.Instruction) {
			if core.IsInvoke(i, mod+"/event.Emitter", "AddListener") {
				ok = true
			}
		})
		c.Check(ok, "transport-listens", nt.Pos(), "the transport registers itself as event listener", "the transport does not register as event listener")
	}
	if h := p.Func("", "(*ipTransport).Handle"); h != nil {
		cases := typeSwitchCases(h)
		var evTypes []string
		if pk := p.Pkg("event"); pk != nil {
			for _, n := range pk.Types.Scope().Names() {
				if tn, ok := pk.Types.Scope().Lookup(n).(*types.TypeName); ok {
					if _, isStruct := tn.Type().Underlying().(*types.Struct); isStruct && tn.Exported() {
						evTypes = append(evTypes, tn.Type().String())
					}
				}
			}
		}
		for _, et := range evTypes {
			blk := cases[et]
			ok := false
			if blk != nil {
				for _, i := range blk.Instrs {
					if g := core.Callee(i); g != nil && cn(g) == "updateMDNSReachability" {
						ok = true
					}
				}
			}
			c.Check(ok, "handles:"+core.Rel(et), h.Pos(), "has a case that refreshes the advertised flag", "event type "+core.Rel(et)+" has no case reaching updateMDNSReachability")
		}
	} else {
		c.Undecided("ipTransport.Handle", token.NoPos, "not found")
	}
}

func c20r5(c *core.Ctx) {
	p := c.P
	f := p.Func("", "ValidatePin")
	if f == nil {
		c.Undecided("ValidatePin", token.NoPos, "not found")
		return
	}
	pin := f.Params[0]
	// success returns
	var succ []*ssa.Return
	core.Instrs(f, func(i ssa.Instruction) {
		if r, ok := i.(*ssa.Return); ok {
			if rs := res(r); len(rs) == 2 && core.IsNilConst(rs[1]) {
				succ = append(succ, r)
			}
		}
	})
	if len(succ) == 0 {
		c.Undecided("success-return@"+fname(f), f.Pos(), "no nil-error return")
		return
	}
	lenIs8 := func(cond ssa.Value) (bool, bool) {
		b, ok := cond.(*ssa.BinOp)
		if !ok {
			return false, false
		}
		isByteLen := func(v ssa.Value) bool {
			call, ok := v.(*ssa.Call)
			if !ok {
				return false
			}
			bi, ok := call.Call.Value.(*ssa.Builtin)
			if !ok || bi.Name() != "len" {
				return false
			}
			a := call.Call.Args[0]
			if a == ssa.Value(pin) {
				return true
			}
			// len([]byte(pin))
			if cv, ok := a.(*ssa.Convert); ok && cv.X == ssa.Value(pin) {
				if sl, ok := cv.Type().Underlying().(*types.Slice); ok {
					if bt, ok := sl.Elem().Underlying().(*types.Basic); ok && bt.Kind() == types.Uint8 {
						return true
					}
				}
			}
			return false
		}
		if k, isK := core.ConstInt(b.Y); isK && k == 8 && isByteLen(b.X) {
			switch b.Op {
			case token.EQL:
				return true, false
			case token.NEQ:
				return false, true
			}
		}
		return false, false
	}
	okLen := true
	for _, r := range succ {
		if !core.Dominated(r, lenIs8) {
			okLen = false
		}
	}
	c.Check(okLen, "length-8-bytes@"+fname(f), f.Pos(), "acceptance is dominated by len(pin) == 8 (bytes)", "a code is accepted without its byte length being 8 (e.g. the length is counted in runes): codes that are not eight ASCII digits pass")
	// digit test: bytes compared with '0' and '9'
	lo, hi := false, false
	core.Instrs(f, func(i ssa.Instruction) {
		b, ok := i.(*ssa.BinOp)
		if !ok {
			return
		}
		isByte := func(v ssa.Value) bool {
			bt, ok := v.Type().Underlying().(*types.Basic)
			return ok && bt.Kind() == types.Uint8
		}
		if k, isK := core.ConstInt(b.Y); isK && isByte(b.X) {
			if (b.Op == token.LSS || b.Op == token.GEQ) && k == '0' {
				lo = true
			}
			if (b.Op == token.GTR || b.Op == token.LEQ) && k == '9' {
				hi = true
			}
		}
	})
	usesUnicode := false
	core.Instrs(f, func(i ssa.Instruction) {
		if g := core.Callee(i); g != nil && g.Pkg != nil && g.Pkg.Pkg.Path() == "unicode" {
			usesUnicode = true
		}
	})
	// equivalent test: strconv.ParseUint(pin, 10, n) succeeds exactly for non-empty strings of ASCII digits (no sign, unlike Atoi / ParseInt)
	byParse := false
	core.Instrs(f, func(i ssa.Instruction) {
		call, ok := i.(*ssa.Call)
		if !ok || !core.IsCall(call, "strconv.ParseUint") {
			return
		}
		if base, isK := core.ConstInt(core.Args(call)[1]); !isK || base != 10 {
			return
		}
		parsed := errNilFact(1, func(ci ssa.Instruction) bool { return ci == ssa.Instruction(call) })
		all := len(succ) > 0
		for _, r := range succ {
			if !core.Dominated(r, parsed) {
				all = false
			}
		}
		if all {
			byParse = true
		}
	})
	c.Check((lo && hi || byParse) && !usesUnicode, "ascii-digits@"+fname(f), f.Pos(), "every byte is compared with '0' and '9'", "digits are not tested as bytes in '0'..'9' (unicode digit classes accept non-ASCII digits)")
	// the trivial-code table
	want := []string{"00000000", "11111111", "22222222", "33333333", "44444444", "55555555", "66666666", "77777777", "88888888", "99999999", "12345678", "87654321"}
	sort.Strings(want)
	var got []string
	// the table is the package-level list of strings ValidatePin walks (whatever it is called)
	tableName := "invalidPins"
	core.Instrs(f, func(i ssa.Instruction) {
		u, ok := i.(*ssa.UnOp)
		if !ok || u.Op != token.MUL {
			return
		}
		g, ok := u.X.(*ssa.Global)
		if !ok || g.Pkg != f.Pkg {
			return
		}
		if sl, isSl := u.Type().Underlying().(*types.Slice); isSl {
			if b, isB := sl.Elem().Underlying().(*types.Basic); isB && b.Kind() == types.String {
				tableName = g.Name()
			}
		}
	})
	if pk := p.Pkg(""); pk != nil {
		for _, file := range pk.Syntax {
			ast.Inspect(file, func(n ast.Node) bool {
				vs, ok := n.(*ast.ValueSpec)
				if !ok || len(vs.Names) != 1 || vs.Names[0].Name != tableName || len(vs.Values) != 1 {
					return true
				}
				if cl, ok := vs.Values[0].(*ast.CompositeLit); ok {
					for _, e := range cl.Elts {
						if v := constOf(pk.TypesInfo, e); v != nil && v.Kind() == constant.String {
							got = append(got, constant.StringVal(v))
						}
					}
				}
				return true
			})
		}
	}
	sort.Strings(got)
	c.Check(fmt.Sprint(got) == fmt.Sprint(want), "trivial-code-table", f.Pos(), "the table equals the specification's twelve trivial codes", fmt.Sprintf("the trivial-code table is %v, the specification lists %v", got, want))
	// the table test dominates acceptance
	tableTested := false
	core.Instrs(f, func(i ssa.Instruction) {
		if b, ok := i.(*ssa.BinOp); ok && b.Op == token.EQL && (b.X == ssa.Value(pin) || b.Y == ssa.Value(pin)) {
			tableTested = true
		}
	})
	c.Check(tableTested, "table-tested@"+fname(f), f.Pos(), "the pin is compared with the table entries", "the pin is not compared with the trivial-code table")
	// formatted XXX-XX-XXX
	fmtOK := false
	for _, r := range succ {
		for _, s := range core.Sources(res(r)[0]) {
			if b, ok := s.(*ssa.BinOp); ok && b.Op == token.ADD {
				fmtOK = true
			}
		}
	}
	c.Check(fmtOK, "formatted-result@"+fname(f), f.Pos(), "returns the dash-formatted code", "does not return the formatted code")
}

func c20r6(c *core.Ctx) {
	p := c.P
	f := p.Func("util", "XHMURI")
	if f == nil {
		c.Undecided("XHMURI", token.NoPos, "not found")
		return
	}
	// the payload value entering the base-36 loop
	var start ssa.Value
	core.Instrs(f, func(i ssa.Instruction) {
		// the accumulator the base-36 loop divides: the phi that is the left operand of  x % 36 ; its initial value is
		// the edge that is not the quotient
		if b, ok := i.(*ssa.BinOp); ok && b.Op == token.REM {
			if k, isK := core.ConstInt(b.Y); isK && k == 36 {
				if ph, isPhi := core.StripConv(b.X).(*ssa.Phi); isPhi {
					for _, e := range ph.Edges {
						if q, isQ := e.(*ssa.BinOp); isQ && q.Op == token.QUO {
							continue
						}
						start = e
					}
				}
			}
		}
	})
	if start == nil {
		c.Undecided("payload@"+fname(f), f.Pos(), "payload accumulator not found")
		return
	}
	// walk the chain backwards
	var shifts []int64
	var fields []string
	v := start
	for k := 0; k < 40; k++ {
		b, ok := v.(*ssa.BinOp)
		if !ok {
			break
		}
		switch b.Op {
		case token.OR:
			fields = append(fields, describeField(b.Y, f))
			v = b.X
		case token.SHL:
			n, _ := core.ConstInt(b.Y)
			shifts = append(shifts, n)
			v = b.X
		default:
			k = 100
		}
	}
	// reverse
	for i, j := 0, len(shifts)-1; i < j; i, j = i+1, j-1 {
		shifts[i], shifts[j] = shifts[j], shifts[i]
	}
	for i, j := 0, len(fields)-1; i < j; i, j = i+1, j-1 {
		fields[i], fields[j] = fields[j], fields[i]
	}
	wantS := "[4 8 4 27]"
	wantF := "[const&0x7 const&0xf categoryId flags&0xf code&0x7ffffff]"
	c.Check(fmt.Sprint(shifts) == wantS, "payload-shifts@"+fname(f), f.Pos(), "shift sequence 4, 8, 4, 27", fmt.Sprintf("shift sequence is %v, the setup payload is version:3|reserved:4|category:8|flags:4|code:27 (%s)", shifts, wantS))
	// a constant field that is written without its mask ( const version = 0 ): the mask changes nothing when the constant fits it
	norm := append([]string(nil), fields...)
	// both leading constants zero: only one of them is left in the shifted sum ( payload = 0 << …; the other term folded away )
	if len(norm) == 4 && norm[0] == "const=0" {
		norm = append([]string{"const=0"}, norm...)
	}
	for k, fd := range norm {
		if k < 2 && strings.HasPrefix(fd, "const=") {
			var v int64
			fmt.Sscanf(strings.TrimPrefix(fd, "const="), "%d", &v)
			mask := []int64{0x7, 0xf}[k]
			if v >= 0 && v <= mask {
				norm[k] = []string{"const&0x7", "const&0xf"}[k]
			}
		}
	}
	c.Check(fmt.Sprint(norm) == wantF, "payload-fields@"+fname(f), f.Pos(), "fields version, reserved, category, flags, code with their masks", fmt.Sprintf("fields are %v, want %s", fields, wantF))
	// nine base-36 digits, prefix, setup id appended
	nine, div36, prefix := false, false, false
	core.Instrs(f, func(i ssa.Instruction) {
		if b, ok := i.(*ssa.BinOp); ok {
			if k, isK := core.ConstInt(b.Y); isK {
				if n, ok := tripCount(b); ok && n == 9 {
					nine = true
				}
				if b.Op == token.QUO && k == 36 {
					div36 = true
				}
			}
			if b.Op == token.ADD {
				if s, isK := core.ConstString(b.X); isK && s == "X-HM://" {
					prefix = true
				}
			}
		}
	})
	// most significant digit first: the index written decreases while the payload is divided
	msbFirst := false
	core.Instrs(f, func(i ssa.Instruction) {
		st, ok := i.(*ssa.Store)
		if !ok {
			return
		}
		ia, ok := st.Addr.(*ssa.IndexAddr)
		if !ok {
			return
		}
		// the stored value is indexed by payload % 36
		fromRem := false
		walkOperands(st.Val, 4, func(v ssa.Value) {
			if b, ok := v.(*ssa.BinOp); ok && b.Op == token.REM {
				if k, isK := core.ConstInt(b.Y); isK && k == 36 {
					fromRem = true
				}
			}
		})
		if !fromRem {
			return
		}
		dir := func(ph *ssa.Phi) int {
			for _, e := range ph.Edges {
				if bo, isB := e.(*ssa.BinOp); isB && core.StripConv(bo.X) == ssa.Value(ph) {
					if c, isK := core.ConstInt(bo.Y); isK && c == 1 {
						if bo.Op == token.ADD {
							return 1
						}
						if bo.Op == token.SUB {
							return -1
						}
					}
				}
			}
			return 0
		}
		idx := core.StripConv(ia.Index)
		if ph, ok := idx.(*ssa.Phi); ok && dir(ph) == -1 {
			msbFirst = true
		}
		if bo, ok := idx.(*ssa.BinOp); ok && bo.Op == token.SUB {
			if _, isK := evalInt(bo.X, 3); isK {
				if ph, ok := core.StripConv(bo.Y).(*ssa.Phi); ok && dir(ph) == 1 {
					msbFirst = true
				}
			}
		}
	})
	// the code enters the payload whole: it is parsed at a width that holds every eight-digit code (99 999 999 < 2^27; the field has 27
	// bits although the comment in the function says 26) — parsed narrower, ParseUint answers with a range error for a third of the codes
	// ValidatePin accepts, and the accessory has no setup URI
	core.Instrs(f, func(i ssa.Instruction) {
		if !(core.IsCall(i, "strconv.ParseUint") || core.IsCall(i, "strconv.ParseInt")) {
			return
		}
		a := core.Args(i)
		if len(a) != 3 {
			return
		}
		bits, isK := core.ConstInt(a[2])
		base, isB := core.ConstInt(a[1])
		c.Check(isK && isB && base == 10 && (bits == 0 || bits >= 27), "pin-parsed-whole@"+fname(f), posOf(i), "the code is parsed in base 10 at a width of at least 27 bits",
			fmt.Sprintf("the setup code is parsed with base %d at %d bits: eight decimal digits need 27 (10^8 > 2^26) — codes ValidatePin accepts are refused here and the accessory has no setup URI", base, bits))
	})
	// the digit table: the 36 digits in order (the index is payload % 36)
	if pk := p.Pkg("util"); pk != nil {
		var digits []string
		var tableName string
		core.Instrs(f, func(i ssa.Instruction) {
			if u, ok := i.(*ssa.UnOp); ok && u.Op == token.MUL {
				if g, isG := u.X.(*ssa.Global); isG && g.Pkg == f.Pkg {
					if sl, isSl := u.Type().Underlying().(*types.Slice); isSl {
						if bt, isB := sl.Elem().Underlying().(*types.Basic); isB && bt.Kind() == types.String {
							tableName = g.Name()
						}
					}
				}
			}
		})
		for _, file := range pk.Syntax {
			ast.Inspect(file, func(n ast.Node) bool {
				vs, ok := n.(*ast.ValueSpec)
				if !ok || len(vs.Names) != 1 || vs.Names[0].Name != tableName || len(vs.Values) != 1 {
					return true
				}
				if cl, ok := vs.Values[0].(*ast.CompositeLit); ok {
					for _, e := range cl.Elts {
						if v := constOf(pk.TypesInfo, e); v != nil && v.Kind() == constant.String {
							digits = append(digits, constant.StringVal(v))
						}
					}
				}
				return true
			})
		}
		if tableName != "" {
			c.Check(strings.Join(digits, "") == "0123456789ABCDEFGHIJKLMNOPQRSTUVWXYZ" && len(digits) == 36, "base36-table@"+fname(f), f.Pos(), "the digit table is 0-9A-Z",
				fmt.Sprintf("the base-36 digit table is %q: the URI does not decode back to the payload", strings.Join(digits, "")))
		}
	}
	// version and reserved are 0; the dashes of the displayed code are taken out before it is parsed; the digits are joined with nothing
	// in between; the digit index runs from 8 down
	for k, fd := range fields {
		if k < 2 && strings.HasPrefix(fd, "const") && fd != "const=0" && fd != "const&0x7" && fd != "const&0xf" {
			c.Bad("payload-version-reserved-zero@"+fname(f), f.Pos(), "version / reserved field is %s, the setup payload has both 0", fd)
		}
	}
	core.Instrs(f, func(i ssa.Instruction) {
		if b, ok := i.(*ssa.BinOp); ok && b.Op == token.AND {
			if m, isM := core.ConstInt(b.Y); isM && (m == 0x7 || m == 0xf) {
				if k, isK := core.ConstInt(core.StripConv(b.X)); isK {
					c.Check(k == 0, "payload-version-reserved-zero@"+fname(f), posOf(i), "version and reserved are 0", fmt.Sprintf("the version / reserved field of the setup payload is %d (both are 0): controllers refuse the code", k))
				}
			}
		}
		if core.IsCall(i, "strings.Replace") || core.IsCall(i, "strings.ReplaceAll") {
			a := core.Args(i)
			if valIs(a[0], f.Params[0]) {
				old, ok1 := core.ConstString(a[1])
				nw, ok2 := core.ConstString(a[2])
				c.Check(ok1 && ok2 && old == "-" && nw == "", "dashes-removed@"+fname(f), posOf(i), "the dashes of the displayed code are removed before it is parsed",
					fmt.Sprintf("the code is rewritten with %q -> %q before it is parsed (the dashes of the displayed form xxx-xx-xxx are to be removed): the code does not parse, or another one is encoded", old, nw))
			}
		}
		if core.IsCall(i, "strings.Join") {
			sep, ok := core.ConstString(core.Args(i)[1])
			c.Check(ok && sep == "", "digits-joined@"+fname(f), posOf(i), "the digits are joined with nothing in between", fmt.Sprintf("the nine digits are joined with %q in between", sep))
		}
		if st, ok := i.(*ssa.Store); ok {
			if ia, isIA := st.Addr.(*ssa.IndexAddr); isIA {
				if bo, isB := core.StripConv(ia.Index).(*ssa.BinOp); isB && bo.Op == token.SUB {
					if k, isK := evalInt(bo.X, 3); isK {
						if _, isPhi := core.StripConv(bo.Y).(*ssa.Phi); isPhi {
							c.Check(k == 8, "digit-index-from-8@"+fname(f), posOf(i), "the digit index is 8 - i", fmt.Sprintf("the digit index is %d - i for nine digits: out of range, or the first digit is left empty", k))
						}
					}
				}
			}
		}
	})
	c.Check(msbFirst, "base36-order@"+fname(f), f.Pos(), "digits are stored most significant first", "the base-36 digits are not stored most significant first: the URI encodes another payload")
	c.Check(nine && div36 && prefix, "base36-digits@"+fname(f), f.Pos(), "nine base-36 digits after X-HM://, setup id appended", "the payload is not rendered as nine base-36 digits after X-HM://")
	// Config.XHMURI passes pin, setup id and category of the same config
	if g := p.Func("", "(*Config).XHMURI"); g != nil {
		ok := false
		core.Instrs(g, func(i ssa.Instruction) {
			if core.Callee(i) == f {
				a := core.Args(i)
				_, o1 := core.FieldLoad(a[0], tConfig, "Pin")
				_, o2 := core.FieldLoad(a[1], tConfig, "SetupId")
				_, o3 := core.FieldLoad(a[2], tConfig, "categoryId")
				ok = o1 && o2 && o3
			}
		})
		c.Check(ok, "uri-arguments@"+fname(g), g.Pos(), "pin, setup id and category of the same config", "Config.XHMURI does not pass its own pin, setup id and category")
	}
}

func describeField(v ssa.Value, f *ssa.Function) string {
	v = core.StripConv(v)
	if b, ok := v.(*ssa.BinOp); ok && b.Op == token.AND {
		m, _ := core.ConstInt(b.Y)
		return describeOperand(b.X, f) + fmt.Sprintf("&0x%x", m)
	}
	if k, ok := core.ConstInt(v); ok {
		return fmt.Sprintf("const=%d", k)
	}
	return describeOperand(v, f)
}

func describeOperand(v ssa.Value, f *ssa.Function) string {
	v = core.StripConv(v)
	if _, ok := core.ConstInt(v); ok {
		return "const"
	}
	if pr, ok := v.(*ssa.Parameter); ok {
		for i, q := range f.Params {
			if q == pr {
				return []string{"pincode", "setupId", "categoryId", "flags"}[min(i, 3)]
			}
		}
		return "?"
	}
	if ph, ok := v.(*ssa.Phi); ok {
		// the OR-accumulator over the elements of the flags parameter
		for _, e := range ph.Edges {
			if b, isB := e.(*ssa.BinOp); isB && b.Op == token.OR && (core.StripConv(b.X) == ssa.Value(ph) || core.StripConv(b.Y) == ssa.Value(ph)) {
				other := b.Y
				if core.StripConv(b.Y) == ssa.Value(ph) {
					other = b.X
				}
				if len(f.Params) > 3 && operandReaches(other, f.Params[3], 5) {
					return "flags"
				}
			}
		}
		return "phi"
	}
	if e, ok := v.(*ssa.Extract); ok {
		if call, ok := e.Tuple.(*ssa.Call); ok && core.IsCall(call, "strconv.ParseUint") {
			return "code"
		}
	}
	return "?"
}

// operandReaches: target is among the transitive operands of v (bounded depth).
func operandReaches(v, target ssa.Value, depth int) bool {
	if v == target {
		return true
	}
	if depth == 0 {
		return false
	}
	if i, ok := v.(ssa.Instruction); ok {
		for _, op := range i.Operands(nil) {
			if *op != nil && operandReaches(*op, target, depth-1) {
				return true
			}
		}
	}
	return false
}

// tripCount: cond is the test of a counting loop  for i := a; i <op> k; i += s  with constant a, k and s = +1/-1; returns the
// number of iterations.
func tripCount(cond *ssa.BinOp) (int64, bool) {
	k, ok := core.ConstInt(cond.Y)
	if !ok {
		return 0, false
	}
	ph, ok := core.StripConv(cond.X).(*ssa.Phi)
	if !ok || len(ph.Edges) != 2 {
		return 0, false
	}
	var a, s int64
	haveA, haveS := false, false
	for _, e := range ph.Edges {
		if bo, isB := e.(*ssa.BinOp); !(isB && core.StripConv(bo.X) == ssa.Value(ph)) {
			if c, isK := evalInt(e, 3); isK {
				a, haveA = c, true
				continue
			}
		}
		if bo, isB := e.(*ssa.BinOp); isB && core.StripConv(bo.X) == ssa.Value(ph) {
			if c, isK := core.ConstInt(bo.Y); isK && c == 1 {
				switch bo.Op {
				case token.ADD:
					s, haveS = 1, true
				case token.SUB:
					s, haveS = -1, true
				}
			}
		}
	}
	if !haveA || !haveS {
		return 0, false
	}
	switch {
	case s == 1 && cond.Op == token.LSS:
		return k - a, k >= a
	case s == 1 && cond.Op == token.LEQ:
		return k - a + 1, k+1 >= a
	case s == -1 && cond.Op == token.GEQ:
		return a - k + 1, a+1 >= k
	case s == -1 && cond.Op == token.GTR:
		return a - k, a >= k
	}
	return 0, false
}

// evalInt folds constants, len() of values of known length and +/- of those.
func evalInt(v ssa.Value, depth int) (int64, bool) {
	v = core.StripConv(v)
	if k, ok := core.ConstInt(v); ok {
		return k, true
	}
	if depth == 0 {
		return 0, false
	}
	if call, ok := v.(*ssa.Call); ok {
		if b, isB := call.Call.Value.(*ssa.Builtin); isB && (b.Name() == "len" || b.Name() == "cap") {
			return knownLen(call.Call.Args[0])
		}
	}
	if bo, ok := v.(*ssa.BinOp); ok {
		x, ok1 := evalInt(bo.X, depth-1)
		y, ok2 := evalInt(bo.Y, depth-1)
		if ok1 && ok2 {
			switch bo.Op {
			case token.ADD:
				return x + y, true
			case token.SUB:
				return x - y, true
			}
		}
	}
	return 0, false
}

// walkOperands visits v and its transitive operands (bounded depth).
func walkOperands(v ssa.Value, depth int, f func(ssa.Value)) {
	if v == nil {
		return
	}
	f(v)
	if depth == 0 {
		return
	}
	if i, ok := v.(ssa.Instruction); ok {
		for _, op := range i.Operands(nil) {
			if *op != nil {
				walkOperands(*op, depth-1, f)
			}
		}
	}
}

package main

// Witness-deletion / mutation sensitivity of the checker itself.
//
//	hcsa mutate <Cxx> [-jobs N] [-max N] [-repo DIR] [-verif DIR] [-list]
//
// For every file the property is anchored in (properties.jsonl), syntactic variants are generated in memory
// (a statement dropped, a condition forced / negated, a constant changed, a comparison operator flipped), handed
// to the type checker through packages.Config.Overlay (nothing is written to /repo) and the property's rules are
// run on each variant in a sub-process. A variant that still type-checks and on which the rules stay silent is a
// "survivor". The result says something about the checker (which edits it can see), never about /repo: it does
// not change a verdict.

import (
	"bytes"
	"encoding/json"
	"flag"
	"fmt"
	"go/ast"
	"go/parser"
	"go/printer"
	"go/token"
	"os"
	"os/exec"
	"path/filepath"
	"sort"
	"strconv"
	"strings"
	"sync"
	"time"
)

type mutant struct {
	File string `json:"file"`
	Line int    `json:"line"`
	Op   string `json:"op"`
	What string `json:"what"`
	src  []byte
}

type mutResult struct {
	mutant
	Compiled bool     `json:"compiled"`
	Killed   bool     `json:"killed"`
	By       []string `json:"killed_by,omitempty"`
}

func anchoredFiles(verif, prop string) []string {
	f, err := os.ReadFile(filepath.Join(verif, "properties.jsonl"))
	if err != nil {
		return nil
	}
	for _, line := range strings.Split(string(f), "\n") {
		var rec struct {
			ID      string `json:"id"`
			Anchors struct {
				Files []string `json:"files"`
			} `json:"anchors"`
		}
		if json.Unmarshal([]byte(line), &rec) == nil && rec.ID == prop {
			return rec.Anchors.Files
		}
	}
	return nil
}

func render(fset *token.FileSet, f *ast.File) []byte {
	var buf bytes.Buffer
	printer.Fprint(&buf, fset, f)
	return buf.Bytes()
}

// generate all mutants of one file.
func mutantsOf(repo, rel string) []mutant {
	path := filepath.Join(repo, rel)
	src, err := os.ReadFile(path)
	if err != nil || strings.HasSuffix(rel, "_test.go") {
		return nil
	}
	var out []mutant
	// each mutation re-parses the file so that edits are independent
	count := func() int {
		fset := token.NewFileSet()
		f, err := parser.ParseFile(fset, path, src, parser.ParseComments)
		if err != nil {
			return 0
		}
		n := 0
		ast.Inspect(f, func(node ast.Node) bool {
			if node != nil {
				n++
			}
			return true
		})
		return n
	}()
	_ = count
	apply := func(op string, edit func(fset *token.FileSet, f *ast.File, k int) (bool, int, string)) {
		for k := 0; ; k++ {
			fset := token.NewFileSet()
			f, err := parser.ParseFile(fset, path, src, parser.ParseComments)
			if err != nil {
				return
			}
			ok, line, what := edit(fset, f, k)
			if !ok {
				return
			}
			if what == "" {
				continue
			}
			out = append(out, mutant{File: rel, Line: line, Op: op, What: what, src: render(fset, f)})
		}
	}
	// --- statement deletion
	apply("stmt-delete", func(fset *token.FileSet, f *ast.File, k int) (bool, int, string) {
		idx := 0
		done, line, what := false, 0, ""
		found := false
		ast.Inspect(f, func(n ast.Node) bool {
			if done {
				return false
			}
			var list *[]ast.Stmt
			switch x := n.(type) {
			case *ast.BlockStmt:
				list = &x.List
			case *ast.CaseClause:
				list = &x.Body
			}
			if list == nil {
				return true
			}
			for i, st := range *list {
				del := false
				switch s := st.(type) {
				case *ast.ExprStmt:
					if call, ok := s.X.(*ast.CallExpr); ok && !isLogCall(call) {
						del = true
					}
				case *ast.IncDecStmt:
					del = true
				case *ast.AssignStmt:
					if s.Tok != token.DEFINE {
						del = true
					}
				case *ast.DeferStmt:
					del = true
				}
				if !del {
					continue
				}
				if idx == k {
					found = true
					line = fset.Position(st.Pos()).Line
					what = "delete: " + oneLine(fset, st)
					(*list)[i] = &ast.EmptyStmt{Semicolon: st.Pos()}
					done = true
					return false
				}
				idx++
			}
			return true
		})
		return found, line, what
	})
	// --- conditions
	for _, mode := range []string{"cond-true", "cond-false", "cond-negate"} {
		mode := mode
		apply(mode, func(fset *token.FileSet, f *ast.File, k int) (bool, int, string) {
			idx := 0
			found, line, what := false, 0, ""
			ast.Inspect(f, func(n ast.Node) bool {
				if found {
					return false
				}
				is, ok := n.(*ast.IfStmt)
				if !ok {
					return true
				}
				if idx == k {
					found = true
					line = fset.Position(is.Cond.Pos()).Line
					old := oneLine(fset, is.Cond)
					switch mode {
					case "cond-true":
						is.Cond = &ast.BinaryExpr{X: &ast.BasicLit{Kind: token.INT, Value: "1"}, Op: token.EQL, Y: &ast.BasicLit{Kind: token.INT, Value: "1"}}
					case "cond-false":
						is.Cond = &ast.BinaryExpr{X: &ast.BasicLit{Kind: token.INT, Value: "1"}, Op: token.EQL, Y: &ast.BasicLit{Kind: token.INT, Value: "0"}}
					case "cond-negate":
						is.Cond = &ast.UnaryExpr{Op: token.NOT, X: &ast.ParenExpr{X: is.Cond}}
					}
					what = mode + ": if " + old
				}
				idx++
				return true
			})
			return found, line, what
		})
	}
	// --- drop one operand of && / ||
	apply("drop-operand", func(fset *token.FileSet, f *ast.File, k int) (bool, int, string) {
		idx := 0
		found, line, what := false, 0, ""
		var replace func(e *ast.Expr)
		replace = func(e *ast.Expr) {
			if found || *e == nil {
				return
			}
			if p, ok := (*e).(*ast.ParenExpr); ok {
				replace(&p.X)
				return
			}
			b, ok := (*e).(*ast.BinaryExpr)
			if !ok || (b.Op != token.LAND && b.Op != token.LOR) {
				return
			}
			for side := 0; side < 2; side++ {
				if idx == k {
					found = true
					line = fset.Position(b.Pos()).Line
					what = fmt.Sprintf("drop operand %d of: %s", side, oneLine(fset, b))
					if side == 0 {
						*e = b.Y
					} else {
						*e = b.X
					}
					return
				}
				idx++
			}
			replace(&b.X)
			replace(&b.Y)
		}
		ast.Inspect(f, func(n ast.Node) bool {
			if found {
				return false
			}
			if is, ok := n.(*ast.IfStmt); ok {
				replace(&is.Cond)
			}
			return true
		})
		return found, line, what
	})
	// --- constants
	apply("const-change", func(fset *token.FileSet, f *ast.File, k int) (bool, int, string) {
		idx := 0
		found, line, what := false, 0, ""
		ast.Inspect(f, func(n ast.Node) bool {
			if found {
				return false
			}
			switch x := n.(type) {
			case *ast.ImportSpec:
				return false
			case *ast.Field:
				if x.Tag != nil {
					// struct tags are mutated too (JSON names matter), but as a separate literal below
				}
			case *ast.CallExpr:
				if isLogCall(x) {
					return false
				}
			case *ast.BasicLit:
				if x.Kind != token.INT && x.Kind != token.STRING {
					return true
				}
				if idx == k {
					found = true
					line = fset.Position(x.Pos()).Line
					old := x.Value
					if x.Kind == token.INT {
						if v, err := strconv.ParseInt(x.Value, 0, 64); err == nil {
							x.Value = strconv.FormatInt(v+1, 10)
						} else {
							what = ""
							idx++
							return true
						}
					} else {
						if strings.HasPrefix(x.Value, "`") {
							x.Value = strings.Replace(x.Value, ":\"", ":\"x", 1)
							if x.Value == old {
								idx++
								found = true
								what = ""
								return false
							}
						} else {
							x.Value = x.Value[:len(x.Value)-1] + "x\""
						}
					}
					what = "const " + old + " -> " + x.Value
					return false
				}
				idx++
			}
			return true
		})
		return found, line, what
	})
	// --- comparison / arithmetic operators
	apply("op-flip", func(fset *token.FileSet, f *ast.File, k int) (bool, int, string) {
		flip := map[token.Token]token.Token{token.LSS: token.LEQ, token.LEQ: token.LSS, token.GTR: token.GEQ, token.GEQ: token.GTR, token.EQL: token.NEQ, token.NEQ: token.EQL, token.ADD: token.SUB, token.SUB: token.ADD}
		idx := 0
		found, line, what := false, 0, ""
		ast.Inspect(f, func(n ast.Node) bool {
			if found {
				return false
			}
			if call, ok := n.(*ast.CallExpr); ok && isLogCall(call) {
				return false
			}
			b, ok := n.(*ast.BinaryExpr)
			if !ok {
				return true
			}
			nw, ok := flip[b.Op]
			if !ok {
				return true
			}
			if idx == k {
				found = true
				line = fset.Position(b.Pos()).Line
				old := oneLine(fset, b)
				b.Op = nw
				what = "op: " + old + " -> " + oneLine(fset, b)
				return false
			}
			idx++
			return true
		})
		return found, line, what
	})
	// --- a parameter handed on (stored in a field, returned, passed to a call) is transformed on the way: the "makers and forwarders
	// pass their arguments unchanged" assumption behind rules that follow a value only to the constructor / wrapper call
	apply("arg-transform", func(fset *token.FileSet, f *ast.File, k int) (bool, int, string) {
		idx := 0
		found, line, what := false, 0, ""
		for _, d := range f.Decls {
			fd, ok := d.(*ast.FuncDecl)
			if !ok || fd.Body == nil || fd.Type.Params == nil {
				continue
			}
			ptype := map[string]string{}
			for _, fld := range fd.Type.Params.List {
				for _, nm := range fld.Names {
					ptype[nm.Name] = exprString(fld.Type)
				}
			}
			if len(ptype) == 0 {
				continue
			}
			transformed := func(id *ast.Ident) ast.Expr {
				switch t := ptype[id.Name]; {
				case t == "string":
					return &ast.BinaryExpr{X: id, Op: token.ADD, Y: &ast.BasicLit{Kind: token.STRING, Value: "\"x\""}}
				case t == "[]byte":
					return &ast.SliceExpr{X: id, High: &ast.BinaryExpr{X: &ast.CallExpr{Fun: ast.NewIdent("len"), Args: []ast.Expr{id}}, Op: token.QUO, Y: &ast.BasicLit{Kind: token.INT, Value: "2"}}}
				case t == "bool":
					return &ast.UnaryExpr{Op: token.NOT, X: id}
				case t == "int" || t == "int64" || t == "int32" || t == "int16" || t == "int8" || t == "uint" || t == "uint64" || t == "uint32" || t == "uint16" || t == "uint8" || t == "byte" || t == "float64" || t == "float32":
					return &ast.BinaryExpr{X: id, Op: token.ADD, Y: &ast.BasicLit{Kind: token.INT, Value: "1"}}
				case t == "interface{}":
					return ast.NewIdent("nil")
				}
				return nil
			}
			try := func(e *ast.Expr, ctx string) {
				if found {
					return
				}
				id, ok := (*e).(*ast.Ident)
				if !ok {
					return
				}
				if _, isParam := ptype[id.Name]; !isParam {
					return
				}
				nw := transformed(id)
				if nw == nil {
					return
				}
				if idx == k {
					found = true
					line = fset.Position(id.Pos()).Line
					what = fmt.Sprintf("%s in %s: %s -> %s", ctx, fd.Name.Name, id.Name, exprString(nw))
					*e = nw
					return
				}
				idx++
			}
			ast.Inspect(fd.Body, func(n ast.Node) bool {
				if found {
					return false
				}
				switch x := n.(type) {
				case *ast.FuncLit:
					return false // parameters may be shadowed
				case *ast.AssignStmt:
					if x.Tok == token.ASSIGN && len(x.Lhs) == len(x.Rhs) {
						for i := range x.Rhs {
							if _, isSel := x.Lhs[i].(*ast.SelectorExpr); isSel {
								try(&x.Rhs[i], "stored")
							}
						}
					}
				case *ast.KeyValueExpr:
					try(&x.Value, "stored")
				case *ast.ReturnStmt:
					for i := range x.Results {
						try(&x.Results[i], "returned")
					}
				case *ast.CallExpr:
					if isLogCall(x) {
						return false
					}
					for i := range x.Args {
						try(&x.Args[i], "passed")
					}
				}
				return true
			})
			if found {
				break
			}
		}
		return found, line, what
	})
	// --- a returned value is changed on its way out (four transformations are tried on every result expression; the type checker keeps
	// the one that fits its type): what a helper hands back is what the rules at its callers take it to be
	for _, mode := range []string{"str", "cut", "inc", "not"} {
		mode := mode
		apply("ret-transform", func(fset *token.FileSet, f *ast.File, k int) (bool, int, string) {
			idx := 0
			found, line, what := false, 0, ""
			ast.Inspect(f, func(n ast.Node) bool {
				if found {
					return false
				}
				rs, ok := n.(*ast.ReturnStmt)
				if !ok {
					return true
				}
				for i, e := range rs.Results {
					switch x := e.(type) {
					case *ast.BasicLit:
						continue
					case *ast.Ident:
						if x.Name == "nil" || x.Name == "true" || x.Name == "false" || x.Name == "err" {
							continue
						}
					case *ast.FuncLit, *ast.CompositeLit:
						continue
					}
					if idx == k {
						found = true
						line = fset.Position(e.Pos()).Line
						old := oneLine(fset, e)
						pe := &ast.ParenExpr{X: e}
						switch mode {
						case "str":
							rs.Results[i] = &ast.BinaryExpr{X: pe, Op: token.ADD, Y: &ast.BasicLit{Kind: token.STRING, Value: "\"x\""}}
						case "cut":
							rs.Results[i] = &ast.SliceExpr{X: pe, High: &ast.BasicLit{Kind: token.INT, Value: "0"}}
						case "inc":
							rs.Results[i] = &ast.BinaryExpr{X: pe, Op: token.ADD, Y: &ast.BasicLit{Kind: token.INT, Value: "1"}}
						case "not":
							rs.Results[i] = &ast.UnaryExpr{Op: token.NOT, X: pe}
						}
						what = fmt.Sprintf("return %s -> %s", old, oneLine(fset, rs.Results[i]))
						return false
					}
					idx++
				}
				return true
			})
			return found, line, what
		})
	}
	// --- two adjacent arguments of a call swapped (only variants that still type-check survive the loader: the two have one type)
	apply("arg-swap", func(fset *token.FileSet, f *ast.File, k int) (bool, int, string) {
		idx := 0
		found, line, what := false, 0, ""
		ast.Inspect(f, func(n ast.Node) bool {
			if found {
				return false
			}
			call, ok := n.(*ast.CallExpr)
			if !ok {
				return true
			}
			if isLogCall(call) {
				return false
			}
			for i := 0; i+1 < len(call.Args); i++ {
				a, b := exprString(call.Args[i]), exprString(call.Args[i+1])
				if a == b {
					continue
				}
				if idx == k {
					found = true
					line = fset.Position(call.Pos()).Line
					old := oneLine(fset, call)
					call.Args[i], call.Args[i+1] = call.Args[i+1], call.Args[i]
					what = fmt.Sprintf("swap args %d,%d: %s", i, i+1, old)
					return false
				}
				idx++
			}
			return true
		})
		return found, line, what
	})
	return out
}

func isLogCall(call *ast.CallExpr) bool {
	s := exprString(call.Fun)
	return strings.HasPrefix(s, "log.") || strings.HasPrefix(s, "fmt.Print") || s == "println"
}

func exprString(e ast.Expr) string {
	var buf bytes.Buffer
	printer.Fprint(&buf, token.NewFileSet(), e)
	return buf.String()
}

func oneLine(fset *token.FileSet, n ast.Node) string {
	var buf bytes.Buffer
	printer.Fprint(&buf, fset, n)
	s := strings.Join(strings.Fields(buf.String()), " ")
	if len(s) > 110 {
		s = s[:110] + "..."
	}
	return s
}

func mutate(args []string) int {
	if len(args) < 1 {
		usage()
	}
	prop := args[0]
	fs := flag.NewFlagSet("mutate", flag.ExitOnError)
	jobs := fs.Int("jobs", 8, "parallel sub-processes")
	max := fs.Int("max", 0, "limit the number of variants (0 = all)")
	repo := fs.String("repo", "/repo", "repository root")
	verif := fs.String("verif", defaultVerif(), "verif directory")
	list := fs.Bool("list", false, "only list the variants")
	files := fs.String("files", "", "comma separated files (default: the property's anchor files)")
	out := fs.String("out", "", "write the result JSON here (default <verif>/evidence/<prop>.mutation.json)")
	ops := fs.String("ops", "", "comma separated operators to keep (default: all)")
	fs.Parse(args[1:])

	var fl []string
	if *files == "@lib" {
		// every hand-written non-test Go file of the library (generated catalogue files, examples and commands excluded)
		filepath.Walk(*repo, func(path string, info os.FileInfo, err error) error {
			if err != nil {
				return nil
			}
			rel, _ := filepath.Rel(*repo, path)
			if info.IsDir() {
				if strings.HasPrefix(info.Name(), "_") || strings.HasPrefix(info.Name(), ".") || rel == "cmd" || rel == "gen" {
					return filepath.SkipDir
				}
				return nil
			}
			if !strings.HasSuffix(rel, ".go") || strings.HasSuffix(rel, "_test.go") {
				return nil
			}
			b, _ := os.ReadFile(path)
			if bytes.Contains(b[:min(len(b), 200)], []byte("AUTO-GENERATED")) {
				return nil
			}
			fl = append(fl, rel)
			return nil
		})
		sort.Strings(fl)
	} else if *files != "" {
		fl = strings.Split(*files, ",")
	} else if prop == "all" {
		// union of the anchor files of all properties; every variant is judged by all 20 checks at once
		seen := map[string]bool{}
		for i := 1; i <= 20; i++ {
			for _, f := range anchoredFiles(*verif, fmt.Sprintf("C%02d", i)) {
				if !seen[f] {
					seen[f] = true
					fl = append(fl, f)
				}
			}
		}
		sort.Strings(fl)
	} else {
		fl = anchoredFiles(*verif, prop)
	}
	if len(fl) == 0 {
		fmt.Println("no anchor files for", prop)
		return 2
	}
	var ms []mutant
	keep := map[string]bool{}
	for _, o := range strings.Split(*ops, ",") {
		if o != "" {
			keep[o] = true
		}
	}
	for _, f := range fl {
		for _, m := range mutantsOf(*repo, f) {
			if len(keep) == 0 || keep[m.Op] {
				ms = append(ms, m)
			}
		}
	}
	if *max > 0 && len(ms) > *max {
		// deterministic thinning
		step := float64(len(ms)) / float64(*max)
		var t []mutant
		for i := 0; i < *max; i++ {
			t = append(t, ms[int(float64(i)*step)])
		}
		ms = t
	}
	fmt.Printf("%s: %d variants over %d files\n", prop, len(ms), len(fl))
	if *list {
		for _, m := range ms {
			fmt.Printf("%s:%d %s %s\n", m.File, m.Line, m.Op, m.What)
		}
		return 0
	}
	exe, _ := os.Executable()
	tmp, err := os.MkdirTemp("", "hcsa-mut-")
	if err != nil {
		fmt.Println(err)
		return 2
	}
	defer os.RemoveAll(tmp)
	results := make([]mutResult, len(ms))
	var wg sync.WaitGroup
	sem := make(chan struct{}, *jobs)
	start := time.Now()
	for i := range ms {
		wg.Add(1)
		sem <- struct{}{}
		go func(i int) {
			defer wg.Done()
			defer func() { <-sem }()
			m := ms[i]
			of := filepath.Join(tmp, fmt.Sprintf("m%d.go", i))
			os.WriteFile(of, m.src, 0644)
			cmd := exec.Command(exe, "check", prop, "-no-evidence", "-repo", *repo, "-verif", *verif, "-overlay", filepath.Join(*repo, m.File)+"="+of)
			b, _ := cmd.CombinedOutput()
			os.Remove(of)
			r := mutResult{mutant: m}
			s := string(b)
			r.Compiled = !strings.Contains(s, "load failed")
			seen := map[string]bool{}
			for _, line := range strings.Split(s, "\n") {
				if strings.HasPrefix(line, "VARIANT-REPORT") {
					p := strings.Split(line, "\t")
					if len(p) >= 3 && !seen[p[1]] {
						seen[p[1]] = true
						r.By = append(r.By, p[1])
					}
					r.Killed = true
				}
			}
			sort.Strings(r.By)
			results[i] = r
		}(i)
	}
	wg.Wait()
	compiled, killed := 0, 0
	var survivors, killedList []mutResult
	for _, r := range results {
		if !r.Compiled {
			continue
		}
		compiled++
		if r.Killed {
			killed++
			killedList = append(killedList, r)
		} else {
			survivors = append(survivors, r)
		}
	}
	sort.Slice(survivors, func(i, j int) bool {
		if survivors[i].File != survivors[j].File {
			return survivors[i].File < survivors[j].File
		}
		return survivors[i].Line < survivors[j].Line
	})
	res := map[string]interface{}{
		"property": prop, "variants": len(ms), "compiled": compiled, "killed": killed, "survivors": survivors, "killed_list": killedList,
		"files": fl, "wall_s": time.Since(start).Seconds(),
		"note": "variants are syntactic edits of the anchor files checked through an overlay; survivors include edits that do not affect the property (logging, client-side code, equivalent edits)",
	}
	b, _ := json.MarshalIndent(res, "", " ")
	dst := *out
	if dst == "" {
		dst = filepath.Join(*verif, "evidence", prop+".mutation.json")
	}
	os.WriteFile(dst, b, 0644)
	fmt.Printf("%s: variants=%d compiled=%d killed=%d survivors=%d (%.0fs) -> %s\n", prop, len(ms), compiled, killed, len(survivors), time.Since(start).Seconds(), dst)
	return 0
}

package core

import (
	"encoding/json"
	"fmt"
	"go/token"
	"os"
	"path/filepath"
	"sort"
	"strings"
	"time"
)

// Verdict of one obligation.
type Verdict string

const (
	Discharged Verdict = "discharged"
	Violated   Verdict = "violated"
	Undecided  Verdict = "undecided"
	Info       Verdict = "info" // recorded, never deciding
)

// Obligation is one instance of a rule at one construct. It is keyed by Rule+Key, never by line.
type Obligation struct {
	Rule    string   `json:"rule"`
	Key     string   `json:"construct"`
	Pos     string   `json:"pos,omitempty"`
	Verdict Verdict  `json:"verdict"`
	Detail  string   `json:"detail,omitempty"`
	Path    []string `json:"path,omitempty"`
	Config  string   `json:"config,omitempty"`
}

// Rule describes one rule of a property.
type Rule struct {
	ID      string // "C01-R1"
	Title   string
	Decides string // which clause of the property this is a necessary condition for
	Floor   int    // minimum number of non-info obligations confirmed by hand; below => UNDECIDED
	Run     func(c *Ctx)
}

// Property groups the rules of one property id.
type Property struct {
	ID          string
	Level       string // "other" | "translation_validation"
	Explanation string
	Assumptions []string
	NotDecided  []string
	Rules       []Rule
	NeedsCG     bool
}

// Ctx is handed to rules.
type Ctx struct {
	P        *Program
	Prop     *Property
	Tier     string
	rule     *Rule
	Obs      []Obligation
	Counters map[string]int
	Samples  []interface{}
	Seq      map[string]int // per-construct ordinals of obligations (rules.seqKey)
}

func (c *Ctx) add(v Verdict, key string, pos token.Pos, detail string, path []string) {
	c.Obs = append(c.Obs, Obligation{Rule: c.rule.ID, Key: key, Pos: c.P.Position(pos), Verdict: v,
		Detail: detail, Path: path, Config: c.P.Cfg.String()})
}

// OK records a discharged obligation.
func (c *Ctx) OK(key string, pos token.Pos, detail string, a ...interface{}) {
	c.add(Discharged, key, pos, fmt.Sprintf(detail, a...), nil)
}

// Bad records a violated obligation.
func (c *Ctx) Bad(key string, pos token.Pos, detail string, a ...interface{}) {
	c.add(Violated, key, pos, fmt.Sprintf(detail, a...), nil)
}

// BadPath records a violated obligation with a path witness.
func (c *Ctx) BadPath(key string, pos token.Pos, path []string, detail string, a ...interface{}) {
	c.add(Violated, key, pos, fmt.Sprintf(detail, a...), path)
}

// Undecided records that the rule could not decide the construct (fails closed).
func (c *Ctx) Undecided(key string, pos token.Pos, detail string, a ...interface{}) {
	c.add(Undecided, key, pos, fmt.Sprintf(detail, a...), nil)
}

// Note records information that never decides.
func (c *Ctx) Note(key string, pos token.Pos, detail string, a ...interface{}) {
	c.add(Info, key, pos, fmt.Sprintf(detail, a...), nil)
}

// Check is OK/Bad by condition.
func (c *Ctx) Check(cond bool, key string, pos token.Pos, okDetail, badDetail string) {
	if cond {
		c.add(Discharged, key, pos, okDetail, nil)
	} else {
		c.add(Violated, key, pos, badDetail, nil)
	}
}

// Count adds to a named coverage counter.
func (c *Ctx) Count(name string, n int) { c.Counters[name] += n }

// KnownFinding is an entry of /verif/known_findings.json.
type KnownFinding struct {
	Property string `json:"property"`
	Rule     string `json:"rule"`
	Key      string `json:"construct"`
	Status   string `json:"status"` // "known" | "fixed"
	Commit   string `json:"commit,omitempty"`
	What     string `json:"what"`
}

// LoadKnown reads the known-findings file (missing file = none).
func LoadKnown(path string) ([]KnownFinding, error) {
	b, err := os.ReadFile(path)
	if os.IsNotExist(err) {
		return nil, nil
	}
	if err != nil {
		return nil, err
	}
	var f struct {
		Findings []KnownFinding `json:"findings"`
	}
	if err := json.Unmarshal(b, &f); err != nil {
		return nil, err
	}
	return f.Findings, nil
}

// Result of running one property.
type Result struct {
	Prop       *Property
	Obs        []Obligation
	Counters   map[string]int
	Configs    []string
	Wall       time.Duration
	Extra      map[string]interface{}
	Renames    []string
	Violations []Obligation // not matched by a known finding
	Known      []Obligation
	Undecideds []Obligation
}

// Active is the program the rules currently run on (used for rename-aware name comparisons).
var Active *Program

// RunProperty executes all rules of prop on program p and appends to res.
func RunProperty(p *Program, prop *Property, tier string, res *Result) {
	Active = p
	c := &Ctx{P: p, Prop: prop, Tier: tier, Counters: res.Counters}
	for i := range prop.Rules {
		r := &prop.Rules[i]
		c.rule = r
		before := len(c.Obs)
		func() {
			defer func() {
				if e := recover(); e != nil {
					c.add(Undecided, "analyser-panic", token.NoPos, fmt.Sprintf("rule %s panicked: %v", r.ID, e), nil)
				}
			}()
			r.Run(c)
		}()
		n := 0
		for _, o := range c.Obs[before:] {
			if o.Verdict != Info {
				n++
			}
		}
		if n < r.Floor {
			c.add(Undecided, "instance-floor", token.NoPos,
				fmt.Sprintf("rule %s produced %d obligations, floor confirmed by hand is %d: an anchor was not found", r.ID, n, r.Floor), nil)
		}
	}
	res.Obs = append(res.Obs, c.Obs...)
	res.Configs = append(res.Configs, p.Cfg.String())
	res.Renames = append(append([]string{}, p.RenameNotes()...), p.NormNotes...)
}

// Finish classifies, prints and writes evidence. Returns the exit code.
func Finish(res *Result, verifDir string, tier string, seed int) int {
	prop := res.Prop
	known, err := LoadKnown(filepath.Join(verifDir, "known_findings.json"))
	if err != nil {
		fmt.Printf("UNDECIDED property=%s reason=known_findings.json unreadable: %v\n", prop.ID, err)
		return 2
	}
	// de-duplicate obligations across configs by rule+key+verdict (keep first)
	seen := map[string]bool{}
	var obs []Obligation
	for _, o := range res.Obs {
		k := o.Rule + "\x00" + o.Key + "\x00" + string(o.Verdict) + "\x00" + o.Config
		if seen[k] {
			continue
		}
		seen[k] = true
		obs = append(obs, o)
	}
	res.Obs = obs
	reported := map[string]bool{}
	nOb, nDis := 0, 0
	for _, o := range obs {
		switch o.Verdict {
		case Discharged:
			nOb++
			nDis++
		case Violated:
			nOb++
			k := o.Rule + "\x00" + o.Key
			if reported[k] {
				continue
			}
			reported[k] = true
			matched := false
			for _, kf := range known {
				if kf.Status == "known" && kf.Property == prop.ID && kf.Rule == o.Rule && kf.Key == o.Key {
					matched = true
					fmt.Printf("KNOWN-FINDING: property=%s %s %s — %s\n", prop.ID, o.Rule, o.Key, kf.What)
				}
			}
			if matched {
				res.Known = append(res.Known, o)
			} else {
				res.Violations = append(res.Violations, o)
			}
		case Undecided:
			nOb++
			res.Undecideds = append(res.Undecideds, o)
		}
	}
	evDir := filepath.Join(verifDir, "evidence")
	os.MkdirAll(evDir, 0755)
	vdir := filepath.Join(evDir, prop.ID+".violations")
	os.RemoveAll(vdir)
	exit := 0
	if len(res.Violations) > 0 || len(res.Undecideds) > 0 {
		os.MkdirAll(vdir, 0755)
	}
	for i, o := range res.Violations {
		f := filepath.Join(vdir, fmt.Sprintf("%d.json", i+1))
		b, _ := json.MarshalIndent(map[string]interface{}{
			"property": prop.ID, "rule": o.Rule, "construct": o.Key, "pos": o.Pos,
			"config": o.Config, "explanation": o.Detail, "path": o.Path,
			"rule_title": ruleTitle(prop, o.Rule), "decides": ruleDecides(prop, o.Rule),
		}, "", " ")
		os.WriteFile(f, b, 0644)
		fmt.Printf("VIOLATION property=%s replay=%s\n", prop.ID, f)
		fmt.Printf("  %s %s at %s: %s\n", o.Rule, o.Key, o.Pos, o.Detail)
		for _, s := range o.Path {
			fmt.Printf("    | %s\n", s)
		}
		exit = 1
	}
	for i, o := range res.Undecideds {
		f := filepath.Join(vdir, fmt.Sprintf("undecided-%d.json", i+1))
		b, _ := json.MarshalIndent(o, "", " ")
		os.WriteFile(f, b, 0644)
		fmt.Printf("UNDECIDED property=%s rule=%s construct=%s reason=%s\n", prop.ID, o.Rule, o.Key, o.Detail)
		// An undecided obligation is reported as a violation line too: the harness only knows exit 0 / exit 1+VIOLATION.
		fmt.Printf("VIOLATION property=%s replay=%s\n", prop.ID, f)
		exit = 1
	}

	// evidence
	samples := []interface{}{}
	perRule := map[string]int{}
	for _, o := range obs {
		if o.Verdict == Info {
			continue
		}
		perRule[o.Rule]++
	}
	// samples: every non-discharged obligation, plus up to 6 discharged per rule
	shown := map[string]int{}
	for _, o := range obs {
		if o.Verdict == Discharged {
			if shown[o.Rule] >= 6 {
				continue
			}
			shown[o.Rule]++
		}
		samples = append(samples, o)
	}
	rules := []map[string]interface{}{}
	for _, r := range prop.Rules {
		rules = append(rules, map[string]interface{}{"rule": r.ID, "title": r.Title, "decides": r.Decides,
			"obligations": perRule[r.ID], "floor": r.Floor})
	}
	cov := map[string]interface{}{
		"explanation":            prop.Explanation,
		"obligations":            nOb,
		"discharged":             nDis,
		"checker_cmd":            "bin/hcsa check " + prop.ID + " -tier " + tier,
		"trusted_base":           []string{"go/types type checker", "golang.org/x/tools v0.29.0 go/packages + go/ssa + callgraph/vta", "the rule implementations in /verif/hcsa/rules"},
		"samples":                samples,
		"rules":                  rules,
		"configs":                uniq(res.Configs),
		"not_decided":            prop.NotDecided,
		"known_findings_matched": len(res.Known),
		"renames_recognised":     res.Renames,
		"undecided":              len(res.Undecideds),
		"exhaustive":             true,
	}
	keys := []string{}
	for k := range res.Counters {
		keys = append(keys, k)
	}
	sort.Strings(keys)
	for _, k := range keys {
		cov[k] = res.Counters[k]
	}
	for k, v := range res.Extra {
		cov[k] = v
	}
	if prop.Level == "translation_validation" {
		cov["programs"] = res.Counters["programs"]
		cov["disagreements_checked"] = res.Counters["disagreements_checked"]
	}
	ev := map[string]interface{}{
		"property_id": prop.ID,
		"tier":        tier,
		"seed":        seed,
		"level":       prop.Level,
		"coverage":    cov,
		"assumptions": prop.Assumptions,
		"wall_s":      float64(int(res.Wall.Seconds()*1000)) / 1000,
		"violations":  len(res.Violations) + len(res.Undecideds),
	}
	b, _ := json.MarshalIndent(ev, "", " ")
	if err := os.WriteFile(filepath.Join(evDir, prop.ID+".json"), b, 0644); err != nil {
		fmt.Printf("UNDECIDED property=%s reason=cannot write evidence: %v\n", prop.ID, err)
		return 2
	}
	fmt.Printf("%s %s: %d obligations, %d discharged, %d violations, %d known findings, %d undecided (%s, %.1fs)\n",
		prop.ID, tier, nOb, nDis, len(res.Violations), len(res.Known), len(res.Undecideds),
		strings.Join(uniq(res.Configs), ","), res.Wall.Seconds())
	return exit
}

func ruleTitle(p *Property, id string) string {
	for _, r := range p.Rules {
		if r.ID == id {
			return r.Title
		}
	}
	return ""
}
func ruleDecides(p *Property, id string) string {
	for _, r := range p.Rules {
		if r.ID == id {
			return r.Decides
		}
	}
	return ""
}

func uniq(s []string) []string {
	m := map[string]bool{}
	var out []string
	for _, x := range s {
		if !m[x] {
			m[x] = true
			out = append(out, x)
		}
	}
	return out
}

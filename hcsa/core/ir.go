package core

import (
	"fmt"
	"go/constant"
	"go/token"
	"go/types"
	"sort"
	"strings"

	"golang.org/x/tools/go/callgraph"
	"golang.org/x/tools/go/ssa"
)

// ---------------------------------------------------------------- names and calls

// QualName returns "pkgpath.Name" for functions and "(*pkgpath.T).M" / "(pkgpath.T).M" for methods.
func QualName(fn *ssa.Function) string {
	if fn == nil {
		return ""
	}
	if o := fn.Origin(); o != nil {
		fn = o
	}
	return fn.String()
}

// Rel strips the module path from a qualified name for display and for obligation keys.
func Rel(s string) string {
	s = strings.ReplaceAll(s, ModulePath+"/", "")
	s = strings.ReplaceAll(s, ModulePath+".", "hc.")
	return s
}

// CallOf returns the CallCommon of a call/go/defer instruction or nil.
func CallOf(i ssa.Instruction) *ssa.CallCommon {
	if c, ok := i.(ssa.CallInstruction); ok {
		return c.Common()
	}
	return nil
}

// Callee returns the statically known callee (function, method, or closure literal) or nil.
func Callee(i ssa.Instruction) *ssa.Function {
	c := CallOf(i)
	if c == nil {
		return nil
	}
	return c.StaticCallee()
}

// IsCall reports whether instruction i is a static call of the function with the given qualified name
// (e.g. "github.com/brutella/hc/crypto.ValidateED25519Signature", "(*bytes.Buffer).Write").
func IsCall(i ssa.Instruction, qual string) bool {
	f := Callee(i)
	return f != nil && QualName(f) == qual
}

// IsInvoke reports whether i is an interface method call  iface.method  where iface is the named
// interface type "pkgpath.Name" (or any interface embedding it whose method set provides it).
func IsInvoke(i ssa.Instruction, iface, method string) bool {
	c := CallOf(i)
	if c == nil || !c.IsInvoke() || c.Method.Name() != method {
		return false
	}
	if iface == "" {
		return true
	}
	return typeIs(c.Value.Type(), iface) || methodFromIface(c.Method, iface)
}

func methodFromIface(m *types.Func, iface string) bool {
	// the method object belongs to the interface that declares it
	sig, _ := m.Type().(*types.Signature)
	if sig == nil || sig.Recv() == nil {
		return false
	}
	return typeIs(sig.Recv().Type(), iface)
}

func typeIs(t types.Type, qual string) bool {
	for {
		if p, ok := t.(*types.Pointer); ok {
			t = p.Elem()
			continue
		}
		break
	}
	if n, ok := t.(*types.Named); ok {
		o := n.Obj()
		if o.Pkg() != nil {
			return o.Pkg().Path()+"."+o.Name() == qual
		}
		return o.Name() == qual
	}
	return false
}

// TypeIs reports whether t (through pointers) is the named type "pkgpath.Name".
func TypeIs(t types.Type, qual string) bool { return typeIs(t, qual) }

// MethodCallName returns a description "recvType.method" for invoke or static method calls, "" otherwise.
func MethodCallName(i ssa.Instruction) (recv types.Type, name string) {
	c := CallOf(i)
	if c == nil {
		return nil, ""
	}
	if c.IsInvoke() {
		return c.Value.Type(), c.Method.Name()
	}
	if f := c.StaticCallee(); f != nil && f.Signature.Recv() != nil {
		return f.Signature.Recv().Type(), f.Name()
	}
	return nil, ""
}

// Args returns the call arguments without the receiver for both invoke and static method calls.
func Args(i ssa.Instruction) []ssa.Value {
	c := CallOf(i)
	if c == nil {
		return nil
	}
	if c.IsInvoke() {
		return c.Args
	}
	if f := c.StaticCallee(); f != nil && f.Signature.Recv() != nil && len(c.Args) > 0 {
		return c.Args[1:]
	}
	return c.Args
}

// Receiver returns the receiver value of a method call (invoke or static), or nil.
func Receiver(i ssa.Instruction) ssa.Value {
	c := CallOf(i)
	if c == nil {
		return nil
	}
	if c.IsInvoke() {
		return c.Value
	}
	if f := c.StaticCallee(); f != nil && f.Signature.Recv() != nil && len(c.Args) > 0 {
		return c.Args[0]
	}
	return nil
}

// Instrs calls f for every instruction of fn (not of nested closures).
func Instrs(fn *ssa.Function, f func(ssa.Instruction)) {
	for _, b := range fn.Blocks {
		for _, i := range b.Instrs {
			f(i)
		}
	}
}

// InstrsDeep visits fn and all closures defined inside it.
func InstrsDeep(fn *ssa.Function, f func(*ssa.Function, ssa.Instruction)) {
	Instrs(fn, func(i ssa.Instruction) { f(fn, i) })
	for _, a := range fn.AnonFuncs {
		InstrsDeep(a, f)
	}
}

// FindCalls returns the call instructions in fn whose callee satisfies pred.
func FindCalls(fn *ssa.Function, pred func(ssa.Instruction) bool) []ssa.Instruction {
	var out []ssa.Instruction
	Instrs(fn, func(i ssa.Instruction) {
		if CallOf(i) != nil && pred(i) {
			out = append(out, i)
		}
	})
	return out
}

// ---------------------------------------------------------------- constants

// ConstInt returns the integer value of v if it is a constant (through conversions and through
// calls of trivial module accessors such as  func (t T) Byte() byte { return byte(t) }  on constants).
func ConstInt(v ssa.Value) (int64, bool) {
	v = StripConv(v)
	if call, ok := v.(*ssa.Call); ok {
		if f := call.Call.StaticCallee(); f != nil && len(f.Blocks) == 1 && len(f.Params) == 1 && len(call.Call.Args) == 1 {
			if r, ok := f.Blocks[0].Instrs[len(f.Blocks[0].Instrs)-1].(*ssa.Return); ok && len(r.Results) == 1 && StripConv(r.Results[0]) == ssa.Value(f.Params[0]) {
				return ConstInt(call.Call.Args[0])
			}
		}
	}
	if c, ok := v.(*ssa.Const); ok && c.Value != nil {
		if c.Value.Kind() == constant.Int {
			n, ok := constant.Int64Val(c.Value)
			return n, ok
		}
		if c.Value.Kind() == constant.Bool {
			if constant.BoolVal(c.Value) {
				return 1, true
			}
			return 0, true
		}
	}
	return 0, false
}

// ConstString returns the string value if v is a string constant or []byte("const").
func ConstString(v ssa.Value) (string, bool) {
	for {
		switch x := v.(type) {
		case *ssa.Convert:
			v = x.X
			continue
		case *ssa.ChangeType:
			v = x.X
			continue
		case *ssa.MakeInterface:
			v = x.X
			continue
		}
		break
	}
	if c, ok := v.(*ssa.Const); ok && c.Value != nil && c.Value.Kind() == constant.String {
		return constant.StringVal(c.Value), true
	}
	return "", false
}

// IsNilConst reports whether v is the nil constant.
func IsNilConst(v ssa.Value) bool {
	c, ok := v.(*ssa.Const)
	return ok && c.Value == nil
}

// StripConv removes value-preserving wrappers: conversions between named/unnamed types,
// interface boxing, ChangeInterface.
func StripConv(v ssa.Value) ssa.Value {
	for {
		switch x := v.(type) {
		case *ssa.ChangeType:
			v = x.X
		case *ssa.Convert:
			v = x.X
		case *ssa.MakeInterface:
			v = x.X
		case *ssa.ChangeInterface:
			v = x.X
		default:
			return v
		}
	}
}

// ---------------------------------------------------------------- CFG reachability with cuts

// EdgeCut decides whether the edge from -> to (successor index idx) is removed.
type EdgeCut func(from *ssa.BasicBlock, idx int) bool

// Reach computes the set of blocks reachable from start when the edges selected by cut are removed
// and the blocks selected by stop are not expanded (they are included in the result).
func Reach(start *ssa.BasicBlock, cut EdgeCut, stop func(*ssa.BasicBlock) bool) map[*ssa.BasicBlock]bool {
	seen := map[*ssa.BasicBlock]bool{start: true}
	work := []*ssa.BasicBlock{start}
	for len(work) > 0 {
		b := work[len(work)-1]
		work = work[:len(work)-1]
		if stop != nil && stop(b) {
			continue
		}
		for idx, s := range b.Succs {
			if cut != nil && cut(b, idx) {
				continue
			}
			if !seen[s] {
				seen[s] = true
				work = append(work, s)
			}
		}
	}
	return seen
}

// ReachableFromEntry reports whether instruction target is reachable from the entry of its function
// once the edges selected by cut are removed.
func ReachableFromEntry(target ssa.Instruction, cut EdgeCut) bool {
	fn := target.Parent()
	if len(fn.Blocks) == 0 {
		return false
	}
	return Reach(fn.Blocks[0], cut, nil)[target.Block()]
}

// CondFact classifies a branch condition: it returns (onTrue, onFalse) = whether the fact of
// interest is established on the true / false successor of an If on cond.
type CondFact func(cond ssa.Value) (onTrue, onFalse bool)

// CutWhere builds an EdgeCut that removes every If-edge on which fact holds.
func CutWhere(fact CondFact) EdgeCut {
	return func(from *ssa.BasicBlock, idx int) bool {
		if len(from.Instrs) == 0 {
			return false
		}
		iff, ok := from.Instrs[len(from.Instrs)-1].(*ssa.If)
		if !ok {
			return false
		}
		t, f := evalFact(iff.Cond, fact)
		return (idx == 0 && t) || (idx == 1 && f)
	}
}

func evalFact(cond ssa.Value, fact CondFact) (bool, bool) {
	if u, ok := cond.(*ssa.UnOp); ok && u.Op == token.NOT {
		t, f := evalFact(u.X, fact)
		return f, t
	}
	// x == true / x == false / x != true ...
	if b, ok := cond.(*ssa.BinOp); ok && (b.Op == token.EQL || b.Op == token.NEQ) {
		var other ssa.Value
		var cv int64
		var isc bool
		if n, ok := ConstInt(b.Y); ok && isBool(b.Y.Type()) {
			other, cv, isc = b.X, n, true
		} else if n, ok := ConstInt(b.X); ok && isBool(b.X.Type()) {
			other, cv, isc = b.Y, n, true
		}
		if isc {
			t, f := evalFact(other, fact)
			if (b.Op == token.EQL) == (cv == 1) {
				return t, f
			}
			return f, t
		}
	}
	return fact(cond)
}

func isBool(t types.Type) bool {
	b, ok := t.Underlying().(*types.Basic)
	return ok && b.Info()&types.IsBoolean != 0
}

// Dominated reports whether every path from the function entry to target passes an edge on which
// fact holds (edge-cut formulation; insensitive to if/switch/short-circuit form).
func Dominated(target ssa.Instruction, fact CondFact) bool {
	return !ReachableFromEntry(target, CutWhere(fact))
}

// CmpFact builds a CondFact for "X op Y" comparisons: match receives the operator normalised so that
// the fact can be stated for ==; it returns (holdsWhenEqual, holdsWhenNotEqual) for operands (x,y).
func CmpFact(match func(x, y ssa.Value) (whenEq, whenNeq bool)) CondFact {
	return func(cond ssa.Value) (bool, bool) {
		b, ok := cond.(*ssa.BinOp)
		if !ok {
			return false, false
		}
		switch b.Op {
		case token.EQL:
			e, n := match(b.X, b.Y)
			return e, n
		case token.NEQ:
			e, n := match(b.X, b.Y)
			return n, e
		}
		return false, false
	}
}

// NilFact: the fact "is(v) != nil" / "is(v) == nil".
func NonNilFact(is func(ssa.Value) bool) CondFact {
	return CmpFact(func(x, y ssa.Value) (bool, bool) {
		if IsNilConst(y) && is(x) || IsNilConst(x) && is(y) {
			return false, true // established when not equal to nil
		}
		return false, false
	})
}

// IsNilFact: the fact "v == nil".
func IsNilFact(is func(ssa.Value) bool) CondFact {
	return CmpFact(func(x, y ssa.Value) (bool, bool) {
		if IsNilConst(y) && is(x) || IsNilConst(x) && is(y) {
			return true, false
		}
		return false, false
	})
}

// TrueFact: the fact that a boolean value satisfying is() is true.
func TrueFact(is func(ssa.Value) bool) CondFact {
	return func(cond ssa.Value) (bool, bool) {
		if is(cond) {
			return true, false
		}
		return false, false
	}
}

// FalseFact: the fact that a boolean value satisfying is() is false.
func FalseFact(is func(ssa.Value) bool) CondFact {
	return func(cond ssa.Value) (bool, bool) {
		if is(cond) {
			return false, true
		}
		return false, false
	}
}

// AnyFact: fact holds if any of the facts holds on the edge (used as alternative witnesses).
func AnyFact(fs ...CondFact) CondFact {
	return func(cond ssa.Value) (bool, bool) {
		t, f := false, false
		for _, x := range fs {
			a, b := x(cond)
			t = t || a
			f = f || b
		}
		return t, f
	}
}

// ---------------------------------------------------------------- paths

// Path is a sequence of blocks from the entry to an exit block (Return or Panic).
type Path []*ssa.BasicBlock

// EnumPaths enumerates entry->exit paths, visiting each block at most maxVisit times per path.
// It returns false if more than limit paths exist (the caller must treat that as undecided).
func EnumPaths(fn *ssa.Function, maxVisit, limit int, f func(Path)) bool {
	if len(fn.Blocks) == 0 {
		return true
	}
	count := 0
	visits := map[*ssa.BasicBlock]int{}
	var cur Path
	var rec func(b *ssa.BasicBlock) bool
	rec = func(b *ssa.BasicBlock) bool {
		if visits[b] >= maxVisit {
			return true
		}
		visits[b]++
		cur = append(cur, b)
		defer func() { visits[b]--; cur = cur[:len(cur)-1] }()
		if len(b.Succs) == 0 {
			count++
			if count > limit {
				return false
			}
			cp := make(Path, len(cur))
			copy(cp, cur)
			f(cp)
			return true
		}
		for _, s := range b.Succs {
			if !rec(s) {
				return false
			}
		}
		return true
	}
	return rec(fn.Blocks[0])
}

// Instrs of a path in order.
func (p Path) Instrs(f func(ssa.Instruction)) {
	for _, b := range p {
		for _, i := range b.Instrs {
			f(i)
		}
	}
}

// TookEdge reports whether the path goes from block a directly to its successor with index idx.
func (p Path) TookEdge(a *ssa.BasicBlock, idx int) bool {
	for k := 0; k+1 < len(p); k++ {
		if p[k] == a && len(a.Succs) > idx && p[k+1] == a.Succs[idx] {
			return true
		}
	}
	return false
}

// Returns reports whether the path ends in a Return (as opposed to a panic).
func (p Path) Returns() *ssa.Return {
	last := p[len(p)-1]
	if len(last.Instrs) == 0 {
		return nil
	}
	r, _ := last.Instrs[len(last.Instrs)-1].(*ssa.Return)
	return r
}

// Describe renders a path as source lines of its branch decisions.
func (p Path) Describe(prog *Program) []string {
	var out []string
	for k, b := range p {
		if len(b.Instrs) == 0 {
			continue
		}
		last := b.Instrs[len(b.Instrs)-1]
		switch x := last.(type) {
		case *ssa.If:
			if k+1 < len(p) {
				br := "false"
				if p[k+1] == b.Succs[0] {
					br = "true"
				}
				out = append(out, fmt.Sprintf("block %d: if %s -> %s  (%s)", b.Index, x.Cond.String(), br, prog.Position(condPos(x))))
			}
		case *ssa.Return:
			out = append(out, fmt.Sprintf("block %d: return (%s)", b.Index, prog.Position(x.Pos())))
		case *ssa.Panic:
			out = append(out, fmt.Sprintf("block %d: panic (%s)", b.Index, prog.Position(x.Pos())))
		}
	}
	return out
}

func condPos(i *ssa.If) token.Pos {
	if i.Cond.Pos().IsValid() {
		return i.Cond.Pos()
	}
	for k := len(i.Block().Instrs) - 1; k >= 0; k-- {
		if p := i.Block().Instrs[k].Pos(); p.IsValid() {
			return p
		}
	}
	return token.NoPos
}

// ---------------------------------------------------------------- provenance

// Sources walks backwards from v through value-preserving and value-combining instructions and
// returns the set of "source" values (parameters, field loads, call results, constants, allocations ...).
// transparent decides, for an instruction, which operands to follow; nil = the default set.
func Sources(v ssa.Value) []ssa.Value {
	seen := map[ssa.Value]bool{}
	var out []ssa.Value
	var walk func(v ssa.Value)
	walk = func(v ssa.Value) {
		if v == nil || seen[v] {
			return
		}
		seen[v] = true
		switch x := v.(type) {
		case *ssa.Phi:
			for _, e := range x.Edges {
				walk(e)
			}
		case *ssa.ChangeType:
			walk(x.X)
		case *ssa.Convert:
			walk(x.X)
		case *ssa.MakeInterface:
			walk(x.X)
		case *ssa.ChangeInterface:
			walk(x.X)
		case *ssa.Slice:
			// a variadic argument list: slice of a local array whose elements were stored one by one
			if a, ok := x.X.(*ssa.Alloc); ok {
				followed := false
				for _, r := range *a.Referrers() {
					if ia, ok := r.(*ssa.IndexAddr); ok {
						for _, rr := range *ia.Referrers() {
							if st, ok := rr.(*ssa.Store); ok && st.Addr == ia {
								followed = true
								walk(st.Val)
							}
						}
					}
				}
				if followed {
					return
				}
			}
			walk(x.X)
		case *ssa.Extract:
			out = append(out, v) // keep the extract itself: caller can look at Tuple and Index
		case *ssa.TypeAssert:
			walk(x.X)
		case *ssa.UnOp:
			if x.Op == token.MUL {
				// load: from a local alloc follow the stores; otherwise it is a source (field/global load)
				if a, ok := x.X.(*ssa.Alloc); ok {
					stored := false
					for _, r := range *a.Referrers() {
						if st, ok := r.(*ssa.Store); ok && st.Addr == a {
							stored = true
							walk(st.Val)
						}
					}
					if !stored {
						out = append(out, v)
					}
					return
				}
				// load through a captured variable: follow the stores to the captured cell in the parent
				if fv, ok := x.X.(*ssa.FreeVar); ok {
					followed := false
					for _, b := range FreeVarBinding(fv) {
						if a, ok := b.(*ssa.Alloc); ok {
							for _, r := range *a.Referrers() {
								if st, ok := r.(*ssa.Store); ok && st.Addr == a {
									followed = true
									walk(st.Val)
								}
							}
						}
					}
					if followed {
						return
					}
				}
				out = append(out, v)
				return
			}
			walk(x.X)
		default:
			out = append(out, v)
		}
	}
	walk(v)
	return out
}

// AnySource reports whether some source of v satisfies pred.
func AnySource(v ssa.Value, pred func(ssa.Value) bool) bool {
	for _, s := range Sources(v) {
		if pred(s) {
			return true
		}
	}
	return false
}

// AllSources reports whether every source of v satisfies pred (and there is at least one).
func AllSources(v ssa.Value, pred func(ssa.Value) bool) bool {
	ss := Sources(v)
	if len(ss) == 0 {
		return false
	}
	for _, s := range ss {
		if !pred(s) {
			return false
		}
	}
	return true
}

// CallResult: if v is the result (or an extracted component with the given index, -1 = any) of a
// call satisfying pred, return the call.
func CallResult(v ssa.Value, idx int, pred func(ssa.Instruction) bool) ssa.CallInstruction {
	if e, ok := v.(*ssa.Extract); ok {
		if idx >= 0 && e.Index != idx {
			return nil
		}
		v = e.Tuple
	} else if idx > 0 {
		return nil
	}
	if c, ok := v.(*ssa.Call); ok && pred(c) {
		return c
	}
	return nil
}

// FieldLoad: if v is a load of field "name" of a struct of named type typ (pkgpath.Name), return the base value.
func FieldLoad(v ssa.Value, typ, name string) (base ssa.Value, ok bool) {
	switch x := v.(type) {
	case *ssa.UnOp:
		if x.Op != token.MUL {
			return nil, false
		}
		fa, ok := x.X.(*ssa.FieldAddr)
		if !ok {
			return nil, false
		}
		if fieldIs(fa.X.Type(), fa.Field, typ, name) {
			return fa.X, true
		}
	case *ssa.Field:
		if fieldIs(x.X.Type(), x.Field, typ, name) {
			return x.X, true
		}
	}
	return nil, false
}

// FieldAddrOf: if v is &base.name for the named struct type, return base.
func FieldAddrOf(v ssa.Value, typ, name string) (ssa.Value, bool) {
	if fa, ok := v.(*ssa.FieldAddr); ok && fieldIs(fa.X.Type(), fa.Field, typ, name) {
		return fa.X, true
	}
	return nil, false
}

func fieldIs(t types.Type, idx int, typ, name string) bool {
	if p, ok := t.Underlying().(*types.Pointer); ok {
		t = p.Elem()
	}
	if typ != "" && !typeIs(t, typ) {
		return false
	}
	st, ok := t.Underlying().(*types.Struct)
	if !ok || idx >= st.NumFields() {
		return false
	}
	return Active.CanonFieldName(st.Field(idx)) == name
}

// FieldName returns "TypeName.field" for a FieldAddr / Field instruction.
func FieldName(v ssa.Value) string {
	var t types.Type
	var idx int
	switch x := v.(type) {
	case *ssa.FieldAddr:
		t, idx = x.X.Type(), x.Field
	case *ssa.Field:
		t, idx = x.X.Type(), x.Field
	default:
		return ""
	}
	if p, ok := t.Underlying().(*types.Pointer); ok {
		t = p.Elem()
	}
	st, ok := t.Underlying().(*types.Struct)
	if !ok {
		return ""
	}
	tn := t.String()
	if n, ok := t.(*types.Named); ok {
		tn = n.Obj().Name()
		if n.Obj().Pkg() != nil {
			tn = n.Obj().Pkg().Path() + "." + tn
		}
	}
	return tn + "." + Active.CanonFieldName(st.Field(idx))
}

// FieldStores returns every Store instruction in module code whose address is the field typ.name.
func (p *Program) FieldStores(typ, name string) []*ssa.Store {
	var out []*ssa.Store
	for _, fn := range p.ModuleFuncs() {
		Instrs(fn, func(i ssa.Instruction) {
			if st, ok := i.(*ssa.Store); ok {
				if _, ok := FieldAddrOf(st.Addr, typ, name); ok {
					out = append(out, st)
				}
			}
		})
	}
	return out
}

// ---------------------------------------------------------------- call graph queries

// CallersOf returns the module functions with an edge to fn in the VTA call graph, with call sites.
func (p *Program) CallersOf(fn *ssa.Function) []*callgraph.Edge {
	n := p.CallGraph().Nodes[fn]
	if n == nil {
		return nil
	}
	var out []*callgraph.Edge
	for _, e := range n.In {
		if e.Caller != nil && e.Caller.Func != nil && InModule(e.Caller.Func) {
			out = append(out, e)
		}
	}
	sort.Slice(out, func(i, j int) bool { return out[i].Pos() < out[j].Pos() })
	return out
}

// CalleesAt resolves the possible callees of a call site: the static callee, or VTA edges for dynamic calls.
func (p *Program) CalleesAt(site ssa.CallInstruction) []*ssa.Function {
	if f := site.Common().StaticCallee(); f != nil {
		return []*ssa.Function{f}
	}
	n := p.CallGraph().Nodes[site.Parent()]
	if n == nil {
		return nil
	}
	var out []*ssa.Function
	for _, e := range n.Out {
		if e.Site == site {
			out = append(out, e.Callee.Func)
		}
	}
	return out
}

// ReachableFuncs returns module functions reachable from roots through the VTA call graph,
// following only edges into module functions (library callees are leaves).
func (p *Program) ReachableFuncs(roots ...*ssa.Function) map[*ssa.Function]bool {
	cg := p.CallGraph()
	seen := map[*ssa.Function]bool{}
	var work []*ssa.Function
	for _, r := range roots {
		if r != nil && !seen[r] {
			seen[r] = true
			work = append(work, r)
		}
	}
	for len(work) > 0 {
		f := work[len(work)-1]
		work = work[:len(work)-1]
		n := cg.Nodes[f]
		if n == nil {
			continue
		}
		for _, e := range n.Out {
			c := e.Callee.Func
			if c == nil || seen[c] || !InModule(c) {
				continue
			}
			seen[c] = true
			work = append(work, c)
		}
		for _, a := range f.AnonFuncs {
			if !seen[a] {
				seen[a] = true
				work = append(work, a)
			}
		}
	}
	return seen
}

// SortedFuncs returns the keys of a function set ordered by name.
func SortedFuncs(m map[*ssa.Function]bool) []*ssa.Function {
	var out []*ssa.Function
	for f := range m {
		out = append(out, f)
	}
	sort.Slice(out, func(i, j int) bool {
		if out[i].String() != out[j].String() {
			return out[i].String() < out[j].String()
		}
		return out[i].Pos() < out[j].Pos()
	})
	return out
}

// FreeVarBinding: for a closure fn and one of its free variables, return the value bound at the MakeClosure site(s).
func FreeVarBinding(fv *ssa.FreeVar) []ssa.Value {
	fn := fv.Parent()
	idx := -1
	for k, f := range fn.FreeVars {
		if f == fv {
			idx = k
		}
	}
	if idx < 0 || fn.Parent() == nil {
		return nil
	}
	var out []ssa.Value
	Instrs(fn.Parent(), func(i ssa.Instruction) {
		if mc, ok := i.(*ssa.MakeClosure); ok && mc.Fn == fn {
			out = append(out, mc.Bindings[idx])
		}
	})
	return out
}

package core

import (
	"fmt"
	"go/constant"
	"go/token"
	"go/types"
	"os"
	"sort"
	"strings"

	"golang.org/x/tools/go/callgraph"
	"golang.org/x/tools/go/ssa"
)

// ---------------------------------------------------------------- names and calls

// QualName returns "pkgpath.Name" for functions and "(*pkgpath.T).M" / "(pkgpath.T).M" for methods.
func QualName(fn *ssa.Function) string {
	if fn == nil {
		return ""
	}
	if o := fn.Origin(); o != nil {
		fn = o
	}
	return Active.CanonQual(fn)
}

// Rel strips the module path from a qualified name for display and for obligation keys.
func Rel(s string) string {
	s = strings.ReplaceAll(s, ModulePath+"/", "")
	s = strings.ReplaceAll(s, ModulePath+".", "hc.")
	return s
}

// CallOf returns the CallCommon of a call/go/defer instruction or nil.
func CallOf(i ssa.Instruction) *ssa.CallCommon {
	if c, ok := i.(ssa.CallInstruction); ok {
		return c.Common()
	}
	return nil
}

// Callee returns the statically known callee (function, method, or closure literal) or nil.
func Callee(i ssa.Instruction) *ssa.Function {
	c := CallOf(i)
	if c == nil {
		return nil
	}
	return c.StaticCallee()
}

// IsCall reports whether instruction i is a static call of the function with the given qualified name
// (e.g. "github.com/brutella/hc/crypto.ValidateED25519Signature", "(*bytes.Buffer).Write").
func IsCall(i ssa.Instruction, qual string) bool {
	f := Callee(i)
	return f != nil && QualName(f) == qual
}

// IsInvoke reports whether i is an interface method call  iface.method  where iface is the named
// interface type "pkgpath.Name" (or any interface embedding it whose method set provides it).
func IsInvoke(i ssa.Instruction, iface, method string) bool {
	c := CallOf(i)
	if c == nil || !c.IsInvoke() || c.Method.Name() != method {
		return false
	}
	if iface == "" {
		return true
	}
	return typeIs(c.Value.Type(), iface) || methodFromIface(c.Method, iface)
}

func methodFromIface(m *types.Func, iface string) bool {
	// the method object belongs to the interface that declares it
	sig, _ := m.Type().(*types.Signature)
	if sig == nil || sig.Recv() == nil {
		return false
	}
	return typeIs(sig.Recv().Type(), iface)
}

func typeIs(t types.Type, qual string) bool {
	for {
		if p, ok := t.(*types.Pointer); ok {
			t = p.Elem()
			continue
		}
		break
	}
	if n, ok := t.(*types.Named); ok {
		o := n.Obj()
		if o.Pkg() != nil {
			return o.Pkg().Path()+"."+Active.CanonTypeName(o) == qual
		}
		return o.Name() == qual
	}
	return false
}

// TypeIs reports whether t (through pointers) is the named type "pkgpath.Name".
func TypeIs(t types.Type, qual string) bool { return typeIs(t, qual) }

// MethodCallName returns a description "recvType.method" for invoke or static method calls, "" otherwise.
func MethodCallName(i ssa.Instruction) (recv types.Type, name string) {
	c := CallOf(i)
	if c == nil {
		return nil, ""
	}
	if c.IsInvoke() {
		return c.Value.Type(), c.Method.Name()
	}
	if f := c.StaticCallee(); f != nil && Active.RecvOf(f) != nil {
		return Active.RecvOf(f), Active.CanonName(f)
	}
	return nil, ""
}

// Args returns the call arguments without the receiver for both invoke and static method calls.
func Args(i ssa.Instruction) []ssa.Value {
	c := CallOf(i)
	if c == nil {
		return nil
	}
	if c.IsInvoke() {
		return c.Args
	}
	if f := c.StaticCallee(); f != nil && Active.RecvOf(f) != nil && len(c.Args) > 0 {
		return c.Args[1:]
	}
	return c.Args
}

// Receiver returns the receiver value of a method call (invoke or static), or nil.
func Receiver(i ssa.Instruction) ssa.Value {
	c := CallOf(i)
	if c == nil {
		return nil
	}
	if c.IsInvoke() {
		return c.Value
	}
	if f := c.StaticCallee(); f != nil && Active.RecvOf(f) != nil && len(c.Args) > 0 {
		return c.Args[0]
	}
	return nil
}

// Instrs calls f for every instruction of fn (not of nested closures).
func Instrs(fn *ssa.Function, f func(ssa.Instruction)) {
	for _, b := range fn.Blocks {
		for _, i := range b.Instrs {
			f(i)
		}
	}
}

// InstrsDeep visits fn and all closures defined inside it.
func InstrsDeep(fn *ssa.Function, f func(*ssa.Function, ssa.Instruction)) {
	Instrs(fn, func(i ssa.Instruction) { f(fn, i) })
	for _, a := range fn.AnonFuncs {
		InstrsDeep(a, f)
	}
}

// FindCalls returns the call instructions in fn whose callee satisfies pred.
func FindCalls(fn *ssa.Function, pred func(ssa.Instruction) bool) []ssa.Instruction {
	var out []ssa.Instruction
	Instrs(fn, func(i ssa.Instruction) {
		if CallOf(i) != nil && pred(i) {
			out = append(out, i)
		}
	})
	return out
}

// ---------------------------------------------------------------- constants

// ConstInt returns the integer value of v if it is a constant (through conversions and through
// calls of trivial module accessors such as  func (t T) Byte() byte { return byte(t) }  on constants).
func ConstInt(v ssa.Value) (int64, bool) {
	v = StripConv(v)
	if call, ok := v.(*ssa.Call); ok {
		if f := call.Call.StaticCallee(); f != nil && len(f.Blocks) == 1 && len(f.Params) == 1 && len(call.Call.Args) == 1 {
			if r, ok := f.Blocks[0].Instrs[len(f.Blocks[0].Instrs)-1].(*ssa.Return); ok && len(r.Results) == 1 && StripConv(r.Results[0]) == ssa.Value(f.Params[0]) {
				return ConstInt(call.Call.Args[0])
			}
		}
	}
	if c, ok := v.(*ssa.Const); ok && c.Value != nil {
		if c.Value.Kind() == constant.Int {
			n, ok := constant.Int64Val(c.Value)
			return n, ok
		}
		if c.Value.Kind() == constant.Bool {
			if constant.BoolVal(c.Value) {
				return 1, true
			}
			return 0, true
		}
	}
	return 0, false
}

// ConstString returns the string value if v is a string constant or []byte("const").
func ConstString(v ssa.Value) (string, bool) {
	for {
		switch x := v.(type) {
		case *ssa.Convert:
			v = x.X
			continue
		case *ssa.ChangeType:
			v = x.X
			continue
		case *ssa.MakeInterface:
			v = x.X
			continue
		}
		break
	}
	if c, ok := v.(*ssa.Const); ok && c.Value != nil && c.Value.Kind() == constant.String {
		return constant.StringVal(c.Value), true
	}
	return "", false
}

// IsNilConst reports whether v is the nil constant.
func IsNilConst(v ssa.Value) bool {
	c, ok := v.(*ssa.Const)
	return ok && c.Value == nil
}

// StripConv removes value-preserving wrappers: conversions between named/unnamed types,
// interface boxing, ChangeInterface.
func StripConv(v ssa.Value) ssa.Value {
	for {
		switch x := v.(type) {
		case *ssa.ChangeType:
			v = x.X
		case *ssa.Convert:
			v = x.X
		case *ssa.MakeInterface:
			v = x.X
		case *ssa.ChangeInterface:
			v = x.X
		default:
			return v
		}
	}
}

// ---------------------------------------------------------------- CFG reachability with cuts

// EdgeCut decides whether the edge from -> to (successor index idx) is removed.
type EdgeCut func(from *ssa.BasicBlock, idx int) bool

// Reach computes the set of blocks reachable from start when the edges selected by cut are removed
// and the blocks selected by stop are not expanded (they are included in the result).
func Reach(start *ssa.BasicBlock, cut EdgeCut, stop func(*ssa.BasicBlock) bool) map[*ssa.BasicBlock]bool {
	seen := map[*ssa.BasicBlock]bool{start: true}
	work := []*ssa.BasicBlock{start}
	for len(work) > 0 {
		b := work[len(work)-1]
		work = work[:len(work)-1]
		if stop != nil && stop(b) {
			continue
		}
		for idx, s := range b.Succs {
			if cut != nil && cut(b, idx) {
				continue
			}
			// a branch on a constant ( if debug { ... } , a check forced on or off) has one live edge
			if iff, ok := b.Instrs[len(b.Instrs)-1].(*ssa.If); ok {
				if k, isConst := constCond(iff.Cond); isConst && ((idx == 0 && !k) || (idx == 1 && k)) {
					continue
				}
			}
			if !seen[s] {
				seen[s] = true
				work = append(work, s)
			}
		}
	}
	return seen
}

// ReachableFromEntry reports whether instruction target is reachable from the entry of its function
// once the edges selected by cut are removed.
func ReachableFromEntry(target ssa.Instruction, cut EdgeCut) bool {
	fn := target.Parent()
	if len(fn.Blocks) == 0 {
		return false
	}
	return Reach(fn.Blocks[0], cut, nil)[target.Block()]
}

// CondFact classifies a branch condition: it returns (onTrue, onFalse) = whether the fact of
// interest is established on the true / false successor of an If on cond.
type CondFact func(cond ssa.Value) (onTrue, onFalse bool)

// CutWhere builds an EdgeCut that removes every If-edge on which fact holds.
func CutWhere(fact CondFact) EdgeCut {
	return func(from *ssa.BasicBlock, idx int) bool {
		if len(from.Instrs) == 0 {
			return false
		}
		iff, ok := from.Instrs[len(from.Instrs)-1].(*ssa.If)
		if !ok {
			return false
		}
		t, f := evalFact(iff.Cond, fact)
		return (idx == 0 && t) || (idx == 1 && f)
	}
}

// EvalFact applies fact to cond, looking through negations and comparisons with a boolean constant.
func EvalFact(cond ssa.Value, fact CondFact) (bool, bool) { return evalFact(cond, fact) }

func evalFact(cond ssa.Value, fact CondFact) (bool, bool) {
	if u, ok := cond.(*ssa.UnOp); ok && u.Op == token.NOT {
		t, f := evalFact(u.X, fact)
		return f, t
	}
	// x == true / x == false / x != true ...
	if b, ok := cond.(*ssa.BinOp); ok && (b.Op == token.EQL || b.Op == token.NEQ) {
		var other ssa.Value
		var cv int64
		var isc bool
		if n, ok := ConstInt(b.Y); ok && isBool(b.Y.Type()) {
			other, cv, isc = b.X, n, true
		} else if n, ok := ConstInt(b.X); ok && isBool(b.X.Type()) {
			other, cv, isc = b.Y, n, true
		}
		if isc {
			t, f := evalFact(other, fact)
			if (b.Op == token.EQL) == (cv == 1) {
				return t, f
			}
			return f, t
		}
	}
	return fact(cond)
}

func isBool(t types.Type) bool {
	b, ok := t.Underlying().(*types.Basic)
	return ok && b.Info()&types.IsBoolean != 0
}

// Dominated reports whether every path from the function entry to target passes an edge on which
// fact holds (edge-cut formulation; insensitive to if/switch/short-circuit form).
func Dominated(target ssa.Instruction, fact CondFact) bool {
	return !reachablePhiAware(target, fact)
}

// reachablePhiAware is ReachableFromEntry(target, CutWhere(fact)) with one refinement: a block whose branch condition is computed
// from phis of that same block is visited once per incoming edge, with the phis replaced by the value that edge supplies. So
//
//	err = φ(e1 from B1, e2 from B2, nil from B3);  if err != nil { return } ; S
//
// (the shape left by a helper that returns its first error, after inlining, and by every "merged error variable") establishes
// "e1 == nil" at S for the paths that come through B1, and the paths through B3 cannot take the true edge at all: edges that are
// infeasible for the incoming value are removed. Only infeasible paths are dropped, so the answer stays a sound over-approximation
// of reachability.
func reachablePhiAware(target ssa.Instruction, fact CondFact) bool {
	fn := target.Parent()
	if len(fn.Blocks) == 0 {
		return false
	}
	found := false
	Explore(fn.Blocks[0], -1, fact, func(b *ssa.BasicBlock) bool {
		if b == target.Block() {
			found = true
			return false
		}
		return !found
	})
	return found
}

// Explore walks the CFG from block start (entered through its pred-th incoming edge, -1 = unknown), skipping the edges on which
// fact is established (fact may be nil) and the edges that are infeasible for the value a phi-controlled branch received on the
// incoming edge. visit is called for every (block, incoming edge) state reached; returning false does not expand that block.
func Explore(start *ssa.BasicBlock, pred int, fact CondFact, visit func(*ssa.BasicBlock) bool) {
	fn := start.Parent()
	// relevant: blocks whose phis (transitively, through other phis) feed some branch condition of the function. For those blocks
	// the walk remembers through which incoming edge they were entered last (at most four of them: enough for the result variables of
	// an inlined helper that themselves merge a flag computed by `a || b`).
	relevant := map[*ssa.BasicBlock]bool{}
	var mark func(v ssa.Value, depth int)
	mark = func(v ssa.Value, depth int) {
		if depth == 0 || v == nil {
			return
		}
		switch x := v.(type) {
		case *ssa.Phi:
			if relevant[x.Block()] && depth < 6 {
				return
			}
			relevant[x.Block()] = true
			for _, e := range x.Edges {
				mark(e, depth-1)
			}
		case *ssa.UnOp:
			if x.Op == token.NOT {
				mark(x.X, depth-1)
			}
		case *ssa.BinOp:
			mark(x.X, depth-1)
			mark(x.Y, depth-1)
		case *ssa.ChangeType:
			mark(x.X, depth-1)
		case *ssa.Convert:
			mark(x.X, depth-1)
		}
	}
	for _, b := range fn.Blocks {
		if iff, ok := b.Instrs[len(b.Instrs)-1].(*ssa.If); ok {
			mark(iff.Cond, 6)
		}
	}
	type entry struct {
		b    *ssa.BasicBlock
		pred int
	}
	type state struct {
		b   *ssa.BasicBlock
		env string
	}
	// decisions: outcomes of earlier  x == nil / x != nil  tests on this walk for values x that are merged into a relevant phi
	// ( if e1 != nil { err = e1 } ... if err != nil ): the merged test cannot come out the other way for the same x
	type decision struct {
		x     ssa.Value
		isNil bool
		y     string // "" for the nil test; otherwise the sentinel (a package-level variable) x was compared with: isNil then means "equal"
	}
	phiInput := map[ssa.Value]bool{}
	for b := range relevant {
		for _, i := range b.Instrs {
			if ph, ok := i.(*ssa.Phi); ok {
				for _, e := range ph.Edges {
					if _, isConst := e.(*ssa.Const); !isConst {
						phiInput[e] = true
					}
				}
			}
		}
	}
	nilTest := func(c ssa.Value) (ssa.Value, bool, bool) { // (x, condition true means x is nil, ok)
		neg := false
		for {
			if u, ok := c.(*ssa.UnOp); ok && u.Op == token.NOT {
				c, neg = u.X, !neg
				continue
			}
			break
		}
		bo, ok := c.(*ssa.BinOp)
		if !ok || (bo.Op != token.EQL && bo.Op != token.NEQ) {
			return nil, false, false
		}
		var x ssa.Value
		switch {
		case IsNilConst(bo.Y):
			x = bo.X
		case IsNilConst(bo.X):
			x = bo.Y
		default:
			return nil, false, false
		}
		return x, (bo.Op == token.EQL) != neg, true
	}
	// x == Sentinel / x != Sentinel  ( err == io.ErrUnexpectedEOF ): two tests of the same value against the same package-level
	// variable on one walk come out the same way (the variable is a sentinel: assigned once, at initialisation)
	sentinelTest := func(c ssa.Value) (ssa.Value, string, bool, bool) { // (x, sentinel, condition true means equal, ok)
		neg := false
		for {
			if u, ok := c.(*ssa.UnOp); ok && u.Op == token.NOT {
				c, neg = u.X, !neg
				continue
			}
			break
		}
		bo, ok := c.(*ssa.BinOp)
		if !ok || (bo.Op != token.EQL && bo.Op != token.NEQ) {
			return nil, "", false, false
		}
		sent := func(v ssa.Value) string {
			if u, ok := v.(*ssa.UnOp); ok && u.Op == token.MUL {
				if g, ok := u.X.(*ssa.Global); ok && g.Pkg != nil {
					if u.Type().String() == "error" {
						return "error:" + g.Pkg.Pkg.Path() + "." + g.Name()
					}
					return g.Pkg.Pkg.Path() + "." + g.Name()
				}
			}
			return ""
		}
		switch {
		case sent(bo.Y) != "" && sent(bo.X) == "":
			return bo.X, sent(bo.Y), (bo.Op == token.EQL) != neg, true
		case sent(bo.X) != "" && sent(bo.Y) == "":
			return bo.Y, sent(bo.X), (bo.Op == token.EQL) != neg, true
		}
		return nil, "", false, false
	}
	// only values tested against the same sentinel more than once are worth remembering
	sentinelCount := map[string]int{}
	countKey := func(x ssa.Value, y string) string { return fmt.Sprintf("%p|%s", x, y) }
	for _, b := range fn.Blocks {
		for _, i := range b.Instrs {
			if v, ok := i.(ssa.Value); ok {
				if _, isBin := v.(*ssa.BinOp); isBin {
					if x, y, _, ok := sentinelTest(v); ok {
						sentinelCount[countKey(x, y)]++
					}
				}
			}
		}
	}
	type item struct {
		b   *ssa.BasicBlock
		env []entry // most recent last
		dec []decision
	}
	key := func(env []entry, dec []decision) string {
		var sb strings.Builder
		for _, e := range env {
			fmt.Fprintf(&sb, "%d:%d,", e.b.Index, e.pred)
		}
		for _, d := range dec {
			fmt.Fprintf(&sb, "|%p:%v:%s", d.x, d.isNil, d.y)
		}
		return sb.String()
	}
	enter := func(env []entry, b *ssa.BasicBlock, pred int) []entry {
		if !relevant[b] || pred < 0 {
			return env
		}
		out := make([]entry, 0, len(env)+1)
		for _, e := range env {
			if e.b != b {
				out = append(out, e)
			}
		}
		out = append(out, entry{b, pred})
		if len(out) > 4 {
			out = out[len(out)-4:]
		}
		return out
	}
	first := enter(nil, start, pred)
	seen := map[state]bool{{start, key(first, nil)}: true}
	work := []item{{start, first, nil}}
	for len(work) > 0 {
		s := work[len(work)-1]
		work = work[:len(work)-1]
		if !visit(s.b) {
			continue
		}
		iff, _ := s.b.Instrs[len(s.b.Instrs)-1].(*ssa.If)
		lookup := func(b *ssa.BasicBlock) int {
			for k := len(s.env) - 1; k >= 0; k-- {
				if s.env[k].b == b {
					return s.env[k].pred
				}
			}
			return -1
		}
		for idx, succ := range s.b.Succs {
			if iff != nil {
				// the fact may be stated about the merged value itself (original condition) or about what it merges (specialised)
				if fact != nil {
					t, f := evalFact(iff.Cond, fact)
					if (idx == 0 && t) || (idx == 1 && f) {
						continue
					}
				}
				cond := iff.Cond
				if len(s.env) > 0 {
					cond = specialiseEnv(iff.Cond, lookup, 6)
					if k, isConst := constCond(cond); isConst {
						if (idx == 0 && !k) || (idx == 1 && k) {
							continue // infeasible for the incoming value
						}
					} else if cond != iff.Cond && fact != nil {
						t, f := evalFact(cond, fact)
						if (idx == 0 && t) || (idx == 1 && f) {
							continue
						}
					}
				}
				// contradiction with an earlier nil test of the same value on this walk
				if x, trueMeansNil, ok := nilTest(cond); ok {
					// a freshly made error is not nil ( the result variable of an inlined helper on its  return nil, fmt.Errorf(...)  edge )
					if call, isCall := x.(*ssa.Call); isCall && trueMeansNil == (idx == 0) {
						if g := call.Call.StaticCallee(); g != nil && g.Pkg != nil && ((g.Pkg.Pkg.Path() == "fmt" && g.Name() == "Errorf") || (g.Pkg.Pkg.Path() == "errors" && g.Name() == "New")) {
							continue
						}
					}
					contradicts := false
					for _, d := range s.dec {
						if d.y == "" && d.x == x && d.isNil != (trueMeansNil == (idx == 0)) {
							contradicts = true
						}
					}
					if contradicts {
						continue
					}
				}
				if x, y, trueMeansEq, ok := sentinelTest(cond); ok {
					contradicts := false
					for _, d := range s.dec {
						if d.y == y && d.x == x && d.isNil != (trueMeansEq == (idx == 0)) {
							contradicts = true
						}
						// x is nil on this walk: it is not the sentinel (a sentinel error is not nil)
						if d.y == "" && d.x == x && d.isNil && trueMeansEq == (idx == 0) && strings.HasPrefix(y, "error:") {
							contradicts = true
						}
					}
					if contradicts {
						continue
					}
				}
			}
			ndec := s.dec
			if iff != nil {
				if x, trueMeansNil, ok := nilTest(iff.Cond); ok && phiInput[x] {
					d := decision{x, trueMeansNil == (idx == 0), ""}
					dup := false
					for _, e := range ndec {
						if e == d {
							dup = true
						}
					}
					if !dup && len(ndec) < 4 {
						ndec = append(append([]decision(nil), ndec...), d)
					}
				}
				if x, y, trueMeansEq, ok := sentinelTest(iff.Cond); ok && sentinelCount[countKey(x, y)] > 1 {
					d := decision{x, trueMeansEq == (idx == 0), y}
					dup := false
					for _, e := range ndec {
						if e == d {
							dup = true
						}
					}
					if !dup && len(ndec) < 6 {
						ndec = append(append([]decision(nil), ndec...), d)
					}
				}
			}
			nenv := enter(s.env, succ, PredIndex(s.b, idx))
			st := state{succ, key(nenv, ndec)}
			if !seen[st] {
				seen[st] = true
				work = append(work, item{succ, nenv, ndec})
			}
		}
	}
}

// specialiseEnv rewrites cond with every phi whose block's incoming edge is known replaced by that edge's value (repeatedly).
func specialiseEnv(v ssa.Value, pred func(*ssa.BasicBlock) int, depth int) ssa.Value {
	if depth == 0 || v == nil {
		return v
	}
	switch x := v.(type) {
	case *ssa.Phi:
		if k := pred(x.Block()); k >= 0 && k < len(x.Edges) {
			return specialiseEnv(x.Edges[k], pred, depth-1)
		}
	case *ssa.UnOp:
		if x.Op == token.NOT {
			if y := specialiseEnv(x.X, pred, depth-1); y != x.X {
				return &ssa.UnOp{Op: token.NOT, X: y}
			}
		}
	case *ssa.BinOp:
		nx, ny := specialiseEnv(x.X, pred, depth-1), specialiseEnv(x.Y, pred, depth-1)
		if nx != x.X || ny != x.Y {
			return &ssa.BinOp{Op: x.Op, X: nx, Y: ny}
		}
	case *ssa.ChangeType:
		if y := specialiseEnv(x.X, pred, depth-1); y != x.X {
			return y
		}
	case *ssa.Convert:
		if y := specialiseEnv(x.X, pred, depth-1); y != x.X {
			if _, isConst := y.(*ssa.Const); !isConst {
				return y
			}
		}
	}
	return v
}

// PredIndex: the index, among the predecessors of b.Succs[idx], of the edge that is b's idx-th successor edge.
func PredIndex(b *ssa.BasicBlock, idx int) int {
	succ := b.Succs[idx]
	n := 0
	for j := 0; j < idx; j++ {
		if b.Succs[j] == succ {
			n++
		}
	}
	for j, pb := range succ.Preds {
		if pb == b {
			if n == 0 {
				return j
			}
			n--
		}
	}
	return -1
}

func mentionsPhiOf(v ssa.Value, b *ssa.BasicBlock, depth int) bool {
	if depth == 0 || v == nil {
		return false
	}
	switch x := v.(type) {
	case *ssa.Phi:
		return x.Block() == b
	case *ssa.UnOp:
		return x.Op == token.NOT && mentionsPhiOf(x.X, b, depth-1)
	case *ssa.BinOp:
		return mentionsPhiOf(x.X, b, depth-1) || mentionsPhiOf(x.Y, b, depth-1)
	case *ssa.ChangeType:
		return mentionsPhiOf(x.X, b, depth-1)
	case *ssa.Convert:
		return mentionsPhiOf(x.X, b, depth-1)
	}
	return false
}

// specialise rewrites cond for the paths that enter block b through its pred-th incoming edge.
func specialise(v ssa.Value, b *ssa.BasicBlock, pred, depth int) ssa.Value {
	if depth == 0 || v == nil {
		return v
	}
	switch x := v.(type) {
	case *ssa.Phi:
		if x.Block() == b && pred < len(x.Edges) {
			return x.Edges[pred]
		}
	case *ssa.UnOp:
		if x.Op == token.NOT {
			if y := specialise(x.X, b, pred, depth-1); y != x.X {
				return &ssa.UnOp{Op: token.NOT, X: y}
			}
		}
	case *ssa.BinOp:
		nx, ny := specialise(x.X, b, pred, depth-1), specialise(x.Y, b, pred, depth-1)
		if nx != x.X || ny != x.Y {
			return &ssa.BinOp{Op: x.Op, X: nx, Y: ny}
		}
	case *ssa.ChangeType:
		if y := specialise(x.X, b, pred, depth-1); y != x.X {
			return y
		}
	case *ssa.Convert:
		if y := specialise(x.X, b, pred, depth-1); y != x.X {
			if _, isConst := y.(*ssa.Const); !isConst {
				return y
			}
		}
	}
	return v
}

// constCond decides conditions that are constant after specialisation: true/false, !const, const ==/!= const (incl. nil == nil).
func constCond(v ssa.Value) (bool, bool) {
	switch x := v.(type) {
	case *ssa.Const:
		if x.Value != nil && x.Value.Kind() == constant.Bool {
			return constant.BoolVal(x.Value), true
		}
	case *ssa.UnOp:
		if x.Op == token.NOT {
			if k, ok := constCond(x.X); ok {
				return !k, true
			}
		}
	case *ssa.BinOp:
		if x.Op != token.EQL && x.Op != token.NEQ {
			return false, false
		}
		cx, okx := x.X.(*ssa.Const)
		cy, oky := x.Y.(*ssa.Const)
		if okx && cx.Value == nil && KnownNonNil(x.Y) || oky && cy.Value == nil && KnownNonNil(x.X) {
			return x.Op == token.NEQ, true // a freshly made slice / map / allocation is never nil
		}
		if !okx || !oky {
			return false, false
		}
		var eq bool
		switch {
		case cx.Value == nil && cy.Value == nil:
			eq = true
		case cx.Value == nil || cy.Value == nil:
			return false, false
		default:
			eq = constant.Compare(cx.Value, token.EQL, cy.Value)
		}
		return eq == (x.Op == token.EQL), true
	}
	return false, false
}

// CmpFact builds a CondFact for "X op Y" comparisons: match receives the operator normalised so that
// the fact can be stated for ==; it returns (holdsWhenEqual, holdsWhenNotEqual) for operands (x,y).
func CmpFact(match func(x, y ssa.Value) (whenEq, whenNeq bool)) CondFact {
	return func(cond ssa.Value) (bool, bool) {
		b, ok := cond.(*ssa.BinOp)
		if !ok {
			return false, false
		}
		switch b.Op {
		case token.EQL:
			e, n := match(b.X, b.Y)
			return e, n
		case token.NEQ:
			e, n := match(b.X, b.Y)
			return n, e
		}
		return false, false
	}
}

// NilFact: the fact "is(v) != nil" / "is(v) == nil".
func NonNilFact(is func(ssa.Value) bool) CondFact {
	return CmpFact(func(x, y ssa.Value) (bool, bool) {
		if IsNilConst(y) && is(x) || IsNilConst(x) && is(y) {
			return false, true // established when not equal to nil
		}
		return false, false
	})
}

// IsNilFact: the fact "v == nil".
func IsNilFact(is func(ssa.Value) bool) CondFact {
	return CmpFact(func(x, y ssa.Value) (bool, bool) {
		if IsNilConst(y) && is(x) || IsNilConst(x) && is(y) {
			return true, false
		}
		return false, false
	})
}

// TrueFact: the fact that a boolean value satisfying is() is true.
func TrueFact(is func(ssa.Value) bool) CondFact {
	return func(cond ssa.Value) (bool, bool) {
		if is(cond) {
			return true, false
		}
		return false, false
	}
}

// FalseFact: the fact that a boolean value satisfying is() is false.
func FalseFact(is func(ssa.Value) bool) CondFact {
	return func(cond ssa.Value) (bool, bool) {
		if is(cond) {
			return false, true
		}
		return false, false
	}
}

// AnyFact: fact holds if any of the facts holds on the edge (used as alternative witnesses).
func AnyFact(fs ...CondFact) CondFact {
	return func(cond ssa.Value) (bool, bool) {
		t, f := false, false
		for _, x := range fs {
			a, b := x(cond)
			t = t || a
			f = f || b
		}
		return t, f
	}
}

// ---------------------------------------------------------------- paths

// Path is a sequence of blocks from the entry to an exit block (Return or Panic).
type Path []*ssa.BasicBlock

// EnumPaths enumerates entry->exit paths, visiting each block at most maxVisit times per path.
// It returns false if more than limit paths exist (the caller must treat that as undecided).
func EnumPaths(fn *ssa.Function, maxVisit, limit int, f func(Path)) bool {
	if len(fn.Blocks) == 0 {
		return true
	}
	count := 0
	visits := map[*ssa.BasicBlock]int{}
	var cur Path
	// Infeasible paths are not delivered. A path is infeasible when it takes a branch whose condition, with every phi replaced
	// by the value supplied on the edge this path actually came through, is constant the other way (nil != nil, !false), or
	// contradicts the outcome the same path already took for the same comparison of the same values (the shape left by inlined
	// helpers:  if e1 != nil { r = e1; break } ... err = φ(.., e1, ..); if err != nil ...). Decisions are forgotten when the
	// path re-enters the block that defines one of the compared values (next loop iteration = new dynamic value).
	type decision struct {
		x, y ssa.Value
		eq   bool
	}
	var decided []decision
	entered := map[*ssa.BasicBlock]int{} // pred index of the most recent entry
	var resolve func(v ssa.Value, depth int) ssa.Value
	resolve = func(v ssa.Value, depth int) ssa.Value {
		for depth > 0 {
			depth--
			switch x := v.(type) {
			case *ssa.Phi:
				k, ok := entered[x.Block()]
				if !ok || k < 0 || k >= len(x.Edges) {
					return v
				}
				v = x.Edges[k]
				continue
			case *ssa.ChangeType:
				v = x.X
				continue
			case *ssa.MakeInterface:
				if _, isConst := x.X.(*ssa.Const); !isConst {
					v = x.X
					continue
				}
			}
			break
		}
		return v
	}
	// normal form of a condition: (x, y, eq) meaning the condition is true iff (x == y) == eq; y == nil for a bare boolean x
	var normal func(c ssa.Value, depth int) (x, y ssa.Value, eq, ok bool)
	normal = func(c ssa.Value, depth int) (ssa.Value, ssa.Value, bool, bool) {
		if depth == 0 {
			return nil, nil, false, false
		}
		c = resolve(c, 6)
		switch v := c.(type) {
		case *ssa.UnOp:
			if v.Op == token.NOT {
				x, y, eq, ok := normal(v.X, depth-1)
				return x, y, !eq, ok
			}
		case *ssa.BinOp:
			if v.Op == token.EQL || v.Op == token.NEQ {
				x, y := resolve(v.X, 6), resolve(v.Y, 6)
				// b == true / b != false ...
				if k, isK := y.(*ssa.Const); isK && k.Value != nil && k.Value.Kind() == constant.Bool {
					bx, by, beq, ok := normal(x, depth-1)
					if ok {
						if constant.BoolVal(k.Value) != (v.Op == token.EQL) {
							beq = !beq
						}
						return bx, by, beq, true
					}
				}
				return x, y, v.Op == token.EQL, true
			}
			return nil, nil, false, false
		}
		if isBool(c.Type()) {
			return c, nil, true, true
		}
		return nil, nil, false, false
	}
	feasible := func(b *ssa.BasicBlock, idx int) (bool, *decision) {
		iff, ok := b.Instrs[len(b.Instrs)-1].(*ssa.If)
		if !ok {
			return true, nil
		}
		x, y, eq, ok := normal(iff.Cond, 4)
		if !ok {
			return true, nil
		}
		want := eq == (idx == 0) // taking this edge means (x == y) == want   (for a bare boolean: x is want)
		// constants
		if y == nil {
			if k, isK := x.(*ssa.Const); isK && k.Value != nil && k.Value.Kind() == constant.Bool {
				return constant.BoolVal(k.Value) == want, nil
			}
		} else {
			cx, okx := x.(*ssa.Const)
			cy, oky := y.(*ssa.Const)
			if okx && cx.Value == nil && KnownNonNil(y) || oky && cy.Value == nil && KnownNonNil(x) {
				return !want, nil
			}
			if okx && oky {
				switch {
				case cx.Value == nil && cy.Value == nil:
					return want, nil
				case cx.Value != nil && cy.Value != nil:
					return constant.Compare(cx.Value, token.EQL, cy.Value) == want, nil
				}
			}
		}
		for _, d := range decided {
			if (sameOperand(d.x, x) && sameOperand(d.y, y)) || (y != nil && sameOperand(d.x, y) && sameOperand(d.y, x)) {
				if d.eq != want {
					return false, nil
				}
				return true, nil
			}
		}
		return true, &decision{x, y, want}
	}
	definedIn := func(v ssa.Value, b *ssa.BasicBlock) bool {
		if v == nil {
			return false
		}
		i, ok := v.(ssa.Instruction)
		return ok && i.Block() == b
	}
	var rec func(b *ssa.BasicBlock, pred int) bool
	rec = func(b *ssa.BasicBlock, pred int) bool {
		if visits[b] >= maxVisit {
			return true
		}
		visits[b]++
		cur = append(cur, b)
		oldEntered, hadEntered := entered[b]
		entered[b] = pred
		// forget decisions about values this block (re)defines
		saved := decided
		var kept []decision
		for _, d := range decided {
			if !definedIn(d.x, b) && !definedIn(d.y, b) {
				kept = append(kept, d)
			}
		}
		decided = kept
		defer func() {
			visits[b]--
			cur = cur[:len(cur)-1]
			decided = saved
			if hadEntered {
				entered[b] = oldEntered
			} else {
				delete(entered, b)
			}
		}()
		if len(b.Succs) == 0 {
			count++
			if count > limit {
				return false
			}
			cp := make(Path, len(cur))
			copy(cp, cur)
			f(cp)
			return true
		}
		for idx, s := range b.Succs {
			ok, d := feasible(b, idx)
			if !ok {
				continue
			}
			// which incoming edge of s
			n := 0
			for j := 0; j < idx; j++ {
				if b.Succs[j] == s {
					n++
				}
			}
			np := -1
			for j, pb := range s.Preds {
				if pb == b {
					if n == 0 {
						np = j
						break
					}
					n--
				}
			}
			before := decided
			if d != nil {
				decided = append(append([]decision(nil), decided...), *d)
			}
			cont := rec(s, np)
			decided = before
			if !cont {
				return false
			}
		}
		return true
	}
	return rec(fn.Blocks[0], -1)
}

// KnownNonNil: values that cannot be nil by construction.
func KnownNonNil(v ssa.Value) bool {
	switch x := StripConv(v).(type) {
	case *ssa.MakeSlice, *ssa.MakeMap, *ssa.MakeChan, *ssa.MakeClosure, *ssa.Alloc, *ssa.FieldAddr, *ssa.IndexAddr, *ssa.Function, *ssa.Global:
		return true
	case *ssa.Slice:
		return KnownNonNil(x.X)
	}
	return false
}

// sameOperand: identical SSA value, or equal constants (every use of a constant is its own *ssa.Const).
func sameOperand(a, b ssa.Value) bool {
	if a == b {
		return true
	}
	if a == nil || b == nil {
		return false
	}
	ca, oka := a.(*ssa.Const)
	cb, okb := b.(*ssa.Const)
	if !oka || !okb {
		return false
	}
	if ca.Value == nil || cb.Value == nil {
		return ca.Value == nil && cb.Value == nil
	}
	return ca.Value.Kind() == cb.Value.Kind() && constant.Compare(ca.Value, token.EQL, cb.Value)
}

// Instrs of a path in order.
func (p Path) Instrs(f func(ssa.Instruction)) {
	for _, b := range p {
		for _, i := range b.Instrs {
			f(i)
		}
	}
}

// ResolveAt returns the value v stands for on this path just after the block at position k was entered: phis are replaced by
// the value of the edge the path came through (most recent entry of the phi's block at or before k), repeatedly.
func (p Path) ResolveAt(k int, v ssa.Value) ssa.Value {
	for n := 0; n < 16; n++ {
		ph, ok := v.(*ssa.Phi)
		if !ok {
			return v
		}
		j := -1
		for i := k; i >= 1; i-- {
			if p[i] == ph.Block() {
				j = i
				break
			}
		}
		if j < 1 {
			return v
		}
		// which incoming edge: p[j-1] -> p[j]; with duplicate edges take the successor index the path used (first match)
		pred := p[j-1]
		e := -1
		for idx, pb := range ph.Block().Preds {
			if pb == pred {
				e = idx
				break
			}
		}
		if e < 0 || e >= len(ph.Edges) {
			return v
		}
		v, k = ph.Edges[e], j-1
	}
	return v
}

// ResolveWithin is ResolveAt restricted to the part of the path after position from: phis whose block was entered at positions
// from+1..k are replaced by the value of the edge taken; a phi whose block was not entered in that window is returned as it is.
// Resolving the loop-carried value of a header phi over one iteration tells whether the iteration assigned the variable (some other
// value comes back) or left it alone (the header phi itself comes back).
func (p Path) ResolveWithin(from, k int, v ssa.Value) ssa.Value {
	for n := 0; n < 16; n++ {
		ph, ok := v.(*ssa.Phi)
		if !ok {
			return v
		}
		j := -1
		for i := k; i > from; i-- {
			if p[i] == ph.Block() {
				j = i
				break
			}
		}
		if j < 1 {
			return v
		}
		pred := p[j-1]
		e := -1
		for idx, pb := range ph.Block().Preds {
			if pb == pred {
				e = idx
				break
			}
		}
		if e < 0 || e >= len(ph.Edges) {
			return v
		}
		v, k = ph.Edges[e], j-1
	}
	return v
}

// TookEdge reports whether the path goes from block a directly to its successor with index idx.
func (p Path) TookEdge(a *ssa.BasicBlock, idx int) bool {
	for k := 0; k+1 < len(p); k++ {
		if p[k] == a && len(a.Succs) > idx && p[k+1] == a.Succs[idx] {
			return true
		}
	}
	return false
}

// Returns reports whether the path ends in a Return (as opposed to a panic).
func (p Path) Returns() *ssa.Return {
	last := p[len(p)-1]
	if len(last.Instrs) == 0 {
		return nil
	}
	r, _ := last.Instrs[len(last.Instrs)-1].(*ssa.Return)
	return r
}

// Describe renders a path as source lines of its branch decisions.
func (p Path) Describe(prog *Program) []string {
	var out []string
	for k, b := range p {
		if len(b.Instrs) == 0 {
			continue
		}
		last := b.Instrs[len(b.Instrs)-1]
		switch x := last.(type) {
		case *ssa.If:
			if k+1 < len(p) {
				br := "false"
				if p[k+1] == b.Succs[0] {
					br = "true"
				}
				out = append(out, fmt.Sprintf("block %d: if %s -> %s  (%s)", b.Index, x.Cond.String(), br, prog.Position(condPos(x))))
			}
		case *ssa.Return:
			out = append(out, fmt.Sprintf("block %d: return (%s)", b.Index, prog.Position(x.Pos())))
		case *ssa.Panic:
			out = append(out, fmt.Sprintf("block %d: panic (%s)", b.Index, prog.Position(x.Pos())))
		}
	}
	return out
}

func condPos(i *ssa.If) token.Pos {
	if i.Cond.Pos().IsValid() {
		return i.Cond.Pos()
	}
	for k := len(i.Block().Instrs) - 1; k >= 0; k-- {
		if p := i.Block().Instrs[k].Pos(); p.IsValid() {
			return p
		}
	}
	return token.NoPos
}

// ---------------------------------------------------------------- provenance

// Sources walks backwards from v through value-preserving and value-combining instructions and
// returns the set of "source" values (parameters, field loads, call results, constants, allocations ...).
// transparent decides, for an instruction, which operands to follow; nil = the default set.
func Sources(v ssa.Value) []ssa.Value {
	seen := map[ssa.Value]bool{}
	var out []ssa.Value
	var walk func(v ssa.Value)
	walk = func(v ssa.Value) {
		if v == nil || seen[v] {
			return
		}
		seen[v] = true
		switch x := v.(type) {
		case *ssa.Phi:
			for _, e := range x.Edges {
				walk(e)
			}
		case *ssa.ChangeType:
			walk(x.X)
		case *ssa.Convert:
			walk(x.X)
		case *ssa.MakeInterface:
			walk(x.X)
		case *ssa.ChangeInterface:
			walk(x.X)
		case *ssa.Slice:
			// a variadic argument list: slice of a local array whose elements were stored one by one
			if a, ok := x.X.(*ssa.Alloc); ok {
				followed := false
				for _, r := range *a.Referrers() {
					if ia, ok := r.(*ssa.IndexAddr); ok {
						for _, rr := range *ia.Referrers() {
							if st, ok := rr.(*ssa.Store); ok && st.Addr == ia {
								followed = true
								walk(st.Val)
							}
						}
					}
				}
				// ... or through the slice value itself ( b := make([]byte, 1); b[0] = v )
				for _, r := range *x.Referrers() {
					if ia, ok := r.(*ssa.IndexAddr); ok {
						for _, rr := range *ia.Referrers() {
							if st, ok := rr.(*ssa.Store); ok && st.Addr == ia {
								followed = true
								walk(st.Val)
							}
						}
					}
				}
				if followed {
					return
				}
			}
			walk(x.X)
		case *ssa.Extract:
			out = append(out, v) // keep the extract itself: caller can look at Tuple and Index
		case *ssa.TypeAssert:
			walk(x.X)
		case *ssa.UnOp:
			if x.Op == token.MUL {
				// load: from a local alloc follow the stores; otherwise it is a source (field/global load)
				if a, ok := x.X.(*ssa.Alloc); ok {
					stored := false
					for _, r := range *a.Referrers() {
						if st, ok := r.(*ssa.Store); ok && st.Addr == a {
							stored = true
							walk(st.Val)
						}
					}
					if !stored {
						out = append(out, v)
					}
					return
				}
				// load through a captured variable: follow the stores to the captured cell in the parent
				if fv, ok := x.X.(*ssa.FreeVar); ok {
					followed := false
					for _, b := range FreeVarBinding(fv) {
						if a, ok := b.(*ssa.Alloc); ok {
							for _, r := range *a.Referrers() {
								if st, ok := r.(*ssa.Store); ok && st.Addr == a {
									followed = true
									walk(st.Val)
								}
							}
						}
					}
					if followed {
						return
					}
				}
				out = append(out, v)
				return
			}
			walk(x.X)
		default:
			out = append(out, v)
		}
	}
	walk(v)
	return out
}

// AnySource reports whether v comes from a source satisfying pred and from nowhere else: some source satisfies pred, and every
// other source is a nil/zero constant (the declaration of the variable). A value that is the expected one on one path and something
// else on another ( key = stored; if cond { key = other } ) does NOT qualify — it did under the first version of this function,
// which let an alternative source slip in unnoticed (found when helper inlining merged such a value into a phi).
func AnySource(v ssa.Value, pred func(ssa.Value) bool) bool {
	if os.Getenv("HCSA_LOOSE_SOURCES") != "" {
		return SomeSource(v, pred)
	}
	found := false
	for _, s := range Sources(v) {
		if pred(s) {
			found = true
			continue
		}
		if k, ok := s.(*ssa.Const); ok && (k.Value == nil || k.IsNil() || isZeroConst(k)) {
			continue
		}
		return false
	}
	return found
}

func isZeroConst(k *ssa.Const) bool {
	if k.Value == nil {
		return true
	}
	switch k.Value.Kind() {
	case constant.Int, constant.Float:
		return constant.Sign(k.Value) == 0
	case constant.String:
		return constant.StringVal(k.Value) == ""
	case constant.Bool:
		return !constant.BoolVal(k.Value)
	}
	return false
}

// SomeSource reports whether some source of v satisfies pred (other sources may exist).
func SomeSource(v ssa.Value, pred func(ssa.Value) bool) bool {
	for _, s := range Sources(v) {
		if pred(s) {
			return true
		}
	}
	return false
}

// AllSources reports whether every source of v satisfies pred (and there is at least one).
func AllSources(v ssa.Value, pred func(ssa.Value) bool) bool {
	ss := Sources(v)
	if len(ss) == 0 {
		return false
	}
	for _, s := range ss {
		if !pred(s) {
			return false
		}
	}
	return true
}

// CallResult: if v is the result (or an extracted component with the given index, -1 = any) of a
// call satisfying pred, return the call.
func CallResult(v ssa.Value, idx int, pred func(ssa.Instruction) bool) ssa.CallInstruction {
	if e, ok := v.(*ssa.Extract); ok {
		if idx >= 0 && e.Index != idx {
			return nil
		}
		v = e.Tuple
	} else if idx > 0 {
		return nil
	}
	if c, ok := v.(*ssa.Call); ok && pred(c) {
		return c
	}
	return nil
}

// FieldLoad: if v is a load of field "name" of a struct of named type typ (pkgpath.Name), return the base value.
func FieldLoad(v ssa.Value, typ, name string) (base ssa.Value, ok bool) {
	switch x := v.(type) {
	case *ssa.UnOp:
		if x.Op != token.MUL {
			return nil, false
		}
		fa, ok := x.X.(*ssa.FieldAddr)
		if !ok {
			return nil, false
		}
		if fieldIs(fa.X.Type(), fa.Field, typ, name) {
			return fa.X, true
		}
	case *ssa.Field:
		if fieldIs(x.X.Type(), x.Field, typ, name) {
			return x.X, true
		}
	}
	return nil, false
}

// FieldAddrOf: if v is &base.name for the named struct type, return base.
func FieldAddrOf(v ssa.Value, typ, name string) (ssa.Value, bool) {
	if fa, ok := v.(*ssa.FieldAddr); ok && fieldIs(fa.X.Type(), fa.Field, typ, name) {
		return fa.X, true
	}
	return nil, false
}

func fieldIs(t types.Type, idx int, typ, name string) bool {
	if p, ok := t.Underlying().(*types.Pointer); ok {
		t = p.Elem()
	}
	if typ != "" && !typeIs(t, typ) {
		return false
	}
	st, ok := t.Underlying().(*types.Struct)
	if !ok || idx >= st.NumFields() {
		return false
	}
	return Active.CanonFieldName(st.Field(idx)) == name
}

// FieldName returns "TypeName.field" for a FieldAddr / Field instruction.
func FieldName(v ssa.Value) string {
	var t types.Type
	var idx int
	switch x := v.(type) {
	case *ssa.FieldAddr:
		t, idx = x.X.Type(), x.Field
	case *ssa.Field:
		t, idx = x.X.Type(), x.Field
	default:
		return ""
	}
	if p, ok := t.Underlying().(*types.Pointer); ok {
		t = p.Elem()
	}
	st, ok := t.Underlying().(*types.Struct)
	if !ok {
		return ""
	}
	tn := t.String()
	if n, ok := t.(*types.Named); ok {
		tn = Active.CanonTypeName(n.Obj())
		if n.Obj().Pkg() != nil {
			tn = n.Obj().Pkg().Path() + "." + tn
		}
	}
	return tn + "." + Active.CanonFieldName(st.Field(idx))
}

// FieldStores returns every Store instruction in module code whose address is the field typ.name.
func (p *Program) FieldStores(typ, name string) []*ssa.Store {
	var out []*ssa.Store
	for _, fn := range p.ModuleFuncs() {
		Instrs(fn, func(i ssa.Instruction) {
			if st, ok := i.(*ssa.Store); ok {
				if _, ok := FieldAddrOf(st.Addr, typ, name); ok {
					out = append(out, st)
				}
			}
		})
	}
	return out
}

// ---------------------------------------------------------------- call graph queries

// CallersOf returns the module functions with an edge to fn in the VTA call graph, with call sites.
func (p *Program) CallersOf(fn *ssa.Function) []*callgraph.Edge {
	n := p.CallGraph().Nodes[fn]
	if n == nil {
		return nil
	}
	var out []*callgraph.Edge
	for _, e := range n.In {
		if e.Caller != nil && e.Caller.Func != nil && InModule(e.Caller.Func) {
			out = append(out, e)
		}
	}
	sort.Slice(out, func(i, j int) bool { return out[i].Pos() < out[j].Pos() })
	return out
}

// SoleCallArg: pr is a parameter of a module function that is called from exactly one place (a static call; the call graph knows no
// other way in): the argument it receives there. nil otherwise. Lets a rule follow a value that a refactoring now computes in the
// caller and hands in ( handleStart(in.GetBytes(TagPublicKey)) instead of handleStart(in) ).
func (p *Program) SoleCallArg(pr *ssa.Parameter) ssa.Value {
	fn := pr.Parent()
	if fn == nil || !InModule(fn) {
		return nil
	}
	if obj := fn.Object(); obj != nil && obj.Exported() {
		return nil
	}
	es := p.CallersOf(fn)
	if len(es) != 1 || es[0].Site == nil || es[0].Site.Common().StaticCallee() != fn {
		return nil
	}
	for k, q := range fn.Params {
		if q == pr && k < len(es[0].Site.Common().Args) {
			return es[0].Site.Common().Args[k]
		}
	}
	return nil
}

// CalleesAt resolves the possible callees of a call site: the static callee, or VTA edges for dynamic calls.
func (p *Program) CalleesAt(site ssa.CallInstruction) []*ssa.Function {
	if f := site.Common().StaticCallee(); f != nil {
		return []*ssa.Function{f}
	}
	n := p.CallGraph().Nodes[site.Parent()]
	if n == nil {
		return nil
	}
	var out []*ssa.Function
	for _, e := range n.Out {
		if e.Site == site {
			out = append(out, e.Callee.Func)
		}
	}
	return out
}

// ReachableFuncs returns module functions reachable from roots through the VTA call graph,
// following only edges into module functions (library callees are leaves).
func (p *Program) ReachableFuncs(roots ...*ssa.Function) map[*ssa.Function]bool {
	cg := p.CallGraph()
	seen := map[*ssa.Function]bool{}
	var work []*ssa.Function
	for _, r := range roots {
		if r != nil && !seen[r] {
			seen[r] = true
			work = append(work, r)
		}
	}
	for len(work) > 0 {
		f := work[len(work)-1]
		work = work[:len(work)-1]
		n := cg.Nodes[f]
		if n == nil {
			continue
		}
		for _, e := range n.Out {
			c := e.Callee.Func
			if c == nil || seen[c] || !InModule(c) {
				continue
			}
			seen[c] = true
			work = append(work, c)
		}
		for _, a := range f.AnonFuncs {
			if !seen[a] {
				seen[a] = true
				work = append(work, a)
			}
		}
	}
	return seen
}

// SortedFuncs returns the keys of a function set ordered by name.
func SortedFuncs(m map[*ssa.Function]bool) []*ssa.Function {
	var out []*ssa.Function
	for f := range m {
		out = append(out, f)
	}
	sort.Slice(out, func(i, j int) bool {
		if out[i].String() != out[j].String() {
			return out[i].String() < out[j].String()
		}
		return out[i].Pos() < out[j].Pos()
	})
	return out
}

// FreeVarBinding: for a closure fn and one of its free variables, return the value bound at the MakeClosure site(s).
func FreeVarBinding(fv *ssa.FreeVar) []ssa.Value {
	fn := fv.Parent()
	idx := -1
	for k, f := range fn.FreeVars {
		if f == fv {
			idx = k
		}
	}
	if idx < 0 || fn.Parent() == nil {
		return nil
	}
	var out []ssa.Value
	Instrs(fn.Parent(), func(i ssa.Instruction) {
		if mc, ok := i.(*ssa.MakeClosure); ok && mc.Fn == fn {
			out = append(out, mc.Bindings[idx])
		}
	})
	return out
}

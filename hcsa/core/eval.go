package core

import (
	"go/constant"
	"go/token"

	"golang.org/x/tools/go/ssa"
)

// EvalResult is what Eval found at the return it reached.
type EvalResult struct {
	Ret    *ssa.Return
	Values []constant.Value // nil entries: not a constant under the oracle
	Raw    []ssa.Value
	Path   Path // the blocks passed, in order
}

// Eval runs a small, side-effect-free function symbolically on one abstract input: oracle answers for the SSA values it knows
// (a call of len on a particular value, a nil test, a parameter) with a constant; everything else is computed from constants
// (integer / boolean / string BinOps and UnOps, phis by the edge taken, conversions). It follows the branches that the computed
// conditions select and stops at the first return. ok is false when a condition cannot be decided (the function is not a function
// of the oracle's inputs alone) or after 200 blocks.
//
// This is not execution of hc code: no memory, no calls, no loops beyond the block budget — constant folding along one path.
func Eval(fn *ssa.Function, oracle func(ssa.Value) (constant.Value, bool)) (res EvalResult, ok bool) {
	if fn == nil || len(fn.Blocks) == 0 {
		return res, false
	}
	memo := map[ssa.Value]constant.Value{}
	var val func(v ssa.Value, pred, cur *ssa.BasicBlock, depth int) (constant.Value, bool)
	val = func(v ssa.Value, pred, cur *ssa.BasicBlock, depth int) (constant.Value, bool) {
		if depth == 0 || v == nil {
			return nil, false
		}
		if k, ok := oracle(v); ok {
			return k, true
		}
		if k, ok := memo[v]; ok {
			return k, true
		}
		switch x := v.(type) {
		case *ssa.Const:
			if x.Value == nil {
				return nil, false
			}
			return x.Value, true
		case *ssa.Convert:
			k, ok := val(x.X, pred, cur, depth-1)
			if !ok {
				return nil, false
			}
			return k, true
		case *ssa.ChangeType:
			return val(x.X, pred, cur, depth-1)
		case *ssa.UnOp:
			k, ok := val(x.X, pred, cur, depth-1)
			if !ok {
				return nil, false
			}
			switch x.Op {
			case token.NOT:
				if k.Kind() == constant.Bool {
					return constant.MakeBool(!constant.BoolVal(k)), true
				}
			case token.SUB:
				return constant.UnaryOp(token.SUB, k, 0), true
			}
			return nil, false
		case *ssa.BinOp:
			a, ok1 := val(x.X, pred, cur, depth-1)
			b, ok2 := val(x.Y, pred, cur, depth-1)
			if !ok1 || !ok2 {
				return nil, false
			}
			switch x.Op {
			case token.EQL, token.NEQ, token.LSS, token.LEQ, token.GTR, token.GEQ:
				if a.Kind() == constant.Bool && b.Kind() == constant.Bool {
					eq := constant.BoolVal(a) == constant.BoolVal(b)
					if x.Op == token.EQL {
						return constant.MakeBool(eq), true
					}
					if x.Op == token.NEQ {
						return constant.MakeBool(!eq), true
					}
					return nil, false
				}
				if a.Kind() != b.Kind() {
					return nil, false
				}
				return constant.MakeBool(constant.Compare(a, x.Op, b)), true
			case token.ADD, token.SUB, token.MUL, token.AND, token.OR, token.XOR:
				if a.Kind() == constant.Int && b.Kind() == constant.Int || (x.Op == token.ADD && a.Kind() == constant.String && b.Kind() == constant.String) {
					return constant.BinaryOp(a, x.Op, b), true
				}
			}
			return nil, false
		case *ssa.Phi:
			if x.Block() != cur || pred == nil {
				return nil, false
			}
			for k, p := range cur.Preds {
				if p == pred {
					return val(x.Edges[k], nil, pred, depth-1)
				}
			}
		}
		return nil, false
	}
	cur := fn.Blocks[0]
	var pred *ssa.BasicBlock
	for steps := 0; steps < 200; steps++ {
		res.Path = append(res.Path, cur)
		// phis first: their value depends on the edge taken into this block
		for _, i := range cur.Instrs {
			if ph, isPhi := i.(*ssa.Phi); isPhi {
				if k, ok := val(ph, pred, cur, 8); ok {
					memo[ph] = k
				} else {
					delete(memo, ph)
				}
			}
		}
		last := cur.Instrs[len(cur.Instrs)-1]
		switch t := last.(type) {
		case *ssa.Return:
			res.Ret = t
			for _, r := range t.Results {
				// a result variable (named results, a bare return): the value it holds on the path that was walked
				res.Raw = append(res.Raw, Path(res.Path).ResolveAt(len(res.Path)-1, r))
				if k, ok := val(r, pred, cur, 8); ok {
					res.Values = append(res.Values, k)
				} else {
					res.Values = append(res.Values, nil)
				}
			}
			return res, true
		case *ssa.If:
			k, ok := val(t.Cond, pred, cur, 8)
			if !ok || k.Kind() != constant.Bool {
				return res, false
			}
			pred = cur
			if constant.BoolVal(k) {
				cur = cur.Succs[0]
			} else {
				cur = cur.Succs[1]
			}
		case *ssa.Jump:
			pred, cur = cur, cur.Succs[0]
		default:
			return res, false
		}
	}
	return res, false
}

// Package core holds the loader, the obligation/report machinery and the shared
// IR queries used by every rule of the hc static checker.
package core

import (
	"fmt"
	"go/ast"
	"go/token"
	"go/types"
	"os"
	"sort"
	"strings"
	"time"

	"golang.org/x/tools/go/callgraph"
	"golang.org/x/tools/go/callgraph/cha"
	"golang.org/x/tools/go/callgraph/vta"
	"golang.org/x/tools/go/packages"
	"golang.org/x/tools/go/ssa"
	"golang.org/x/tools/go/ssa/ssautil"
)

// ModulePath is the module under analysis.
const ModulePath = "github.com/brutella/hc"

// Config selects a build configuration of /repo.
type Config struct {
	Dir     string            // repository root (default /repo)
	GOARCH  string            // "" = host
	Tests   bool              // include in-package test files
	Overlay map[string][]byte // file path -> replacement contents (witness-deletion variants)

	normalized bool // the overlay holds helper-inlined files (core/normalize.go)
}

func (c Config) String() string {
	arch := c.GOARCH
	if arch == "" {
		arch = "amd64"
	}
	s := "linux/" + arch
	if c.Tests {
		s += "+tests"
	}
	if len(c.Overlay) > 0 {
		s += fmt.Sprintf("+overlay(%d)", len(c.Overlay))
	}
	return s
}

// Program is the loaded, type-checked and SSA-built repository.
type Program struct {
	Cfg      Config
	Fset     *token.FileSet
	Pkgs     []*packages.Package          // module packages (roots), sorted by path
	ByPath   map[string]*packages.Package // all packages incl. deps
	SSA      *ssa.Program
	SSAPkgs  map[string]*ssa.Package // module packages only
	LoadTime time.Duration

	allFuncs map[*ssa.Function]bool
	modFuncs []*ssa.Function
	rawFuncs []*ssa.Function
	dead     map[*ssa.Function]bool // new helpers without remaining callers after inlining
	cg       *callgraph.Graph
	cgTime   time.Duration
	ren      *renameInfo
	typeRen  map[*types.TypeName]string
	fps      map[string][]string

	NormNotes []string // what the helper-inlining pass did (reported in the evidence)

	spans      map[string][][]span // per normalised file: the replacements of each inlining round (position map)
	roundSpans map[string][]span
	origSrc    map[string][]byte
}

// Load loads ./... of cfg.Dir. Any load or type error is returned: the checker fails closed.
func Load(cfg Config) (*Program, error) {
	start := time.Now()
	if cfg.Dir == "" {
		cfg.Dir = "/repo"
	}
	env := []string{}
	for _, e := range os.Environ() {
		if strings.HasPrefix(e, "GOWORK=") || strings.HasPrefix(e, "GOFLAGS=") ||
			strings.HasPrefix(e, "GOPROXY=") || strings.HasPrefix(e, "GOSUMDB=") ||
			strings.HasPrefix(e, "GOTOOLCHAIN=") || strings.HasPrefix(e, "GOARCH=") ||
			strings.HasPrefix(e, "GOOS=") || strings.HasPrefix(e, "CGO_ENABLED=") {
			continue
		}
		env = append(env, e)
	}
	env = append(env, "GOWORK=off", "GOFLAGS=-mod=mod", "GOPROXY=off", "GOSUMDB=off",
		"GOTOOLCHAIN=local", "GOOS=linux", "CGO_ENABLED=0")
	if cfg.GOARCH != "" {
		env = append(env, "GOARCH="+cfg.GOARCH)
	} else {
		env = append(env, "GOARCH=amd64")
	}
	pc := &packages.Config{
		Mode:    packages.LoadAllSyntax,
		Dir:     cfg.Dir,
		Env:     env,
		Tests:   cfg.Tests,
		Overlay: cfg.Overlay,
	}
	pkgs, err := packages.Load(pc, "./...")
	if err != nil {
		return nil, fmt.Errorf("packages.Load: %v", err)
	}
	p := &Program{Cfg: cfg, ByPath: map[string]*packages.Package{}}
	var errs []string
	packages.Visit(pkgs, nil, func(pk *packages.Package) {
		if old, ok := p.ByPath[pk.PkgPath]; !ok || len(pk.Syntax) > len(old.Syntax) {
			// with Tests:true prefer the variant that includes test files
			if !strings.HasSuffix(pk.ID, ".test") {
				p.ByPath[pk.PkgPath] = pk
			}
		}
		for _, e := range pk.Errors {
			if pk.Module != nil && pk.Module.Path == ModulePath {
				errs = append(errs, e.Error())
			}
		}
	})
	if len(errs) > 0 {
		sort.Strings(errs)
		return nil, fmt.Errorf("load/type errors in module code: %s", strings.Join(errs, "; "))
	}
	seen := map[string]bool{}
	for _, pk := range pkgs {
		if strings.HasSuffix(pk.ID, ".test") {
			continue
		}
		if cfg.Tests {
			// keep only the test-augmented variant "p [p.test]" when one exists
			if alt, ok := p.ByPath[pk.PkgPath]; ok && alt != pk {
				continue
			}
		}
		if strings.HasSuffix(pk.PkgPath, "_test") || seen[pk.PkgPath] {
			continue
		}
		seen[pk.PkgPath] = true
		p.Pkgs = append(p.Pkgs, pk)
		if p.Fset == nil {
			p.Fset = pk.Fset
		}
	}
	sort.Slice(p.Pkgs, func(i, j int) bool { return p.Pkgs[i].PkgPath < p.Pkgs[j].PkgPath })
	if len(p.Pkgs) < 23 {
		return nil, fmt.Errorf("only %d module packages loaded, expected >= 23", len(p.Pkgs))
	}

	prog, _ := ssautil.AllPackages(pkgs, ssa.InstantiateGenerics)
	p.SSA = prog
	p.SSAPkgs = map[string]*ssa.Package{}
	for _, pk := range p.Pkgs {
		sp := prog.Package(pk.Types)
		if sp == nil {
			return nil, fmt.Errorf("no SSA package for %s", pk.PkgPath)
		}
		sp.Build()
		p.SSAPkgs[pk.PkgPath] = sp
	}
	p.LoadTime = time.Since(start)
	return p, nil
}

// Pkg returns the module package with the given path relative to the module root ("" = root).
func (p *Program) Pkg(rel string) *packages.Package {
	path := ModulePath
	if rel != "" {
		path += "/" + rel
	}
	for _, pk := range p.Pkgs {
		if pk.PkgPath == path {
			return pk
		}
	}
	return nil
}

// SSAPkg is Pkg for SSA packages.
func (p *Program) SSAPkg(rel string) *ssa.Package {
	path := ModulePath
	if rel != "" {
		path += "/" + rel
	}
	return p.SSAPkgs[path]
}

// InModule reports whether fn is defined in the module under analysis.
func InModule(fn *ssa.Function) bool {
	if fn == nil {
		return false
	}
	for fn.Parent() != nil {
		fn = fn.Parent()
	}
	if o := fn.Origin(); o != nil {
		fn = o
	}
	pk := fn.Package()
	if pk == nil || pk.Pkg == nil {
		if fn.Object() != nil && fn.Object().Pkg() != nil {
			pth := fn.Object().Pkg().Path()
			return pth == ModulePath || strings.HasPrefix(pth, ModulePath+"/")
		}
		return false
	}
	pth := pk.Pkg.Path()
	return pth == ModulePath || strings.HasPrefix(pth, ModulePath+"/")
}

// IsLibraryPkg: module packages that are part of the library proper (not code generators / CLI).
func IsLibraryPkg(path string) bool {
	if path != ModulePath && !strings.HasPrefix(path, ModulePath+"/") {
		return false
	}
	rel := strings.TrimPrefix(strings.TrimPrefix(path, ModulePath), "/")
	return !(rel == "cmd" || strings.HasPrefix(rel, "cmd/") || rel == "gen" || strings.HasPrefix(rel, "gen/"))
}

// ModuleFuncs returns every SSA function (incl. methods, closures, wrappers excluded) with a body in the module.
func (p *Program) ModuleFuncs() []*ssa.Function {
	if p.modFuncs != nil {
		return p.modFuncs
	}
	all := p.rawModuleFuncs()
	if !p.Cfg.normalized {
		p.modFuncs = all
		return all
	}
	// helper-inlined view: a new unexported helper all of whose calls were inlined is dead code; it is left in the text (its
	// imports stay used) but is not part of the analysed program
	used := map[types.Object]bool{}
	for _, pk := range p.Pkgs {
		for _, o := range pk.TypesInfo.Uses {
			if f, ok := o.(*types.Func); ok {
				used[f] = true
			}
		}
	}
	dead := map[*ssa.Function]bool{}
	for _, fn := range all {
		if fn.Parent() != nil {
			continue
		}
		obj, _ := fn.Object().(*types.Func)
		if obj == nil || obj.Exported() || used[obj] || !p.IsNewFunc(obj) {
			continue
		}
		dead[fn] = true
		p.NormNotes = append(p.NormNotes, "new helper "+fn.Name()+" has no remaining caller after inlining and is not analysed")
	}
	p.dead = map[*ssa.Function]bool{}
	for _, fn := range all {
		root := fn
		for root.Parent() != nil {
			root = root.Parent()
		}
		if !dead[root] {
			p.modFuncs = append(p.modFuncs, fn)
		} else {
			p.dead[fn] = true
		}
	}
	return p.modFuncs
}

// rawModuleFuncs: every function with a body in the module, before the dead-helper filter.
func (p *Program) rawModuleFuncs() []*ssa.Function {
	if p.rawFuncs != nil {
		return p.rawFuncs
	}
	p.allFuncs = ssautil.AllFunctions(p.SSA)
	for fn := range p.allFuncs {
		if fn.Blocks == nil || fn.Synthetic != "" && fn.Parent() == nil && fn.Syntax() == nil {
			continue
		}
		if InModule(fn) {
			p.rawFuncs = append(p.rawFuncs, fn)
		}
	}
	sort.Slice(p.rawFuncs, func(i, j int) bool {
		a, b := p.rawFuncs[i], p.rawFuncs[j]
		if a.String() != b.String() {
			return a.String() < b.String()
		}
		return a.Pos() < b.Pos()
	})
	return p.rawFuncs
}

// CallGraph builds (once) the VTA call graph refined from CHA.
func (p *Program) CallGraph() *callgraph.Graph {
	if p.cg != nil {
		return p.cg
	}
	start := time.Now()
	p.ModuleFuncs()
	p.cg = vta.CallGraph(p.allFuncs, cha.CallGraph(p.SSA))
	for fn := range p.dead {
		if n := p.cg.Nodes[fn]; n != nil {
			p.cg.DeleteNode(n)
		}
	}
	p.cgTime = time.Since(start)
	return p.cg
}

// Func looks a function or method up by package-relative path and name:
// Func("hap/http", "(*Server).Authenticate") or Func("crypto", "packetsFromBytes").
func (p *Program) Func(rel, name string) *ssa.Function {
	sp := p.SSAPkg(rel)
	if sp == nil {
		return nil
	}
	if strings.HasPrefix(name, "(") {
		// method: (*T).M or (T).M
		end := strings.Index(name, ")")
		recv := name[1:end]
		m := name[end+2:]
		ptr := strings.HasPrefix(recv, "*")
		recv = strings.TrimPrefix(recv, "*")
		tn := p.LookupType(rel, recv)
		if tn == nil {
			return nil
		}
		var t types.Type = tn.Type()
		if ptr {
			t = types.NewPointer(t)
		}
		sel := p.SSA.MethodSets.MethodSet(t).Lookup(sp.Pkg, m)
		if sel == nil {
			pre := ""
			if ptr {
				pre = "*"
			}
			return p.renames().byKey[rel+"|"+pre+recv+"|"+m]
		}
		return p.SSA.MethodValue(sel)
	}
	if f := sp.Func(name); f != nil {
		return f
	}
	return p.renames().byKey[rel+"||"+name]
}

// Position formats a token.Pos relative to the repository root.
func (p *Program) Position(pos token.Pos) string {
	if !pos.IsValid() {
		return "-"
	}
	ps := p.Fset.Position(pos)
	f := strings.TrimPrefix(ps.Filename, p.Cfg.Dir+"/")
	if l, c, ok := p.origPosition(ps.Filename, ps.Offset); ok {
		return fmt.Sprintf("%s:%d:%d", f, l, c) // mapped back from the helper-inlined view to the file in the repository
	}
	return fmt.Sprintf("%s:%d:%d", f, ps.Line, ps.Column)
}

// FuncName is a stable printable name: (*pkg.T).M with the module prefix stripped.
func FuncName(fn *ssa.Function) string {
	if fn == nil {
		return "<nil>"
	}
	s := fn.String()
	s = strings.ReplaceAll(s, ModulePath+"/", "")
	s = strings.ReplaceAll(s, ModulePath+".", "hc.")
	return s
}

// FileOf returns the *ast.File containing pos in a module package.
func (p *Program) FileOf(pos token.Pos) (*packages.Package, *ast.File) {
	for _, pk := range p.Pkgs {
		for _, f := range pk.Syntax {
			if f.Pos() <= pos && pos <= f.End() {
				return pk, f
			}
		}
	}
	return nil, nil
}

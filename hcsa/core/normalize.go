package core

// Helper inlining ("normalisation").
//
// The rules are anchored in the functions of the tree they were written against (anchors_ref.json). The most common
// behaviour-preserving refactoring — extracting part of an anchor function into a new helper — moves the instructions a
// rule reasons about (a guard, an AEAD call, a store) out of the anchor. Instead of teaching every rule to follow calls,
// the program is normalised before analysis: every *new* function of a library package (one that is neither in the
// reference nor recognised as a rename of a reference function) is inlined, at source level, into its same-package
// callers, and the rules run on the result (handed to the loader as an overlay; nothing is written to the repository).
//
// The inlining is semantics-preserving by construction:
//
//	x, err := helper(a, b)        var x T1; var err T2
//	                         =>   { _p0 := (A)(a); _p1 := (B)(b); var _r0 T1; var _r1 T2
//	                                L: for { <body with  return e1, e2  ->  { _r0, _r1 = e1, e2; break L }> ; break L }
//	                                x, err = _r0, _r1 }
//
// Arguments are evaluated once, in order, into fresh variables; the body runs in its own block, so that its locals
// cannot capture or leak; `return` becomes an assignment to the result variables and a break out of a one-trip loop.
// A call is left alone (and the rules then see the helper as before) when any precondition fails: the callee has
// defer/recover/goto/closures that return, is recursive, generic or variadic-with-spread in an unsupported position, a
// package-level name used by the callee is shadowed at the call site, or the call stands where hoisting it could change the
// evaluation order. The result is type-checked by the loader; if that fails, the un-normalised program is analysed.

import (
	"bytes"
	"fmt"
	"go/ast"
	"go/token"
	"go/types"
	"os"
	"sort"
	"strings"

	"golang.org/x/tools/go/packages"
)

// IsNewFunc: fn is a library function that the reference does not know, under its own name or as a rename.
func (p *Program) IsNewFunc(obj *types.Func) bool {
	fn := p.SSA.FuncValue(obj)
	if fn == nil {
		return false
	}
	rel, recv, name, _, ok := p.fnKey(fn)
	if !ok || name == "init" || name == "main" {
		return false
	}
	ri := p.renames()
	if len(ri.ref) == 0 {
		return false
	}
	if _, known := ri.ref[rel+"|"+recv+"|"+name]; known {
		return false
	}
	if _, renamed := ri.canon[fn]; renamed {
		return false
	}
	// a reference function of the same package and name that is gone ( (*T).clamp(v)  became  clamp(v, t.min, t.max) ): this is that
	// function under another parameter list, not a helper that was split off — the rules look for it by name
	for k := range ri.ref {
		if strings.HasPrefix(k, rel+"|") && strings.HasSuffix(k, "|"+name) && !strings.Contains(k, "|#") {
			if _, still := ri.cur[k]; !still && ri.byKey[k] == nil {
				return false
			}
		}
	}
	return true
}

type textEdit struct {
	start, end int
	text       string
	group      int // edits of one inlining (an opening, the replaced call, a closing) are applied together or not at all
}

type inliner struct {
	groups  int
	p       *Program
	pk      *packages.Package
	file    *ast.File
	src     []byte
	tf      *token.File
	edits   []textEdit
	counter *int
	notes   *[]string
	decls   map[*types.Func]*declInfo
	imports []string // import specs to add to this file
	lits    map[*types.Var]*ast.FuncLit
	litObjs map[*ast.FuncLit]*types.Func
}

type declInfo struct {
	decl    *ast.FuncDecl
	pk      *packages.Package
	file    *ast.File
	src     []byte
	keepVar string // function literal bound to this variable: keep the variable "used" after its call was inlined
}

// LoadNormalized loads cfg and, while new helper functions are called from library code, inlines them and reloads.
func LoadNormalized(cfg Config) (*Program, error) {
	p, err := Load(cfg)
	if err != nil {
		return nil, err
	}
	var notes []string
	for round := 0; round < 6; round++ {
		ov, n, err := p.inlineNewHelpers(&notes, round*1000)
		if err != nil || n == 0 {
			break
		}
		cfg2 := cfg
		cfg2.Overlay = map[string][]byte{}
		for k, v := range cfg.Overlay {
			cfg2.Overlay[k] = v
		}
		for k, v := range ov {
			cfg2.Overlay[k] = v
		}
		if d := os.Getenv("HCSA_NORM_DEBUG"); d != "" {
			os.MkdirAll(d, 0755)
			for k, v := range ov {
				os.WriteFile(fmt.Sprintf("%s/r%d_%s", d, round, strings.ReplaceAll(strings.TrimPrefix(k, cfg.Dir+"/"), "/", "__")), v, 0644)
			}
		}
		q, err := Load(cfg2)
		if err != nil {
			// fail safe: analyse what we have, say so
			p.NormNotes = append(notes, "helper inlining abandoned (the inlined text did not type-check): "+firstLine(err.Error()))
			return p, nil
		}
		q.Cfg.normalized = true
		// position map: rounds so far, plus this one
		q.spans = map[string][][]span{}
		for f, rs := range p.spans {
			q.spans[f] = append([][]span(nil), rs...)
		}
		for f, sp := range p.roundSpans {
			q.spans[f] = append(q.spans[f], sp)
		}
		q.origSrc = p.origSrc
		if q.origSrc == nil {
			q.origSrc = map[string][]byte{}
		}
		for f := range p.roundSpans {
			if _, have := q.origSrc[f]; !have {
				if b, err := p.readSource(f); err == nil {
					q.origSrc[f] = b
				}
			}
		}
		p, cfg = q, cfg2
	}
	p.NormNotes = notes
	return p, nil
}

func firstLine(s string) string {
	if i := strings.IndexAny(s, "\n;"); i >= 0 {
		return s[:i]
	}
	return s
}

// inlineNewHelpers performs one round: every supported call of a new helper in library code is replaced.
func (p *Program) inlineNewHelpers(notes *[]string, base int) (map[string][]byte, int, error) {
	decls := map[*types.Func]*declInfo{}
	for _, pk := range p.Pkgs {
		if !IsLibraryPkg(pk.PkgPath) {
			continue
		}
		for _, f := range pk.Syntax {
			fname := p.Fset.Position(f.Pos()).Filename
			if strings.HasSuffix(fname, "_test.go") {
				continue
			}
			for _, d := range f.Decls {
				fd, ok := d.(*ast.FuncDecl)
				if !ok || fd.Body == nil {
					continue
				}
				obj, _ := pk.TypesInfo.Defs[fd.Name].(*types.Func)
				if obj == nil || !p.IsNewFunc(obj) {
					continue
				}
				decls[obj] = &declInfo{decl: fd, pk: pk, file: f}
			}
		}
	}
	if len(decls) == 0 {
		return nil, 0, nil
	}
	out := map[string][]byte{}
	total := 0
	counter := base
	for _, pk := range p.Pkgs {
		if !IsLibraryPkg(pk.PkgPath) {
			continue
		}
		for _, f := range pk.Syntax {
			fname := p.Fset.Position(f.Pos()).Filename
			if strings.HasSuffix(fname, "_test.go") {
				continue
			}
			src, err := p.readSource(fname)
			if err != nil {
				continue
			}
			in := &inliner{p: p, pk: pk, file: f, src: src, tf: p.Fset.File(f.Pos()), counter: &counter, notes: notes, decls: decls}
			in.run()
			if len(in.edits) == 0 {
				continue
			}
			total += len(in.edits)
			text, spans := in.apply()
			out[fname] = text
			if p.roundSpans == nil {
				p.roundSpans = map[string][]span{}
			}
			p.roundSpans[fname] = spans
		}
	}
	return out, total, nil
}

func (p *Program) readSource(fname string) ([]byte, error) {
	if b, ok := p.Cfg.Overlay[fname]; ok {
		return b, nil
	}
	return os.ReadFile(fname)
}

func (in *inliner) off(pos token.Pos) int { return in.tf.Offset(pos) }

// addGroup appends the edits of one inlining under a common group number.
func (in *inliner) addGroup(es ...textEdit) {
	in.groups++
	for _, e := range es {
		e.group = in.groups
		in.edits = append(in.edits, e)
	}
}

func (in *inliner) text(n ast.Node) string { return string(in.src[in.off(n.Pos()):in.off(n.End())]) }

func (in *inliner) apply() ([]byte, []span) {
	if len(in.imports) > 0 {
		// the import specs go right after the package clause (always in front of every other edit)
		at := in.off(in.file.Name.End())
		text := ""
		for _, sp := range in.imports {
			text += "\nimport " + sp
		}
		in.edits = append(in.edits, textEdit{start: at, end: at, text: text})
	}
	sort.SliceStable(in.edits, func(i, j int) bool { return in.edits[i].start < in.edits[j].start })
	// an inlining whose edits cannot all be applied (one of them lies inside a call that is replaced in this round) waits for the
	// next round as a whole: half of it — a closing brace without its opening — does not parse
	dropped := map[int]bool{}
	for changed := true; changed; {
		changed = false
		last := 0
		for _, e := range in.edits {
			if e.group != 0 && dropped[e.group] {
				continue
			}
			if e.start < last {
				if e.group != 0 && !dropped[e.group] {
					dropped[e.group] = true
					changed = true
				}
				continue
			}
			last = e.end
		}
	}
	var buf bytes.Buffer
	var spans []span
	last := 0
	for _, e := range in.edits {
		if e.group != 0 && dropped[e.group] {
			continue
		}
		if e.start < last {
			continue // overlapping: the inner one waits for the next round
		}
		buf.Write(in.src[last:e.start])
		spans = append(spans, span{newStart: buf.Len(), newEnd: buf.Len() + len(e.text), oldStart: e.start, oldEnd: e.end})
		buf.WriteString(e.text)
		last = e.end
	}
	buf.Write(in.src[last:])
	return buf.Bytes(), spans
}

// span records one replacement: bytes [oldStart, oldEnd) of the text before the round became [newStart, newEnd) after it.
type span struct{ newStart, newEnd, oldStart, oldEnd int }

// mapBack translates an offset in the text after a round into the text before it; offsets inside inserted text map to the
// start of what was replaced (the call statement).
func mapBack(spans []span, off int) int {
	delta := 0
	for _, sp := range spans {
		if off < sp.newStart {
			break
		}
		if off < sp.newEnd {
			return sp.oldStart
		}
		delta = sp.oldEnd - sp.newEnd
	}
	return off + delta
}

// callee returns the new helper called by call, if the call is static.
func (in *inliner) callee(call *ast.CallExpr) (*types.Func, ast.Expr) {
	switch fun := ast.Unparen(call.Fun).(type) {
	case *ast.Ident:
		if obj, ok := in.pk.TypesInfo.Uses[fun].(*types.Func); ok && in.decls[obj] != nil {
			return obj, nil
		}
	case *ast.SelectorExpr:
		if sel := in.pk.TypesInfo.Selections[fun]; sel != nil {
			if sel.Kind() != types.MethodVal || len(sel.Index()) != 1 {
				return nil, nil
			}
			if obj, ok := sel.Obj().(*types.Func); ok && in.decls[obj] != nil {
				if _, isIface := sel.Recv().Underlying().(*types.Interface); isIface {
					return nil, nil
				}
				return obj, fun.X
			}
			return nil, nil
		}
		// qualified identifier pkg.F: other package, not inlined
	}
	return nil, nil
}

func (in *inliner) run() {
	in.findClosures()
	var stack []ast.Node
	ast.Inspect(in.file, func(n ast.Node) bool {
		if n == nil {
			stack = stack[:len(stack)-1]
			return true
		}
		stack = append(stack, n)
		call, ok := n.(*ast.CallExpr)
		if !ok {
			return true
		}
		obj, recv := in.callee(call)
		if obj == nil {
			obj = in.closureCallee(call)
		}
		if obj == nil || in.decls[obj].pk != in.pk {
			return true
		}
		in.site(call, obj, recv, append([]ast.Node(nil), stack...))
		return true
	})
}

func (in *inliner) skip(obj *types.Func, why string) {
	*in.notes = append(*in.notes, fmt.Sprintf("call of new helper %s not inlined: %s", obj.Name(), why))
}

// site decides the statement context of the call and emits the edits.
func (in *inliner) site(call *ast.CallExpr, obj *types.Func, recv ast.Expr, stack []ast.Node) {
	di := in.decls[obj]
	// enclosing function must not be the callee itself
	for _, n := range stack {
		if fd, ok := n.(*ast.FuncDecl); ok && fd == di.decl {
			return
		}
	}
	if len(stack) < 2 {
		return
	}
	sig := obj.Type().(*types.Signature)
	if sig.TypeParams() != nil || sig.RecvTypeParams() != nil {
		in.skip(obj, "generic")
		return
	}
	if why := in.calleeUnsupported(di); why != "" {
		in.skip(obj, why)
		return
	}
	parent := stack[len(stack)-2]
	nres := sig.Results().Len()
	listCtx := func(stmt ast.Stmt, idx int) bool { // stmt stands in a statement list (block, case, comm clause), possibly labelled
		if idx < 0 {
			return false
		}
		switch par := stack[idx].(type) {
		case *ast.BlockStmt, *ast.CaseClause, *ast.CommClause:
			_ = par
			return true
		case *ast.LabeledStmt:
			return idx > 0 && func() bool {
				switch stack[idx-1].(type) {
				case *ast.BlockStmt, *ast.CaseClause, *ast.CommClause:
					return true
				}
				return false
			}()
		}
		return false
	}
	switch st := parent.(type) {
	case *ast.ExprStmt:
		if listCtx(st, len(stack)-3) {
			body, ok := in.expand(call, obj, recv, nil, nil, "")
			if ok {
				in.edits = append(in.edits, textEdit{start: in.off(st.Pos()), end: in.off(st.End()), text: body})
			}
			return
		}
		if ifs, ok := stack[len(stack)-3].(*ast.IfStmt); ok && ifs.Init == ast.Stmt(st) {
			in.wrapInit(ifs, st, call, obj, recv, nil, false)
			return
		}
	case *ast.AssignStmt:
		if len(st.Rhs) == 1 && st.Rhs[0] == ast.Expr(call) && (st.Tok == token.ASSIGN || st.Tok == token.DEFINE) && len(st.Lhs) == nres {
			if listCtx(st, len(stack)-3) {
				pre, lhs, ok := in.lhsDecls(st)
				if !ok {
					in.skip(obj, "unsupported left-hand side")
					return
				}
				// a variable declared by this very statement that bears the name of a package or package-level object (  srp, err :=
				// newSetupSRP(name)  next to the import srp ): declared in front of the inlined body it would capture the body's uses of
				// that name. The results go to temporaries declared in front, the statement keeps its := behind the body.
				if st.Tok == token.DEFINE && in.declaresShadowingName(st) {
					pre2, lhs2, post, ok2 := in.lhsViaTemps(st)
					if !ok2 {
						in.skip(obj, "unsupported left-hand side")
						return
					}
					body, ok := in.expand(call, obj, recv, lhs2, nil, "")
					if ok {
						in.edits = append(in.edits, textEdit{start: in.off(st.Pos()), end: in.off(st.End()), text: pre2 + body + "; " + post})
					}
					return
				}
				body, ok := in.expand(call, obj, recv, lhs, nil, "")
				if ok {
					in.edits = append(in.edits, textEdit{start: in.off(st.Pos()), end: in.off(st.End()), text: pre + body})
				}
				return
			}
			if ifs, ok := stack[len(stack)-3].(*ast.IfStmt); ok && ifs.Init == ast.Stmt(st) {
				in.wrapInit(ifs, st, call, obj, recv, st, false)
				return
			}
		}
	case *ast.ReturnStmt:
		if len(st.Results) == 1 && st.Results[0] == ast.Expr(call) && listCtx(st, len(stack)-3) {
			body, ok := in.expand(call, obj, recv, nil, nil, "return")
			if ok {
				in.edits = append(in.edits, textEdit{start: in.off(st.Pos()), end: in.off(st.End()), text: body})
			}
			return
		}
	}
	// the call is an operand: hoist it in front of the enclosing simple statement when it is evaluated first
	if nres != 1 {
		in.skip(obj, "multi-value call in an expression")
		return
	}
	in.hoist(call, obj, recv, stack)
}

// calleeUnsupported lists the constructs whose meaning would change under inlining.
func (in *inliner) calleeUnsupported(di *declInfo) string {
	why := ""
	var lits int
	ast.Inspect(di.decl.Body, func(n ast.Node) bool {
		switch x := n.(type) {
		case *ast.DeferStmt:
			if !simpleDefers(di)[x] {
				why = "callee defers"
			}
		case *ast.BranchStmt:
			if x.Tok == token.GOTO {
				why = "callee has goto"
			}
		case *ast.FuncLit:
			lits++
		case *ast.CallExpr:
			if id, ok := x.Fun.(*ast.Ident); ok && id.Name == "recover" {
				why = "callee recovers"
			}
			// direct recursion
			if id, ok := x.Fun.(*ast.Ident); ok {
				if o, _ := di.pk.TypesInfo.Uses[id].(*types.Func); o != nil && o == di.pk.TypesInfo.Defs[di.decl.Name] {
					why = "callee is recursive"
				}
			}
			if se, ok := x.Fun.(*ast.SelectorExpr); ok {
				if o, _ := di.pk.TypesInfo.Uses[se.Sel].(*types.Func); o != nil && o == di.pk.TypesInfo.Defs[di.decl.Name] {
					why = "callee is recursive"
				}
			}
		}
		return true
	})
	return why
}

// simpleDefers returns the defer statements of the callee that can be moved to the end of the inlined block: they stand at the top
// level of the body in front of every statement that can leave it (so they are registered on every path), and what they call is a
// selector chain over variables nobody assigns in the body, with arguments of the same kind (evaluating it later gives the same call).
// On paths that end in a panic the inlined text differs from the source (the call is not made): rules about those paths see more, not less.
func simpleDefers(di *declInfo) map[*ast.DeferStmt]bool {
	out := map[*ast.DeferStmt]bool{}
	info := di.pk.TypesInfo
	assigned := map[types.Object]bool{}
	ast.Inspect(di.decl.Body, func(n ast.Node) bool {
		switch x := n.(type) {
		case *ast.AssignStmt:
			for _, l := range x.Lhs {
				if id, ok := l.(*ast.Ident); ok {
					if o := info.Uses[id]; o != nil {
						assigned[o] = true
					}
				}
			}
		case *ast.IncDecStmt:
			if id, ok := x.X.(*ast.Ident); ok {
				if o := info.Uses[id]; o != nil {
					assigned[o] = true
				}
			}
		case *ast.UnaryExpr:
			if id, ok := ast.Unparen(x.X).(*ast.Ident); ok && x.Op == token.AND {
				if o := info.Uses[id]; o != nil {
					assigned[o] = true
				}
			}
		}
		return true
	})
	var simple func(e ast.Expr) bool
	simple = func(e ast.Expr) bool {
		switch x := ast.Unparen(e).(type) {
		case *ast.Ident:
			o := info.Uses[x]
			return o != nil && !assigned[o]
		case *ast.SelectorExpr:
			return simple(x.X)
		case *ast.BasicLit:
			return true
		}
		return false
	}
	for _, st := range di.decl.Body.List {
		if d, ok := st.(*ast.DeferStmt); ok {
			ok := true
			switch f := ast.Unparen(d.Call.Fun).(type) {
			case *ast.Ident:
				_, isFunc := info.Uses[f].(*types.Func)
				ok = isFunc
			case *ast.SelectorExpr:
				ok = simple(f.X)
			default:
				ok = false
			}
			for _, a := range d.Call.Args {
				if !simple(a) {
					ok = false
				}
			}
			if ok {
				out[d] = true
			}
			continue
		}
		leaves := false
		ast.Inspect(st, func(n ast.Node) bool {
			switch n.(type) {
			case *ast.ReturnStmt, *ast.BranchStmt:
				leaves = true
			case *ast.FuncLit:
				return false
			}
			return true
		})
		if leaves {
			break
		}
	}
	return out
}

// lhsDecls: for  a, b := f()  the new variables are declared in front of the block; returns the declaration text and the
// left-hand side expressions as text.
func (in *inliner) lhsDecls(st *ast.AssignStmt) (string, []string, bool) {
	pre := ""
	var lhs []string
	for _, l := range st.Lhs {
		id, isId := l.(*ast.Ident)
		if st.Tok == token.DEFINE {
			if !isId {
				return "", nil, false
			}
			if id.Name == "_" {
				lhs = append(lhs, "_")
				continue
			}
			if obj := in.pk.TypesInfo.Defs[id]; obj != nil {
				ts, ok := in.typeText(obj.Type(), st.Pos())
				if !ok {
					return "", nil, false
				}
				pre += "var " + id.Name + " " + ts + "; "
			}
			lhs = append(lhs, id.Name)
			continue
		}
		lhs = append(lhs, in.text(l))
	}
	return pre, lhs, true
}

// declaresShadowingName: the := statement declares a variable named like an import of this file or an object of the package scope.
func (in *inliner) declaresShadowingName(st *ast.AssignStmt) bool {
	for _, l := range st.Lhs {
		id, ok := l.(*ast.Ident)
		if !ok || id.Name == "_" || in.pk.TypesInfo.Defs[id] == nil {
			continue
		}
		if in.fileScopeHas(id.Name) || in.pk.Types.Scope().Lookup(id.Name) != nil {
			return true
		}
		for _, imp := range in.file.Imports {
			name := ""
			if imp.Name != nil {
				name = imp.Name.Name
			} else {
				p := strings.Trim(imp.Path.Value, "\"")
				name = p[strings.LastIndex(p, "/")+1:]
			}
			if name == id.Name {
				return true
			}
		}
	}
	return false
}

// lhsViaTemps: for  a, b := f()  — temporaries for the newly declared names (declared in front), the left-hand sides the inlined body
// assigns to, and the statement  a, b := t0, t1  that follows the body.
func (in *inliner) lhsViaTemps(st *ast.AssignStmt) (pre string, lhs []string, post string, ok bool) {
	var names, vals []string
	for k, l := range st.Lhs {
		id, isId := l.(*ast.Ident)
		if !isId {
			return "", nil, "", false
		}
		if id.Name == "_" {
			lhs = append(lhs, "_")
			names = append(names, "_")
			vals = append(vals, "0")
			continue
		}
		if obj := in.pk.TypesInfo.Defs[id]; obj != nil {
			ts, okT := in.typeText(obj.Type(), st.Pos())
			if !okT {
				return "", nil, "", false
			}
			*in.counter++
			tmp := fmt.Sprintf("_hd%d_%d", *in.counter, k)
			pre += "var " + tmp + " " + ts + "; "
			lhs = append(lhs, tmp)
			names = append(names, id.Name)
			vals = append(vals, tmp)
			continue
		}
		// an existing variable re-used by the :=
		lhs = append(lhs, id.Name)
		names = append(names, id.Name)
		vals = append(vals, id.Name)
	}
	return pre, lhs, strings.Join(names, ", ") + " := " + strings.Join(vals, ", "), true
}

// typeText renders t as it must be written in this file, or fails when a needed package is not imported or a name is shadowed.
func (in *inliner) typeText(t types.Type, at token.Pos) (string, bool) {
	ok := true
	s := types.TypeString(t, func(pk *types.Package) string {
		if pk == in.pk.Types {
			return ""
		}
		name := in.importName(pk.Path())
		if name == "" {
			ok = false
		}
		return name
	})
	if strings.Contains(s, "invalid type") {
		ok = false
	}
	return s, ok
}

// importName: the local name under which the file imports path ("" if it does not; the import is then scheduled when possible).
func (in *inliner) importName(path string) string {
	for _, sp := range in.file.Imports {
		if strings.Trim(sp.Path.Value, "\"") == path {
			if sp.Name != nil {
				if sp.Name.Name == "." || sp.Name.Name == "_" {
					return ""
				}
				return sp.Name.Name
			}
			if pk := in.p.ByPath[path]; pk != nil {
				return pk.Name
			}
			return path[strings.LastIndex(path, "/")+1:]
		}
	}
	return ""
}

// expand renders the inlined call. lhs: targets of the results ("" none); retNames: variables to declare for a `return`
// context; tail: statement appended after the block body (e.g. "return a, b").
func (in *inliner) expand(call *ast.CallExpr, obj *types.Func, recv ast.Expr, lhs []string, retNames []string, tail string) (string, bool) {
	di := in.decls[obj]
	if di.src == nil {
		b, err := in.p.readSource(in.p.Fset.Position(di.file.Pos()).Filename)
		if err != nil {
			return "", false
		}
		di.src = b
	}
	*in.counter++
	id := *in.counter
	sig := obj.Type().(*types.Signature)
	info := di.pk.TypesInfo
	ctf := in.p.Fset.File(di.file.Pos())
	coff := func(p token.Pos) int { return ctf.Offset(p) }

	// free names of the callee must mean the same thing at the call site
	scope := in.pk.Types.Scope().Innermost(call.Pos())
	okNames := true
	why := ""
	needImports := map[string]string{}
	ast.Inspect(di.decl, func(n ast.Node) bool {
		idn, ok := n.(*ast.Ident)
		if !ok {
			return true
		}
		o := info.Uses[idn]
		if o == nil {
			return true
		}
		switch x := o.(type) {
		case *types.PkgName:
			name := in.importName(x.Imported().Path())
			if name == "" {
				// schedule an import under the callee's name if that name is free in this file
				if in.pk.Types.Scope().Lookup(x.Name()) != nil || in.fileScopeHas(x.Name()) {
					okNames, why = false, "import "+x.Imported().Path()+" cannot be added"
					return true
				}
				needImports[x.Name()] = x.Imported().Path()
				name = x.Name()
			}
			if name != x.Name() {
				okNames, why = false, "package "+x.Imported().Path()+" is imported under another name"
				return true
			}
			if scope != nil {
				if _, found := scope.LookupParent(name, call.Pos()); found != nil {
					if _, isPkg := found.(*types.PkgName); !isPkg {
						okNames, why = false, "name "+name+" is shadowed at the call site"
					}
				}
			}
		default:
			if o.Parent() == di.pk.Types.Scope() || o.Parent() == types.Universe {
				if scope != nil {
					if _, found := scope.LookupParent(idn.Name, call.Pos()); found != o {
						okNames, why = false, "name "+idn.Name+" is shadowed at the call site"
					}
				}
			} else if v, isVar := o.(*types.Var); isVar && !v.IsField() && o.Pkg() == di.pk.Types && o.Parent() != nil && o.Parent() != di.pk.Types.Scope() &&
				!(di.decl.Type.Pos() <= o.Pos() && o.Pos() <= di.decl.Body.End()) {
				// a variable of the enclosing function captured by a function literal: must be the same variable at the call site
				if scope != nil {
					if _, found := scope.LookupParent(idn.Name, call.Pos()); found != o {
						okNames, why = false, "captured variable "+idn.Name+" is not visible (or shadowed) at the call site"
					}
				}
			}
		}
		return true
	})
	if !okNames {
		in.skip(obj, why)
		return "", false
	}

	// parameter / receiver / result objects -> fresh names
	ren := map[types.Object]string{}
	var prelude []string
	bind := func(v *types.Var, name string, arg string) bool {
		ts, ok := in.typeTextFrom(v.Type(), di, needImports)
		if !ok {
			return false
		}
		prelude = append(prelude, fmt.Sprintf("var %s %s = %s; _ = %s", name, ts, arg, name))
		return true
	}
	if r := sig.Recv(); r != nil {
		if recv == nil {
			in.skip(obj, "method expression")
			return "", false
		}
		name := fmt.Sprintf("_h%d_recv", id)
		ren[r] = name
		// named receiver object in the declaration
		if di.decl.Recv != nil && len(di.decl.Recv.List) == 1 && len(di.decl.Recv.List[0].Names) == 1 {
			if o := info.Defs[di.decl.Recv.List[0].Names[0]]; o != nil {
				ren[o] = name
			}
		}
		rt := in.pk.TypesInfo.TypeOf(recv)
		arg := "(" + in.text(recv) + ")"
		_, wantPtr := r.Type().(*types.Pointer)
		_, havePtr := rt.Underlying().(*types.Pointer)
		switch {
		case wantPtr && !havePtr:
			arg = "&" + arg
		case !wantPtr && havePtr:
			arg = "*" + arg
		}
		if !bind(r, name, arg) {
			in.skip(obj, "receiver type not expressible")
			return "", false
		}
	}
	params := sig.Params()
	pi := 0
	if di.decl.Type.Params != nil {
		for _, fld := range di.decl.Type.Params.List {
			names := fld.Names
			if len(names) == 0 {
				names = []*ast.Ident{nil}
			}
			for _, nm := range names {
				v := params.At(pi)
				name := fmt.Sprintf("_h%d_p%d", id, pi)
				if nm != nil {
					if o := info.Defs[nm]; o != nil {
						ren[o] = name
					}
				}
				var arg string
				if sig.Variadic() && pi == params.Len()-1 {
					if call.Ellipsis.IsValid() {
						arg = in.text(call.Args[pi])
					} else {
						et, ok := in.typeTextFrom(v.Type(), di, needImports)
						if !ok {
							in.skip(obj, "variadic type not expressible")
							return "", false
						}
						var parts []string
						for _, a := range call.Args[pi:] {
							parts = append(parts, in.text(a))
						}
						arg = strings.TrimSuffix(strings.TrimPrefix(et, "("), ")") + "{" + strings.Join(parts, ", ") + "}"
					}
				} else {
					if pi >= len(call.Args) {
						in.skip(obj, "argument count (call of a multi-value function as arguments)")
						return "", false
					}
					arg = in.text(call.Args[pi])
				}
				if !bind(v, name, arg) {
					in.skip(obj, "parameter type not expressible")
					return "", false
				}
				pi++
			}
		}
	}
	if pi != params.Len() || (!sig.Variadic() && len(call.Args) != params.Len()) {
		in.skip(obj, "argument count")
		return "", false
	}
	// results
	var resNames []string
	ri := 0
	if di.decl.Type.Results != nil {
		for _, fld := range di.decl.Type.Results.List {
			names := fld.Names
			if len(names) == 0 {
				names = []*ast.Ident{nil}
			}
			for _, nm := range names {
				v := sig.Results().At(ri)
				name := fmt.Sprintf("_h%d_r%d", id, ri)
				if nm != nil {
					if o := info.Defs[nm]; o != nil {
						ren[o] = name
					}
				}
				ts, ok := in.typeTextFrom(v.Type(), di, needImports)
				if !ok {
					in.skip(obj, "result type not expressible")
					return "", false
				}
				prelude = append(prelude, fmt.Sprintf("var %s %s; _ = %s", name, ts, name))
				resNames = append(resNames, name)
				ri++
			}
		}
	}
	label := fmt.Sprintf("_H%d", id)

	// body text with edits: renamed identifiers, returns
	type ed struct {
		s, e int
		t    string
	}
	var eds []ed
	bodyStart, bodyEnd := coff(di.decl.Body.Lbrace)+1, coff(di.decl.Body.Rbrace)
	var walk func(n ast.Node, inLit bool)
	walk = func(n ast.Node, inLit bool) {
		ast.Inspect(n, func(m ast.Node) bool {
			switch x := m.(type) {
			case *ast.FuncLit:
				if m != n {
					// parameters and named results of the literal are declared inside the callee's body as well: they are renamed
					// with their uses
					walk(x.Type, true)
					walk(x.Body, true)
					return false
				}
			case *ast.Ident:
				o := info.Uses[x]
				if o == nil {
					o = info.Defs[x]
				}
				if o != nil {
					if _, ok := ren[o]; !ok {
						// locals of the callee get unique names: nothing the caller (or a callback spliced in by a later round)
						// refers to can be captured by them
						if v, isVar := o.(*types.Var); isVar && !v.IsField() && x.Name != "_" && di.decl.Body.Lbrace < o.Pos() && o.Pos() < di.decl.Body.Rbrace {
							ren[o] = fmt.Sprintf("%s_h%d", x.Name, id)
						}
					}
					if _, isLabel := o.(*types.Label); isLabel {
						// labels are function-wide: a copy of the callee gets its own (the callee may carry the labels of helpers
						// inlined into it in an earlier round, and may be copied twice into one caller)
						if _, ok := ren[o]; !ok {
							ren[o] = fmt.Sprintf("%s_h%d", x.Name, id)
						}
					}
					if nn, ok := ren[o]; ok {
						eds = append(eds, ed{coff(x.Pos()), coff(x.End()), nn})
					}
				}
			case *ast.AssignStmt:
				// a := at the top level of the callee that re-uses a parameter or a named result ( header, err := f() with a named
				// result err ): in the callee the body shares the scope of its parameters and results, in the inlined text they are
				// declared outside the block — the := would declare a new variable there and the result would never be assigned
				if x.Tok == token.DEFINE && !inLit {
					reuses := false
					for _, l := range x.Lhs {
						if lid, ok := l.(*ast.Ident); ok && info.Defs[lid] == nil {
							if o := info.Uses[lid]; o != nil && !(di.decl.Body.Lbrace < o.Pos() && o.Pos() < di.decl.Body.Rbrace) {
								if _, isVar := o.(*types.Var); isVar {
									reuses = true
								}
							}
						}
					}
					if reuses {
						decls := ""
						okTypes := true
						for _, l := range x.Lhs {
							if lid, ok := l.(*ast.Ident); ok && lid.Name != "_" {
								if o := info.Defs[lid]; o != nil {
									tt, ok := in.typeTextFrom(o.Type(), di, needImports)
									if !ok {
										okTypes = false
									}
									decls += fmt.Sprintf("var %s_h%d %s; _ = %s_h%d; ", lid.Name, id, tt, lid.Name, id)
								}
							}
						}
						if okTypes {
							eds = append(eds, ed{coff(x.Pos()), coff(x.Pos()), decls})
							eds = append(eds, ed{coff(x.TokPos), coff(x.TokPos) + 2, "="})
						}
					}
				}
			case *ast.KeyValueExpr:
				// struct literal field keys are not uses of variables; Inspect visits x.Key as Ident: info.Uses maps it to the field, never to a parameter
			case *ast.ReturnStmt:
				if inLit {
					return true
				}
				kw := coff(x.Pos())
				if len(x.Results) == 0 {
					eds = append(eds, ed{kw, kw + len("return"), "break " + label})
				} else {
					eds = append(eds, ed{kw, kw + len("return"), "{ " + strings.Join(resNames, ", ") + " = "})
					eds = append(eds, ed{coff(x.End()), coff(x.End()), "; break " + label + " }"})
				}
			}
			return true
		})
	}
	walk(di.decl.Body, false)
	sort.SliceStable(eds, func(i, j int) bool { return eds[i].s < eds[j].s })
	// deferred calls that can run at the end of the block (simpleDefers): their text, identifiers renamed, in reverse order
	var deferred []string
	for _, st := range di.decl.Body.List {
		d, ok := st.(*ast.DeferStmt)
		if !ok || !simpleDefers(di)[d] {
			continue
		}
		var t bytes.Buffer
		cs, ce := coff(d.Call.Pos()), coff(d.Call.End())
		lastc := cs
		for _, e := range eds {
			if e.s < lastc || e.e > ce {
				continue
			}
			t.Write(di.src[lastc:e.s])
			t.WriteString(e.t)
			lastc = e.e
		}
		t.Write(di.src[lastc:ce])
		deferred = append([]string{t.String()}, deferred...)
		eds = append(eds, ed{coff(d.Pos()), coff(d.End()), ""})
	}
	sort.SliceStable(eds, func(i, j int) bool {
		if eds[i].s != eds[j].s {
			return eds[i].s < eds[j].s
		}
		// at one position: insertions (declarations put in front of a rewritten :=) first, then the longer replacement (the removal of
		// a defer statement before the renames inside it)
		zi, zj := eds[i].s == eds[i].e, eds[j].s == eds[j].e
		if zi != zj {
			return zi
		}
		return eds[i].e > eds[j].e
	})
	var body bytes.Buffer
	last := bodyStart
	for _, e := range eds {
		if e.s < last {
			continue
		}
		body.Write(di.src[last:e.s])
		body.WriteString(e.t)
		last = e.e
	}
	body.Write(di.src[last:bodyEnd])

	var out bytes.Buffer
	out.WriteString("{ ")
	for _, l := range prelude {
		out.WriteString(l + "; ")
	}
	out.WriteString(label + ": for { " + body.String() + "\n break " + label + " }; ")
	for _, d := range deferred {
		out.WriteString(d + "; ")
	}
	if len(lhs) > 0 {
		allBlank := true
		for _, l := range lhs {
			if l != "_" {
				allBlank = false
			}
		}
		if !allBlank {
			out.WriteString(strings.Join(lhs, ", ") + " = " + strings.Join(resNames, ", ") + "; ")
		}
	}
	if tail != "" {
		// return context: hand the result variables back
		out.WriteString("return " + strings.Join(resNames, ", ") + "; ")
	}
	out.WriteString("}")
	if di.keepVar != "" {
		out.WriteString("; _ = " + di.keepVar)
	}
	for name, path := range needImports {
		spec := name + " \"" + path + "\""
		dup := false
		for _, s := range in.imports {
			if s == spec {
				dup = true
			}
		}
		if !dup {
			in.imports = append(in.imports, spec)
		}
	}
	*in.notes = append(*in.notes, fmt.Sprintf("new helper %s inlined into its caller at %s", obj.Name(), in.p.Position(call.Pos())))
	return out.String(), true
}

func (in *inliner) fileScopeHas(name string) bool {
	if sc := in.pk.TypesInfo.Scopes[in.file]; sc != nil {
		return sc.Lookup(name) != nil
	}
	return false
}

// typeTextFrom renders a type of the callee's declaration for use in this file.
func (in *inliner) typeTextFrom(t types.Type, di *declInfo, needImports map[string]string) (string, bool) {
	ok := true
	s := types.TypeString(t, func(pk *types.Package) string {
		if pk == in.pk.Types {
			return ""
		}
		name := in.importName(pk.Path())
		if name == "" {
			// use the callee file's name for it, if free here
			for _, sp := range di.file.Imports {
				if strings.Trim(sp.Path.Value, "\"") == pk.Path() {
					n := pk.Name()
					if sp.Name != nil {
						n = sp.Name.Name
					}
					if in.pk.Types.Scope().Lookup(n) == nil && !in.fileScopeHas(n) {
						needImports[n] = pk.Path()
						return n
					}
				}
			}
			ok = false
		}
		return name
	})
	if strings.Contains(s, "invalid type") {
		ok = false
	}
	return "(" + s + ")", ok
}

// wrapInit:  if <init with call>; cond { } else { }   =>   { <decls> <inlined init> if cond { } else { } }
func (in *inliner) wrapInit(ifs *ast.IfStmt, init ast.Stmt, call *ast.CallExpr, obj *types.Func, recv ast.Expr, as *ast.AssignStmt, _ bool) {
	pre := ""
	var lhs []string
	if as != nil {
		var ok bool
		pre, lhs, ok = in.lhsDecls(as)
		if !ok {
			in.skip(obj, "unsupported left-hand side")
			return
		}
	}
	body, ok := in.expand(call, obj, recv, lhs, nil, "")
	if !ok {
		return
	}
	// `else if` chains: an if that is the Else of another if cannot be wrapped in a block without changing the syntax tree shape;
	// "else { ... }" is equivalent
	in.addGroup(
		textEdit{start: in.off(ifs.Pos()), end: in.off(ifs.Pos()), text: "{ " + pre + body + "; "},
		textEdit{start: in.off(init.Pos()), end: in.off(init.End()), text: ""},
		textEdit{start: in.off(ifs.End()), end: in.off(ifs.End()), text: " }"})
}

// hoist:  S[call]  =>  { var t T; <inlined: t = call>; S[t] }   when the call is the first thing S evaluates.
func (in *inliner) hoist(call *ast.CallExpr, obj *types.Func, recv ast.Expr, stack []ast.Node) {
	// find the enclosing statement
	si := -1
	for i := len(stack) - 2; i >= 0; i-- {
		if _, ok := stack[i].(ast.Stmt); ok {
			si = i
			break
		}
		if _, ok := stack[i].(*ast.FuncLit); ok {
			in.skip(obj, "call inside a function literal expression")
			return
		}
	}
	if si < 1 {
		return
	}
	stmt := stack[si].(ast.Stmt)
	switch stack[si-1].(type) {
	case *ast.BlockStmt, *ast.CaseClause, *ast.CommClause:
	default:
		in.skip(obj, "statement is not in a statement list")
		return
	}
	if in.desugar(stmt, call, obj) {
		return
	}
	var root ast.Expr // the expression of stmt that contains the call and is evaluated first
	declares := false
	switch s := stmt.(type) {
	case *ast.ExprStmt:
		root = s.X
	case *ast.AssignStmt:
		if len(s.Rhs) >= 1 && s.Tok != token.DEFINE || s.Tok == token.DEFINE {
			// left-hand sides with index/selector operands are evaluated before the right-hand side: only plain identifiers allowed
			for _, l := range s.Lhs {
				// x and x.f.g (x a local variable or parameter) denote the same location before and after the call: a declared
				// function cannot assign the caller's local x. Index expressions and calls on the left are evaluated first: not hoisted.
				e := l
				for {
					if se, ok := e.(*ast.SelectorExpr); ok && in.decls[obj].keepVar == "" {
						e = se.X
						continue
					}
					break
				}
				id, ok := e.(*ast.Ident)
				if ok && e != l {
					if v, isVar := in.pk.TypesInfo.Uses[id].(*types.Var); !isVar || v.Parent() == in.pk.Types.Scope() {
						ok = false
					}
				}
				if !ok {
					in.skip(obj, "assignment target is evaluated before the call")
					return
				}
			}
			root = s.Rhs[0]
		}
	case *ast.ReturnStmt:
		if len(s.Results) > 0 {
			root = s.Results[0]
		}
	case *ast.DeclStmt:
		//  var x T = call(...)  (the form the inliner itself produces for the parameters of an inlined helper)
		// ... also the first initialiser of a var ( … ) block: nothing of the block is evaluated before it
		if gd, ok := s.Decl.(*ast.GenDecl); ok && gd.Tok == token.VAR && len(gd.Specs) >= 1 {
			if vs, ok := gd.Specs[0].(*ast.ValueSpec); ok && len(vs.Values) >= 1 {
				root = vs.Values[0]
				declares = true
			}
		}
	case *ast.IfStmt:
		if s.Init == nil {
			root = s.Cond
		}
	case *ast.SwitchStmt:
		if s.Init == nil {
			root = s.Tag
		}
	}
	if root == nil || !(root.Pos() <= call.Pos() && call.End() <= root.End()) {
		in.skip(obj, "call position in the statement is not supported")
		return
	}
	if !in.evaluatedFirst(root, call) {
		in.skip(obj, "other operands are evaluated before the call")
		return
	}
	rt := obj.Type().(*types.Signature).Results().At(0).Type()
	ts, ok := in.typeText(rt, call.Pos())
	if !ok {
		in.skip(obj, "result type not expressible")
		return
	}
	tmp := fmt.Sprintf("_ht%d", *in.counter+1)
	body, ok := in.expand(call, obj, recv, []string{tmp}, nil, "")
	if !ok {
		return
	}
	// a := / var declarations of stmt must stay visible after it: only wrap when stmt declares nothing
	if as, ok := stmt.(*ast.AssignStmt); (ok && as.Tok == token.DEFINE) || declares {
		// declare the temp in front, keep the statement unwrapped
		in.addGroup(
			textEdit{start: in.off(stmt.Pos()), end: in.off(stmt.Pos()), text: "var " + tmp + " " + ts + "; " + body + "; "},
			textEdit{start: in.off(call.Pos()), end: in.off(call.End()), text: tmp})
		return
	}
	in.addGroup(
		textEdit{start: in.off(stmt.Pos()), end: in.off(stmt.Pos()), text: "{ var " + tmp + " " + ts + "; " + body + "; "},
		textEdit{start: in.off(call.Pos()), end: in.off(call.End()), text: tmp},
		textEdit{start: in.off(stmt.End()), end: in.off(stmt.End()), text: " }"})
}

// desugar rewrites a statement in which the call is evaluated conditionally or repeatedly into an equivalent one in which it
// stands at a position the next round can hoist it from:
//
//	for init; C[call]; post { B }      =>  for init; ; post { if !(C) { break }; B }
//	return X && Y[call]                =>  { if !(X) { return false }; return Y }        ( || : if X { return true } )
//	if init; X && Y[call] { B }        =>  if init; X { if Y { B } }                     (no else branch)
//
// The inserted break belongs to the loop (it stands directly in its body); continue still runs post and comes back to the test.
func (in *inliner) desugar(stmt ast.Stmt, call *ast.CallExpr, obj *types.Func) bool {
	within := func(e ast.Expr) bool { return e != nil && e.Pos() <= call.Pos() && call.End() <= e.End() }
	universe := func(name string) bool {
		sc := in.pk.Types.Scope().Innermost(call.Pos())
		if sc == nil {
			return false
		}
		_, o := sc.LookupParent(name, call.Pos())
		return o != nil && o.Parent() == types.Universe
	}
	switch s := stmt.(type) {
	case *ast.ForStmt:
		if !within(s.Cond) {
			return false
		}
		in.addGroup(
			textEdit{start: in.off(s.Cond.Pos()), end: in.off(s.Cond.End()), text: ""},
			textEdit{start: in.off(s.Body.Lbrace) + 1, end: in.off(s.Body.Lbrace) + 1, text: " if !(" + in.text(s.Cond) + ") { break }; "})
		*in.notes = append(*in.notes, fmt.Sprintf("loop condition calling new helper %s moved into the loop body at %s", obj.Name(), in.p.Position(call.Pos())))
		return true
	case *ast.ReturnStmt:
		if len(s.Results) != 1 {
			return false
		}
		be, ok := ast.Unparen(s.Results[0]).(*ast.BinaryExpr)
		if !ok || (be.Op != token.LAND && be.Op != token.LOR) || !within(be.Y) || !universe("true") || !universe("false") {
			return false
		}
		var text string
		if be.Op == token.LAND {
			text = "{ if !(" + in.text(be.X) + ") { return false }; return " + in.text(be.Y) + " }"
		} else {
			text = "{ if " + in.text(be.X) + " { return true }; return " + in.text(be.Y) + " }"
		}
		in.addGroup(textEdit{start: in.off(s.Pos()), end: in.off(s.End()), text: text})
		*in.notes = append(*in.notes, fmt.Sprintf("short-circuit return calling new helper %s split at %s", obj.Name(), in.p.Position(call.Pos())))
		return true
	case *ast.IfStmt:
		if s.Else != nil {
			return false
		}
		be, ok := ast.Unparen(s.Cond).(*ast.BinaryExpr)
		if !ok || be.Op != token.LAND || !within(be.Y) {
			return false
		}
		in.addGroup(
			textEdit{start: in.off(s.Cond.Pos()), end: in.off(s.Cond.End()), text: in.text(be.X)},
			textEdit{start: in.off(s.Body.Lbrace) + 1, end: in.off(s.Body.Lbrace) + 1, text: " if " + in.text(be.Y) + " {"},
			textEdit{start: in.off(s.Body.Rbrace), end: in.off(s.Body.Rbrace), text: "} "})
		*in.notes = append(*in.notes, fmt.Sprintf("short-circuit condition calling new helper %s nested at %s", obj.Name(), in.p.Position(call.Pos())))
		return true
	}
	return false
}

// evaluatedFirst: on the way from root down to call, the call is always the first operand evaluated and never conditional.
func (in *inliner) evaluatedFirst(root ast.Expr, call *ast.CallExpr) bool {
	pure := func(e ast.Expr) bool {
		ok := true
		ast.Inspect(e, func(n ast.Node) bool {
			switch x := n.(type) {
			case *ast.CallExpr:
				// conversions and len/cap of pure operands are fine
				if tv, has := in.pk.TypesInfo.Types[x.Fun]; has && tv.IsType() {
					return true
				}
				if id, isId := x.Fun.(*ast.Ident); isId && (id.Name == "len" || id.Name == "cap") {
					return true
				}
				ok = false
			case *ast.UnaryExpr:
				if x.Op == token.ARROW {
					ok = false
				}
			case *ast.FuncLit:
				return false
			}
			return true
		})
		return ok
	}
	cur := ast.Expr(root)
	for {
		cur = ast.Unparen(cur)
		if cur == ast.Expr(call) {
			return true
		}
		contains := func(e ast.Expr) bool { return e != nil && e.Pos() <= call.Pos() && call.End() <= e.End() }
		switch x := cur.(type) {
		case *ast.BinaryExpr:
			if contains(x.X) {
				cur = x.X
				continue
			}
			if x.Op == token.LAND || x.Op == token.LOR {
				return false // conditional evaluation
			}
			if !pure(x.X) {
				return false
			}
			cur = x.Y
		case *ast.UnaryExpr:
			if x.Op == token.ARROW {
				return false
			}
			cur = x.X
		case *ast.StarExpr:
			cur = x.X
		case *ast.SelectorExpr:
			cur = x.X
		case *ast.IndexExpr:
			if contains(x.X) {
				cur = x.X
				continue
			}
			if !pure(x.X) {
				return false
			}
			cur = x.Index
		case *ast.SliceExpr:
			if contains(x.X) {
				cur = x.X
				continue
			}
			return false
		case *ast.TypeAssertExpr:
			cur = x.X
		case *ast.CallExpr:
			// callee expression, then arguments left to right
			if contains(x.Fun) {
				if se, ok := ast.Unparen(x.Fun).(*ast.SelectorExpr); ok && contains(se.X) {
					cur = se.X
					continue
				}
				return false
			}
			if !pure(x.Fun) {
				return false
			}
			found := false
			for _, a := range x.Args {
				if contains(a) {
					cur = a
					found = true
					break
				}
				if !pure(a) {
					return false
				}
			}
			if !found {
				return false
			}
		case *ast.CompositeLit:
			found := false
			for _, el := range x.Elts {
				v := el
				if kv, ok := el.(*ast.KeyValueExpr); ok {
					if !pure(kv.Key) {
						return false
					}
					v = kv.Value
				}
				if contains(v) {
					cur = v
					found = true
					break
				}
				if !pure(v) {
					return false
				}
			}
			if !found {
				return false
			}
		default:
			return false
		}
	}
}

// origPosition maps a position in a helper-inlined file back to line:column of the file as it is in the repository.
func (p *Program) origPosition(filename string, offset int) (line, col int, ok bool) {
	rounds, has := p.spans[filename]
	if !has {
		return 0, 0, false
	}
	for r := len(rounds) - 1; r >= 0; r-- {
		offset = mapBack(rounds[r], offset)
	}
	src := p.origSrc[filename]
	if offset < 0 || offset > len(src) {
		return 0, 0, false
	}
	line, col = 1, 1
	for _, c := range src[:offset] {
		if c == '\n' {
			line++
			col = 1
		} else {
			col++
		}
	}
	return line, col, true
}

// ---------------------------------------------------------------- calls of local function literals

// findClosures: local variables that are bound exactly once, at their declaration, to a function literal and are never assigned
// again nor have their address taken ( done := func(...) {...} ;  var p func(...) = func(...) {...}  — the latter is what an inlined
// helper leaves behind for a callback argument). A call of such a variable is a static call of the literal.
func (in *inliner) findClosures() {
	in.lits = map[*types.Var]*ast.FuncLit{}
	info := in.pk.TypesInfo
	bad := map[*types.Var]bool{}
	bind := func(id *ast.Ident, val ast.Expr) {
		v, _ := info.Defs[id].(*types.Var)
		if v == nil {
			return
		}
		if lit, ok := ast.Unparen(val).(*ast.FuncLit); ok {
			in.lits[v] = lit
		} else {
			bad[v] = true
		}
	}
	ast.Inspect(in.file, func(n ast.Node) bool {
		switch x := n.(type) {
		case *ast.ValueSpec:
			if len(x.Names) == len(x.Values) {
				for k, id := range x.Names {
					bind(id, x.Values[k])
				}
			} else {
				for _, id := range x.Names {
					if v, _ := info.Defs[id].(*types.Var); v != nil {
						bad[v] = true
					}
				}
			}
		case *ast.AssignStmt:
			for k, l := range x.Lhs {
				id, ok := l.(*ast.Ident)
				if !ok {
					continue
				}
				if x.Tok == token.DEFINE && info.Defs[id] != nil && len(x.Lhs) == len(x.Rhs) {
					bind(id, x.Rhs[k])
					continue
				}
				if v, _ := info.Uses[id].(*types.Var); v != nil {
					bad[v] = true
				}
				if v, _ := info.Defs[id].(*types.Var); v != nil {
					bad[v] = true
				}
			}
		case *ast.UnaryExpr:
			if x.Op == token.AND {
				if id, ok := ast.Unparen(x.X).(*ast.Ident); ok {
					if v, _ := info.Uses[id].(*types.Var); v != nil {
						bad[v] = true
					}
				}
			}
		case *ast.RangeStmt:
			for _, e := range []ast.Expr{x.Key, x.Value} {
				if id, ok := e.(*ast.Ident); ok {
					if v, _ := info.Uses[id].(*types.Var); v != nil {
						bad[v] = true
					}
				}
			}
		}
		return true
	})
	for v := range bad {
		delete(in.lits, v)
	}
	for v := range in.lits {
		if v.Parent() == nil || v.Parent() == in.pk.Types.Scope() {
			delete(in.lits, v) // package-level variables can be assigned from anywhere
		}
	}
}

// closureCallee: call is  v(args)  for such a variable; the literal is registered as a callee under a synthetic function object.
func (in *inliner) closureCallee(call *ast.CallExpr) *types.Func {
	id, ok := ast.Unparen(call.Fun).(*ast.Ident)
	if !ok {
		return nil
	}
	v, _ := in.pk.TypesInfo.Uses[id].(*types.Var)
	if v == nil {
		return nil
	}
	lit := in.lits[v]
	if lit == nil {
		return nil
	}
	// the call must not be inside the literal itself
	if lit.Pos() <= call.Pos() && call.End() <= lit.End() {
		return nil
	}
	if f := in.litObjs[lit]; f != nil {
		return f
	}
	sig, _ := in.pk.TypesInfo.TypeOf(lit).(*types.Signature)
	if sig == nil {
		return nil
	}
	f := types.NewFunc(lit.Pos(), in.pk.Types, "func literal "+id.Name, sig)
	if in.litObjs == nil {
		in.litObjs = map[*ast.FuncLit]*types.Func{}
	}
	in.litObjs[lit] = f
	in.decls[f] = &declInfo{decl: &ast.FuncDecl{Name: ast.NewIdent(id.Name), Type: lit.Type, Body: lit.Body}, pk: in.pk, file: in.file, src: in.src, keepVar: id.Name}
	return f
}

package core

import (
	_ "embed"
	"encoding/json"
	"fmt"
	"go/types"
	"sort"
	"strings"

	"golang.org/x/tools/go/ssa"
)

// anchors_ref.json: the functions and methods of the library packages as confirmed on the tree the rules were written
// against ("pkg|receiver|name" -> signature). It is only used to recognise a *rename*: when a name the rules anchor on is
// gone, and exactly one new function of the same package and receiver has the identical signature, the rules treat the new
// function as the old one. Anything else (two candidates, changed signature) stays unresolved and fails closed.
//
//go:embed anchors_ref.json
var anchorsRefJSON []byte

type renameInfo struct {
	canon map[*ssa.Function]string // current function -> reference name
	field map[*types.Var]string    // current struct field -> reference name
	byKey map[string]*ssa.Function // "rel|recv|refname" -> current function
	notes []string
}

func fnKey(fn *ssa.Function) (rel, recv, name, sig string, ok bool) {
	if fn.Parent() != nil || fn.Pkg == nil || fn.Synthetic != "" {
		return
	}
	path := fn.Pkg.Pkg.Path()
	if !IsLibraryPkg(path) {
		return
	}
	rel = strings.TrimPrefix(strings.TrimPrefix(path, ModulePath), "/")
	if r := fn.Signature.Recv(); r != nil {
		t := r.Type()
		ptr := ""
		if p, isP := t.(*types.Pointer); isP {
			t = p.Elem()
			ptr = "*"
		}
		if n, isN := t.(*types.Named); isN {
			recv = ptr + n.Obj().Name()
		} else {
			recv = ptr + t.String()
		}
	}
	name = fn.Name()
	sig = sigString(fn.Signature)
	return rel, recv, name, sig, true
}

// sigString renders parameter and result *types* only: renaming a parameter is not a signature change.
func sigString(s *types.Signature) string {
	tup := func(t *types.Tuple) string {
		var parts []string
		for i := 0; i < t.Len(); i++ {
			parts = append(parts, types.TypeString(t.At(i).Type(), nil))
		}
		return "(" + strings.Join(parts, ", ") + ")"
	}
	v := ""
	if s.Variadic() {
		v = "..."
	}
	return "func" + v + tup(s.Params()) + " " + tup(s.Results())
}

// structFields lists "rel|T|#field" -> (type string, field object) for the named struct types of the library packages.
func (p *Program) structFields() (map[string]string, map[string]*types.Var) {
	sigs := map[string]string{}
	objs := map[string]*types.Var{}
	for _, pk := range p.Pkgs {
		if !IsLibraryPkg(pk.PkgPath) {
			continue
		}
		rel := strings.TrimPrefix(strings.TrimPrefix(pk.PkgPath, ModulePath), "/")
		sc := pk.Types.Scope()
		for _, n := range sc.Names() {
			tn, ok := sc.Lookup(n).(*types.TypeName)
			if !ok || tn.IsAlias() {
				continue
			}
			st, ok := tn.Type().Underlying().(*types.Struct)
			if !ok {
				continue
			}
			if strings.HasSuffix(p.Fset.Position(tn.Pos()).Filename, "_test.go") {
				continue
			}
			for i := 0; i < st.NumFields(); i++ {
				f := st.Field(i)
				k := rel + "|" + n + "|#" + f.Name()
				sigs[k] = fmt.Sprintf("%d:%s", i, types.TypeString(f.Type(), nil))
				objs[k] = f
			}
		}
	}
	return sigs, objs
}

// AnchorsOf lists "rel|recv|name" -> signature for the program (used to regenerate anchors_ref.json).
func (p *Program) AnchorsOf() map[string]string {
	out := map[string]string{}
	for _, fn := range p.ModuleFuncs() {
		pos := p.Fset.Position(fn.Pos())
		if strings.HasSuffix(pos.Filename, "_test.go") {
			continue
		}
		if rel, recv, name, sig, ok := fnKey(fn); ok {
			out[rel+"|"+recv+"|"+name] = sig
		}
	}
	fs, _ := p.structFields()
	for k, v := range fs {
		out[k] = v
	}
	return out
}

func (p *Program) renames() *renameInfo {
	if p.ren != nil {
		return p.ren
	}
	ri := &renameInfo{canon: map[*ssa.Function]string{}, byKey: map[string]*ssa.Function{}, field: map[*types.Var]string{}}
	p.ren = ri
	ref := map[string]string{}
	if json.Unmarshal(anchorsRefJSON, &ref) != nil || len(ref) == 0 {
		return ri
	}
	cur := map[string]*ssa.Function{}
	curSig := map[string]string{}
	for _, fn := range p.ModuleFuncs() {
		if strings.HasSuffix(p.Fset.Position(fn.Pos()).Filename, "_test.go") {
			continue
		}
		if rel, recv, name, sig, ok := fnKey(fn); ok {
			k := rel + "|" + recv + "|" + name
			cur[k] = fn
			curSig[k] = sig
		}
	}
	// group missing reference names and extra current names by (rel|recv)
	type grp struct{ missing, extra []string }
	groups := map[string]*grp{}
	g := func(k string) *grp {
		i := strings.LastIndex(k, "|")
		pre := k[:i]
		if groups[pre] == nil {
			groups[pre] = &grp{}
		}
		return groups[pre]
	}
	fsig, fobj := p.structFields()
	for k, v := range fsig {
		curSig[k] = v
	}
	has := func(k string) bool {
		if _, ok := cur[k]; ok {
			return true
		}
		_, ok := fobj[k]
		return ok
	}
	for k := range fsig {
		if _, ok := ref[k]; !ok {
			g(k).extra = append(g(k).extra, k)
		}
	}
	for k := range ref {
		if !has(k) {
			g(k).missing = append(g(k).missing, k)
		}
	}
	for k := range cur {
		if _, ok := ref[k]; !ok {
			g(k).extra = append(g(k).extra, k)
		}
	}
	for _, gr := range groups {
		sort.Strings(gr.missing)
		sort.Strings(gr.extra)
		for _, m := range gr.missing {
			var cands []string
			for _, e := range gr.extra {
				if curSig[e] == ref[m] {
					cands = append(cands, e)
				}
			}
			if len(cands) != 1 {
				continue
			}
			// the candidate must match only this missing name
			n := 0
			for _, m2 := range gr.missing {
				if ref[m2] == curSig[cands[0]] {
					n++
				}
			}
			if n != 1 {
				continue
			}
			refName := m[strings.LastIndex(m, "|")+1:]
			if strings.HasPrefix(refName, "#") != strings.HasPrefix(cands[0][strings.LastIndex(cands[0], "|")+1:], "#") {
				continue
			}
			if strings.HasPrefix(refName, "#") {
				ri.field[fobj[cands[0]]] = refName[1:]
				ri.notes = append(ri.notes, cands[0]+" is treated as the renamed field "+m)
				continue
			}
			fn := cur[cands[0]]
			ri.canon[fn] = refName
			ri.byKey[m] = fn
			ri.notes = append(ri.notes, cands[0]+" is treated as the renamed "+m)
		}
	}
	sort.Strings(ri.notes)
	return ri
}

// CanonName returns the name the rules know the function under: its own name, or the reference name when the function
// was recognised as a rename.
func (p *Program) CanonName(fn *ssa.Function) string {
	if fn == nil {
		return ""
	}
	if n, ok := p.renames().canon[fn]; ok {
		return n
	}
	return fn.Name()
}

// RenameNotes lists the renames that were recognised on this run (reported in the evidence).
func (p *Program) RenameNotes() []string { return p.renames().notes }

// CanonFieldName is CanonName for struct fields.
func (p *Program) CanonFieldName(f *types.Var) string {
	if p != nil {
		if n, ok := p.renames().field[f]; ok {
			return n
		}
	}
	return f.Name()
}

// FieldByCanonName finds the field of st the rules know under name.
func (p *Program) FieldByCanonName(st *types.Struct, name string) (int, *types.Var) {
	for i := 0; i < st.NumFields(); i++ {
		if p.CanonFieldName(st.Field(i)) == name {
			return i, st.Field(i)
		}
	}
	return -1, nil
}

package core

import (
	_ "embed"
	"encoding/json"
	"fmt"
	"go/types"
	"sort"
	"strings"

	"golang.org/x/tools/go/ssa"
)

// anchors_ref.json: the functions and methods of the library packages as confirmed on the tree the rules were written
// against ("pkg|receiver|name" -> signature). It is only used to recognise a *rename*: when a name the rules anchor on is
// gone, and exactly one new function of the same package and receiver has the identical signature, the rules treat the new
// function as the old one. Anything else (two candidates, changed signature) stays unresolved and fails closed.
//
//go:embed anchors_ref.json
var anchorsRefJSON []byte

// anchors_fp.json: for every reference function a fingerprint (callees outside the function, string constants, larger integer
// constants, fields touched). It only breaks ties: when several functions with one signature were renamed at once, each missing
// reference name is identified with the new function whose body resembles it most.
//
//go:embed anchors_fp.json
var anchorsFPJSON []byte

type renameInfo struct {
	canon map[*ssa.Function]string // current function -> reference name
	field map[*types.Var]string    // current struct field -> reference name
	qual  map[*ssa.Function]string // current function -> reference qualified name ("(*pkg.T).m" / "pkg.f")
	byKey map[string]*ssa.Function // "rel|recv|refname" -> current function
	ref   map[string]string        // the reference table
	conv  map[*ssa.Function]int    // +1: a reference method that is now a function taking the receiver first; -1: the reverse
	cur   map[string]*ssa.Function // "rel|recv|name" -> function of the analysed tree
	notes []string
}

func (p *Program) fnKey(fn *ssa.Function) (rel, recv, name, sig string, ok bool) {
	if fn.Parent() != nil || fn.Pkg == nil || fn.Synthetic != "" {
		return
	}
	path := fn.Pkg.Pkg.Path()
	if !IsLibraryPkg(path) {
		return
	}
	rel = strings.TrimPrefix(strings.TrimPrefix(path, ModulePath), "/")
	if r := fn.Signature.Recv(); r != nil {
		t := r.Type()
		ptr := ""
		if pt, isP := t.(*types.Pointer); isP {
			t = pt.Elem()
			ptr = "*"
		}
		if n, isN := t.(*types.Named); isN {
			recv = ptr + p.CanonTypeName(n.Obj())
		} else {
			recv = ptr + t.String()
		}
	}
	name = fn.Name()
	sig = p.canonTypeStr(sigString(fn.Signature))
	return rel, recv, name, sig, true
}

// sigString renders parameter and result *types* only: renaming a parameter is not a signature change.
func sigString(s *types.Signature) string {
	tup := func(t *types.Tuple) string {
		var parts []string
		for i := 0; i < t.Len(); i++ {
			parts = append(parts, types.TypeString(t.At(i).Type(), nil))
		}
		return "(" + strings.Join(parts, ", ") + ")"
	}
	v := ""
	if s.Variadic() {
		v = "..."
	}
	return "func" + v + tup(s.Params()) + " " + tup(s.Results())
}

// structFields lists "rel|T|#field" -> (type string, field object) for the named struct types of the library packages.
func (p *Program) structFields() (map[string]string, map[string]*types.Var) {
	sigs := map[string]string{}
	objs := map[string]*types.Var{}
	for _, pk := range p.Pkgs {
		if !IsLibraryPkg(pk.PkgPath) {
			continue
		}
		rel := strings.TrimPrefix(strings.TrimPrefix(pk.PkgPath, ModulePath), "/")
		sc := pk.Types.Scope()
		for _, n := range sc.Names() {
			tn, ok := sc.Lookup(n).(*types.TypeName)
			if !ok || tn.IsAlias() {
				continue
			}
			st, ok := tn.Type().Underlying().(*types.Struct)
			if !ok {
				continue
			}
			if strings.HasSuffix(p.Fset.Position(tn.Pos()).Filename, "_test.go") {
				continue
			}
			for i := 0; i < st.NumFields(); i++ {
				f := st.Field(i)
				k := rel + "|" + p.CanonTypeName(tn) + "|#" + f.Name()
				sigs[k] = fmt.Sprintf("%d:%s", i, p.canonTypeStr(types.TypeString(f.Type(), nil)))
				objs[k] = f
			}
		}
	}
	return sigs, objs
}

// AnchorsOf lists "rel|recv|name" -> signature for the program (used to regenerate anchors_ref.json).
func (p *Program) AnchorsOf() map[string]string {
	out := map[string]string{}
	for _, fn := range p.rawModuleFuncs() {
		pos := p.Fset.Position(fn.Pos())
		if strings.HasSuffix(pos.Filename, "_test.go") {
			continue
		}
		if rel, recv, name, sig, ok := p.fnKey(fn); ok {
			out[rel+"|"+recv+"|"+name] = sig
		}
	}
	fs, _ := p.structFields()
	for k, v := range fs {
		out[k] = v
	}
	// named types that are not structs ( type bucket []byte ): "%type|rel|T" -> underlying type
	for _, pk := range p.Pkgs {
		if !IsLibraryPkg(pk.PkgPath) {
			continue
		}
		rel := strings.TrimPrefix(strings.TrimPrefix(pk.PkgPath, ModulePath), "/")
		sc := pk.Types.Scope()
		for _, n := range sc.Names() {
			tn, ok := sc.Lookup(n).(*types.TypeName)
			if !ok || tn.IsAlias() || strings.HasSuffix(p.Fset.Position(tn.Pos()).Filename, "_test.go") {
				continue
			}
			switch tn.Type().Underlying().(type) {
			case *types.Struct, *types.Interface:
				continue
			}
			out["%type|"+rel+"|"+n] = types.TypeString(tn.Type().Underlying(), nil)
		}
	}
	return out
}

// splitRef separates the "%type|…" entries (named non-struct types) from the function and field entries of the reference.
func splitRef(ref map[string]string) map[string]string {
	named := map[string]string{}
	for k, v := range ref {
		if strings.HasPrefix(k, "%type|") {
			named[strings.TrimPrefix(k, "%type|")] = v
			delete(ref, k)
		}
	}
	return named
}

func (p *Program) renames() *renameInfo {
	if p.ren != nil {
		return p.ren
	}
	ri := &renameInfo{canon: map[*ssa.Function]string{}, byKey: map[string]*ssa.Function{}, field: map[*types.Var]string{}, qual: map[*ssa.Function]string{}, conv: map[*ssa.Function]int{}}
	p.ren = ri
	ref := map[string]string{}
	if json.Unmarshal(anchorsRefJSON, &ref) != nil || len(ref) == 0 {
		return ri
	}
	splitRef(ref)
	ri.ref = ref
	cur := map[string]*ssa.Function{}
	ri.cur = cur
	curSig := map[string]string{}
	keyOf := map[*ssa.Function]string{}
	for _, fn := range p.rawModuleFuncs() {
		if strings.HasSuffix(p.Fset.Position(fn.Pos()).Filename, "_test.go") {
			continue
		}
		if rel, recv, name, sig, ok := p.fnKey(fn); ok {
			k := rel + "|" + recv + "|" + name
			cur[k] = fn
			curSig[k] = sig
			keyOf[fn] = k
		}
	}
	// group missing reference names and extra current names by (rel|recv)
	type grp struct{ missing, extra []string }
	groups := map[string]*grp{}
	g := func(k string) *grp {
		i := strings.LastIndex(k, "|")
		pre := k[:i]
		if groups[pre] == nil {
			groups[pre] = &grp{}
		}
		return groups[pre]
	}
	fsig, fobj := p.structFields()
	for k, v := range fsig {
		curSig[k] = v
	}
	has := func(k string) bool {
		if _, ok := cur[k]; ok {
			return true
		}
		_, ok := fobj[k]
		return ok
	}
	for k := range fsig {
		if _, ok := ref[k]; !ok {
			g(k).extra = append(g(k).extra, k)
		}
	}
	for k := range ref {
		if !has(k) {
			g(k).missing = append(g(k).missing, k)
		}
	}
	for k := range cur {
		if _, ok := ref[k]; !ok {
			g(k).extra = append(g(k).extra, k)
		}
	}
	for pass := 0; pass < 2; pass++ {
		for _, gr := range groups {
			sort.Strings(gr.missing)
			sort.Strings(gr.extra)
			for _, m := range gr.missing {
				if strings.Contains(m, "|#") != (pass == 0) {
					continue // pass 0: struct fields; pass 1: functions (their fingerprints use the field names resolved in pass 0)
				}
				var cands []string
				for _, e := range gr.extra {
					if curSig[e] == ref[m] {
						cands = append(cands, e)
					}
				}
				typeOnly := func(sig string) string {
					if i := strings.Index(sig, ":"); i >= 0 && strings.Contains(m, "|#") {
						return sig[i+1:]
					}
					return sig
				}
				byTypeOnly := false
				if len(cands) == 0 && strings.Contains(m, "|#") {
					// a renamed field that also moved inside its struct: the type alone, if that is unambiguous
					for _, e := range gr.extra {
						if strings.Contains(e, "|#") && typeOnly(curSig[e]) == typeOnly(ref[m]) {
							cands = append(cands, e)
						}
					}
					byTypeOnly = true
				}
				if len(cands) == 0 {
					continue
				}
				// the candidate must match only this missing name; otherwise the bodies decide
				n := 0
				for _, m2 := range gr.missing {
					if ref[m2] == curSig[cands[0]] || (byTypeOnly && strings.Contains(m2, "|#") && typeOnly(ref[m2]) == typeOnly(curSig[cands[0]])) {
						n++
					}
				}
				if len(cands) != 1 || n != 1 {
					if strings.Contains(m, "|#") {
						continue
					}
					best := p.bestByFingerprint(m, cands, cur, gr.missing, ref, curSig)
					if best == "" {
						continue
					}
					cands = []string{best}
				} else if !strings.Contains(m, "|#") && !p.resembles(m, cur[cands[0]]) {
					// same signature but another body: a new function that happens to fit (work moved to or from the callers), not a rename
					ri.notes = append(ri.notes, cands[0]+" has the signature of the missing "+m+" but a different body: not treated as a rename")
					continue
				}
				refName := m[strings.LastIndex(m, "|")+1:]
				if strings.HasPrefix(refName, "#") != strings.HasPrefix(cands[0][strings.LastIndex(cands[0], "|")+1:], "#") {
					continue
				}
				if strings.HasPrefix(refName, "#") {
					ri.field[fobj[cands[0]]] = refName[1:]
					ri.notes = append(ri.notes, cands[0]+" is treated as the renamed field "+m)
					continue
				}
				fn := cur[cands[0]]
				ri.canon[fn] = refName
				ri.byKey[m] = fn
				ri.qual[fn] = qualOfKey(m)
				ri.notes = append(ri.notes, cands[0]+" is treated as the renamed "+m)
			}
		}
	}
	// method <-> function conversion inside one package: (*T).m(args)  ~  m2(t *T, args)
	flat := func(k, sig string) string { // signature with the receiver as first parameter
		parts := strings.SplitN(k, "|", 3)
		if parts[1] == "" {
			return sig
		}
		rt := ModulePath
		if parts[0] != "" {
			rt += "/" + parts[0]
		}
		rt += "." + strings.TrimPrefix(parts[1], "*")
		if strings.HasPrefix(parts[1], "*") {
			rt = "*" + rt
		}
		i := strings.Index(sig, "(")
		if strings.HasPrefix(sig[i:], "()") {
			return sig[:i+1] + rt + sig[i+1:]
		}
		return sig[:i+1] + rt + ", " + sig[i+1:]
	}
	var missing, extra []string
	for k := range ref {
		if !has(k) && ri.byKey[k] == nil && !strings.Contains(k, "|#") {
			missing = append(missing, k)
		}
	}
	for k, fn := range cur {
		if _, ok := ref[k]; !ok && ri.canon[fn] == "" {
			extra = append(extra, k)
		}
	}
	sort.Strings(missing)
	sort.Strings(extra)
	for _, m := range missing {
		mp := strings.SplitN(m, "|", 3)
		var cands []string
		for _, e := range extra {
			ep := strings.SplitN(e, "|", 3)
			if ep[0] != mp[0] || (ep[1] == "") == (mp[1] == "") {
				continue // same package, and exactly one of the two is a method
			}
			if flat(e, curSig[e]) == flat(m, ref[m]) {
				cands = append(cands, e)
			}
		}
		if len(cands) != 1 {
			continue
		}
		n := 0
		for _, m2 := range missing {
			if strings.SplitN(m2, "|", 3)[0] == mp[0] && flat(m2, ref[m2]) == flat(cands[0], curSig[cands[0]]) {
				n++
			}
		}
		if n != 1 {
			continue
		}
		fn := cur[cands[0]]
		ri.canon[fn] = mp[2]
		ri.byKey[m] = fn
		ri.qual[fn] = qualOfKey(m)
		if mp[1] != "" {
			ri.conv[fn] = 1
		} else {
			ri.conv[fn] = -1
		}
		ri.notes = append(ri.notes, cands[0]+" is treated as "+m+" (method/function conversion)")
	}
	// conversion with another parameter list ( (*T).m(args) ~ m(t.field, args) ,  f(x) ~ (X).m() ): the bodies decide. Only for
	// functions of at least some size (the fingerprint of a two-line function fits too many), one candidate, one anchor.
	{
		var missing2, extra2 []string
		for k := range ref {
			if !has(k) && ri.byKey[k] == nil && !strings.Contains(k, "|#") {
				missing2 = append(missing2, k)
			}
		}
		for k, fn := range cur {
			if _, ok := ref[k]; !ok && ri.canon[fn] == "" {
				extra2 = append(extra2, k)
			}
		}
		sort.Strings(missing2)
		sort.Strings(extra2)
		fpOf := func(m string) []string {
			if p.fps == nil {
				p.fps = map[string][]string{}
				json.Unmarshal(anchorsFPJSON, &p.fps)
			}
			return p.fps[m]
		}
		for _, m := range missing2 {
			mp := strings.SplitN(m, "|", 3)
			want := fpOf(m)
			if len(want) < 3 {
				continue
			}
			var cands []string
			for _, e := range extra2 {
				ep := strings.SplitN(e, "|", 3)
				if ep[0] != mp[0] {
					continue
				}
				sim := jaccard(want, p.Fingerprint(cur[e]))
				if (ep[2] == mp[2] && sim >= 0.5) || sim >= 0.8 {
					cands = append(cands, e)
				}
			}
			if len(cands) != 1 {
				continue
			}
			// the candidate must not fit another missing anchor as well
			n := 0
			for _, m2 := range missing2 {
				if strings.SplitN(m2, "|", 3)[0] != mp[0] {
					continue
				}
				if w2 := fpOf(m2); len(w2) >= 3 {
					sim := jaccard(w2, p.Fingerprint(cur[cands[0]]))
					if (strings.SplitN(cands[0], "|", 3)[2] == strings.SplitN(m2, "|", 3)[2] && sim >= 0.5) || sim >= 0.8 {
						n++
					}
				}
			}
			if n != 1 {
				continue
			}
			fn := cur[cands[0]]
			if ri.canon[fn] != "" {
				continue
			}
			ri.canon[fn] = mp[2]
			ri.byKey[m] = fn
			ri.qual[fn] = qualOfKey(m)
			ri.notes = append(ri.notes, cands[0]+" is treated as "+m+" (same body, other parameter list)")
		}
	}
	for fn, k := range keyOf {
		if _, isRef := ref[k]; isRef && qualOfKey(k) != fn.String() {
			// unchanged method of a renamed type
			ri.qual[fn] = qualOfKey(k)
			ri.byKey[k] = fn
		}
	}
	for tn, old := range p.typeRenames() {
		ri.notes = append(ri.notes, tn.Pkg().Path()+"."+tn.Name()+" is treated as the renamed type "+old)
	}
	sort.Strings(ri.notes)
	return ri
}

// SameSignatureAsReference: the function has the parameter and result types its reference entry has (true when it has no entry).
func (p *Program) SameSignatureAsReference(fn *ssa.Function) bool {
	ri := p.renames()
	rel, recv, name, sig, ok := p.fnKey(fn)
	if !ok {
		return true
	}
	key := rel + "|" + recv + "|" + name
	if _, direct := ri.ref[key]; !direct {
		for k, g := range ri.byKey {
			if g == fn {
				key = k
			}
		}
	}
	ref, known := ri.ref[key]
	if !known {
		return true
	}
	if ri.conv[fn] != 0 {
		return false // a method that became a function or the reverse: another parameter list
	}
	return ref == sig
}

// CanonName returns the name the rules know the function under: its own name, or the reference name when the function
// was recognised as a rename.
func (p *Program) CanonName(fn *ssa.Function) string {
	if fn == nil {
		return ""
	}
	if n, ok := p.renames().canon[fn]; ok {
		return n
	}
	return fn.Name()
}

// RenameNotes lists the renames that were recognised on this run (reported in the evidence).
func (p *Program) RenameNotes() []string { return p.renames().notes }

// CanonFieldName is CanonName for struct fields.
func (p *Program) CanonFieldName(f *types.Var) string {
	if p != nil {
		if n, ok := p.renames().field[f]; ok {
			return n
		}
	}
	return f.Name()
}

// FieldByCanonName finds the field of st the rules know under name.
func (p *Program) FieldByCanonName(st *types.Struct, name string) (int, *types.Var) {
	for i := 0; i < st.NumFields(); i++ {
		if p.CanonFieldName(st.Field(i)) == name {
			return i, st.Field(i)
		}
	}
	return -1, nil
}

// qualOfKey renders a reference key "rel|recv|name" the way (*ssa.Function).String does.
func qualOfKey(k string) string {
	parts := strings.SplitN(k, "|", 3)
	pk := ModulePath
	if parts[0] != "" {
		pk += "/" + parts[0]
	}
	if parts[1] == "" {
		return pk + "." + parts[2]
	}
	if strings.HasPrefix(parts[1], "*") {
		return "(*" + pk + "." + parts[1][1:] + ")." + parts[2]
	}
	return "(" + pk + "." + parts[1] + ")." + parts[2]
}

// CanonQual is the qualified name the rules know the function under.
func (p *Program) CanonQual(fn *ssa.Function) string {
	if p != nil {
		if q, ok := p.renames().qual[fn]; ok {
			return q
		}
	}
	return fn.String()
}

// ---------------------------------------------------------------- renamed struct types

// typeRenames: a struct type of the reference that no longer exists is identified with the one new struct type of the same
// package whose fields have the same types in the same order (field names may have changed too; those are resolved by the field
// layer afterwards). Everything keyed by a type name (receivers, field keys, signatures, TypeIs) then uses the reference name.
func (p *Program) typeRenames() map[*types.TypeName]string {
	if p.typeRen != nil {
		return p.typeRen
	}
	p.typeRen = map[*types.TypeName]string{}
	ref := map[string]string{}
	if json.Unmarshal(anchorsRefJSON, &ref) != nil {
		return p.typeRen
	}
	refNamed := splitRef(ref)
	// named non-struct types: a reference type that is gone is the one new named type of the package with the same underlying type
	for _, pk := range p.Pkgs {
		if !IsLibraryPkg(pk.PkgPath) {
			continue
		}
		rel := strings.TrimPrefix(strings.TrimPrefix(pk.PkgPath, ModulePath), "/")
		sc := pk.Types.Scope()
		var missing []string
		for k := range refNamed {
			if strings.HasPrefix(k, rel+"|") && sc.Lookup(k[len(rel)+1:]) == nil {
				missing = append(missing, k)
			}
		}
		if len(missing) == 0 {
			continue
		}
		sort.Strings(missing)
		var extra []*types.TypeName
		for _, n := range sc.Names() {
			tn, ok := sc.Lookup(n).(*types.TypeName)
			if !ok || tn.IsAlias() || strings.HasSuffix(p.Fset.Position(tn.Pos()).Filename, "_test.go") {
				continue
			}
			switch tn.Type().Underlying().(type) {
			case *types.Struct, *types.Interface:
				continue
			}
			if _, known := refNamed[rel+"|"+n]; !known {
				extra = append(extra, tn)
			}
		}
		for _, m := range missing {
			var cands []*types.TypeName
			for _, e := range extra {
				if types.TypeString(e.Type().Underlying(), nil) == refNamed[m] {
					cands = append(cands, e)
				}
			}
			if len(cands) != 1 {
				continue
			}
			n := 0
			for _, m2 := range missing {
				if refNamed[m2] == refNamed[m] {
					n++
				}
			}
			if n == 1 {
				p.typeRen[cands[0]] = m[len(rel)+1:]
			}
		}
	}
	// reference structs: rel|T -> index -> type string
	refStructs := map[string]map[int]string{}
	for k, v := range ref {
		i := strings.Index(k, "|#")
		if i < 0 {
			continue
		}
		j := strings.Index(v, ":")
		idx := 0
		fmt.Sscanf(v[:j], "%d", &idx)
		if refStructs[k[:i]] == nil {
			refStructs[k[:i]] = map[int]string{}
		}
		refStructs[k[:i]][idx] = v[j+1:]
	}
	for _, pk := range p.Pkgs {
		if !IsLibraryPkg(pk.PkgPath) {
			continue
		}
		rel := strings.TrimPrefix(strings.TrimPrefix(pk.PkgPath, ModulePath), "/")
		sc := pk.Types.Scope()
		var missing []string
		for k := range refStructs {
			if strings.HasPrefix(k, rel+"|") && strings.Count(k, "|") == 1 && sc.Lookup(k[len(rel)+1:]) == nil {
				missing = append(missing, k)
			}
		}
		if len(missing) == 0 {
			continue
		}
		sort.Strings(missing)
		var extra []*types.TypeName
		for _, n := range sc.Names() {
			tn, ok := sc.Lookup(n).(*types.TypeName)
			if !ok || tn.IsAlias() || strings.HasSuffix(p.Fset.Position(tn.Pos()).Filename, "_test.go") {
				continue
			}
			if _, isS := tn.Type().Underlying().(*types.Struct); isS && refStructs[rel+"|"+n] == nil {
				extra = append(extra, tn)
			}
		}
		same := func(tn *types.TypeName, refKey string) bool {
			st := tn.Type().Underlying().(*types.Struct)
			rf := refStructs[refKey]
			if st.NumFields() != len(rf) {
				return false
			}
			oldQ := pk.PkgPath + "." + refKey[len(rel)+1:]
			newQ := pk.PkgPath + "." + tn.Name()
			for i := 0; i < st.NumFields(); i++ {
				if replaceQual(types.TypeString(st.Field(i).Type(), nil), newQ, oldQ) != rf[i] {
					return false
				}
			}
			return true
		}
		for _, m := range missing {
			var cands []*types.TypeName
			for _, e := range extra {
				if same(e, m) {
					cands = append(cands, e)
				}
			}
			if len(cands) != 1 {
				continue
			}
			n := 0
			for _, m2 := range missing {
				if same(cands[0], m2) {
					n++
				}
			}
			if n == 1 {
				p.typeRen[cands[0]] = m[len(rel)+1:]
			}
		}
	}
	return p.typeRen
}

// replaceQual replaces the qualified type name from by to where it stands as a whole identifier.
func replaceQual(s, from, to string) string {
	out := ""
	for {
		i := strings.Index(s, from)
		if i < 0 {
			return out + s
		}
		end := i + len(from)
		if end < len(s) && (s[end] == '_' || s[end] >= '0' && s[end] <= '9' || s[end] >= 'a' && s[end] <= 'z' || s[end] >= 'A' && s[end] <= 'Z') {
			out += s[:end]
			s = s[end:]
			continue
		}
		out += s[:i] + to
		s = s[end:]
	}
}

// CanonTypeName: the name the rules know a named type under.
func (p *Program) CanonTypeName(tn *types.TypeName) string {
	if p != nil {
		if n, ok := p.typeRenames()[tn]; ok {
			return n
		}
	}
	return tn.Name()
}

func (p *Program) canonTypeStr(s string) string {
	for tn, old := range p.typeRenames() {
		s = replaceQual(s, tn.Pkg().Path()+"."+tn.Name(), tn.Pkg().Path()+"."+old)
	}
	return s
}

// LookupType finds the type the rules know as name in the package rel.
func (p *Program) LookupType(rel, name string) *types.TypeName {
	pk := p.Pkg(rel)
	if pk == nil {
		return nil
	}
	if tn, ok := pk.Types.Scope().Lookup(name).(*types.TypeName); ok {
		return tn
	}
	for tn, old := range p.typeRenames() {
		if old == name && tn.Pkg() == pk.Types {
			return tn
		}
	}
	return nil
}

// RecvOf: the receiver type the rules know the function with (nil for plain functions). A reference method that became a
// function taking the receiver as first parameter still has that receiver, and the reverse.
func (p *Program) RecvOf(f *ssa.Function) types.Type {
	if f == nil {
		return nil
	}
	switch p.convOf(f) {
	case 1:
		if f.Signature.Params().Len() > 0 {
			return f.Signature.Params().At(0).Type()
		}
		return nil
	case -1:
		return nil
	}
	if r := f.Signature.Recv(); r != nil {
		return r.Type()
	}
	return nil
}

func (p *Program) convOf(f *ssa.Function) int {
	if p == nil || f == nil {
		return 0
	}
	return p.renames().conv[f]
}

// Fingerprint of a function body (see anchors_fp.json).
func (p *Program) Fingerprint(fn *ssa.Function) []string {
	set := map[string]bool{}
	var visit func(f *ssa.Function)
	visit = func(f *ssa.Function) {
		for _, b := range f.Blocks {
			for _, i := range b.Instrs {
				if c, ok := i.(ssa.CallInstruction); ok {
					cc := c.Common()
					if cc.IsInvoke() {
						set["invoke:"+cc.Method.Name()] = true
					} else if g := cc.StaticCallee(); g != nil && g.Parent() == nil {
						if InModule(g) {
							// by signature, so that renaming a helper does not change the fingerprint of its callers
							set["call:module:"+sigString(g.Signature)] = true
						} else {
							set["call:"+g.String()] = true
						}
					}
				}
				switch x := i.(type) {
				case *ssa.FieldAddr:
					set["field:"+p.fieldNameFP(x.X.Type(), x.Field)] = true
				case *ssa.Field:
					set["field:"+p.fieldNameFP(x.X.Type(), x.Field)] = true
				}
				for _, op := range i.Operands(nil) {
					if k, ok := (*op).(*ssa.Const); ok && k.Value != nil {
						s := k.Value.ExactString()
						if len(s) > 1 {
							set["const:"+s] = true
						}
					}
				}
			}
		}
		for _, a := range f.AnonFuncs {
			visit(a)
		}
	}
	visit(fn)
	var out []string
	for k := range set {
		out = append(out, k)
	}
	sort.Strings(out)
	return out
}

// FieldNameRaw: "T.field" with the names as written in the analysed tree.
func FieldNameRaw(t types.Type, idx int) string {
	if pt, ok := t.Underlying().(*types.Pointer); ok {
		t = pt.Elem()
	}
	st, ok := t.Underlying().(*types.Struct)
	if !ok || idx >= st.NumFields() {
		return "?"
	}
	n := ""
	if nt, ok := t.(*types.Named); ok {
		n = nt.Obj().Name()
	}
	return n + "." + st.Field(idx).Name()
}

// FingerprintsOf: reference key -> fingerprint (used to regenerate anchors_fp.json).
func (p *Program) FingerprintsOf() map[string][]string {
	out := map[string][]string{}
	for _, fn := range p.rawModuleFuncs() {
		if strings.HasSuffix(p.Fset.Position(fn.Pos()).Filename, "_test.go") {
			continue
		}
		if rel, recv, name, _, ok := p.fnKey(fn); ok {
			out[rel+"|"+recv+"|"+name] = p.Fingerprint(fn)
		}
	}
	return out
}

func jaccard(a, b []string) float64 {
	if len(a) == 0 && len(b) == 0 {
		return 1
	}
	in := map[string]bool{}
	for _, x := range a {
		in[x] = true
	}
	n := 0
	for _, x := range b {
		if in[x] {
			n++
		}
	}
	return float64(n) / float64(len(a)+len(b)-n)
}

// bestByFingerprint resolves a tie between several renamed functions of one signature: the candidate whose body resembles the
// reference body of m most, provided it resembles no other missing reference function more and the resemblance is clear.
func (p *Program) bestByFingerprint(m string, cands []string, cur map[string]*ssa.Function, missing []string, ref, curSig map[string]string) string {
	fps := map[string][]string{}
	if json.Unmarshal(anchorsFPJSON, &fps) != nil {
		return ""
	}
	want, ok := fps[m]
	if !ok {
		return ""
	}
	best, bestScore, second := "", -1.0, -1.0
	for _, c := range cands {
		s := jaccard(want, p.Fingerprint(cur[c]))
		if s > bestScore {
			best, second, bestScore = c, bestScore, s
		} else if s > second {
			second = s
		}
	}
	if bestScore < 0.5 || bestScore-second < 0.15 {
		return ""
	}
	// no other missing function of that signature is a better match for the chosen candidate
	got := p.Fingerprint(cur[best])
	for _, m2 := range missing {
		if m2 != m && ref[m2] == curSig[best] {
			if jaccard(fps[m2], got) >= bestScore {
				return ""
			}
		}
	}
	return best
}

// resembles: the body of fn is (nearly) the reference body of key m. Functions with fewer than three fingerprint tokens are too small
// to tell and are accepted.
func (p *Program) resembles(m string, fn *ssa.Function) bool {
	if p.fps == nil {
		p.fps = map[string][]string{}
		json.Unmarshal(anchorsFPJSON, &p.fps)
	}
	want, ok := p.fps[m]
	if !ok || len(want) < 3 {
		return true
	}
	return jaccard(want, p.Fingerprint(fn)) >= 0.7
}

// fieldNameFP: "T.field" for fingerprints, with the reference names of renamed types and fields (as far as they are known when the
// fingerprint is taken: fields are resolved before functions).
func (p *Program) fieldNameFP(t types.Type, idx int) string {
	if pt, ok := t.Underlying().(*types.Pointer); ok {
		t = pt.Elem()
	}
	st, ok := t.Underlying().(*types.Struct)
	if !ok || idx >= st.NumFields() {
		return "?"
	}
	n := ""
	if nt, ok := t.(*types.Named); ok {
		n = p.CanonTypeName(nt.Obj())
	}
	f := st.Field(idx).Name()
	if p.ren != nil {
		if c, ok := p.ren.field[st.Field(idx)]; ok {
			f = c
		}
	}
	return n + "." + f
}

// hcsa — static checker for the C01..C20 properties of brutella/hc.
//
//	hcsa check <Cxx|all> [-tier quick|thorough] [-repo /repo] [-verif /verif]
//	hcsa list
package main

import (
	"encoding/json"
	"flag"
	"fmt"
	"os"
	"path/filepath"
	"strconv"
	"strings"
	"time"

	"hcsa/core"
	"hcsa/rules"
)

func main() {
	if len(os.Args) < 2 {
		usage()
	}
	switch os.Args[1] {
	case "list":
		for _, p := range rules.All() {
			fmt.Printf("%s (%s)\n", p.ID, p.Level)
			for _, r := range p.Rules {
				fmt.Printf("  %s floor=%d  %s\n", r.ID, r.Floor, r.Title)
			}
		}
	case "check":
		os.Exit(check(os.Args[2:]))
	case "mutate":
		os.Exit(mutate(os.Args[2:]))
	case "anchors":
		// regenerate core/anchors_ref.json from the tree: hcsa anchors [repo] > core/anchors_ref.json
		repo := "/repo"
		if len(os.Args) > 2 {
			repo = os.Args[2]
		}
		prog, err := core.Load(core.Config{Dir: repo})
		if err != nil {
			fmt.Fprintln(os.Stderr, err)
			os.Exit(2)
		}
		// helpers of the reference tree that stay "unknown" on purpose: the normaliser then inlines them into their callers like any
		// helper a later change introduces, and the rules see the code where it takes effect
		inlineAlways := []string{"hap|*Connection|decryptFrame"}
		if len(os.Args) > 3 && os.Args[3] == "fp" {
			fp := prog.FingerprintsOf()
			for _, k := range inlineAlways {
				delete(fp, k)
			}
			b, _ := json.Marshal(fp)
			os.Stdout.Write(b)
			return
		}
		an := prog.AnchorsOf()
		for _, k := range inlineAlways {
			delete(an, k)
		}
		b, _ := json.MarshalIndent(an, "", " ")
		os.Stdout.Write(b)
	case "norm":
		// debug: hcsa norm <repo> <outdir>: what the helper-inlining pass does to the tree
		prog, err := core.LoadNormalized(core.Config{Dir: os.Args[2]})
		if err != nil {
			fmt.Println(err)
			os.Exit(2)
		}
		for _, n := range prog.NormNotes {
			fmt.Println(n)
		}
		for _, n := range prog.RenameNotes() {
			fmt.Println(n)
		}
		if len(os.Args) > 3 {
			os.MkdirAll(os.Args[3], 0755)
			for k, v := range prog.Cfg.Overlay {
				os.WriteFile(filepath.Join(os.Args[3], strings.ReplaceAll(strings.TrimPrefix(k, os.Args[2]+"/"), "/", "__")), v, 0644)
			}
		}
	case "ssa":
		// debug: hcsa ssa <pkg-rel> <func> [repo]
		repo := "/repo"
		if len(os.Args) > 4 {
			repo = os.Args[4]
		}
		prog, err := core.LoadNormalized(core.Config{Dir: repo})
		if err != nil {
			fmt.Println(err)
			os.Exit(2)
		}
		f := prog.Func(os.Args[2], os.Args[3])
		if f == nil {
			fmt.Println("not found")
			os.Exit(2)
		}
		f.WriteTo(os.Stdout)
		for _, a := range f.AnonFuncs {
			a.WriteTo(os.Stdout)
		}
	default:
		usage()
	}
}

func usage() {
	fmt.Fprintln(os.Stderr, "usage: hcsa check <Cxx|all> [-tier quick|thorough] [-repo DIR] [-verif DIR] | hcsa list | hcsa mutate ...")
	os.Exit(2)
}

func check(args []string) int {
	if len(args) < 1 {
		usage()
	}
	id := args[0]
	fs := flag.NewFlagSet("check", flag.ExitOnError)
	tier := fs.String("tier", envOr("VERIF_TIER", "quick"), "quick|thorough")
	repo := fs.String("repo", "/repo", "repository root")
	verif := fs.String("verif", defaultVerif(), "verif directory (known findings, evidence)")
	noEvidence := fs.Bool("no-evidence", false, "do not write evidence (used by variant sub-processes)")
	overlay := fs.String("overlay", "", "orig=replacement: analyse with the file orig replaced by the contents of replacement (variant runs)")
	fs.Parse(args[1:])
	var ov map[string][]byte
	if *overlay != "" {
		kv := strings.SplitN(*overlay, "=", 2)
		b, err := os.ReadFile(kv[1])
		if err != nil {
			fmt.Println("load failed: overlay unreadable")
			return 2
		}
		ov = map[string][]byte{kv[0]: b}
	}
	if *tier != "quick" && *tier != "thorough" {
		*tier = "quick"
	}
	seed, _ := strconv.Atoi(os.Getenv("VERIF_SEED"))

	var props []*core.Property
	for _, p := range rules.All() {
		if id == "all" || p.ID == id {
			props = append(props, p)
		}
	}
	if len(props) == 0 {
		fmt.Printf("UNDECIDED property=%s reason=no such property in the checker\n", id)
		return 2
	}

	cfgs := []core.Config{{Dir: *repo, Overlay: ov}}
	if *tier == "thorough" {
		cfgs = append(cfgs, core.Config{Dir: *repo, GOARCH: "386"})
	}
	results := map[string]*core.Result{}
	starts := time.Now()
	for _, p := range props {
		results[p.ID] = &core.Result{Prop: p, Counters: map[string]int{}, Extra: map[string]interface{}{}}
	}
	for _, cfg := range cfgs {
		prog, err := core.LoadNormalized(cfg)
		if err != nil {
			for _, p := range props {
				fmt.Printf("UNDECIDED property=%s reason=load failed (%s): %v\n", p.ID, cfg, err)
				f := filepath.Join(*verif, "evidence", p.ID+".violations")
				os.MkdirAll(f, 0755)
				rp := filepath.Join(f, "load-error.json")
				os.WriteFile(rp, []byte(fmt.Sprintf("{\"error\":%q}", err.Error())), 0644)
				fmt.Printf("VIOLATION property=%s replay=%s\n", p.ID, rp)
			}
			return 1
		}
		for _, p := range props {
			t0 := time.Now()
			res := results[p.ID]
			res.Counters["packages"] = len(prog.Pkgs)
			core.RunProperty(prog, p, *tier, res)
			res.Wall += time.Since(t0)
		}
	}
	exit := 0
	for _, p := range props {
		res := results[p.ID]
		if len(props) == 1 {
			res.Wall = time.Since(starts)
		}
		if *noEvidence {
			// variant mode: print obligations that are violated, machine-readable
			known, _ := core.LoadKnown(filepath.Join(*verif, "known_findings.json"))
			for _, o := range res.Obs {
				isKnown := false
				for _, kf := range known {
					if kf.Status == "known" && kf.Property == p.ID && kf.Rule == o.Rule && kf.Key == o.Key {
						isKnown = true
					}
				}
				if isKnown {
					continue
				}
				if o.Verdict == core.Violated || o.Verdict == core.Undecided {
					fmt.Printf("VARIANT-REPORT %s\t%s\t%s\t%s\n", o.Verdict, o.Rule, o.Key, o.Pos)
				}
			}
			continue
		}
		if e := core.Finish(res, *verif, *tier, seed); e > exit {
			exit = e
		}
	}
	return exit
}

func envOr(k, d string) string {
	if v := os.Getenv(k); v != "" {
		return v
	}
	return d
}

func defaultVerif() string {
	if v := os.Getenv("HCSA_VERIF"); v != "" {
		return v
	}
	exe, err := os.Executable()
	if err == nil {
		d := filepath.Dir(filepath.Dir(exe))
		if _, err := os.Stat(filepath.Join(d, "properties.jsonl")); err == nil {
			return d
		}
	}
	wd, _ := os.Getwd()
	if strings.HasSuffix(wd, "/hcsa") {
		return filepath.Dir(wd)
	}
	return wd
}

package tlv8_test

// hunt3 / C17 demonstrations: "Marshalling a tagged struct and unmarshalling the
// result returns an equal value for every supported field kind ... Unmarshalling
// arbitrary bytes returns a value or an error without panicking."
//
// Every test uses the exported API only (tlv8.Marshal / tlv8.Unmarshal) and fails on
// the unmodified library.

import (
	"bytes"
	"fmt"
	"reflect"
	"testing"

	"github.com/brutella/hc/rtp"
	"github.com/brutella/hc/tlv8"
)

// ---------------------------------------------------------------------------
// a positional reference decoder for ONE level of TLV8: it returns the items in
// wire order (fragments of 255 bytes merged into the value they continue) and
// marks the {0x00,0x00} delimiters. This is what a peer sees.
// ---------------------------------------------------------------------------

type h3Item struct {
	delim bool
	tag   byte
	val   []byte
}

func refParse(b []byte) []h3Item {
	var out []h3Item
	lastFull := false // the item before was a 255 byte fragment
	for len(b) >= 2 {
		tag, n := b[0], int(b[1])
		val := b[2 : 2+n]
		b = b[2+n:]
		if tag == 0 && n == 0 {
			out = append(out, h3Item{delim: true})
			lastFull = false
			continue
		}
		if lastFull && len(out) > 0 && !out[len(out)-1].delim && out[len(out)-1].tag == tag {
			out[len(out)-1].val = append(out[len(out)-1].val, val...)
		} else {
			out = append(out, h3Item{tag: tag, val: append([]byte(nil), val...)})
		}
		lastFull = n == 255
	}
	return out
}

// ---------------------------------------------------------------------------
// 1. round trip, inline list of two-field elements, one field at its extreme
//    value "empty": the value of a later element moves into an earlier one.
// ---------------------------------------------------------------------------

type h3KV struct {
	Key   uint8  `tlv8:"1"`
	Value []byte `tlv8:"2"`
}

type h3KVList struct {
	Items []h3KV `tlv8:"-"`
}

func TestHunt3C17_InlineListEmptyFieldShiftsValues(t *testing.T) {
	in := h3KVList{Items: []h3KV{
		{Key: 1, Value: nil},
		{Key: 2, Value: []byte{9}},
	}}

	b, err := tlv8.Marshal(in)
	if err != nil {
		t.Fatal(err)
	}

	// the wire is unambiguous: a peer that reads the items in order sees
	// element 0 = {1:01}, delimiter, element 1 = {1:02, 2:09}
	want := []byte{1, 1, 1, 0, 0, 1, 1, 2, 2, 1, 9}
	if !bytes.Equal(b, want) {
		t.Fatalf("wire: is=%x want=%x", b, want)
	}
	items := refParse(b)
	if len(items) != 4 || !items[1].delim || items[3].tag != 2 {
		t.Fatalf("reference peer sees %+v", items)
	}

	var out h3KVList
	if err := tlv8.Unmarshal(b, &out); err != nil {
		t.Fatal(err)
	}
	if len(out.Items) != 2 {
		t.Fatalf("len is=%d want=2 (%+v)", len(out.Items), out)
	}
	if len(out.Items[0].Value) != 0 || !bytes.Equal(out.Items[1].Value, []byte{9}) {
		t.Fatalf("round trip: in=%+v out=%+v (the value of element 1 was given to element 0)", in, out)
	}
}

// the same with a string and three elements: everything behind the empty one moves up
type h3Named struct {
	Id   uint16 `tlv8:"1"`
	Name string `tlv8:"2"`
}

type h3NamedList struct {
	Items []h3Named `tlv8:"-"`
}

func TestHunt3C17_InlineListEmptyStringShiftsValues(t *testing.T) {
	in := h3NamedList{Items: []h3Named{{1, "a"}, {2, ""}, {3, "c"}}}
	b, err := tlv8.Marshal(in)
	if err != nil {
		t.Fatal(err)
	}
	var out h3NamedList
	if err := tlv8.Unmarshal(b, &out); err != nil {
		t.Fatal(err)
	}
	if !reflect.DeepEqual(in, out) {
		t.Fatalf("round trip:\n in =%+v\n out=%+v\n wire=%x", in, out, b)
	}
}

// ---------------------------------------------------------------------------
// 2. round trip, tagged list whose elements have an empty payload (a struct of
//    a string at its extreme value ""): the elements disappear.
// ---------------------------------------------------------------------------

type h3Label struct {
	Text string `tlv8:"1"`
}

type h3Labels struct {
	Labels []h3Label `tlv8:"7"`
	Count  uint8     `tlv8:"8"`
}

func TestHunt3C17_TaggedListLosesEmptyElements(t *testing.T) {
	in := h3Labels{Labels: []h3Label{{""}, {"x"}, {""}}, Count: 3}
	b, err := tlv8.Marshal(in)
	if err != nil {
		t.Fatal(err)
	}
	var out h3Labels
	if err := tlv8.Unmarshal(b, &out); err != nil {
		t.Fatal(err)
	}
	if len(out.Labels) != len(in.Labels) {
		t.Fatalf("round trip: %d labels went in, %d came out (%+v), wire=%x", len(in.Labels), len(out.Labels), out, b)
	}
}

// ---------------------------------------------------------------------------
// 3. Marshal panics for a nested struct held by pointer (the kind the library's
//    own test type `user` uses) at its extreme value nil.
// ---------------------------------------------------------------------------

type h3Password struct {
	Plaintext string `tlv8:"4"`
	Hash      byte   `tlv8:"5"`
}

type h3User struct {
	Name string      `tlv8:"1"`
	Pwd  *h3Password `tlv8:"3"`
	Id   uint16      `tlv8:"5"`
}

func TestHunt3C17_MarshalNilNestedPointerPanics(t *testing.T) {
	in := h3User{Name: "Matthias", Pwd: nil, Id: 400}

	var b []byte
	var err error
	func() {
		defer func() {
			if p := recover(); p != nil {
				t.Fatalf("Marshal(%+v) panicked: %v", in, p)
			}
		}()
		b, err = tlv8.Marshal(in)
	}()
	if err != nil {
		t.Fatal(err)
	}
	var out h3User
	if err := tlv8.Unmarshal(b, &out); err != nil {
		t.Fatal(err)
	}
	if !reflect.DeepEqual(in, out) {
		t.Fatalf("round trip: in=%+v out=%+v", in, out)
	}
}

// ---------------------------------------------------------------------------
// 4. a list of pointers to structs is marshalled (encoder.go dereferences the
//    elements), but Unmarshal of those very bytes panics: tagged and inline.
// ---------------------------------------------------------------------------

type h3PtrTagged struct {
	Elements []*h3Label `tlv8:"2"`
}

type h3PtrInline struct {
	Elements []*h3Label `tlv8:"-"`
}

func TestHunt3C17_UnmarshalListOfPointersPanics(t *testing.T) {
	check := func(name string, in interface{}, out interface{}) {
		b, err := tlv8.Marshal(in)
		if err != nil {
			t.Fatalf("%s: %v", name, err)
		}
		func() {
			defer func() {
				if p := recover(); p != nil {
					t.Errorf("%s: Unmarshal(%x) panicked: %v", name, b, p)
				}
			}()
			if err := tlv8.Unmarshal(b, out); err != nil {
				return // an error would be acceptable
			}
			if !reflect.DeepEqual(in, reflect.ValueOf(out).Elem().Interface()) {
				t.Errorf("%s: round trip in=%+v out=%+v", name, in, out)
			}
		}()
	}
	check("tagged", h3PtrTagged{[]*h3Label{{"a"}, {"b"}}}, &h3PtrTagged{})
	check("inline", h3PtrInline{[]*h3Label{{"a"}, {"b"}}}, &h3PtrInline{})
}

// ---------------------------------------------------------------------------
// 5. round trip, a tagged list inside the elements of an inline list: the first
//    element swallows the list items of all later elements. No empty values.
// ---------------------------------------------------------------------------

type h3Group struct {
	Id      uint8     `tlv8:"1"`
	Members []h3Label `tlv8:"2"`
}

type h3Groups struct {
	Groups []h3Group `tlv8:"-"`
}

func TestHunt3C17_TaggedListInsideInlineElement(t *testing.T) {
	in := h3Groups{Groups: []h3Group{
		{1, []h3Label{{"a"}, {"b"}}},
		{2, []h3Label{{"c"}}},
	}}
	b, err := tlv8.Marshal(in)
	if err != nil {
		t.Fatal(err)
	}
	var out h3Groups
	if err := tlv8.Unmarshal(b, &out); err != nil {
		t.Fatal(err)
	}
	if !reflect.DeepEqual(in, out) {
		t.Fatalf("round trip:\n in =%+v\n out=%+v\n wire=%x", in, out, b)
	}
}

// ---------------------------------------------------------------------------
// 6. an 8-bit signed integer: the statement lists 8/16/32/64-bit integers and the
//    library has signed and unsigned 16/32/64; int8 makes Marshal panic (no error).
// ---------------------------------------------------------------------------

type h3Int8 struct {
	V int8 `tlv8:"1"`
}

func TestHunt3C17_Int8Panics(t *testing.T) {
	defer func() {
		if p := recover(); p != nil {
			t.Fatalf("Marshal(int8 field) panicked: %v", p)
		}
	}()
	b, err := tlv8.Marshal(h3Int8{-128})
	if err != nil {
		return // an UnexpectedTypeError would be a clean refusal
	}
	var out h3Int8
	if err := tlv8.Unmarshal(b, &out); err != nil || out.V != -128 {
		t.Fatalf("round trip: %v %+v", err, out)
	}
}

// ---------------------------------------------------------------------------
// 7. wire encoding of the selected stream configuration: HAP R2 (tables "Video RTP
//    parameters" / "Audio RTP parameters", same numbers in HAP-NodeJS
//    VideoRTPParametersTypes.MAX_MTU = 5, AudioRTPParametersTypes.
//    COMFORT_NOISE_PAYLOAD_TYPE = 6) give the MTU the type 5 and the comfort
//    noise payload type the type 6. rtp.RTPParams has them the other way round.
//    (The table is quoted from memory: no copy of the specification is available
//    offline.)
// ---------------------------------------------------------------------------

func TestHunt3C17_RTPParamsMTUAndComfortNoiseTags(t *testing.T) {
	// what a controller writes for the video part: payload type 99, ssrc 1,
	// 299 kbit/s, RTCP 0.5 s, MTU 1378 (type 5, two bytes)
	peer := []byte{
		1, 1, 99,
		2, 4, 1, 0, 0, 0,
		3, 2, 0x2b, 0x01,
		4, 4, 0, 0, 0, 0x3f,
		5, 2, 0x62, 0x05,
	}
	var p rtp.RTPParams
	if err := tlv8.Unmarshal(peer, &p); err != nil {
		t.Fatal(err)
	}
	if p.MTU != 1378 || p.ComfortNoisePayloadType != 0 {
		t.Errorf("video RTP parameters with MTU 1378 decoded as MTU=%d ComfortNoisePayloadType=%d", p.MTU, p.ComfortNoisePayloadType)
	}

	b, err := tlv8.Marshal(rtp.RTPParams{PayloadType: 99, Ssrc: 1, Bitrate: 299, Interval: 0.5, MTU: 1378})
	if err != nil {
		t.Fatal(err)
	}
	var mtu []byte
	for _, it := range refParse(b) {
		if it.tag == 5 {
			mtu = it.val
		}
	}
	if !bytes.Equal(mtu, []byte{0x62, 0x05}) {
		t.Errorf("Marshal: item of type 5 (max MTU) is %x, want 6205; wire=%x", mtu, b)
	}
}

var _ = fmt.Sprint

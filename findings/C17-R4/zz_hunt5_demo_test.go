package tlv8

import (
	"bytes"
	"reflect"
	"testing"
)

// ---------------------------------------------------------------------------
// Demonstration 1 (clause: "Marshalling a tagged struct and unmarshalling the
// result returns an equal value for every supported field kind ... nested
// structs"): a nested struct held by pointer is a field kind the library
// supports (its own tests use `Pwd *password` and `Ptr *Attribute`, the decoder
// has a branch for reflect.Ptr and leaves the pointer nil when the item is
// absent).  The zero value of that kind, a nil pointer, makes Marshal panic
// instead of writing no item.
// ---------------------------------------------------------------------------

type d1Attr struct {
	Id uint8 `tlv8:"1"`
}

type d1Obj struct {
	Byte uint8   `tlv8:"5"`
	Ptr  *d1Attr `tlv8:"1"`
}

func TestHunt5NilNestedPointerMarshalPanics(t *testing.T) {
	defer func() {
		if e := recover(); e != nil {
			t.Fatalf("Marshal panicked on a nil nested struct pointer: %v", e)
		}
	}()

	in := d1Obj{Byte: 7} // Ptr is nil: "no nested value"
	b, err := Marshal(in)
	if err != nil {
		t.Fatalf("Marshal: %v", err)
	}
	if want := []byte{5, 1, 7}; !bytes.Equal(b, want) {
		t.Fatalf("bytes %x want %x", b, want)
	}
	var out d1Obj
	if err := Unmarshal(b, &out); err != nil {
		t.Fatal(err)
	}
	if !reflect.DeepEqual(in, out) {
		t.Fatalf("in %+v out %+v", in, out)
	}
}

// The library's own test type (marshal_test.go: user) with the optional
// password left out.
func TestHunt5NilNestedPointerMarshalPanicsOwnType(t *testing.T) {
	defer func() {
		if e := recover(); e != nil {
			t.Fatalf("Marshal(user without password) panicked: %v", e)
		}
	}()
	in := user{Name: "Matthias", Type: 4, Enabled: true, Id: 400, Uid: 40100}
	b, err := Marshal(in)
	if err != nil {
		t.Fatal(err)
	}
	var out user
	if err := Unmarshal(b, &out); err != nil {
		t.Fatal(err)
	}
	if !reflect.DeepEqual(in, out) {
		t.Fatalf("in %+v out %+v", in, out)
	}
}

// ---------------------------------------------------------------------------
// Demonstration 2 (clauses: "Unmarshalling arbitrary bytes returns a value or
// an error without panicking" and the round trip for tagged lists): a tagged
// list whose elements are held by pointer.  Marshal accepts it (interfaceOf
// dereferences every element) and produces the same bytes as for a list of
// values, but Unmarshal panics on every input that contains one item with the
// tag of the list: decode() is handed a **T and calls NumField on a pointer.
// ---------------------------------------------------------------------------

type d2List struct {
	A  uint8     `tlv8:"1"`
	Ps []*d1Attr `tlv8:"2"`
}

type d2ListV struct {
	A  uint8    `tlv8:"1"`
	Ps []d1Attr `tlv8:"2"`
}

func TestHunt5PointerListUnmarshalPanics(t *testing.T) {
	in := d2List{A: 1, Ps: []*d1Attr{{Id: 2}, {Id: 3}}}
	b, err := Marshal(in)
	if err != nil {
		t.Fatal(err)
	}
	// same wire form as the list of values
	ref, _ := Marshal(d2ListV{A: 1, Ps: []d1Attr{{Id: 2}, {Id: 3}}})
	if !bytes.Equal(b, ref) {
		t.Fatalf("bytes %x, list of values gives %x", b, ref)
	}

	defer func() {
		if e := recover(); e != nil {
			t.Fatalf("Unmarshal panicked: %v", e)
		}
	}()
	var out d2List
	if err := Unmarshal(b, &out); err != nil {
		t.Fatal(err)
	}
	if !reflect.DeepEqual(in, out) {
		t.Fatalf("in %+v out %+v", in, out)
	}
}

func TestHunt5PointerListUnmarshalPanicsAnyBytes(t *testing.T) {
	defer func() {
		if e := recover(); e != nil {
			t.Fatalf("Unmarshal panicked on 5 bytes from the peer: %v", e)
		}
	}()
	var out d2List
	_ = Unmarshal([]byte{2, 3, 1, 1, 9}, &out) // value or error, never a panic
}

// ---------------------------------------------------------------------------
// Demonstration 3 (clause: round trip for inline lists of nested structs /
// lists): the elements of an inline list are {id, list of sub-items, width}.
// An EMPTY list has no item on the wire (that is the specified encoding, not
// a zero-length item), so the first element is  29 01 1c | 2e 02 08 00  and
// the second, after the 00 00 delimiter, 29 01 5f | 2d 04 02 02 00 00 | 2e 02 08 00.
// Marshal writes exactly that.  Unmarshal gives the sub-item of the SECOND
// element to the FIRST: the reader files items by tag only and forgets which
// side of the delimiter they were on.
// ---------------------------------------------------------------------------

type d3Sub struct {
	Y uint16 `tlv8:"2"`
}

type d3El struct {
	ID   uint8   `tlv8:"41"`
	Subs []d3Sub `tlv8:"45"`
	W    uint16  `tlv8:"46"`
}

type d3Msg struct {
	Head uint8  `tlv8:"1"`
	Els  []d3El `tlv8:"-"`
}

func TestHunt5InlineElementBoundaryLost(t *testing.T) {
	in := d3Msg{Head: 0, Els: []d3El{
		{ID: 28, Subs: nil, W: 8},
		{ID: 95, Subs: []d3Sub{{Y: 0}}, W: 8},
	}}
	b, err := Marshal(in)
	if err != nil {
		t.Fatal(err)
	}
	want := []byte{
		0x01, 0x01, 0x00,
		0x29, 0x01, 0x1c, 0x2e, 0x02, 0x08, 0x00,
		0x00, 0x00,
		0x29, 0x01, 0x5f, 0x2d, 0x04, 0x02, 0x02, 0x00, 0x00, 0x2e, 0x02, 0x08, 0x00,
	}
	if !bytes.Equal(b, want) {
		t.Fatalf("bytes %x want %x", b, want)
	}

	var out d3Msg
	if err := Unmarshal(b, &out); err != nil {
		t.Fatal(err)
	}
	if len(out.Els) != 2 {
		t.Fatalf("elements: %+v", out.Els)
	}
	if n := len(out.Els[0].Subs); n != 0 {
		t.Errorf("element 0 (id %d) was sent without sub-items, decoded with %d: %+v", out.Els[0].ID, n, out.Els[0].Subs)
	}
	if n := len(out.Els[1].Subs); n != 1 {
		t.Errorf("element 1 (id %d) was sent with one sub-item, decoded with %d", out.Els[1].ID, n)
	}
}

// Same loss with an optional nested struct (here: a struct of inline lists
// that is empty for the first element).
type d3Opt struct {
	Xs []d1Attr `tlv8:"-"`
}

type d3El2 struct {
	ID  uint8 `tlv8:"41"`
	Opt d3Opt `tlv8:"45"`
}

type d3Msg2 struct {
	Els []d3El2 `tlv8:"-"`
}

func TestHunt5InlineElementBoundaryLostNestedStruct(t *testing.T) {
	in := d3Msg2{Els: []d3El2{
		{ID: 1},
		{ID: 2, Opt: d3Opt{Xs: []d1Attr{{Id: 9}}}},
	}}
	b, err := Marshal(in)
	if err != nil {
		t.Fatal(err)
	}
	want := []byte{0x29, 1, 1, 0, 0, 0x29, 1, 2, 0x2d, 3, 1, 1, 9}
	if !bytes.Equal(b, want) {
		t.Fatalf("bytes %x want %x", b, want)
	}
	var out d3Msg2
	if err := Unmarshal(b, &out); err != nil {
		t.Fatal(err)
	}
	if len(out.Els) != 2 || len(out.Els[0].Opt.Xs) != 0 || len(out.Els[1].Opt.Xs) != 1 {
		t.Fatalf("in %+v out %+v", in, out)
	}
}

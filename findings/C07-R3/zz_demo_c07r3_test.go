package hap

import (
	"bytes"
	"testing"
	"time"
)

// C07-R3 (known finding): a full 1024-byte frame followed by an idle period (read time-out) loses the frame's plaintext.
func TestDemoC07R3FullFrameThenTimeout(t *testing.T) {
	conn, peer, cli := demoConn(t)
	first := bytes.Repeat([]byte("A"), 1024)
	go peer.Write(seal(t, cli, first))
	buf := make([]byte, 4096)
	conn.SetReadDeadline(time.Now().Add(200 * time.Millisecond))
	n, err := conn.Read(buf)
	t.Logf("first read: n=%d err=%v", n, err)
	got := append([]byte{}, buf[:n]...)
	go peer.Write(seal(t, cli, []byte("hello")))
	conn.SetReadDeadline(time.Now().Add(500 * time.Millisecond))
	for len(got) < 1029 {
		n, err = conn.Read(buf)
		got = append(got, buf[:n]...)
		if err != nil {
			t.Logf("read: n=%d err=%v", n, err)
			break
		}
	}
	want := append(first, []byte("hello")...)
	if !bytes.Equal(got, want) {
		t.Errorf("delivered %d bytes (%q...), want %d bytes: the 1024-byte frame was dropped after the time-out", len(got), got[:minInt(len(got), 8)], len(want))
	}
}

func minInt(a, b int) int {
	if a < b {
		return a
	}
	return b
}

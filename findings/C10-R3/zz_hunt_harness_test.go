package hc

// Throw-away harness for the C10 hunt: a started ip transport on an OS chosen port and
// reference controllers which do a real pair-verify and speak the encrypted HAP session.

import (
	"bufio"
	"bytes"
	"encoding/binary"
	"encoding/json"
	"fmt"
	"io"
	"io/ioutil"
	"net"
	"net/http/httputil"
	"os"
	"strconv"
	"strings"
	"sync"
	"sync/atomic"
	"testing"
	"time"

	"github.com/brutella/hc/accessory"
	"github.com/brutella/hc/crypto"
	"github.com/brutella/hc/crypto/chacha20poly1305"
	"github.com/brutella/hc/crypto/curve25519"
	"github.com/brutella/hc/crypto/hkdf"
	"github.com/brutella/hc/db"
	"github.com/brutella/hc/hap/pair"
	"github.com/brutella/hc/util"
)

type huntMsg struct {
	event  bool
	status string
	body   string
	err    error
}

type huntEvent struct {
	Characteristics []struct {
		AID   uint64      `json:"aid"`
		IID   uint64      `json:"iid"`
		Value interface{} `json:"value"`
	} `json:"characteristics"`
}

func (m huntMsg) String() string {
	if m.err != nil {
		return "ERR " + m.err.Error()
	}
	k := "RESP"
	if m.event {
		k = "EVENT"
	}
	return fmt.Sprintf("%s[%s] %s", k, m.status, strings.TrimSpace(m.body))
}

type huntTransport struct {
	t    *ipTransport
	port string
	dir  string
}

func huntStart(tb testing.TB, a *accessory.Accessory, as ...*accessory.Accessory) *huntTransport {
	dir, err := ioutil.TempDir("", "huntC10")
	if err != nil {
		tb.Fatal(err)
	}
	tr, err := NewIPTransport(Config{StoragePath: dir}, a, as...)
	if err != nil {
		tb.Fatal(err)
	}
	go tr.Start()
	var port string
	for i := 0; i < 200; i++ {
		time.Sleep(10 * time.Millisecond)
		if tr.server != nil {
			port = tr.server.Port()
			break
		}
	}
	if port == "" {
		tb.Fatal("server did not start")
	}
	h := &huntTransport{t: tr, port: port, dir: dir}
	tb.Cleanup(func() {
		select {
		case <-tr.Stop():
		case <-time.After(3 * time.Second):
		}
		os.RemoveAll(dir)
	})
	return h
}

// frameReader decrypts the frames of a session one by one
type frameReader struct {
	r     io.Reader
	key   [32]byte
	count uint64
	buf   bytes.Buffer
}

func (f *frameReader) Read(p []byte) (int, error) {
	for f.buf.Len() == 0 {
		var l [2]byte
		if _, err := io.ReadFull(f.r, l[:]); err != nil {
			return 0, err
		}
		n := binary.LittleEndian.Uint16(l[:])
		b := make([]byte, n)
		if _, err := io.ReadFull(f.r, b); err != nil {
			return 0, err
		}
		var mac [16]byte
		if _, err := io.ReadFull(f.r, mac[:]); err != nil {
			return 0, err
		}
		var nonce [8]byte
		binary.LittleEndian.PutUint64(nonce[:], f.count)
		f.count++
		dec, err := chacha20poly1305.DecryptAndVerify(f.key[:], nonce[:], b, mac, l[:])
		if err != nil {
			return 0, fmt.Errorf("frame %d does not authenticate: %v", f.count-1, err)
		}
		f.buf.Write(dec)
	}
	return f.buf.Read(p)
}

type huntCtl struct {
	name string
	conn net.Conn
	enc  crypto.Cryptographer
	msgs chan huntMsg
	wmu  sync.Mutex

	pending []huntMsg // events seen while waiting for a response

	stalled int32
	rawmu   sync.Mutex
	raw     bytes.Buffer // every decrypted byte received on the session
}

type huntTee struct {
	r io.Reader
	c *huntCtl
}

func (c *huntCtl) stall() { atomic.StoreInt32(&c.stalled, 1) }

func (t huntTee) Read(p []byte) (int, error) {
	if atomic.LoadInt32(&t.c.stalled) == 1 {
		select {}
	}
	n, err := t.r.Read(p)
	t.c.rawmu.Lock()
	t.c.raw.Write(p[:n])
	t.c.rawmu.Unlock()
	return n, err
}

// around returns the decrypted stream around the last EVENT start line
func (c *huntCtl) around() string {
	time.Sleep(50 * time.Millisecond)
	c.rawmu.Lock()
	defer c.rawmu.Unlock()
	b := c.raw.String()
	i := strings.LastIndex(b, "EVENT/1.0")
	if i < 0 {
		return ""
	}
	from, to := i-160, i+220
	if from < 0 {
		from = 0
	}
	if to > len(b) {
		to = len(b)
	}
	return b[from:to]
}

var huntCtlSeq int

// huntConnect opens a connection and verifies it as a controller paired in the transport's database.
//
// Two races of the session start in the library (not part of C10) are worked around here so that they do not
// disturb the probes: (1) the M4 response is sometimes sent encrypted already (the server's background read
// switches the cryptographer before the response is written) -> retry on a new connection; (2) a request sent
// immediately after M4 can lose its first byte to the server's pending plaintext read -> wait a moment after M4.
func huntConnect(tb testing.TB, h *huntTransport) *huntCtl {
	for i := 0; ; i++ {
		c := huntDial(tb, h)
		ok := func() (ok bool) {
			defer func() {
				if r := recover(); r != nil {
					if _, is := r.(huntRetry); is && i < 20 {
						c.conn.Close()
						ok = false
						return
					}
					panic(r)
				}
			}()
			c.verify(tb, h)
			return true
		}()
		if ok {
			time.Sleep(30 * time.Millisecond)
			return c
		}
		huntRetries++
	}
}

type huntRetry struct{}

var huntRetries int

func huntDial(tb testing.TB, h *huntTransport) *huntCtl {
	huntCtlSeq++
	name := fmt.Sprintf("ctl-%d", huntCtlSeq)
	conn, err := net.Dial("tcp", "127.0.0.1:"+h.port)
	if err != nil {
		tb.Fatal(err)
	}
	c := &huntCtl{name: name, conn: conn, msgs: make(chan huntMsg, 100000)}
	tb.Cleanup(func() { conn.Close() })
	return c
}

func readPlainMsg(br *bufio.Reader) huntMsg {
	line, err := br.ReadString('\n')
	if err != nil {
		return huntMsg{err: err}
	}
	line = strings.TrimRight(line, "\r\n")
	m := huntMsg{}
	switch {
	case strings.HasPrefix(line, "EVENT/1.0 "):
		m.event = true
		m.status = strings.TrimPrefix(line, "EVENT/1.0 ")
	case strings.HasPrefix(line, "HTTP/1.1 "):
		m.status = strings.TrimPrefix(line, "HTTP/1.1 ")
	case strings.HasPrefix(line, "HTTP/1.0 "):
		m.status = strings.TrimPrefix(line, "HTTP/1.0 ")
	default:
		return huntMsg{err: fmt.Errorf("malformed start line %q", line)}
	}
	clen := -1
	chunked := false
	for {
		hl, err := br.ReadString('\n')
		if err != nil {
			return huntMsg{err: err}
		}
		hl = strings.TrimRight(hl, "\r\n")
		if hl == "" {
			break
		}
		kv := strings.SplitN(hl, ":", 2)
		if len(kv) != 2 {
			return huntMsg{err: fmt.Errorf("malformed header line %q", hl)}
		}
		k := strings.ToLower(strings.TrimSpace(kv[0]))
		v := strings.TrimSpace(kv[1])
		if k == "content-length" {
			clen, _ = strconv.Atoi(v)
		}
		if k == "transfer-encoding" && strings.ToLower(v) == "chunked" {
			chunked = true
		}
	}
	if strings.HasPrefix(m.status, "204") {
		return m
	}
	if chunked {
		b, err := ioutil.ReadAll(httputil.NewChunkedReader(br))
		if err != nil {
			return huntMsg{err: fmt.Errorf("chunked body: %v (got %q)", err, string(b))}
		}
		// trailing CRLF after the last chunk
		t, err := br.ReadString('\n')
		if err != nil || strings.TrimRight(t, "\r\n") != "" {
			return huntMsg{err: fmt.Errorf("chunked trailer: %q %v", t, err)}
		}
		m.body = string(b)
		return m
	}
	if clen > 0 {
		b := make([]byte, clen)
		if _, err := io.ReadFull(br, b); err != nil {
			return huntMsg{err: err}
		}
		m.body = string(b)
	}
	return m
}

func (c *huntCtl) verify(tb testing.TB, h *huntTransport) {
	// a paired controller: long term key pair known to the accessory
	ent, err := db.NewRandomEntityWithName(c.name)
	if err != nil {
		tb.Fatal(err)
	}
	if err := h.t.database.SaveEntity(db.NewEntity(ent.Name, ent.PublicKey, nil)); err != nil {
		tb.Fatal(err)
	}

	br := bufio.NewReader(c.conn)
	c.conn.SetReadDeadline(time.Now().Add(time.Second))
	defer c.conn.SetReadDeadline(time.Time{})
	step := 0
	post := func(body []byte) util.Container {
		step++
		req := fmt.Sprintf("POST /pair-verify HTTP/1.1\r\nHost: x\r\nContent-Type: application/pairing+tlv8\r\nContent-Length: %d\r\n\r\n", len(body))
		if _, err := c.conn.Write(append([]byte(req), body...)); err != nil {
			tb.Fatal(err)
		}
		m := readPlainMsg(br)
		if m.err != nil || !strings.HasPrefix(m.status, "200") {
			if step == 2 && m.err != nil {
				panic(huntRetry{})
			}
			tb.Fatalf("%s pair-verify request %d: %.80v", c.name, step, m)
		}
		cont, err := util.NewTLV8ContainerFromReader(strings.NewReader(m.body))
		if err != nil {
			tb.Fatal(err)
		}
		return cont
	}

	priv := curve25519.GeneratePrivateKey()
	pub := curve25519.PublicKey(priv)
	m1 := util.NewTLV8Container()
	m1.SetByte(pair.TagPairingMethod, 0)
	m1.SetByte(pair.TagSequence, pair.VerifyStepStartRequest.Byte())
	m1.SetBytes(pair.TagPublicKey, pub[:])
	m2 := post(m1.BytesBuffer().Bytes())
	var spub [32]byte
	copy(spub[:], m2.GetBytes(pair.TagPublicKey))
	shared := curve25519.SharedSecret(priv, spub)
	ekey, err := hkdf.Sha512(shared[:], []byte("Pair-Verify-Encrypt-Salt"), []byte("Pair-Verify-Encrypt-Info"))
	if err != nil {
		tb.Fatal(err)
	}
	var material []byte
	material = append(material, pub[:]...)
	material = append(material, c.name...)
	material = append(material, spub[:]...)
	sig, err := crypto.ED25519Signature(ent.PrivateKey, material)
	if err != nil {
		tb.Fatal(err)
	}
	inner := util.NewTLV8Container()
	inner.SetString(pair.TagUsername, c.name)
	inner.SetBytes(pair.TagSignature, sig)
	encd, mac, _ := chacha20poly1305.EncryptAndSeal(ekey[:], []byte("PV-Msg03"), inner.BytesBuffer().Bytes(), nil)
	m3 := util.NewTLV8Container()
	m3.SetByte(pair.TagSequence, pair.VerifyStepFinishRequest.Byte())
	m3.SetBytes(pair.TagEncryptedData, append(encd, mac[:]...))
	m4 := post(m3.BytesBuffer().Bytes())
	if m4.GetByte(pair.TagErrCode) != 0 {
		tb.Fatalf("pair-verify M4 error %d", m4.GetByte(pair.TagErrCode))
	}
	if br.Buffered() != 0 {
		tb.Fatal("unexpected bytes after M4")
	}

	c.enc, err = crypto.NewSecureClientSessionFromSharedKey(shared)
	if err != nil {
		tb.Fatal(err)
	}
	rkey, err := hkdf.Sha512(shared[:], []byte("Control-Salt"), []byte("Control-Read-Encryption-Key"))
	if err != nil {
		tb.Fatal(err)
	}
	fr := &frameReader{r: c.conn, key: rkey}
	go func() {
		pbr := bufio.NewReader(huntTee{fr, c})
		for {
			m := readPlainMsg(pbr)
			c.msgs <- m
			if m.err != nil {
				return
			}
		}
	}()
}

func (c *huntCtl) send(tb testing.TB, method, path, body string) {
	req := fmt.Sprintf("%s %s HTTP/1.1\r\nHost: x\r\n", method, path)
	if body != "" || method == "PUT" {
		req += fmt.Sprintf("Content-Type: application/hap+json\r\nContent-Length: %d\r\n", len(body))
	}
	req += "\r\n" + body
	c.wmu.Lock()
	defer c.wmu.Unlock()
	var out []byte
	if c.enc != nil {
		r, err := c.enc.Encrypt(strings.NewReader(req))
		if err != nil {
			tb.Fatal(err)
		}
		out, _ = ioutil.ReadAll(r)
	} else {
		out = []byte(req)
	}
	if _, err := c.conn.Write(out); err != nil {
		tb.Fatalf("%s: write: %v", c.name, err)
	}
}

// do sends a request and returns the response; events which arrive before the response are kept in pending.
func (c *huntCtl) do(tb testing.TB, method, path, body string) huntMsg {
	c.send(tb, method, path, body)
	for {
		select {
		case m := <-c.msgs:
			if m.err != nil {
				tb.Fatalf("%s: %s %s: stream broken: %v", c.name, method, path, m.err)
			}
			if m.event {
				c.pending = append(c.pending, m)
				continue
			}
			return m
		case <-time.After(5 * time.Second):
			tb.Fatalf("%s: %s %s: no response", c.name, method, path)
		}
	}
}

// events returns every event received so far; delimited by a request/response round trip on the connection.
func (c *huntCtl) events(tb testing.TB) []huntMsg {
	r := c.do(tb, "GET", "/characteristics?id=999.999", "")
	if !strings.HasPrefix(r.status, "207") {
		tb.Fatalf("%s: delimiter got %v", c.name, r)
	}
	ev := c.pending
	c.pending = nil
	return ev
}

func (c *huntCtl) put(tb testing.TB, body string) huntMsg {
	return c.do(tb, "PUT", "/characteristics", body)
}

func huntSub(aid, iid uint64, on bool) string {
	return fmt.Sprintf(`{"characteristics":[{"aid":%d,"iid":%d,"ev":%v}]}`, aid, iid, on)
}

func huntWrite(aid, iid uint64, v interface{}) string {
	b, _ := json.Marshal(v)
	return fmt.Sprintf(`{"characteristics":[{"aid":%d,"iid":%d,"value":%s}]}`, aid, iid, b)
}

// expectEvents checks that the controller received exactly the given (aid,iid,value) events in order.
func expectEvents(tb testing.TB, c *huntCtl, what string, want ...[3]interface{}) {
	tb.Helper()
	got := c.events(tb)
	var gs []string
	for _, m := range got {
		var e huntEvent
		if err := json.Unmarshal([]byte(m.body), &e); err != nil || len(e.Characteristics) != 1 || !strings.HasPrefix(m.status, "200") {
			tb.Errorf("%s: %s: malformed event %v", what, c.name, m)
			continue
		}
		x := e.Characteristics[0]
		gs = append(gs, fmt.Sprintf("%d.%d=%v", x.AID, x.IID, x.Value))
	}
	var ws []string
	for _, w := range want {
		ws = append(ws, fmt.Sprintf("%v.%v=%v", w[0], w[1], w[2]))
	}
	if strings.Join(gs, " ") != strings.Join(ws, " ") {
		tb.Errorf("%s: %s received events [%s], want [%s]", what, c.name, strings.Join(gs, " "), strings.Join(ws, " "))
	}
}

func ev(aid, iid uint64, v interface{}) [3]interface{} {
	return [3]interface{}{aid, iid, v}
}

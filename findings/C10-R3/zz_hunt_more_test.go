package hc

import (
	"fmt"
	"net"
	"strings"
	"sync"
	"syscall"
	"testing"
	"time"

	"github.com/brutella/hc/characteristic"
)

// P11: a subscribed controller which does not read must not keep the others from being notified
func TestHuntStalledSubscriber(t *testing.T) {
	br, l1, _, _ := huntAccs()
	s := characteristic.NewString("F0000004-0000-1000-8000-0026BB765291")
	s.Perms = []string{characteristic.PermRead, characteristic.PermWrite, characteristic.PermEvents}
	s.SetValue("")
	l1.Lightbulb.AddCharacteristic(s.Characteristic)
	h := huntStart(t, br.Accessory, l1.Accessory)
	aid := l1.Accessory.ID

	// S subscribes and then stops reading (its reader goroutine is never started again: use a raw dial with a tiny buffer)
	S := huntConnect(t, h)
	S.put(t, huntSub(aid, s.ID, true))
	B := huntConnect(t, h)
	B.put(t, huntSub(aid, s.ID, true))
	// stop S from reading: block its frame reader by taking the connection's read side away
	S.conn.(*net.TCPConn).SetReadBuffer(1024)
	S.stall()

	done := make(chan int, 1)
	go func() {
		i := 0
		for ; i < 400; i++ {
			s.SetValue(strings.Repeat("z", 60000) + fmt.Sprint(i))
		}
		done <- i
	}()
	select {
	case <-done:
	case <-time.After(10 * time.Second):
		t.Errorf("application blocked in SetValue by a subscriber which does not read")
	}
	n := len(B.events(t))
	t.Logf("B received %d of 400", n)
	if n != 400 {
		t.Errorf("B received %d events of 400", n)
	}
}

// P13: verify again on a verified connection is not possible in plaintext; subscriptions of one connection survive other connections' verify
func TestHuntManyConnectionsOrder(t *testing.T) {
	br, l1, l2, sw := huntAccs()
	h := huntStart(t, br.Accessory, l1.Accessory, l2.Accessory, sw.Accessory)
	var cs []*huntCtl
	for i := 0; i < 12; i++ {
		cs = append(cs, huntConnect(t, h))
	}
	a1, on1 := l1.Accessory.ID, l1.Lightbulb.On.ID
	a2, on2 := l2.Accessory.ID, l2.Lightbulb.On.ID
	// even: l1, multiple of 3: l2
	for i, c := range cs {
		if i%2 == 0 {
			c.put(t, huntSub(a1, on1, true))
		}
		if i%3 == 0 {
			c.put(t, huntSub(a2, on2, true))
		}
	}
	v := false
	for w := 0; w < len(cs); w++ {
		v = !v
		cs[w].put(t, huntWrite(a1, on1, v))
		cs[len(cs)-1-w].put(t, huntWrite(a2, on2, v))
		for i, c := range cs {
			var want [][3]interface{}
			if i%2 == 0 && i != w {
				want = append(want, ev(a1, on1, v))
			}
			if i%3 == 0 && i != len(cs)-1-w {
				want = append(want, ev(a2, on2, v))
			}
			expectEvents(t, c, fmt.Sprintf("round %d ctl %d", w, i), want...)
		}
		// close and replace one connection per round
		cs[w].conn.Close()
		time.Sleep(20 * time.Millisecond)
		cs[w] = huntConnect(t, h)
		if w%2 == 0 {
			cs[w].put(t, huntSub(a1, on1, true))
		}
		if w%3 == 0 {
			cs[w].put(t, huntSub(a2, on2, true))
		}
	}
}

// P20: reconnect from the same local port
func TestHuntSamePortReconnect(t *testing.T) {
	br, l1, _, _ := huntAccs()
	h := huntStart(t, br.Accessory, l1.Accessory)
	aid, iid := l1.Accessory.ID, l1.Lightbulb.On.ID
	A := huntConnect(t, h)
	A.put(t, huntSub(aid, iid, true))
	local := A.conn.LocalAddr().(*net.TCPAddr)
	// close with RST so that the port is free at once
	A.conn.(*net.TCPConn).SetLinger(0)
	A.conn.Close()
	time.Sleep(100 * time.Millisecond)
	d := net.Dialer{LocalAddr: local, Control: func(network, address string, c syscall.RawConn) error {
		var err error
		c.Control(func(fd uintptr) { err = syscall.SetsockoptInt(int(fd), syscall.SOL_SOCKET, syscall.SO_REUSEADDR, 1) })
		return err
	}}
	conn, err := d.Dial("tcp", "127.0.0.1:"+h.port)
	if err != nil {
		t.Skip("cannot reuse port: ", err)
	}
	huntCtlSeq++
	A2 := &huntCtl{name: fmt.Sprintf("ctl-%d", huntCtlSeq), conn: conn, msgs: make(chan huntMsg, 1000)}
	defer conn.Close()
	A2.verify(t, h)
	l1.Lightbulb.On.SetValue(true)
	expectEvents(t, A2, "same port, new connection, never subscribed")
	A2.put(t, huntSub(aid, iid, true))
	l1.Lightbulb.On.SetValue(false)
	expectEvents(t, A2, "same port, subscribed", ev(aid, iid, false))
}

// P21: concurrent remote writers on different characteristics; every subscriber sees every change once
func TestHuntConcurrentWriters(t *testing.T) {
	br, l1, l2, sw := huntAccs()
	h := huntStart(t, br.Accessory, l1.Accessory, l2.Accessory, sw.Accessory)
	a1, on1 := l1.Accessory.ID, l1.Lightbulb.On.ID
	a2, on2 := l2.Accessory.ID, l2.Lightbulb.On.ID
	a3, on3 := sw.Accessory.ID, sw.Switch.On.ID
	W := []*huntCtl{huntConnect(t, h), huntConnect(t, h), huntConnect(t, h)}
	S := []*huntCtl{huntConnect(t, h), huntConnect(t, h)}
	ids := [][2]uint64{{a1, on1}, {a2, on2}, {a3, on3}}
	for _, c := range append(append([]*huntCtl{}, W...), S...) {
		for _, id := range ids {
			c.put(t, huntSub(id[0], id[1], true))
		}
	}
	const rounds = 100
	var wg sync.WaitGroup
	for i := range W {
		wg.Add(1)
		go func(i int) {
			defer wg.Done()
			v := false
			for r := 0; r < rounds; r++ {
				v = !v
				W[i].put(t, huntWrite(ids[i][0], ids[i][1], v))
			}
		}(i)
	}
	wg.Wait()
	for _, c := range S {
		n := len(c.events(t))
		if n != 3*rounds {
			t.Errorf("%s received %d events, want %d", c.name, n, 3*rounds)
		}
	}
	for _, c := range W {
		n := len(c.events(t))
		if n != 2*rounds {
			t.Errorf("%s received %d events, want %d", c.name, n, 2*rounds)
		}
	}
}

// P22: two controllers write the same new value to the same characteristic at the same time: one change, one event
func TestHuntSameValueRace(t *testing.T) {
	br, l1, _, _ := huntAccs()
	h := huntStart(t, br.Accessory, l1.Accessory)
	aid, iid := l1.Accessory.ID, l1.Lightbulb.On.ID
	A, C, B := huntConnect(t, h), huntConnect(t, h), huntConnect(t, h)
	for _, c := range []*huntCtl{A, B, C} {
		c.put(t, huntSub(aid, iid, true))
	}
	const rounds = 4000
	v := false
	for r := 0; r < rounds; r++ {
		v = !v
		var wg sync.WaitGroup
		start := make(chan struct{})
		for _, c := range []*huntCtl{A, C} {
			wg.Add(1)
			go func(c *huntCtl) {
				defer wg.Done()
				<-start
				c.put(t, huntWrite(aid, iid, v))
			}(c)
		}
		close(start)
		wg.Wait()
	}
	if n := len(B.events(t)); n != rounds {
		t.Errorf("B received %d events for %d changes", n, rounds)
	}
	na, nc := len(A.events(t)), len(C.events(t))
	if na+nc != rounds {
		t.Errorf("A and C received %d+%d events for %d changes made by one of them", na, nc, rounds)
	}
}

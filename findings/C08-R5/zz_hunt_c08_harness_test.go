package hap

import (
	"bytes"
	"crypto/sha512"
	"encoding/binary"
	"fmt"
	"io"
	"net"
	"sync"
	"testing"
	"time"

	"github.com/brutella/hc/crypto"
	xchacha "golang.org/x/crypto/chacha20poly1305"
	xhkdf "golang.org/x/crypto/hkdf"
)

// ---- reference peer (independent of crypto/secure_session.go) ----

type refPeer struct {
	key   []byte // accessory -> controller key
	count uint64
}

func refKey(shared [32]byte, info string) []byte {
	r := xhkdf.New(sha512.New, shared[:], []byte("Control-Salt"), []byte(info))
	k := make([]byte, 32)
	if _, err := io.ReadFull(r, k); err != nil {
		panic(err)
	}
	return k
}

func newRefPeer(shared [32]byte) *refPeer {
	return &refPeer{key: refKey(shared, "Control-Read-Encryption-Key")}
}

// readFrame reads one frame from r and decrypts it with the next counter.
func (p *refPeer) readFrame(r io.Reader) ([]byte, error) {
	var l [2]byte
	if _, err := io.ReadFull(r, l[:]); err != nil {
		return nil, err
	}
	n := int(binary.LittleEndian.Uint16(l[:]))
	if n > 1024 {
		return nil, fmt.Errorf("frame %d: length field %d > 1024 (bytes %q)", p.count, n, l[:])
	}
	ct := make([]byte, n+16)
	if _, err := io.ReadFull(r, ct); err != nil {
		return nil, fmt.Errorf("frame %d: short body: %v", p.count, err)
	}
	aead, _ := xchacha.New(p.key)
	var nonce [12]byte
	binary.LittleEndian.PutUint64(nonce[4:], p.count)
	pt, err := aead.Open(nil, nonce[:], ct, l[:])
	if err != nil {
		return nil, fmt.Errorf("frame with expected counter %d (len %d) does not authenticate: %v", p.count, n, err)
	}
	p.count++
	return pt, nil
}

// ---- plumbing ----

type huntEnv struct {
	ctx    Context
	server net.Conn // raw accepted socket
	client net.Conn
	conn   *Connection
	sess   Session
	shared [32]byte
}

func tcpPair(t testing.TB) (server, client net.Conn) {
	ln, err := net.Listen("tcp", "127.0.0.1:0")
	if err != nil {
		t.Fatal(err)
	}
	defer ln.Close()
	ch := make(chan net.Conn, 1)
	go func() {
		c, err := ln.Accept()
		if err != nil {
			panic(err)
		}
		ch <- c
	}()
	client, err = net.Dial("tcp", ln.Addr().String())
	if err != nil {
		t.Fatal(err)
	}
	server = <-ch
	return
}

func newHuntEnv(t testing.TB, wrap func(net.Conn) net.Conn, encrypted bool) *huntEnv {
	e := &huntEnv{}
	for i := range e.shared {
		e.shared[i] = byte(i*7 + 3)
	}
	e.ctx = NewContextForSecuredDevice(nil)
	e.server, e.client = tcpPair(t)
	under := e.server
	if wrap != nil {
		under = wrap(under)
	}
	e.conn = NewConnection(under, e.ctx)
	e.sess = e.ctx.GetSessionForConnection(under)
	if e.sess == nil {
		t.Fatal("no session")
	}
	if encrypted {
		cg, err := crypto.NewSecureSessionFromSharedKey(e.shared)
		if err != nil {
			t.Fatal(err)
		}
		e.sess.SetCryptographer(cg)
		e.sess.Decrypter() // what the first Read after pair-verify does
		if e.sess.Encrypter() == nil {
			t.Fatal("not encrypted")
		}
	}
	return e
}

func (e *huntEnv) close() {
	e.client.Close()
	e.server.Close()
}

// payload builds a self-describing payload: "<w>/<seq>/<len>:" + len pattern bytes
func payload(w, seq, n int) []byte {
	var b bytes.Buffer
	fmt.Fprintf(&b, "<%d/%d/%d:", w, seq, n)
	for i := 0; i < n; i++ {
		b.WriteByte(byte('a' + (w*31+seq*7+i)%26))
	}
	b.WriteByte('>')
	return b.Bytes()
}

// checkStream parses a plaintext stream of payloads; every payload must be contiguous and intact.
// Returns per writer the sequence numbers in the order seen.
func checkStream(pt []byte) (map[int][]int, error) {
	seen := map[int][]int{}
	off := 0
	for off < len(pt) {
		var w, seq, n int
		end := bytes.IndexByte(pt[off:], ':')
		if end < 0 {
			return seen, fmt.Errorf("offset %d: no header: %q", off, trunc(pt[off:]))
		}
		if _, err := fmt.Sscanf(string(pt[off:off+end+1]), "<%d/%d/%d:", &w, &seq, &n); err != nil {
			return seen, fmt.Errorf("offset %d: bad header %q: %v", off, trunc(pt[off:]), err)
		}
		want := payload(w, seq, n)
		if off+len(want) > len(pt) || !bytes.Equal(pt[off:off+len(want)], want) {
			return seen, fmt.Errorf("offset %d: payload w=%d seq=%d n=%d not intact/contiguous", off, w, seq, n)
		}
		seen[w] = append(seen[w], seq)
		off += len(want)
	}
	return seen, nil
}

func trunc(b []byte) []byte {
	if len(b) > 40 {
		return b[:40]
	}
	return b
}

// drainAndCheck reads the whole ciphertext from the client socket until EOF, decrypts every
// frame in arrival order and checks the plaintext.
func drainAndCheck(t *testing.T, e *huntEnv, writers, perWriter int) {
	t.Helper()
	e.client.SetReadDeadline(time.Now().Add(20 * time.Second))
	peer := newRefPeer(e.shared)
	var pt bytes.Buffer
	for {
		f, err := peer.readFrame(e.client)
		if err == io.EOF {
			break
		}
		if err != nil {
			t.Fatalf("peer cannot decrypt stream after %d good frames: %v", peer.count, err)
		}
		pt.Write(f)
	}
	seen, err := checkStream(pt.Bytes())
	if err != nil {
		t.Fatalf("plaintext stream corrupt: %v", err)
	}
	for w := 0; w < writers; w++ {
		if len(seen[w]) != perWriter {
			t.Fatalf("writer %d: %d payloads arrived, want %d", w, len(seen[w]), perWriter)
		}
		for i, s := range seen[w] {
			if s != i {
				t.Fatalf("writer %d: payload order %v", w, seen[w])
			}
		}
	}
}

func runWriters(t *testing.T, e *huntEnv, writers, perWriter int, size func(w, seq int) int) {
	var wg sync.WaitGroup
	start := make(chan struct{})
	errs := make(chan error, writers*perWriter)
	for w := 0; w < writers; w++ {
		wg.Add(1)
		go func(w int) {
			defer wg.Done()
			<-start
			for s := 0; s < perWriter; s++ {
				if _, err := e.conn.Write(payload(w, s, size(w, s))); err != nil {
					errs <- fmt.Errorf("writer %d seq %d: %v", w, s, err)
					return
				}
			}
		}(w)
	}
	go func() {
		wg.Wait()
		e.server.Close() // EOF for the peer
	}()
	close(start)
	drainAndCheck(t, e, writers, perWriter)
	select {
	case err := <-errs:
		t.Fatal(err)
	default:
	}
}

package hc

import (
	"bufio"
	"bytes"
	"context"
	"crypto/sha512"
	"encoding/binary"
	"fmt"
	"io"
	"net"
	"strconv"
	"strings"
	"sync"
	"sync/atomic"
	"testing"
	"time"

	"github.com/brutella/hc/accessory"
	"github.com/brutella/hc/crypto"
	hcchacha "github.com/brutella/hc/crypto/chacha20poly1305"
	"github.com/brutella/hc/db"
	"github.com/brutella/hc/event"
	"github.com/brutella/hc/hap"
	"github.com/brutella/hc/hap/http"
	"github.com/brutella/hc/hap/pair"
	"github.com/brutella/hc/util"
	xchacha "golang.org/x/crypto/chacha20poly1305"
	xhkdf "golang.org/x/crypto/hkdf"
)

// ---------- reference decryption of the accessory -> controller direction ----------

type e2ePeer struct {
	key   []byte
	count uint64

	// set when a frame could not be read
	badHead []byte // first bytes where a frame was expected, when the length field is impossible
	badLen  [2]byte
	badCT   []byte // frame that did not authenticate
}

// open tries to authenticate a frame with this peer's key and the given counter
func (p *e2ePeer) open(l [2]byte, ct []byte, count uint64) ([]byte, error) {
	aead, _ := xchacha.New(p.key)
	var nonce [12]byte
	binary.LittleEndian.PutUint64(nonce[4:], count)
	return aead.Open(nil, nonce[:], ct, l[:])
}

func newE2EPeer(shared [32]byte) *e2ePeer {
	r := xhkdf.New(sha512.New, shared[:], []byte("Control-Salt"), []byte("Control-Read-Encryption-Key"))
	k := make([]byte, 32)
	io.ReadFull(r, k)
	return &e2ePeer{key: k}
}

func (p *e2ePeer) readFrame(r *bufio.Reader) ([]byte, error) {
	var l [2]byte
	if _, err := io.ReadFull(r, l[:]); err != nil {
		return nil, err
	}
	n := int(binary.LittleEndian.Uint16(l[:]))
	if n > 1024 {
		k := r.Buffered()
		if k > 40 {
			k = 40
		}
		rest, _ := r.Peek(k)
		p.badHead = append(append([]byte{}, l[:]...), rest...)
		return nil, fmt.Errorf("expected frame with counter %d, got length field %d: bytes %q", p.count, n, append(l[:], rest...))
	}
	ct := make([]byte, n+16)
	if _, err := io.ReadFull(r, ct); err != nil {
		return nil, fmt.Errorf("counter %d: short frame: %v", p.count, err)
	}
	aead, _ := xchacha.New(p.key)
	var nonce [12]byte
	binary.LittleEndian.PutUint64(nonce[4:], p.count)
	pt, err := aead.Open(nil, nonce[:], ct, l[:])
	if err != nil {
		p.badLen, p.badCT = l, ct
		return nil, fmt.Errorf("frame (len %d) does not authenticate with expected counter %d: %v", n, p.count, err)
	}
	p.count++
	return pt, nil
}

type frameReader struct {
	raw  *bufio.Reader
	peer *e2ePeer
	buf  bytes.Buffer
	all  bytes.Buffer // every plaintext byte, frame boundaries marked in cuts
	cuts []int
}

func (f *frameReader) Read(b []byte) (int, error) {
	if f.buf.Len() == 0 {
		pt, err := f.peer.readFrame(f.raw)
		if err != nil {
			return 0, err
		}
		f.buf.Write(pt)
		f.all.Write(pt)
		f.cuts = append(f.cuts, f.all.Len())
	}
	return f.buf.Read(b)
}

// ---------- a tiny controller ----------

type e2eMsg struct {
	proto  string
	status int
	header map[string]string
	body   []byte
}

type e2eClient struct {
	c      net.Conn
	raw    *bufio.Reader
	enc    bool
	fr     *frameReader
	pt     *bufio.Reader
	out    crypto.Cryptographer
	events int
	dev    hap.Device
	old    *e2ePeer // peer state of the previous session at the moment M4 was read
}

func (c *e2eClient) reader() *bufio.Reader {
	if c.enc {
		return c.pt
	}
	return c.raw
}

func (c *e2eClient) send(b []byte) error {
	if c.enc {
		r, err := c.out.Encrypt(bytes.NewBuffer(b))
		if err != nil {
			return err
		}
		b, _ = io.ReadAll(r)
	}
	_, err := c.c.Write(b)
	return err
}

func (c *e2eClient) readMsg() (*e2eMsg, error) {
	br := c.reader()
	line, err := br.ReadString('\n')
	if err != nil {
		return nil, fmt.Errorf("status line (%q): %v", line, err)
	}
	m := &e2eMsg{header: map[string]string{}}
	parts := strings.SplitN(strings.TrimRight(line, "\r\n"), " ", 3)
	if len(parts) < 2 || (parts[0] != "HTTP/1.1" && parts[0] != "EVENT/1.0") {
		return nil, fmt.Errorf("not a message start: %q", line)
	}
	m.proto = parts[0]
	m.status, _ = strconv.Atoi(parts[1])
	for {
		h, err := br.ReadString('\n')
		if err != nil {
			return nil, fmt.Errorf("header: %v", err)
		}
		h = strings.TrimRight(h, "\r\n")
		if h == "" {
			break
		}
		kv := strings.SplitN(h, ":", 2)
		if len(kv) != 2 {
			return nil, fmt.Errorf("bad header line %q", h)
		}
		m.header[strings.ToLower(kv[0])] = strings.TrimSpace(kv[1])
	}
	if strings.Contains(m.header["transfer-encoding"], "chunked") {
		for {
			l, err := br.ReadString('\n')
			if err != nil {
				return nil, err
			}
			n, err := strconv.ParseInt(strings.TrimSpace(l), 16, 32)
			if err != nil {
				return nil, fmt.Errorf("chunk size %q", l)
			}
			chunk := make([]byte, n+2)
			if _, err := io.ReadFull(br, chunk); err != nil {
				return nil, err
			}
			if n == 0 {
				break
			}
			m.body = append(m.body, chunk[:n]...)
		}
	} else if cl, ok := m.header["content-length"]; ok {
		n, _ := strconv.Atoi(cl)
		m.body = make([]byte, n)
		if _, err := io.ReadFull(br, m.body); err != nil {
			return nil, fmt.Errorf("body: %v", err)
		}
	}
	return m, nil
}

// response returns the next HTTP response, skipping (and counting) EVENT messages
func (c *e2eClient) response() (*e2eMsg, error) {
	for {
		m, err := c.readMsg()
		if err != nil {
			return nil, err
		}
		if m.proto == "EVENT/1.0" {
			c.events++
			continue
		}
		return m, nil
	}
}

func (c *e2eClient) post(path, ctype string, body []byte) (*e2eMsg, error) {
	return c.request("POST", path, ctype, body)
}

func (c *e2eClient) request(method, path, ctype string, body []byte) (*e2eMsg, error) {
	var b bytes.Buffer
	fmt.Fprintf(&b, "%s %s HTTP/1.1\r\nHost: hunt\r\n", method, path)
	if body != nil {
		fmt.Fprintf(&b, "Content-Type: %s\r\nContent-Length: %d\r\n", ctype, len(body))
	}
	b.WriteString("\r\n")
	b.Write(body)
	if err := c.send(b.Bytes()); err != nil {
		return nil, err
	}
	return c.response()
}

// verify runs pair-verify (on a plain or on an already encrypted connection) and switches keys after M4
func (c *e2eClient) verify() error {
	vs := pair.NewVerifySession()
	m1 := util.NewTLV8Container()
	m1.SetByte(pair.TagPairingMethod, 0)
	m1.SetByte(pair.TagSequence, pair.VerifyStepStartRequest.Byte())
	m1.SetBytes(pair.TagPublicKey, vs.PublicKey[:])
	r, err := c.post("/pair-verify", hap.HTTPContentTypePairingTLV8, m1.BytesBuffer().Bytes())
	if err != nil {
		return fmt.Errorf("M2: %v", err)
	}
	m2, err := util.NewTLV8ContainerFromReader(bytes.NewBuffer(r.body))
	if err != nil || r.status != 200 {
		return fmt.Errorf("M2: status %d %v", r.status, err)
	}
	var other [32]byte
	copy(other[:], m2.GetBytes(pair.TagPublicKey))
	vs.GenerateSharedKeyWithOtherPublicKey(other)
	vs.SetupEncryptionKey([]byte("Pair-Verify-Encrypt-Salt"), []byte("Pair-Verify-Encrypt-Info"))

	var material []byte
	material = append(material, vs.PublicKey[:]...)
	material = append(material, c.dev.Name()...)
	material = append(material, vs.OtherPublicKey[:]...)
	sig, err := crypto.ED25519Signature(c.dev.PrivateKey(), material)
	if err != nil {
		return err
	}
	inner := util.NewTLV8Container()
	inner.SetString(pair.TagUsername, c.dev.Name())
	inner.SetBytes(pair.TagSignature, sig)
	ct, mac, _ := hcchacha.EncryptAndSeal(vs.EncryptionKey[:], []byte("PV-Msg03"), inner.BytesBuffer().Bytes(), nil)
	m3 := util.NewTLV8Container()
	m3.SetByte(pair.TagSequence, pair.VerifyStepFinishRequest.Byte())
	m3.SetBytes(pair.TagEncryptedData, append(ct, mac[:]...))
	r, err = c.post("/pair-verify", hap.HTTPContentTypePairingTLV8, m3.BytesBuffer().Bytes())
	if err != nil {
		return fmt.Errorf("M4: %v", err)
	}
	m4, err := util.NewTLV8ContainerFromReader(bytes.NewBuffer(r.body))
	if err != nil || r.status != 200 || m4.GetByte(pair.TagSequence) != pair.VerifyStepFinishResponse.Byte() || m4.GetByte(pair.TagErrCode) != 0 {
		return fmt.Errorf("M4: status %d body %x %v", r.status, r.body, err)
	}

	// M4 received: from now on both directions use the keys of the new session
	if c.enc && (c.pt.Buffered() != 0 || c.fr.buf.Len() != 0) {
		return fmt.Errorf("plaintext left in the frame that carried M4")
	}
	if c.enc {
		c.old = c.fr.peer
	}
	c.fr = &frameReader{raw: c.raw, peer: newE2EPeer(vs.SharedKey)}
	c.pt = bufio.NewReader(c.fr)
	c.out, _ = crypto.NewSecureClientSessionFromSharedKey(vs.SharedKey)
	c.enc = true
	return nil
}

// ---------- accessory side ----------

type e2eEnv struct {
	t      *ipTransport
	sw     *accessory.Switch
	addr   string
	client hap.Device
	cancel context.CancelFunc
	done   chan struct{}
}

var e2eExtraAccessories = 0

func newE2EEnv(tb testing.TB) *e2eEnv {
	storage, err := util.NewTempFileStorage()
	if err != nil {
		tb.Fatal(err)
	}
	database := db.NewDatabaseWithStorage(storage)
	device, err := hap.NewSecuredDevice("Hunt Bridge", "00102003", database)
	if err != nil {
		tb.Fatal(err)
	}
	clientDB, _ := db.NewTempDatabase()
	client, err := hap.NewDevice("Hunt Controller", clientDB)
	if err != nil {
		tb.Fatal(err)
	}
	if err := database.SaveEntity(db.NewEntity(client.Name(), client.PublicKey(), nil)); err != nil {
		tb.Fatal(err)
	}

	t := &ipTransport{
		storage:   storage,
		database:  database,
		device:    device,
		container: accessory.NewContainer(),
		mutex:     &sync.Mutex{},
		context:   hap.NewContextForSecuredDevice(device),
		emitter:   event.NewEmitter(),
	}
	sw := accessory.NewSwitch(accessory.Info{Name: "Hunt Switch"})
	t.addAccessory(sw.Accessory)
	for i := 0; i < e2eExtraAccessories; i++ {
		x := accessory.NewSwitch(accessory.Info{Name: fmt.Sprintf("Extra Switch %d", i)})
		t.addAccessory(x.Accessory)
	}

	s := http.NewServer(http.Config{
		Port:      "127.0.0.1:0",
		Context:   t.context,
		Database:  t.database,
		Container: t.container,
		Device:    t.device,
		Mutex:     t.mutex,
		Emitter:   t.emitter,
	})
	ctx, cancel := context.WithCancel(context.Background())
	e := &e2eEnv{t: t, sw: sw, addr: "127.0.0.1:" + s.Port(), client: client, cancel: cancel, done: make(chan struct{})}
	go func() { s.ListenAndServe(ctx); close(e.done) }()
	return e
}

func (e *e2eEnv) stop() {
	e.cancel()
	select {
	case <-e.done:
	case <-time.After(3 * time.Second):
	}
}

func (e *e2eEnv) dial(tb testing.TB) *e2eClient {
	c, err := net.Dial("tcp", e.addr)
	if err != nil {
		tb.Fatal(err)
	}
	c.SetDeadline(time.Now().Add(5 * time.Second))
	return &e2eClient{c: c, raw: bufio.NewReader(c), dev: e.client}
}

func (e *e2eEnv) onID() (uint64, uint64) {
	return e.sw.Accessory.ID, e.sw.Switch.On.ID
}

// E1: steady state over the real stack: responses on connection A, notifications triggered by the
// application goroutine and by writes from connection B, all towards connection A.
func TestZZHuntC08_E1_SteadyState(t *testing.T) {
	e := newE2EEnv(t)
	defer e.stop()
	a := e.dial(t)
	defer a.c.Close()
	if err := a.verify(); err != nil {
		t.Fatal(err)
	}
	b := e.dial(t)
	defer b.c.Close()
	if err := b.verify(); err != nil {
		t.Fatal(err)
	}
	aid, iid := e.onID()
	sub := fmt.Sprintf(`{"characteristics":[{"aid":%d,"iid":%d,"ev":true}]}`, aid, iid)
	if r, err := a.request("PUT", "/characteristics", hap.HTTPContentTypeHAPJson, []byte(sub)); err != nil || r.status != 204 {
		t.Fatalf("subscribe: %v %+v", err, r)
	}

	var stop int32
	var wg sync.WaitGroup
	wg.Add(2)
	go func() { // application
		defer wg.Done()
		v := false
		for atomic.LoadInt32(&stop) == 0 {
			v = !v
			e.sw.Switch.On.SetValue(v)
		}
	}()
	berr := make(chan error, 1)
	go func() { // other controller
		defer wg.Done()
		v := 0
		for atomic.LoadInt32(&stop) == 0 {
			v = 1 - v
			put := fmt.Sprintf(`{"characteristics":[{"aid":%d,"iid":%d,"value":%d}]}`, aid, iid, v)
			if r, err := b.request("PUT", "/characteristics", hap.HTTPContentTypeHAPJson, []byte(put)); err != nil || r.status != 204 {
				berr <- fmt.Errorf("B: %v %+v", err, r)
				return
			}
		}
	}()
	for i := 0; i < 150; i++ {
		path := fmt.Sprintf("/characteristics?id=%d.%d", aid, iid)
		if i%10 == 0 {
			path = "/accessories"
		}
		r, err := a.request("GET", path, "", nil)
		if err != nil {
			atomic.StoreInt32(&stop, 1)
			t.Fatalf("request %d on A after %d events: %v", i, a.events, err)
		}
		if r.status != 200 {
			t.Fatalf("status %d", r.status)
		}
	}
	atomic.StoreInt32(&stop, 1)
	wg.Wait()
	select {
	case err := <-berr:
		t.Fatal(err)
	default:
	}
	t.Logf("A saw %d events between/inside 150 responses", a.events)
	if a.events == 0 {
		t.Fatal("no events: probe vacuous")
	}
}

// E2: a controller runs pair-verify again on its established (encrypted, subscribed) connection while the
// application changes the subscribed characteristic. The M4 response and the notifications are concurrent
// writes on one encrypted connection.
func TestZZHuntC08_E2_ReVerifyWithNotifications(t *testing.T) {
	e := newE2EEnv(t)
	defer e.stop()
	aid, iid := e.onID()

	var stop int32
	var wg sync.WaitGroup
	wg.Add(1)
	go func() { // application
		defer wg.Done()
		v := false
		for atomic.LoadInt32(&stop) == 0 {
			v = !v
			e.sw.Switch.On.SetValue(v)
			time.Sleep(20 * time.Microsecond)
		}
	}()
	defer func() { atomic.StoreInt32(&stop, 1); wg.Wait() }()

	unrelated := 0
	for trial := 0; trial < 300; trial++ {
		a := e.dial(t)
		a.c.SetDeadline(time.Now().Add(300 * time.Millisecond))
		if err := a.verify(); err != nil {
			unrelated++
			a.c.Close()
			continue
		}
		sub := fmt.Sprintf(`{"characteristics":[{"aid":%d,"iid":%d,"ev":true}]}`, aid, iid)
		if r, err := a.request("PUT", "/characteristics", hap.HTTPContentTypeHAPJson, []byte(sub)); err != nil || r.status != 204 {
			unrelated++
			a.c.Close()
			continue
		}
		if err := a.verify(); err != nil {
			// M2/M4 of the second run did not arrive readable under K1: other defects, not counted here
			unrelated++
			a.c.Close()
			continue
		}
		// M4 was read and authenticated under K1. Everything the accessory sends after M4 must be
		// decryptable with the new session K2.
		_, err := a.request("GET", fmt.Sprintf("/characteristics?id=%d.%d", aid, iid), "", nil)
		if err != nil {
			k2 := a.fr.peer
			if k2.badCT != nil {
				if pt, e1 := a.old.open(k2.badLen, k2.badCT, a.old.count); e1 == nil {
					t.Fatalf("trial %d: the frame that follows M4 of the second pair-verify is not decryptable with the new session (expected K2/counter %d); it is a frame of the OLD session K1/counter %d carrying %q (%d trials skipped for unrelated errors)",
						trial, k2.count, a.old.count, pt, unrelated)
				}
			}
			unrelated++
		}
		a.c.Close()
	}
	t.Logf("violation not observed in 300 trials (%d skipped for unrelated errors)", unrelated)
}

// E3: the keep-alive writer (hap.NewKeepAlive) runs while a controller verifies. Everything after M4 must be
// encrypted.
func TestZZHuntC08_E3_KeepAliveDuringVerify(t *testing.T) {
	e := newE2EEnv(t)
	defer e.stop()
	aid, iid := e.onID()

	ka := hap.NewKeepAlive(30*time.Microsecond, e.t.context)
	kctx, kcancel := context.WithCancel(context.Background())
	kdone := make(chan struct{})
	go func() { ka.Start(kctx); close(kdone) }()
	defer func() { kcancel(); <-kdone }()

	unrelated := 0
	for trial := 0; trial < 300; trial++ {
		a := e.dial(t)
		a.c.SetDeadline(time.Now().Add(300 * time.Millisecond))
		if err := a.verify(); err != nil {
			unrelated++
			a.c.Close()
			continue
		}
		// M4 was read in plaintext; the controller now expects encrypted frames only
		_, err := a.request("GET", fmt.Sprintf("/characteristics?id=%d.%d", aid, iid), "", nil)
		if err != nil {
			if h := a.fr.peer.badHead; bytes.HasPrefix(h, []byte("EVENT/1.0")) {
				t.Fatalf("trial %d: after M4 the accessory sent PLAINTEXT where frame counter %d was expected: %q... (%d trials skipped for unrelated errors)",
					trial, a.fr.peer.count, h, unrelated)
			}
			unrelated++
		}
		a.c.Close()
	}
	t.Logf("violation not observed in 300 trials (%d skipped for unrelated errors)", unrelated)
}

// E4 (control): no concurrent writers at all.
func TestZZHuntC08_E4_ControlNoConcurrentWriters(t *testing.T) {
	e := newE2EEnv(t)
	defer e.stop()
	aid, iid := e.onID()
	bad := 0
	for trial := 0; trial < 150; trial++ {
		a := e.dial(t)
		a.c.SetDeadline(time.Now().Add(200 * time.Millisecond))
		if err := a.verify(); err != nil {
			t.Logf("trial %d verify: %v", trial, err)
			bad++
			a.c.Close()
			continue
		}
		if err := a.verify(); err != nil {
			t.Logf("trial %d re-verify: %v", trial, err)
			bad++
			a.c.Close()
			continue
		}
		r, err := a.request("GET", fmt.Sprintf("/characteristics?id=%d.%d", aid, iid), "", nil)
		if err != nil || r.status != 200 {
			t.Logf("trial %d: GET: %v", trial, err)
			bad++
		}
		a.c.Close()
	}
	if bad > 0 {
		t.Fatalf("%d/150 trials failed without any concurrent writer", bad)
	}
}

// E5 (informational): a response that net/http hands to the connection in several Write calls
// (GET /accessories of a bridge with many accessories) while notifications are sent. The statement only
// promises contiguity per Write call, so an EVENT between two Writes of one HTTP response is NOT counted as a
// violation here; the probe only checks that every frame decrypts in order.
func TestZZHuntC08_E5_LargeResponseWithNotifications(t *testing.T) {
	e2eExtraAccessories = 40
	defer func() { e2eExtraAccessories = 0 }()
	e := newE2EEnv(t)
	defer e.stop()
	a := e.dial(t)
	defer a.c.Close()
	if err := a.verify(); err != nil {
		t.Skipf("verify: %v", err)
	}
	aid, iid := e.onID()
	sub := fmt.Sprintf(`{"characteristics":[{"aid":%d,"iid":%d,"ev":true}]}`, aid, iid)
	if r, err := a.request("PUT", "/characteristics", hap.HTTPContentTypeHAPJson, []byte(sub)); err != nil || r.status != 204 {
		t.Skipf("subscribe: %v %+v", err, r)
	}
	var stop int32
	var wg sync.WaitGroup
	wg.Add(1)
	go func() {
		defer wg.Done()
		v := false
		for atomic.LoadInt32(&stop) == 0 {
			v = !v
			e.sw.Switch.On.SetValue(v)
		}
	}()
	defer func() { atomic.StoreInt32(&stop, 1); wg.Wait() }()
	for i := 0; i < 30; i++ {
		r, err := a.request("GET", "/accessories", "", nil)
		if err != nil {
			if a.fr.peer.badCT != nil || a.fr.peer.badHead != nil {
				t.Fatalf("request %d: frame not decryptable: %v", i, err)
			}
			all := a.fr.all.Bytes()
			h := bytes.LastIndex(all, []byte("HTTP/1.1 200"))
			ev := bytes.Index(all[h:], []byte("EVENT/1.0"))
			t.Logf("INFO request %d: all frames decrypt, but the plaintext is not a clean sequence of messages (%v): response starts at %d, EVENT at +%d, context %q", i, err, h, ev, all[h+ev-30:h+ev+30])
			return
		}
		if i == 0 {
			t.Logf("response body %d bytes", len(r.body))
		}
	}
}

package hap

import (
	"bytes"
	"io"
	"net"
	"sync"
	"testing"
	"time"

	"github.com/brutella/hc/crypto"
)

// gateConn lets the test decide when a given socket write (identified by its content) proceeds.
type gateConn struct {
	net.Conn
	mu      sync.Mutex
	hold    func(b []byte) bool
	entered chan struct{}
	release chan struct{}
}

func (c *gateConn) Write(b []byte) (int, error) {
	c.mu.Lock()
	h := c.hold != nil && c.hold(b)
	c.mu.Unlock()
	if h {
		c.entered <- struct{}{}
		<-c.release
	}
	return c.Conn.Write(b)
}

func keepAliveBytes() []byte {
	resp := NewNotification(new(bytes.Buffer))
	var buf bytes.Buffer
	resp.Write(&buf)
	return FixProtocolSpecifier(buf.Bytes())
}

// probe 6: a keep-alive Write that began just before the connection switched to encryption reaches the
// socket after encrypted frames, in plaintext. The schedule: keep-alive goroutine is descheduled between
// `con.getEncrypter() != nil` (hap/connection.go Write) and the socket write.
func TestZZHuntC08_P06_KeepAliveAcrossSwitch(t *testing.T) {
	var g *gateConn
	e := newHuntEnv(t, func(c net.Conn) net.Conn {
		g = &gateConn{Conn: c, entered: make(chan struct{}), release: make(chan struct{})}
		return g
	}, false)
	defer e.close()

	ka := keepAliveBytes()
	g.hold = func(b []byte) bool { return bytes.Equal(b, ka) }

	// pair-verify M3 handled: cryptographer set; M4 goes out in plaintext
	cg, _ := crypto.NewSecureSessionFromSharedKey(e.shared)
	e.sess.SetCryptographer(cg)
	m4 := []byte("HTTP/1.1 200 OK\r\nContent-Length: 2\r\n\r\nM4")

	kaDone := make(chan struct{})
	go func() {
		// what KeepAlive.sendKeepAlive does for every active connection
		for _, c := range e.ctx.ActiveConnections() {
			c.Write(ka)
		}
		close(kaDone)
	}()
	<-g.entered // keep-alive passed the "is there an encrypter" test and is about to hit the socket

	if _, err := e.conn.Write(m4); err != nil {
		t.Fatal(err)
	}
	// the server goroutine reads the next request: the session switches to the new cryptographer
	e.sess.Decrypter()
	// response to the first encrypted request
	if _, err := e.conn.Write(payload(0, 0, 50)); err != nil {
		t.Fatal(err)
	}
	close(g.release)
	<-kaDone
	if _, err := e.conn.Write(payload(0, 1, 50)); err != nil {
		t.Fatal(err)
	}
	e.server.Close()

	// peer: reads M4 in plaintext, then everything is encrypted
	e.client.SetReadDeadline(time.Now().Add(5 * time.Second))
	got := make([]byte, len(m4))
	if _, err := io.ReadFull(e.client, got); err != nil || !bytes.Equal(got, m4) {
		t.Fatalf("M4: %q %v", got, err)
	}
	peer := newRefPeer(e.shared)
	var pt bytes.Buffer
	for {
		f, err := peer.readFrame(e.client)
		if err == io.EOF {
			break
		}
		if err != nil {
			t.Fatalf("peer cannot decrypt the stream after %d good frames: %v", peer.count, err)
		}
		pt.Write(f)
	}
	t.Logf("plaintext: %q", pt.Bytes())
}

// probe 7: race detector on the write path: a writer (keep-alive/notification) calls Encrypter() while the
// connection's reader goroutine switches the cryptographer in Decrypter().
func TestZZHuntC08_P07_RaceEncrypterVsSwitch(t *testing.T) {
	e := newHuntEnv(t, nil, false)
	defer e.close()
	go io.Copy(io.Discard, e.client)

	var wg sync.WaitGroup
	stop := make(chan struct{})
	wg.Add(1)
	go func() { // keep-alive / notification goroutine
		defer wg.Done()
		ka := keepAliveBytes()
		for {
			select {
			case <-stop:
				return
			default:
			}
			e.conn.Write(ka)
		}
	}()
	// server goroutine: pair-verify finished (SetCryptographer), next Read switches
	e.server.SetReadDeadline(time.Now().Add(-time.Second))
	for i := 0; i < 300; i++ {
		cg, _ := crypto.NewSecureSessionFromSharedKey(e.shared)
		e.sess.SetCryptographer(cg)
		var b [1]byte
		e.conn.Read(b[:])
	}
	close(stop)
	wg.Wait()
}

// probe 8: established encrypted connection (session K1) with a subscribed characteristic; the controller
// runs pair-verify again (the library supports this: session.Decrypter "allows sessions to switch
// encryption"). The M4 response and an event notification are written concurrently. Schedule: the
// notification goroutine blocks on the write mutex while M4 is on its way to the socket and runs as soon as
// the mutex is released, i.e. before the connection's reader goroutine gets to its next Read (which is what
// activates K2). The peer switches to K2 when it has read M4.
func TestZZHuntC08_P08_ReKeyWithConcurrentNotification(t *testing.T) {
	var g *gateConn
	e := newHuntEnv(t, func(c net.Conn) net.Conn {
		g = &gateConn{Conn: c, entered: make(chan struct{}), release: make(chan struct{})}
		return g
	}, true)
	defer e.close()

	var shared2 [32]byte
	for i := range shared2 {
		shared2[i] = byte(200 - i)
	}
	// pair-verify M3 handled on the encrypted connection
	cg2, _ := crypto.NewSecureSessionFromSharedKey(shared2)
	e.sess.SetCryptographer(cg2)

	held := false
	g.hold = func(b []byte) bool { // hold the first socket write (M4)
		if held {
			return false
		}
		held = true
		return true
	}
	m4 := []byte("HTTP/1.1 200 OK\r\nContent-Length: 2\r\n\r\nM4")
	m4Done := make(chan struct{})
	go func() { e.conn.Write(m4); close(m4Done) }() // server goroutine: response
	<-g.entered                                     // M4 sealed with K1/counter 0, on its way to the socket

	evDone := make(chan struct{})
	go func() { // application goroutine: notification
		e.conn.Write(payload(7, 0, 30))
		close(evDone)
	}()
	time.Sleep(20 * time.Millisecond) // notification goroutine now waits for the write mutex
	close(g.release)
	<-m4Done
	<-evDone
	// server goroutine reaches its next Read only now
	e.sess.Decrypter()
	e.conn.Write(payload(0, 0, 30)) // response to the next request, K2/counter 0
	e.server.Close()

	e.client.SetReadDeadline(time.Now().Add(5 * time.Second))
	peer := newRefPeer(e.shared)
	f, err := peer.readFrame(e.client)
	if err != nil || !bytes.Equal(f, m4) {
		t.Fatalf("M4: %q %v", f, err)
	}
	peer = newRefPeer(shared2) // M4 received: switch
	for i := 0; ; i++ {
		f, err := peer.readFrame(e.client)
		if err == io.EOF {
			break
		}
		if err != nil {
			t.Fatalf("after M4, frame #%d: %v", i, err)
		}
		t.Logf("frame #%d: %q", i, f)
	}
}

// closingContext simulates the schedule "another goroutine closes the connection (Connection.Close ->
// DeleteSessionForConnection) between the two session lookups of one Write".
type closingContext struct {
	Context
	mu    sync.Mutex
	calls int
}

func (c *closingContext) GetSessionForConnection(conn net.Conn) Session {
	c.mu.Lock()
	c.calls++
	n := c.calls
	c.mu.Unlock()
	if n == 2 {
		c.Context.DeleteSessionForConnection(conn) // what Connection.Close does, on the server goroutine
	}
	return c.Context.GetSessionForConnection(conn)
}

// probe 9: Write concurrent with Close: Connection.Write looks the session up (encrypter != nil), then
// EncryptedWrite looks it up again; if the connection was closed in between, the second lookup yields a nil
// Encrypter and the notifying goroutine (the application's) panics.
func TestZZHuntC08_P09_WriteVsClose(t *testing.T) {
	e := newHuntEnv(t, nil, true)
	defer e.close()
	cc := &closingContext{Context: e.ctx}
	e.conn.context = cc

	defer func() {
		if r := recover(); r != nil {
			t.Fatalf("Write panicked in the caller's goroutine: %v", r)
		}
	}()
	_, err := e.conn.Write(payload(0, 0, 10))
	t.Logf("Write returned %v", err)
}

// shortConn fails one socket write half way (as a write deadline would), later writes succeed.
type shortConn struct {
	net.Conn
	mu   sync.Mutex
	done bool
}

type huntTimeout struct{}

func (huntTimeout) Error() string   { return "i/o timeout" }
func (huntTimeout) Timeout() bool   { return true }
func (huntTimeout) Temporary() bool { return true }

func (c *shortConn) Write(b []byte) (int, error) {
	c.mu.Lock()
	first := !c.done
	c.done = true
	c.mu.Unlock()
	if first {
		n, _ := c.Conn.Write(b[:len(b)/2])
		return n, huntTimeout{}
	}
	return c.Conn.Write(b)
}

// probe 10 (informational): a socket write that fails half way; what do later writers produce?
func TestZZHuntC08_P10_PartialSocketWrite(t *testing.T) {
	e := newHuntEnv(t, func(c net.Conn) net.Conn { return &shortConn{Conn: c} }, true)
	defer e.close()
	n, err := e.conn.Write(payload(0, 0, 100))
	t.Logf("first write: n=%d err=%v", n, err)
	n, err = e.conn.Write(payload(1, 0, 100))
	t.Logf("second write: n=%d err=%v", n, err)
	e.server.Close()
	e.client.SetReadDeadline(time.Now().Add(2 * time.Second))
	peer := newRefPeer(e.shared)
	for {
		_, err := peer.readFrame(e.client)
		if err == io.EOF {
			break
		}
		if err != nil {
			// informational only: needs a failing-but-surviving socket write, which is outside the
			// property's quantifier (schedules); not reported as a violation
			t.Logf("INFO peer: %v", err)
			return
		}
	}
}

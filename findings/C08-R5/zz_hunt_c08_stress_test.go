package hap

import (
	gocontext "context"
	"math/rand"
	"net"
	"runtime"
	"sync"
	"testing"
	"time"
)

// probe 1: many writers, small payloads (single frame), plain tcp
func TestZZHuntC08_P01_SmallConcurrent(t *testing.T) {
	e := newHuntEnv(t, nil, true)
	defer e.close()
	runWriters(t, e, 8, 200, func(w, s int) int { return (w*13 + s*5) % 200 })
}

// probe 2: multi-frame payloads
func TestZZHuntC08_P02_MultiFrameConcurrent(t *testing.T) {
	e := newHuntEnv(t, nil, true)
	defer e.close()
	runWriters(t, e, 6, 60, func(w, s int) int { return 900 + (w*577+s*311)%4000 })
}

// probe 3: boundary sizes: total payload exactly k*1024, k*1024±1, tiny
func TestZZHuntC08_P03_BoundarySizes(t *testing.T) {
	e := newHuntEnv(t, nil, true)
	defer e.close()
	sizes := []int{0, 1, 1023, 1024, 1025, 2047, 2048, 2049, 3072, 4096, 65535, 70000}
	runWriters(t, e, 4, len(sizes)*3, func(w, s int) int {
		want := sizes[(s+w)%len(sizes)]
		hdr := len(payload(w, s, 0))
		// choose n such that the total payload length is exactly `want` where possible
		n := want - hdr
		if n < 0 {
			n = 0
		}
		// the header length depends on the digits of n; fix up
		for i := 0; i < 3; i++ {
			d := len(payload(w, s, n)) - want
			if d == 0 || n-d < 0 {
				break
			}
			n -= d
		}
		return n
	})
}

// slowConn yields/sleeps inside Write so that the window between sealing and the socket is wide,
// and writes in two halves to make non-contiguity visible should two writers overlap.
type slowConn struct {
	net.Conn
	rnd *rand.Rand
	mu  sync.Mutex
}

func (c *slowConn) jitter() {
	c.mu.Lock()
	k := c.rnd.Intn(4)
	c.mu.Unlock()
	switch k {
	case 0:
	case 1:
		runtime.Gosched()
	case 2:
		time.Sleep(50 * time.Microsecond)
	case 3:
		time.Sleep(300 * time.Microsecond)
	}
}

func (c *slowConn) Write(b []byte) (int, error) {
	c.jitter()
	h := len(b) / 2
	n1, err := c.Conn.Write(b[:h])
	if err != nil {
		return n1, err
	}
	c.jitter()
	n2, err := c.Conn.Write(b[h:])
	return n1 + n2, err
}

// probe 4: socket writes complete slowly / in pieces
func TestZZHuntC08_P04_SlowSocket(t *testing.T) {
	e := newHuntEnv(t, func(c net.Conn) net.Conn { return &slowConn{Conn: c, rnd: rand.New(rand.NewSource(1))} }, true)
	defer e.close()
	runWriters(t, e, 8, 40, func(w, s int) int { return (w*997 + s*613) % 3000 })
}

// probe 5: the real keep-alive writer together with response-like and notification-like writers
func TestZZHuntC08_P05_KeepAliveAndWriters(t *testing.T) {
	e := newHuntEnv(t, func(c net.Conn) net.Conn { return &slowConn{Conn: c, rnd: rand.New(rand.NewSource(2))} }, true)
	defer e.close()

	ka := NewKeepAlive(200*time.Microsecond, e.ctx)
	kctx, cancel := gocontext.WithCancel(gocontext.Background())
	kaDone := make(chan struct{})
	go func() { ka.Start(kctx); close(kaDone) }()

	var wg sync.WaitGroup
	const writers, per = 4, 100
	for w := 0; w < writers; w++ {
		wg.Add(1)
		go func(w int) {
			defer wg.Done()
			for s := 0; s < per; s++ {
				e.conn.Write(payload(w, s, (w*37+s*101)%2500))
			}
		}(w)
	}
	go func() {
		wg.Wait()
		cancel()
		<-kaDone
		e.server.Close()
	}()

	// decrypt, strip keep-alives (they must be intact and contiguous too), then check the rest
	e.client.SetReadDeadline(time.Now().Add(20 * time.Second))
	peer := newRefPeer(e.shared)
	var pt []byte
	for {
		f, err := peer.readFrame(e.client)
		if err != nil {
			if err.Error() == "EOF" {
				break
			}
			t.Fatalf("peer cannot decrypt after %d frames: %v", peer.count, err)
		}
		pt = append(pt, f...)
	}
	const kaMsg = "EVENT/1.0 200 OK\r\nContent-Type: application/hap+json\r\nContent-Length: 0\r\n\r\n"
	nka := 0
	var rest []byte
	for len(pt) > 0 {
		if len(pt) >= len(kaMsg) && string(pt[:len(kaMsg)]) == kaMsg {
			pt = pt[len(kaMsg):]
			nka++
			continue
		}
		// one payload
		i := 0
		for i < len(pt) && pt[i] != '>' {
			i++
		}
		if i == len(pt) {
			t.Fatalf("garbage at tail: %q", trunc(pt))
		}
		rest = append(rest, pt[:i+1]...)
		pt = pt[i+1:]
	}
	seen, err := checkStream(rest)
	if err != nil {
		t.Fatalf("stream corrupt: %v", err)
	}
	for w := 0; w < writers; w++ {
		if len(seen[w]) != per {
			t.Fatalf("writer %d: got %d", w, len(seen[w]))
		}
	}
	if nka == 0 {
		t.Log("note: no keep-alive observed")
	} else {
		t.Logf("%d keep-alives interleaved cleanly", nka)
	}
}

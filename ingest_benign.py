#!/usr/bin/env python3
# ingest_benign.py <outdir>: copies <outdir>/<id>.diff + <id>.json into /verif/benign/<id>/ (patch.diff, meta.json)
import sys,os,json,glob,shutil
out=sys.argv[1]
for d in sorted(glob.glob(os.path.join(out,'*.diff'))):
    i=os.path.basename(d)[:-5]
    dst=os.path.join('/verif/benign',i)
    os.makedirs(dst,exist_ok=True)
    shutil.copy(d,os.path.join(dst,'patch.diff'))
    j=d[:-5]+'.json'
    meta=json.load(open(j)) if os.path.exists(j) else {'id':i}
    meta['source']='independent sub-agent given an area of the code and a scratch worktree; asked for strictly behaviour-preserving refactorings'
    json.dump(meta,open(os.path.join(dst,'meta.json'),'w'),indent=1)
    print('ingested',i)

#!/usr/bin/env python3
"""Validate sub-agent mutations in /tmp/seed/Cxx/out/mK and copy the confirmed ones to /verif/seeded/Cxx-mK."""
import json, os, subprocess, sys, shutil, glob
env = dict(os.environ, GOFLAGS="-mod=mod", GOPROXY="off", GOSUMDB="off", TMPDIR="/tmp/ingest_tmp")
os.makedirs("/tmp/ingest_tmp", exist_ok=True)
WT = "/tmp/wt_ingest"
subprocess.run(["git","-C","/repo","worktree","remove","--force",WT],capture_output=True)
subprocess.check_call(["git","-C","/repo","worktree","add","-q","--detach",WT,"HEAD"])
def sh(cmd, cwd=WT):
    return subprocess.run(cmd, shell=True, cwd=cwd, capture_output=True, text=True, env=env)
only = sys.argv[1:]
for d in sorted(glob.glob(os.environ.get("SEED_BASE","/tmp/seed")+"/C*/out/m*")):
    pid = d.split("/")[3]; k = os.path.basename(d)
    name = f"{pid}-{k}"
    if only and pid not in only: continue
    if os.path.exists(f"/verif/seeded/{name}/meta.json"): continue
    try:
        meta = json.load(open(f"{d}/meta.json"))
    except Exception as e:
        print(name, "NO META", e); continue
    sh("git checkout -q -- . && git clean -fdq")
    demo = meta["demo_file"]; ddir = meta["demo_dir"].strip("/") or "."
    if not os.path.exists(f"{d}/{demo}"):
        print(name, "NO DEMO FILE"); continue
    shutil.copy(f"{d}/{demo}", f"{WT}/{ddir}/{demo}")
    r0 = sh(meta["demo_cmd"])
    a = sh(f"git apply {d}/patch.diff")
    if a.returncode != 0:
        print(name, "PATCH DOES NOT APPLY", a.stderr[:200]); continue
    files = sh("git diff --name-only").stdout.split()
    b = sh("go build ./...")
    r1 = sh(meta["demo_cmd"])
    os.remove(f"{WT}/{ddir}/{demo}")
    s = sh("go test -vet=off -count=1 ./... 2>&1 | grep -v 'no test files' | grep -v '^ok' | head -5")
    ok = (r0.returncode == 0 and r1.returncode != 0 and b.returncode == 0 and s.stdout.strip() == "")
    print(name, "OK" if ok else "REJECT", "demo_without=%d demo_with=%d build=%d suite_fail=%r files=%s" % (r0.returncode, r1.returncode, b.returncode, s.stdout.strip()[:200], files))
    if ok:
        out = f"/verif/seeded/{name}"; os.makedirs(out, exist_ok=True)
        shutil.copy(f"{d}/patch.diff", out); shutil.copy(f"{d}/{demo}", out)
        meta["confirmed_by_main"] = {"demo_without_patch": "PASS", "demo_with_patch": "FAIL", "build_with_patch": "ok", "suite_with_patch": "all packages ok", "files_changed": files}
        meta["source"] = "independent sub-agent given only the property text and a scratch worktree"
        json.dump(meta, open(f"{out}/meta.json","w"), indent=1)
sh("git checkout -q -- . && git clean -fdq")
subprocess.run(["git","-C","/repo","worktree","remove","--force",WT])
shutil.rmtree("/tmp/ingest_tmp", ignore_errors=True)

#!/bin/bash
# usage: run_seeded.sh <seeded-dir> [property ...]   — applies patch.diff to a scratch worktree and runs the checks with -repo there
set -u
d=$(realpath $1); shift
WT=/tmp/wt_seeded_$$
git -C /repo worktree add -q --detach $WT HEAD || exit 3
trap 'git -C /repo worktree remove --force $WT' EXIT
git -C $WT apply $d/patch.diff || { echo "PATCH DOES NOT APPLY: $d"; exit 3; }
props="$@"
if [ -z "$props" ]; then props=$(python3 -c "import json;print(json.load(open('$d/meta.json'))['property'])"); fi
rc=0; mkdir -p /tmp/wt_seeded_ev_$$; cp /verif/known_findings.json /tmp/wt_seeded_ev_$$/
for p in $props; do
  HCSA_VERIF=/tmp/wt_seeded_ev_$$ ${HCSA_BIN:-/verif/bin/hcsa} check $p -repo $WT -verif /tmp/wt_seeded_ev_$$ | sed "s#$WT/##g" | grep -v '^    |' | cut -c1-400
  [ ${PIPESTATUS[0]} -ne 0 ] && rc=1
done
rm -rf /tmp/wt_seeded_ev_$$
exit $rc

#!/usr/bin/env python3
"""addfixed.py property rule commit what -- construct...  : records repaired defects in known_findings.json (status fixed; suppresses nothing)"""
import sys,json
prop,rule,commit,what=sys.argv[1:5]
p='/verif/known_findings.json'; d=json.load(open(p))
for c in sys.argv[5:]:
    if not any(f['property']==prop and f['rule']==rule and f['construct']==c for f in d['findings']):
        d['findings'].append({"property":prop,"rule":rule,"construct":c,"status":"fixed","commit":commit,"what":what})
json.dump(d,open(p,'w'),indent=1)
print(len(d['findings']))

#!/usr/bin/env python3
"""Regenerates MANIFEST.json from manifest_texts.py."""
import json
from manifest_texts import BUILT, T
ENV = "GOFLAGS=-mod=mod GOPROXY=off GOSUMDB=off GOTOOLCHAIN=local GOWORK=off"
m = {
 "version": 1,
 "setup_cmd": f"cd /verif/hcsa && {ENV} go build -o /verif/bin/hcsa .",
 "hooks": {
  "guard": "verif",
  "enable": "no hooks: every check is a static analysis of /repo's working tree; nothing in /repo is built with a tag",
  "baseline_off_cmd": "cd /repo && GOFLAGS=-mod=mod GOPROXY=off GOSUMDB=off go test -vet=off -count=1 -timeout 25m ./...",
  "source_commits": [],
  "add_only": True
 },
 "engines": [{"name": "hcsa", "path": "/verif/hcsa", "serves_properties": BUILT,
   "kind_free_text": "repository-specific static analyser over go/types + go/ssa + VTA call graph (golang.org/x/tools v0.29.0); rebuilds its view of /repo on every run, executes no hc code"}],
 "checks": [],
 "notes": "All checks are static analyses of /repo's current working tree; no hc code, test or solver is executed. Defects of the pinned tree were repaired by 57 'fix:' commits in /repo (see /verif/known_findings.json and DESIGN.md section 4). /verif/seeded holds the breaking changes used to test the checker (reverts of the fix commits and changes seeded by independent sub-agents in eight rounds, 377 in all, all detected by the check of their own property; first-pass detection of the last five rounds 25, 26, 24, 35 and 32 of 40, DESIGN.md section 9), /verif/benign the behaviour-preserving refactorings (all but the residuals documented in DESIGN.md section 10 are silent), /verif/hunt the demonstrations of the defect hunts (DESIGN.md section 4, rows 23-57). Seven findings are recorded, not repaired (C05-R4, C08-R5, C10-R1, C10-R2, C10-R3, C17-R4 x2: /verif/findings). The setup command builds the checker; if /verif/bin/hcsa is missing the registered commands fail, they do not fall back to anything.",
 "not_applicable": []
}
for pid in sorted(T):
    level, text, note, tech = T[pid]
    if pid not in BUILT:
        m["not_applicable"].append({"property_id": pid, "reason": "check under construction in this session; its structural clauses (DESIGN.md section 3) will be claimed once the rules are built"})
        continue
    m["checks"].append({
      "property_id": pid,
      "quick_cmd": f"/verif/bin/hcsa check {pid} -tier quick",
      "thorough_cmd": f"/verif/bin/hcsa check {pid} -tier thorough",
      "evidence_file": f"/verif/evidence/{pid}.json",
      "replay_cmd_template": "cat {path}",
      "engine": "hcsa",
      "level_claimed": {"category": level, "text": text, "design_ref": f"DESIGN.md section 3, {pid}"},
      "level_note": note,
      "technique": "static analysis: " + tech + "; run on the type-checked program after helper inlining (functions the reference tree does not know are inlined into their callers at source level) with renamed anchors recognised; phi-aware dominance and infeasible-path pruning",
    })
json.dump(m, open('/verif/MANIFEST.json', 'w'), indent=1)
print("checks:", len(m["checks"]), "not_applicable:", len(m["not_applicable"]))

#!/usr/bin/env python3
"""Regenerates MANIFEST.json from manifest_src.json (per-property texts) + the list of built checks."""
import json, sys
src = json.load(open('/verif/manifest_src.json'))
ENV = "GOFLAGS=-mod=mod GOPROXY=off GOSUMDB=off GOTOOLCHAIN=local GOWORK=off"
m = {
 "version": 1,
 "setup_cmd": f"cd /verif/hcsa && {ENV} go build -o /verif/bin/hcsa .",
 "hooks": {
  "guard": "verif",
  "enable": "no hooks: every check is a static analysis of /repo's working tree; nothing in /repo is built with a tag",
  "baseline_off_cmd": "cd /repo && GOFLAGS=-mod=mod GOPROXY=off GOSUMDB=off go test -vet=off -count=1 -timeout 25m ./...",
  "source_commits": [],
  "add_only": True
 },
 "engines": [{"name": "hcsa", "path": "/verif/hcsa", "serves_properties": [c["property_id"] for c in src["checks"]],
   "kind_free_text": "repository-specific static analyser over go/types + go/ssa + VTA call graph (golang.org/x/tools v0.29.0); rebuilds its view of /repo on every run, executes no hc code"}],
 "checks": [],
 "notes": src.get("notes", ""),
 "not_applicable": src.get("not_applicable", [])
}
for c in src["checks"]:
    pid = c["property_id"]
    m["checks"].append({
      "property_id": pid,
      "quick_cmd": f"/verif/bin/hcsa check {pid} -tier quick",
      "thorough_cmd": f"/verif/bin/hcsa check {pid} -tier thorough",
      "evidence_file": f"/verif/evidence/{pid}.json",
      "replay_cmd_template": "/verif/bin/hcsa explain {path}",
      "engine": "hcsa",
      "level_claimed": {"category": c["level"], "text": c["text"], "design_ref": c.get("design_ref", f"DESIGN.md section 3, {pid}")},
      "level_note": c["note"],
      "technique": c["technique"],
    })
json.dump(m, open('/verif/MANIFEST.json', 'w'), indent=1)
print("checks:", len(m["checks"]), "not_applicable:", len(m["not_applicable"]))

package accessory

import (
	"bytes"
	"testing"

	"github.com/brutella/hc/characteristic"
	"github.com/brutella/hc/service"
)

func huntAll() []*Accessory {
	info := Info{Name: "N", SerialNumber: "S", Manufacturer: "M", Model: "Mo", FirmwareRevision: "1.0", ID: 0}
	return []*Accessory{
		NewBridge(info).Accessory,
		NewCamera(info).Accessory,
		NewColoredLightbulb(info).Accessory,
		NewLightbulb(info).Accessory,
		NewOutlet(info).Accessory,
		NewSwitch(info).Accessory,
		NewTelevision(info).Accessory,
		NewTemperatureSensor(info, 20, 0, 100, 0.5).Accessory,
		NewThermostat(info, 20, 10, 30, 0.5).Accessory,
		NewWindow(info, 0).Accessory,
	}
}

func huntContainer() *Container {
	c := NewContainer()
	for _, a := range huntAll() {
		c.AddAccessory(a)
	}
	return c
}

func TestHuntHashIgnoresValues(t *testing.T) {
	c := huntContainer()
	h0 := c.ContentHash()
	if !bytes.Equal(h0, huntContainer().ContentHash()) {
		t.Fatal("hash not deterministic")
	}
	for round := 0; round < 4; round++ {
		for _, a := range c.Accessories {
			for _, s := range a.Services {
				for _, ch := range s.Characteristics {
					switch round {
					case 0:
						switch ch.Format {
						case characteristic.FormatBool:
							ch.UpdateValue(true)
						case characteristic.FormatFloat:
							ch.UpdateValue(17.25)
						case characteristic.FormatString, characteristic.FormatTLV8, characteristic.FormatData:
							ch.UpdateValue("AQID")
						default:
							ch.UpdateValue(1)
						}
					case 1:
						ch.UpdateValue(0)
					case 2:
						ch.Value = nil
					case 3:
						ch.Value = map[string]interface{}{"value": 1, "type": "x", "characteristics": []interface{}{map[string]interface{}{"iid": 1}}}
					}
					if h := c.ContentHash(); !bytes.Equal(h, h0) {
						t.Fatalf("round %d: value of aid %d iid %d type %s changed the hash", round, a.ID, ch.ID, ch.Type)
					}
				}
			}
		}
	}
}

func TestHuntHashSeesStructure(t *testing.T) {
	seen := map[string]string{}
	add := func(name string, c *Container) {
		h := string(c.ContentHash())
		if other, ok := seen[h]; ok {
			t.Errorf("structures %q and %q have the same hash", other, name)
		}
		seen[h] = name
	}
	mk := func(f func(a *Switch)) *Container {
		a := NewSwitch(Info{Name: "N"})
		f(a)
		c := NewContainer()
		c.AddAccessory(a.Accessory)
		return c
	}
	add("base", mk(func(a *Switch) {}))
	add("extra service", mk(func(a *Switch) { a.AddService(service.NewLightbulb().Service) }))
	add("extra char", mk(func(a *Switch) { a.Switch.AddCharacteristic(characteristic.NewName().Characteristic) }))
	add("perms", mk(func(a *Switch) { a.Switch.On.Perms = []string{characteristic.PermRead} }))
	add("perms order", mk(func(a *Switch) { a.Switch.On.Perms = []string{characteristic.PermRead, characteristic.PermEvents} }))
	add("format", mk(func(a *Switch) { a.Switch.On.Format = characteristic.FormatUInt8 }))
	add("unit", mk(func(a *Switch) { a.Switch.On.Unit = characteristic.UnitPercentage }))
	add("maxLen", mk(func(a *Switch) { a.Switch.On.MaxLen = 5 }))
	add("maxValue", mk(func(a *Switch) { a.Switch.On.MaxValue = 5 }))
	add("minValue", mk(func(a *Switch) { a.Switch.On.MinValue = 5 }))
	add("minStep", mk(func(a *Switch) { a.Switch.On.StepValue = 5 }))
	add("minStep 0.1", mk(func(a *Switch) { a.Switch.On.StepValue = 0.1 }))
	add("description", mk(func(a *Switch) { a.Switch.On.Description = "d" }))
	add("type", mk(func(a *Switch) { a.Switch.On.Type = "FF" }))
	add("service type", mk(func(a *Switch) { a.Switch.Type = "FF" }))
	add("hidden", mk(func(a *Switch) { a.Switch.Hidden = true }))
	add("primary", mk(func(a *Switch) { a.Switch.Primary = true }))
	add("linked", mk(func(a *Switch) { a.Switch.AddLinkedService(a.Info.Service) }))
	add("aid 7", mk(func(a *Switch) { a.ID = 7 }))
	add("aid 2^53", mk(func(a *Switch) { a.ID = 1 << 53 }))
	add("aid 2^53+1", mk(func(a *Switch) { a.ID = 1<<53 + 1 }))
	add("swap services", mk(func(a *Switch) { a.Services[0], a.Services[1] = a.Services[1], a.Services[0] }))

	two := func(swap bool) *Container {
		a := NewSwitch(Info{Name: "A"})
		b := NewOutlet(Info{Name: "B"})
		c := NewContainer()
		if swap {
			c.AddAccessory(b.Accessory)
			c.AddAccessory(a.Accessory)
		} else {
			c.AddAccessory(a.Accessory)
			c.AddAccessory(b.Accessory)
		}
		return c
	}
	add("two", two(false))
	add("two swapped", two(true))
}

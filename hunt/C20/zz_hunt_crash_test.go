package hc

import (
	"os"
	"testing"

	"github.com/brutella/hc/accessory"
	"github.com/brutella/hc/db"
	"github.com/brutella/hc/hap"
	"github.com/brutella/hc/service"
	"github.com/brutella/hc/util"
)

type huntKilled struct{}

// huntCrashStorage forwards to a file storage and "kills the process" (panics) right before the
// n-th Set call.
type huntCrashStorage struct {
	util.Storage
	left int
}

func (s *huntCrashStorage) Set(k string, v []byte) error {
	if s.left == 0 {
		panic(huntKilled{})
	}
	s.left--
	return s.Storage.Set(k, v)
}

// huntBoot replays the storage related statements of NewIPTransport (ip_transport.go:75-128) in the
// same order on the given storage and returns the resulting config.
func huntBoot(storage util.Storage, a *accessory.Accessory) (cfg *Config, entities int, killed bool) {
	defer func() {
		if r := recover(); r != nil {
			if _, ok := r.(huntKilled); !ok {
				panic(r)
			}
			killed = true
		}
	}()
	cfg = defaultConfig("Sw")
	database := db.NewDatabaseWithStorage(storage)
	cfg.load(storage)
	if _, err := hap.NewSecuredDevice(cfg.id, "001-02-003", database); err != nil {
		panic(err)
	}
	c := accessory.NewContainer()
	c.AddAccessory(a)
	es, _ := database.Entities()
	entities = len(es)
	if len(es) > 1 {
		cfg.discoverable = false
	}
	cfg.updateConfigHash(c.ContentHash())
	cfg.save(storage)
	return
}

func huntAcc(extra bool) *accessory.Accessory {
	a := accessory.NewSwitch(accessory.Info{Name: "Sw"})
	if extra {
		a.AddService(service.NewLightbulb().Service)
	}
	return a.Accessory
}

// kill at every Set of the run that notices a structural change, then restart with the same structure
func TestHuntCrashDuringSaveVersion(t *testing.T) {
	for kill := 0; kill < 4; kill++ {
		d := huntDir(t)
		fs, _ := util.NewFileStorage(d)
		cfg, _, _ := huntBoot(fs, huntAcc(false)) // run 1, structure A
		if cfg.version != 1 {
			t.Fatal(cfg.version)
		}
		_, _, killed := huntBoot(&huntCrashStorage{fs, kill}, huntAcc(true)) // run 2, structure B, killed
		cfg3, _, _ := huntBoot(fs, huntAcc(true))                            // run 3, structure B
		cfg4, _, _ := huntBoot(fs, huntAcc(true))                            // run 4, structure B
		t.Logf("killed before Set #%d (killed=%v): version after run3=%d run4=%d", kill+1, killed, cfg3.version, cfg4.version)
		if cfg3.version != 2 || cfg4.version != 2 {
			t.Errorf("kill before Set #%d: one structural change A->B, version went 1 -> %d -> %d", kill+1, cfg3.version, cfg4.version)
		}
		os.RemoveAll(d)
	}
}

// kill at every Set of the very first run
func TestHuntCrashDuringFirstStart(t *testing.T) {
	for kill := 0; kill < 5; kill++ {
		d := huntDir(t)
		fs, _ := util.NewFileStorage(d)
		_, _, killed := huntBoot(&huntCrashStorage{fs, kill}, huntAcc(false))
		cfg2, n, _ := huntBoot(fs, huntAcc(false))
		t.Logf("killed before Set #%d (killed=%v): entities=%d discoverable=%v", kill+1, killed, n, cfg2.discoverable)
		if !cfg2.discoverable {
			t.Errorf("kill before Set #%d of the first start: no controller stored, %d entities, sf=%s", kill+1, n, cfg2.txtRecords()["sf"])
		}
		os.RemoveAll(d)
	}
}

package hc

import (
	"testing"

	"github.com/brutella/hc/util"
)

func TestHuntValidatePinAll(t *testing.T) {
	trivial := map[string]bool{"12345678": true, "87654321": true}
	for d := byte('0'); d <= '9'; d++ {
		trivial[string([]byte{d, d, d, d, d, d, d, d})] = true
	}
	buf := make([]byte, 8)
	// run once with step 1 (40s, passed); step 7 keeps the suite short but still hits all trivial codes below
	for code := 0; code < 100000000; code += huntStep(code) {
		v := code
		for i := 7; i >= 0; i-- {
			buf[i] = byte('0' + v%10)
			v /= 10
		}
		s := string(buf)
		f, err := ValidatePin(s)
		if trivial[s] != (err != nil) {
			t.Fatalf("%s: err=%v", s, err)
		}
		if err == nil && f != s[:3]+"-"+s[3:5]+"-"+s[5:] {
			t.Fatalf("%s -> %s", s, f)
		}
	}
}

func TestHuntValidatePinOthers(t *testing.T) {
	for _, s := range []string{"", "1", "1234567", "123456789", "001-02-003", "0010200a", " 0102003", "0010200 ", "+0102003", "-0102003",
		"0010200\n", "0010200\x00", "１２３４５６７８", "١٢٣٤٥٦٧٨", "0010２", "00102003\n", "0x102003", "1e234567", "0010.003", "٠٠١٠٢٠٠٣", "\xff\xff\xff\xff\xff\xff\xff\xff", "1234567８"} {
		if f, err := ValidatePin(s); err == nil {
			t.Errorf("%q accepted as %q", s, f)
		}
	}
}

// the uri of a config decodes to the config's pin, category, flag and setup id
func TestHuntConfigXHMURI(t *testing.T) {
	cfg := defaultConfig("x")
	cfg.merge(Config{Pin: "01234567", SetupId: "Q1W2"})
	cfg.categoryId = 32
	uri, err := cfg.XHMURI(util.SetupFlagIP)
	if err != nil {
		t.Fatal(err)
	}
	want, _ := util.XHMURI("01234567", "Q1W2", 32, []util.SetupFlag{util.SetupFlagIP})
	if uri != want {
		t.Fatal(uri, want)
	}
}

func huntStep(code int) int {
	if code%11111111 < 3 || code%11111111 > 11111107 || (code > 12345670 && code < 12345690) || (code > 87654310 && code < 87654330) {
		return 1
	}
	return 7
}

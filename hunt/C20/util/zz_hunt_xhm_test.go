package util

import (
	"strings"
	"testing"
)

func huntDecode(t *testing.T, uri string) (version, reserved, cat, flags, code uint64, setupID string) {
	if !strings.HasPrefix(uri, "X-HM://") {
		t.Fatalf("prefix %q", uri)
	}
	rest := uri[len("X-HM://"):]
	if len(rest) < 9 {
		t.Fatalf("short %q", uri)
	}
	var p uint64
	for _, ch := range rest[:9] {
		var d uint64
		switch {
		case ch >= '0' && ch <= '9':
			d = uint64(ch - '0')
		case ch >= 'A' && ch <= 'Z':
			d = uint64(ch-'A') + 10
		default:
			t.Fatalf("bad char %q", uri)
		}
		p = p*36 + d
	}
	code = p & 0x7ffffff
	p >>= 27
	flags = p & 0xf
	p >>= 4
	cat = p & 0xff
	p >>= 8
	reserved = p & 0xf
	p >>= 4
	version = p
	return version, reserved, cat, flags, code, rest[9:]
}

func TestHuntXHMAllCodes(t *testing.T) {
	buf := make([]byte, 8)
	for code := uint64(0); code < 100000000; code += 1 {
		if code%7 != 0 && code > 1000000 && code < 99000000 {
			continue
		}
		v := code
		for i := 7; i >= 0; i-- {
			buf[i] = byte('0' + v%10)
			v /= 10
		}
		cat := uint8(code % 256)
		fl := SetupFlag(code % 16)
		uri, err := XHMURI(string(buf), "AB1Z", cat, []SetupFlag{fl})
		if err != nil {
			t.Fatal(err)
		}
		ver, res, c, f, cd, id := huntDecode(t, uri)
		if ver != 0 || res != 0 || c != uint64(cat) || f != uint64(fl) || cd != code || id != "AB1Z" {
			t.Fatalf("code %s cat %d flags %d -> %s decodes to %d %d %d %d %d %s", buf, cat, fl, uri, ver, res, c, f, cd, id)
		}
	}
}

func TestHuntXHMFlagsCatsIds(t *testing.T) {
	all := []SetupFlag{SetupFlagNone, SetupFlagNFC, SetupFlagIP, SetupFlagBTLE, SetupFlagIPWAC}
	for cat := 0; cat < 256; cat++ {
		for mask := 0; mask < 32; mask++ {
			var fs []SetupFlag
			var want uint64
			for i, f := range all {
				if mask&(1<<uint(i)) != 0 {
					fs = append(fs, f)
					want |= uint64(f)
				}
			}
			for _, id := range []string{"", "HOME", "0000", "ZZZZ", "abcd", "X-HM", "A B"} {
				for _, pin := range []string{"00000001", "99999998", "00102003", "031-45-154"} {
					uri, err := XHMURI(pin, id, uint8(cat), fs)
					if err != nil {
						t.Fatal(err)
					}
					_, _, c, f, cd, sid := huntDecode(t, uri)
					wantCode := map[string]uint64{"00000001": 1, "99999998": 99999998, "00102003": 102003, "031-45-154": 3145154}[pin]
					if c != uint64(cat) || f != want || cd != wantCode || sid != id {
						t.Fatalf("%s %s %d %v -> %s : %d %d %d %q", pin, id, cat, fs, uri, c, f, cd, sid)
					}
				}
			}
		}
	}
}

package hc

import (
	"net"
	"os"
	"testing"

	"github.com/brutella/hc/accessory"
	"github.com/brutella/hc/db"
)

// A start that fails after the device entity was written leaves an entity behind; the next
// start creates a second id and counts the left-over as a controller.
func TestHuntFailedStartThenStart(t *testing.T) {
	d := huntDir(t)
	defer os.RemoveAll(d)

	// another process owns the mDNS port exclusively
	c4, err4 := net.ListenUDP("udp4", &net.UDPAddr{IP: net.IPv4zero, Port: 5353})
	c6, err6 := net.ListenUDP("udp6", &net.UDPAddr{IP: net.IPv6unspecified, Port: 5353})
	if err4 != nil && err6 != nil {
		t.Skip("cannot occupy 5353", err4, err6)
	}
	a := accessory.NewSwitch(accessory.Info{Name: "Sw"})
	_, err := NewIPTransport(Config{StoragePath: d}, a.Accessory)
	if c4 != nil {
		c4.Close()
	}
	if c6 != nil {
		c6.Close()
	}
	if err == nil {
		t.Skip("start did not fail")
	}
	t.Logf("first start failed as arranged: %v", err)

	tr := huntMk(t, d, false)
	database := db.NewDatabaseWithStorage(tr.storage)
	es, _ := database.Entities()
	t.Logf("entities stored: %d, controllers stored: 0", len(es))
	if sf := tr.config.txtRecords()["sf"]; sf != "1" {
		t.Fatalf("no controller was ever paired but sf=%s (isPaired=%v, %d entities)", sf, tr.isPaired(), len(es))
	}
}

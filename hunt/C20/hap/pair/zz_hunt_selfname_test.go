package pair

import (
	"bytes"
	"testing"

	"github.com/brutella/hc/db"
	"github.com/brutella/hc/hap"
	"github.com/brutella/hc/util"
)

// A controller that runs pair-setup (it only needs the setup code) with the accessory's own
// identifier as its pairing identifier: the accessory's long-term key pair is gone after a restart.
func TestHuntPairSetupWithAccessoryId(t *testing.T) {
	storage, err := util.NewTempFileStorage()
	if err != nil {
		t.Fatal(err)
	}
	id := "CA:FB:F2:01:79:C0"
	database := db.NewDatabaseWithStorage(storage)
	acc, err := hap.NewSecuredDevice(id, "001-02-003", database)
	if err != nil {
		t.Fatal(err)
	}
	pub := append([]byte{}, acc.PublicKey()...)
	priv := append([]byte{}, acc.PrivateKey()...)

	controller, err := NewSetupServerController(acc, database)
	if err != nil {
		t.Fatal(err)
	}
	clientDatabase, _ := db.NewTempDatabase()
	client, _ := hap.NewDevice(id, clientDatabase) // controller uses the accessory's id as its name
	clientController := NewSetupClientController("001-02-003", client, clientDatabase)

	r := clientController.InitialPairingRequest()
	for i := 0; i < 3; i++ {
		if r, err = HandleReaderForHandler(r, controller); err != nil {
			t.Fatal(err)
		}
		if r, err = HandleReaderForHandler(r, clientController); err != nil {
			t.Fatal(err)
		}
	}

	// restart on the same storage
	acc2, err := hap.NewSecuredDevice(id, "001-02-003", db.NewDatabaseWithStorage(storage))
	if err != nil {
		t.Fatal(err)
	}
	if !bytes.Equal(acc2.PublicKey(), pub) || !bytes.Equal(acc2.PrivateKey(), priv) {
		t.Fatalf("key pair after restart differs: public %x -> %x, private key length %d -> %d", pub, acc2.PublicKey(), len(priv), len(acc2.PrivateKey()))
	}
}

package hc

import (
	"bytes"
	"fmt"
	"io/ioutil"
	"net/http/httptest"
	"os"
	"testing"
	"time"

	"github.com/brutella/hc/accessory"
	"github.com/brutella/hc/hap/endpoint"
	"github.com/brutella/hc/hap/pair"
	"github.com/brutella/hc/service"
	"github.com/brutella/hc/util"
)

func huntDir(t *testing.T) string {
	d, err := ioutil.TempDir("", "hunt")
	if err != nil {
		t.Fatal(err)
	}
	return d
}

func huntMk(t *testing.T, d string, extra bool) *ipTransport {
	a := accessory.NewSwitch(accessory.Info{Name: "Sw"})
	if extra {
		a.AddService(service.NewLightbulb().Service)
	}
	tr, err := NewIPTransport(Config{StoragePath: d}, a.Accessory)
	if err != nil {
		t.Fatal(err)
	}
	return tr
}

// the same request path the http server uses for POST /pairings
func huntPairings(t *testing.T, tr *ipTransport, method pair.PairMethodType, name string, key []byte) {
	if code := huntPairingsCode(t, tr, method, name, key); code != 200 {
		t.Fatalf("pairings status %d", code)
	}
}

func huntPairingsCode(t *testing.T, tr *ipTransport, method pair.PairMethodType, name string, key []byte) int {
	in := util.NewTLV8Container()
	in.SetByte(pair.TagPairingMethod, method.Byte())
	in.SetByte(pair.TagSequence, 0x01)
	in.SetByte(pair.TagPermission, pair.AdminPerm)
	in.SetString(pair.TagUsername, name)
	if key != nil {
		in.SetBytes(pair.TagPublicKey, key)
	}
	ep := endpoint.NewPairing(pair.NewPairingController(tr.database), tr.emitter)
	req := httptest.NewRequest("POST", "/pairings", in.BytesBuffer())
	rec := httptest.NewRecorder()
	ep.ServeHTTP(rec, req)
	return rec.Code
}

func huntControllers(t *testing.T, tr *ipTransport) int {
	es, err := tr.database.Entities()
	if err != nil {
		t.Fatal(err)
	}
	n := 0
	for _, e := range es {
		if len(e.PrivateKey) == 0 {
			n++
		}
	}
	return n
}

func TestHuntRestartBasic(t *testing.T) {
	d := huntDir(t)
	defer os.RemoveAll(d)
	t1 := huntMk(t, d, false)
	t2 := huntMk(t, d, false)
	if t1.config.id != t2.config.id {
		t.Fatalf("id changed")
	}
	if string(t1.device.PrivateKey()) != string(t2.device.PrivateKey()) {
		t.Fatalf("key changed")
	}
	if t1.config.version != 1 || t2.config.version != 1 {
		t.Fatalf("version %d %d", t1.config.version, t2.config.version)
	}
}

// pair / unpair / restart: sf follows the stored controllers
func TestHuntDiscoverableHistory(t *testing.T) {
	d := huntDir(t)
	defer os.RemoveAll(d)
	tr := huntMk(t, d, false)
	check := func(tr *ipTransport, where string) {
		want := "1"
		if huntControllers(t, tr) > 0 {
			want = "0"
		}
		if got := tr.config.txtRecords()["sf"]; got != want {
			t.Fatalf("%s: sf=%s want %s", where, got, want)
		}
	}
	check(tr, "fresh")
	huntPairings(t, tr, pair.PairingMethodAdd, "ctrl-A", []byte{1, 2, 3})
	check(tr, "after add A")
	huntPairings(t, tr, pair.PairingMethodAdd, "ctrl-B", []byte{1, 2, 4})
	check(tr, "after add B")
	tr = huntMk(t, d, false)
	check(tr, "restart paired")
	huntPairings(t, tr, pair.PairingMethodDelete, "ctrl-A", nil)
	check(tr, "after del A")
	huntPairings(t, tr, pair.PairingMethodDelete, "ctrl-B", nil)
	check(tr, "after del B")
	huntPairings(t, tr, pair.PairingMethodDelete, "ctrl-B", nil)
	check(tr, "after del B again")
	tr = huntMk(t, d, false)
	check(tr, "restart unpaired")
	huntPairings(t, tr, pair.PairingMethodAdd, "", []byte{1, 2, 4})
	check(tr, "after add empty name")
	tr = huntMk(t, d, false)
	check(tr, "restart empty-name")
}

// A controller that registers under the accessory's own id replaces the accessory's key pair.
func TestHuntPairWithAccessoryIdKeepsKeyPair(t *testing.T) {
	d := huntDir(t)
	defer os.RemoveAll(d)
	tr := huntMk(t, d, false)
	id := tr.config.id
	pub := append([]byte{}, tr.device.PublicKey()...)
	priv := append([]byte{}, tr.device.PrivateKey()...)

	huntPairings(t, tr, pair.PairingMethodAdd, "ctrl-A", []byte{9, 9, 9})
	huntPairingsCode(t, tr, pair.PairingMethodAdd, id, bytes.Repeat([]byte{7}, 32)) // may be refused

	tr2 := huntMk(t, d, false)
	if tr2.config.id != id {
		t.Fatalf("id changed")
	}
	if !bytes.Equal(tr2.device.PublicKey(), pub) || !bytes.Equal(tr2.device.PrivateKey(), priv) {
		t.Fatalf("long-term key pair not kept across restart:\n pub  before %x\n pub  after  %x\n priv before len %d\n priv after  len %d",
			pub, tr2.device.PublicKey(), len(priv), len(tr2.device.PrivateKey()))
	}
}

// Removing the "pairing" named like the accessory removes the accessory's own entity.
func TestHuntUnpairAccessoryIdKeepsKeyPair(t *testing.T) {
	d := huntDir(t)
	defer os.RemoveAll(d)
	tr := huntMk(t, d, false)
	id := tr.config.id
	pub := append([]byte{}, tr.device.PublicKey()...)

	huntPairings(t, tr, pair.PairingMethodAdd, "ctrl-A", []byte{9, 9, 9})
	huntPairingsCode(t, tr, pair.PairingMethodDelete, id, nil) // may be refused

	if n := huntControllers(t, tr); n != 1 {
		t.Fatalf("controllers %d", n)
	}
	if sf := tr.config.txtRecords()["sf"]; sf != "0" {
		t.Errorf("controller ctrl-A is stored but sf=%s", sf)
	}
	tr2 := huntMk(t, d, false)
	if !bytes.Equal(tr2.device.PublicKey(), pub) {
		t.Errorf("long-term key pair not kept across restart: %x -> %x", pub, tr2.device.PublicKey())
	}
}

// version: +1 exactly on structural change, values irrelevant
func TestHuntVersionHistory(t *testing.T) {
	d := huntDir(t)
	defer os.RemoveAll(d)
	seq := []bool{false, false, true, true, false, true, true, false, false}
	var prev bool
	var want int64 = 1
	for i, extra := range seq {
		if i > 0 && extra != prev {
			want++
		}
		prev = extra
		a := accessory.NewSwitch(accessory.Info{Name: "Sw"})
		if extra {
			a.AddService(service.NewLightbulb().Service)
		}
		a.Switch.On.SetValue(i%2 == 0)
		a.Info.SerialNumber.SetValue(string(rune('a' + i)))
		tr, err := NewIPTransport(Config{StoragePath: d}, a.Accessory)
		if err != nil {
			t.Fatal(err)
		}
		if tr.config.version != want {
			t.Fatalf("step %d: version %d want %d", i, tr.config.version, want)
		}
		if got := tr.config.txtRecords()["c#"]; got != fmt.Sprint(want) {
			t.Fatalf("step %d: c# %s", i, got)
		}
	}
}

// two configurations that differ in an accessory id
func TestHuntVersionLargeAid(t *testing.T) {
	d := huntDir(t)
	defer os.RemoveAll(d)
	var last int64
	for i, aid := range []uint64{1 << 53, 1<<53 + 1} {
		a := accessory.NewSwitch(accessory.Info{Name: "Sw", ID: aid})
		tr, err := NewIPTransport(Config{StoragePath: d}, a.Accessory)
		if err != nil {
			t.Fatal(err)
		}
		if tr.container.Accessories[0].ID != aid {
			t.Fatal("aid")
		}
		if i == 1 && tr.config.version != last+1 {
			t.Fatalf("aid changed from %d to %d between the runs, c# %d -> %d", uint64(1<<53), aid, last, tr.config.version)
		}
		last = tr.config.version
	}
}

// TXT records actually handed to the responder while running
func huntRunningTXT(t *testing.T, settle time.Duration) {
	d := huntDir(t)
	defer os.RemoveAll(d)
	tr := huntMk(t, d, false)
	go tr.Start()
	for i := 0; i < 200 && tr.handle == nil; i++ {
		time.Sleep(10 * time.Millisecond)
	}
	if tr.handle == nil {
		t.Skip("not started")
	}
	time.Sleep(settle)
	sf := func() string { return tr.handle.Service().Text["sf"] }
	if sf() != "1" {
		t.Errorf("fresh sf=%s", sf())
	}
	huntPairings(t, tr, pair.PairingMethodAdd, "ctrl-A", []byte{1})
	if sf() != "0" {
		t.Errorf("paired sf=%s", sf())
	}
	time.Sleep(3 * time.Second)
	if sf() != "0" {
		t.Errorf("paired, 3s later: sf=%s (config says %s)", sf(), tr.config.txtRecords()["sf"])
	}
	huntPairings(t, tr, pair.PairingMethodAdd, "ctrl-B", []byte{1})
	huntPairings(t, tr, pair.PairingMethodDelete, "ctrl-A", nil)
	if sf() != "0" {
		t.Errorf("one left sf=%s", sf())
	}
	huntPairings(t, tr, pair.PairingMethodDelete, "ctrl-B", nil)
	if sf() != "1" {
		t.Errorf("unpaired sf=%s", sf())
	}
	select {
	case <-tr.Stop():
	case <-time.After(10 * time.Second):
		t.Log("stop timeout")
	}
}

func TestHuntRunningTXTSettled(t *testing.T)   { huntRunningTXT(t, 6*time.Second) }
func TestHuntRunningTXTImmediate(t *testing.T) { huntRunningTXT(t, 0) }

package service

import (
	"encoding/json"
	"fmt"
	"io/ioutil"
	"reflect"
	"sort"
	"strings"
	"testing"

	"github.com/brutella/hc/characteristic"
)

type huntMeta struct {
	Characteristics []struct {
		Name string
		UUID string
	}
	Services []struct {
		RequiredCharacteristics []string
		OptionalCharacteristics []string
		Name                    string
		UUID                    string
	}
}

var huntDeclared = map[string]string{"NewCooler": TypeHeaterCooler, "NewHeater": TypeHeaterCooler, "NewColoredLightbulb": TypeLightbulb}

var huntCtors = map[string]func() (*Service, interface{}, string){
	"NewAccessoryInformation": func() (*Service, interface{}, string) {
		s := NewAccessoryInformation()
		return s.Service, s, TypeAccessoryInformation
	},
	"NewAirPurifier": func() (*Service, interface{}, string) { s := NewAirPurifier(); return s.Service, s, TypeAirPurifier },
	"NewAirQualitySensor": func() (*Service, interface{}, string) {
		s := NewAirQualitySensor()
		return s.Service, s, TypeAirQualitySensor
	},
	"NewBatteryService": func() (*Service, interface{}, string) {
		s := NewBatteryService()
		return s.Service, s, TypeBatteryService
	},
	"NewBridgeConfiguration": func() (*Service, interface{}, string) {
		s := NewBridgeConfiguration()
		return s.Service, s, TypeBridgeConfiguration
	},
	"NewBridgingState": func() (*Service, interface{}, string) {
		s := NewBridgingState()
		return s.Service, s, TypeBridgingState
	},
	"NewCameraControl": func() (*Service, interface{}, string) {
		s := NewCameraControl()
		return s.Service, s, TypeCameraControl
	},
	"NewCameraRTPStreamManagement": func() (*Service, interface{}, string) {
		s := NewCameraRTPStreamManagement()
		return s.Service, s, TypeCameraRTPStreamManagement
	},
	"NewCameraRecordingManagement": func() (*Service, interface{}, string) {
		s := NewCameraRecordingManagement()
		return s.Service, s, TypeCameraRecordingManagement
	},
	"NewCarbonDioxideSensor": func() (*Service, interface{}, string) {
		s := NewCarbonDioxideSensor()
		return s.Service, s, TypeCarbonDioxideSensor
	},
	"NewCarbonMonoxideSensor": func() (*Service, interface{}, string) {
		s := NewCarbonMonoxideSensor()
		return s.Service, s, TypeCarbonMonoxideSensor
	},
	"NewColoredLightbulb": func() (*Service, interface{}, string) {
		s := NewColoredLightbulb()
		return s.Service, s, huntDeclared["NewColoredLightbulb"]
	},
	"NewContactSensor": func() (*Service, interface{}, string) {
		s := NewContactSensor()
		return s.Service, s, TypeContactSensor
	},
	"NewCooler": func() (*Service, interface{}, string) {
		s := NewCooler()
		return s.Service, s, huntDeclared["NewCooler"]
	},
	"NewDoor":     func() (*Service, interface{}, string) { s := NewDoor(); return s.Service, s, TypeDoor },
	"NewDoorbell": func() (*Service, interface{}, string) { s := NewDoorbell(); return s.Service, s, TypeDoorbell },
	"NewFan":      func() (*Service, interface{}, string) { s := NewFan(); return s.Service, s, TypeFan },
	"NewFanV2":    func() (*Service, interface{}, string) { s := NewFanV2(); return s.Service, s, TypeFanV2 },
	"NewFaucet":   func() (*Service, interface{}, string) { s := NewFaucet(); return s.Service, s, TypeFaucet },
	"NewFilterMaintenance": func() (*Service, interface{}, string) {
		s := NewFilterMaintenance()
		return s.Service, s, TypeFilterMaintenance
	},
	"NewGarageDoorOpener": func() (*Service, interface{}, string) {
		s := NewGarageDoorOpener()
		return s.Service, s, TypeGarageDoorOpener
	},
	"NewHeater": func() (*Service, interface{}, string) {
		s := NewHeater()
		return s.Service, s, huntDeclared["NewHeater"]
	},
	"NewHeaterCooler": func() (*Service, interface{}, string) { s := NewHeaterCooler(); return s.Service, s, TypeHeaterCooler },
	"NewHumidifierDehumidifier": func() (*Service, interface{}, string) {
		s := NewHumidifierDehumidifier()
		return s.Service, s, TypeHumidifierDehumidifier
	},
	"NewHumiditySensor": func() (*Service, interface{}, string) {
		s := NewHumiditySensor()
		return s.Service, s, TypeHumiditySensor
	},
	"NewInputSource": func() (*Service, interface{}, string) { s := NewInputSource(); return s.Service, s, TypeInputSource },
	"NewIrrigationSystem": func() (*Service, interface{}, string) {
		s := NewIrrigationSystem()
		return s.Service, s, TypeIrrigationSystem
	},
	"NewLeakSensor":  func() (*Service, interface{}, string) { s := NewLeakSensor(); return s.Service, s, TypeLeakSensor },
	"NewLightSensor": func() (*Service, interface{}, string) { s := NewLightSensor(); return s.Service, s, TypeLightSensor },
	"NewLightbulb":   func() (*Service, interface{}, string) { s := NewLightbulb(); return s.Service, s, TypeLightbulb },
	"NewLockManagement": func() (*Service, interface{}, string) {
		s := NewLockManagement()
		return s.Service, s, TypeLockManagement
	},
	"NewLockMechanism": func() (*Service, interface{}, string) {
		s := NewLockMechanism()
		return s.Service, s, TypeLockMechanism
	},
	"NewMicrophone":   func() (*Service, interface{}, string) { s := NewMicrophone(); return s.Service, s, TypeMicrophone },
	"NewMotionSensor": func() (*Service, interface{}, string) { s := NewMotionSensor(); return s.Service, s, TypeMotionSensor },
	"NewOccupancySensor": func() (*Service, interface{}, string) {
		s := NewOccupancySensor()
		return s.Service, s, TypeOccupancySensor
	},
	"NewOutlet": func() (*Service, interface{}, string) { s := NewOutlet(); return s.Service, s, TypeOutlet },
	"NewSecuritySystem": func() (*Service, interface{}, string) {
		s := NewSecuritySystem()
		return s.Service, s, TypeSecuritySystem
	},
	"NewServiceLabel": func() (*Service, interface{}, string) { s := NewServiceLabel(); return s.Service, s, TypeServiceLabel },
	"NewSlat":         func() (*Service, interface{}, string) { s := NewSlat(); return s.Service, s, TypeSlat },
	"NewSmokeSensor":  func() (*Service, interface{}, string) { s := NewSmokeSensor(); return s.Service, s, TypeSmokeSensor },
	"NewSpeaker":      func() (*Service, interface{}, string) { s := NewSpeaker(); return s.Service, s, TypeSpeaker },
	"NewStatefulProgrammableSwitch": func() (*Service, interface{}, string) {
		s := NewStatefulProgrammableSwitch()
		return s.Service, s, TypeStatefulProgrammableSwitch
	},
	"NewStatelessProgrammableSwitch": func() (*Service, interface{}, string) {
		s := NewStatelessProgrammableSwitch()
		return s.Service, s, TypeStatelessProgrammableSwitch
	},
	"NewSwitch":     func() (*Service, interface{}, string) { s := NewSwitch(); return s.Service, s, TypeSwitch },
	"NewTelevision": func() (*Service, interface{}, string) { s := NewTelevision(); return s.Service, s, TypeTelevision },
	"NewTemperatureSensor": func() (*Service, interface{}, string) {
		s := NewTemperatureSensor()
		return s.Service, s, TypeTemperatureSensor
	},
	"NewThermostat": func() (*Service, interface{}, string) { s := NewThermostat(); return s.Service, s, TypeThermostat },
	"NewTimeInformation": func() (*Service, interface{}, string) {
		s := NewTimeInformation()
		return s.Service, s, TypeTimeInformation
	},
	"NewTunneledBTLEAccessoryService": func() (*Service, interface{}, string) {
		s := NewTunneledBTLEAccessoryService()
		return s.Service, s, TypeTunneledBTLEAccessoryService
	},
	"NewValve": func() (*Service, interface{}, string) { s := NewValve(); return s.Service, s, TypeValve },
	"NewWifiTransport": func() (*Service, interface{}, string) {
		s := NewWifiTransport()
		return s.Service, s, TypeWifiTransport
	},
	"NewWindow": func() (*Service, interface{}, string) { s := NewWindow(); return s.Service, s, TypeWindow },
	"NewWindowCovering": func() (*Service, interface{}, string) {
		s := NewWindowCovering()
		return s.Service, s, TypeWindowCovering
	},
}

func huntMinify(u string) string {
	i := strings.Index(u, "-")
	return strings.TrimLeft(u[:i], "0")
}

func huntCall(name string) (s *Service, full interface{}, typ string, err error) {
	defer func() {
		if r := recover(); r != nil {
			err = fmt.Errorf("%s panics: %v", name, r)
		}
	}()
	s, full, typ = huntCtors[name]()
	return
}

func TestHuntServices(t *testing.T) {
	b, err := ioutil.ReadFile("../gen/metadata.json")
	if err != nil {
		t.Fatal(err)
	}
	var m huntMeta
	if err := json.Unmarshal(b, &m); err != nil {
		t.Fatal(err)
	}
	if len(m.Services) != 43 {
		t.Errorf("%d services in metadata", len(m.Services))
	}
	charName := map[string]string{}
	for _, c := range m.Characteristics {
		charName[c.UUID] = c.Name
	}
	names := []string{}
	for n := range huntCtors {
		names = append(names, n)
	}
	sort.Strings(names)
	byType := map[string][]string{}
	objs := map[string]*Service{}
	for _, n := range names {
		s, full, typ, err := huntCall(n)
		if err != nil {
			t.Error(err)
			continue
		}
		if s == nil {
			t.Errorf("%s: nil Service", n)
			continue
		}
		objs[n] = s
		byType[s.Type] = append(byType[s.Type], n)
		if s.Type != typ {
			t.Errorf("%s: Type %q declared %q", n, s.Type, typ)
		}
		if len(s.Characteristics) == 0 {
			t.Errorf("%s: no characteristics", n)
		}
		seen := map[string]bool{}
		ptrs := map[*characteristic.Characteristic]bool{}
		for i, c := range s.Characteristics {
			if c == nil {
				t.Errorf("%s: characteristic %d nil", n, i)
				continue
			}
			if seen[c.Type] {
				t.Errorf("%s: two characteristics of type %s", n, c.Type)
			}
			seen[c.Type] = true
			ptrs[c] = true
		}
		// every exported characteristic field is non-nil and is in the list
		v := reflect.ValueOf(full).Elem()
		huntFields(t, n, v, ptrs)
		if _, err := json.Marshal(s); err != nil {
			t.Errorf("%s: marshal: %v", n, err)
		}
	}
	for _, ms := range m.Services {
		typ := huntMinify(ms.UUID)
		ns := byType[typ]
		if len(ns) == 0 {
			t.Errorf("metadata service %q (%s): no constructor", ms.Name, typ)
		}
		for _, u := range append(append([]string{}, ms.RequiredCharacteristics...), ms.OptionalCharacteristics...) {
			if _, ok := charName[u]; !ok {
				t.Errorf("metadata service %q refers to unknown characteristic %s", ms.Name, u)
			}
		}
		for _, n := range ns {
			s := objs[n]
			have := map[string]bool{}
			for _, c := range s.Characteristics {
				have[c.Type] = true
			}
			allowed := map[string]bool{}
			for _, u := range ms.RequiredCharacteristics {
				allowed[huntMinify(u)] = true
				if !have[huntMinify(u)] {
					t.Errorf("%s: required characteristic %q (%s) missing", n, charName[u], huntMinify(u))
				}
			}
			for _, u := range ms.OptionalCharacteristics {
				allowed[huntMinify(u)] = true
			}
			for ty := range have {
				if !allowed[ty] {
					t.Logf("note: %s contains %s which metadata lists neither as required nor optional", n, ty)
				}
			}
		}
	}
	for typ, ns := range byType {
		found := false
		for _, ms := range m.Services {
			if huntMinify(ms.UUID) == typ {
				found = true
			}
		}
		if !found {
			t.Logf("constructors without metadata: %v (type %s)", ns, typ)
		}
	}
}

func huntFields(t *testing.T, n string, v reflect.Value, ptrs map[*characteristic.Characteristic]bool) {
	for i := 0; i < v.NumField(); i++ {
		f := v.Field(i)
		ft := v.Type().Field(i)
		if ft.Name == "Service" {
			continue
		}
		if f.Kind() == reflect.Ptr && f.IsNil() {
			t.Errorf("%s: field %s nil", n, ft.Name)
			continue
		}
		if f.Kind() == reflect.Ptr && f.Elem().Kind() == reflect.Struct {
			if f.Type().Elem().PkgPath() == "github.com/brutella/hc/service" {
				huntFields(t, n, f.Elem(), ptrs)
				continue
			}
			// characteristic wrapper: find *Characteristic
			var find func(x reflect.Value) *characteristic.Characteristic
			find = func(x reflect.Value) *characteristic.Characteristic {
				if c, ok := x.Interface().(*characteristic.Characteristic); ok {
					return c
				}
				if x.Kind() == reflect.Ptr {
					x = x.Elem()
				}
				if x.Kind() != reflect.Struct || x.NumField() == 0 {
					return nil
				}
				return find(x.Field(0))
			}
			c := find(f)
			if c == nil {
				t.Errorf("%s: field %s has no Characteristic", n, ft.Name)
			} else if !ptrs[c] {
				t.Errorf("%s: field %s not added to service", n, ft.Name)
			}
		}
	}
}

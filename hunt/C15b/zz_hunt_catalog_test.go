package characteristic

import (
	"encoding/json"
	"fmt"
	"io/ioutil"
	"reflect"
	"sort"
	"strings"
	"testing"
)

type huntMeta struct {
	Characteristics []struct {
		Constraints map[string]interface{}
		Format      string
		Name        string
		Permissions []string
		Properties  []string
		UUID        string
		Unit        string
	}
}

var huntCtors = map[string]func() (*Characteristic, string){
	"NewAccessoryFlags": func() (*Characteristic, string) {
		c := NewAccessoryFlags()
		return c.Characteristic, TypeAccessoryFlags
	},
	"NewAccessoryIdentifier": func() (*Characteristic, string) {
		c := NewAccessoryIdentifier()
		return c.Characteristic, TypeAccessoryIdentifier
	},
	"NewActive": func() (*Characteristic, string) { c := NewActive(); return c.Characteristic, TypeActive },
	"NewActiveIdentifier": func() (*Characteristic, string) {
		c := NewActiveIdentifier()
		return c.Characteristic, TypeActiveIdentifier
	},
	"NewAdministratorOnlyAccess": func() (*Characteristic, string) {
		c := NewAdministratorOnlyAccess()
		return c.Characteristic, TypeAdministratorOnlyAccess
	},
	"NewAirParticulateDensity": func() (*Characteristic, string) {
		c := NewAirParticulateDensity()
		return c.Characteristic, TypeAirParticulateDensity
	},
	"NewAirParticulateSize": func() (*Characteristic, string) {
		c := NewAirParticulateSize()
		return c.Characteristic, TypeAirParticulateSize
	},
	"NewAirQuality": func() (*Characteristic, string) { c := NewAirQuality(); return c.Characteristic, TypeAirQuality },
	"NewAppMatchingIdentifier": func() (*Characteristic, string) {
		c := NewAppMatchingIdentifier()
		return c.Characteristic, TypeAppMatchingIdentifier
	},
	"NewAudioFeedback": func() (*Characteristic, string) { c := NewAudioFeedback(); return c.Characteristic, TypeAudioFeedback },
	"NewBatteryLevel":  func() (*Characteristic, string) { c := NewBatteryLevel(); return c.Characteristic, TypeBatteryLevel },
	"NewBrightness":    func() (*Characteristic, string) { c := NewBrightness(); return c.Characteristic, TypeBrightness },
	"NewCarbonDioxideDetected": func() (*Characteristic, string) {
		c := NewCarbonDioxideDetected()
		return c.Characteristic, TypeCarbonDioxideDetected
	},
	"NewCarbonDioxideLevel": func() (*Characteristic, string) {
		c := NewCarbonDioxideLevel()
		return c.Characteristic, TypeCarbonDioxideLevel
	},
	"NewCarbonDioxidePeakLevel": func() (*Characteristic, string) {
		c := NewCarbonDioxidePeakLevel()
		return c.Characteristic, TypeCarbonDioxidePeakLevel
	},
	"NewCarbonMonoxideDetected": func() (*Characteristic, string) {
		c := NewCarbonMonoxideDetected()
		return c.Characteristic, TypeCarbonMonoxideDetected
	},
	"NewCarbonMonoxideLevel": func() (*Characteristic, string) {
		c := NewCarbonMonoxideLevel()
		return c.Characteristic, TypeCarbonMonoxideLevel
	},
	"NewCarbonMonoxidePeakLevel": func() (*Characteristic, string) {
		c := NewCarbonMonoxidePeakLevel()
		return c.Characteristic, TypeCarbonMonoxidePeakLevel
	},
	"NewCategory":      func() (*Characteristic, string) { c := NewCategory(); return c.Characteristic, TypeCategory },
	"NewChargingState": func() (*Characteristic, string) { c := NewChargingState(); return c.Characteristic, TypeChargingState },
	"NewClosedCaptions": func() (*Characteristic, string) {
		c := NewClosedCaptions()
		return c.Characteristic, TypeClosedCaptions
	},
	"NewColorTemperature": func() (*Characteristic, string) {
		c := NewColorTemperature()
		return c.Characteristic, TypeColorTemperature
	},
	"NewConfigureBridgedAccessory": func() (*Characteristic, string) {
		c := NewConfigureBridgedAccessory()
		return c.Characteristic, TypeConfigureBridgedAccessory
	},
	"NewConfigureBridgedAccessoryStatus": func() (*Characteristic, string) {
		c := NewConfigureBridgedAccessoryStatus()
		return c.Characteristic, TypeConfigureBridgedAccessoryStatus
	},
	"NewConfiguredName": func() (*Characteristic, string) {
		c := NewConfiguredName()
		return c.Characteristic, TypeConfiguredName
	},
	"NewContactSensorState": func() (*Characteristic, string) {
		c := NewContactSensorState()
		return c.Characteristic, TypeContactSensorState
	},
	"NewCoolingThresholdTemperature": func() (*Characteristic, string) {
		c := NewCoolingThresholdTemperature()
		return c.Characteristic, TypeCoolingThresholdTemperature
	},
	"NewCurrentAirPurifierState": func() (*Characteristic, string) {
		c := NewCurrentAirPurifierState()
		return c.Characteristic, TypeCurrentAirPurifierState
	},
	"NewCurrentAmbientLightLevel": func() (*Characteristic, string) {
		c := NewCurrentAmbientLightLevel()
		return c.Characteristic, TypeCurrentAmbientLightLevel
	},
	"NewCurrentDoorState": func() (*Characteristic, string) {
		c := NewCurrentDoorState()
		return c.Characteristic, TypeCurrentDoorState
	},
	"NewCurrentFanState": func() (*Characteristic, string) {
		c := NewCurrentFanState()
		return c.Characteristic, TypeCurrentFanState
	},
	"NewCurrentHeaterCoolerState": func() (*Characteristic, string) {
		c := NewCurrentHeaterCoolerState()
		return c.Characteristic, TypeCurrentHeaterCoolerState
	},
	"NewCurrentHeatingCoolingState": func() (*Characteristic, string) {
		c := NewCurrentHeatingCoolingState()
		return c.Characteristic, TypeCurrentHeatingCoolingState
	},
	"NewCurrentHorizontalTiltAngle": func() (*Characteristic, string) {
		c := NewCurrentHorizontalTiltAngle()
		return c.Characteristic, TypeCurrentHorizontalTiltAngle
	},
	"NewCurrentHumidifierDehumidifierState": func() (*Characteristic, string) {
		c := NewCurrentHumidifierDehumidifierState()
		return c.Characteristic, TypeCurrentHumidifierDehumidifierState
	},
	"NewCurrentMediaState": func() (*Characteristic, string) {
		c := NewCurrentMediaState()
		return c.Characteristic, TypeCurrentMediaState
	},
	"NewCurrentPosition": func() (*Characteristic, string) {
		c := NewCurrentPosition()
		return c.Characteristic, TypeCurrentPosition
	},
	"NewCurrentRelativeHumidity": func() (*Characteristic, string) {
		c := NewCurrentRelativeHumidity()
		return c.Characteristic, TypeCurrentRelativeHumidity
	},
	"NewCurrentSlatState": func() (*Characteristic, string) {
		c := NewCurrentSlatState()
		return c.Characteristic, TypeCurrentSlatState
	},
	"NewCurrentTemperature": func() (*Characteristic, string) {
		c := NewCurrentTemperature()
		return c.Characteristic, TypeCurrentTemperature
	},
	"NewCurrentTiltAngle": func() (*Characteristic, string) {
		c := NewCurrentTiltAngle()
		return c.Characteristic, TypeCurrentTiltAngle
	},
	"NewCurrentTime": func() (*Characteristic, string) { c := NewCurrentTime(); return c.Characteristic, TypeCurrentTime },
	"NewCurrentTransport": func() (*Characteristic, string) {
		c := NewCurrentTransport()
		return c.Characteristic, TypeCurrentTransport
	},
	"NewCurrentVerticalTiltAngle": func() (*Characteristic, string) {
		c := NewCurrentVerticalTiltAngle()
		return c.Characteristic, TypeCurrentVerticalTiltAngle
	},
	"NewCurrentVisibilityState": func() (*Characteristic, string) {
		c := NewCurrentVisibilityState()
		return c.Characteristic, TypeCurrentVisibilityState
	},
	"NewDayOfTheWeek": func() (*Characteristic, string) { c := NewDayOfTheWeek(); return c.Characteristic, TypeDayOfTheWeek },
	"NewDigitalZoom":  func() (*Characteristic, string) { c := NewDigitalZoom(); return c.Characteristic, TypeDigitalZoom },
	"NewDiscoverBridgedAccessories": func() (*Characteristic, string) {
		c := NewDiscoverBridgedAccessories()
		return c.Characteristic, TypeDiscoverBridgedAccessories
	},
	"NewDiscoveredBridgedAccessories": func() (*Characteristic, string) {
		c := NewDiscoveredBridgedAccessories()
		return c.Characteristic, TypeDiscoveredBridgedAccessories
	},
	"NewDisplayOrder": func() (*Characteristic, string) { c := NewDisplayOrder(); return c.Characteristic, TypeDisplayOrder },
	"NewFilterChangeIndication": func() (*Characteristic, string) {
		c := NewFilterChangeIndication()
		return c.Characteristic, TypeFilterChangeIndication
	},
	"NewFilterLifeLevel": func() (*Characteristic, string) {
		c := NewFilterLifeLevel()
		return c.Characteristic, TypeFilterLifeLevel
	},
	"NewFirmwareRevision": func() (*Characteristic, string) {
		c := NewFirmwareRevision()
		return c.Characteristic, TypeFirmwareRevision
	},
	"NewHardwareRevision": func() (*Characteristic, string) {
		c := NewHardwareRevision()
		return c.Characteristic, TypeHardwareRevision
	},
	"NewHeatingThresholdTemperature": func() (*Characteristic, string) {
		c := NewHeatingThresholdTemperature()
		return c.Characteristic, TypeHeatingThresholdTemperature
	},
	"NewHoldPosition": func() (*Characteristic, string) { c := NewHoldPosition(); return c.Characteristic, TypeHoldPosition },
	"NewHue":          func() (*Characteristic, string) { c := NewHue(); return c.Characteristic, TypeHue },
	"NewIdentifier":   func() (*Characteristic, string) { c := NewIdentifier(); return c.Characteristic, TypeIdentifier },
	"NewIdentify":     func() (*Characteristic, string) { c := NewIdentify(); return c.Characteristic, TypeIdentify },
	"NewImageMirroring": func() (*Characteristic, string) {
		c := NewImageMirroring()
		return c.Characteristic, TypeImageMirroring
	},
	"NewImageRotation": func() (*Characteristic, string) { c := NewImageRotation(); return c.Characteristic, TypeImageRotation },
	"NewInUse":         func() (*Characteristic, string) { c := NewInUse(); return c.Characteristic, TypeInUse },
	"NewInputDeviceType": func() (*Characteristic, string) {
		c := NewInputDeviceType()
		return c.Characteristic, TypeInputDeviceType
	},
	"NewInputSourceType": func() (*Characteristic, string) {
		c := NewInputSourceType()
		return c.Characteristic, TypeInputSourceType
	},
	"NewIsConfigured": func() (*Characteristic, string) { c := NewIsConfigured(); return c.Characteristic, TypeIsConfigured },
	"NewLeakDetected": func() (*Characteristic, string) { c := NewLeakDetected(); return c.Characteristic, TypeLeakDetected },
	"NewLinkQuality":  func() (*Characteristic, string) { c := NewLinkQuality(); return c.Characteristic, TypeLinkQuality },
	"NewLockControlPoint": func() (*Characteristic, string) {
		c := NewLockControlPoint()
		return c.Characteristic, TypeLockControlPoint
	},
	"NewLockCurrentState": func() (*Characteristic, string) {
		c := NewLockCurrentState()
		return c.Characteristic, TypeLockCurrentState
	},
	"NewLockLastKnownAction": func() (*Characteristic, string) {
		c := NewLockLastKnownAction()
		return c.Characteristic, TypeLockLastKnownAction
	},
	"NewLockManagementAutoSecurityTimeout": func() (*Characteristic, string) {
		c := NewLockManagementAutoSecurityTimeout()
		return c.Characteristic, TypeLockManagementAutoSecurityTimeout
	},
	"NewLockPhysicalControls": func() (*Characteristic, string) {
		c := NewLockPhysicalControls()
		return c.Characteristic, TypeLockPhysicalControls
	},
	"NewLockTargetState": func() (*Characteristic, string) {
		c := NewLockTargetState()
		return c.Characteristic, TypeLockTargetState
	},
	"NewLogs":         func() (*Characteristic, string) { c := NewLogs(); return c.Characteristic, TypeLogs },
	"NewManufacturer": func() (*Characteristic, string) { c := NewManufacturer(); return c.Characteristic, TypeManufacturer },
	"NewModel":        func() (*Characteristic, string) { c := NewModel(); return c.Characteristic, TypeModel },
	"NewMotionDetected": func() (*Characteristic, string) {
		c := NewMotionDetected()
		return c.Characteristic, TypeMotionDetected
	},
	"NewMute":        func() (*Characteristic, string) { c := NewMute(); return c.Characteristic, TypeMute },
	"NewName":        func() (*Characteristic, string) { c := NewName(); return c.Characteristic, TypeName },
	"NewNightVision": func() (*Characteristic, string) { c := NewNightVision(); return c.Characteristic, TypeNightVision },
	"NewNitrogenDioxideDensity": func() (*Characteristic, string) {
		c := NewNitrogenDioxideDensity()
		return c.Characteristic, TypeNitrogenDioxideDensity
	},
	"NewObstructionDetected": func() (*Characteristic, string) {
		c := NewObstructionDetected()
		return c.Characteristic, TypeObstructionDetected
	},
	"NewOccupancyDetected": func() (*Characteristic, string) {
		c := NewOccupancyDetected()
		return c.Characteristic, TypeOccupancyDetected
	},
	"NewOn":           func() (*Characteristic, string) { c := NewOn(); return c.Characteristic, TypeOn },
	"NewOpticalZoom":  func() (*Characteristic, string) { c := NewOpticalZoom(); return c.Characteristic, TypeOpticalZoom },
	"NewOutletInUse":  func() (*Characteristic, string) { c := NewOutletInUse(); return c.Characteristic, TypeOutletInUse },
	"NewOzoneDensity": func() (*Characteristic, string) { c := NewOzoneDensity(); return c.Characteristic, TypeOzoneDensity },
	"NewPM10Density":  func() (*Characteristic, string) { c := NewPM10Density(); return c.Characteristic, TypePM10Density },
	"NewPM2_5Density": func() (*Characteristic, string) { c := NewPM2_5Density(); return c.Characteristic, TypePM2_5Density },
	"NewPairSetup":    func() (*Characteristic, string) { c := NewPairSetup(); return c.Characteristic, TypePairSetup },
	"NewPairVerify":   func() (*Characteristic, string) { c := NewPairVerify(); return c.Characteristic, TypePairVerify },
	"NewPairingFeatures": func() (*Characteristic, string) {
		c := NewPairingFeatures()
		return c.Characteristic, TypePairingFeatures
	},
	"NewPairingPairings": func() (*Characteristic, string) {
		c := NewPairingPairings()
		return c.Characteristic, TypePairingPairings
	},
	"NewPictureMode":   func() (*Characteristic, string) { c := NewPictureMode(); return c.Characteristic, TypePictureMode },
	"NewPositionState": func() (*Characteristic, string) { c := NewPositionState(); return c.Characteristic, TypePositionState },
	"NewPowerModeSelection": func() (*Characteristic, string) {
		c := NewPowerModeSelection()
		return c.Characteristic, TypePowerModeSelection
	},
	"NewProgramMode": func() (*Characteristic, string) { c := NewProgramMode(); return c.Characteristic, TypeProgramMode },
	"NewProgrammableSwitchEvent": func() (*Characteristic, string) {
		c := NewProgrammableSwitchEvent()
		return c.Characteristic, TypeProgrammableSwitchEvent
	},
	"NewProgrammableSwitchOutputState": func() (*Characteristic, string) {
		c := NewProgrammableSwitchOutputState()
		return c.Characteristic, TypeProgrammableSwitchOutputState
	},
	"NewReachable": func() (*Characteristic, string) { c := NewReachable(); return c.Characteristic, TypeReachable },
	"NewRelativeHumidityDehumidifierThreshold": func() (*Characteristic, string) {
		c := NewRelativeHumidityDehumidifierThreshold()
		return c.Characteristic, TypeRelativeHumidityDehumidifierThreshold
	},
	"NewRelativeHumidityHumidifierThreshold": func() (*Characteristic, string) {
		c := NewRelativeHumidityHumidifierThreshold()
		return c.Characteristic, TypeRelativeHumidityHumidifierThreshold
	},
	"NewRemainingDuration": func() (*Characteristic, string) {
		c := NewRemainingDuration()
		return c.Characteristic, TypeRemainingDuration
	},
	"NewRemoteKey": func() (*Characteristic, string) { c := NewRemoteKey(); return c.Characteristic, TypeRemoteKey },
	"NewResetFilterIndication": func() (*Characteristic, string) {
		c := NewResetFilterIndication()
		return c.Characteristic, TypeResetFilterIndication
	},
	"NewRotationDirection": func() (*Characteristic, string) {
		c := NewRotationDirection()
		return c.Characteristic, TypeRotationDirection
	},
	"NewRotationSpeed": func() (*Characteristic, string) { c := NewRotationSpeed(); return c.Characteristic, TypeRotationSpeed },
	"NewSaturation":    func() (*Characteristic, string) { c := NewSaturation(); return c.Characteristic, TypeSaturation },
	"NewSecuritySystemAlarmType": func() (*Characteristic, string) {
		c := NewSecuritySystemAlarmType()
		return c.Characteristic, TypeSecuritySystemAlarmType
	},
	"NewSecuritySystemCurrentState": func() (*Characteristic, string) {
		c := NewSecuritySystemCurrentState()
		return c.Characteristic, TypeSecuritySystemCurrentState
	},
	"NewSecuritySystemTargetState": func() (*Characteristic, string) {
		c := NewSecuritySystemTargetState()
		return c.Characteristic, TypeSecuritySystemTargetState
	},
	"NewSelectedCameraRecordingConfiguration": func() (*Characteristic, string) {
		c := NewSelectedCameraRecordingConfiguration()
		return c.Characteristic, TypeSelectedCameraRecordingConfiguration
	},
	"NewSelectedRTPStreamConfiguration": func() (*Characteristic, string) {
		c := NewSelectedRTPStreamConfiguration()
		return c.Characteristic, TypeSelectedRTPStreamConfiguration
	},
	"NewSelectedStreamConfiguration": func() (*Characteristic, string) {
		c := NewSelectedStreamConfiguration()
		return c.Characteristic, TypeSelectedStreamConfiguration
	},
	"NewSerialNumber": func() (*Characteristic, string) { c := NewSerialNumber(); return c.Characteristic, TypeSerialNumber },
	"NewServiceLabelIndex": func() (*Characteristic, string) {
		c := NewServiceLabelIndex()
		return c.Characteristic, TypeServiceLabelIndex
	},
	"NewServiceLabelNamespace": func() (*Characteristic, string) {
		c := NewServiceLabelNamespace()
		return c.Characteristic, TypeServiceLabelNamespace
	},
	"NewSetDuration": func() (*Characteristic, string) { c := NewSetDuration(); return c.Characteristic, TypeSetDuration },
	"NewSetupEndpoints": func() (*Characteristic, string) {
		c := NewSetupEndpoints()
		return c.Characteristic, TypeSetupEndpoints
	},
	"NewSlatType": func() (*Characteristic, string) { c := NewSlatType(); return c.Characteristic, TypeSlatType },
	"NewSleepDiscoveryMode": func() (*Characteristic, string) {
		c := NewSleepDiscoveryMode()
		return c.Characteristic, TypeSleepDiscoveryMode
	},
	"NewSmokeDetected": func() (*Characteristic, string) { c := NewSmokeDetected(); return c.Characteristic, TypeSmokeDetected },
	"NewSoftwareRevision": func() (*Characteristic, string) {
		c := NewSoftwareRevision()
		return c.Characteristic, TypeSoftwareRevision
	},
	"NewStatusActive": func() (*Characteristic, string) { c := NewStatusActive(); return c.Characteristic, TypeStatusActive },
	"NewStatusFault":  func() (*Characteristic, string) { c := NewStatusFault(); return c.Characteristic, TypeStatusFault },
	"NewStatusJammed": func() (*Characteristic, string) { c := NewStatusJammed(); return c.Characteristic, TypeStatusJammed },
	"NewStatusLowBattery": func() (*Characteristic, string) {
		c := NewStatusLowBattery()
		return c.Characteristic, TypeStatusLowBattery
	},
	"NewStatusTampered": func() (*Characteristic, string) {
		c := NewStatusTampered()
		return c.Characteristic, TypeStatusTampered
	},
	"NewStreamingStatus": func() (*Characteristic, string) {
		c := NewStreamingStatus()
		return c.Characteristic, TypeStreamingStatus
	},
	"NewSulphurDioxideDensity": func() (*Characteristic, string) {
		c := NewSulphurDioxideDensity()
		return c.Characteristic, TypeSulphurDioxideDensity
	},
	"NewSupportedAudioRecordingConfiguration": func() (*Characteristic, string) {
		c := NewSupportedAudioRecordingConfiguration()
		return c.Characteristic, TypeSupportedAudioRecordingConfiguration
	},
	"NewSupportedAudioStreamConfiguration": func() (*Characteristic, string) {
		c := NewSupportedAudioStreamConfiguration()
		return c.Characteristic, TypeSupportedAudioStreamConfiguration
	},
	"NewSupportedCameraRecordingConfiguration": func() (*Characteristic, string) {
		c := NewSupportedCameraRecordingConfiguration()
		return c.Characteristic, TypeSupportedCameraRecordingConfiguration
	},
	"NewSupportedRTPConfiguration": func() (*Characteristic, string) {
		c := NewSupportedRTPConfiguration()
		return c.Characteristic, TypeSupportedRTPConfiguration
	},
	"NewSupportedVideoRecordingConfiguration": func() (*Characteristic, string) {
		c := NewSupportedVideoRecordingConfiguration()
		return c.Characteristic, TypeSupportedVideoRecordingConfiguration
	},
	"NewSupportedVideoStreamConfiguration": func() (*Characteristic, string) {
		c := NewSupportedVideoStreamConfiguration()
		return c.Characteristic, TypeSupportedVideoStreamConfiguration
	},
	"NewSwingMode": func() (*Characteristic, string) { c := NewSwingMode(); return c.Characteristic, TypeSwingMode },
	"NewTargetAirPurifierState": func() (*Characteristic, string) {
		c := NewTargetAirPurifierState()
		return c.Characteristic, TypeTargetAirPurifierState
	},
	"NewTargetAirQuality": func() (*Characteristic, string) {
		c := NewTargetAirQuality()
		return c.Characteristic, TypeTargetAirQuality
	},
	"NewTargetDoorState": func() (*Characteristic, string) {
		c := NewTargetDoorState()
		return c.Characteristic, TypeTargetDoorState
	},
	"NewTargetFanState": func() (*Characteristic, string) {
		c := NewTargetFanState()
		return c.Characteristic, TypeTargetFanState
	},
	"NewTargetHeaterCoolerState": func() (*Characteristic, string) {
		c := NewTargetHeaterCoolerState()
		return c.Characteristic, TypeTargetHeaterCoolerState
	},
	"NewTargetHeatingCoolingState": func() (*Characteristic, string) {
		c := NewTargetHeatingCoolingState()
		return c.Characteristic, TypeTargetHeatingCoolingState
	},
	"NewTargetHorizontalTiltAngle": func() (*Characteristic, string) {
		c := NewTargetHorizontalTiltAngle()
		return c.Characteristic, TypeTargetHorizontalTiltAngle
	},
	"NewTargetHumidifierDehumidifierState": func() (*Characteristic, string) {
		c := NewTargetHumidifierDehumidifierState()
		return c.Characteristic, TypeTargetHumidifierDehumidifierState
	},
	"NewTargetMediaState": func() (*Characteristic, string) {
		c := NewTargetMediaState()
		return c.Characteristic, TypeTargetMediaState
	},
	"NewTargetPosition": func() (*Characteristic, string) {
		c := NewTargetPosition()
		return c.Characteristic, TypeTargetPosition
	},
	"NewTargetRelativeHumidity": func() (*Characteristic, string) {
		c := NewTargetRelativeHumidity()
		return c.Characteristic, TypeTargetRelativeHumidity
	},
	"NewTargetSlatState": func() (*Characteristic, string) {
		c := NewTargetSlatState()
		return c.Characteristic, TypeTargetSlatState
	},
	"NewTargetTemperature": func() (*Characteristic, string) {
		c := NewTargetTemperature()
		return c.Characteristic, TypeTargetTemperature
	},
	"NewTargetTiltAngle": func() (*Characteristic, string) {
		c := NewTargetTiltAngle()
		return c.Characteristic, TypeTargetTiltAngle
	},
	"NewTargetVerticalTiltAngle": func() (*Characteristic, string) {
		c := NewTargetVerticalTiltAngle()
		return c.Characteristic, TypeTargetVerticalTiltAngle
	},
	"NewTargetVisibilityState": func() (*Characteristic, string) {
		c := NewTargetVisibilityState()
		return c.Characteristic, TypeTargetVisibilityState
	},
	"NewTemperatureDisplayUnits": func() (*Characteristic, string) {
		c := NewTemperatureDisplayUnits()
		return c.Characteristic, TypeTemperatureDisplayUnits
	},
	"NewTimeUpdate": func() (*Characteristic, string) { c := NewTimeUpdate(); return c.Characteristic, TypeTimeUpdate },
	"NewTunnelConnectionTimeout": func() (*Characteristic, string) {
		c := NewTunnelConnectionTimeout()
		return c.Characteristic, TypeTunnelConnectionTimeout
	},
	"NewTunneledAccessoryAdvertising": func() (*Characteristic, string) {
		c := NewTunneledAccessoryAdvertising()
		return c.Characteristic, TypeTunneledAccessoryAdvertising
	},
	"NewTunneledAccessoryConnected": func() (*Characteristic, string) {
		c := NewTunneledAccessoryConnected()
		return c.Characteristic, TypeTunneledAccessoryConnected
	},
	"NewTunneledAccessoryStateNumber": func() (*Characteristic, string) {
		c := NewTunneledAccessoryStateNumber()
		return c.Characteristic, TypeTunneledAccessoryStateNumber
	},
	"NewVOCDensity": func() (*Characteristic, string) { c := NewVOCDensity(); return c.Characteristic, TypeVOCDensity },
	"NewValveType":  func() (*Characteristic, string) { c := NewValveType(); return c.Characteristic, TypeValveType },
	"NewVersion":    func() (*Characteristic, string) { c := NewVersion(); return c.Characteristic, TypeVersion },
	"NewVolume":     func() (*Characteristic, string) { c := NewVolume(); return c.Characteristic, TypeVolume },
	"NewVolumeControlType": func() (*Characteristic, string) {
		c := NewVolumeControlType()
		return c.Characteristic, TypeVolumeControlType
	},
	"NewVolumeSelector": func() (*Characteristic, string) {
		c := NewVolumeSelector()
		return c.Characteristic, TypeVolumeSelector
	},
	"NewWaterLevel": func() (*Characteristic, string) { c := NewWaterLevel(); return c.Characteristic, TypeWaterLevel },
	"NewWifiCapabilities": func() (*Characteristic, string) {
		c := NewWifiCapabilities()
		return c.Characteristic, TypeWifiCapabilities
	},
	"NewWifiConfigurationControl": func() (*Characteristic, string) {
		c := NewWifiConfigurationControl()
		return c.Characteristic, TypeWifiConfigurationControl
	},
}

func huntLoad(t *testing.T) huntMeta {
	b, err := ioutil.ReadFile("../gen/metadata.json")
	if err != nil {
		t.Fatal(err)
	}
	var m huntMeta
	if err := json.Unmarshal(b, &m); err != nil {
		t.Fatal(err)
	}
	return m
}

func huntMinify(u string) string {
	i := strings.Index(u, "-")
	return strings.TrimLeft(u[:i], "0")
}

func huntNum(v interface{}) (float64, bool) {
	switch x := v.(type) {
	case int:
		return float64(x), true
	case float64:
		return x, true
	case nil:
		return 0, false
	}
	return 0, false
}

func huntCall(name string) (c *Characteristic, typ string, err error) {
	defer func() {
		if r := recover(); r != nil {
			err = fmt.Errorf("%s panics: %v", name, r)
		}
	}()
	c, typ = huntCtors[name]()
	return
}

// every constructor returns a usable object with its declared type id
func TestHuntCtorsUsable(t *testing.T) {
	names := []string{}
	for n := range huntCtors {
		names = append(names, n)
	}
	sort.Strings(names)
	byType := map[string][]string{}
	for _, n := range names {
		c, typ, err := huntCall(n)
		if err != nil {
			t.Error(err)
			continue
		}
		if c == nil {
			t.Errorf("%s: nil Characteristic", n)
			continue
		}
		if c.Type != typ {
			t.Errorf("%s: Type %q, declared %q", n, c.Type, typ)
		}
		byType[c.Type] = append(byType[c.Type], n)
		switch c.Format {
		case FormatString, FormatBool, FormatFloat, FormatUInt8, FormatUInt16, FormatUInt32, FormatInt32, FormatUInt64, FormatData, FormatTLV8:
		default:
			t.Errorf("%s: invalid format %q", n, c.Format)
		}
		if len(c.Perms) == 0 {
			t.Errorf("%s: no perms", n)
		}
		seen := map[string]bool{}
		for _, p := range c.Perms {
			if seen[p] {
				t.Errorf("%s: duplicate perm %s", n, p)
			}
			seen[p] = true
			switch p {
			case PermRead, PermWrite, PermEvents, PermHidden, PermWriteResponse:
			default:
				t.Errorf("%s: invalid perm %q", n, p)
			}
		}
		if c.IsReadable() && c.Value == nil {
			t.Errorf("%s: readable but Value nil", n)
		}
		if !c.IsReadable() && c.Value != nil {
			t.Errorf("%s: not readable but Value %v", n, c.Value)
		}
		if c.Value != nil {
			huntCheckValue(t, n, c)
		}
		if _, err := json.Marshal(c); err != nil {
			t.Errorf("%s: marshal %v", n, err)
		}
		// min<=max, types of bounds agree with format
		for what, b := range map[string]interface{}{"min": c.MinValue, "max": c.MaxValue, "step": c.StepValue} {
			if b == nil {
				continue
			}
			switch c.Format {
			case FormatFloat:
				if _, ok := b.(float64); !ok {
					t.Errorf("%s: %s bound %T for float", n, what, b)
				}
			case FormatUInt8, FormatUInt16, FormatUInt32, FormatInt32, FormatUInt64:
				if _, ok := b.(int); !ok {
					t.Errorf("%s: %s bound %T for int", n, what, b)
				}
			default:
				t.Errorf("%s: %s bound on format %s", n, what, c.Format)
			}
		}
		mn, ok1 := huntNum(c.MinValue)
		mx, ok2 := huntNum(c.MaxValue)
		if ok1 && ok2 && mn > mx {
			t.Errorf("%s: min %v > max %v", n, mn, mx)
		}
		// format range
		limits := map[string][2]float64{FormatUInt8: {0, 255}, FormatUInt16: {0, 65535}, FormatUInt32: {0, 4294967295}, FormatInt32: {-2147483648, 2147483647}}
		if l, ok := limits[c.Format]; ok {
			if ok1 && (mn < l[0] || mn > l[1]) {
				t.Errorf("%s: min %v outside %s", n, mn, c.Format)
			}
			if ok2 && (mx < l[0] || mx > l[1]) {
				t.Errorf("%s: max %v outside %s", n, mx, c.Format)
			}
		}
	}
	for typ, ns := range byType {
		if len(ns) > 1 {
			t.Logf("note: type %s has several constructors: %v", typ, ns)
		}
	}
}

func huntCheckValue(t *testing.T, n string, c *Characteristic) {
	switch c.Format {
	case FormatString, FormatTLV8, FormatData:
		if _, ok := c.Value.(string); !ok {
			t.Errorf("%s: value %T for %s", n, c.Value, c.Format)
		}
	case FormatBool:
		if _, ok := c.Value.(bool); !ok {
			t.Errorf("%s: value %T for %s", n, c.Value, c.Format)
		}
	case FormatFloat:
		if _, ok := c.Value.(float64); !ok {
			t.Errorf("%s: value %T for %s", n, c.Value, c.Format)
		}
	default:
		if _, ok := c.Value.(int); !ok {
			t.Errorf("%s: value %T for %s", n, c.Value, c.Format)
		}
	}
	if v, ok := huntNum(c.Value); ok {
		if mn, ok := huntNum(c.MinValue); ok && v < mn {
			t.Errorf("%s: value %v < min %v", n, v, mn)
		}
		if mx, ok := huntNum(c.MaxValue); ok && v > mx {
			t.Errorf("%s: value %v > max %v", n, v, mx)
		}
	}
}

// every metadata characteristic has a constructor yielding exactly the metadata
func TestHuntMetadataMatch(t *testing.T) {
	m := huntLoad(t)
	if len(m.Characteristics) != 146 {
		t.Errorf("metadata has %d characteristics", len(m.Characteristics))
	}
	byType := map[string][]string{}
	objs := map[string]*Characteristic{}
	for n := range huntCtors {
		c, _, err := huntCall(n)
		if err != nil || c == nil {
			continue
		}
		byType[c.Type] = append(byType[c.Type], n)
		objs[n] = c
	}
	seenUUID := map[string]string{}
	covered := map[string]bool{}
	for _, mc := range m.Characteristics {
		if prev, ok := seenUUID[mc.UUID]; ok {
			t.Errorf("metadata: UUID %s twice (%s, %s)", mc.UUID, prev, mc.Name)
		}
		seenUUID[mc.UUID] = mc.Name
		if !strings.HasSuffix(mc.UUID, "-0000-1000-8000-0026BB765291") {
			t.Errorf("metadata: %s not an Apple UUID: %s", mc.Name, mc.UUID)
		}
		typ := huntMinify(mc.UUID)
		ns := byType[typ]
		if len(ns) == 0 {
			t.Errorf("metadata %q (%s): no constructor with type %s", mc.Name, mc.UUID, typ)
			continue
		}
		for _, n := range ns {
			covered[n] = true
			c := objs[n]
			wantName := "New" + strings.Replace(strings.Title(strings.NewReplacer(".", "_", ",", "", "-", "", "(", "", ")", "").Replace(strings.TrimSpace(mc.Name))), " ", "", -1)
			if n != wantName {
				t.Logf("note: %q is constructed by %s (expected name %s)", mc.Name, n, wantName)
			}
			if c.Format != mc.Format {
				t.Errorf("%s: format %s, metadata %s", n, c.Format, mc.Format)
			}
			want := []string{}
			for _, p := range mc.Properties {
				switch p {
				case "read":
					want = append(want, PermRead)
				case "write":
					want = append(want, PermWrite)
				case "cnotify":
					want = append(want, PermEvents)
				case "uncnotify":
				default:
					t.Errorf("metadata %s: property %s", mc.Name, p)
				}
			}
			got := append([]string{}, c.Perms...)
			sort.Strings(got)
			sort.Strings(want)
			if !reflect.DeepEqual(got, want) {
				t.Errorf("%s: perms %v, metadata properties %v -> %v", n, c.Perms, mc.Properties, want)
			}
			// Permissions (securedRead/securedWrite) must agree with read/write
			if mc.Permissions != nil {
				sr, sw := false, false
				for _, p := range mc.Permissions {
					if p == "securedRead" {
						sr = true
					} else if p == "securedWrite" {
						sw = true
					} else {
						t.Logf("note: metadata %s: permission %s", mc.Name, p)
					}
				}
				if sr != c.IsReadable() || sw != c.IsWritable() {
					t.Logf("note: %s: perms %v follow Properties %v; metadata Permissions field says %v", n, c.Perms, mc.Properties, mc.Permissions)
				}
			}
			if c.Unit != mc.Unit {
				t.Errorf("%s: unit %q, metadata %q", n, c.Unit, mc.Unit)
			}
			for _, k := range []struct {
				key string
				got interface{}
			}{{"MinimumValue", c.MinValue}, {"MaximumValue", c.MaxValue}, {"StepValue", c.StepValue}} {
				var mv interface{}
				for ck, cv := range mc.Constraints {
					if strings.EqualFold(ck, k.key) {
						mv = cv
					}
				}
				g, gok := huntNum(k.got)
				w, wok := huntNum(mv)
				if gok != wok || g != w {
					t.Errorf("%s: %s is %v, metadata %v", n, k.key, k.got, mv)
				}
			}
			if c.IsReadable() {
				if c.Value == nil {
					t.Errorf("%s: readable without default value", n)
				} else {
					huntCheckValue(t, n, c)
				}
			}
			for ck := range mc.Constraints {
				switch strings.ToLower(ck) {
				case "minimumvalue", "maximumvalue", "stepvalue", "validvalues", "validbits", "maximumlength":
				default:
					t.Errorf("metadata %s: constraint key %s", mc.Name, ck)
				}
			}
		}
	}
	extra := []string{}
	for n := range huntCtors {
		if !covered[n] {
			extra = append(extra, n)
		}
	}
	sort.Strings(extra)
	t.Logf("constructors without metadata entry: %v", extra)
}

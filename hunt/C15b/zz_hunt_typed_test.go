package characteristic

import (
	"fmt"
	"reflect"
	"testing"
)

var huntWrappers = map[string]func() interface{}{
	"NewAccessoryFlags":                        func() interface{} { return NewAccessoryFlags() },
	"NewAccessoryIdentifier":                   func() interface{} { return NewAccessoryIdentifier() },
	"NewActive":                                func() interface{} { return NewActive() },
	"NewActiveIdentifier":                      func() interface{} { return NewActiveIdentifier() },
	"NewAdministratorOnlyAccess":               func() interface{} { return NewAdministratorOnlyAccess() },
	"NewAirParticulateDensity":                 func() interface{} { return NewAirParticulateDensity() },
	"NewAirParticulateSize":                    func() interface{} { return NewAirParticulateSize() },
	"NewAirQuality":                            func() interface{} { return NewAirQuality() },
	"NewAppMatchingIdentifier":                 func() interface{} { return NewAppMatchingIdentifier() },
	"NewAudioFeedback":                         func() interface{} { return NewAudioFeedback() },
	"NewBatteryLevel":                          func() interface{} { return NewBatteryLevel() },
	"NewBrightness":                            func() interface{} { return NewBrightness() },
	"NewCarbonDioxideDetected":                 func() interface{} { return NewCarbonDioxideDetected() },
	"NewCarbonDioxideLevel":                    func() interface{} { return NewCarbonDioxideLevel() },
	"NewCarbonDioxidePeakLevel":                func() interface{} { return NewCarbonDioxidePeakLevel() },
	"NewCarbonMonoxideDetected":                func() interface{} { return NewCarbonMonoxideDetected() },
	"NewCarbonMonoxideLevel":                   func() interface{} { return NewCarbonMonoxideLevel() },
	"NewCarbonMonoxidePeakLevel":               func() interface{} { return NewCarbonMonoxidePeakLevel() },
	"NewCategory":                              func() interface{} { return NewCategory() },
	"NewChargingState":                         func() interface{} { return NewChargingState() },
	"NewClosedCaptions":                        func() interface{} { return NewClosedCaptions() },
	"NewColorTemperature":                      func() interface{} { return NewColorTemperature() },
	"NewConfigureBridgedAccessory":             func() interface{} { return NewConfigureBridgedAccessory() },
	"NewConfigureBridgedAccessoryStatus":       func() interface{} { return NewConfigureBridgedAccessoryStatus() },
	"NewConfiguredName":                        func() interface{} { return NewConfiguredName() },
	"NewContactSensorState":                    func() interface{} { return NewContactSensorState() },
	"NewCoolingThresholdTemperature":           func() interface{} { return NewCoolingThresholdTemperature() },
	"NewCurrentAirPurifierState":               func() interface{} { return NewCurrentAirPurifierState() },
	"NewCurrentAmbientLightLevel":              func() interface{} { return NewCurrentAmbientLightLevel() },
	"NewCurrentDoorState":                      func() interface{} { return NewCurrentDoorState() },
	"NewCurrentFanState":                       func() interface{} { return NewCurrentFanState() },
	"NewCurrentHeaterCoolerState":              func() interface{} { return NewCurrentHeaterCoolerState() },
	"NewCurrentHeatingCoolingState":            func() interface{} { return NewCurrentHeatingCoolingState() },
	"NewCurrentHorizontalTiltAngle":            func() interface{} { return NewCurrentHorizontalTiltAngle() },
	"NewCurrentHumidifierDehumidifierState":    func() interface{} { return NewCurrentHumidifierDehumidifierState() },
	"NewCurrentMediaState":                     func() interface{} { return NewCurrentMediaState() },
	"NewCurrentPosition":                       func() interface{} { return NewCurrentPosition() },
	"NewCurrentRelativeHumidity":               func() interface{} { return NewCurrentRelativeHumidity() },
	"NewCurrentSlatState":                      func() interface{} { return NewCurrentSlatState() },
	"NewCurrentTemperature":                    func() interface{} { return NewCurrentTemperature() },
	"NewCurrentTiltAngle":                      func() interface{} { return NewCurrentTiltAngle() },
	"NewCurrentTime":                           func() interface{} { return NewCurrentTime() },
	"NewCurrentTransport":                      func() interface{} { return NewCurrentTransport() },
	"NewCurrentVerticalTiltAngle":              func() interface{} { return NewCurrentVerticalTiltAngle() },
	"NewCurrentVisibilityState":                func() interface{} { return NewCurrentVisibilityState() },
	"NewDayOfTheWeek":                          func() interface{} { return NewDayOfTheWeek() },
	"NewDigitalZoom":                           func() interface{} { return NewDigitalZoom() },
	"NewDiscoverBridgedAccessories":            func() interface{} { return NewDiscoverBridgedAccessories() },
	"NewDiscoveredBridgedAccessories":          func() interface{} { return NewDiscoveredBridgedAccessories() },
	"NewDisplayOrder":                          func() interface{} { return NewDisplayOrder() },
	"NewFilterChangeIndication":                func() interface{} { return NewFilterChangeIndication() },
	"NewFilterLifeLevel":                       func() interface{} { return NewFilterLifeLevel() },
	"NewFirmwareRevision":                      func() interface{} { return NewFirmwareRevision() },
	"NewHardwareRevision":                      func() interface{} { return NewHardwareRevision() },
	"NewHeatingThresholdTemperature":           func() interface{} { return NewHeatingThresholdTemperature() },
	"NewHoldPosition":                          func() interface{} { return NewHoldPosition() },
	"NewHue":                                   func() interface{} { return NewHue() },
	"NewIdentifier":                            func() interface{} { return NewIdentifier() },
	"NewIdentify":                              func() interface{} { return NewIdentify() },
	"NewImageMirroring":                        func() interface{} { return NewImageMirroring() },
	"NewImageRotation":                         func() interface{} { return NewImageRotation() },
	"NewInUse":                                 func() interface{} { return NewInUse() },
	"NewInputDeviceType":                       func() interface{} { return NewInputDeviceType() },
	"NewInputSourceType":                       func() interface{} { return NewInputSourceType() },
	"NewIsConfigured":                          func() interface{} { return NewIsConfigured() },
	"NewLeakDetected":                          func() interface{} { return NewLeakDetected() },
	"NewLinkQuality":                           func() interface{} { return NewLinkQuality() },
	"NewLockControlPoint":                      func() interface{} { return NewLockControlPoint() },
	"NewLockCurrentState":                      func() interface{} { return NewLockCurrentState() },
	"NewLockLastKnownAction":                   func() interface{} { return NewLockLastKnownAction() },
	"NewLockManagementAutoSecurityTimeout":     func() interface{} { return NewLockManagementAutoSecurityTimeout() },
	"NewLockPhysicalControls":                  func() interface{} { return NewLockPhysicalControls() },
	"NewLockTargetState":                       func() interface{} { return NewLockTargetState() },
	"NewLogs":                                  func() interface{} { return NewLogs() },
	"NewManufacturer":                          func() interface{} { return NewManufacturer() },
	"NewModel":                                 func() interface{} { return NewModel() },
	"NewMotionDetected":                        func() interface{} { return NewMotionDetected() },
	"NewMute":                                  func() interface{} { return NewMute() },
	"NewName":                                  func() interface{} { return NewName() },
	"NewNightVision":                           func() interface{} { return NewNightVision() },
	"NewNitrogenDioxideDensity":                func() interface{} { return NewNitrogenDioxideDensity() },
	"NewObstructionDetected":                   func() interface{} { return NewObstructionDetected() },
	"NewOccupancyDetected":                     func() interface{} { return NewOccupancyDetected() },
	"NewOn":                                    func() interface{} { return NewOn() },
	"NewOpticalZoom":                           func() interface{} { return NewOpticalZoom() },
	"NewOutletInUse":                           func() interface{} { return NewOutletInUse() },
	"NewOzoneDensity":                          func() interface{} { return NewOzoneDensity() },
	"NewPM10Density":                           func() interface{} { return NewPM10Density() },
	"NewPM2_5Density":                          func() interface{} { return NewPM2_5Density() },
	"NewPairSetup":                             func() interface{} { return NewPairSetup() },
	"NewPairVerify":                            func() interface{} { return NewPairVerify() },
	"NewPairingFeatures":                       func() interface{} { return NewPairingFeatures() },
	"NewPairingPairings":                       func() interface{} { return NewPairingPairings() },
	"NewPictureMode":                           func() interface{} { return NewPictureMode() },
	"NewPositionState":                         func() interface{} { return NewPositionState() },
	"NewPowerModeSelection":                    func() interface{} { return NewPowerModeSelection() },
	"NewProgramMode":                           func() interface{} { return NewProgramMode() },
	"NewProgrammableSwitchEvent":               func() interface{} { return NewProgrammableSwitchEvent() },
	"NewProgrammableSwitchOutputState":         func() interface{} { return NewProgrammableSwitchOutputState() },
	"NewReachable":                             func() interface{} { return NewReachable() },
	"NewRelativeHumidityDehumidifierThreshold": func() interface{} { return NewRelativeHumidityDehumidifierThreshold() },
	"NewRelativeHumidityHumidifierThreshold":   func() interface{} { return NewRelativeHumidityHumidifierThreshold() },
	"NewRemainingDuration":                     func() interface{} { return NewRemainingDuration() },
	"NewRemoteKey":                             func() interface{} { return NewRemoteKey() },
	"NewResetFilterIndication":                 func() interface{} { return NewResetFilterIndication() },
	"NewRotationDirection":                     func() interface{} { return NewRotationDirection() },
	"NewRotationSpeed":                         func() interface{} { return NewRotationSpeed() },
	"NewSaturation":                            func() interface{} { return NewSaturation() },
	"NewSecuritySystemAlarmType":               func() interface{} { return NewSecuritySystemAlarmType() },
	"NewSecuritySystemCurrentState":            func() interface{} { return NewSecuritySystemCurrentState() },
	"NewSecuritySystemTargetState":             func() interface{} { return NewSecuritySystemTargetState() },
	"NewSelectedCameraRecordingConfiguration":  func() interface{} { return NewSelectedCameraRecordingConfiguration() },
	"NewSelectedRTPStreamConfiguration":        func() interface{} { return NewSelectedRTPStreamConfiguration() },
	"NewSelectedStreamConfiguration":           func() interface{} { return NewSelectedStreamConfiguration() },
	"NewSerialNumber":                          func() interface{} { return NewSerialNumber() },
	"NewServiceLabelIndex":                     func() interface{} { return NewServiceLabelIndex() },
	"NewServiceLabelNamespace":                 func() interface{} { return NewServiceLabelNamespace() },
	"NewSetDuration":                           func() interface{} { return NewSetDuration() },
	"NewSetupEndpoints":                        func() interface{} { return NewSetupEndpoints() },
	"NewSlatType":                              func() interface{} { return NewSlatType() },
	"NewSleepDiscoveryMode":                    func() interface{} { return NewSleepDiscoveryMode() },
	"NewSmokeDetected":                         func() interface{} { return NewSmokeDetected() },
	"NewSoftwareRevision":                      func() interface{} { return NewSoftwareRevision() },
	"NewStatusActive":                          func() interface{} { return NewStatusActive() },
	"NewStatusFault":                           func() interface{} { return NewStatusFault() },
	"NewStatusJammed":                          func() interface{} { return NewStatusJammed() },
	"NewStatusLowBattery":                      func() interface{} { return NewStatusLowBattery() },
	"NewStatusTampered":                        func() interface{} { return NewStatusTampered() },
	"NewStreamingStatus":                       func() interface{} { return NewStreamingStatus() },
	"NewSulphurDioxideDensity":                 func() interface{} { return NewSulphurDioxideDensity() },
	"NewSupportedAudioRecordingConfiguration":  func() interface{} { return NewSupportedAudioRecordingConfiguration() },
	"NewSupportedAudioStreamConfiguration":     func() interface{} { return NewSupportedAudioStreamConfiguration() },
	"NewSupportedCameraRecordingConfiguration": func() interface{} { return NewSupportedCameraRecordingConfiguration() },
	"NewSupportedRTPConfiguration":             func() interface{} { return NewSupportedRTPConfiguration() },
	"NewSupportedVideoRecordingConfiguration":  func() interface{} { return NewSupportedVideoRecordingConfiguration() },
	"NewSupportedVideoStreamConfiguration":     func() interface{} { return NewSupportedVideoStreamConfiguration() },
	"NewSwingMode":                             func() interface{} { return NewSwingMode() },
	"NewTargetAirPurifierState":                func() interface{} { return NewTargetAirPurifierState() },
	"NewTargetAirQuality":                      func() interface{} { return NewTargetAirQuality() },
	"NewTargetDoorState":                       func() interface{} { return NewTargetDoorState() },
	"NewTargetFanState":                        func() interface{} { return NewTargetFanState() },
	"NewTargetHeaterCoolerState":               func() interface{} { return NewTargetHeaterCoolerState() },
	"NewTargetHeatingCoolingState":             func() interface{} { return NewTargetHeatingCoolingState() },
	"NewTargetHorizontalTiltAngle":             func() interface{} { return NewTargetHorizontalTiltAngle() },
	"NewTargetHumidifierDehumidifierState":     func() interface{} { return NewTargetHumidifierDehumidifierState() },
	"NewTargetMediaState":                      func() interface{} { return NewTargetMediaState() },
	"NewTargetPosition":                        func() interface{} { return NewTargetPosition() },
	"NewTargetRelativeHumidity":                func() interface{} { return NewTargetRelativeHumidity() },
	"NewTargetSlatState":                       func() interface{} { return NewTargetSlatState() },
	"NewTargetTemperature":                     func() interface{} { return NewTargetTemperature() },
	"NewTargetTiltAngle":                       func() interface{} { return NewTargetTiltAngle() },
	"NewTargetVerticalTiltAngle":               func() interface{} { return NewTargetVerticalTiltAngle() },
	"NewTargetVisibilityState":                 func() interface{} { return NewTargetVisibilityState() },
	"NewTemperatureDisplayUnits":               func() interface{} { return NewTemperatureDisplayUnits() },
	"NewTimeUpdate":                            func() interface{} { return NewTimeUpdate() },
	"NewTunnelConnectionTimeout":               func() interface{} { return NewTunnelConnectionTimeout() },
	"NewTunneledAccessoryAdvertising":          func() interface{} { return NewTunneledAccessoryAdvertising() },
	"NewTunneledAccessoryConnected":            func() interface{} { return NewTunneledAccessoryConnected() },
	"NewTunneledAccessoryStateNumber":          func() interface{} { return NewTunneledAccessoryStateNumber() },
	"NewVOCDensity":                            func() interface{} { return NewVOCDensity() },
	"NewValveType":                             func() interface{} { return NewValveType() },
	"NewVersion":                               func() interface{} { return NewVersion() },
	"NewVolume":                                func() interface{} { return NewVolume() },
	"NewVolumeControlType":                     func() interface{} { return NewVolumeControlType() },
	"NewVolumeSelector":                        func() interface{} { return NewVolumeSelector() },
	"NewWaterLevel":                            func() interface{} { return NewWaterLevel() },
	"NewWifiCapabilities":                      func() interface{} { return NewWifiCapabilities() },
	"NewWifiConfigurationControl":              func() interface{} { return NewWifiConfigurationControl() },
}

func huntBase(w interface{}) *Characteristic {
	v := reflect.ValueOf(w)
	for {
		if c, ok := v.Interface().(*Characteristic); ok {
			return c
		}
		if v.Kind() == reflect.Ptr {
			v = v.Elem()
		}
		v = v.Field(0)
	}
}

func huntGet(w interface{}) (res interface{}, err error) {
	defer func() {
		if r := recover(); r != nil {
			err = fmt.Errorf("panic: %v", r)
		}
	}()
	out := reflect.ValueOf(w).MethodByName("GetValue").Call(nil)
	return out[0].Interface(), nil
}

// typed getters and setters of every constructor's object work on the fresh object
func TestHuntTypedAccess(t *testing.T) {
	for n, f := range huntWrappers {
		w := f()
		c := huntBase(w)
		if !c.IsReadable() {
			if _, err := huntGet(w); err != nil {
				t.Logf("note: %s (write-only): typed GetValue %v", n, err)
			}
			continue
		}
		got, err := huntGet(w)
		if err != nil {
			t.Errorf("%s: typed GetValue: %v", n, err)
			continue
		}
		_ = got
		// drive the value to both bounds and back through the generic setter
		for _, b := range []interface{}{c.MinValue, c.MaxValue} {
			if b == nil {
				continue
			}
			c.UpdateValue(b)
			if !reflect.DeepEqual(c.Value, b) {
				t.Errorf("%s: UpdateValue(%v) gives %v", n, b, c.Value)
			}
			if _, err := huntGet(w); err != nil {
				t.Errorf("%s: typed GetValue after UpdateValue(%v): %v", n, b, err)
			}
		}
	}
}

package golang

import (
	"encoding/json"
	"go/format"
	"io/ioutil"
	"path/filepath"
	"strings"
	"testing"

	"github.com/brutella/hc/gen"
)

func huntNorm(b []byte) string {
	f, err := format.Source(b)
	if err != nil {
		return "FORMAT ERROR: " + err.Error() + "\n" + string(b)
	}
	// drop blank lines
	out := []string{}
	for _, l := range strings.Split(string(f), "\n") {
		if strings.TrimSpace(l) != "" {
			out = append(out, l)
		}
	}
	return strings.Join(out, "\n")
}

func huntDiff(a, b string) string {
	al, bl := strings.Split(a, "\n"), strings.Split(b, "\n")
	am, bm := map[string]int{}, map[string]int{}
	for _, l := range al {
		am[l]++
	}
	for _, l := range bl {
		bm[l]++
	}
	s := ""
	for _, l := range al {
		if bm[l] == 0 {
			s += "\n   - generated: " + l
		}
	}
	for _, l := range bl {
		if am[l] == 0 {
			s += "\n   + checked-in: " + l
		}
	}
	if s == "" {
		s = "\n   (order differs)"
	}
	return s
}

// huntReport fails when a line the generator emits is missing from the
// checked-in file; lines that exist only in the checked-in file (hand-made
// additions: optional characteristics, the Filter Life Level step, extra
// categories) are logged.
func huntReport(t *testing.T, what, d string) {
	if strings.Contains(d, "- generated:") {
		t.Errorf("%s differs:%s", what, d)
	} else {
		t.Logf("note: %s has additions:%s", what, d)
	}
}

func TestHuntRegenerate(t *testing.T) {
	b, err := ioutil.ReadFile("../metadata.json")
	if err != nil {
		t.Fatal(err)
	}
	m := gen.Metadata{}
	if err := json.Unmarshal(b, &m); err != nil {
		t.Fatal(err)
	}
	for _, c := range m.Characteristics {
		code, err := CharacteristicGoCode(c)
		if err != nil {
			t.Errorf("%s: %v", c.Name, err)
			continue
		}
		p := filepath.Join("..", "..", "characteristic", CharacteristicFileName(c))
		have, err := ioutil.ReadFile(p)
		if err != nil {
			t.Errorf("%s: %v", c.Name, err)
			continue
		}
		g, h := huntNorm(code), huntNorm(have)
		if g != h {
			huntReport(t, "characteristic "+c.Name+" "+p, huntDiff(g, h))
		}
	}
	for _, s := range m.Services {
		code, err := ServiceGoCode(s, m.Characteristics)
		if err != nil {
			t.Errorf("%s: %v", s.Name, err)
			continue
		}
		p := filepath.Join("..", "..", "service", ServiceFileName(s))
		have, err := ioutil.ReadFile(p)
		if err != nil {
			t.Errorf("%s: %v", s.Name, err)
			continue
		}
		g, h := huntNorm(code), huntNorm(have)
		if g != h {
			huntReport(t, "service "+s.Name+" "+p, huntDiff(g, h))
		}
	}
	code, err := CategoriesGoCode(m.Categories)
	if err != nil {
		t.Fatal(err)
	}
	have, _ := ioutil.ReadFile("../../accessory/constant.go")
	if g, h := huntNorm(code), huntNorm(have); g != h {
		huntReport(t, "accessory/constant.go", huntDiff(g, h))
	}
}

package accessory

import (
	"encoding/json"
	"fmt"
	"testing"

	"github.com/brutella/hc/characteristic"
)

func huntNum(v interface{}) (float64, bool) {
	switch x := v.(type) {
	case int:
		return float64(x), true
	case float64:
		return x, true
	}
	return 0, false
}

func huntCheckAcc(t *testing.T, name string, a *Accessory) {
	if a == nil {
		t.Errorf("%s: nil accessory", name)
		return
	}
	if len(a.Services) == 0 || a.Services[0] != a.Info.Service {
		t.Errorf("%s: first service is not the accessory information", name)
	}
	ids := map[uint64]string{}
	for _, s := range a.Services {
		if s.ID == 0 {
			t.Errorf("%s: service %s has id 0", name, s.Type)
		}
		if p, ok := ids[s.ID]; ok {
			t.Errorf("%s: id %d twice (%s, service %s)", name, s.ID, p, s.Type)
		}
		ids[s.ID] = "service " + s.Type
		types := map[string]bool{}
		for _, c := range s.Characteristics {
			if c.ID == 0 {
				t.Errorf("%s: characteristic %s has id 0", name, c.Type)
			}
			if p, ok := ids[c.ID]; ok {
				t.Errorf("%s: id %d twice (%s, characteristic %s)", name, c.ID, p, c.Type)
			}
			ids[c.ID] = "characteristic " + c.Type
			if types[c.Type] {
				t.Errorf("%s: service %s has two characteristics of type %s", name, s.Type, c.Type)
			}
			types[c.Type] = true
			huntCheckChar(t, name, c)
		}
	}
	if _, err := json.Marshal(a); err != nil {
		t.Errorf("%s: %v", name, err)
	}
}

func huntCheckChar(t *testing.T, name string, c *characteristic.Characteristic) {
	if c.IsReadable() && c.Value == nil {
		t.Errorf("%s: readable characteristic %s without value", name, c.Type)
	}
	v, ok := huntNum(c.Value)
	if !ok {
		return
	}
	if mn, ok := huntNum(c.MinValue); ok && v < mn {
		t.Errorf("%s: characteristic %s value %v below its minValue %v", name, c.Type, v, mn)
	}
	if mx, ok := huntNum(c.MaxValue); ok && v > mx {
		t.Errorf("%s: characteristic %s value %v above its maxValue %v", name, c.Type, v, mx)
	}
	mn, ok1 := huntNum(c.MinValue)
	mx, ok2 := huntNum(c.MaxValue)
	if ok1 && ok2 && mn > mx {
		t.Errorf("%s: characteristic %s min %v > max %v", name, c.Type, mn, mx)
	}
}

func huntTry(t *testing.T, name string, f func() *Accessory) {
	defer func() {
		if r := recover(); r != nil {
			t.Errorf("%s panics: %v", name, r)
		}
	}()
	huntCheckAcc(t, name, f())
}

func TestHuntAccessoryCtors(t *testing.T) {
	for _, info := range []Info{{}, {Name: "n", SerialNumber: "s", Manufacturer: "m", Model: "mo", FirmwareRevision: "1.0", ID: 7}} {
		info := info
		tag := fmt.Sprintf("(info id %d)", info.ID)
		huntTry(t, "New"+tag, func() *Accessory { return New(info, TypeOther) })
		huntTry(t, "NewBridge"+tag, func() *Accessory { return NewBridge(info).Accessory })
		huntTry(t, "NewCamera"+tag, func() *Accessory { return NewCamera(info).Accessory })
		huntTry(t, "NewColoredLightbulb"+tag, func() *Accessory { return NewColoredLightbulb(info).Accessory })
		huntTry(t, "NewLightbulb"+tag, func() *Accessory { return NewLightbulb(info).Accessory })
		huntTry(t, "NewOutlet"+tag, func() *Accessory { return NewOutlet(info).Accessory })
		huntTry(t, "NewSwitch"+tag, func() *Accessory { return NewSwitch(info).Accessory })
		huntTry(t, "NewTelevision"+tag, func() *Accessory { return NewTelevision(info).Accessory })
		huntTry(t, "NewTemperatureSensor"+tag, func() *Accessory { return NewTemperatureSensor(info, 20, 0, 100, 0.1).Accessory })
		huntTry(t, "NewThermostat"+tag, func() *Accessory { return NewThermostat(info, 20, 10, 38, 0.1).Accessory })
		huntTry(t, "NewWindow"+tag, func() *Accessory { return NewWindow(info, 50).Accessory })
	}
	c := NewContainer()
	if c == nil || c.Accessories == nil {
		t.Errorf("NewContainer unusable")
	}
	if err := c.AddAccessory(NewSwitch(Info{}).Accessory); err != nil {
		t.Error(err)
	}
}

// Arguments that are consistent with each other (min <= temp <= max) but lie
// outside the range the generated characteristic starts with. Only "value
// inside [minValue, maxValue]" is asserted (huntCheckChar).
func TestHuntTemperatureRange(t *testing.T) {
	for _, a := range [][4]float64{
		{-18, -30, -5, 1},   // freezer
		{150, 120, 250, 1},  // oven
		{-10, -40, 60, 0.5}, // outdoor
		{20, 0, 100, 0.1},   // control
	} {
		name := fmt.Sprintf("NewTemperatureSensor(info, %v, %v, %v, %v)", a[0], a[1], a[2], a[3])
		th := NewTemperatureSensor(Info{}, a[0], a[1], a[2], a[3])
		huntCheckAcc(t, name, th.Accessory)
		if got := th.TempSensor.CurrentTemperature.GetValue(); got != a[0] {
			t.Logf("note (not asserted): %s: CurrentTemperature is %v", name, got)
		}
		name = fmt.Sprintf("NewThermostat(info, %v, %v, %v, %v)", a[0], a[1], a[2], a[3])
		ts := NewThermostat(Info{}, a[0], a[1], a[2], a[3])
		huntCheckAcc(t, name, ts.Accessory)
		if got := ts.Thermostat.CurrentTemperature.GetValue(); got != a[0] {
			t.Logf("note (not asserted): %s: CurrentTemperature is %v", name, got)
		}
		if got := ts.Thermostat.TargetTemperature.GetValue(); got != a[0] {
			t.Logf("note (not asserted): %s: TargetTemperature is %v", name, got)
		}
	}
}

package hc

import (
	"fmt"
	"testing"

	"github.com/brutella/hc/characteristic"
)

// Probe H5 (borderline): a library type given a custom permission set without "pr" the only way the
// API allows (assigning Perms after the constructor ran) keeps the value the constructor stored while
// the stock set was still readable, and GET /characteristics and GET /accessories reveal it,
// because neither checks IsReadable().
func TestZZHuntStaleValueAfterCustomPerms(t *testing.T) {
	c := characteristic.NewBrightness() // stock pr,pw,ev; constructor stores 0
	c.Perms = characteristic.PermsWriteOnly()
	r := zzNewRig(t, []*characteristic.Characteristic{c.Characteristic}, 1)
	r.do(0, "PUT", "/characteristics", fmt.Sprintf(`{"characteristics":[{"aid":1,"iid":%d,"value":50}]}`, c.ID))
	if c.Value != nil {
		t.Errorf("characteristic with perms %q stores %#v", c.Perms, c.Value)
	}
	_, body := r.do(0, "GET", fmt.Sprintf("/characteristics?id=1.%d", c.ID), "")
	es, err := zzParse(body)
	if err != nil || len(es) != 1 {
		t.Fatal(body, err)
	}
	if es[0].Value != nil {
		t.Errorf("GET /characteristics reveals a value of a characteristic with perms %q: %s", c.Perms, body)
	}
	if v, ok := r.accessoriesValues(t)[c.ID]; ok {
		t.Errorf("GET /accessories reveals value %s of a characteristic with perms %q", v, c.Perms)
	}
}

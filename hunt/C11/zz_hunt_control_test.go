package hc

import (
	"fmt"
	"strings"
	"testing"

	"github.com/brutella/hc/characteristic"
)

// positive control: the rig really delivers writes, reads, subscriptions and events
func TestZZHuntControl(t *testing.T) {
	on := characteristic.NewOn()
	id := characteristic.NewIdentify()
	r := zzNewRig(t, []*characteristic.Characteristic{on.Characteristic, id.Characteristic}, 2)
	code, body := r.do(1, "PUT", "/characteristics", fmt.Sprintf(`{"characteristics":[{"aid":1,"iid":%d,"ev":true}]}`, on.ID))
	t.Log(code, body)
	if !r.sess[1].IsSubscribedTo(on.Characteristic) {
		t.Fatal("not subscribed")
	}
	code, body = r.do(0, "PUT", "/characteristics", fmt.Sprintf(`{"characteristics":[{"aid":1,"iid":%d,"value":true}]}`, on.ID))
	t.Log(code, body)
	if on.Value != true {
		t.Fatal(on.Value)
	}
	tr := r.conns[1].take()
	if !strings.HasPrefix(tr, "EVENT/1.0") || r.conns[0].take() != "" {
		t.Fatalf("%q", tr)
	}
	t.Log(tr)
	code, body = r.do(0, "GET", fmt.Sprintf("/characteristics?id=1.%d,1.%d", on.ID, id.ID), "")
	t.Log(code, body)
	code, body = r.do(0, "PUT", "/characteristics", fmt.Sprintf(`{"characteristics":[{"aid":1,"iid":%d,"ev":true}]}`, id.ID))
	t.Log(code, body)
	// unauthenticated connection
	r.conns = append(r.conns, &zzConn{addr: "9.9.9.9:1"})
	func() {
		defer func() { t.Log("recover:", recover()) }()
		code, body = r.do(2, "GET", fmt.Sprintf("/characteristics?id=1.%d", on.ID), "")
		t.Log(code, body)
	}()
}

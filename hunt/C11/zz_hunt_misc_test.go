package hc

import (
	"fmt"
	"net"
	"strings"
	"sync"
	"testing"

	"github.com/brutella/hc/characteristic"
)

// Probe H3: odd request encodings (case-variant keys, duplicate keys, same iid twice, unknown aid).
func TestZZHuntHTTPOddRequests(t *testing.T) {
	ro := characteristic.NewCurrentTemperature() // pr ev
	wo := characteristic.NewIdentify()           // pw
	nev := characteristic.NewName()              // pr only
	r := zzNewRig(t, []*characteristic.Characteristic{ro.Characteristic, wo.Characteristic, nev.Characteristic}, 2)
	nev.SetValue("n")
	calls := 0
	for _, c := range []*characteristic.Characteristic{ro.Characteristic, nev.Characteristic} {
		c.OnValueUpdateFromConn(func(net.Conn, *characteristic.Characteristic, interface{}, interface{}) { calls++ })
		c.OnValueUpdate(func(*characteristic.Characteristic, interface{}, interface{}) { calls++ })
	}
	roBefore, nevBefore := ro.Value, nev.Value
	bodies := []string{
		`{"characteristics":[{"aid":1,"iid":%[1]d,"VALUE":55,"EV":true}]}`,
		`{"Characteristics":[{"AID":1,"IID":%[1]d,"Value":55}]}`,
		`{"characteristics":[{"aid":1,"iid":%[1]d,"value":null,"value":55}]}`,
		`{"characteristics":[{"aid":1,"iid":%[1]d,"value":55},{"aid":1,"iid":%[1]d,"value":56}]}`,
		`{"characteristics":[{"aid":1.0,"iid":%[1]d,"value":55}]}`,
		`{"characteristics":[{"aid":1,"iid":%[1]d,"value":55,"ev":false,"ev":true}]}`,
		`{"characteristics":[{"aid":1,"iid":%[1]d,"value":55}],"characteristics":[{"aid":1,"iid":%[1]d,"value":57}]}`,
		"\ufeff" + `{"characteristics":[{"aid":1,"iid":%[1]d,"value":55}]}`,
		`{"characteristics":[{"aid":1,"iid":%[1]d,"value":55}]} trailing`,
	}
	for _, b := range bodies {
		for _, c := range []*characteristic.Characteristic{ro.Characteristic, nev.Characteristic} {
			code, body := r.do(0, "PUT", "/characteristics", fmt.Sprintf(b, c.ID))
			if ro.Value != roBefore || nev.Value != nevBefore || calls != 0 {
				t.Errorf("%s: %d %q values %v %v calls %d", b, code, body, ro.Value, nev.Value, calls)
			}
		}
		// name has no event permission
		if r.sess[0].IsSubscribedTo(nev.Characteristic) {
			t.Errorf("%s: subscribed to Name", b)
		}
		if r.sess[0].IsSubscribedTo(wo.Characteristic) {
			t.Errorf("%s: subscribed to Identify", b)
		}
	}
	for _, b := range []string{
		`{"characteristics":[{"aid":1,"iid":%[1]d,"EV":true}]}`,
		`{"characteristics":[{"aid":1,"iid":%[1]d,"ev":false,"ev":true}]}`,
		`{"characteristics":[{"aid":1,"iid":%[1]d,"ev":true},{"aid":1,"iid":%[1]d,"ev":true}]}`,
	} {
		for _, c := range []*characteristic.Characteristic{wo.Characteristic, nev.Characteristic} {
			code, body := r.do(0, "PUT", "/characteristics", fmt.Sprintf(b, c.ID))
			if !strings.Contains(body, `"status":-70406`) || r.sess[0].IsSubscribedTo(c) {
				t.Errorf("%s: %d %q", b, code, body)
			}
		}
	}
	nev.SetValue("m")
	wo.SetValue(true)
	r.do(1, "PUT", "/characteristics", fmt.Sprintf(`{"characteristics":[{"aid":1,"iid":%d,"value":true}]}`, wo.ID))
	if tr := r.traffic(); tr != "" {
		t.Errorf("events %q", tr)
	}
}

// Probe H4: parallel PUTs from several connections on not-writable / not-observable characteristics.
func TestZZHuntHTTPParallel(t *testing.T) {
	ro := characteristic.NewCurrentTemperature()
	nev := characteristic.NewName()
	r := zzNewRig(t, []*characteristic.Characteristic{ro.Characteristic, nev.Characteristic}, 8)
	nev.SetValue("n")
	roBefore, nevBefore := ro.Value, nev.Value
	var mu sync.Mutex
	calls := 0
	for _, c := range []*characteristic.Characteristic{ro.Characteristic, nev.Characteristic} {
		c.OnValueUpdateFromConn(func(net.Conn, *characteristic.Characteristic, interface{}, interface{}) { mu.Lock(); calls++; mu.Unlock() })
	}
	var wg sync.WaitGroup
	for i := 0; i < 8; i++ {
		wg.Add(1)
		go func(i int) {
			defer wg.Done()
			for k := 0; k < 200; k++ {
				r.do(i, "PUT", "/characteristics", fmt.Sprintf(`{"characteristics":[{"aid":1,"iid":%d,"value":%d,"ev":true},{"aid":1,"iid":%d,"value":"x%d","ev":true}]}`, ro.ID, k, nev.ID, k))
				r.do(i, "GET", fmt.Sprintf("/characteristics?id=1.%d,1.%d", ro.ID, nev.ID), "")
			}
		}(i)
	}
	wg.Wait()
	if ro.Value != roBefore || nev.Value != nevBefore || calls != 0 {
		t.Errorf("values %v %v calls %d", ro.Value, nev.Value, calls)
	}
	for i := range r.sess {
		if r.sess[i].IsSubscribedTo(nev.Characteristic) {
			t.Errorf("conn %d subscribed to Name", i)
		}
	}
}

package characteristic

import (
	"encoding/json"
	"fmt"
	"math"
	"net"
	"reflect"
	"strings"
	"testing"
)

func zzBase(v interface{}) *Characteristic {
	f := reflect.ValueOf(v).Elem().FieldByName("Characteristic")
	return f.Interface().(*Characteristic)
}

func zzValues() []interface{} {
	var vals []interface{}
	for _, s := range []string{
		`true`, `false`, `0`, `1`, `-1`, `2`, `100`, `255`, `256`, `1.5`, `-0.0`, `1e308`, `-1e308`, `1e-320`,
		`4294967296`, `18446744073709551616`, `9223372036854775807`, `-9223372036854775808`,
		`""`, `"a"`, `"1"`, `"true"`, `"false"`, `"0"`, `"NaN"`, `"Inf"`, `"-Inf"`, `"AQID"`, `"\u0000"`,
		`[]`, `[1]`, `[[1]]`, `{}`, `{"a":1}`, `[true,"x"]`,
	} {
		var v interface{}
		if err := json.Unmarshal([]byte(s), &v); err != nil {
			panic(err)
		}
		vals = append(vals, v)
	}
	// in-process API can also see Go typed values
	vals = append(vals, int(7), int64(-3), uint8(9), float32(2.5), math.NaN(), math.Inf(1), math.Inf(-1), []byte{1, 2}, struct{}{}, nil)
	return vals
}

var zzPermSets = [][]string{
	{},
	{PermRead},
	{PermWrite},
	{PermEvents},
	{PermRead, PermWrite},
	{PermRead, PermEvents},
	{PermWrite, PermEvents},
	{PermRead, PermWrite, PermEvents},
	{PermHidden},
	{PermHidden, PermWriteResponse},
	{PermRead, PermHidden},
	{"PW"}, {"pw "}, {"pr,pw"},
	nil,
}

func zzSafe(t *testing.T, what string, fn func()) {
	defer func() {
		if r := recover(); r != nil {
			t.Errorf("%s: panic %v", what, r)
		}
	}()
	fn()
}

// Probe 1: stock permissions of every constructor; remote writes of every value.
func TestZZHuntStockPerms(t *testing.T) {
	nWO, nRO := 0, 0
	for _, ct := range zzCtors {
		for _, val := range zzValues() {
			c := zzBase(ct.fn())
			remote, local := 0, 0
			c.OnValueUpdateFromConn(func(conn net.Conn, c *Characteristic, n, o interface{}) { remote++ })
			c.OnValueUpdate(func(c *Characteristic, n, o interface{}) { local++ })
			before := c.Value
			what := fmt.Sprintf("%s perms=%v val=%#v", ct.name, c.Perms, val)
			zzSafe(t, what, func() { c.UpdateValueFromConnection(val, TestConn) })
			zzSafe(t, what, func() { c.UpdateValueFromConnection(val, nil) })
			if !c.IsWritable() {
				if !reflect.DeepEqual(before, c.Value) && !(zzIsNaN(before) && zzIsNaN(c.Value)) {
					t.Errorf("%s: value changed %#v -> %#v", what, before, c.Value)
				}
				if remote != 0 || local != 0 {
					t.Errorf("%s: callbacks remote=%d local=%d", what, remote, local)
				}
			}
			if !c.IsReadable() {
				if c.Value != nil {
					t.Errorf("%s: not readable but stores %#v", what, c.Value)
				}
				zzSafe(t, what, func() { c.UpdateValue(val) })
				if c.Value != nil {
					t.Errorf("%s: not readable but stores %#v after local update", what, c.Value)
				}
				if v := c.GetValueFromConnection(TestConn); v != nil {
					t.Errorf("%s: reveals %#v", what, v)
				}
				b, err := json.Marshal(c)
				if err != nil {
					t.Errorf("%s: %v", what, err)
				}
				if strings.Contains(string(b), `"value"`) {
					t.Errorf("%s: json reveals %s", what, b)
				}
			}
		}
		c := zzBase(ct.fn())
		if !c.IsReadable() {
			nWO++
		}
		if !c.IsWritable() {
			nRO++
		}
	}
	t.Logf("ctors=%d not-readable=%d not-writable=%d", len(zzCtors), nWO, nRO)
}

func zzIsNaN(v interface{}) bool {
	f, ok := v.(float64)
	return ok && math.IsNaN(f)
}

// Probe 2: custom permission sets applied to a freshly built characteristic of every type
// (value slot cleared when the custom set is not readable, so only what happens afterwards counts).
func TestZZHuntCustomPerms(t *testing.T) {
	for _, ct := range zzCtors {
		for _, perms := range zzPermSets {
			for _, val := range zzValues() {
				c := zzBase(ct.fn())
				c.Perms = perms
				readable := false
				writable := false
				for _, p := range perms {
					if p == "pr" {
						readable = true
					}
					if p == "pw" {
						writable = true
					}
				}
				if !readable {
					c.Value = nil
				}
				remote, local := 0, 0
				c.OnValueUpdateFromConn(func(conn net.Conn, c *Characteristic, n, o interface{}) { remote++ })
				c.OnValueUpdate(func(c *Characteristic, n, o interface{}) { local++ })
				getCalls := 0
				before := c.Value
				what := fmt.Sprintf("%s perms=%q val=%#v", ct.name, perms, val)
				zzSafe(t, what, func() { c.UpdateValueFromConnection(val, TestConn) })
				zzSafe(t, what, func() { c.UpdateValueFromConnection(val, nil) })
				if !writable {
					if !reflect.DeepEqual(before, c.Value) {
						t.Errorf("%s: value changed %#v -> %#v", what, before, c.Value)
					}
					if remote != 0 || local != 0 {
						t.Errorf("%s: callbacks remote=%d local=%d", what, remote, local)
					}
				}
				if !readable {
					if c.Value != nil {
						t.Errorf("%s: not readable but stores %#v", what, c.Value)
					}
					zzSafe(t, what, func() { c.UpdateValue(val) })
					if c.Value != nil {
						t.Errorf("%s: not readable but stores %#v after local update", what, c.Value)
					}
					c.OnValueGet(func() interface{} { getCalls++; return val })
					var v interface{}
					zzSafe(t, what, func() { v = c.GetValueFromConnection(TestConn) })
					if v != nil {
						t.Errorf("%s: reveals %#v", what, v)
					}
					zzSafe(t, what, func() { v = c.GetValue() })
					if v != nil || c.Value != nil {
						t.Errorf("%s: reveals/stores %#v %#v after get func", what, v, c.Value)
					}
					b, err := json.Marshal(c)
					if err != nil {
						t.Errorf("%s: %v", what, err)
					}
					if strings.Contains(string(b), `"value"`) {
						t.Errorf("%s: json reveals %s", what, b)
					}
				}
			}
		}
	}
}

// Probe 3: repeated / interleaved operations on a not-writable readable characteristic:
// local update, remote write of the same, of a different, of a clamped value, after get func.
func TestZZHuntInterleaved(t *testing.T) {
	for _, ct := range zzCtors {
		c := zzBase(ct.fn())
		c.Perms = []string{PermRead, PermEvents}
		remote := 0
		c.OnValueUpdateFromConn(func(conn net.Conn, c *Characteristic, n, o interface{}) { remote++ })
		vals := zzValues()
		for i, lv := range vals {
			if lv == nil {
				continue
			}
			zzSafe(t, ct.name, func() { c.UpdateValue(lv) })
			before := c.Value
			rv := vals[(i*7+3)%len(vals)]
			zzSafe(t, ct.name, func() { c.UpdateValueFromConnection(rv, TestConn) })
			if !reflect.DeepEqual(before, c.Value) {
				t.Errorf("%s: local %#v then remote %#v: %#v -> %#v", ct.name, lv, rv, before, c.Value)
			}
		}
		if remote != 0 {
			t.Errorf("%s: remote callbacks %d", ct.name, remote)
		}
	}
}

package hc

import (
	"bytes"
	"encoding/json"
	"fmt"
	"net"
	nethttp "net/http"
	"net/http/httptest"
	"reflect"
	"strings"
	"sync"
	"testing"
	"time"

	"github.com/brutella/hc/accessory"
	"github.com/brutella/hc/characteristic"
	"github.com/brutella/hc/crypto"
	"github.com/brutella/hc/db"
	"github.com/brutella/hc/event"
	"github.com/brutella/hc/hap"
	"github.com/brutella/hc/hap/http"
	"github.com/brutella/hc/service"
)

type zzAddr string

func (a zzAddr) Network() string { return "tcp" }
func (a zzAddr) String() string  { return string(a) }

type zzConn struct {
	addr string
	mu   sync.Mutex
	buf  bytes.Buffer
}

func (f *zzConn) Read(b []byte) (int, error) { return 0, nil }
func (f *zzConn) Write(b []byte) (int, error) {
	f.mu.Lock()
	defer f.mu.Unlock()
	return f.buf.Write(b)
}
func (f *zzConn) Close() error                       { return nil }
func (f *zzConn) LocalAddr() net.Addr                { return zzAddr("127.0.0.1:1") }
func (f *zzConn) RemoteAddr() net.Addr               { return zzAddr(f.addr) }
func (f *zzConn) SetDeadline(t time.Time) error      { return nil }
func (f *zzConn) SetReadDeadline(t time.Time) error  { return nil }
func (f *zzConn) SetWriteDeadline(t time.Time) error { return nil }
func (f *zzConn) take() string {
	f.mu.Lock()
	defer f.mu.Unlock()
	s := f.buf.String()
	f.buf.Reset()
	return s
}

type zzRig struct {
	tr    *ipTransport
	acc   *accessory.Accessory
	srv   *http.Server
	conns []*zzConn
	sess  []hap.Session
}

func zzBase(v interface{}) *characteristic.Characteristic {
	f := reflect.ValueOf(v).Elem().FieldByName("Characteristic")
	return f.Interface().(*characteristic.Characteristic)
}

func zzNewRig(t *testing.T, chars []*characteristic.Characteristic, nconn int) *zzRig {
	database, err := db.NewTempDatabase()
	if err != nil {
		t.Fatal(err)
	}
	dev, err := hap.NewSecuredDevice("zz", "00102003", database)
	if err != nil {
		t.Fatal(err)
	}
	a := accessory.New(accessory.Info{Name: "zz"}, accessory.TypeOther)
	svc := service.New("FFFF")
	for _, c := range chars {
		svc.AddCharacteristic(c)
	}
	a.AddService(svc)

	tr := &ipTransport{
		database:  database,
		device:    dev,
		container: accessory.NewContainer(),
		mutex:     &sync.Mutex{},
		context:   hap.NewContextForSecuredDevice(dev),
		emitter:   event.NewEmitter(),
	}
	tr.addAccessory(a)
	srv := http.NewServer(http.Config{
		Port:      "127.0.0.1:0",
		Context:   tr.context,
		Database:  tr.database,
		Container: tr.container,
		Device:    tr.device,
		Mutex:     tr.mutex,
		Emitter:   tr.emitter,
	})
	tr.server = srv
	r := &zzRig{tr: tr, acc: a, srv: srv}
	for i := 0; i < nconn; i++ {
		conn := &zzConn{addr: fmt.Sprintf("10.0.0.%d:5000", i+1)}
		s := hap.NewSession(conn)
		cr, err := crypto.NewSecureSessionFromSharedKey([32]byte{byte(i)})
		if err != nil {
			t.Fatal(err)
		}
		s.SetCryptographer(cr)
		s.Decrypter()
		tr.context.SetSessionForConnection(s, conn)
		r.conns = append(r.conns, conn)
		r.sess = append(r.sess, s)
	}
	return r
}

func (r *zzRig) do(conn int, method, target, body string) (int, string) {
	req := httptest.NewRequest(method, target, strings.NewReader(body))
	req.RemoteAddr = r.conns[conn].addr
	w := httptest.NewRecorder()
	r.srv.Mux.ServeHTTP(w, req)
	return w.Code, w.Body.String()
}

func (r *zzRig) traffic() string {
	s := ""
	for _, c := range r.conns {
		s += c.take()
	}
	return s
}

var zzJSONValues = []string{
	`true`, `false`, `0`, `1`, `-1`, `2`, `100`, `255`, `256`, `1.5`, `-0.0`, `1e308`, `-1e308`,
	`4294967296`, `18446744073709551616`, `-9223372036854775808`,
	`""`, `"a"`, `"1"`, `"true"`, `"NaN"`, `"Inf"`, `"AQID"`, `"\u0000"`,
	`[]`, `[1]`, `{}`, `{"a":1}`,
}

var zzPermSets = map[string][]string{
	"stock": nil,
	"none":  {},
	"pr":    {"pr"},
	"pw":    {"pw"},
	"ev":    {"ev"},
	"prpw":  {"pr", "pw"},
	"prev":  {"pr", "ev"},
	"pwev":  {"pw", "ev"},
	"all":   {"pr", "pw", "ev"},
}

func zzHas(perms []string, p string) bool {
	for _, x := range perms {
		if x == p {
			return true
		}
	}
	return false
}

func zzBuild(set string) ([]*characteristic.Characteristic, []string) {
	var chars []*characteristic.Characteristic
	var names []string
	for _, ct := range zzCtors {
		c := zzBase(ct.fn())
		if set != "stock" {
			c.Perms = zzPermSets[set]
			if !zzHas(c.Perms, "pr") {
				c.Value = nil // only what happens after the custom set is in force counts
			}
		}
		chars = append(chars, c)
		names = append(names, ct.name)
	}
	return chars, names
}

type zzEntry struct {
	AID    uint64           `json:"aid"`
	IID    uint64           `json:"iid"`
	Value  *json.RawMessage `json:"value"`
	Status *int             `json:"status"`
}

func zzParse(body string) ([]zzEntry, error) {
	var r struct {
		Characteristics []zzEntry `json:"characteristics"`
	}
	if strings.TrimSpace(body) == "" {
		return nil, nil
	}
	err := json.Unmarshal([]byte(body), &r)
	return r.Characteristics, err
}

// accessoriesValues returns iid -> raw value for everything GET /accessories reveals
func (r *zzRig) accessoriesValues(t *testing.T) map[uint64]string {
	_, body := r.do(0, "GET", "/accessories", "")
	var doc struct {
		Accessories []struct {
			Services []struct {
				Characteristics []struct {
					IID   uint64           `json:"iid"`
					Value *json.RawMessage `json:"value"`
				} `json:"characteristics"`
			} `json:"services"`
		} `json:"accessories"`
	}
	if err := json.Unmarshal([]byte(body), &doc); err != nil {
		t.Fatalf("accessories: %v", err)
	}
	m := map[uint64]string{}
	for _, a := range doc.Accessories {
		for _, s := range a.Services {
			for _, c := range s.Characteristics {
				if c.Value != nil {
					m[c.IID] = string(*c.Value)
				}
			}
		}
	}
	return m
}

// Probe H1: HTTP PUT of every JSON value to every characteristic type under stock and custom permission sets.
func TestZZHuntHTTPWrite(t *testing.T) {
	for set := range zzPermSets {
		chars, names := zzBuild(set)
		r := zzNewRig(t, chars, 2)
		remote := make([]int, len(chars))
		local := make([]int, len(chars))
		for i, c := range chars {
			i := i
			c.OnValueUpdateFromConn(func(conn net.Conn, c *characteristic.Characteristic, n, o interface{}) { remote[i]++ })
			c.OnValueUpdate(func(c *characteristic.Characteristic, n, o interface{}) { local[i]++ })
		}
		// connection 1 tries to subscribe to everything
		for _, c := range chars {
			r.do(1, "PUT", "/characteristics", fmt.Sprintf(`{"characteristics":[{"aid":1,"iid":%d,"ev":true}]}`, c.ID))
		}
		r.traffic()
		for i, c := range chars {
			for _, v := range zzJSONValues {
				what := fmt.Sprintf("[%s] %s iid=%d perms=%q value=%s", set, names[i], c.ID, c.Perms, v)
				before := c.Value
				remote[i], local[i] = 0, 0
				code, body := r.do(0, "PUT", "/characteristics", fmt.Sprintf(`{"characteristics":[{"aid":1,"iid":%d,"value":%s}]}`, c.ID, v))
				_ = code
				_ = body
				tr := r.traffic()
				if !c.IsWritable() {
					if !reflect.DeepEqual(before, c.Value) {
						t.Errorf("%s: value changed %#v -> %#v", what, before, c.Value)
					}
					if remote[i] != 0 || local[i] != 0 {
						t.Errorf("%s: callbacks %d %d", what, remote[i], local[i])
					}
					if tr != "" {
						t.Errorf("%s: traffic %q", what, tr)
					}
				}
				if !c.IsObservable() && tr != "" {
					t.Errorf("%s: not observable but traffic %q", what, tr)
				}
				if !c.IsReadable() {
					if c.Value != nil {
						t.Errorf("%s: stores %#v", what, c.Value)
					}
					_, gb := r.do(0, "GET", fmt.Sprintf("/characteristics?id=1.%d", c.ID), "")
					es, err := zzParse(gb)
					if err != nil || len(es) != 1 {
						t.Errorf("%s: GET %q %v", what, gb, err)
					} else if es[0].Value != nil {
						t.Errorf("%s: GET reveals %s", what, gb)
					}
					if strings.Contains(tr, `"value"`) && !strings.Contains(tr, `"value":null`) {
						t.Errorf("%s: event reveals %q", what, tr)
					}
				}
			}
		}
		vals := r.accessoriesValues(t)
		for i, c := range chars {
			if !c.IsReadable() {
				if v, ok := vals[c.ID]; ok {
					t.Errorf("[%s] %s: /accessories reveals %s", set, names[i], v)
				}
			}
		}
	}
}

var zzEvValues = []string{`true`, `false`, `1`, `0`, `"true"`, `"1"`, `""`, `[]`, `{}`, `[true]`, `1.0`}

// Probe H2: subscription attempts on every characteristic type without event permission.
func TestZZHuntHTTPSubscribe(t *testing.T) {
	for set := range zzPermSets {
		chars, names := zzBuild(set)
		r := zzNewRig(t, chars, 3)
		for i, c := range chars {
			if c.IsObservable() {
				continue
			}
			for _, ev := range zzEvValues {
				for _, shape := range []string{
					`{"characteristics":[{"aid":1,"iid":%d,"ev":%s}]}`,
					`{"characteristics":[{"aid":1,"iid":%d,"value":1,"ev":%s}]}`,
					`{"characteristics":[{"aid":1,"iid":%d,"ev":%s,"value":"x"}]}`,
					`{"characteristics":[{"aid":1,"iid":1,"value":true},{"aid":1,"iid":%d,"ev":%s},{"aid":1,"iid":9999,"ev":true}]}`,
				} {
					what := fmt.Sprintf("[%s] %s iid=%d perms=%q ev=%s shape=%s", set, names[i], c.ID, c.Perms, ev, shape)
					code, body := r.do(0, "PUT", "/characteristics", fmt.Sprintf(shape, c.ID, ev))
					es, err := zzParse(body)
					if err != nil {
						t.Errorf("%s: %d %q %v", what, code, body, err)
						continue
					}
					found := false
					for _, e := range es {
						if e.IID == c.ID && e.AID == 1 && e.Status != nil && *e.Status != 0 {
							found = true
						}
					}
					if !found {
						t.Errorf("%s: not rejected with a status: %d %q", what, code, body)
					}
					if r.sess[0].IsSubscribedTo(c) {
						t.Errorf("%s: subscribed", what)
					}
					r.traffic()
					// now make the value change locally and from another connection
					for _, v := range []interface{}{1, 0, true, false, "a", "b", 2.5} {
						c.UpdateValue(v)
					}
					for _, v := range []string{`1`, `0`, `true`, `false`, `"a"`, `"b"`} {
						r.do(1, "PUT", "/characteristics", fmt.Sprintf(`{"characteristics":[{"aid":1,"iid":%d,"value":%s}]}`, c.ID, v))
					}
					r.do(2, "GET", fmt.Sprintf("/characteristics?id=1.%d", c.ID), "")
					if tr := r.traffic(); tr != "" {
						t.Errorf("%s: events produced %q", what, tr)
					}
				}
			}
		}
	}
}

var _ = nethttp.StatusOK

package hc

// Observations made while hunting C19 which are NOT violations of C19 as it is
// stated (every single key holds its previous or its new value at every crash
// point). They fail on purpose so that they can be looked at; see the report.

import (
	"io/ioutil"
	"os"
	"strings"
	"testing"

	"github.com/brutella/hc/db"
	"github.com/brutella/hc/util"
)

// OUTSIDE C19 (cross-key): the very first start stores the key-pair entity of a
// random id before it stores that id under "uuid". Killed in between, the next
// start draws another id and another key pair; the orphan entity stays and
// isPaired() (more than one entity) is true for an accessory nobody paired.
func TestZZHuntOutsideFirstStartOrphanEntity(t *testing.T) {
	for k := 0; ; k++ {
		dir, _ := ioutil.TempDir("", "huntC19first")
		killed, at := huntRunChild(t, "transport1", dir, k)
		huntRunChild(t, "transport1", dir, -1) // restart, runs to completion
		st, _ := util.NewFileStorage(dir)
		es, _ := db.NewDatabaseWithStorage(st).Entities()
		if len(es) != 1 {
			t.Errorf("first start killed at point %d before %s: after a complete restart the database holds %d entities => isPaired()=true, sf=0", k, at, len(es))
			os.RemoveAll(dir)
			break
		}
		os.RemoveAll(dir)
		if !killed {
			break
		}
	}
}

// OUTSIDE C19 (no corruption, related to the known temp-file naming): after a
// crash the temp file is listed as a key by KeysWithSuffix and readable by Get.
func TestZZHuntOutsidePhantomKey(t *testing.T) {
	valfile := os.TempDir() + "/huntC19-newval6"
	ioutil.WriteFile(valfile, []byte(strings.Repeat("N", 100)), 0600)
	dir := huntFreshDir(t, map[string]string{"uuid": "old"})
	defer os.RemoveAll(dir)
	_, at := huntRunChild(t, "set:uuid:", dir, 2, "HUNT_NEWVAL="+valfile)
	st, _ := util.NewFileStorage(dir)
	ks, _ := st.KeysWithSuffix("")
	if len(ks) != 1 {
		t.Errorf("killed before %s: keys now %v", at, ks)
	}
}

// OUTSIDE C19 (no crash, no corruption): keys of 252..255 bytes, which the file
// system accepts, cannot be set any more because key+".tmp" is too long.
func TestZZHuntOutsideLongKey(t *testing.T) {
	dir := huntFreshDir(t, nil)
	defer os.RemoveAll(dir)
	st, _ := util.NewFileStorage(dir)
	if err := st.Set(strings.Repeat("k", 252), []byte("v")); err != nil {
		t.Errorf("Set: %v", err)
	}
}

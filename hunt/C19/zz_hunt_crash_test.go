package hc

// Throw-away crash-injection harness for property C19.
//
// The test binary re-executes itself as a traced child (ptrace). The child runs
// one scenario between two marker syscalls (openat of a non-existing marker
// path). The parent stops the child at the entry of the k-th file-system
// syscall after the begin marker and SIGKILLs it there, i.e. the syscall is
// never executed: this is "the process is killed between file-system
// operations". Afterwards the parent opens a fresh store on the directory and
// checks the property. k runs from 0 until the child reaches the end marker.

import (
	"bytes"
	"fmt"
	"io/ioutil"
	"os"
	"os/exec"
	"path/filepath"
	"runtime"
	"sort"
	"strings"
	"syscall"
	"testing"

	"github.com/brutella/hc/accessory"
	"github.com/brutella/hc/db"
	"github.com/brutella/hc/util"
)

const (
	huntMarkBegin = "/HUNT_C19_MARK_BEGIN"
	huntMarkEnd   = "/HUNT_C19_MARK_END"
)

var huntSysNames = map[uint64]string{
	1: "write", 2: "open", 3: "close", 18: "pwrite64", 74: "fsync", 75: "fdatasync",
	76: "truncate", 77: "ftruncate", 82: "rename", 83: "mkdir", 84: "rmdir", 85: "creat", 86: "link",
	87: "unlink", 90: "chmod", 91: "fchmod", 257: "openat", 258: "mkdirat", 263: "unlinkat",
	264: "renameat", 265: "linkat", 266: "symlinkat", 268: "fchmodat", 316: "renameat2",
}

// huntPartial: when the crash point is a write, let half of it happen and kill at its return.
var huntPartial bool

func huntPeekString(tid int, addr uintptr) string {
	buf := make([]byte, 256)
	n, err := syscall.PtracePeekData(tid, addr, buf)
	if err != nil || n <= 0 {
		return ""
	}
	if i := bytes.IndexByte(buf[:n], 0); i >= 0 {
		return string(buf[:i])
	}
	return string(buf[:n])
}

// huntRunChild runs scenario in a traced child and kills it at entry of the
// k-th counted syscall after the begin marker (k<0: never kill). It returns
// whether the child was killed and a description of the syscall it was killed at.
func huntRunChild(t *testing.T, scenario, dir string, k int, extraEnv ...string) (killed bool, at string) {
	runtime.LockOSThread()
	defer runtime.UnlockOSThread()

	cmd := exec.Command(os.Args[0], "-test.run=^TestZZHuntChild$")
	cmd.Env = append(os.Environ(), "HUNT_SCENARIO="+scenario, "HUNT_DIR="+dir)
	cmd.Env = append(cmd.Env, extraEnv...)
	var out bytes.Buffer
	cmd.Stdout = &out
	cmd.Stderr = &out
	cmd.SysProcAttr = &syscall.SysProcAttr{Ptrace: true}
	if err := cmd.Start(); err != nil {
		t.Fatal(err)
	}
	pid := cmd.Process.Pid
	var ws syscall.WaitStatus
	if _, err := syscall.Wait4(pid, &ws, 0, nil); err != nil {
		t.Fatal(err)
	}
	const opts = syscall.PTRACE_O_TRACECLONE | syscall.PTRACE_O_TRACESYSGOOD | 0x100000 /*EXITKILL*/
	if err := syscall.PtraceSetOptions(pid, opts); err != nil {
		t.Fatal("setoptions: ", err)
	}
	if err := syscall.PtraceSyscall(pid, 0); err != nil {
		t.Fatal(err)
	}

	inSyscall := map[int]bool{}
	active := false
	done := false
	count := 0
	killAtExit := -1
	const wall = 0x40000000
	for {
		tid, err := syscall.Wait4(-1, &ws, wall, nil)
		if err != nil {
			if err == syscall.EINTR {
				continue
			}
			break // ECHILD
		}
		if ws.Exited() || ws.Signaled() {
			if tid == pid {
				break
			}
			continue
		}
		if !ws.Stopped() {
			continue
		}
		sig := ws.StopSignal()
		inject := 0
		switch {
		case sig == syscall.SIGTRAP|0x80:
			entering := !inSyscall[tid]
			inSyscall[tid] = entering
			if !entering && tid == killAtExit {
				syscall.Kill(pid, syscall.SIGKILL)
				killed = true
			}
			if entering {
				var regs syscall.PtraceRegs
				if err := syscall.PtraceGetRegs(tid, &regs); err == nil {
					nr := regs.Orig_rax
					name, counted := huntSysNames[nr]
					path := ""
					switch nr {
					case 257, 263, 258, 268:
						path = huntPeekString(tid, uintptr(regs.Rsi))
					case 264, 316:
						path = huntPeekString(tid, uintptr(regs.Rsi)) + " -> " + huntPeekString(tid, uintptr(regs.R10))
					case 2, 87, 83, 82:
						path = huntPeekString(tid, uintptr(regs.Rdi))
					case 1, 3, 74, 77:
						path = fmt.Sprintf("fd=%d len=%d", regs.Rdi, regs.Rdx)
					}
					if nr == 257 && path == huntMarkBegin {
						active = true
					} else if nr == 257 && path == huntMarkEnd {
						active = false
						done = true
					} else if active && counted {
						if nr == 1 && regs.Rdi <= 2 {
							// output to stdout / stderr
						} else {
							if count == k {
								at = fmt.Sprintf("%s(%s)", name, path)
								if huntPartial && nr == 1 && regs.Rdx > 1 {
									regs.Rdx = regs.Rdx / 2
									if err := syscall.PtraceSetRegs(tid, &regs); err != nil {
										t.Fatal(err)
									}
									at += fmt.Sprintf(" cut to %d bytes, killed at return", regs.Rdx)
									killAtExit = tid
								} else {
									syscall.Kill(pid, syscall.SIGKILL)
									killed = true
								}
							}
							count++
						}
					}
				}
			}
		case sig == syscall.SIGTRAP:
			// ptrace event (clone) or exec trap
		case sig == syscall.SIGSTOP:
			// new thread's initial stop
		default:
			inject = int(sig)
		}
		if killed {
			// reap everything
			for {
				if _, err := syscall.Wait4(-1, &ws, wall, nil); err != nil && err != syscall.EINTR {
					break
				}
			}
			break
		}
		syscall.PtraceSyscall(tid, inject)
	}
	cmd.Process.Release()
	if !killed && !done {
		t.Fatalf("child did not reach end marker (scenario %s):\n%s", scenario, out.String())
	}
	return
}

func huntMark(p string) {
	f, err := os.Open(p)
	if err == nil {
		f.Close()
	}
}

// ---- child ----

func TestZZHuntChild(t *testing.T) {
	sc := os.Getenv("HUNT_SCENARIO")
	if sc == "" {
		t.Skip("helper")
	}
	dir := os.Getenv("HUNT_DIR")
	switch {
	case strings.HasPrefix(sc, "set:"):
		// set:<key>:<hexlen>
		parts := strings.Split(sc, ":")
		st, err := util.NewFileStorage(dir)
		if err != nil {
			t.Fatal(err)
		}
		val, _ := ioutil.ReadFile(os.Getenv("HUNT_NEWVAL"))
		huntMark(huntMarkBegin)
		st.Set(parts[1], val)
		huntMark(huntMarkEnd)
	case sc == "saveentity":
		st, _ := util.NewFileStorage(dir)
		d := db.NewDatabaseWithStorage(st)
		huntMark(huntMarkBegin)
		d.SaveEntity(db.NewEntity("controller-1", bytes.Repeat([]byte{0xbb}, 32), nil))
		huntMark(huntMarkEnd)
	case sc == "deleteentity":
		st, _ := util.NewFileStorage(dir)
		d := db.NewDatabaseWithStorage(st)
		huntMark(huntMarkBegin)
		d.DeleteEntity(db.NewEntity("controller-1", nil, nil))
		huntMark(huntMarkEnd)
	case sc == "serial":
		st, _ := util.NewFileStorage(dir)
		huntMark(huntMarkBegin)
		util.GetSerialNumberForAccessoryName("Lamp", st)
		huntMark(huntMarkEnd)
	case strings.HasPrefix(sc, "transport"):
		info := accessory.Info{Name: "Lamp"}
		var a *accessory.Accessory
		if sc == "transport2" {
			a = accessory.NewLightbulb(info).Accessory
		} else {
			a = accessory.NewSwitch(info).Accessory
		}
		huntMark(huntMarkBegin)
		_, err := NewIPTransport(Config{StoragePath: dir}, a)
		huntMark(huntMarkEnd)
		if err != nil {
			t.Fatal(err)
		}
	default:
		if !huntChildMore(t, sc, dir) {
			t.Fatal("unknown scenario " + sc)
		}
	}
}

// ---- helpers for the parent ----

func huntSnapshot(t *testing.T, dir string) map[string]string {
	m := map[string]string{}
	infos, err := ioutil.ReadDir(dir)
	if err != nil {
		t.Fatal(err)
	}
	st, _ := util.NewFileStorage(dir)
	for _, i := range infos {
		b, err := st.Get(i.Name())
		if err != nil {
			t.Fatal(err)
		}
		m[i.Name()] = string(b)
	}
	return m
}

func huntKeys(m map[string]string) []string {
	var ks []string
	for k := range m {
		ks = append(ks, k)
	}
	sort.Strings(ks)
	return ks
}

func huntShort(s string) string {
	if len(s) > 40 {
		return fmt.Sprintf("%q...(%d bytes)", s[:40], len(s))
	}
	return fmt.Sprintf("%q", s)
}

func huntFreshDir(t *testing.T, pre map[string]string) string {
	dir, err := ioutil.TempDir("", "huntC19")
	if err != nil {
		t.Fatal(err)
	}
	st, _ := util.NewFileStorage(dir)
	for k, v := range pre {
		if err := st.Set(k, []byte(v)); err != nil {
			t.Fatal(err)
		}
	}
	return dir
}

// ---- probe 1: Set over all old/new length relations, every crash point ----

func TestZZHuntSetCrashPoints(t *testing.T) {
	big := strings.Repeat("0123456789abcdef", 1<<16) // 1 MiB
	olds := map[string]*string{"absent": nil}
	for name, v := range map[string]string{"empty": "", "short": "ab", "len32": strings.Repeat("o", 32), "len33": strings.Repeat("o", 33), "long": strings.Repeat("O", 5000), "big": big} {
		v := v
		olds[name] = &v
	}
	news := map[string]string{"empty": "", "one": "x", "len31": strings.Repeat("n", 31), "len32": strings.Repeat("n", 32), "len4097": strings.Repeat("N", 4097), "big": strings.ToUpper(big)}

	valfile := filepath.Join(os.TempDir(), "huntC19-newval")
	for oname, old := range olds {
		for nname, nv := range news {
			ioutil.WriteFile(valfile, []byte(nv), 0600)
			points := 0
			for k := 0; ; k++ {
				pre := map[string]string{"other": "untouched-value", "uuidx": "AA:BB"}
				if old != nil {
					pre["uuid"] = *old
				}
				dir := huntFreshDir(t, pre)
				killed, at := huntRunChild(t, "set:uuid:", dir, k, "HUNT_NEWVAL="+valfile)
				post := huntSnapshot(t, dir)
				got, present := post["uuid"]
				ok := false
				if present && got == nv {
					ok = true
				}
				if old == nil && !present {
					ok = true
				}
				if old != nil && present && got == *old {
					ok = true
				}
				if !ok {
					t.Errorf("old=%s new=%s crash point %d before %s: uuid present=%v value=%s", oname, nname, k, at, present, huntShort(got))
				}
				if !killed && (!present || got != nv) {
					t.Errorf("old=%s new=%s: completed Set did not store the value", oname, nname)
				}
				if post["other"] != "untouched-value" || post["uuidx"] != "AA:BB" {
					t.Errorf("old=%s new=%s crash point %d before %s: other keys touched: %v", oname, nname, k, at, post)
				}
				for _, key := range huntKeys(post) {
					if key != "uuid" && key != "other" && key != "uuidx" {
						if os.Getenv("HUNT_VERBOSE") != "" {
							t.Logf("NOTE old=%s new=%s crash point %d before %s: extra file %q = %s", oname, nname, k, at, key, huntShort(post[key]))
						}
					}
				}
				os.RemoveAll(dir)
				if !killed {
					break
				}
				points++
			}
			if points < 3 {
				t.Errorf("old=%s new=%s: only %d crash points seen, harness broken?", oname, nname, points)
			}
		}
	}
}

package hc

import (
	"bytes"
	"fmt"
	"io/ioutil"
	"math/rand"
	"os"
	"os/exec"
	"os/signal"
	"path/filepath"
	"reflect"
	"strings"
	"sync"
	"syscall"
	"testing"
	"time"

	"github.com/brutella/hc/db"
	"github.com/brutella/hc/util"
)

func huntChildMore(t *testing.T, sc, dir string) bool {
	switch {
	case strings.HasPrefix(sc, "setkey:"):
		// arbitrary key, value from file
		key := os.Getenv("HUNT_KEY")
		st, _ := util.NewFileStorage(dir)
		val, _ := ioutil.ReadFile(os.Getenv("HUNT_NEWVAL"))
		huntMark(huntMarkBegin)
		st.Set(key, val)
		huntMark(huntMarkEnd)
	case sc == "fsize" || sc == "fsize-ignore":
		// value larger than RLIMIT_FSIZE: the write is cut after the limit.
		if sc == "fsize-ignore" {
			signal.Ignore(syscall.SIGXFSZ)
		}
		st, _ := util.NewFileStorage(dir)
		val, _ := ioutil.ReadFile(os.Getenv("HUNT_NEWVAL"))
		lim := syscall.Rlimit{Cur: 100, Max: 100}
		if err := syscall.Setrlimit(1 /*RLIMIT_FSIZE*/, &lim); err != nil {
			t.Fatal(err)
		}
		huntMark(huntMarkBegin)
		err := st.Set("uuid", val)
		huntMark(huntMarkEnd)
		fmt.Println("Set returned", err)
	case sc == "loop":
		st, _ := util.NewFileStorage(dir)
		a := bytes.Repeat([]byte("A"), 200000)
		b := bytes.Repeat([]byte("B"), 7)
		huntMark(huntMarkBegin)
		for i := 0; ; i++ {
			if i%2 == 0 {
				st.Set("uuid", a)
			} else {
				st.Set("uuid", b)
			}
		}
	case sc == "twosets":
		st, _ := util.NewFileStorage(dir)
		huntMark(huntMarkBegin)
		st.Set("uuid", []byte("second-value"))
		st.Set("version", []byte("3"))
		huntMark(huntMarkEnd)
	default:
		return false
	}
	return true
}

func huntCopyDir(t *testing.T, src string) string {
	dst, err := ioutil.TempDir("", "huntC19copy")
	if err != nil {
		t.Fatal(err)
	}
	infos, _ := ioutil.ReadDir(src)
	for _, i := range infos {
		b, err := ioutil.ReadFile(filepath.Join(src, i.Name()))
		if err != nil {
			t.Fatal(err)
		}
		ioutil.WriteFile(filepath.Join(dst, i.Name()), b, 0644)
	}
	return dst
}

// generic per-key check: every key of pre and final must be, after the crash,
// equal to its pre value or to its final value (absent counts as a value).
func huntCheckKeys(t *testing.T, label string, pre, final, post map[string]string) {
	keys := map[string]bool{}
	for k := range pre {
		keys[k] = true
	}
	for k := range final {
		keys[k] = true
	}
	for k := range keys {
		pv, pok := pre[k]
		fv, fok := final[k]
		gv, gok := post[k]
		if (gok == pok && gv == pv) || (gok == fok && gv == fv) {
			continue
		}
		t.Errorf("%s: key %q: pre=(%v,%s) final=(%v,%s) after crash=(%v,%s)", label, k, pok, huntShort(pv), fok, huntShort(fv), gok, huntShort(gv))
	}
}

// probe 2: the process dies in the middle of the write (partial write, then SIGXFSZ)
func TestZZHuntMidWriteDeath(t *testing.T) {
	valfile := filepath.Join(os.TempDir(), "huntC19-newval2")
	nv := strings.Repeat("N", 1000)
	ioutil.WriteFile(valfile, []byte(nv), 0600)
	for _, old := range []string{"", "ab", strings.Repeat("o", 100), strings.Repeat("o", 1000), strings.Repeat("o", 3000)} {
		for _, sc := range []string{"fsize", "fsize-ignore"} {
			pre := map[string]string{"uuid": old, "other": "untouched"}
			dir := huntFreshDir(t, pre)
			cmd := exec.Command(os.Args[0], "-test.run=^TestZZHuntChild$")
			cmd.Env = append(os.Environ(), "HUNT_SCENARIO="+sc, "HUNT_DIR="+dir, "HUNT_NEWVAL="+valfile)
			out, err := cmd.CombinedOutput()
			post := huntSnapshot(t, dir)
			first := strings.SplitN(string(out), "\n", 2)[0]
			t.Logf("%s old=%d bytes: child err=%v out=%q files=%v tmp=%s", sc, len(old), err, first, huntKeys(post), huntShort(post["uuid.tmp"]))
			if post["uuid"] != old {
				t.Errorf("%s: uuid = %s, want old value of %d bytes", sc, huntShort(post["uuid"]), len(old))
			}
			if post["other"] != "untouched" {
				t.Errorf("other key touched")
			}
			os.RemoveAll(dir)
		}
	}
}

// probe 3: SaveEntity / DeleteEntity at every crash point, with other entities present
func TestZZHuntEntityCrashPoints(t *testing.T) {
	mk := func(withOld bool) string {
		dir, _ := ioutil.TempDir("", "huntC19db")
		st, _ := util.NewFileStorage(dir)
		d := db.NewDatabaseWithStorage(st)
		d.SaveEntity(db.NewEntity("accessory", bytes.Repeat([]byte{1}, 32), bytes.Repeat([]byte{2}, 64)))
		d.SaveEntity(db.NewEntity("controller-2", bytes.Repeat([]byte{3}, 32), nil))
		if withOld {
			d.SaveEntity(db.NewEntity("controller-1", bytes.Repeat([]byte{0xaa}, 64), nil)) // longer than the new one
		}
		return dir
	}
	for _, sc := range []string{"saveentity", "deleteentity"} {
		for _, withOld := range []bool{false, true} {
			// final state
			fdir := mk(withOld)
			huntRunChild(t, sc, fdir, -1)
			final := huntSnapshot(t, fdir)
			os.RemoveAll(fdir)
			for k := 0; ; k++ {
				dir := mk(withOld)
				pre := huntSnapshot(t, dir)
				killed, at := huntRunChild(t, sc, dir, k)
				post := huntSnapshot(t, dir)
				label := fmt.Sprintf("%s withOld=%v crash point %d before %s", sc, withOld, k, at)
				huntCheckKeys(t, label, pre, final, post)
				// database view of a fresh database
				st, _ := util.NewFileStorage(dir)
				d := db.NewDatabaseWithStorage(st)
				es, err := d.Entities()
				if err != nil {
					t.Errorf("%s: Entities() failed: %v", label, err)
				}
				names := []string{}
				for _, e := range es {
					names = append(names, e.Name)
				}
				e, err := d.EntityWithName("accessory")
				if err != nil || len(e.PrivateKey) != 64 {
					t.Errorf("%s: accessory entity damaged: %v %v", label, e, err)
				}
				if e, err := d.EntityWithName("controller-1"); err == nil {
					if !reflect.DeepEqual(e.PublicKey, bytes.Repeat([]byte{0xaa}, 64)) && !reflect.DeepEqual(e.PublicKey, bytes.Repeat([]byte{0xbb}, 32)) {
						t.Errorf("%s: controller-1 mixture %v", label, e)
					}
				}
				t.Logf("%s: entities=%v files=%v", label, names, huntKeys(post))
				os.RemoveAll(dir)
				if !killed {
					break
				}
			}
		}
	}
}

// probe 4: serial number file
func TestZZHuntSerialCrashPoints(t *testing.T) {
	for _, old := range []*string{nil, huntStr(""), huntStr("ABCDEF0123")} {
		for k := 0; ; k++ {
			pre := map[string]string{"other": "x"}
			if old != nil {
				pre["Lamp.serial"] = *old
			}
			dir := huntFreshDir(t, pre)
			killed, at := huntRunChild(t, "serial", dir, k)
			post := huntSnapshot(t, dir)
			got, ok := post["Lamp.serial"]
			good := false
			if old != nil && ok && got == *old {
				good = true
			}
			if old == nil && !ok {
				good = true
			}
			if ok && len(got) > 0 && (old == nil || *old == "") {
				// a complete fresh serial: RandomHexString is 32 hex digits
				good = len(got) == len(util.RandomHexString())
			}
			if !good {
				t.Errorf("serial crash point %d before %s: present=%v value=%q", k, at, ok, got)
			}
			os.RemoveAll(dir)
			if !killed {
				break
			}
		}
	}
}

func huntStr(s string) *string { return &s }

// probe 5: configuration rewritten on every start (NewIPTransport), first start and restart with changed accessory
func TestZZHuntTransportCrashPoints(t *testing.T) {
	// state after a complete first start
	base, _ := ioutil.TempDir("", "huntC19base")
	defer os.RemoveAll(base)
	huntRunChild(t, "transport1", base, -1)
	pre := huntSnapshot(t, base)
	t.Logf("after first start: %v version=%q uuid=%q", huntKeys(pre), pre["version"], pre["uuid"])

	// restart with a changed accessory => version and configHash are rewritten
	fdir := huntCopyDir(t, base)
	huntRunChild(t, "transport2", fdir, -1)
	final := huntSnapshot(t, fdir)
	os.RemoveAll(fdir)
	if final["version"] == pre["version"] {
		t.Fatalf("scenario does not change the version")
	}
	n := 0
	for k := 0; ; k++ {
		dir := huntCopyDir(t, base)
		killed, at := huntRunChild(t, "transport2", dir, k)
		post := huntSnapshot(t, dir)
		huntCheckKeys(t, fmt.Sprintf("restart crash point %d before %s", k, at), pre, final, post)
		os.RemoveAll(dir)
		if !killed {
			break
		}
		n++
	}
	t.Logf("restart: %d crash points", n)

	// first start: values are random, so check shape only, then restart without crash and look at identity
	for k := 0; ; k++ {
		dir, _ := ioutil.TempDir("", "huntC19first")
		killed, at := huntRunChild(t, "transport1", dir, k)
		post := huntSnapshot(t, dir)
		for key, v := range post {
			if strings.HasSuffix(key, ".tmp") {
				continue
			}
			switch {
			case key == "uuid":
				if len(v) != 17 {
					t.Errorf("first start crash point %d before %s: uuid=%q", k, at, v)
				}
			case key == "version":
				if v != "1" {
					t.Errorf("first start crash point %d before %s: version=%q", k, at, v)
				}
			case key == "configHash":
				if len(v) != len(pre["configHash"]) {
					t.Errorf("first start crash point %d before %s: configHash len %d", k, at, len(v))
				}
			case strings.HasSuffix(key, ".entity"):
				st, _ := util.NewFileStorage(dir)
				if _, err := db.NewDatabaseWithStorage(st).Entities(); err != nil {
					t.Errorf("first start crash point %d before %s: entity unreadable: %v", k, at, err)
				}
			}
		}
		// restart, complete
		huntRunChild(t, "transport1", dir, -1)
		st, _ := util.NewFileStorage(dir)
		es, _ := db.NewDatabaseWithStorage(st).Entities()
		if len(es) != 1 {
			t.Logf("NOTE (cross-key, outside C19): first start killed at point %d before %s, after a complete restart the database holds %d entities (isPaired()=%v)", k, at, len(es), len(es) > 1)
		}
		os.RemoveAll(dir)
		if !killed {
			break
		}
	}
}

// probe 6: crash, then a second Set of the same key crashing again at every point (left-over temp file of different length)
func TestZZHuntRepeatedCrash(t *testing.T) {
	valfile := filepath.Join(os.TempDir(), "huntC19-newval3")
	for _, left := range []string{"", strings.Repeat("L", 10), strings.Repeat("L", 9000)} {
		for _, nv := range []string{"", "xy", strings.Repeat("N", 5000)} {
			ioutil.WriteFile(valfile, []byte(nv), 0600)
			for k := 0; ; k++ {
				dir := huntFreshDir(t, map[string]string{"uuid": "old-value", "other": "o"})
				ioutil.WriteFile(filepath.Join(dir, "uuid.tmp"), []byte(left), 0644) // what a crash leaves behind
				killed, at := huntRunChild(t, "set:uuid:", dir, k, "HUNT_NEWVAL="+valfile)
				post := huntSnapshot(t, dir)
				if g := post["uuid"]; g != "old-value" && g != nv {
					t.Errorf("leftover=%d new=%d crash point %d before %s: uuid=%s", len(left), len(nv), k, at, huntShort(g))
				}
				if !killed && post["uuid"] != nv {
					t.Errorf("leftover=%d new=%d: completed Set stored %s", len(left), len(nv), huntShort(post["uuid"]))
				}
				if !killed {
					if _, ok := post["uuid.tmp"]; ok {
						t.Errorf("temp file remains after completed Set")
					}
				}
				os.RemoveAll(dir)
				if !killed {
					break
				}
			}
		}
	}
}

// probe 7: keys with characters that are stripped, long keys, two Sets in a row
func TestZZHuntOddKeys(t *testing.T) {
	valfile := filepath.Join(os.TempDir(), "huntC19-newval4")
	ioutil.WriteFile(valfile, []byte("new-value"), 0600)
	for _, key := range []string{"AA:BB:CC", "with space", "ünï", strings.Repeat("k", 251), strings.Repeat("k", 252), strings.Repeat("k", 255)} {
		for k := 0; ; k++ {
			dir := huntFreshDir(t, map[string]string{"other": "o"})
			if err := ioutil.WriteFile(filepath.Join(dir, strings.Replace(key, ":", "", -1)), []byte("old-value-longer-than-new"), 0644); err != nil {
				t.Fatal(err)
			}
			killed, at := huntRunChild(t, "setkey:", dir, k, "HUNT_NEWVAL="+valfile, "HUNT_KEY="+key)
			st, _ := util.NewFileStorage(dir)
			b, err := st.Get(key)
			if err != nil || (string(b) != "old-value-longer-than-new" && string(b) != "new-value") {
				t.Errorf("key %q crash point %d before %s: %q %v", huntShort(key), k, at, b, err)
			}
			if !killed && string(b) != "new-value" {
				t.Logf("NOTE key of %d bytes: completed Set did not store (value still %q)", len(key), b)
			}
			if o, _ := st.Get("other"); string(o) != "o" {
				t.Errorf("other touched")
			}
			os.RemoveAll(dir)
			if !killed {
				break
			}
		}
	}
	for k := 0; ; k++ {
		pre := map[string]string{"uuid": "first-value-xxxxxxxxxxxx", "version": "2", "other": "o"}
		dir := huntFreshDir(t, pre)
		killed, at := huntRunChild(t, "twosets", dir, k)
		post := huntSnapshot(t, dir)
		final := map[string]string{"uuid": "second-value", "version": "3", "other": "o"}
		huntCheckKeys(t, fmt.Sprintf("twosets crash point %d before %s", k, at), pre, final, post)
		os.RemoveAll(dir)
		if !killed {
			break
		}
	}
}

// probe 8: SIGKILL at random times while the child alternates a long and a short value
func TestZZHuntRandomKill(t *testing.T) {
	a := strings.Repeat("A", 200000)
	b := strings.Repeat("B", 7)
	rand.Seed(time.Now().UnixNano())
	for i := 0; i < 60; i++ {
		dir := huntFreshDir(t, map[string]string{"uuid": b, "other": "o"})
		cmd := exec.Command(os.Args[0], "-test.run=^TestZZHuntChild$")
		cmd.Env = append(os.Environ(), "HUNT_SCENARIO=loop", "HUNT_DIR="+dir)
		if err := cmd.Start(); err != nil {
			t.Fatal(err)
		}
		time.Sleep(time.Duration(20+rand.Intn(60000)) * time.Microsecond * 5)
		cmd.Process.Kill()
		cmd.Wait()
		post := huntSnapshot(t, dir)
		if g := post["uuid"]; g != a && g != b {
			t.Errorf("run %d: uuid=%s", i, huntShort(g))
		}
		if post["other"] != "o" {
			t.Errorf("other touched")
		}
		os.RemoveAll(dir)
	}
}

// probe 9 (outside the quantifier, for the record): two goroutines set the same key
func TestZZHuntConcurrentSameKey(t *testing.T) {
	dir := huntFreshDir(t, map[string]string{"uuid": "old"})
	defer os.RemoveAll(dir)
	st, _ := util.NewFileStorage(dir)
	a := bytes.Repeat([]byte("A"), 300000)
	b := bytes.Repeat([]byte("B"), 100000)
	bad := 0
	for i := 0; i < 300 && bad == 0; i++ {
		var wg sync.WaitGroup
		wg.Add(2)
		go func() { defer wg.Done(); st.Set("uuid", a) }()
		go func() { defer wg.Done(); st.Set("uuid", b) }()
		wg.Wait()
		g, _ := st.Get("uuid")
		if !bytes.Equal(g, a) && !bytes.Equal(g, b) {
			bad++
			t.Logf("NOTE (no crash involved, outside C19's quantifier): concurrent Set of one key stored a mixture of %d bytes (A=%d, B=%d) at round %d", len(g), bytes.Count(g, []byte("A")), bytes.Count(g, []byte("B")), i)
		}
	}
}

// probe 10: the process dies after only half of the value reached the file
func TestZZHuntPartialWrite(t *testing.T) {
	huntPartial = true
	defer func() { huntPartial = false }()
	valfile := filepath.Join(os.TempDir(), "huntC19-newval5")
	for _, old := range []*string{nil, huntStr(""), huntStr("ab"), huntStr(strings.Repeat("o", 64)), huntStr(strings.Repeat("o", 100000))} {
		for _, nv := range []string{"xy", strings.Repeat("N", 64), strings.Repeat("N", 70000)} {
			ioutil.WriteFile(valfile, []byte(nv), 0600)
			sawCut := false
			for k := 0; ; k++ {
				pre := map[string]string{"other": "o"}
				if old != nil {
					pre["uuid"] = *old
				}
				dir := huntFreshDir(t, pre)
				killed, at := huntRunChild(t, "set:uuid:", dir, k, "HUNT_NEWVAL="+valfile)
				post := huntSnapshot(t, dir)
				final := map[string]string{"other": "o", "uuid": nv}
				delete(post, "uuid.tmp")
				huntCheckKeys(t, fmt.Sprintf("partial write, crash point %d before %s", k, at), pre, final, post)
				if strings.Contains(at, "cut to") {
					sawCut = true
				}
				os.RemoveAll(dir)
				if !killed {
					break
				}
			}
			if !sawCut {
				t.Errorf("no partial write was injected")
			}
		}
	}
}

package characteristic

import "testing"

// BORDERLINE probe (not claimed): an object of the generic constructor NewCharacteristic has no
// format; a value of an uncomparable Go type stored twice panics in the unguarded `c.Value == value`.
func TestZZGenericUncomparable(t *testing.T) {
	defer func() {
		if r := recover(); r != nil {
			t.Errorf("panics: %v", r)
		}
	}()
	c := NewCharacteristic("X")
	c.UpdateValue([]byte{1})
	c.UpdateValue([]byte{2})
}

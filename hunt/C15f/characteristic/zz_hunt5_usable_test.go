package characteristic

import (
	"encoding/json"
	"fmt"
	"reflect"
	"sort"
	"testing"
)

func zzCall(t *testing.T, what string, fn func()) (ok bool) {
	defer func() {
		if r := recover(); r != nil {
			t.Errorf("%s panics: %v", what, r)
			ok = false
		}
	}()
	fn()
	return true
}

// Every catalog object, used the way an application does in its first lines.
func TestZZUsable(t *testing.T) {
	names := []string{}
	for n := range zzCtors {
		names = append(names, n)
	}
	sort.Strings(names)
	for _, n := range names {
		o := zzCtors[n]()
		c := zzBase(t, n, o)
		wrapper := reflect.ValueOf(o).Elem().Field(0) // *Int, *Float, ...
		wname := wrapper.Type().Elem().Name()
		// wrapper against format
		okFmt := map[string][]string{
			"Int":    {FormatUInt8, FormatUInt16, FormatUInt32, FormatUInt64, FormatInt32},
			"Float":  {FormatFloat},
			"Bool":   {FormatBool},
			"String": {FormatString},
			"Bytes":  {FormatTLV8, FormatData},
		}
		found := false
		for _, f := range okFmt[wname] {
			if f == c.Format {
				found = true
			}
		}
		if !found {
			t.Errorf("%s: wrapper %s with format %q", n, wname, c.Format)
		}

		// all zero-arg exported methods of the object
		rv := reflect.ValueOf(o)
		for i := 0; i < rv.NumMethod(); i++ {
			m := rv.Type().Method(i)
			if m.Type.NumIn() != 1 {
				continue
			}
			zzCall(t, fmt.Sprintf("%s().%s()", n, m.Name), func() { rv.Method(i).Call(nil) })
		}

		// remote write of a JSON-decoded value reaches the typed callback
		var samples []interface{}
		switch wname {
		case "Int":
			samples = []interface{}{float64(1), float64(0), true, "1"}
			if mn, ok := c.MinValue.(int); ok {
				samples = append(samples, float64(mn))
			}
			if mx, ok := c.MaxValue.(int); ok {
				samples = append(samples, float64(mx))
			}
		case "Float":
			samples = []interface{}{float64(1.5), float64(0), true}
		case "Bool":
			samples = []interface{}{true, false, float64(1), float64(0)}
		case "String", "Bytes":
			samples = []interface{}{"AQID", ""}
		}
		for _, s := range samples {
			o := zzCtors[n]()
			c := zzBase(t, n, o)
			c.Perms = append([]string{}, c.Perms...)
			got := 0
			rv := reflect.ValueOf(o)
			cb := rv.MethodByName("OnValueRemoteUpdate")
			fnT := cb.Type().In(0)
			fn := reflect.MakeFunc(fnT, func(args []reflect.Value) []reflect.Value { got++; return nil })
			zzCall(t, n+".OnValueRemoteUpdate", func() { cb.Call([]reflect.Value{fn}) })
			zzCall(t, fmt.Sprintf("%s remote write %#v", n, s), func() {
				c.UpdateValueFromConnection(s, TestConn)
			})
			if _, err := json.Marshal(c); err != nil {
				t.Errorf("%s after %#v: %v", n, s, err)
			}
			// stored value stays of declared type
			if c.Value != nil {
				switch wname {
				case "Int":
					if _, ok := c.Value.(int); !ok {
						t.Errorf("%s after %#v: %T", n, s, c.Value)
					}
				case "Float":
					if _, ok := c.Value.(float64); !ok {
						t.Errorf("%s after %#v: %T", n, s, c.Value)
					}
				case "Bool":
					if _, ok := c.Value.(bool); !ok {
						t.Errorf("%s after %#v: %T", n, s, c.Value)
					}
				default:
					if _, ok := c.Value.(string); !ok {
						t.Errorf("%s after %#v: %T", n, s, c.Value)
					}
				}
			}
		}

		// local typed set / get round trip
		o = zzCtors[n]()
		c = zzBase(t, n, o)
		rv = reflect.ValueOf(o)
		set := rv.MethodByName("SetValue")
		get := rv.MethodByName("GetValue")
		var arg reflect.Value
		switch wname {
		case "Int":
			v := 1
			if mx, ok := c.MaxValue.(int); ok && v > mx {
				v = mx
			}
			if mn, ok := c.MinValue.(int); ok && v < mn {
				v = mn
			}
			arg = reflect.ValueOf(v)
		case "Float":
			v := 1.0
			if mx, ok := c.MaxValue.(float64); ok && v > mx {
				v = mx
			}
			if mn, ok := c.MinValue.(float64); ok && v < mn {
				v = mn
			}
			arg = reflect.ValueOf(v)
		case "Bool":
			arg = reflect.ValueOf(true)
		case "String":
			arg = reflect.ValueOf("abc")
		case "Bytes":
			arg = reflect.ValueOf([]byte{1, 2, 3})
		}
		zzCall(t, n+" SetValue", func() { set.Call([]reflect.Value{arg}) })
		zzCall(t, n+" GetValue", func() {
			out := get.Call(nil)[0].Interface()
			if c.IsReadable() && !reflect.DeepEqual(out, arg.Interface()) {
				t.Errorf("%s: SetValue(%v) then GetValue() = %v", n, arg.Interface(), out)
			}
		})
	}
}

package characteristic

import (
	"reflect"
	"sort"
	"testing"
)

// Clause: "Every constructor the library exports for a characteristic ... returns a
// usable object."
//
// The typed bound getters Int/Float.GetMinValue, GetMaxValue, GetStepValue assert the
// type of the stored bound unchecked. The metadata declares no minimum / maximum / step
// for many numeric characteristics (Active, AirQuality, CurrentHeatingCoolingState,
// AccessoryFlags, ...), their constructors therefore (correctly) set none, and the
// getter of the returned object panics with "interface conversion: interface {} is nil".
// This is the sibling of repair 54 (typed GetValue on a characteristic without value).
func TestZZBoundGettersOfCatalogObjects(t *testing.T) {
	// two hand-picked ones, the way an application would write it
	for name, fn := range map[string]func(){
		"NewActive().GetMaxValue()":                      func() { NewActive().GetMaxValue() },
		"NewCurrentHeatingCoolingState().GetMinValue()":  func() { NewCurrentHeatingCoolingState().GetMinValue() },
		"NewCarbonDioxideLevel().GetStepValue()":         func() { NewCarbonDioxideLevel().GetStepValue() },
		"NewInt(TypeBrightness).GetMinValue()":           func() { NewInt(TypeBrightness).GetMinValue() },
		"NewFloat(TypeCurrentTemperature).GetMaxValue()": func() { NewFloat(TypeCurrentTemperature).GetMaxValue() },
	} {
		func() {
			defer func() {
				if r := recover(); r != nil {
					t.Errorf("%s panics: %v", name, r)
				}
			}()
			fn()
		}()
	}

	// all zero-argument constructors of the package
	names := []string{}
	for n := range zzCtors {
		names = append(names, n)
	}
	sort.Strings(names)
	bad := map[string][]string{}
	for _, n := range names {
		rv := reflect.ValueOf(zzCtors[n]())
		for _, m := range []string{"GetMinValue", "GetMaxValue", "GetStepValue"} {
			mv := rv.MethodByName(m)
			if !mv.IsValid() {
				continue
			}
			func() {
				defer func() {
					if r := recover(); r != nil {
						bad[m] = append(bad[m], n)
					}
				}()
				mv.Call(nil)
			}()
		}
	}
	for m, ns := range bad {
		t.Errorf("%s panics on the object of %d constructors: %v", m, len(ns), ns)
	}
}

package characteristic

import (
	"encoding/json"
	"fmt"
	"math"
	"reflect"
	"sort"
	"testing"
)

// probe: any JSON value written by a controller / set locally leaves a catalog object usable
func TestZZFuzzValues(t *testing.T) {
	var vals []interface{}
	for _, s := range []string{`null`, `[]`, `[1]`, `{}`, `{"a":1}`, `-1`, `256`, `65536`, `4294967296`, `1e20`, `-1e20`, `9223372036854775808`, `1.5`, `"abc"`, `""`, `"1e3"`, `"-5"`, `true`, `false`, `0.1`, `1e-320`, `"\u0000"`, `"NaN"`, `"Inf"`} {
		var v interface{}
		if err := json.Unmarshal([]byte(s), &v); err != nil {
			t.Fatal(err)
		}
		vals = append(vals, v)
	}
	vals = append(vals, int8(-1), uint64(math.MaxUint64), int64(math.MinInt64), float32(1.5), []byte{1}, json.Number("12"), uint8(200))
	names := []string{}
	for n := range zzCtors {
		names = append(names, n)
	}
	sort.Strings(names)
	bad := map[string][]string{}
	for _, n := range names {
		for _, remote := range []bool{true, false} {
			o := zzCtors[n]()
			c := zzBase(t, n, o)
			rv := reflect.ValueOf(o)
			cb := rv.MethodByName("OnValueRemoteUpdate")
			fn := reflect.MakeFunc(cb.Type().In(0), func(args []reflect.Value) []reflect.Value { return nil })
			cb.Call([]reflect.Value{fn})
			for _, v := range vals {
				for rep := 0; rep < 2; rep++ {
					func() {
						defer func() {
							if r := recover(); r != nil {
								k := fmt.Sprintf("remote=%v %T(%v): %v", remote, v, v, r)
								bad[k] = append(bad[k], n)
							}
						}()
						if remote {
							c.UpdateValueFromConnection(v, TestConn)
						} else {
							c.UpdateValue(v)
						}
						rv.MethodByName("GetValue").Call(nil)
						if _, err := json.Marshal(c); err != nil {
							k := fmt.Sprintf("remote=%v %T(%v): marshal %v", remote, v, v, err)
							bad[k] = append(bad[k], n)
						}
						// in bounds
						switch x := c.Value.(type) {
						case int:
							if mn, ok := c.MinValue.(int); ok && x < mn {
								bad["below min"] = append(bad["below min"], n)
							}
							if mx, ok := c.MaxValue.(int); ok && x > mx {
								bad["above max"] = append(bad["above max"], n)
							}
						case float64:
							if mn, ok := c.MinValue.(float64); ok && x < mn {
								bad["below min"] = append(bad["below min"], n)
							}
							if mx, ok := c.MaxValue.(float64); ok && x > mx {
								bad["above max"] = append(bad["above max"], n)
							}
						case nil:
							if c.IsReadable() {
								bad["nil value"] = append(bad["nil value"], n)
							}
						}
					}()
				}
			}
		}
	}
	for k, ns := range bad {
		if len(ns) > 4 {
			t.Errorf("%s: %d ctors e.g. %v", k, len(ns), ns[:4])
		} else {
			t.Errorf("%s: %v", k, ns)
		}
	}
}

package characteristic

import (
	"testing"
)

func TestZZDeclaredType(t *testing.T) {
	seen := map[string]string{}
	for n, f := range zzCtors {
		c := zzBase(t, n, f())
		if c.Type != zzTypes[n] {
			t.Errorf("%s: type %q, declared %q", n, c.Type, zzTypes[n])
		}
		if c.Type == "" {
			t.Errorf("%s: empty type", n)
		}
		if o, ok := seen[c.Type]; ok {
			t.Logf("NOTE type %s: %s and %s", c.Type, o, n)
		}
		seen[c.Type] = n
		// own bounds
		if c.IsReadable() {
			if c.Value == nil {
				t.Errorf("%s readable, no value", n)
			}
			switch v := c.Value.(type) {
			case int:
				if mn, ok := c.MinValue.(int); ok && v < mn {
					t.Errorf("%s: %d < min %d", n, v, mn)
				}
				if mx, ok := c.MaxValue.(int); ok && v > mx {
					t.Errorf("%s: %d > max %d", n, v, mx)
				}
			case float64:
				if mn, ok := c.MinValue.(float64); ok && v < mn {
					t.Errorf("%s: %v < min %v", n, v, mn)
				}
				if mx, ok := c.MaxValue.(float64); ok && v > mx {
					t.Errorf("%s: %v > max %v", n, v, mx)
				}
			}
		}
		for _, b := range []interface{}{c.MinValue, c.MaxValue, c.StepValue} {
			if b == nil {
				continue
			}
			switch c.Format {
			case FormatFloat:
				if _, ok := b.(float64); !ok {
					t.Errorf("%s: bound %v of type %T", n, b, b)
				}
			default:
				if _, ok := b.(int); !ok {
					t.Errorf("%s: bound %v of type %T", n, b, b)
				}
			}
		}
		if mn, ok := c.MinValue.(int); ok {
			if mx, ok := c.MaxValue.(int); ok && mn > mx {
				t.Errorf("%s min>max", n)
			}
		}
	}
}

package characteristic

import (
	"encoding/json"
	"fmt"
	"io/ioutil"
	"reflect"
	"regexp"
	"sort"
	"strings"
	"testing"
)

type zzMeta struct {
	Characteristics []struct {
		UUID        string
		Name        string
		Format      string
		Unit        string
		Permissions []string
		Properties  []string
		Constraints map[string]interface{}
	}
}

func zzShort(uuid string) string {
	re := regexp.MustCompile(`^([0-9a-fA-F]*)`)
	return strings.TrimLeft(re.FindString(uuid), "0")
}

func zzBase(t *testing.T, name string, v interface{}) (c *Characteristic) {
	defer func() {
		if r := recover(); r != nil {
			t.Errorf("%s: cannot reach *Characteristic: %v", name, r)
			c = nil
		}
	}()
	rv := reflect.ValueOf(v)
	for i := 0; i < 5; i++ {
		if rv.Kind() == reflect.Ptr {
			if rv.IsNil() {
				t.Errorf("%s: nil pointer at depth %d", name, i)
				return nil
			}
			if cc, ok := rv.Interface().(*Characteristic); ok {
				return cc
			}
			rv = rv.Elem()
		}
		if rv.Kind() == reflect.Struct {
			rv = rv.Field(0)
		}
	}
	return nil
}

func zzNum(v interface{}) (float64, bool) {
	switch x := v.(type) {
	case int:
		return float64(x), true
	case float64:
		return x, true
	case nil:
		return 0, false
	}
	return 0, false
}

func TestZZCatalogCharacteristics(t *testing.T) {
	b, err := ioutil.ReadFile("../gen/metadata.json")
	if err != nil {
		t.Fatal(err)
	}
	var m zzMeta
	if err := json.Unmarshal(b, &m); err != nil {
		t.Fatal(err)
	}

	// call every ctor
	byType := map[string][]string{}
	objs := map[string]*Characteristic{}
	names := []string{}
	for n := range zzCtors {
		names = append(names, n)
	}
	sort.Strings(names)
	for _, n := range names {
		func() {
			defer func() {
				if r := recover(); r != nil {
					t.Errorf("%s panics: %v", n, r)
				}
			}()
			o := zzCtors[n]()
			c := zzBase(t, n, o)
			if c == nil {
				t.Errorf("%s: no base characteristic", n)
				return
			}
			objs[n] = c
			byType[c.Type] = append(byType[c.Type], n)
			// usable: marshal
			if _, err := json.Marshal(c); err != nil {
				t.Errorf("%s: marshal %v", n, err)
			}
		}()
	}
	for typ, ns := range byType {
		if len(ns) > 1 {
			t.Logf("NOTE type %s shared by ctors %v", typ, ns)
		}
	}

	for _, mc := range m.Characteristics {
		short := zzShort(mc.UUID)
		ns := byType[short]
		if len(ns) == 0 {
			t.Errorf("metadata %q (%s): no constructor", mc.Name, short)
			continue
		}
		for _, n := range ns {
			c := objs[n]
			pre := fmt.Sprintf("%s (%q %s)", n, mc.Name, short)
			// name match
			want := "New" + strings.Replace(strings.Title(strings.NewReplacer(".", "_", ",", "", "-", "", "(", "", ")", "").Replace(strings.TrimSpace(mc.Name))), " ", "", -1)
			if want != n {
				t.Logf("NOTE %s: ctor name expected %s", pre, want)
			}
			if c.Format != mc.Format {
				t.Errorf("%s: format %q want %q", pre, c.Format, mc.Format)
			}
			if c.Unit != mc.Unit {
				t.Errorf("%s: unit %q want %q", pre, c.Unit, mc.Unit)
			}
			// perms from Properties
			wantP := []string{}
			for _, p := range mc.Properties {
				switch p {
				case "read":
					wantP = append(wantP, PermRead)
				case "write":
					wantP = append(wantP, PermWrite)
				case "cnotify":
					wantP = append(wantP, PermEvents)
				}
			}
			gotP := append([]string{}, c.Perms...)
			sort.Strings(gotP)
			sort.Strings(wantP)
			if !reflect.DeepEqual(gotP, wantP) {
				t.Errorf("%s: perms %v want %v (Properties %v)", pre, c.Perms, wantP, mc.Properties)
			}
			// perms from Permissions
			wantQ := map[string]bool{}
			for _, p := range mc.Permissions {
				switch p {
				case "securedRead", "read":
					wantQ[PermRead] = true
				case "securedWrite", "write":
					wantQ[PermWrite] = true
				}
			}
			if len(mc.Permissions) > 0 {
				if wantQ[PermRead] != c.IsReadable() || wantQ[PermWrite] != c.IsWritable() {
					t.Logf("NOTE %s: perms %v vs metadata Permissions %v", pre, c.Perms, mc.Permissions)
				}
			}
			// bounds
			for _, k := range []struct {
				key string
				got interface{}
			}{{"MinimumValue", c.MinValue}, {"MaximumValue", c.MaxValue}, {"StepValue", c.StepValue}} {
				var mv interface{}
				for ck, cv := range mc.Constraints {
					if strings.EqualFold(ck, k.key) {
						mv = cv
					}
				}
				g, gok := zzNum(k.got)
				w, wok := zzNum(mv)
				if gok != wok || g != w {
					t.Errorf("%s: %s = %v want %v", pre, k.key, k.got, mv)
				}
				if gok {
					// declared type
					if mc.Format == "float" {
						if _, ok := k.got.(float64); !ok {
							t.Errorf("%s: %s has Go type %T for float format", pre, k.key, k.got)
						}
					} else {
						if _, ok := k.got.(int); !ok {
							t.Errorf("%s: %s has Go type %T for %s format", pre, k.key, k.got, mc.Format)
						}
					}
				}
			}
			if ml, ok := mc.Constraints["MaximumLength"]; ok {
				t.Logf("NOTE %s: MaximumLength %v, MaxLen=%d", pre, ml, c.MaxLen)
			}
			// default value
			if c.IsReadable() {
				if c.Value == nil {
					t.Errorf("%s: readable without default value", pre)
				} else {
					switch mc.Format {
					case "float":
						f, ok := c.Value.(float64)
						if !ok {
							t.Errorf("%s: value type %T", pre, c.Value)
						}
						if mn, ok := zzNum(c.MinValue); ok && f < mn {
							t.Errorf("%s: value %v < min %v", pre, f, mn)
						}
						if mx, ok := zzNum(c.MaxValue); ok && f > mx {
							t.Errorf("%s: value %v > max %v", pre, f, mx)
						}
					case "uint8", "uint16", "uint32", "uint64", "int32", "int":
						i, ok := c.Value.(int)
						if !ok {
							t.Errorf("%s: value type %T", pre, c.Value)
						}
						f := float64(i)
						if mn, ok := zzNum(c.MinValue); ok && f < mn {
							t.Errorf("%s: value %v < min %v", pre, f, mn)
						}
						if mx, ok := zzNum(c.MaxValue); ok && f > mx {
							t.Errorf("%s: value %v > max %v", pre, f, mx)
						}
						if vv, ok := mc.Constraints["ValidValues"].(map[string]interface{}); ok {
							if _, ok := vv[fmt.Sprint(i)]; !ok {
								t.Logf("NOTE %s: default %d not in ValidValues %v", pre, i, vv)
							}
						}
					case "bool":
						if _, ok := c.Value.(bool); !ok {
							t.Errorf("%s: value type %T", pre, c.Value)
						}
					case "string", "tlv8", "data":
						if _, ok := c.Value.(string); !ok {
							t.Errorf("%s: value type %T", pre, c.Value)
						}
					}
				}
			} else if c.Value != nil {
				t.Errorf("%s: not readable but has value %v", pre, c.Value)
			}
		}
	}

	// constructors not in metadata
	mt := map[string]bool{}
	for _, mc := range m.Characteristics {
		mt[zzShort(mc.UUID)] = true
	}
	for _, n := range names {
		c := objs[n]
		if c == nil {
			continue
		}
		if !mt[c.Type] {
			b, _ := json.Marshal(c)
			t.Logf("EXTRA %s: %s", n, b)
		}
	}
}

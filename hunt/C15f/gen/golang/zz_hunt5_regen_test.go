package golang

import (
	"encoding/json"
	"go/format"
	"io/ioutil"
	"strings"
	"testing"

	"github.com/brutella/hc/gen"
)

func zzNorm(b []byte) string {
	f, err := format.Source(b)
	if err != nil {
		return "FORMAT ERROR: " + err.Error() + "\n" + string(b)
	}
	var out []string
	for _, l := range strings.Split(string(f), "\n") {
		if strings.TrimSpace(l) == "" {
			continue
		}
		out = append(out, l)
	}
	return strings.Join(out, "\n")
}

func TestZZRegen(t *testing.T) {
	b, err := ioutil.ReadFile("../metadata.json")
	if err != nil {
		t.Fatal(err)
	}
	var m gen.Metadata
	if err := json.Unmarshal(b, &m); err != nil {
		t.Fatal(err)
	}
	for _, c := range m.Characteristics {
		func() {
			defer func() {
				if r := recover(); r != nil {
					t.Errorf("char %s: generator panics %v", c.Name, r)
				}
			}()
			code, err := CharacteristicGoCode(c)
			if err != nil {
				t.Errorf("%s: %v", c.Name, err)
			}
			have, err := ioutil.ReadFile("../../characteristic/" + CharacteristicFileName(c))
			if err != nil {
				t.Errorf("%s: %v", c.Name, err)
				return
			}
			if g, h := zzNorm(code), zzNorm(have); g != h {
				t.Errorf("char %s differs:\n--- generated\n%s\n--- checked in\n%s", c.Name, g, h)
			}
		}()
	}
	for _, s := range m.Services {
		func() {
			defer func() {
				if r := recover(); r != nil {
					t.Errorf("svc %s: generator panics %v", s.Name, r)
				}
			}()
			code, err := ServiceGoCode(s, m.Characteristics)
			if err != nil {
				t.Errorf("%s: %v", s.Name, err)
			}
			have, err := ioutil.ReadFile("../../service/" + ServiceFileName(s))
			if err != nil {
				t.Errorf("%s: %v", s.Name, err)
				return
			}
			if g, h := zzNorm(code), zzNorm(have); g != h {
				t.Errorf("svc %s differs:\n--- generated\n%s\n--- checked in\n%s", s.Name, g, h)
			}
		}()
	}
	code, _ := CategoriesGoCode(m.Categories)
	have, _ := ioutil.ReadFile("../../accessory/constant.go")
	if g, h := zzNorm(code), zzNorm(have); g != h {
		t.Logf("categories differ:\n%s", g)
	}
}

package service

import (
	"reflect"
	"testing"

	"github.com/brutella/hc/characteristic"
)

func TestZZDeclaredType(t *testing.T) {
	for n, f := range zzCtors {
		var svc *Service
		chars := map[string]*characteristic.Characteristic{}
		zzWalk(t, n, reflect.ValueOf(f()), &svc, chars, "")
		if svc.Type != zzTypes[n] {
			t.Errorf("%s: type %q declared %q", n, svc.Type, zzTypes[n])
		}
	}
}

package service

import (
	"encoding/json"
	"sync"
	"testing"
)

// probe: constructors share no state (run with -race)
func TestZZCtorsConcurrently(t *testing.T) {
	var wg sync.WaitGroup
	for g := 0; g < 8; g++ {
		wg.Add(1)
		go func() {
			defer wg.Done()
			for _, f := range zzCtors {
				o := f()
				if _, err := json.Marshal(o); err != nil {
					t.Error(err)
				}
			}
		}()
	}
	wg.Wait()
}

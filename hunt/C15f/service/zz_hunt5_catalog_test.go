package service

import (
	"encoding/json"
	"io/ioutil"
	"reflect"
	"regexp"
	"sort"
	"strings"
	"testing"

	"github.com/brutella/hc/characteristic"
)

type zzMeta struct {
	Characteristics []struct {
		UUID string
		Name string
	}
	Services []struct {
		UUID                    string
		Name                    string
		RequiredCharacteristics []string
		OptionalCharacteristics []string
	}
}

func zzShort(uuid string) string {
	re := regexp.MustCompile(`^([0-9a-fA-F]*)`)
	return strings.TrimLeft(re.FindString(uuid), "0")
}

// zzWalk collects *Service and all characteristic fields
func zzWalk(t *testing.T, name string, rv reflect.Value, svc **Service, chars map[string]*characteristic.Characteristic, path string) {
	if rv.Kind() == reflect.Ptr {
		if rv.IsNil() {
			t.Errorf("%s: nil pointer field %s", name, path)
			return
		}
		if s, ok := rv.Interface().(*Service); ok {
			if *svc != nil && *svc != s {
				t.Errorf("%s: two different embedded *Service", name)
			}
			*svc = s
			return
		}
		if c, ok := rv.Interface().(*characteristic.Characteristic); ok {
			chars[path] = c
			return
		}
		rv = rv.Elem()
	}
	if rv.Kind() == reflect.Struct {
		for i := 0; i < rv.NumField(); i++ {
			f := rv.Type().Field(i)
			if f.PkgPath != "" {
				continue
			}
			fv := rv.Field(i)
			if fv.Kind() == reflect.Ptr {
				p := path + "." + f.Name
				zzWalk(t, name, fv, svc, chars, p)
			}
		}
	}
}

func TestZZCatalogServices(t *testing.T) {
	b, err := ioutil.ReadFile("../gen/metadata.json")
	if err != nil {
		t.Fatal(err)
	}
	var m zzMeta
	if err := json.Unmarshal(b, &m); err != nil {
		t.Fatal(err)
	}
	charName := map[string]string{}
	for _, c := range m.Characteristics {
		charName[c.UUID] = c.Name
	}

	names := []string{}
	for n := range zzCtors {
		names = append(names, n)
	}
	sort.Strings(names)
	objs := map[string]*Service{}
	byType := map[string][]string{}
	for _, n := range names {
		func() {
			defer func() {
				if r := recover(); r != nil {
					t.Errorf("%s panics: %v", n, r)
				}
			}()
			o := zzCtors[n]()
			var svc *Service
			chars := map[string]*characteristic.Characteristic{}
			zzWalk(t, n, reflect.ValueOf(o), &svc, chars, "")
			if svc == nil {
				t.Errorf("%s: no *Service", n)
				return
			}
			objs[n] = svc
			byType[svc.Type] = append(byType[svc.Type], n)
			if _, err := json.Marshal(o); err != nil {
				t.Errorf("%s: marshal: %v", n, err)
			}
			// every field in list, exactly once
			for p, c := range chars {
				cnt := 0
				for _, sc := range svc.Characteristics {
					if sc == c {
						cnt++
					}
				}
				if cnt != 1 {
					t.Errorf("%s: field %s appears %d times in Characteristics", n, p, cnt)
				}
			}
			if len(chars) != len(svc.Characteristics) {
				t.Errorf("%s: %d fields but %d characteristics", n, len(chars), len(svc.Characteristics))
			}
			// no dup types
			seen := map[string]bool{}
			for _, sc := range svc.Characteristics {
				if sc == nil {
					t.Errorf("%s: nil characteristic in list", n)
					continue
				}
				if seen[sc.Type] {
					t.Errorf("%s: duplicate characteristic type %s", n, sc.Type)
				}
				seen[sc.Type] = true
			}
			// second call yields independent object
			o2 := zzCtors[n]()
			var svc2 *Service
			chars2 := map[string]*characteristic.Characteristic{}
			zzWalk(t, n, reflect.ValueOf(o2), &svc2, chars2, "")
			if svc2 == svc {
				t.Errorf("%s: shared service", n)
			}
			for p, c := range chars {
				if chars2[p] == c {
					t.Errorf("%s: shared characteristic %s", n, p)
				}
			}
		}()
	}
	for typ, ns := range byType {
		if len(ns) > 1 {
			t.Logf("NOTE service type %s shared by %v", typ, ns)
		}
	}
	mt := map[string]bool{}
	for _, ms := range m.Services {
		short := zzShort(ms.UUID)
		mt[short] = true
		ns := byType[short]
		if len(ns) == 0 {
			t.Errorf("metadata service %q (%s): no constructor", ms.Name, short)
			continue
		}
		for _, n := range ns {
			svc := objs[n]
			have := map[string]bool{}
			for _, c := range svc.Characteristics {
				have[c.Type] = true
			}
			allowed := map[string]bool{}
			for _, u := range ms.RequiredCharacteristics {
				allowed[zzShort(u)] = true
				if _, ok := charName[u]; !ok {
					t.Errorf("metadata service %q requires unknown characteristic %s", ms.Name, u)
				}
				if !have[zzShort(u)] {
					t.Errorf("%s (%q): required characteristic %s %q missing", n, ms.Name, zzShort(u), charName[u])
				}
			}
			for _, u := range ms.OptionalCharacteristics {
				allowed[zzShort(u)] = true
			}
			for ty := range have {
				if !allowed[ty] {
					t.Logf("NOTE %s (%q): has characteristic %s neither required nor optional", n, ms.Name, ty)
				}
			}
			want := "New" + strings.Replace(strings.Title(strings.NewReplacer(".", "_", ",", "", "-", "", "(", "", ")", "").Replace(strings.TrimSpace(ms.Name))), " ", "", -1)
			if want != n {
				t.Logf("NOTE %s: metadata name gives %s", n, want)
			}
		}
	}
	for _, n := range names {
		if s := objs[n]; s != nil && !mt[s.Type] {
			b, _ := json.Marshal(s)
			t.Logf("EXTRA %s: %s", n, b)
		}
	}
}

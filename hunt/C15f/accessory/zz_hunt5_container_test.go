package accessory

import "testing"

// Clause: "every constructor ... for an accessory returns a usable object" (NewContainer):
// an accessory which was removed from the container can not be added again,
// and its id stays taken for every other accessory.
func TestZZContainerRemoveThenAdd(t *testing.T) {
	c := NewContainer()
	a := NewSwitch(Info{Name: "a"}).Accessory
	if err := c.AddAccessory(a); err != nil {
		t.Fatal(err)
	}
	c.RemoveAccessory(a)
	if len(c.Accessories) != 0 {
		t.Fatal("not removed")
	}
	if err := c.AddAccessory(a); err != nil {
		t.Errorf("re-adding the removed accessory: %v", err)
	}
	c2 := NewContainer()
	x := NewSwitch(Info{Name: "x", ID: 5}).Accessory
	y := NewSwitch(Info{Name: "y", ID: 5}).Accessory
	c2.AddAccessory(x)
	c2.RemoveAccessory(x)
	if err := c2.AddAccessory(y); err != nil {
		t.Errorf("adding an accessory under the id of a removed one: %v", err)
	}
}

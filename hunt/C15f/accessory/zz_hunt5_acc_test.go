package accessory

import (
	"encoding/json"
	"testing"

	"github.com/brutella/hc/service"
)

func zzAll(info Info) map[string]*Accessory {
	return map[string]*Accessory{
		"New":                  New(info, TypeOther),
		"NewBridge":            NewBridge(info).Accessory,
		"NewCamera":            NewCamera(info).Accessory,
		"NewColoredLightbulb":  NewColoredLightbulb(info).Accessory,
		"NewLightbulb":         NewLightbulb(info).Accessory,
		"NewOutlet":            NewOutlet(info).Accessory,
		"NewSwitch":            NewSwitch(info).Accessory,
		"NewTelevision":        NewTelevision(info).Accessory,
		"NewTemperatureSensor": NewTemperatureSensor(info, 20, -10, 50, 0.5).Accessory,
		"NewThermostat":        NewThermostat(info, 20, 10, 30, 0.5).Accessory,
		"NewWindow":            NewWindow(info, 50).Accessory,
	}
}

func TestZZAccessories(t *testing.T) {
	for _, info := range []Info{{}, {Name: "n", SerialNumber: "s", Manufacturer: "m", Model: "mo", FirmwareRevision: "1.0.0", ID: 7}} {
		cont := NewContainer()
		for n, a := range zzAll(info) {
			if a == nil {
				t.Errorf("%s nil", n)
				continue
			}
			if a.ID != info.ID {
				t.Errorf("%s id %d", n, a.ID)
			}
			if len(a.Services) == 0 || a.Services[0].Type != service.TypeAccessoryInformation {
				t.Errorf("%s: first service not info", n)
			}
			ids := map[uint64]bool{}
			types := map[string]int{}
			for _, s := range a.Services {
				if s.ID == 0 || ids[s.ID] {
					t.Errorf("%s: service id %d", n, s.ID)
				}
				ids[s.ID] = true
				types[s.Type]++
				ct := map[string]bool{}
				for _, c := range s.Characteristics {
					if c.ID == 0 || ids[c.ID] {
						t.Errorf("%s: char id %d", n, c.ID)
					}
					ids[c.ID] = true
					if ct[c.Type] {
						t.Errorf("%s: dup char type %s in service %s", n, c.Type, s.Type)
					}
					ct[c.Type] = true
				}
			}
			b, err := json.Marshal(a)
			if err != nil {
				t.Errorf("%s: %v", n, err)
			}
			_ = b
			a.ID = 0
			if err := cont.AddAccessory(a); err != nil {
				t.Errorf("%s: %v", n, err)
			}
		}
		cont.ContentHash()
	}
}

package util

// Differential run: the file storage against a map, long random histories,
// unusual keys (none with ':' or a separator: those collisions are known).

import (
	"io/ioutil"
	"math/rand"
	"os"
	"sort"
	"strings"
	"testing"
)

func TestZZHunt5DiffMap(t *testing.T) {
	keys := []string{"a", "b", "A", "a ", " a", "a.", ".a", "..a", "a..", "é", "é", "\xff", "a\nb", "a\tb", "-", "~", "a*", "a?", "a\\b",
		"uuid", "uuid.tmp", "x.entity", ".entity", "entity", strings.Repeat("k", 255), strings.Repeat("k", 256), strings.Repeat("k", 254) + "é"}
	suffixes := []string{".entity", "", "a", ".", "entity", "\xff"}
	for seed := int64(0); seed < 30; seed++ {
		dir, _ := ioutil.TempDir("", "h5d")
		st, _ := NewFileStorage(dir)
		model := map[string][]byte{}
		r := rand.New(rand.NewSource(seed))
		for step := 0; step < 3000; step++ {
			k := keys[r.Intn(len(keys))]
			switch r.Intn(4) {
			case 0:
				v := make([]byte, []int{0, 1, 31, 32, 33, 64, 1000}[r.Intn(7)])
				r.Read(v)
				if err := st.Set(k, v); err == nil {
					model[k] = v
				} else if len(k) < 256 {
					t.Fatalf("seed %d step %d: Set(%q): %v", seed, step, k, err)
				}
			case 1:
				err := st.Delete(k)
				_, had := model[k]
				if (err == nil) != had {
					t.Fatalf("seed %d step %d: Delete(%q): %v, model has it: %v", seed, step, k, err, had)
				}
				delete(model, k)
			case 2:
				sfx := suffixes[r.Intn(len(suffixes))]
				got, err := st.KeysWithSuffix(sfx)
				if err != nil {
					t.Fatal(err)
				}
				var want []string
				for mk := range model {
					if strings.HasSuffix(mk, sfx) {
						want = append(want, mk)
					}
				}
				sort.Strings(got)
				sort.Strings(want)
				if strings.Join(got, "\x00") != strings.Join(want, "\x00") {
					t.Fatalf("seed %d step %d: KeysWithSuffix(%q) = %q, want %q", seed, step, sfx, got, want)
				}
			}
			// compare everything after every step
			for _, kk := range keys {
				got, err := st.Get(kk)
				want, had := model[kk]
				if had != (err == nil) || string(got) != string(want) {
					t.Fatalf("seed %d step %d: after op on %q: Get(%q) = %d bytes, %v; model %d bytes, present %v", seed, step, k, kk, len(got), err, len(want), had)
				}
			}
		}
		os.RemoveAll(dir)
	}
}

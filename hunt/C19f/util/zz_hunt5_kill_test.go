package util

// Real SIGKILL at random times on a child with several goroutines writing
// (one writer per key, plus a reader and a lister). Values are self-describing.

import (
	"bufio"
	"crypto/sha256"
	"fmt"
	"io/ioutil"
	"math/rand"
	"os"
	"os/exec"
	"strconv"
	"strings"
	"sync"
	"testing"
	"time"
)

func hunt5MakeValue(key string, seq int) []byte {
	r := rand.New(rand.NewSource(int64(seq)*7919 + int64(len(key))))
	sizes := []int{0, 1, 31, 32, 33, 254, 255, 256, 1023, 1024, 1025, 4095, 4096, 4097, 65535, 65536, 300000}
	n := sizes[r.Intn(len(sizes))]
	pad := make([]byte, n)
	for i := range pad {
		pad[i] = byte('a' + (seq+i)%26)
	}
	head := fmt.Sprintf("%s|%d|%d|", key, seq, n)
	sum := sha256.Sum256(append([]byte(head), pad...))
	return append(append([]byte(head), pad...), []byte(fmt.Sprintf("|%x", sum[:8]))...)
}

// returns seq, ok
func hunt5CheckValue(key string, v []byte) (int, bool) {
	parts := strings.SplitN(string(v), "|", 4)
	if len(parts) != 4 || parts[0] != key {
		return 0, false
	}
	seq, err := strconv.Atoi(parts[1])
	if err != nil {
		return 0, false
	}
	return seq, string(hunt5MakeValue(key, seq)) == string(v)
}

var hunt5KillKeys = []string{"uuid", "version", "configHash", "aa.entity", "bb.entity", "uuid.tmp"}

func TestZZHunt5KillChild(t *testing.T) {
	dir := os.Getenv("HUNT5_DIR")
	if dir == "" {
		return
	}
	st, err := NewFileStorage(dir)
	if err != nil {
		os.Exit(3)
	}
	var mu sync.Mutex
	out := bufio.NewWriter(os.Stdout)
	for _, key := range hunt5KillKeys {
		key := key
		start := 0
		if b, err := st.Get(key); err == nil {
			if s, ok := hunt5CheckValue(key, b); ok {
				start = s
			}
		}
		go func() {
			for seq := start + 1; ; seq++ {
				if err := st.Set(key, hunt5MakeValue(key, seq)); err != nil {
					fmt.Fprintln(os.Stderr, "SETERR", err)
					os.Exit(4)
				}
				mu.Lock()
				fmt.Fprintf(out, "%s %d\n", key, seq)
				out.Flush()
				mu.Unlock()
			}
		}()
	}
	go func() {
		for {
			for _, key := range hunt5KillKeys {
				if b, err := st.Get(key); err == nil {
					if _, ok := hunt5CheckValue(key, b); !ok {
						fmt.Fprintln(os.Stderr, "BADREAD", key, len(b))
						os.Exit(5)
					}
				}
			}
			st.KeysWithSuffix(".entity")
		}
	}()
	select {}
}

func TestZZHunt5RandomKill(t *testing.T) {
	if os.Getenv("HUNT5_DIR") != "" {
		return
	}
	dir, _ := ioutil.TempDir("", "h5k")
	defer os.RemoveAll(dir)
	rounds := 300
	if s := os.Getenv("HUNT5_ROUNDS"); s != "" {
		rounds, _ = strconv.Atoi(s)
	}
	r := rand.New(rand.NewSource(time.Now().UnixNano()))
	acked := map[string]int{}
	for round := 0; round < rounds; round++ {
		cmd := exec.Command(os.Args[0], "-test.run", "^TestZZHunt5KillChild$")
		cmd.Env = append(os.Environ(), "HUNT5_DIR="+dir)
		stdout, _ := cmd.StdoutPipe()
		cmd.Stderr = os.Stderr
		if err := cmd.Start(); err != nil {
			t.Fatal(err)
		}
		done := make(chan struct{})
		var mu sync.Mutex
		go func() {
			sc := bufio.NewScanner(stdout)
			for sc.Scan() {
				f := strings.Fields(sc.Text())
				if len(f) == 2 {
					n, _ := strconv.Atoi(f[1])
					mu.Lock()
					if n > acked[f[0]] {
						acked[f[0]] = n
					}
					mu.Unlock()
				}
			}
			close(done)
		}()
		time.Sleep(time.Duration(5+r.Intn(60000)) * time.Microsecond * 1)
		cmd.Process.Kill()
		<-done
		err := cmd.Wait()
		if ee, ok := err.(*exec.ExitError); ok && ee.Exited() {
			t.Fatalf("child exited by itself: %v", err)
		}
		fresh, _ := NewFileStorage(dir)
		mu.Lock()
		for _, key := range hunt5KillKeys {
			b, err := fresh.Get(key)
			if err != nil {
				if acked[key] > 0 {
					t.Fatalf("round %d: key %s lost: %v (acked %d)", round, key, err, acked[key])
				}
				continue
			}
			seq, ok := hunt5CheckValue(key, b)
			if !ok {
				t.Fatalf("round %d: key %s holds a damaged value of %d bytes: %.60q", round, key, len(b), b)
			}
			if seq < acked[key] || seq > acked[key]+1 {
				t.Fatalf("round %d: key %s holds seq %d, acknowledged %d", round, key, seq, acked[key])
			}
			acked[key] = seq
		}
		mu.Unlock()
		// remove stray temporary files so the directory does not grow (known, not asserted)
		if ks, _ := fresh.KeysWithSuffix(".tmp"); len(ks) > 0 {
			for _, k := range ks {
				if k != "uuid.tmp" {
					os.Remove(dir + "/" + k)
				}
			}
		}
	}
	t.Logf("acked: %v", acked)
}

package hc

// Crash injection with strace: the child (this test binary, re-executed) is
// killed with SIGKILL on entering the k-th occurrence of a file-system call.
// The killed call is not executed. The parent then opens a fresh store on the
// same directory and compares with the model.

import (
	"bytes"
	"fmt"
	"io/ioutil"
	"os"
	"os/exec"
	"path/filepath"
	"sort"
	"strings"
	"testing"

	"github.com/brutella/hc/accessory"
	"github.com/brutella/hc/db"
	"github.com/brutella/hc/util"
)

func hunt5Val(class string) []byte {
	switch class {
	case "absent":
		return nil
	case "short":
		return []byte("xy")
	case "equal":
		return []byte("ABCDEFGHIJKLMNOPQRSTUVWXYZabcdefghijkl")
	case "equal2":
		return []byte("0123456789012345678901234567890123456a")
	case "long":
		return bytes.Repeat([]byte("0123456789abcdef"), 40000) // 640000 bytes
	case "page":
		return bytes.Repeat([]byte("q"), 4096)
	}
	panic(class)
}

// child side
func TestZZHunt5Child(t *testing.T) {
	sc := os.Getenv("HUNT5_SCENARIO")
	dir := os.Getenv("HUNT5_DIR")
	if sc == "" {
		return
	}
	switch {
	case strings.HasPrefix(sc, "set:"):
		st, err := util.NewFileStorage(dir)
		if err != nil {
			os.Exit(3)
		}
		if err := st.Set("uuid", hunt5Val(strings.TrimPrefix(sc, "set:"))); err != nil {
			os.Exit(4)
		}
	case sc == "transport" || sc == "transport2":
		info := accessory.Info{Name: "Lamp"}
		var a *accessory.Accessory
		if sc == "transport" {
			a = accessory.NewSwitch(info).Accessory
		} else {
			a = accessory.NewLightbulb(info).Accessory
		}
		tr, err := NewIPTransport(Config{StoragePath: dir}, a)
		if err != nil || tr == nil {
			os.Exit(5)
		}
	case sc == "pairings":
		d, err := db.NewDatabase(dir)
		if err != nil {
			os.Exit(3)
		}
		d.SaveEntity(db.NewEntity("ctrl-A", bytes.Repeat([]byte{2}, 32), nil))  // overwrite
		d.SaveEntity(db.NewEntity("ctrl-C", bytes.Repeat([]byte{3}, 32), nil))  // add
		d.DeleteEntity(db.NewEntity("ctrl-B", nil, nil))                         // delete
		util.GetSerialNumberForAccessoryName("Lamp", mustStore(dir))            // existing
		util.GetSerialNumberForAccessoryName("Other", mustStore(dir))           // new
	}
	os.Exit(0)
}

func mustStore(dir string) util.Storage {
	st, err := util.NewFileStorage(dir)
	if err != nil {
		panic(err)
	}
	return st
}

// snapshot of all files of a directory (name -> content)
func hunt5Snap(t *testing.T, dir string) map[string]string {
	m := map[string]string{}
	infos, err := ioutil.ReadDir(dir)
	if err != nil {
		t.Fatal(err)
	}
	for _, i := range infos {
		b, err := ioutil.ReadFile(filepath.Join(dir, i.Name()))
		if err != nil {
			t.Fatal(err)
		}
		m[i.Name()] = string(b)
	}
	return m
}

func hunt5Copy(t *testing.T, from, to string) {
	os.RemoveAll(to)
	os.MkdirAll(to, 0755)
	for n, v := range hunt5Snap(t, from) {
		if err := ioutil.WriteFile(filepath.Join(to, n), []byte(v), 0644); err != nil {
			t.Fatal(err)
		}
	}
}

// runs the child; kills it at the k-th call of syscall sc. Returns true if the child was killed.
func hunt5Run(t *testing.T, scenario, dir, sysc string, k int) bool {
	args := []string{"-f", "-o", "/dev/null", "-e", "trace=" + sysc}
	if k > 0 {
		args = append(args, "-e", fmt.Sprintf("inject=%s:signal=SIGKILL:when=%d", sysc, k))
	}
	args = append(args, os.Args[0], "-test.run", "^TestZZHunt5Child$")
	cmd := exec.Command("strace", args...)
	cmd.Env = append(os.Environ(), "HUNT5_SCENARIO="+scenario, "HUNT5_DIR="+dir, "GOMAXPROCS=1")
	out, err := cmd.CombinedOutput()
	if err == nil {
		return false
	}
	if ee, ok := err.(*exec.ExitError); ok && !ee.Exited() {
		return true // killed by signal
	}
	t.Fatalf("child failed: %v %s", err, out)
	return false
}

var hunt5Syscalls = []string{"openat", "write", "close", "renameat", "unlinkat", "fcntl", "read", "fstat", "newfstatat", "getdents64", "mkdirat"}

// For every crash point: key is old or new in full, all other keys untouched.
func TestZZHunt5SetCrashPoints(t *testing.T) {
	base, _ := ioutil.TempDir("", "h5")
	defer os.RemoveAll(base)
	n := 0
	for _, oldc := range []string{"absent", "short", "equal", "long", "page"} {
		for _, newc := range []string{"short", "equal2", "long", "page"} {
			for _, sysc := range hunt5Syscalls {
				for k := 1; k < 400; k++ {
					dir := filepath.Join(base, "d")
					os.RemoveAll(dir)
					st := mustStore(dir)
					if oldc != "absent" {
						st.Set("uuid", hunt5Val(oldc))
					}
					st.Set("other", []byte("untouched"))
					st.Set("uuid.tmp", []byte("untouched2"))
					killed := hunt5Run(t, "set:"+newc, dir, sysc, k)
					n++
					fresh := mustStore(dir)
					got, err := fresh.Get("uuid")
					isOld := (oldc == "absent" && err != nil) || (oldc != "absent" && err == nil && bytes.Equal(got, hunt5Val(oldc)))
					isNew := err == nil && bytes.Equal(got, hunt5Val(newc))
					if !isOld && !isNew {
						t.Errorf("old=%s new=%s kill at %s #%d: uuid = %d bytes err=%v", oldc, newc, sysc, k, len(got), err)
					}
					if !killed && !isNew {
						t.Errorf("old=%s new=%s: child finished, value is not new", oldc, newc)
					}
					if o, _ := fresh.Get("other"); string(o) != "untouched" {
						t.Errorf("other key touched: %q", o)
					}
					if o, _ := fresh.Get("uuid.tmp"); string(o) != "untouched2" {
						t.Errorf("uuid.tmp key touched: %q", o)
					}
					if !killed {
						break
					}
				}
			}
		}
	}
	t.Logf("%d runs", n)
}

func hunt5Keys(m map[string]string) []string {
	var ks []string
	for k := range m {
		ks = append(ks, k)
	}
	sort.Strings(ks)
	return ks
}

// scenario over a prepared directory: every key file is, after the crash, one of
// {before, after-complete-run} and files which a complete run does not change are unchanged.
func hunt5Scenario(t *testing.T, scenario string, prepare func(dir string)) {
	base, _ := ioutil.TempDir("", "h5")
	defer os.RemoveAll(base)
	proto := filepath.Join(base, "proto")
	os.MkdirAll(proto, 0755)
	prepare(proto)
	before := hunt5Snap(t, proto)
	n := 0
	states := map[string]int{}
	defer func() { t.Logf("%d distinct crashed states", len(states)) }()
	for _, sysc := range hunt5Syscalls {
		for k := 1; k < 3000; k++ {
			dir := filepath.Join(base, "d")
			hunt5Copy(t, proto, dir)
			killed := hunt5Run(t, scenario, dir, sysc, k)
			n++
			crashed := hunt5Snap(t, dir)
			sig := ""
			for _, kk := range hunt5Keys(crashed) {
				nm := kk
				if strings.HasSuffix(nm, ".tmp") {
					nm = "T.tmp"
				}
				sig += fmt.Sprintf("%s=%d;", nm, len(crashed[kk]))
			}
			states[sig]++
			// restart: complete run on the crashed directory
			if hunt5Run(t, scenario, dir, sysc, 0) {
				t.Fatal("unexpected kill")
			}
			after := hunt5Snap(t, dir)
			// reference: complete run on a pristine copy
			ref := filepath.Join(base, "ref")
			hunt5Copy(t, proto, ref)
			hunt5Run(t, scenario, ref, sysc, 0)
			refAfter := hunt5Snap(t, ref)

			for _, name := range hunt5Keys(crashed) {
				if strings.HasSuffix(name, ".tmp") {
					continue // stray temporary file: known
				}
				v := crashed[name]
				b, hasB := before[name]
				if hasB && v == b {
					continue
				}
				if _, inRef := refAfter[name]; !hasB && !inRef && strings.HasSuffix(name, ".entity") {
					// a random entity name; must be complete JSON
				}
				if len(v) == 0 {
					t.Errorf("%s kill at %s #%d: %s is empty (before %q)", scenario, sysc, k, name, b)
				}
				if hasB {
					// changed: the complete run must be allowed to change it
					if refAfter[name] == b {
						t.Errorf("%s kill at %s #%d: %s changed %q -> %q though a complete run leaves it", scenario, sysc, k, name, b, v)
					}
				}
			}
			for name, b := range before {
				if _, ok := crashed[name]; !ok {
					if _, inRef := refAfter[name]; inRef {
						t.Errorf("%s kill at %s #%d: %s lost (was %q)", scenario, sysc, k, name, b)
					}
				}
				// after the restart: identity kept
				if name == "uuid" && after[name] != b {
					t.Errorf("%s kill at %s #%d: uuid after restart %q, was %q", scenario, sysc, k, after[name], b)
				}
				if strings.HasSuffix(name, ".entity") && refAfter[name] == b && after[name] != b {
					t.Errorf("%s kill at %s #%d: %s after restart %q, was %q", scenario, sysc, k, name, after[name], b)
				}
			}
			if !killed {
				break
			}
		}
	}
	t.Logf("%s: %d runs", scenario, n)
}

func TestZZHunt5TransportCrashPoints(t *testing.T) {
	hunt5Scenario(t, "transport2", func(dir string) {
		// a first complete start with another accessory content, then a pairing
		if hunt5Run(t, "transport", dir, "openat", 0) {
			t.Fatal("kill")
		}
		d, _ := db.NewDatabase(dir)
		d.SaveEntity(db.NewEntity("ctrl-A", bytes.Repeat([]byte{1}, 32), nil))
	})
}

func TestZZHunt5FirstStartCrashPoints(t *testing.T) {
	hunt5Scenario(t, "transport", func(dir string) {})
}

func TestZZHunt5PairingsCrashPoints(t *testing.T) {
	hunt5Scenario(t, "pairings", func(dir string) {
		d, _ := db.NewDatabase(dir)
		d.SaveEntity(db.NewEntity("ctrl-A", bytes.Repeat([]byte{1}, 32), nil))
		d.SaveEntity(db.NewEntity("ctrl-B", bytes.Repeat([]byte{1}, 32), nil))
		util.GetSerialNumberForAccessoryName("Lamp", mustStore(dir))
	})
}

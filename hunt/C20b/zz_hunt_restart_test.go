package hc

import (
	"bytes"
	"io/ioutil"
	"net/http"
	"net/http/httptest"
	"os"
	"path/filepath"
	"testing"

	"github.com/brutella/hc/accessory"
	"github.com/brutella/hc/characteristic"
	"github.com/brutella/hc/db"
	"github.com/brutella/hc/hap/endpoint"
	"github.com/brutella/hc/hap/pair"
	"github.com/brutella/hc/service"
	"github.com/brutella/hc/util"
)

func huntDir(t *testing.T) string {
	d, err := ioutil.TempDir("", "huntC20")
	if err != nil {
		t.Fatal(err)
	}
	return d
}

type huntSnap struct {
	id      string
	pub     []byte
	priv    []byte
	version int64
	sf      string
	cs      string
}

func huntStart(t *testing.T, dir string, build func() []*accessory.Accessory) (*ipTransport, huntSnap) {
	as := build()
	tr, err := NewIPTransport(Config{StoragePath: dir}, as[0], as[1:]...)
	if err != nil {
		t.Fatal(err)
	}
	tr.config.servePort = 12345
	// what Start() does without the network part
	tr.handle, _ = tr.responder.Add(newService(tr.config))
	txt := tr.handle.Service().Text
	return tr, huntSnap{tr.config.id, tr.device.PublicKey(), tr.device.PrivateKey(), tr.config.version, txt["sf"], txt["c#"]}
}

func huntSwitch() []*accessory.Accessory {
	a := accessory.NewSwitch(accessory.Info{Name: "Sw"})
	return []*accessory.Accessory{a.Accessory}
}

func huntPairings(tr *ipTransport, method pair.PairMethodType, name string, key []byte) int {
	ep := endpoint.NewPairing(pair.NewPairingController(tr.database), tr.emitter)
	c := util.NewTLV8Container()
	c.SetByte(pair.TagPairingMethod, method.Byte())
	c.SetString(pair.TagUsername, name)
	c.SetBytes(pair.TagPublicKey, key)
	c.SetByte(pair.TagPermission, 1)
	req := httptest.NewRequest("POST", "/pairings", bytes.NewReader(c.BytesBuffer().Bytes()))
	w := httptest.NewRecorder()
	ep.ServeHTTP(w, req)
	return w.Code
}

// P1: restart history with value changes, structure changes, pair/unpair
func TestHuntRestartHistory(t *testing.T) {
	dir := huntDir(t)
	defer os.RemoveAll(dir)

	tr, s0 := huntStart(t, dir, huntSwitch)
	if s0.sf != "1" || s0.cs != "1" {
		t.Fatalf("first start %+v", s0)
	}

	// restart, value changed
	_, s1 := huntStart(t, dir, func() []*accessory.Accessory {
		a := accessory.NewSwitch(accessory.Info{Name: "Sw", Manufacturer: "other", SerialNumber: "77", Model: "M", FirmwareRevision: "2.0"})
		a.Switch.On.SetValue(true)
		return []*accessory.Accessory{a.Accessory}
	})
	if s1.id != s0.id || !bytes.Equal(s1.pub, s0.pub) || !bytes.Equal(s1.priv, s0.priv) {
		t.Fatalf("identity changed %+v %+v", s0, s1)
	}
	if s1.version != 1 || s1.cs != "1" {
		t.Fatalf("version changed by value change: %+v", s1)
	}

	// pair
	if code := huntPairings(tr, pair.PairingMethodAdd, "ctrl-1", []byte{1, 2, 3}); code != http.StatusOK {
		t.Fatal(code)
	}
	if sf := tr.handle.Service().Text["sf"]; sf != "0" {
		t.Fatalf("sf after pair %s", sf)
	}

	// restart paired, structure changed
	withOutlet := func() []*accessory.Accessory {
		a := accessory.NewSwitch(accessory.Info{Name: "Sw"})
		a.AddService(service.NewOutlet().Service)
		return []*accessory.Accessory{a.Accessory}
	}
	tr2, s2 := huntStart(t, dir, withOutlet)
	if s2.id != s0.id || !bytes.Equal(s2.priv, s0.priv) {
		t.Fatalf("identity changed")
	}
	if s2.sf != "0" {
		t.Fatalf("paired but discoverable")
	}
	if s2.cs != "2" {
		t.Fatalf("c# = %s after structural change", s2.cs)
	}
	es, _ := tr2.database.Entities()
	if len(es) != 2 {
		t.Fatalf("entities %v", es)
	}

	// restart same structure: no increase
	tr3, s3 := huntStart(t, dir, withOutlet)
	if s3.cs != "2" {
		t.Fatalf("c# = %s", s3.cs)
	}
	// unpair
	if code := huntPairings(tr3, pair.PairingMethodDelete, "ctrl-1", nil); code != http.StatusOK {
		t.Fatal(code)
	}
	if sf := tr3.handle.Service().Text["sf"]; sf != "1" {
		t.Fatalf("sf after unpair %s", sf)
	}
	// back to the first structure: increases
	_, s4 := huntStart(t, dir, huntSwitch)
	if s4.cs != "3" || s4.sf != "1" || s4.id != s0.id || !bytes.Equal(s4.priv, s0.priv) {
		t.Fatalf("%+v", s4)
	}
}

// P2: two controllers, remove one, still paired; remove the other, discoverable
func TestHuntTwoControllers(t *testing.T) {
	dir := huntDir(t)
	defer os.RemoveAll(dir)
	tr, _ := huntStart(t, dir, huntSwitch)
	huntPairings(tr, pair.PairingMethodAdd, "A", []byte{1})
	huntPairings(tr, pair.PairingMethodAdd, "B", []byte{2})
	huntPairings(tr, pair.PairingMethodDelete, "A", nil)
	if sf := tr.handle.Service().Text["sf"]; sf != "0" {
		t.Fatalf("sf %s", sf)
	}
	huntPairings(tr, pair.PairingMethodDelete, "nobody", nil)
	if sf := tr.handle.Service().Text["sf"]; sf != "0" {
		t.Fatalf("sf %s", sf)
	}
	huntPairings(tr, pair.PairingMethodDelete, "B", nil)
	if sf := tr.handle.Service().Text["sf"]; sf != "1" {
		t.Fatalf("sf %s", sf)
	}
}

// P3: odd controller names
func TestHuntOddNames(t *testing.T) {
	for _, name := range []string{"", ".", "..", "a/b", "uuid", "\xff\xfe", "version", string(make([]byte, 100))} {
		dir := huntDir(t)
		tr, s0 := huntStart(t, dir, huntSwitch)
		code := huntPairings(tr, pair.PairingMethodAdd, name, []byte{1})
		es, err := tr.database.Entities()
		stored := false
		for _, e := range es {
			if e.Name == name && len(e.PrivateKey) == 0 {
				stored = true
			}
		}
		sf := tr.handle.Service().Text["sf"]
		if (sf == "0") != stored || err != nil {
			t.Errorf("name %q code %d stored %v sf %s err %v", name, code, stored, sf, err)
		}
		_, s1 := huntStart(t, dir, huntSwitch)
		if s1.id != s0.id || !bytes.Equal(s1.priv, s0.priv) || (s1.sf == "0") != stored {
			t.Errorf("name %q after restart %+v", name, s1)
		}
		os.RemoveAll(dir)
	}
}

// P4: names of the accessory and of a stale key pair are refused
func TestHuntOwnName(t *testing.T) {
	dir := huntDir(t)
	defer os.RemoveAll(dir)
	// stale key pair of a start which did not complete
	d, _ := db.NewDatabase(dir)
	stale, _ := db.NewRandomEntityWithName("AA:BB:CC:DD:EE:FF")
	d.SaveEntity(stale)

	tr, s0 := huntStart(t, dir, huntSwitch)
	if s0.sf != "1" {
		t.Fatalf("stale key pair makes paired")
	}
	for _, n := range []string{s0.id, "AA:BB:CC:DD:EE:FF"} {
		huntPairings(tr, pair.PairingMethodAdd, n, []byte{1})
		huntPairings(tr, pair.PairingMethodDelete, n, nil)
	}
	if sf := tr.handle.Service().Text["sf"]; sf != "1" {
		t.Fatalf("sf %s", sf)
	}
	_, s1 := huntStart(t, dir, huntSwitch)
	if s1.id != s0.id || !bytes.Equal(s1.priv, s0.priv) || s1.sf != "1" {
		t.Fatalf("%+v", s1)
	}
}

// P5: crash points of the first start (files missing)
func TestHuntCrashPoints(t *testing.T) {
	for _, missing := range [][]string{{"uuid", "version", "configHash"}, {"version", "configHash"}, {"configHash"}, {"version"}} {
		dir := huntDir(t)
		_, s0 := huntStart(t, dir, huntSwitch)
		for _, m := range missing {
			os.Remove(filepath.Join(dir, m))
		}
		_, s1 := huntStart(t, dir, huntSwitch)
		if s1.sf != "1" {
			t.Errorf("missing %v: sf %s", missing, s1.sf)
		}
		if missing[0] != "uuid" && (s1.id != s0.id || !bytes.Equal(s1.priv, s0.priv)) {
			t.Errorf("missing %v: identity", missing)
		}
		if s1.cs != "1" {
			t.Errorf("missing %v: c# %s", missing, s1.cs)
		}
		_, s2 := huntStart(t, dir, huntSwitch)
		if s2.id != s1.id || !bytes.Equal(s2.priv, s1.priv) || s2.cs != "1" || s2.sf != "1" {
			t.Errorf("missing %v: third start %+v", missing, s2)
		}
		os.RemoveAll(dir)
	}
}

// P6: leftovers of an interrupted Set
func TestHuntTmpLeftovers(t *testing.T) {
	dir := huntDir(t)
	defer os.RemoveAll(dir)
	tr, s0 := huntStart(t, dir, huntSwitch)
	huntPairings(tr, pair.PairingMethodAdd, "A", []byte{1})
	for _, f := range []string{"uuid.tmp", "version.tmp", "configHash.tmp", "41.entity.tmp", "42.entity.tmp"} {
		ioutil.WriteFile(filepath.Join(dir, f), []byte("{gar"), 0666)
	}
	tr1, s1 := huntStart(t, dir, huntSwitch)
	if s1.id != s0.id || !bytes.Equal(s1.priv, s0.priv) || s1.cs != "1" || s1.sf != "0" {
		t.Fatalf("%+v", s1)
	}
	huntPairings(tr1, pair.PairingMethodDelete, "A", nil)
	if sf := tr1.handle.Service().Text["sf"]; sf != "1" {
		t.Fatalf("sf %s", sf)
	}
}

// P7: many values, many restarts
func TestHuntValuesNeverBump(t *testing.T) {
	dir := huntDir(t)
	defer os.RemoveAll(dir)
	build := func(i int) func() []*accessory.Accessory {
		return func() []*accessory.Accessory {
			b := accessory.NewBridge(accessory.Info{Name: "Br", SerialNumber: string(rune('a' + i))})
			th := accessory.NewThermostat(accessory.Info{Name: "Th"}, float64(i), 10, 30, 0.5)
			th.Thermostat.TargetTemperature.SetValue(float64(10 + i))
			th.Thermostat.CurrentHeatingCoolingState.SetValue(i % 3)
			lb := accessory.NewColoredLightbulb(accessory.Info{Name: "Lb"})
			lb.Lightbulb.On.SetValue(i%2 == 0)
			lb.Lightbulb.Hue.SetValue(float64(i * 36))
			tv := accessory.NewTelevision(accessory.Info{Name: "Tv"})
			tv.Television.ConfiguredName.SetValue(string(make([]byte, i)))
			if i%2 == 1 {
				// a readable characteristic without a value, and one with
				tv.Television.ConfiguredName.Value = nil
			}
			c := characteristic.NewLockControlPoint()
			_ = c
			return []*accessory.Accessory{b.Accessory, th.Accessory, lb.Accessory, tv.Accessory}
		}
	}
	for i := 0; i < 10; i++ {
		_, s := huntStart(t, dir, build(i))
		if s.cs != "1" {
			t.Fatalf("run %d c# %s", i, s.cs)
		}
	}
}

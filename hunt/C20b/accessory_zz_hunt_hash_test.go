package accessory

import (
	"bytes"
	"math/rand"
	"testing"

	"github.com/brutella/hc/characteristic"
	"github.com/brutella/hc/service"
)

func huntBase() (*Container, *Accessory, *service.Lightbulb) {
	a := New(Info{Name: "x"}, TypeLightbulb)
	lb := service.NewLightbulb()
	a.AddService(lb.Service)
	b := New(Info{Name: "y"}, TypeSwitch)
	sw := service.NewSwitch()
	b.AddService(sw.Service)
	c := NewContainer()
	c.AddAccessory(a)
	c.AddAccessory(b)
	return c, a, lb
}

func TestHuntHashStructure(t *testing.T) {
	c0, _, _ := huntBase()
	h0 := c0.ContentHash()
	c1, _, _ := huntBase()
	if !bytes.Equal(h0, c1.ContentHash()) {
		t.Fatal("not deterministic")
	}
	tr := true
	muts := map[string]func(c *Container, a *Accessory, lb *service.Lightbulb){
		"perms":      func(c *Container, a *Accessory, lb *service.Lightbulb) { lb.On.Perms = []string{characteristic.PermRead} },
		"permsorder": func(c *Container, a *Accessory, lb *service.Lightbulb) { lb.On.Perms = []string{lb.On.Perms[1], lb.On.Perms[0], lb.On.Perms[2]} },
		"type":       func(c *Container, a *Accessory, lb *service.Lightbulb) { lb.On.Type = "26" },
		"format":     func(c *Container, a *Accessory, lb *service.Lightbulb) { lb.On.Format = characteristic.FormatUInt8 },
		"unit":       func(c *Container, a *Accessory, lb *service.Lightbulb) { lb.On.Unit = characteristic.UnitPercentage },
		"maxlen":     func(c *Container, a *Accessory, lb *service.Lightbulb) { lb.On.MaxLen = 5 },
		"max":        func(c *Container, a *Accessory, lb *service.Lightbulb) { lb.On.MaxValue = 1 },
		"min":        func(c *Container, a *Accessory, lb *service.Lightbulb) { lb.On.MinValue = 0 },
		"step":       func(c *Container, a *Accessory, lb *service.Lightbulb) { lb.On.StepValue = 1 },
		"descr":      func(c *Container, a *Accessory, lb *service.Lightbulb) { lb.On.Description = "value" },
		"hidden":     func(c *Container, a *Accessory, lb *service.Lightbulb) { lb.Service.Hidden = tr },
		"primary":    func(c *Container, a *Accessory, lb *service.Lightbulb) { lb.Service.Primary = tr },
		"linked":     func(c *Container, a *Accessory, lb *service.Lightbulb) { lb.Service.AddLinkedService(a.Info.Service) },
		"svctype":    func(c *Container, a *Accessory, lb *service.Lightbulb) { lb.Service.Type = "49" },
		"addchar": func(c *Container, a *Accessory, lb *service.Lightbulb) {
			lb.Service.AddCharacteristic(characteristic.NewBrightness().Characteristic)
			a.UpdateIDs()
		},
		"addsvc":  func(c *Container, a *Accessory, lb *service.Lightbulb) { a.AddService(service.NewSwitch().Service) },
		"aid":     func(c *Container, a *Accessory, lb *service.Lightbulb) { a.ID = 7 },
		"swap":    func(c *Container, a *Accessory, lb *service.Lightbulb) { c.Accessories[0], c.Accessories[1] = c.Accessories[1], c.Accessories[0] },
		"remove":  func(c *Container, a *Accessory, lb *service.Lightbulb) { c.RemoveAccessory(a) },
		"addacc":  func(c *Container, a *Accessory, lb *service.Lightbulb) { c.AddAccessory(New(Info{Name: "z"}, TypeOther)) },
		"swapsvc": func(c *Container, a *Accessory, lb *service.Lightbulb) { a.Services[0], a.Services[1] = a.Services[1], a.Services[0]; a.UpdateIDs() },
		"iid":     func(c *Container, a *Accessory, lb *service.Lightbulb) { lb.On.ID = 99 },
	}
	seen := map[string]string{string(h0): "base"}
	for name, m := range muts {
		c, a, lb := huntBase()
		m(c, a, lb)
		h := c.ContentHash()
		if prev, ok := seen[string(h)]; ok {
			t.Errorf("%s: same hash as %s", name, prev)
		}
		seen[string(h)] = name
	}
}

func TestHuntHashValues(t *testing.T) {
	c0, _, _ := huntBase()
	h0 := c0.ContentHash()
	r := rand.New(rand.NewSource(1))
	vals := []interface{}{nil, true, false, 0, 1, -1, 1.5, "", "value", "\"value\":1", map[string]interface{}{"value": 1, "iid": 3}, []interface{}{1, "value"},
		[]byte{1, 2}, map[string]interface{}{"type": "x"}, []interface{}{map[string]interface{}{"value": 1}}, uint64(1) << 63, "{", " "}
	for i := 0; i < 300; i++ {
		c, _, _ := huntBase()
		for _, a := range c.Accessories {
			for _, s := range a.Services {
				for _, ch := range s.Characteristics {
					ch.Value = vals[r.Intn(len(vals))]
				}
			}
		}
		if !bytes.Equal(h0, c.ContentHash()) {
			t.Fatalf("hash changed by values (iteration %d)", i)
		}
	}
}

// the same values through the public setters
func TestHuntHashSetters(t *testing.T) {
	c0, _, _ := huntBase()
	h0 := c0.ContentHash()
	c, a, lb := huntBase()
	lb.On.SetValue(true)
	a.Info.Name.SetValue("another name")
	a.Info.FirmwareRevision.SetValue("9")
	a.Info.Identify.SetValue(true)
	lb.On.OnValueGet(func() interface{} { return true })
	if !bytes.Equal(h0, c.ContentHash()) {
		t.Fatal("hash changed by values")
	}
}

package hc

import (
	"os"
	"sync"
	"testing"
	"time"

	"github.com/brutella/hc/db"
	"github.com/brutella/hc/hap/pair"
)

// huntSchedDB lets a test decide what runs between the moment isPaired() has
// read the stored entities and the moment its caller uses the answer. It does
// not change any answer of the database.
type huntSchedDB struct {
	db.Database
	mu   sync.Mutex
	hook func()
}

func (d *huntSchedDB) Entities() ([]db.Entity, error) {
	es, err := d.Database.Entities()
	d.mu.Lock()
	h := d.hook
	d.hook = nil
	d.mu.Unlock()
	if h != nil {
		h()
	}
	return es, err
}

func huntStored(tr *ipTransport) bool {
	es, _ := tr.database.(*huntSchedDB).Database.Entities()
	for _, e := range es {
		if len(e.PrivateKey) == 0 {
			return true
		}
	}
	return false
}

// Two controllers on two connections: the admin on connection 1 removes
// pairing X while the admin on connection 2 adds pairing Y. The request
// goroutine of connection 1 is not scheduled between reading the entities and
// publishing the flag; connection 2 is served completely in that time.
func TestHuntSchedRemoveWhileAdd(t *testing.T) {
	dir := huntDir(t)
	defer os.RemoveAll(dir)
	tr, _ := huntStart(t, dir, huntSwitch)
	sdb := &huntSchedDB{Database: tr.database}
	tr.database = sdb

	huntPairings(tr, pair.PairingMethodAdd, "X", []byte{1})
	if sf := tr.handle.Service().Text["sf"]; sf != "0" {
		t.Fatalf("sf %s", sf)
	}

	done := make(chan struct{})
	sdb.hook = func() {
		go func() {
			huntPairings(tr, pair.PairingMethodAdd, "Y", []byte{2})
			close(done)
		}()
		select {
		case <-done:
		case <-time.After(5 * time.Second): // a repaired transport serialises the two
		}
	}
	huntPairings(tr, pair.PairingMethodDelete, "X", nil)
	<-done

	stored := huntStored(tr)
	sf := tr.handle.Service().Text["sf"]
	t.Logf("controller pairing stored: %v, sf=%s, config.discoverable=%v", stored, sf, tr.config.discoverable)
	if stored != (sf == "0") {
		t.Fatalf("a controller pairing is stored (%v) but the accessory advertises sf=%s", stored, sf)
	}
}

// The other direction: connection 1 adds Y while connection 2 removes the
// only other pairing X and then Y as well (e.g. the admin removing every pairing).
func TestHuntSchedAddWhileRemove(t *testing.T) {
	dir := huntDir(t)
	defer os.RemoveAll(dir)
	tr, _ := huntStart(t, dir, huntSwitch)
	sdb := &huntSchedDB{Database: tr.database}
	tr.database = sdb

	done := make(chan struct{})
	sdb.hook = func() {
		go func() {
			huntPairings(tr, pair.PairingMethodDelete, "Y", nil)
			close(done)
		}()
		select {
		case <-done:
		case <-time.After(5 * time.Second):
		}
	}
	huntPairings(tr, pair.PairingMethodAdd, "Y", []byte{2})
	<-done

	stored := huntStored(tr)
	sf := tr.handle.Service().Text["sf"]
	t.Logf("controller pairing stored: %v, sf=%s, config.discoverable=%v", stored, sf, tr.config.discoverable)
	if stored != (sf == "0") {
		t.Fatalf("no controller pairing is stored (%v) but the accessory advertises sf=%s: it cannot be paired any more", stored, sf)
	}
}

package hc

import (
	"fmt"
	"runtime"
	"strings"
	"sync"
	"testing"

	"github.com/brutella/hc/util"
)

func huntDecode(uri string) (code uint64, flags uint64, cat uint64, rest uint64, setupid string, ok bool) {
	if !strings.HasPrefix(uri, "X-HM://") || len(uri) < 16 {
		return
	}
	body := uri[7:16]
	setupid = uri[16:]
	var p uint64
	for _, ch := range body {
		var d uint64
		switch {
		case ch >= '0' && ch <= '9':
			d = uint64(ch - '0')
		case ch >= 'A' && ch <= 'Z':
			d = uint64(ch-'A') + 10
		default:
			return
		}
		p = p*36 + d
	}
	code = p & 0x7ffffff
	flags = (p >> 27) & 0xf
	cat = (p >> 31) & 0xff
	rest = p >> 39
	ok = true
	return
}

func huntTrivial(n int) bool {
	if n == 12345678 || n == 87654321 {
		return true
	}
	return n%11111111 == 0
}

// all 10^8 codes: accepted iff not trivial, formatted XXX-XX-XXX, uri decodes back
func TestHuntAllCodes(t *testing.T) {
	workers := runtime.NumCPU()
	var wg sync.WaitGroup
	var mu sync.Mutex
	bad := []string{}
	chunk := 100000000 / workers
	for w := 0; w < workers; w++ {
		lo, hi := w*chunk, (w+1)*chunk
		if w == workers-1 {
			hi = 100000000
		}
		wg.Add(1)
		go func(lo, hi int) {
			defer wg.Done()
			buf := make([]byte, 8)
			for n := lo; n < hi; n++ {
				v := n
				for i := 7; i >= 0; i-- {
					buf[i] = byte('0' + v%10)
					v /= 10
				}
				pin := string(buf)
				f, err := ValidatePin(pin)
				if (err == nil) == huntTrivial(n) {
					mu.Lock()
					bad = append(bad, "accept "+pin)
					mu.Unlock()
					continue
				}
				if err != nil {
					continue
				}
				if len(f) != 10 || f[:3] != pin[:3] || f[3] != '-' || f[4:6] != pin[3:5] || f[6] != '-' || f[7:] != pin[5:] {
					mu.Lock()
					bad = append(bad, "format "+pin+" "+f)
					mu.Unlock()
				}
				if n%7 == 0 || n > 99999000 || n < 1000 {
					cat := uint8(n % 256)
					fl := util.SetupFlag(n % 16)
					uri, err := util.XHMURI(pin, "ABCD", cat, []util.SetupFlag{fl})
					c, fg, ct, rest, sid, ok := huntDecode(uri)
					if err != nil || !ok || c != uint64(n) || fg != uint64(fl) || ct != uint64(cat) || rest != 0 || sid != "ABCD" {
						mu.Lock()
						bad = append(bad, "uri "+pin+" "+uri)
						mu.Unlock()
					}
				}
			}
		}(lo, hi)
	}
	wg.Wait()
	if len(bad) > 0 {
		if len(bad) > 20 {
			bad = bad[:20]
		}
		t.Fatal(bad)
	}
}

func TestHuntOtherStrings(t *testing.T) {
	for _, s := range []string{"", "1", "1234567", "123456789", "001-02-003", "0010200a", " 0102003", "+0102003", "-0102003", "0010200 ", "0010200\n",
		"0010200\x00", "٠٠١٠٢٠٠٣", "１２３４５６７９", "\xff0102003", "0x102003", "1e234567", "00102003\n", "00 10 20 03", "٠٠١٢", "१२३४", "12३4567"} {
		if f, err := ValidatePin(s); err == nil {
			t.Errorf("accepted %q as %q", s, f)
		}
		if _, err := NewIPTransportProbe(s); s != "" && err == nil {
			t.Errorf("transport accepted %q", s)
		}
	}
}

func NewIPTransportProbe(pin string) (string, error) {
	cfg := defaultConfig("x")
	cfg.merge(Config{Pin: pin})
	return ValidatePin(cfg.Pin)
}

// all categories, all flag sets, several setup ids, boundary codes
func TestHuntURIAll(t *testing.T) {
	codes := []string{"00000001", "00102003", "99999998", "67108863", "67108864", "67108865", "13421772", "99999990", "00000010"}
	ids := []string{"HOME", "", "A", "0000", "ZZZZ", "abcd", "1A2B", "X-HM"}
	all := []util.SetupFlag{util.SetupFlagNFC, util.SetupFlagIP, util.SetupFlagBTLE, util.SetupFlagIPWAC}
	for cat := 0; cat < 256; cat++ {
		for mask := 0; mask < 16; mask++ {
			var fl []util.SetupFlag
			for i, f := range all {
				if mask&(1<<uint(i)) != 0 {
					fl = append(fl, f)
				}
			}
			for _, code := range codes {
				for _, id := range ids {
					uri, err := util.XHMURI(code, id, uint8(cat), fl)
					c, fg, ct, rest, sid, ok := huntDecode(uri)
					if err != nil || !ok || fmt.Sprintf("%08d", c) != code || fg != uint64(mask) || ct != uint64(cat) || rest != 0 || sid != id {
						t.Fatalf("cat %d mask %d code %s id %q -> %s (%v)", cat, mask, code, id, uri, err)
					}
				}
			}
		}
	}
}

package hc

import (
	"bufio"
	"bytes"
	"io"
	"net"
	"net/http"
	"os"
	"testing"
	"time"

	"github.com/brutella/hc/db"
	"github.com/brutella/hc/hap"
	"github.com/brutella/hc/hap/pair"
	"github.com/brutella/hc/util"
)

type huntConn struct {
	c net.Conn
	r *bufio.Reader
}

func huntDial(t *testing.T, port string) *huntConn {
	c, err := net.Dial("tcp", "127.0.0.1:"+port)
	if err != nil {
		t.Fatal(err)
	}
	return &huntConn{c, bufio.NewReader(c)}
}

func (h *huntConn) post(t *testing.T, path string, body io.Reader) io.Reader {
	b := new(bytes.Buffer)
	b.ReadFrom(body)
	req, _ := http.NewRequest("POST", "http://x"+path, bytes.NewReader(b.Bytes()))
	req.Header.Set("Content-Type", hap.HTTPContentTypePairingTLV8)
	if err := req.Write(h.c); err != nil {
		t.Fatal(err)
	}
	resp, err := http.ReadResponse(h.r, req)
	if err != nil {
		t.Fatal(err)
	}
	out := new(bytes.Buffer)
	out.ReadFrom(resp.Body)
	resp.Body.Close()
	return out
}

// runs pair-setup of a client with the given pin; returns true when the client got through
func huntPairSetup(t *testing.T, port, pin, name string) (ok bool) {
	defer func() {
		if r := recover(); r != nil {
			ok = false
		}
	}()
	h := huntDial(t, port)
	defer h.c.Close()
	cdb, _ := db.NewTempDatabase()
	client, _ := hap.NewDevice(name, cdb)
	cc := pair.NewSetupClientController(pin, client, cdb)
	var msg io.Reader = cc.InitialPairingRequest()
	for i := 0; i < 3; i++ {
		resp := h.post(t, "/pair-setup", msg)
		next, err := pair.HandleReaderForHandler(resp, cc)
		if err != nil {
			return false
		}
		if next == nil {
			return i == 2
		}
		msg = next
	}
	return false
}

func TestHuntE2E(t *testing.T) {
	dir := huntDir(t)
	defer os.RemoveAll(dir)
	as := huntSwitch()
	tr, err := NewIPTransport(Config{StoragePath: dir, Pin: "11122333"}, as[0])
	if err != nil {
		t.Fatal(err)
	}
	go tr.Start()
	defer func() { <-tr.Stop() }()
	// leave the probing window
	deadline := time.Now().Add(20 * time.Second)
	for tr.server == nil || tr.handle == nil {
		time.Sleep(50 * time.Millisecond)
		if time.Now().After(deadline) {
			t.Fatal("not started")
		}
	}
	time.Sleep(4 * time.Second)
	port := tr.server.Port()
	txt := func() map[string]string { return tr.handle.Service().Text }
	if txt()["sf"] != "1" {
		t.Fatalf("sf %v", txt())
	}
	id := txt()["id"]

	// wrong pin
	if huntPairSetup(t, port, "111-22-334", "bad") {
		t.Fatal("wrong pin accepted")
	}
	if txt()["sf"] != "1" {
		t.Fatalf("sf after failed pairing %v", txt())
	}
	// name of the accessory
	if huntPairSetup(t, port, "111-22-333", id) {
		t.Fatal("own name accepted")
	}
	if txt()["sf"] != "1" {
		t.Fatalf("sf after refused pairing %v", txt())
	}
	// right pin
	if !huntPairSetup(t, port, "111-22-333", "good") {
		t.Fatal("pairing failed")
	}
	if txt()["sf"] != "0" {
		t.Fatalf("sf after pairing %v", txt())
	}
	es, _ := tr.database.Entities()
	if len(es) != 2 {
		t.Fatalf("%v", es)
	}
	// unauthenticated /pairings must not unpair
	h := huntDial(t, port)
	c := util.NewTLV8Container()
	c.SetByte(pair.TagPairingMethod, pair.PairingMethodDelete.Byte())
	c.SetString(pair.TagUsername, "good")
	h.post(t, "/pairings", c.BytesBuffer())
	h.c.Close()
	if e, err := tr.database.EntityWithName("good"); err != nil || len(e.PublicKey) == 0 {
		t.Fatalf("unauthenticated removal: %v %v", e, err)
	}
	if txt()["sf"] != "0" {
		t.Fatalf("sf %v", txt())
	}

	// restart in process
	<-tr.Stop()
	tr2, err := NewIPTransport(Config{StoragePath: dir, Pin: "11122333"}, huntSwitch()[0])
	if err != nil {
		t.Fatal(err)
	}
	if tr2.config.id != id || tr2.config.discoverable || !bytes.Equal(tr2.device.PrivateKey(), tr.device.PrivateKey()) || tr2.config.version != 1 {
		t.Fatalf("%+v", tr2.config)
	}
	tr = tr2
	go tr.Start()
	time.Sleep(500 * time.Millisecond)
}

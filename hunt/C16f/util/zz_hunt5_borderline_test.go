package util

import (
	"bytes"
	"testing"
)

// BORDERLINE 1 -- clause: "bytes from BytesBuffer compared with a reference
// encoder" / "a standard TLV8 parser reassembles".
// A set with a zero-length value (length 0 is inside the quantifier "all value
// lengths 0..1024") writes no item at all. The value itself reads back as
// empty (absent and empty are indistinguishable through Get*), but the item a
// reference encoder writes (tag 00) is missing on the wire. The visible
// consequence for a standard parser: the HAP list separator (tag 0xFF, length
// 0) cannot be written, so two values of one tag that the application
// separated arrive as ONE reassembled value when the first is a multiple of
// 255 bytes long, and as two unseparated items otherwise.
func TestHunt5_EmptyValueWritesNoItem(t *testing.T) {
	c := NewTLV8Container()
	c.SetBytes(0x09, []byte{})
	if got, want := c.BytesBuffer().Bytes(), []byte{0x09, 0x00}; !bytes.Equal(got, want) {
		t.Errorf("SetBytes(9, empty): wire is % x, a reference encoder writes % x", got, want)
	}

	a := bytes.Repeat([]byte{0xAA}, 255)
	b := []byte{1, 2, 3}
	c = NewTLV8Container()
	c.SetBytes(0x01, a)
	c.SetBytes(0xFF, nil) // separator
	c.SetBytes(0x01, b)
	p, err := refParse(c.BytesBuffer().Bytes(), true)
	if err != nil {
		t.Fatal(err)
	}
	if len(p) != 3 {
		t.Errorf("standard parser sees %d value(s) (first has %d bytes), the application set 3 (255 bytes, separator, 3 bytes)", len(p), len(p[0].val))
	}
}

// BORDERLINE 2 -- clause: "Parsing arbitrary bytes ... never yields data that
// was not in the input" (sibling of repair 13c8e2b, which was made in
// tlv8/reader.go only).
// Items of one tag that are NOT consecutive are glued into one value. No item
// and no run of consecutive fragments of the input carries AA CC; a standard
// parser reports AA and CC as two values of tag 1.
func TestHunt5_NonAdjacentItemsAreGlued(t *testing.T) {
	in := []byte{0x01, 0x01, 0xAA, 0x02, 0x01, 0xBB, 0x01, 0x01, 0xCC}
	c, err := NewTLV8ContainerFromReader(bytes.NewReader(in))
	if err != nil {
		t.Fatal(err)
	}
	got := c.GetBytes(1)
	ref, _ := refParse(in, false)
	ok := false
	for _, it := range ref {
		if it.tag == 1 && bytes.Equal(it.val, got) {
			ok = true
		}
	}
	if !ok {
		t.Errorf("GetBytes(1) = % x; the values of tag 1 in the input are AA and CC (standard parser: %v)", got, ref)
	}

	// the same through the list separator
	in = []byte{0x01, 0x01, 0xAA, 0xFF, 0x00, 0x01, 0x01, 0xCC}
	c, _ = NewTLV8ContainerFromReader(bytes.NewReader(in))
	if got := c.GetBytes(1); bytes.Equal(got, []byte{0xAA, 0xCC}) {
		t.Errorf("across a separator: GetBytes(1) = % x", got)
	}
}

// BORDERLINE 3 -- the Container is documented as "a dictionary using byte
// keys and values" with Set* methods; a second set of a key does not replace
// the value, it is appended (GetBytes) / ignored (GetByte).
func TestHunt5_SecondSetDoesNotReplace(t *testing.T) {
	c := NewTLV8Container()
	c.SetByte(6, 1)
	c.SetByte(6, 2)
	if got := c.GetByte(6); got != 2 {
		t.Errorf("SetByte(6,1); SetByte(6,2); GetByte(6) = %d", got)
	}
	if got := c.GetBytes(6); !bytes.Equal(got, []byte{2}) {
		t.Errorf("GetBytes(6) = % x", got)
	}
}

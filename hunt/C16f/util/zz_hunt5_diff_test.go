package util

import (
	"bytes"
	"errors"
	"fmt"
	"io"
	"math/rand"
	"testing"
	"testing/iotest"
)

// ---- reference codec written from the property text ----

type refItem struct {
	tag byte
	val []byte
}

// reference encoder: every set becomes ceil(len/255) fragments (a value whose
// length is 0 becomes one item of length 0)
func refEncode(sets []refItem) []byte {
	var out []byte
	for _, s := range sets {
		v := s.val
		if len(v) == 0 {
			out = append(out, s.tag, 0)
			continue
		}
		for len(v) > 0 {
			n := len(v)
			if n > 255 {
				n = 255
			}
			out = append(out, s.tag, byte(n))
			out = append(out, v[:n]...)
			v = v[n:]
		}
	}
	return out
}

// standard TLV8 parser: ordered list of values; an item continues the value
// before it iff it has the same tag and the item before was 255 bytes long
// (strict) or iff it has the same tag (lenient)
func refParse(b []byte, strict bool) ([]refItem, error) {
	var out []refItem
	lastLen := -1
	for len(b) > 0 {
		if len(b) < 2 {
			return nil, errors.New("truncated header")
		}
		tag, n := b[0], int(b[1])
		b = b[2:]
		if len(b) < n {
			return nil, errors.New("truncated value")
		}
		v := b[:n]
		b = b[n:]
		if len(out) > 0 && out[len(out)-1].tag == tag && (!strict || lastLen == 255) {
			out[len(out)-1].val = append(out[len(out)-1].val, v...)
		} else {
			out = append(out, refItem{tag, append([]byte{}, v...)})
		}
		lastLen = n
	}
	return out, nil
}

func concatModel(sets []refItem) map[byte][]byte {
	m := map[byte][]byte{}
	for _, s := range sets {
		m[s.tag] = append(m[s.tag], s.val...)
	}
	return m
}

func TestHunt5ExhaustiveLengths(t *testing.T) {
	rnd := rand.New(rand.NewSource(1))
	lens := []int{}
	for i := 0; i <= 1024; i++ {
		lens = append(lens, i)
	}
	lens = append(lens, 1025, 1274, 1275, 1276, 4079, 65535, 65536, 65537, 255*300, 255*300+1, 1<<20)
	bad := 0
	for _, n := range lens {
		for _, tag := range []byte{0, 1, 6, 254, 255, byte(n)} {
			v := make([]byte, n)
			rnd.Read(v)
			c := NewTLV8Container()
			c.SetBytes(tag, v)
			enc := c.BytesBuffer().Bytes()
			want := refEncode([]refItem{{tag, v}})
			if !bytes.Equal(enc, want) {
				if bad < 5 {
					t.Errorf("len %d tag %d: encoding differs from reference: got %d bytes want %d bytes (% x... vs % x...)", n, tag, len(enc), len(want), head(enc), head(want))
				}
				bad++
			}
			p, err := refParse(enc, true)
			if err != nil {
				t.Errorf("len %d: std parser: %v", n, err)
			} else if n > 0 && (len(p) != 1 || !bytes.Equal(p[0].val, v)) {
				t.Errorf("len %d: std parser does not reassemble", n)
			}
			c2, err := NewTLV8ContainerFromReader(bytes.NewReader(enc))
			if err != nil {
				t.Errorf("len %d: reparse: %v", n, err)
				continue
			}
			if !bytes.Equal(c2.GetBytes(tag), v) || !bytes.Equal(c.GetBytes(tag), v) {
				t.Errorf("len %d: roundtrip", n)
			}
			if c2.GetString(tag) != string(v) {
				t.Errorf("len %d: roundtrip string", n)
			}
			if n > 0 && c2.GetByte(tag) != v[0] {
				t.Errorf("len %d: roundtrip byte", n)
			}
		}
	}
	if bad > 0 {
		t.Logf("%d encodings differ from reference", bad)
	}
}

func head(b []byte) []byte {
	if len(b) > 8 {
		return b[:8]
	}
	return b
}

func TestHunt5RandomHistories(t *testing.T) {
	diffEnc, diffStd := 0, 0
	for seed := int64(0); seed < 3000; seed++ {
		rnd := rand.New(rand.NewSource(seed))
		c := NewTLV8Container()
		var sets []refItem
		steps := 1 + rnd.Intn(30)
		ntags := 1 + rnd.Intn(4)
		for i := 0; i < steps; i++ {
			tag := byte(rnd.Intn(ntags))
			if rnd.Intn(10) == 0 {
				tag = byte(rnd.Intn(256))
			}
			var n int
			switch rnd.Intn(8) {
			case 0:
				n = 0
			case 1:
				n = 255
			case 2:
				n = 256
			case 3:
				n = 510
			case 4:
				n = 254
			case 5:
				n = rnd.Intn(1100)
			default:
				n = rnd.Intn(20)
			}
			v := make([]byte, n)
			rnd.Read(v)
			orig := append([]byte{}, v...)
			switch rnd.Intn(3) {
			case 0:
				c.SetBytes(tag, v)
			case 1:
				c.SetString(tag, string(v))
			case 2:
				if n == 1 {
					c.SetByte(tag, v[0])
				} else {
					c.SetBytes(tag, v)
				}
			}
			// mutate the caller's slice afterwards: must not change the container
			for j := range v {
				v[j] ^= 0xff
			}
			sets = append(sets, refItem{tag, orig})

			model := concatModel(sets)
			enc := c.BytesBuffer().Bytes()
			c2, err := NewTLV8ContainerFromReader(iotest.OneByteReader(bytes.NewReader(enc)))
			if err != nil {
				t.Fatalf("seed %d step %d: reparse %v", seed, i, err)
			}
			for tg := 0; tg < 256; tg++ {
				a, b := c.GetBytes(byte(tg)), c2.GetBytes(byte(tg))
				if !bytes.Equal(a, b) {
					t.Fatalf("seed %d step %d tag %d: roundtrip differs", seed, i, tg)
				}
				if !bytes.Equal(a, model[byte(tg)]) {
					t.Fatalf("seed %d step %d tag %d: differs from concat model", seed, i, tg)
				}
				// mutate what we got: must not change the container
				for j := range a {
					a[j] ^= 0x55
				}
				if !bytes.Equal(c.GetBytes(byte(tg)), model[byte(tg)]) {
					t.Fatalf("seed %d: Get result aliases container", seed)
				}
			}
			if !bytes.Equal(enc, refEncode(sets)) {
				diffEnc++
			}
			// what a standard parser sees vs. what was set (set by set)
			p, err := refParse(enc, false)
			if err != nil {
				t.Fatalf("std parse: %v", err)
			}
			_ = p
		}
		_ = diffStd
	}
	t.Logf("histories whose encoding differs from reference: %d steps", diffEnc)
}

type flakyReader struct {
	r   io.Reader
	rnd *rand.Rand
}

func (f *flakyReader) Read(p []byte) (int, error) {
	if len(p) == 0 {
		return 0, nil
	}
	switch f.rnd.Intn(4) {
	case 0:
		return 0, nil
	case 1:
		return f.r.Read(p[:1])
	}
	return f.r.Read(p)
}

func TestHunt5ParserArbitraryBytes(t *testing.T) {
	rnd := rand.New(rand.NewSource(7))
	mism := 0
	for i := 0; i < 200000; i++ {
		n := rnd.Intn(40)
		if i%50 == 0 {
			n = rnd.Intn(2000)
		}
		b := make([]byte, n)
		rnd.Read(b)
		// bias lengths so that many inputs are well-formed
		if i%2 == 0 {
			b = b[:0]
			for k := rnd.Intn(6); k > 0; k-- {
				l := rnd.Intn(6)
				if rnd.Intn(5) == 0 {
					l = 250 + rnd.Intn(6)
				}
				v := make([]byte, l)
				rnd.Read(v)
				b = append(b, byte(rnd.Intn(3)), byte(l))
				b = append(b, v...)
			}
			if rnd.Intn(3) == 0 && len(b) > 0 {
				b = b[:rnd.Intn(len(b))]
			}
		}
		var rd io.Reader = bytes.NewReader(b)
		switch i % 5 {
		case 1:
			rd = iotest.OneByteReader(rd)
		case 2:
			rd = iotest.DataErrReader(rd)
		case 3:
			rd = iotest.HalfReader(rd)
		case 4:
			rd = &flakyReader{rd, rnd}
		}
		var c Container
		var err error
		func() {
			defer func() {
				if r := recover(); r != nil {
					t.Fatalf("panic on % x: %v", b, r)
				}
			}()
			c, err = NewTLV8ContainerFromReader(rd)
		}()
		ref, rerr := refParse(b, false)
		if (err == nil) != (rerr == nil) {
			t.Fatalf("input % x: hc err=%v ref err=%v", b, err, rerr)
		}
		if err != nil {
			if c != nil {
				t.Fatalf("container and error")
			}
			continue
		}
		if !bytes.Equal(c.BytesBuffer().Bytes(), b) {
			t.Fatalf("re-serialisation differs for % x", b)
		}
		// compare with standard parser: for each tag, the FIRST value the standard parser reports
		first := map[byte][]byte{}
		cnt := map[byte]int{}
		for _, it := range ref {
			if cnt[it.tag] == 0 {
				first[it.tag] = it.val
			}
			cnt[it.tag]++
		}
		for tg := 0; tg < 256; tg++ {
			got := c.GetBytes(byte(tg))
			if cnt[byte(tg)] <= 1 {
				if !bytes.Equal(got, first[byte(tg)]) {
					t.Fatalf("input % x tag %d: got % x want % x", b, tg, got, first[byte(tg)])
				}
			} else {
				mism++
			}
		}
	}
	t.Logf("inputs with a tag occurring in non-adjacent items: %d", mism)
}

func TestHunt5NilAndZero(t *testing.T) {
	try := func(name string, f func()) {
		defer func() {
			if r := recover(); r != nil {
				t.Errorf("%s: panic %v", name, r)
			}
		}()
		f()
	}
	try("nil reader", func() {
		c, err := NewTLV8ContainerFromReader(nil)
		fmt.Println(c, err)
	})
	try("nil slice", func() {
		c := NewTLV8Container()
		c.SetBytes(1, nil)
		c.SetString(1, "")
		if len(c.BytesBuffer().Bytes()) != 0 {
			t.Log("nil set writes", c.BytesBuffer().Bytes())
		} else {
			t.Log("empty set writes nothing")
		}
		if c.GetByte(1) != 0 || c.GetString(1) != "" || len(c.GetBytes(1)) != 0 {
			t.Error("empty")
		}
	})
	try("empty reader", func() {
		c, err := NewTLV8ContainerFromReader(bytes.NewReader(nil))
		if err != nil || c == nil {
			t.Error("empty input", err)
		}
		c.SetByte(1, 2)
		if c.GetByte(1) != 2 {
			t.Error("set on parsed container")
		}
	})
	try("zero value struct", func() {
		var c tlv8Container
		c.SetByte(1, 2)
		if c.GetByte(1) != 2 {
			t.Error("zero struct")
		}
		_ = c.BytesBuffer()
	})
	try("errreader", func() {
		c, err := NewTLV8ContainerFromReader(iotest.ErrReader(errors.New("boom")))
		if err == nil || c != nil {
			t.Error("err reader: no error")
		}
	})
	try("timeout reader", func() {
		c, err := NewTLV8ContainerFromReader(iotest.TimeoutReader(bytes.NewReader([]byte{1, 1, 1, 2, 1, 2})))
		t.Log("timeout reader:", c, err)
	})
}

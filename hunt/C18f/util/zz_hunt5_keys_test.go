package util

import (
	"bytes"
	"os"
	"path/filepath"
	"testing"
)

func h5store(t *testing.T) (Storage, string) {
	dir := filepath.Join(os.Getenv("TMPDIR"), "h5keys-"+RandomHexString(), "store")
	st, err := NewFileStorage(dir)
	if err != nil {
		t.Fatal(err)
	}
	return st, dir
}

// Clause: "a get returns ... not-found" for a key that was never set.
// The keys "", "." and ":" (':' is stripped -> "") name the storage directory
// itself; the directory opens fine, Read fails with EISDIR, the error is
// dropped (file_storage.go:82) and Get reports "found, empty value".
func TestHunt5GetOfNeverSetKeyReportsFound(t *testing.T) {
	for _, k := range []string{"", ".", ":", "::"} {
		st, dir := h5store(t)
		b, err := st.Get(k)
		if err == nil {
			t.Errorf("Get(%q) on an empty store: err=nil value=%q, want not-found", k, b)
		}
		os.RemoveAll(filepath.Dir(dir))
	}
}

// Clause: "a get returns exactly the last value set for that key".
// Deleting a key that was never set ("", "." or ":") removes the storage
// directory when the store is empty (os.Remove of the directory,
// file_storage.go:95); from then on every Set of every key fails and the
// listing fails, until the store is reopened.
func TestHunt5DeleteOfNeverSetKeyDestroysStore(t *testing.T) {
	for _, k := range []string{"", ".", ":"} {
		st, dir := h5store(t)
		if err := st.Set("a", []byte("1")); err != nil {
			t.Fatal(err)
		}
		if err := st.Delete("a"); err != nil {
			t.Fatal(err)
		}
		derr := st.Delete(k) // never set: must have no effect on other keys
		if err := st.Set("a", []byte("2")); err != nil {
			t.Errorf("after Delete(%q) (returned %v): Set(\"a\") fails: %v", k, derr, err)
		} else if b, err := st.Get("a"); err != nil || !bytes.Equal(b, []byte("2")) {
			t.Errorf("after Delete(%q): Get(\"a\") = %q, %v", k, b, err)
		}
		if _, err := st.KeysWithSuffix(""); err != nil {
			t.Errorf("after Delete(%q): KeysWithSuffix fails: %v", k, err)
		}
		os.RemoveAll(filepath.Dir(dir))
	}
}

// Clause: "not-found" for a key never set / "listing returns exactly the live entries".
// Keys are joined to the directory with filepath.Join, which cleans the path:
// "a/", "./a", "/a", "x/../a" all are the file of "a"; "../x" is a file
// outside the storage directory (never listed, survives removal of the store).
// Same family as the known ':' collision, shown for completeness.
func TestHunt5KeysWithSeparators(t *testing.T) {
	st, dir := h5store(t)
	defer os.RemoveAll(filepath.Dir(dir))
	if err := st.Set("a/", []byte("1")); err != nil {
		t.Logf("the key is refused: %v", err) // an honest answer: nothing was set
		return
	}
	for _, k := range []string{"a", "./a", "/a", "x/../a"} {
		if b, err := st.Get(k); err == nil {
			t.Errorf("only \"a/\" was set, Get(%q) = %q, want not-found", k, b)
		}
	}
	if err := st.Set("../x", []byte("2")); err != nil {
		t.Fatal(err)
	}
	ks, _ := st.KeysWithSuffix("")
	t.Logf("live keys: \"a/\", \"../x\"; listing: %q", ks)
	if len(ks) != 2 {
		t.Errorf("listing has %d keys, 2 are live (Get(\"../x\") finds its value)", len(ks))
	}
	if _, err := os.Stat(filepath.Join(filepath.Dir(dir), "x")); err == nil {
		t.Errorf("Set(\"../x\") wrote %s, outside the storage directory", filepath.Join(filepath.Dir(dir), "x"))
	}
}

package util

import (
	"bytes"
	"fmt"
	"math/rand"
	"os"
	"path/filepath"
	"sort"
	"strings"
	"testing"
)

// differential run: file storage against a map
func hunt5Diff(t *testing.T, seed int64, steps int, keys []string, suffixes []string) (fail string) {
	dir := filepath.Join(os.Getenv("TMPDIR"), fmt.Sprintf("h5diff-%d-%s", seed, RandomHexString()))
	defer os.RemoveAll(dir)
	st, err := NewFileStorage(dir)
	if err != nil {
		t.Fatal(err)
	}
	r := rand.New(rand.NewSource(seed))
	model := map[string][]byte{}
	var hist []string
	lens := []int{0, 1, 2, 31, 32, 33, 63, 64, 65, 254, 255, 256, 1023, 1024, 1025, 4095, 4096}
	for i := 0; i < steps; i++ {
		k := keys[r.Intn(len(keys))]
		switch op := r.Intn(10); {
		case op < 3:
			var n int
			if r.Intn(2) == 0 {
				n = lens[r.Intn(len(lens))]
			} else {
				n = r.Intn(4097)
			}
			v := make([]byte, n)
			r.Read(v)
			hist = append(hist, fmt.Sprintf("Set(%q,len %d)", k, n))
			if err := st.Set(k, v); err != nil {
				return fmt.Sprintf("%v: Set error %v", h5tail(hist), err)
			}
			model[k] = v
		case op < 6:
			hist = append(hist, fmt.Sprintf("Get(%q)", k))
			b, err := st.Get(k)
			want, ok := model[k]
			if ok {
				if err != nil || !bytes.Equal(b, want) {
					return fmt.Sprintf("%v: Get live: err=%v len=%d want len=%d", h5tail(hist), err, len(b), len(want))
				}
			} else if err == nil {
				return fmt.Sprintf("%v: Get of absent key: err=nil len=%d", h5tail(hist), len(b))
			}
		case op < 7:
			hist = append(hist, fmt.Sprintf("Delete(%q)", k))
			err := st.Delete(k)
			_, ok := model[k]
			if ok && err != nil {
				return fmt.Sprintf("%v: Delete live: %v", h5tail(hist), err)
			}
			delete(model, k)
		case op < 9:
			s := suffixes[r.Intn(len(suffixes))]
			hist = append(hist, fmt.Sprintf("KeysWithSuffix(%q)", s))
			got, err := st.KeysWithSuffix(s)
			if err != nil {
				return fmt.Sprintf("%v: list: %v", h5tail(hist), err)
			}
			var want []string
			for mk := range model {
				if strings.HasSuffix(mk, s) {
					want = append(want, mk)
				}
			}
			sort.Strings(want)
			sort.Strings(got)
			if fmt.Sprint(got) != fmt.Sprint(want) {
				return fmt.Sprintf("%v: list got %q want %q", h5tail(hist), got, want)
			}
		default:
			hist = append(hist, "reopen")
			st, err = NewFileStorage(dir)
			if err != nil {
				t.Fatal(err)
			}
		}
	}
	return ""
}

func TestHunt5DiffClean(t *testing.T) {
	keys := []string{"a", "b", "uuid", "version", "configHash", "x.serial", "61.entity", "6162.entity", ".entity", "A", "a.tmp", "k.tmp",
		"My Lamp.serial", "a b", "ä", "-", "_", "~", "a.", ".a", "...", " ", "a ", strings.Repeat("k", 255), "%41", "a\\b", "*", "?", "\n", "\xff\xfe", "\t"}
	suff := []string{"", ".entity", ".serial", ".tmp", "a", "tmp", "y", ".", " "}
	for seed := int64(1); seed <= 60; seed++ {
		if f := hunt5Diff(t, seed, 3000, keys, suff); f != "" {
			t.Errorf("seed %d: %s", seed, f)
		}
	}
}

func TestHunt5DiffWeird(t *testing.T) {
	keys := []string{"", ".", "..", "a/", "/a", "a/b", "./a", "a", "b", "a/../b", "../x", "a\x00b", strings.Repeat("k", 256), "b/."}
	suff := []string{"", "a", "b", "/", "."}
	seen := map[string]bool{}
	for seed := int64(1); seed <= 200; seed++ {
		if f := hunt5Diff(t, seed, 300, keys, suff); f != "" {
			// print distinct last ops
			i := strings.LastIndex(f, "]:")
			tail := f[i:]
			if !seen[tail] && len(seen) < 40 {
				seen[tail] = true
				t.Logf("seed %d: %s", seed, f)
			}
		}
	}
}

func h5tail(h []string) []string {
	if len(h) > 6 {
		return h[len(h)-6:]
	}
	return h
}

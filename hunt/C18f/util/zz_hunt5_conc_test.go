package util

import (
	"bytes"
	"fmt"
	"os"
	"path/filepath"
	"sync"
	"sync/atomic"
	"testing"
)

// Probe: one writer overwriting key "k", a reader listing all keys.
// Property clause: "listing returns exactly the live entries".
func TestHunt5ListingDuringSet(t *testing.T) {
	dir := filepath.Join(os.Getenv("TMPDIR"), "h5conc-"+RandomHexString())
	defer os.RemoveAll(dir)
	st, _ := NewFileStorage(dir)
	st.Set("k", []byte("v"))
	var stop int32
	var wg sync.WaitGroup
	wg.Add(1)
	go func() {
		defer wg.Done()
		v := make([]byte, 4096)
		for atomic.LoadInt32(&stop) == 0 {
			if err := st.Set("k", v); err != nil {
				t.Error(err)
				return
			}
		}
	}()
	bad := 0
	var example []string
	const N = 20000
	for i := 0; i < N; i++ {
		ks, err := st.KeysWithSuffix("")
		if err != nil {
			t.Fatal(err)
		}
		if len(ks) != 1 || ks[0] != "k" {
			bad++
			if example == nil {
				example = ks
			}
		}
	}
	atomic.StoreInt32(&stop, 1)
	wg.Wait()
	if bad > 0 {
		t.Errorf("%d of %d listings differ from [k], e.g. %q", bad, N, example)
	}
}

// Probe: concurrent Set of two values + Get: Get must always return one of them; race detector.
func TestHunt5ConcurrentSetGet(t *testing.T) {
	dir := filepath.Join(os.Getenv("TMPDIR"), "h5conc-"+RandomHexString())
	defer os.RemoveAll(dir)
	st, _ := NewFileStorage(dir)
	a := bytes.Repeat([]byte("a"), 4096)
	b := bytes.Repeat([]byte("b"), 3)
	st.Set("k", a)
	var stop int32
	var wg sync.WaitGroup
	for _, v := range [][]byte{a, b} {
		v := v
		wg.Add(1)
		go func() {
			defer wg.Done()
			for atomic.LoadInt32(&stop) == 0 {
				if err := st.Set("k", v); err != nil {
					t.Error(err)
					return
				}
			}
		}()
	}
	st2, _ := NewFileStorage(dir)
	for i := 0; i < 20000; i++ {
		s := st
		if i%2 == 0 {
			s = st2
		}
		g, err := s.Get("k")
		if err != nil || !(bytes.Equal(g, a) || bytes.Equal(g, b)) {
			t.Errorf("get: err=%v len=%d", err, len(g))
			break
		}
	}
	atomic.StoreInt32(&stop, 1)
	wg.Wait()
	ks, _ := st.KeysWithSuffix("")
	if fmt.Sprint(ks) != "[k]" {
		t.Errorf("after: %q", ks)
	}
}

package db

import (
	"bytes"
	"fmt"
	"math/rand"
	"os"
	"path/filepath"
	"sort"
	"testing"

	"github.com/brutella/hc/util"
)

func h5tail(h []string) []string {
	if len(h) > 6 {
		return h[len(h)-6:]
	}
	return h
}

func hunt5DBDiff(t *testing.T, seed int64, steps int, mixStorage bool) string {
	dir := filepath.Join(os.Getenv("TMPDIR"), fmt.Sprintf("h5db-%d-%s", seed, util.RandomHexString()))
	defer os.RemoveAll(dir)
	d, err := NewDatabase(dir)
	if err != nil {
		t.Fatal(err)
	}
	r := rand.New(rand.NewSource(seed))
	// pool of names
	var names []string
	names = append(names, "", "a", "A", "\x00", "\xff", "a\x00", "My Name", "uuid", ".entity", "61", "6", "a.entity", "/", "..", ":", "a:b", "ab")
	for i := 0; i < 12; i++ {
		n := r.Intn(101)
		if i < 3 {
			n = 100
		}
		b := make([]byte, n)
		r.Read(b)
		names = append(names, string(b))
	}
	model := map[string]Entity{}
	var hist []string
	rb := func() []byte {
		switch r.Intn(6) {
		case 0:
			return nil
		case 1:
			return []byte{}
		case 2:
			b := make([]byte, r.Intn(4097))
			r.Read(b)
			return b
		default:
			b := make([]byte, 32*(1+r.Intn(2)))
			r.Read(b)
			return b
		}
	}
	skeys := []string{"uuid", "version", "configHash", "x.serial"}
	var st util.Storage
	if mixStorage {
		st, _ = util.NewFileStorage(dir)
	}
	for i := 0; i < steps; i++ {
		n := names[r.Intn(len(names))]
		switch op := r.Intn(11); {
		case op < 3:
			e := NewEntity(n, rb(), rb())
			hist = append(hist, fmt.Sprintf("Save(%q,%d,%d)", n, len(e.PublicKey), len(e.PrivateKey)))
			if err := d.SaveEntity(e); err != nil {
				return fmt.Sprintf("%v: save: %v", h5tail(hist), err)
			}
			model[n] = e
		case op < 6:
			hist = append(hist, fmt.Sprintf("Get(%q)", n))
			e, err := d.EntityWithName(n)
			want, ok := model[n]
			if ok {
				if err != nil || e.Name != want.Name || !bytes.Equal(e.PublicKey, want.PublicKey) || !bytes.Equal(e.PrivateKey, want.PrivateKey) {
					return fmt.Sprintf("%v: get live: err=%v name=%q", h5tail(hist), err, e.Name)
				}
			} else if err == nil {
				return fmt.Sprintf("%v: get absent: err=nil %q", h5tail(hist), e.Name)
			}
		case op < 7:
			hist = append(hist, fmt.Sprintf("Delete(%q)", n))
			d.DeleteEntity(Entity{Name: n})
			delete(model, n)
		case op < 9:
			hist = append(hist, "Entities")
			es, err := d.Entities()
			if err != nil {
				return fmt.Sprintf("%v: entities: %v", h5tail(hist), err)
			}
			var got, want []string
			for _, e := range es {
				got = append(got, fmt.Sprintf("%q|%x|%x", e.Name, e.PublicKey, e.PrivateKey))
			}
			for _, e := range model {
				want = append(want, fmt.Sprintf("%q|%x|%x", e.Name, e.PublicKey, e.PrivateKey))
			}
			sort.Strings(got)
			sort.Strings(want)
			if fmt.Sprint(got) != fmt.Sprint(want) {
				return fmt.Sprintf("%v: entities got %d want %d", h5tail(hist), len(got), len(want))
			}
		case op < 10:
			hist = append(hist, "reopen")
			d, err = NewDatabase(dir)
			if err != nil {
				t.Fatal(err)
			}
		default:
			if st != nil {
				k := skeys[r.Intn(len(skeys))]
				hist = append(hist, fmt.Sprintf("storage.Set(%q)", k))
				b := make([]byte, r.Intn(100))
				st.Set(k, b)
			}
		}
	}
	return ""
}

func TestHunt5DBDiff(t *testing.T) {
	for seed := int64(1); seed <= 40; seed++ {
		if f := hunt5DBDiff(t, seed, 1500, seed%2 == 0); f != "" {
			t.Errorf("seed %d: %s", seed, f)
		}
	}
}

package db

import (
	"bytes"
	"os"
	"path/filepath"
	"sync"
	"sync/atomic"
	"testing"

	"github.com/brutella/hc/util"
)

// Probe (found nothing): writers overwrite entities with long / short keys, no deletes;
// readers through a second Database on the same directory must always see all entities
// with one of the written values.
func TestHunt5DBConcurrentOverwrite(t *testing.T) {
	dir := filepath.Join(os.Getenv("TMPDIR"), "h5dbconc-"+util.RandomHexString())
	defer os.RemoveAll(dir)
	d, _ := NewDatabase(dir)
	d2, _ := NewDatabase(dir)
	names := []string{"", "a", "\xff\x00", string(bytes.Repeat([]byte{0xfe}, 100))}
	long := bytes.Repeat([]byte{1}, 4096)
	short := []byte{2}
	for _, n := range names {
		d.SaveEntity(NewEntity(n, long, nil))
	}
	var stop int32
	var wg sync.WaitGroup
	for w := 0; w < 2; w++ {
		w := w
		wg.Add(1)
		go func() {
			defer wg.Done()
			for i := 0; atomic.LoadInt32(&stop) == 0; i++ {
				v := long
				if (i+w)%2 == 0 {
					v = short
				}
				if err := d.SaveEntity(NewEntity(names[i%len(names)], v, nil)); err != nil {
					t.Error(err)
					return
				}
			}
		}()
	}
	for i := 0; i < 5000; i++ {
		es, err := d2.Entities()
		if err != nil || len(es) != len(names) {
			t.Errorf("entities: %v, %d", err, len(es))
			break
		}
		for _, e := range es {
			if !bytes.Equal(e.PublicKey, long) && !bytes.Equal(e.PublicKey, short) {
				t.Errorf("entity %q has a key of %d bytes", e.Name, len(e.PublicKey))
			}
		}
		e, err := d2.EntityWithName(names[i%len(names)])
		if err != nil || e.Name != names[i%len(names)] {
			t.Errorf("get: %v %q", err, e.Name)
			break
		}
	}
	atomic.StoreInt32(&stop, 1)
	wg.Wait()
}

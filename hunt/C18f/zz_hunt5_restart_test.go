package hc

import (
	"bytes"
	"os"
	"path/filepath"
	"testing"

	"github.com/brutella/hc/accessory"
	"github.com/brutella/hc/db"
	"github.com/brutella/hc/util"
)

// Probe (found nothing): restart on the same storage keeps id, key pair, pairings.
func TestHunt5RestartSameStorage(t *testing.T) {
	dir := filepath.Join(os.Getenv("TMPDIR"), "h5restart-"+util.RandomHexString())
	defer os.RemoveAll(dir)
	for _, name := range []string{"Lamp", "Lämp/1:2", "..", "a.entity"} {
		sub := filepath.Join(dir, util.RandomHexString())
		mk := func() *ipTransport {
			a := accessory.NewSwitch(accessory.Info{Name: name})
			tr, err := NewIPTransport(Config{StoragePath: sub}, a.Accessory)
			if err != nil {
				t.Fatal(err)
			}
			return tr
		}
		t1 := mk()
		id1 := t1.config.id
		pk1 := t1.device.PublicKey()
		if t1.isPaired() {
			t.Errorf("%q: fresh transport is paired", name)
		}
		t1.database.SaveEntity(db.NewEntity("ctrl\xff", []byte{1, 2, 3}, nil))
		t2 := mk()
		if t2.config.id != id1 || !bytes.Equal(t2.device.PublicKey(), pk1) {
			t.Errorf("%q: id %q -> %q, key changed %v", name, id1, t2.config.id, !bytes.Equal(t2.device.PublicKey(), pk1))
		}
		if !t2.isPaired() || t2.config.discoverable {
			t.Errorf("%q: pairing lost over restart", name)
		}
		t2.database.DeleteEntity(db.NewEntity("ctrl\xff", nil, nil))
		t3 := mk()
		if t3.isPaired() || t3.config.id != id1 {
			t.Errorf("%q: deleted pairing is back / id changed", name)
		}
		ks, _ := t3.storage.KeysWithSuffix("")
		t.Logf("%q: keys %q", name, ks)
	}
}

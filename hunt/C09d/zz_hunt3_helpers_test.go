package hc_test

import (
	"bytes"
	"encoding/json"
	"strconv"
	"strings"
)

var trickyStrings = []string{
	"",
	"plain",
	`quote " backslash \ slash /`,
	"<script>alert('x')&amp;</script>",
	"line\nfeed\ttab\rcr\x00nul\x1f",
	"   separators",
	"non-BMP 😀𝄞𐍈 runes",
	"ünïcödé 日本語 עברית",
	"\\u0041 looks like an escape",
	"null", "true", "12", "1e3", "0x10", " leading and trailing ",
	strings.Repeat("long-", 1000),
	strings.Repeat("😀", 700),
}

func toJSON(v interface{}) string {
	switch x := v.(type) {
	case float64:
		return strconv.FormatFloat(x, 'g', -1, 64)
	case string:
		var buf bytes.Buffer
		enc := json.NewEncoder(&buf)
		enc.SetEscapeHTML(false)
		enc.Encode(x)
		return strings.TrimSpace(buf.String())
	}
	b, _ := json.Marshal(v)
	return string(b)
}

// sameValue compares the raw JSON a controller received with the go value
func sameValue(raw json.RawMessage, v interface{}) bool {
	if raw == nil {
		return false
	}
	switch x := v.(type) {
	case bool:
		return string(raw) == strconv.FormatBool(x)
	case int64:
		n, err := strconv.ParseInt(string(raw), 10, 64)
		return err == nil && n == x
	case int:
		n, err := strconv.ParseInt(string(raw), 10, 64)
		return err == nil && n == int64(x)
	case float64:
		f, err := strconv.ParseFloat(string(raw), 64)
		return err == nil && f == x
	case string:
		var s string
		if err := json.Unmarshal(raw, &s); err != nil {
			return false
		}
		return s == x
	}
	return false
}

func rawStr(r *json.RawMessage) string {
	if r == nil {
		return "<absent>"
	}
	return trunc([]byte(*r))
}

package hc_test

// Reference HAP controller used by the hunt-3 probes of property C09.
// It speaks pair-verify, then the framed chacha20-poly1305 session, by itself
// (only the primitive ciphers of the library are shared).

import (
	"bufio"
	"bytes"
	"encoding/binary"
	"encoding/json"
	"fmt"
	"io"
	"io/ioutil"
	"net"
	gohttp "net/http"
	"strings"
	"testing"
	"time"

	"github.com/brutella/hc"
	"github.com/brutella/hc/accessory"
	"github.com/brutella/hc/crypto"
	"github.com/brutella/hc/crypto/chacha20poly1305"
	"github.com/brutella/hc/crypto/curve25519"
	"github.com/brutella/hc/crypto/hkdf"
	"github.com/brutella/hc/db"
	"github.com/brutella/hc/log"
)

var _ = log.Debug

type rig struct {
	t        testing.TB
	port     string
	tr       hc.Transport
	ctrlName string
	ctrlPub  []byte
	ctrlPriv []byte
}

var nextPort = 35100

func newRig(t testing.TB, accs ...*accessory.Accessory) *rig {
	dir := t.TempDir()
	database, err := db.NewDatabase(dir)
	if err != nil {
		t.Fatal(err)
	}
	r := &rig{t: t}
	r.ctrlName = "hunt-controller"
	r.ctrlPub, r.ctrlPriv, err = crypto.ED25519GenerateKey("hunt-controller-seed-0123456789abcdef")
	if err != nil {
		t.Fatal(err)
	}
	if err := database.SaveEntity(db.NewEntity(r.ctrlName, r.ctrlPub, nil)); err != nil {
		t.Fatal(err)
	}
	nextPort++
	r.port = fmt.Sprint(nextPort)
	tr, err := hc.NewIPTransport(hc.Config{StoragePath: dir, Port: r.port}, accs[0], accs[1:]...)
	if err != nil {
		t.Fatal(err)
	}
	r.tr = tr
	go tr.Start()
	for i := 0; i < 100; i++ {
		c, err := net.Dial("tcp", "127.0.0.1:"+r.port)
		if err == nil {
			c.Close()
			break
		}
		time.Sleep(20 * time.Millisecond)
	}
	return r
}

func (r *rig) close() {
	select {
	case <-r.tr.Stop():
	case <-time.After(3 * time.Second):
	}
}

// ---- tlv8 (reference) ----

func tlvPut(buf *bytes.Buffer, tag byte, val []byte) {
	if len(val) == 0 {
		buf.Write([]byte{tag, 0})
		return
	}
	for len(val) > 0 {
		n := len(val)
		if n > 255 {
			n = 255
		}
		buf.WriteByte(tag)
		buf.WriteByte(byte(n))
		buf.Write(val[:n])
		val = val[n:]
	}
}

func tlvParse(b []byte) map[byte][]byte {
	m := map[byte][]byte{}
	for len(b) >= 2 {
		tag, n := b[0], int(b[1])
		if len(b) < 2+n {
			break
		}
		m[tag] = append(m[tag], b[2:2+n]...)
		b = b[2+n:]
	}
	return m
}

// ---- controller ----

type ctrl struct {
	t    testing.TB
	conn net.Conn
	raw  *bufio.Reader // plain bytes from the socket

	encKey, decKey [32]byte
	encCnt, decCnt uint64
	secure         bool

	plain *bufio.Reader // decrypted stream

	// frameSizes cycles through the sizes used for outgoing frames (default 1024)
	frameSizes []int
	// segment: if > 0 the encrypted bytes are written to the socket in pieces of this size
	segment int
}

type frameReader struct {
	c       *ctrl
	pending []byte
}

func (f *frameReader) Read(p []byte) (int, error) {
	c := f.c
	if len(f.pending) > 0 {
		n := copy(p, f.pending)
		f.pending = f.pending[n:]
		return n, nil
	}
	var hdr [2]byte
	if _, err := io.ReadFull(c.raw, hdr[:]); err != nil {
		return 0, err
	}
	n := int(binary.LittleEndian.Uint16(hdr[:]))
	body := make([]byte, n+16)
	if _, err := io.ReadFull(c.raw, body); err != nil {
		return 0, err
	}
	var mac [16]byte
	copy(mac[:], body[n:])
	var nonce [8]byte
	binary.LittleEndian.PutUint64(nonce[:], c.decCnt)
	c.decCnt++
	dec, err := chacha20poly1305.DecryptAndVerify(c.decKey[:], nonce[:], body[:n], mac, hdr[:])
	if err != nil {
		return 0, fmt.Errorf("reference controller: frame %d does not authenticate: %v", c.decCnt-1, err)
	}
	n = copy(p, dec)
	f.pending = dec[n:]
	return n, nil
}

func (r *rig) dial() *ctrl {
	conn, err := net.Dial("tcp", "127.0.0.1:"+r.port)
	if err != nil {
		r.t.Fatal(err)
	}
	c := &ctrl{t: r.t, conn: conn}
	c.raw = bufio.NewReaderSize(conn, 1<<16)
	return c
}

// verified returns a controller connection after a complete pair-verify.
func (r *rig) verified() *ctrl {
	c := r.dial()
	priv := curve25519.GeneratePrivateKey()
	pub := curve25519.PublicKey(priv)

	var m1 bytes.Buffer
	tlvPut(&m1, 0x06, []byte{1})
	tlvPut(&m1, 0x03, pub[:])
	status, body := c.plainPost("/pair-verify", m1.Bytes())
	if status != 200 {
		r.t.Fatalf("M2 status %d", status)
	}
	m2 := tlvParse(body)
	if len(m2[0x03]) != 32 {
		r.t.Fatalf("M2 without public key: %x", body)
	}
	var spub [32]byte
	copy(spub[:], m2[0x03])
	shared := curve25519.SharedSecret(priv, spub)
	ek, _ := hkdf.Sha512(shared[:], []byte("Pair-Verify-Encrypt-Salt"), []byte("Pair-Verify-Encrypt-Info"))

	var material []byte
	material = append(material, pub[:]...)
	material = append(material, r.ctrlName...)
	material = append(material, spub[:]...)
	sig, err := crypto.ED25519Signature(r.ctrlPriv, material)
	if err != nil {
		r.t.Fatal(err)
	}
	var sub bytes.Buffer
	tlvPut(&sub, 0x01, []byte(r.ctrlName))
	tlvPut(&sub, 0x0A, sig)
	enc, mac, _ := chacha20poly1305.EncryptAndSeal(ek[:], []byte("PV-Msg03"), sub.Bytes(), nil)
	var m3 bytes.Buffer
	tlvPut(&m3, 0x06, []byte{3})
	tlvPut(&m3, 0x05, append(enc, mac[:]...))

	c.encKey, _ = hkdf.Sha512(shared[:], []byte("Control-Salt"), []byte("Control-Write-Encryption-Key"))
	c.decKey, _ = hkdf.Sha512(shared[:], []byte("Control-Salt"), []byte("Control-Read-Encryption-Key"))

	c.plainSend("/pair-verify", m3.Bytes())
	// known defect (not reported here): M4 is sometimes sent encrypted. Accept both.
	peek, err := c.raw.Peek(4)
	if err != nil {
		r.t.Fatal(err)
	}
	c.plain = bufio.NewReaderSize(&frameReader{c: c}, 1<<16)
	var resp *gohttp.Response
	if string(peek) == "HTTP" {
		resp, err = gohttp.ReadResponse(c.raw, nil)
	} else {
		resp, err = gohttp.ReadResponse(c.plain, nil)
	}
	if err != nil {
		r.t.Fatal(err)
	}
	b, _ := ioutil.ReadAll(resp.Body)
	resp.Body.Close()
	m4 := tlvParse(b)
	if resp.StatusCode != 200 || len(m4[0x07]) != 0 {
		r.t.Fatalf("M4 status %d body %x", resp.StatusCode, b)
	}
	c.secure = true
	return c
}

func (c *ctrl) plainSend(path string, body []byte) {
	req := fmt.Sprintf("POST %s HTTP/1.1\r\nHost: hunt.local\r\nContent-Type: application/pairing+tlv8\r\nContent-Length: %d\r\n\r\n", path, len(body))
	if _, err := c.conn.Write(append([]byte(req), body...)); err != nil {
		c.t.Fatal(err)
	}
}

func (c *ctrl) plainPost(path string, body []byte) (int, []byte) {
	c.plainSend(path, body)
	resp, err := gohttp.ReadResponse(c.raw, nil)
	if err != nil {
		c.t.Fatal(err)
	}
	b, _ := ioutil.ReadAll(resp.Body)
	resp.Body.Close()
	return resp.StatusCode, b
}

// send encrypts and writes raw request bytes
func (c *ctrl) send(raw []byte) {
	var out bytes.Buffer
	i := 0
	for len(raw) > 0 {
		n := 1024
		if len(c.frameSizes) > 0 {
			n = c.frameSizes[i%len(c.frameSizes)]
			i++
		}
		if n > len(raw) {
			n = len(raw)
		}
		var hdr [2]byte
		binary.LittleEndian.PutUint16(hdr[:], uint16(n))
		var nonce [8]byte
		binary.LittleEndian.PutUint64(nonce[:], c.encCnt)
		c.encCnt++
		enc, mac, err := chacha20poly1305.EncryptAndSeal(c.encKey[:], nonce[:], raw[:n], hdr[:])
		if err != nil {
			c.t.Fatal(err)
		}
		out.Write(hdr[:])
		out.Write(enc)
		out.Write(mac[:])
		raw = raw[n:]
	}
	b := out.Bytes()
	if c.segment <= 0 {
		if _, err := c.conn.Write(b); err != nil {
			c.t.Fatal(err)
		}
		return
	}
	for len(b) > 0 {
		n := c.segment
		if n > len(b) {
			n = len(b)
		}
		if _, err := c.conn.Write(b[:n]); err != nil {
			c.t.Fatal(err)
		}
		b = b[n:]
		time.Sleep(200 * time.Microsecond)
	}
}

type answer struct {
	Status int
	Header gohttp.Header
	Body   []byte
}

func (c *ctrl) roundTrip(raw []byte) answer {
	c.conn.SetDeadline(time.Now().Add(20 * time.Second))
	c.send(raw)
	resp, err := gohttp.ReadResponse(c.plain, nil)
	if err != nil {
		c.t.Fatalf("reading response: %v", err)
	}
	b, err := ioutil.ReadAll(resp.Body)
	if err != nil {
		c.t.Fatalf("reading response body: %v", err)
	}
	resp.Body.Close()
	return answer{resp.StatusCode, resp.Header, b}
}

func (c *ctrl) get(path string) answer {
	return c.roundTrip([]byte("GET " + path + " HTTP/1.1\r\nHost: hunt.local\r\n\r\n"))
}

func (c *ctrl) put(path string, body []byte) answer {
	req := fmt.Sprintf("PUT %s HTTP/1.1\r\nHost: hunt.local\r\nContent-Type: application/hap+json\r\nContent-Length: %d\r\n\r\n", path, len(body))
	return c.roundTrip(append([]byte(req), body...))
}

// ---- reference decoding ----

type rEntry struct {
	Aid    uint64           `json:"aid"`
	Iid    uint64           `json:"iid"`
	Value  *json.RawMessage `json:"value"`
	Status *int             `json:"status"`
}

type rChars struct {
	Characteristics []rEntry `json:"characteristics"`
}

func decodeChars(t testing.TB, b []byte) rChars {
	var rc rChars
	dec := json.NewDecoder(bytes.NewReader(b))
	if err := dec.Decode(&rc); err != nil {
		t.Fatalf("response body is not JSON: %v\n%s", err, trunc(b))
	}
	return rc
}

func trunc(b []byte) string {
	if len(b) > 400 {
		return string(b[:400]) + "..."
	}
	return string(b)
}

func ids(pairs ...[2]uint64) string {
	var s []string
	for _, p := range pairs {
		s = append(s, fmt.Sprintf("%d.%d", p[0], p[1]))
	}
	return strings.Join(s, ",")
}

// readOne reads a single characteristic and returns the raw JSON of its value
func (c *ctrl) readOne(aid, iid uint64) (json.RawMessage, *int, int) {
	a := c.get(fmt.Sprintf("/characteristics?id=%d.%d", aid, iid))
	rc := decodeChars(c.t, a.Body)
	if len(rc.Characteristics) != 1 {
		c.t.Fatalf("one id asked, %d entries answered: %s", len(rc.Characteristics), trunc(a.Body))
	}
	e := rc.Characteristics[0]
	if e.Aid != aid || e.Iid != iid {
		c.t.Fatalf("asked %d.%d, answered %d.%d", aid, iid, e.Aid, e.Iid)
	}
	if e.Value == nil {
		return nil, e.Status, a.Status
	}
	return *e.Value, e.Status, a.Status
}

func (c *ctrl) writeOne(aid, iid uint64, valueJSON string) answer {
	return c.put("/characteristics", []byte(fmt.Sprintf(`{"characteristics":[{"aid":%d,"iid":%d,"value":%s}]}`, aid, iid, valueJSON)))
}

func jsonUnmarshal(b []byte, v interface{}) error { return json.Unmarshal(b, v) }

package hc_test

import (
	"encoding/base64"
	"fmt"
	"io"
	"math/rand"
	"strconv"
	"strings"
	"testing"
	"time"

	"github.com/brutella/hc/accessory"
	"github.com/brutella/hc/characteristic"
	"github.com/brutella/hc/service"
)

// readEvent reads one EVENT/1.0 message and returns its body
func (c *ctrl) readEvent() []byte {
	c.conn.SetDeadline(time.Now().Add(5 * time.Second))
	line, err := c.plain.ReadString('\n')
	if err != nil {
		c.t.Fatalf("waiting for an event: %v", err)
	}
	if !strings.HasPrefix(line, "EVENT/1.0 200") {
		c.t.Fatalf("not an event: %q", line)
	}
	n := -1
	for {
		h, err := c.plain.ReadString('\n')
		if err != nil {
			c.t.Fatal(err)
		}
		h = strings.TrimSpace(h)
		if h == "" {
			break
		}
		if strings.HasPrefix(strings.ToLower(h), "content-length:") {
			n, _ = strconv.Atoi(strings.TrimSpace(h[len("content-length:"):]))
		}
	}
	if n < 0 {
		c.t.Fatal("event without content-length")
	}
	b := make([]byte, n)
	if _, err := io.ReadFull(c.plain, b); err != nil {
		c.t.Fatal(err)
	}
	return b
}

// Fidelity of the values in events, on the real transport: what the application sets / another
// controller writes is what a subscribed controller is told.
func TestHunt3EventFidelity(t *testing.T) {
	a := accessory.New(accessory.Info{Name: "acc"}, accessory.TypeOther)
	svc := service.New("43")
	name := characteristic.NewConfiguredName()
	tlv := characteristic.NewStreamingStatus()
	bri := characteristic.NewBrightness()
	temp := characteristic.NewTargetTemperature()
	on := characteristic.NewOn()
	for _, c := range []*characteristic.Characteristic{name.Characteristic, tlv.Characteristic, bri.Characteristic, temp.Characteristic, on.Characteristic} {
		svc.AddCharacteristic(c)
	}
	a.AddService(svc)
	r := newRig(t, a)
	defer r.close()

	A := r.verified()
	B := r.verified()
	defer A.conn.Close()
	defer B.conn.Close()
	var parts []string
	for _, c := range svc.Characteristics {
		parts = append(parts, fmt.Sprintf(`{"aid":%d,"iid":%d,"ev":true}`, a.ID, c.ID))
	}
	ans := A.put("/characteristics", []byte(`{"characteristics":[`+strings.Join(parts, ",")+`]}`))
	if ans.Status != 204 {
		t.Fatalf("subscribe %d %s", ans.Status, ans.Body)
	}

	rnd := rand.New(rand.NewSource(5))
	expect := func(c *characteristic.Characteristic, v interface{}, how string) {
		t.Logf("expect event for %s %s %s", c.Type, how, trunc([]byte(toJSON(v))))
		b := A.readEvent()
		rc := decodeChars(t, b)
		if len(rc.Characteristics) != 1 || rc.Characteristics[0].Aid != a.ID || rc.Characteristics[0].Iid != c.ID ||
			rc.Characteristics[0].Value == nil || !sameValue(*rc.Characteristics[0].Value, v) {
			t.Errorf("%s %s: event %s", how, trunc([]byte(toJSON(v))), trunc(b))
		}
	}
	for round := 0; round < 12; round++ {
		s := trickyStrings[(round+1)%len(trickyStrings)]
		if s != name.GetValue() {
			name.SetValue(s)
			expect(name.Characteristic, s, "app set")
		}
		raw := make([]byte, 1+rnd.Intn(4000))
		rnd.Read(raw)
		tlv.SetValue(raw)
		expect(tlv.Characteristic, base64.StdEncoding.EncodeToString(raw), "app set")
		bri.SetValue(1 + round)
		expect(bri.Characteristic, 1+round, "app set")
		f := 10.1 + float64(round)*1.7
		temp.SetValue(f)
		expect(temp.Characteristic, f, "app set")
		if on.GetValue() != (round%2 == 0) {
			on.SetValue(round%2 == 0)
			expect(on.Characteristic, round%2 == 0, "app set")
		}

		// the other controller writes
		s2 := "B:" + trickyStrings[(round+3)%len(trickyStrings)]
		if ans := B.writeOne(a.ID, name.ID, toJSON(s2)); ans.Status != 204 {
			t.Fatal(ans.Status)
		}
		expect(name.Characteristic, s2, "B wrote")
		if ans := B.writeOne(a.ID, temp.ID, "37.25"); ans.Status != 204 || temp.GetValue() != 37.25 {
			t.Fatal(ans.Status)
		}
		expect(temp.Characteristic, 37.25, "B wrote")
		was := on.GetValue()
		if ans := B.writeOne(a.ID, on.ID, fmt.Sprint(round%2)); ans.Status != 204 { // 1 / 0 as iOS does
			t.Fatal(ans.Status)
		}
		if was != (round%2 == 1) {
			expect(on.Characteristic, round%2 == 1, "B wrote")
		}
		// and A still gets proper answers
		got, _, _ := A.readOne(a.ID, name.ID)
		if !sameValue(got, s2) {
			t.Errorf("A reads %s, want %s", got, toJSON(s2))
		}
	}
}

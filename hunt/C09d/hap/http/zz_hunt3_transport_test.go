package http_test

import (
	"encoding/base64"
	"encoding/json"
	"fmt"
	"math/rand"
	"strings"
	"testing"

	"github.com/brutella/hc/characteristic"
)

// Large bridge, odd request framing, TCP segmentation, pipelining.
func TestHunt3LargeBridgeAndFraming(t *testing.T) {
	rnd := rand.New(rand.NewSource(11))
	accs, items := buildBridge(t, 12) // 60 accessories, ~2000 characteristics
	r := newRig(t, accs...)
	defer r.close()
	for _, a := range accs {
		for _, s := range a.Services {
			for _, c := range s.Characteristics {
				for _, it := range items {
					if it.c == c {
						it.aid = a.ID
					}
				}
			}
		}
	}
	// fill strings and tlv8 with sizeable content so the answers span many chunks
	want := map[[2]uint64]interface{}{}
	for _, it := range items {
		if !it.c.IsReadable() {
			continue
		}
		switch it.c.Format {
		case characteristic.FormatString:
			s := trickyStrings[rnd.Intn(len(trickyStrings))] + fmt.Sprint(rnd.Int())
			it.c.UpdateValue(s)
		case characteristic.FormatTLV8:
			b := make([]byte, rnd.Intn(3000))
			rnd.Read(b)
			it.c.UpdateValue(base64.StdEncoding.EncodeToString(b))
		}
		want[[2]uint64{it.aid, it.c.ID}] = it.c.Value
	}

	for _, cfg := range []struct {
		frames  []int
		segment int
	}{
		{nil, 0},
		{[]int{1, 2, 3, 1024, 5}, 0},
		{[]int{1023, 1024, 1}, 7},
		{[]int{512}, 1500},
		{[]int{1024}, 1042},
		{[]int{1024}, 1041},
		{[]int{100}, 1},
	} {
		c := r.verified()
		c.frameSizes = cfg.frames
		c.segment = cfg.segment

		acc := c.get("/accessories")
		if acc.Status != 200 {
			t.Fatalf("/accessories %d", acc.Status)
		}
		var tree struct {
			Accessories []struct {
				Aid      uint64 `json:"aid"`
				Services []struct {
					Characteristics []struct {
						Iid   uint64           `json:"iid"`
						Value *json.RawMessage `json:"value"`
					} `json:"characteristics"`
				} `json:"services"`
			} `json:"accessories"`
		}
		if err := json.Unmarshal(acc.Body, &tree); err != nil {
			t.Fatalf("/accessories (%d bytes) is not JSON: %v", len(acc.Body), err)
		}
		seen := 0
		for _, ac := range tree.Accessories {
			for _, s := range ac.Services {
				for _, ch := range s.Characteristics {
					w, ok := want[[2]uint64{ac.Aid, ch.Iid}]
					if !ok {
						continue
					}
					seen++
					if ch.Value == nil || !sameValue(*ch.Value, w) {
						t.Errorf("cfg %v: %d.%d holds %v, /accessories has %s", cfg, ac.Aid, ch.Iid, w, rawStr(ch.Value))
					}
				}
			}
		}
		if seen != len(want) {
			t.Errorf("cfg %v: %d readable characteristics, %d in /accessories", cfg, len(want), seen)
		}

		// a long id list, with non existing ids mixed in
		var pairs [][2]uint64
		for i := 0; i < 600; i++ {
			it := items[rnd.Intn(len(items))]
			switch rnd.Intn(6) {
			case 0:
				pairs = append(pairs, [2]uint64{it.aid, 100000 + uint64(rnd.Intn(10))})
			case 1:
				pairs = append(pairs, [2]uint64{9999, it.c.ID})
			default:
				pairs = append(pairs, [2]uint64{it.aid, it.c.ID})
			}
		}
		a := c.get("/characteristics?id=" + ids(pairs...))
		rc := decodeChars(t, a.Body)
		if len(rc.Characteristics) != len(pairs) {
			t.Fatalf("cfg %v: asked %d, answered %d (http %d)", cfg, len(pairs), len(rc.Characteristics), a.Status)
		}
		for i, p := range pairs {
			e := rc.Characteristics[i]
			if e.Aid != p[0] || e.Iid != p[1] {
				t.Errorf("entry %d: asked %v answered %d.%d", i, p, e.Aid, e.Iid)
			}
			w, ok := want[p]
			if ok {
				if e.Value == nil || !sameValue(*e.Value, w) {
					t.Errorf("entry %d %v: holds %v, answered %s", i, p, w, rawStr(e.Value))
				}
				if a.Status == 207 && (e.Status == nil || *e.Status != 0) {
					t.Errorf("entry %d: no status 0 in 207", i)
				}
			} else {
				if e.Status == nil || *e.Status == 0 || e.Value != nil {
					t.Errorf("entry %d %v: not readable/non existing, answered value=%s status=%v", i, p, rawStr(e.Value), e.Status)
				}
			}
		}

		// a big write: many characteristics, several frames
		var parts []string
		type wr struct {
			it *item
			v  interface{}
		}
		var wrs []wr
		used := map[*item]bool{}
		for len(wrs) < 40 {
			it := items[rnd.Intn(len(items))]
			if !it.c.IsWritable() || !it.c.IsReadable() || used[it] {
				continue
			}
			used[it] = true
			vs := valuesFor(rnd, it.c)
			v := vs[rnd.Intn(len(vs))]
			if n, ok := v.(int64); ok && n > 1<<31-1 {
				v = int64(1<<31 - 1)
			}
			wrs = append(wrs, wr{it, v})
			parts = append(parts, fmt.Sprintf(`{"aid":%d,"iid":%d,"value":%s}`, it.aid, it.c.ID, toJSON(v)))
		}
		ans := c.put("/characteristics", []byte(`{"characteristics":[`+strings.Join(parts, ",")+`]}`))
		if ans.Status != 204 {
			t.Fatalf("cfg %v: big write answered %d %s", cfg, ans.Status, trunc(ans.Body))
		}
		for _, w := range wrs {
			if !sameGo(w.it.c.GetValue(), w.v) {
				t.Errorf("cfg %v: %s wrote %s, app has %v", cfg, w.it.name, trunc([]byte(toJSON(w.v))), w.it.c.GetValue())
			}
			want[[2]uint64{w.it.aid, w.it.c.ID}] = w.it.c.Value
		}

		// pipelining: write then read in one go
		it := wrs[0].it
		vs := valuesFor(rnd, it.c)
		v := vs[1]
		body := fmt.Sprintf(`{"characteristics":[{"aid":%d,"iid":%d,"value":%s}]}`, it.aid, it.c.ID, toJSON(v))
		raw := fmt.Sprintf("PUT /characteristics HTTP/1.1\r\nHost: h\r\nContent-Length: %d\r\n\r\n%s", len(body), body) +
			fmt.Sprintf("GET /characteristics?id=%d.%d HTTP/1.1\r\nHost: h\r\n\r\n", it.aid, it.c.ID)
		first := c.roundTrip([]byte(raw))
		if first.Status != 204 {
			t.Errorf("pipelined write: %d", first.Status)
		}
		second := c.roundTrip(nil)
		rc = decodeChars(t, second.Body)
		if len(rc.Characteristics) != 1 || rc.Characteristics[0].Value == nil || !sameValue(*rc.Characteristics[0].Value, v) {
			t.Errorf("cfg %v: pipelined write %s then read: %s", cfg, trunc([]byte(toJSON(v))), trunc(second.Body))
		}
		want[[2]uint64{it.aid, it.c.ID}] = it.c.Value
		c.conn.Close()
	}
}

package http_test

import (
	"encoding/base64"
	"fmt"
	"math/rand"
	"strings"
	"testing"

	"github.com/brutella/hc/accessory"
	"github.com/brutella/hc/characteristic"
	"github.com/brutella/hc/service"
)

func TestHunt3HTTPForms(t *testing.T) {
	a := accessory.New(accessory.Info{Name: "acc"}, accessory.TypeOther)
	svc := service.New("43")
	var tl []*characteristic.SetupEndpoints
	for i := 0; i < 60; i++ {
		c := characteristic.NewSetupEndpoints()
		tl = append(tl, c)
		svc.AddCharacteristic(c.Characteristic)
	}
	name := characteristic.NewConfiguredName()
	svc.AddCharacteristic(name.Characteristic)
	a.AddService(svc)
	r := newRig(t, a)
	defer r.close()
	rnd := rand.New(rand.NewSource(3))

	// D: one PUT of ~300 KB
	c := r.verified()
	var parts []string
	var want []string
	for _, ch := range tl {
		b := make([]byte, 3000+rnd.Intn(2000))
		rnd.Read(b)
		s := base64.StdEncoding.EncodeToString(b)
		want = append(want, s)
		parts = append(parts, fmt.Sprintf(`{"aid":%d,"iid":%d,"value":"%s"}`, a.ID, ch.ID, s))
	}
	body := `{"characteristics":[` + strings.Join(parts, ",") + `]}`
	ans := c.put("/characteristics", []byte(body))
	if ans.Status != 204 {
		t.Fatalf("big put %d", ans.Status)
	}
	for i, ch := range tl {
		if ch.Characteristic.Value != want[i] {
			t.Errorf("big put: %d differs", i)
		}
	}

	// C: chunked PUT
	v := `chunked "value" <&> 😀`
	body = fmt.Sprintf(`{"characteristics":[{"aid":%d,"iid":%d,"value":%s}]}`, a.ID, name.ID, toJSON(v))
	var raw strings.Builder
	raw.WriteString("PUT /characteristics HTTP/1.1\r\nHost: h\r\nTransfer-Encoding: chunked\r\n\r\n")
	for i := 0; i < len(body); i += 5 {
		e := i + 5
		if e > len(body) {
			e = len(body)
		}
		fmt.Fprintf(&raw, "%x\r\n%s\r\n", e-i, body[i:e])
	}
	raw.WriteString("0\r\n\r\n")
	ans = c.roundTrip([]byte(raw.String()))
	if ans.Status != 204 || name.GetValue() != v {
		t.Errorf("chunked put: %d, app has %q", ans.Status, name.GetValue())
	}

	// B: Expect 100-continue
	v = "expect-continue"
	body = fmt.Sprintf(`{"characteristics":[{"aid":%d,"iid":%d,"value":%s}]}`, a.ID, name.ID, toJSON(v))
	c.send([]byte(fmt.Sprintf("PUT /characteristics HTTP/1.1\r\nHost: h\r\nExpect: 100-continue\r\nContent-Length: %d\r\n\r\n", len(body))))
	ans = c.roundTrip(nil) // 100 Continue is skipped by ReadResponse?
	t.Logf("first answer to Expect: %d", ans.Status)
	if ans.Status == 100 {
		ans = c.roundTrip([]byte(body))
	} else {
		c.send([]byte(body))
	}
	if name.GetValue() != v {
		t.Errorf("expect-continue: status %d app has %q", ans.Status, name.GetValue())
	}
	c.conn.Close()

	// A: HTTP/1.0 and Connection: close
	for _, req := range []string{
		"GET /characteristics?id=%d.%d HTTP/1.0\r\n\r\n",
		"GET /characteristics?id=%d.%d HTTP/1.1\r\nHost: h\r\nConnection: close\r\n\r\n",
	} {
		c = r.verified()
		name.SetValue("http-form " + req[:10])
		ans = c.roundTrip([]byte(fmt.Sprintf(req, a.ID, name.ID)))
		rc := decodeChars(t, ans.Body)
		if len(rc.Characteristics) != 1 || rc.Characteristics[0].Value == nil || !sameValue(*rc.Characteristics[0].Value, name.GetValue()) {
			t.Errorf("%q: %d %s", req, ans.Status, trunc(ans.Body))
		}
		// and a large one
		ans = c2get(r, req)
		c.conn.Close()
	}
}

func c2get(r *rig, form string) answer {
	c := r.verified()
	defer c.conn.Close()
	f := strings.Replace(form, "/characteristics?id=%d.%d", "/accessories", 1)
	ans := c.roundTrip([]byte(f))
	var v interface{}
	if err := jsonUnmarshal(ans.Body, &v); err != nil {
		r.t.Errorf("%q: /accessories %d bytes: %v", f, len(ans.Body), err)
	}
	return ans
}

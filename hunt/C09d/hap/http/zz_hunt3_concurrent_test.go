package http_test

import (
	"encoding/json"
	"fmt"
	"net"
	"sync"
	"sync/atomic"
	"testing"

	"github.com/brutella/hc/accessory"
	"github.com/brutella/hc/characteristic"
	"github.com/brutella/hc/service"
)

// Several controllers and the application work on disjoint characteristics at the same time
// (no two actors ever touch the same characteristic, so no compare/set race is provoked).
// Every actor must observe exactly its own values.
func TestHunt3DisjointActors(t *testing.T) {
	const actors = 6
	a := accessory.New(accessory.Info{Name: "acc"}, accessory.TypeOther)
	svc := service.New("43")
	var strs []*characteristic.Name
	var ints []*characteristic.Brightness
	var cb [actors]atomic.Value
	for i := 0; i < actors; i++ {
		s := characteristic.NewName()
		s.Perms = characteristic.PermsAll()
		n := characteristic.NewBrightness()
		i := i
		s.OnValueUpdateFromConn(func(conn net.Conn, c *characteristic.Characteristic, nv, ov interface{}) {
			cb[i].Store(nv)
		})
		strs = append(strs, s)
		ints = append(ints, n)
		svc.AddCharacteristic(s.Characteristic)
		svc.AddCharacteristic(n.Characteristic)
	}
	a.AddService(svc)
	r := newRig(t, a)
	defer r.close()

	var wg sync.WaitGroup
	var bad int32
	for i := 0; i < actors; i++ {
		i := i
		c := r.verified()
		wg.Add(1)
		go func() {
			defer wg.Done()
			defer c.conn.Close()
			for k := 0; k < 300; k++ {
				want := fmt.Sprintf("actor-%d-<%d>-%s", i, k, trickyStrings[k%len(trickyStrings)])
				if len(want) > 3000 {
					want = want[:3000]
				}
				ans := c.writeOne(a.ID, strs[i].ID, toJSON(want))
				if ans.Status != 204 {
					atomic.AddInt32(&bad, 1)
					t.Errorf("actor %d write: %d", i, ans.Status)
					return
				}
				if got := strs[i].GetValue(); got != want {
					atomic.AddInt32(&bad, 1)
					t.Errorf("actor %d wrote %q app has %q", i, trunc([]byte(want)), trunc([]byte(got)))
				}
				if got, _ := cb[i].Load().(string); got != want {
					atomic.AddInt32(&bad, 1)
					t.Errorf("actor %d wrote %q callback got %q", i, trunc([]byte(want)), trunc([]byte(got)))
				}
				ints[i].SetValue(k % 101)
				res := c.get(fmt.Sprintf("/characteristics?id=%d.%d,%d.%d,7.7", a.ID, ints[i].ID, a.ID, strs[i].ID))
				rc := decodeChars(t, res.Body)
				if res.Status != 207 || len(rc.Characteristics) != 3 {
					atomic.AddInt32(&bad, 1)
					t.Errorf("actor %d: %d %s", i, res.Status, trunc(res.Body))
					return
				}
				if rc.Characteristics[0].Value == nil || !sameValue(*rc.Characteristics[0].Value, k%101) ||
					rc.Characteristics[1].Value == nil || !sameValue(*rc.Characteristics[1].Value, want) {
					atomic.AddInt32(&bad, 1)
					t.Errorf("actor %d round %d: %s", i, k, trunc(res.Body))
				}
				if k%50 == 0 {
					acc := c.get("/accessories")
					var v interface{}
					if err := json.Unmarshal(acc.Body, &v); err != nil {
						t.Errorf("actor %d: /accessories: %v", i, err)
					}
				}
				if atomic.LoadInt32(&bad) > 5 {
					return
				}
			}
		}()
	}
	wg.Wait()
}

package http_test

import (
	"encoding/json"
	"strings"
	"testing"
)

// three large requests pipelined in one frame: three complete answers in order
func TestHunt3PipelinedLarge(t *testing.T) {
	accs, _ := buildBridge(t, 4)
	r := newRig(t, accs...)
	defer r.close()
	c := r.verified()
	defer c.conn.Close()
	req := "GET /accessories HTTP/1.1\r\nHost: h\r\n\r\n"
	c.send([]byte(strings.Repeat(req, 3) + "GET /characteristics?id=1.3,1.4,999.9 HTTP/1.1\r\nHost: h\r\n\r\n"))
	for i := 0; i < 3; i++ {
		ans, err := c.tryRead()
		if err != nil {
			t.Fatalf("answer %d: %v", i, err)
		}
		var v interface{}
		if err := json.Unmarshal(ans.Body, &v); err != nil {
			t.Fatalf("answer %d: %v", i, err)
		}
	}
	ans, err := c.tryRead()
	if err != nil || ans.Status != 207 {
		t.Fatalf("last: %d %v", ans.Status, err)
	}
	rc := decodeChars(t, ans.Body)
	if len(rc.Characteristics) != 3 {
		t.Fatal(string(ans.Body))
	}
}

//go:build !386 && !arm
// +build !386,!arm

package http_test

import (
	"fmt"
	"testing"

	"github.com/brutella/hc/accessory"
	"github.com/brutella/hc/characteristic"
	"github.com/brutella/hc/service"
)

// BORDERLINE 2 (C09, clause "the value a verified controller writes is exactly what the
// application's getter then returns"): format uint64.
//
// The library declares FormatUInt64 and converts / clamps it (characteristic.convert,
// updateValue), but none of the generated constructors uses it; an application builds such a
// characteristic with the library constructor NewInt. The PUT handler decodes "value" into
// interface{}, i.e. float64: integers above 2^53 are rounded before they reach the
// characteristic (hap/http/characteristics.go, JSONDecode into CharacteristicRequest.Value).
// The other direction (application sets, controller reads) is exact.
func TestHunt3C09Uint64WriteIsRounded(t *testing.T) {
	a := accessory.New(accessory.Info{Name: "acc"}, accessory.TypeOther)
	svc := service.New("43")
	big := characteristic.NewInt("00000001-0000-1000-8000-0026BB765291")
	big.Format = characteristic.FormatUInt64
	big.Perms = characteristic.PermsAll()
	big.SetValue(0)
	svc.AddCharacteristic(big.Characteristic)
	a.AddService(svc)
	r := newRig(t, a)
	defer r.close()
	c := r.verified()
	defer c.conn.Close()

	const v = 9007199254740993 // 2^53 + 1
	big.SetValue(v)
	raw, _, _ := c.readOne(a.ID, big.ID)
	if string(raw) != fmt.Sprint(v) {
		t.Errorf("app set %d, controller reads %s", v, raw)
	}
	big.SetValue(0)
	if ans := c.writeOne(a.ID, big.ID, fmt.Sprint(v)); ans.Status != 204 {
		t.Fatalf("write %d", ans.Status)
	}
	if big.GetValue() != v {
		t.Errorf("controller wrote %d, application getter returns %d", v, big.GetValue())
	}
}

package http_test

import (
	"testing"

	"github.com/brutella/hc/accessory"
	"github.com/brutella/hc/characteristic"
	"github.com/brutella/hc/service"
)

// BORDERLINE 1 (C09, clause "the value a verified controller writes is ... what the
// remote-update callback receives"): the remote-update callback is also called for a READ.
//
// History: the application serves a characteristic through OnValueRemoteGet (value taken from
// the device at read time) and reacts to writes in OnValueRemoteUpdate (commands the device).
// A controller only reads. Characteristic.getValue stores the fetched value with
// updateValue(value, conn, false); because conn is not nil the *remote update* callbacks run:
// the application is told that "a controller wrote 25" although no controller wrote anything.
// (characteristic/characteristic.go getValue -> updateValue -> onValueUpdateFromConn)
func TestHunt3C09ReadCallsRemoteUpdateCallback(t *testing.T) {
	a := accessory.New(accessory.Info{Name: "thermo"}, accessory.TypeThermostat)
	svc := service.New("4A")
	target := characteristic.NewTargetTemperature()
	svc.AddCharacteristic(target.Characteristic)
	a.AddService(svc)

	device := 25.0 // what the device reports
	target.OnValueRemoteGet(func() float64 { return device })
	var written []float64
	target.OnValueRemoteUpdate(func(v float64) { written = append(written, v) })

	r := newRig(t, a)
	defer r.close()
	c := r.verified()
	defer c.conn.Close()

	raw, _, _ := c.readOne(a.ID, target.ID)
	if string(raw) != "25" {
		t.Fatalf("read %s", raw)
	}
	if len(written) != 0 {
		t.Errorf("no controller wrote anything, the remote-update callback was called with %v", written)
	}
}

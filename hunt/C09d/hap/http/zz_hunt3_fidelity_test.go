package http_test

import (
	"bytes"
	"encoding/base64"
	"encoding/json"
	"fmt"
	"math"
	"math/rand"
	"net"
	"strconv"
	"strings"
	"testing"

	"github.com/brutella/hc/accessory"
	"github.com/brutella/hc/characteristic"
	"github.com/brutella/hc/service"
)

type item struct {
	name string
	aid  uint64
	c    *characteristic.Characteristic
	// what the remote update callback received last
	cbCount int
	cbValue interface{}
}

// bridge builds n accessories holding all constructors, spread over services of 7
func buildBridge(t testing.TB, copies int) ([]*accessory.Accessory, []*item) {
	var accs []*accessory.Accessory
	var items []*item
	for k := 0; k < copies; k++ {
		var a *accessory.Accessory
		var svc *service.Service
		for i, nc := range allCtors {
			if i%40 == 0 {
				a = accessory.New(accessory.Info{Name: fmt.Sprintf("acc-%d-%d", k, i)}, accessory.TypeOther)
				accs = append(accs, a)
			}
			if i%7 == 0 || i%40 == 0 {
				svc = service.New("43")
			}
			c := nc.make()
			svc.AddCharacteristic(c)
			it := &item{name: nc.name, c: c}
			items = append(items, it)
			c.OnValueUpdateFromConn(func(conn net.Conn, c *characteristic.Characteristic, nv, ov interface{}) {
				it.cbCount++
				it.cbValue = nv
			})
			if i%7 == 6 || i%40 == 39 || i == len(allCtors)-1 {
				a.AddService(svc)
			}
		}
	}
	return accs, items
}

func intBounds(c *characteristic.Characteristic) (int64, int64) {
	var lo, hi int64
	switch c.Format {
	case characteristic.FormatUInt8:
		lo, hi = 0, 255
	case characteristic.FormatUInt16:
		lo, hi = 0, 65535
	case characteristic.FormatUInt32:
		lo, hi = 0, math.MaxUint32
	case characteristic.FormatInt32:
		lo, hi = math.MinInt32, math.MaxInt32
	}
	if v, ok := c.MinValue.(int); ok {
		lo = int64(v)
	}
	if v, ok := c.MaxValue.(int); ok {
		hi = int64(v)
	}
	return lo, hi
}

var trickyStrings = []string{
	"",
	"plain",
	`quote " backslash \ slash /`,
	"<script>alert('x')&amp;</script>",
	"line\nfeed\ttab\rcr\x00nul\x1f",
	"   separators",
	"non-BMP 😀𝄞𐍈 runes",
	"ünïcödé 日本語 עברית",
	"\\u0041 looks like an escape",
	"null", "true", "12", "1e3", "0x10", " leading and trailing ",
	strings.Repeat("long-", 1000),
	strings.Repeat("😀", 700),
}

// valuesFor returns (go value to set, JSON text a controller writes) pairs
func valuesFor(rnd *rand.Rand, c *characteristic.Characteristic) []interface{} {
	switch c.Format {
	case characteristic.FormatBool:
		return []interface{}{true, false, true}
	case characteristic.FormatUInt8, characteristic.FormatUInt16, characteristic.FormatUInt32, characteristic.FormatInt32:
		lo, hi := intBounds(c)
		vs := []interface{}{hi, lo, lo + (hi-lo)/2}
		for i := 0; i < 3; i++ {
			vs = append(vs, lo+rnd.Int63n(hi-lo+1))
		}
		return vs
	case characteristic.FormatFloat:
		lo, hi := -1e6, 1e6
		if v, ok := c.MinValue.(float64); ok {
			lo = v
		}
		if v, ok := c.MaxValue.(float64); ok {
			hi = v
		}
		vs := []interface{}{hi, lo, lo + (hi-lo)/3}
		for i := 0; i < 3; i++ {
			vs = append(vs, lo+rnd.Float64()*(hi-lo))
		}
		vs = append(vs, lo+(hi-lo)*1e-9, math.Nextafter(hi, lo), float64(float32(lo+(hi-lo)*0.7)))
		return vs
	case characteristic.FormatString:
		var vs []interface{}
		for _, s := range trickyStrings {
			vs = append(vs, s)
		}
		return vs
	case characteristic.FormatTLV8, characteristic.FormatData:
		var vs []interface{}
		for _, n := range []int{1, 0, 2, 3, 700, 767, 768, 769, 1500, 5000} {
			b := make([]byte, n)
			rnd.Read(b)
			vs = append(vs, base64.StdEncoding.EncodeToString(b))
		}
		return vs
	}
	return nil
}

func toJSON(v interface{}) string {
	switch x := v.(type) {
	case float64:
		return strconv.FormatFloat(x, 'g', -1, 64)
	case string:
		var buf bytes.Buffer
		enc := json.NewEncoder(&buf)
		enc.SetEscapeHTML(false)
		enc.Encode(x)
		return strings.TrimSpace(buf.String())
	}
	b, _ := json.Marshal(v)
	return string(b)
}

// sameValue compares the raw JSON a controller received with the go value
func sameValue(raw json.RawMessage, v interface{}) bool {
	if raw == nil {
		return false
	}
	switch x := v.(type) {
	case bool:
		return string(raw) == strconv.FormatBool(x)
	case int64:
		n, err := strconv.ParseInt(string(raw), 10, 64)
		return err == nil && n == x
	case int:
		n, err := strconv.ParseInt(string(raw), 10, 64)
		return err == nil && n == int64(x)
	case float64:
		f, err := strconv.ParseFloat(string(raw), 64)
		return err == nil && f == x
	case string:
		var s string
		if err := json.Unmarshal(raw, &s); err != nil {
			return false
		}
		return s == x
	}
	return false
}

// TestHunt3AllConstructorsFidelity: for every constructor and several values inside the bounds:
// app sets -> controller reads the same (single id, in a list, in /accessories);
// controller writes -> app reads the same and the callback gets the same.
func TestHunt3AllConstructorsFidelity(t *testing.T) {
	rnd := rand.New(rand.NewSource(7))
	accs, items := buildBridge(t, 1)
	r := newRig(t, accs...)
	defer r.close()
	for _, it := range items {
		for _, a := range accs {
			for _, s := range a.Services {
				for _, c := range s.Characteristics {
					if c == it.c {
						it.aid = a.ID
					}
				}
			}
		}
		if it.aid == 0 || it.c.ID == 0 {
			t.Fatalf("%s not numbered", it.name)
		}
	}
	c := r.verified()
	defer c.conn.Close()

	bad := 0
	fail := func(format string, args ...interface{}) {
		bad++
		if bad < 60 {
			t.Errorf(format, args...)
		}
	}

	// 0. fresh from the constructor: every readable characteristic is answered with a value
	for _, it := range items {
		raw, status, code := c.readOne(it.aid, it.c.ID)
		if it.c.IsReadable() {
			if raw == nil || code != 200 {
				fail("%s fresh: readable, answered value=%s status=%v http=%d", it.name, raw, status, code)
			} else if !sameValue(raw, it.c.Value) {
				fail("%s fresh: app holds %#v, controller read %s", it.name, it.c.Value, raw)
			}
		} else if status == nil || *status == 0 {
			fail("%s fresh: not readable, answered value=%s status=%v", it.name, raw, status)
		}
	}

	for round := 0; round < 10; round++ {
		// 1. app sets
		want := map[*item]interface{}{}
		for _, it := range items {
			vs := valuesFor(rnd, it.c)
			if len(vs) == 0 {
				t.Fatalf("%s: no values for format %q", it.name, it.c.Format)
			}
			v := vs[round%len(vs)]
			if n, ok := v.(int64); ok {
				if int64(int(n)) != n {
					// not representable by the setter of this platform (32-bit int)
					n = int64(math.MaxInt32)
					v = n
				}
				it.c.UpdateValue(int(n))
			} else {
				it.c.UpdateValue(v)
			}
			if it.c.IsReadable() {
				want[it] = v
			}
		}
		// 1a. one by one for a sample, 1b. all in one list, 1c. /accessories
		var pairs [][2]uint64
		for _, it := range items {
			pairs = append(pairs, [2]uint64{it.aid, it.c.ID})
		}
		a := c.get("/characteristics?id=" + ids(pairs...))
		rc := decodeChars(t, a.Body)
		if len(rc.Characteristics) != len(items) {
			t.Fatalf("asked %d ids, answered %d", len(items), len(rc.Characteristics))
		}
		for i, it := range items {
			e := rc.Characteristics[i]
			if e.Aid != it.aid || e.Iid != it.c.ID {
				fail("entry %d: asked %d.%d answered %d.%d", i, it.aid, it.c.ID, e.Aid, e.Iid)
				continue
			}
			if w, ok := want[it]; ok {
				if e.Value == nil || !sameValue(*e.Value, w) {
					fail("round %d %s (%s): app set %s, controller read %s (list)", round, it.name, it.c.Format, trunc([]byte(toJSON(w))), rawStr(e.Value))
				}
				if a.Status == 207 && (e.Status == nil || *e.Status != 0) {
					fail("%s: 207 entry without status 0", it.name)
				}
			} else {
				if e.Status == nil || *e.Status == 0 {
					fail("%s: write-only answered without error status", it.name)
				}
			}
		}
		// /accessories
		acc := c.get("/accessories")
		var tree struct {
			Accessories []struct {
				Aid      uint64 `json:"aid"`
				Services []struct {
					Characteristics []struct {
						Iid   uint64           `json:"iid"`
						Value *json.RawMessage `json:"value"`
					} `json:"characteristics"`
				} `json:"services"`
			} `json:"accessories"`
		}
		if err := json.Unmarshal(acc.Body, &tree); err != nil {
			t.Fatalf("/accessories is not JSON: %v", err)
		}
		got := map[[2]uint64]*json.RawMessage{}
		for _, ac := range tree.Accessories {
			for _, s := range ac.Services {
				for _, ch := range s.Characteristics {
					got[[2]uint64{ac.Aid, ch.Iid}] = ch.Value
				}
			}
		}
		for it, w := range want {
			v := got[[2]uint64{it.aid, it.c.ID}]
			if v == nil || !sameValue(*v, w) {
				fail("round %d %s: app set %s, /accessories has %s", round, it.name, trunc([]byte(toJSON(w))), rawStr(v))
			}
		}

		// 2. controller writes (a different value: next in the list)
		for _, it := range items {
			if !it.c.IsWritable() {
				continue
			}
			vs := valuesFor(rnd, it.c)
			v := vs[(round+1)%len(vs)]
			before := it.c.Value
			it.cbCount = 0
			it.cbValue = nil
			ans := c.writeOne(it.aid, it.c.ID, toJSON(v))
			if ans.Status != 204 {
				fail("%s: write of %s answered %d %s", it.name, trunc([]byte(toJSON(v))), ans.Status, trunc(ans.Body))
				continue
			}
			if it.c.IsReadable() {
				if !sameGo(it.c.GetValue(), v) {
					fail("round %d %s (%s): controller wrote %s, app getter returns %#v", round, it.name, it.c.Format, trunc([]byte(toJSON(v))), it.c.GetValue())
				}
				raw, _, _ := c.readOne(it.aid, it.c.ID)
				if !sameValue(raw, v) {
					fail("round %d %s: controller wrote %s, reads back %s", round, it.name, trunc([]byte(toJSON(v))), raw)
				}
			}
			if !sameGo(before, v) {
				if it.cbCount != 1 || !sameGo(it.cbValue, v) {
					fail("round %d %s (%s): controller wrote %s (before %#v), callback calls=%d value=%#v", round, it.name, it.c.Format, trunc([]byte(toJSON(v))), before, it.cbCount, it.cbValue)
				}
			}
		}
	}
	if bad > 0 {
		t.Logf("%d mismatches", bad)
	}
}

func rawStr(r *json.RawMessage) string {
	if r == nil {
		return "<absent>"
	}
	return trunc([]byte(*r))
}

func sameGo(held interface{}, v interface{}) bool {
	if n, ok := v.(int64); ok {
		h, ok := held.(int)
		return ok && int64(h) == n
	}
	return held == v
}

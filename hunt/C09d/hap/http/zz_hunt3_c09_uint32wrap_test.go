package http_test

import (
	"fmt"
	"testing"

	"github.com/brutella/hc/accessory"
	"github.com/brutella/hc/characteristic"
	"github.com/brutella/hc/service"
)

// C09, clauses "the value a verified controller writes is exactly what the application's
// getter then returns and ... what the remote-update callback receives" and "the value the
// application [holds] is exactly the value a verified controller reads".
//
// Input inside the quantifier: constructor NewLockManagementAutoSecurityTimeout (format uint32,
// read/write, no declared minimum or maximum), value 3000000000 which is a valid uint32.
//
// Configuration: a platform with a 32-bit int (run with GOARCH=386). The test passes on amd64.
//
// characteristic.convert stores every integer format as `int(to.Uint64(v))`. With a 32-bit int
// the upper half of the uint32 range wraps to negative numbers: the write is acknowledged with
// 204, the application's getter and callback see -1294967296 and every controller reads
// -1294967296 (not even a uint32) from /characteristics and /accessories afterwards.
//
// The test accepts either outcome the property allows: the value arrives exactly, or the entry
// is refused with an error status.
func TestHunt3C09Uint32UpperHalfOn32Bit(t *testing.T) {
	a := accessory.New(accessory.Info{Name: "lock"}, accessory.TypeDoorLock)
	svc := service.New(service.TypeLockManagement)
	timeout := characteristic.NewLockManagementAutoSecurityTimeout()
	svc.AddCharacteristic(timeout.Characteristic)
	a.AddService(svc)

	var cbCalls int
	var cbValue int
	timeout.OnValueRemoteUpdate(func(v int) { cbCalls++; cbValue = v })

	r := newRig(t, a)
	defer r.close()
	c := r.verified()
	defer c.conn.Close()

	const written = "3000000000" // < 4294967295
	ans := c.writeOne(a.ID, timeout.ID, written)
	if ans.Status != 204 {
		rc := decodeChars(t, ans.Body)
		if len(rc.Characteristics) == 1 && rc.Characteristics[0].Status != nil && *rc.Characteristics[0].Status != 0 {
			t.Logf("write refused with status %d: allowed", *rc.Characteristics[0].Status)
			if timeout.GetValue() != 0 || cbCalls != 0 {
				t.Fatalf("refused write changed the value to %d (callbacks %d)", timeout.GetValue(), cbCalls)
			}
			return
		}
		t.Fatalf("write answered %d %s", ans.Status, ans.Body)
	}
	if got := fmt.Sprint(timeout.GetValue()); got != written {
		t.Errorf("controller wrote %s (204 No Content), application getter returns %s", written, got)
	}
	if cbCalls != 1 || fmt.Sprint(cbValue) != written {
		t.Errorf("controller wrote %s, remote-update callback: calls=%d value=%d", written, cbCalls, cbValue)
	}
	raw, _, _ := c.readOne(a.ID, timeout.ID)
	if string(raw) != written {
		t.Errorf("controller wrote %s, a controller reads back %s", written, raw)
	}
}

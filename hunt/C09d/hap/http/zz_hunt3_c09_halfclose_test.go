package http_test

import (
	"encoding/json"
	"fmt"
	"net"
	"testing"
	"time"

	"github.com/brutella/hc/accessory"
	"github.com/brutella/hc/characteristic"
	"github.com/brutella/hc/service"
)

// C09, clause "Each requested id is answered exactly once ... with a value or an error status"
// (and: what the application set is what a verified controller reads in /accessories).
//
// History: a verified controller sends its (last) request and then half-closes the connection
// (shutdown(SHUT_WR): "I have nothing more to send"), and reads the answer. That is ordinary TCP
// behaviour and net/http serves such a peer completely on a plain connection.
func TestHunt3C09HalfCloseAfterRequest(t *testing.T) {
	accs, _ := buildBridge(t, 6)
	r := newRig(t, accs...)
	defer r.close()

	lost := 0
	const rounds = 20
	for i := 0; i < rounds; i++ {
		c := r.verified()
		c.send([]byte("GET /accessories HTTP/1.1\r\nHost: h\r\n\r\n"))
		c.conn.(*net.TCPConn).CloseWrite()
		ans, err := c.tryRead()
		c.conn.Close()
		if err != nil {
			lost++
			if lost == 1 {
				t.Logf("round %d: %v", i, err)
			}
			continue
		}
		var v interface{}
		if err := json.Unmarshal(ans.Body, &v); err != nil {
			lost++
			t.Logf("round %d: %d bytes, %v", i, len(ans.Body), err)
		}
	}
	if lost > 0 {
		t.Errorf("%d of %d half-closing controllers did not get a complete answer to GET /accessories", lost, rounds)
	}

	// a small answer
	lost = 0
	for i := 0; i < rounds; i++ {
		c := r.verified()
		c.send([]byte(fmt.Sprintf("GET /characteristics?id=%d.%d HTTP/1.1\r\nHost: h\r\n\r\n", accs[0].ID, accs[0].Info.Name.ID)))
		c.conn.(*net.TCPConn).CloseWrite()
		ans, err := c.tryRead()
		c.conn.Close()
		if err != nil || ans.Status != 200 {
			lost++
			if lost == 1 {
				t.Logf("small, round %d: status %d, %v", i, ans.Status, err)
			}
		}
	}
	if lost > 0 {
		t.Errorf("%d of %d half-closing controllers did not get an answer to GET /characteristics", lost, rounds)
	}
}

// Deterministic variant: the application's OnValueRemoteGet hook is still running (it asks the
// device) when the FIN of the half-closing controller arrives. The answer never reaches the
// controller: hap.Connection.DecryptedRead closes the whole socket on io.EOF
// (hap/connection.go, DecryptedRead: "Decryption failed: EOF" -> con.connection.Close()),
// while net/http is still going to write the response of the request in progress.
func TestHunt3C09HalfCloseWhileHookRuns(t *testing.T) {
	a := accessory.New(accessory.Info{Name: "thermo"}, accessory.TypeThermostat)
	svc := service.New("8A")
	temp := characteristic.NewCurrentTemperature()
	svc.AddCharacteristic(temp.Characteristic)
	a.AddService(svc)
	entered := make(chan struct{}, 1)
	release := make(chan struct{})
	temp.OnValueRemoteGet(func() float64 {
		entered <- struct{}{}
		<-release
		return 21.5
	})
	r := newRig(t, a)
	defer r.close()
	c := r.verified()
	defer c.conn.Close()

	c.send([]byte(fmt.Sprintf("GET /characteristics?id=%d.%d HTTP/1.1\r\nHost: h\r\n\r\n", a.ID, temp.ID)))
	<-entered // the request is being served
	c.conn.(*net.TCPConn).CloseWrite()
	time.Sleep(100 * time.Millisecond) // the FIN arrives while the hook is running
	close(release)

	ans, err := c.tryRead()
	if err != nil {
		t.Fatalf("the request was received completely and served (the hook ran), the answer is lost: %v", err)
	}
	rc := decodeChars(t, ans.Body)
	if len(rc.Characteristics) != 1 || rc.Characteristics[0].Value == nil || string(*rc.Characteristics[0].Value) != "21.5" {
		t.Fatalf("answer %d %s", ans.Status, ans.Body)
	}
}

package rtp

import (
	"bytes"
	"encoding/binary"
	"math"
	"testing"

	"github.com/brutella/hc/tlv8"
)

// Reference encoder of the peer: the "Selected RTP Stream Configuration" of the HomeKit
// Accessory Protocol specification (R2, chapter "IP cameras", tables "Selected Video
// Parameters" / "Video RTP Parameters" and "Selected Audio Parameters" / "Audio RTP
// Parameters"); the same numbering is used by every other implementation of the
// specification (e.g. HAP-NodeJS: VideoRTPParametersTypes.MAX_MTU = 0x05,
// AudioRTPParametersTypes.COMFORT_NOISE_PAYLOAD_TYPE = 0x06).
//
//	Video RTP parameters            Audio RTP parameters
//	1 payload type        (1)       1 payload type               (1)
//	2 SSRC                (4)       2 SSRC                       (4)
//	3 maximum bitrate     (2)       3 maximum bitrate            (2)
//	4 min RTCP interval   (4,float) 4 min RTCP interval          (4,float)
//	5 max MTU             (2)       6 comfort noise payload type (1)
func h4item(tag byte, v ...byte) []byte { return append([]byte{tag, byte(len(v))}, v...) }
func h4u16(v uint16) []byte             { b := make([]byte, 2); binary.LittleEndian.PutUint16(b, v); return b }
func h4u32(v uint32) []byte             { b := make([]byte, 4); binary.LittleEndian.PutUint32(b, v); return b }
func h4cat(bs ...[]byte) []byte         { return bytes.Join(bs, nil) }

func h4refVideoRTP(pt byte, ssrc uint32, rate uint16, interval float32, mtu uint16) []byte {
	return h4cat(h4item(1, pt), h4item(2, h4u32(ssrc)...), h4item(3, h4u16(rate)...),
		h4item(4, h4u32(math.Float32bits(interval))...), h4item(5, h4u16(mtu)...))
}

func h4refAudioRTP(pt byte, ssrc uint32, rate uint16, interval float32, cn byte) []byte {
	return h4cat(h4item(1, pt), h4item(2, h4u32(ssrc)...), h4item(3, h4u16(rate)...),
		h4item(4, h4u32(math.Float32bits(interval))...), h4item(6, cn))
}

var h4sid = []byte{1, 2, 3, 4, 5, 6, 7, 8, 9, 10, 11, 12, 13, 14, 15, 16}

// what a specification-conformant controller writes to start a stream
func h4refSelected() []byte {
	session := h4cat(h4item(1, h4sid...), h4item(2, 1))
	video := h4cat(
		h4item(1, 0),
		h4item(2, h4cat(h4item(1, 1), h4item(2, 2), h4item(3, 0))...),
		h4item(3, h4cat(h4item(1, h4u16(1280)...), h4item(2, h4u16(720)...), h4item(3, 30))...),
		h4item(4, h4refVideoRTP(99, 0x11223344, 299, 0.5, 1378)...),
	)
	audio := h4cat(
		h4item(1, 3),
		h4item(2, h4cat(h4item(1, 1), h4item(2, 0), h4item(3, 1))...),
		h4item(3, h4refAudioRTP(110, 0x55667788, 24, 5, 13)...),
		h4item(4, 0),
	)
	return h4cat(h4item(1, session...), h4item(2, video...), h4item(3, audio...))
}

func h4value() StreamConfiguration {
	return StreamConfiguration{
		Command: SessionControlCommand{Identifier: h4sid, Type: 1},
		Video: VideoParameters{
			CodecType: 0,
			CodecParams: VideoCodecParameters{
				Profiles:       []VideoCodecProfile{{1}},
				Levels:         []VideoCodecLevel{{2}},
				Packetizations: []VideoCodecPacketization{{0}},
			},
			Attributes: VideoCodecAttributes{1280, 720, 30},
			RTP:        RTPParams{PayloadType: 99, Ssrc: 0x11223344, Bitrate: 299, Interval: 0.5, MTU: 1378},
		},
		Audio: AudioParameters{
			CodecType:    3,
			CodecParams:  AudioCodecParameters{1, 0, 1},
			RTP:          RTPParams{PayloadType: 110, Ssrc: 0x55667788, Bitrate: 24, Interval: 5, ComfortNoisePayloadType: 13},
			ComfortNoise: false,
		},
	}
}

// Clause: "the bytes produced are the little-endian TLV8 encoding a specification-conformant
// peer expects" -- read from the other side: the selected stream configuration which a
// conformant controller writes is decoded into the wrong fields. The video max MTU (tag 5,
// two bytes) lands, truncated to its low byte, in ComfortNoisePayloadType and MTU stays 0;
// the audio comfort-noise payload type (tag 6) lands in MTU.
func TestH4SelectedStreamConfigurationFromConformantController(t *testing.T) {
	var cfg StreamConfiguration
	if err := tlv8.Unmarshal(h4refSelected(), &cfg); err != nil {
		t.Fatal(err)
	}
	if is, want := cfg.Video.RTP.MTU, uint16(1378); is != want {
		t.Errorf("video max MTU: is=%v want=%v", is, want)
	}
	if is, want := cfg.Video.RTP.ComfortNoisePayloadType, uint8(0); is != want {
		t.Errorf("video comfort noise payload type (not sent): is=%v want=%v", is, want)
	}
	if is, want := cfg.Audio.RTP.ComfortNoisePayloadType, uint8(13); is != want {
		t.Errorf("audio comfort noise payload type: is=%v want=%v", is, want)
	}
	if is, want := cfg.Audio.RTP.MTU, uint16(0); is != want {
		t.Errorf("audio MTU (not sent): is=%v want=%v", is, want)
	}
}

// Clause: "the bytes produced are the little-endian TLV8 encoding a specification-conformant
// peer expects". RTP parameters with the fields of one medium set are marshalled; the items are
// compared with the reference encoder (items of value 0 of the other medium are ignored).
func TestH4RTPParamsMarshalMatchesReference(t *testing.T) {
	v := h4value()

	b, err := tlv8.Marshal(v.Video.RTP)
	if err != nil {
		t.Fatal(err)
	}
	want := h4refVideoRTP(99, 0x11223344, 299, 0.5, 1378)
	if !bytes.Contains(b, h4item(5, h4u16(1378)...)) {
		t.Errorf("video RTP parameters: no item <5: max MTU = 1378>\n is   = % x\n want = % x", b, want)
	}

	b, err = tlv8.Marshal(v.Audio.RTP)
	if err != nil {
		t.Fatal(err)
	}
	want = h4refAudioRTP(110, 0x55667788, 24, 5, 13)
	if !bytes.Contains(b, h4item(6, 13)) {
		t.Errorf("audio RTP parameters: no item <6: comfort noise payload type = 13>\n is   = % x\n want = % x", b, want)
	}
}

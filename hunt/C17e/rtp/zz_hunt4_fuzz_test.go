package rtp

import (
	"fmt"
	"math/rand"
	"reflect"
	"testing"

	"github.com/brutella/hc/tlv8"
)

func h4gen(r *rand.Rand, depth int) []byte {
	var out []byte
	n := r.Intn(6)
	for i := 0; i < n; i++ {
		tag := byte(r.Intn(8))
		var v []byte
		switch r.Intn(5) {
		case 0:
			if depth < 3 {
				v = h4gen(r, depth+1)
			}
		case 1:
			v = make([]byte, r.Intn(5))
			r.Read(v)
		case 2:
			v = make([]byte, []int{0, 1, 2, 3, 4, 7, 8, 255, 256, 300}[r.Intn(10)])
			r.Read(v)
		case 3:
			out = append(out, 0, 0)
			continue
		case 4:
			v = []byte{byte(r.Intn(3))}
		}
		for len(v) > 255 {
			out = append(out, tag, 255)
			out = append(out, v[:255]...)
			v = v[255:]
		}
		out = append(out, tag, byte(len(v)))
		out = append(out, v...)
	}
	if r.Intn(10) == 0 && len(out) > 0 {
		out = out[:r.Intn(len(out))]
	}
	return out
}

func TestH4FuzzUnmarshal(t *testing.T) {
	r := rand.New(rand.NewSource(17))
	types := []reflect.Type{
		reflect.TypeOf(SetupEndpoints{}), reflect.TypeOf(SetupEndpointsResponse{}),
		reflect.TypeOf(StreamConfiguration{}), reflect.TypeOf(VideoStreamConfiguration{}),
		reflect.TypeOf(AudioStreamConfiguration{}), reflect.TypeOf(Configuration{}), reflect.TypeOf(StreamingStatus{}),
	}
	for it := 0; it < 200000; it++ {
		b := h4gen(r, 0)
		if r.Intn(4) == 0 {
			b = make([]byte, r.Intn(40))
			r.Read(b)
			for i := range b {
				if r.Intn(2) == 0 {
					b[i] = byte(r.Intn(6))
				}
			}
		}
		for _, ty := range types {
			func() {
				defer func() {
					if x := recover(); x != nil {
						t.Fatalf("panic %v for %v input %v", x, ty, b)
					}
				}()
				v := reflect.New(ty)
				err := tlv8.Unmarshal(b, v.Interface())
				if err == nil {
					// re-marshal what was decoded and decode again: must be stable
					b2, err := tlv8.Marshal(v.Elem().Interface())
					if err != nil {
						t.Fatalf("marshal of decoded value: %v", err)
					}
					v2 := reflect.New(ty)
					if err := tlv8.Unmarshal(b2, v2.Interface()); err != nil {
						t.Fatalf("unmarshal of remarshalled: %v (%v) input %v", err, ty, b)
					}
					if !h4eq(v.Elem().Interface(), v2.Elem().Interface()) {
						t.Fatalf("%v: not stable\n input %v\n v1=%+v\n b2=%v\n v2=%+v", ty, b, v.Elem().Interface(), b2, v2.Elem().Interface())
					}
				}
			}()
		}
	}
}

func h4eq(a, b interface{}) bool {
	return fmt.Sprintf("%+v", a) == fmt.Sprintf("%+v", b)
}

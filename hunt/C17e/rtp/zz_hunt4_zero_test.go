package rtp

import (
	"fmt"
	"math/rand"
	"testing"

	"github.com/brutella/hc/tlv8"
)

func TestH4ZeroHeavyRoundTrip(t *testing.T) {
	r := rand.New(rand.NewSource(1))
	small := func() byte { return byte(r.Intn(2)) }
	for it := 0; it < 20000; it++ {
		var v VideoStreamConfiguration
		for i := 0; i < 1+r.Intn(3); i++ {
			c := VideoCodecConfiguration{Type: small()}
			for j := 0; j < r.Intn(4); j++ {
				c.Parameters.Profiles = append(c.Parameters.Profiles, VideoCodecProfile{small()})
			}
			for j := 0; j < r.Intn(4); j++ {
				c.Parameters.Levels = append(c.Parameters.Levels, VideoCodecLevel{small()})
			}
			for j := 0; j < r.Intn(4); j++ {
				c.Parameters.Packetizations = append(c.Parameters.Packetizations, VideoCodecPacketization{small()})
			}
			for j := 0; j < 1+r.Intn(4); j++ {
				c.Attributes = append(c.Attributes, VideoCodecAttributes{uint16(small()), uint16(small()) * 256, small()})
			}
			if len(c.Parameters.Profiles)+len(c.Parameters.Levels)+len(c.Parameters.Packetizations) == 0 {
				c.Parameters.Levels = []VideoCodecLevel{{0}}
			}
			v.Codecs = append(v.Codecs, c)
		}
		b, err := tlv8.Marshal(v)
		if err != nil {
			t.Fatal(err)
		}
		var out VideoStreamConfiguration
		if err := tlv8.Unmarshal(b, &out); err != nil {
			t.Fatal(err)
		}
		if fmt.Sprintf("%+v", v) != fmt.Sprintf("%+v", out) {
			t.Fatalf("\n in=%+v\nout=%+v\n% x", v, out, b)
		}

		var a AudioStreamConfiguration
		for i := 0; i < 1+r.Intn(3); i++ {
			a.Codecs = append(a.Codecs, AudioCodecConfiguration{small(), AudioCodecParameters{small(), small(), small()}})
		}
		a.ComfortNoise = r.Intn(2) == 0
		b, _ = tlv8.Marshal(a)
		var aout AudioStreamConfiguration
		if err := tlv8.Unmarshal(b, &aout); err != nil {
			t.Fatal(err)
		}
		if fmt.Sprintf("%+v", a) != fmt.Sprintf("%+v", aout) {
			t.Fatalf("\n in=%+v\nout=%+v\n% x", a, aout, b)
		}

		var c Configuration
		for i := 0; i < 1+r.Intn(4); i++ {
			c.Suites = append(c.Suites, SupportedCryptoSuite{small()})
		}
		b, _ = tlv8.Marshal(c)
		var cout Configuration
		if err := tlv8.Unmarshal(b, &cout); err != nil {
			t.Fatal(err)
		}
		if fmt.Sprintf("%+v", c) != fmt.Sprintf("%+v", cout) {
			t.Fatalf("\n in=%+v\nout=%+v\n% x", c, cout, b)
		}
	}
}

package tlv8

import (
	"fmt"
	"math"
	"math/rand"
	"reflect"
	"testing"
)

type h4In struct {
	A uint8  `tlv8:"1"`
	B string `tlv8:"2"`
}

type h4All struct {
	U8  uint8   `tlv8:"1"`
	U16 uint16  `tlv8:"2"`
	U32 uint32  `tlv8:"3"`
	U64 uint64  `tlv8:"4"`
	I16 int16   `tlv8:"5"`
	I32 int32   `tlv8:"6"`
	I64 int64   `tlv8:"7"`
	F   float32 `tlv8:"8"`
	Bo  bool    `tlv8:"9"`
	S   string  `tlv8:"10"`
	By  []byte  `tlv8:"11"`
	N   h4In    `tlv8:"12"`
	P   *h4In   `tlv8:"13"`
	TL  []h4In  `tlv8:"14"`
	T0  []h4In  `tlv8:"0"`
	TF  []h4In  `tlv8:"255"`
	IL  []h4IL  `tlv8:"-"`
}
type h4IL struct {
	Q uint16 `tlv8:"20"`
	R []byte `tlv8:"21"`
	N h4In   `tlv8:"22"`

}

func h4rb(r *rand.Rand, n int) []byte {
	b := make([]byte, n)
	r.Read(b)
	return b
}

var h4lens = []int{1, 2, 254, 255, 256, 509, 510, 511, 765, 1000}

func h4in(r *rand.Rand) h4In {
	return h4In{uint8(r.Uint32()), string(h4rb(r, h4lens[r.Intn(len(h4lens))]))}
}

func h4ext64(r *rand.Rand) uint64 {
	return []uint64{0, 1, 0x7f, 0x80, 0xff, 0x100, 0x7fff, 0x8000, 0xffff, 0x7fffffff, 0x80000000, 0xffffffff, 0x100000000, 0x7fffffffffffffff, 0x8000000000000000, 0xffffffffffffffff, r.Uint64()}[r.Intn(17)]
}

func TestH4RoundTripRandom(t *testing.T) {
	r := rand.New(rand.NewSource(4))
	for it := 0; it < 3000; it++ {
		p := h4in(r)
		in := h4All{
			U8: uint8(h4ext64(r)), U16: uint16(h4ext64(r)), U32: uint32(h4ext64(r)), U64: h4ext64(r),
			I16: int16(h4ext64(r)), I32: int32(h4ext64(r)), I64: int64(h4ext64(r)),
			F: math.Float32frombits(uint32(h4ext64(r))), Bo: r.Intn(2) == 0,
			S: string(h4rb(r, h4lens[r.Intn(len(h4lens))])), By: h4rb(r, h4lens[r.Intn(len(h4lens))]),
			N: h4in(r), P: &p,
		}
		if in.F != in.F {
			in.F = float32(math.Inf(-1))
		}
		for i := 0; i < r.Intn(4)+1; i++ {
			in.TL = append(in.TL, h4in(r))
			in.T0 = append(in.T0, h4in(r))
			in.TF = append(in.TF, h4in(r))
		}
		for i := 0; i < r.Intn(4)+1; i++ {
			in.IL = append(in.IL, h4IL{uint16(h4ext64(r)), h4rb(r, h4lens[r.Intn(len(h4lens))]), h4in(r)})
		}
		b, err := Marshal(in)
		if err != nil {
			t.Fatal(err)
		}
		var out h4All
		if err := Unmarshal(b, &out); err != nil {
			t.Fatal(err)
		}
		if !reflect.DeepEqual(in, out) {
			vi, vo := reflect.ValueOf(in), reflect.ValueOf(out)
			for f := 0; f < vi.NumField(); f++ {
				if !reflect.DeepEqual(vi.Field(f).Interface(), vo.Field(f).Interface()) {
					t.Errorf("it %d field %s differs: in=%.300q out=%.300q", it, vi.Type().Field(f).Name, fmt.Sprintf("%+v", vi.Field(f).Interface()), fmt.Sprintf("%+v", vo.Field(f).Interface()))
				}
			}
			t.FailNow()
		}
		// mutate and decode: no panic
		for k := 0; k < 20; k++ {
			m := append([]byte{}, b...)
			for j := 0; j < 1+r.Intn(4); j++ {
				switch r.Intn(3) {
				case 0:
					m[r.Intn(len(m))] = byte(r.Intn(256))
				case 1:
					m = m[:r.Intn(len(m))+1]
				case 2:
					i := r.Intn(len(m))
					m = append(m[:i], m[i+1:]...)
				}
				if len(m) == 0 {
					m = []byte{0}
				}
			}
			func() {
				defer func() {
					if x := recover(); x != nil {
						t.Fatalf("panic %v on %v", x, m)
					}
				}()
				var out h4All
				Unmarshal(m, &out)
			}()
		}
	}
}

package tlv8

import (
	"reflect"
	"testing"
)

// The package's own tests establish pointers to nested structs as a supported field kind
// (user.Pwd *password in marshal_test.go); encoder and decoder both carry code for pointers
// (interfaceOf, newValueOf).

type h4Inner struct {
	A uint8  `tlv8:"1"`
	B string `tlv8:"2"`
}

type h4PtrOuter struct {
	X uint8    `tlv8:"1"`
	P *h4Inner `tlv8:"2"`
	Y uint8    `tlv8:"3"`
}

// Clause: "Marshalling a tagged struct and unmarshalling the result returns an equal value for
// every supported field kind (... nested structs ...)". A nested struct held by pointer which is
// absent is decoded as nil by Unmarshal -- and Marshal of that very value panics
// ("reflect: call of reflect.Value.Interface on zero Value") instead of leaving the item out.
func TestH4MarshalOfDecodedValueWithAbsentNestedStruct(t *testing.T) {
	var v h4PtrOuter
	if err := Unmarshal([]byte{1, 1, 7, 3, 1, 9}, &v); err != nil {
		t.Fatal(err)
	}
	if v.P != nil || v.X != 7 || v.Y != 9 {
		t.Fatalf("decoded %+v", v)
	}

	var b []byte
	var err error
	func() {
		defer func() {
			if r := recover(); r != nil {
				t.Fatalf("Marshal(%+v) panics: %v", v, r)
			}
		}()
		b, err = Marshal(v)
	}()
	if err != nil {
		t.Fatal(err)
	}

	var back h4PtrOuter
	if err := Unmarshal(b, &back); err != nil {
		t.Fatal(err)
	}
	if !reflect.DeepEqual(v, back) {
		t.Fatalf("is=%+v want=%+v", back, v)
	}
}

type h4PtrList struct {
	L []*h4Inner `tlv8:"2"`
}

type h4PtrInline struct {
	L []*h4Inner `tlv8:"-"`
}

// Clauses: round trip of tagged and inline lists; "Unmarshalling arbitrary bytes returns a value
// or an error without panicking". Lists whose elements are pointers to structs are marshalled
// (the encoder dereferences the elements) but Unmarshal of those bytes panics
// ("reflect: call of reflect.Value.NumField on ptr Value").
func TestH4ListOfPointersRoundTrip(t *testing.T) {
	check := func(name string, in, out interface{}) {
		b, err := Marshal(in)
		if err != nil {
			t.Fatal(err)
		}
		func() {
			defer func() {
				if r := recover(); r != nil {
					t.Errorf("%s: Unmarshal(% x) panics: %v", name, b, r)
				}
			}()
			if err := Unmarshal(b, out); err != nil {
				t.Errorf("%s: %v", name, err)
				return
			}
			if !reflect.DeepEqual(in, reflect.ValueOf(out).Elem().Interface()) {
				t.Errorf("%s: is=%+v want=%+v", name, out, in)
			}
		}()
	}
	check("tagged", h4PtrList{[]*h4Inner{{1, "a"}, {2, "b"}}}, &h4PtrList{})
	check("inline", h4PtrInline{[]*h4Inner{{1, "a"}, {2, "b"}}}, &h4PtrInline{})
}

package hc

import (
	"fmt"
	"os"
	"os/exec"
	"strings"
	"testing"
	"time"

	"github.com/brutella/hc/accessory"
)

// Clause of C20 shown broken: "it advertises itself as discoverable exactly
// when no controller pairing is stored".
//
// Configuration: a fresh storage (no pairing stored) and an accessory whose
// Name value contains a character outside the PRECIS identifier class, such as
// the typographic apostrophe iOS keyboards insert, an en dash, a degree sign or
// an emoji. util.RemoveAccentsFromString drops the error of the PRECIS profile
// and returns "", dnssd.NewService rejects the empty name, and newService
// (ip_transport.go) answers with log.Info.Fatal: Start() terminates the whole
// process with exit status 1 instead of advertising sf=1.
//
// Start() calls os.Exit, so the transport runs in a child process (the test
// binary itself, selected by ZZ_HUNT4_CHILD).
func TestZZHunt4_UnpairedAccessoryWithTypographicNameIsAdvertised(t *testing.T) {
	if name := os.Getenv("ZZ_HUNT4_CHILD"); name != "" {
		zzHunt4Child(name)
		return
	}

	for _, name := range []string{
		"Plain Lamp",         // control: passes
		"Café Lamp",          // control: accents are what the function is for
		"Zoë’s Light",        // U+2019, what iOS types for '
		"Wohnzimmer – Licht", // en dash
		"Heizung 21°C",       // degree sign
		"Lamp ☕",             // emoji / symbol
	} {
		cmd := exec.Command(os.Args[0], "-test.run", "^TestZZHunt4_UnpairedAccessoryWithTypographicNameIsAdvertised$")
		cmd.Env = append(os.Environ(), "ZZ_HUNT4_CHILD="+name, "ZZ_HUNT4_DIR="+t.TempDir())
		out, err := cmd.CombinedOutput()
		if err != nil || !strings.Contains(string(out), "ADVERTISED sf=1") {
			t.Errorf("accessory %q, no pairing stored: not advertised as discoverable: child: %v\n%s", name, err, out)
		}
	}
}

func zzHunt4Child(name string) {
	a := accessory.NewSwitch(accessory.Info{Name: name})
	tr, err := NewIPTransport(Config{StoragePath: os.Getenv("ZZ_HUNT4_DIR")}, a.Accessory)
	if err != nil {
		fmt.Println("NewIPTransport:", err)
		os.Exit(3)
	}
	go tr.Start()
	time.Sleep(700 * time.Millisecond)
	if tr.handle == nil {
		fmt.Println("no service registered")
		os.Exit(4)
	}
	svc := tr.handle.Service()
	fmt.Printf("ADVERTISED sf=%s as %q\n", svc.Text["sf"], svc.Name)
	os.Exit(0)
}

package hc

import (
	"fmt"
	"os"
	"runtime"
	"strings"
	"sync"
	"testing"

	"github.com/brutella/hc/util"
)

func zzDecode(uri string) (code uint64, cat uint64, flags uint64, ver uint64, res uint64, setupID string, ok bool) {
	if !strings.HasPrefix(uri, "X-HM://") || len(uri) < 7+9 {
		return
	}
	p := uri[7 : 7+9]
	setupID = uri[7+9:]
	var v uint64
	for _, ch := range p {
		var d uint64
		switch {
		case ch >= '0' && ch <= '9':
			d = uint64(ch - '0')
		case ch >= 'A' && ch <= 'Z':
			d = uint64(ch-'A') + 10
		default:
			return
		}
		v = v*36 + d
	}
	code = v & 0x7ffffff
	flags = (v >> 27) & 0xf
	cat = (v >> 31) & 0xff
	res = (v >> 39) & 0xf
	ver = (v >> 43) & 0x7
	ok = true
	return
}

func TestZZPinsExhaustive(t *testing.T) {
	if os.Getenv("ZZFULL") == "" {
		t.Skip("set ZZFULL=1")
	}
	trivial := map[string]bool{"12345678": true, "87654321": true}
	for d := 0; d < 10; d++ {
		trivial[strings.Repeat(fmt.Sprint(d), 8)] = true
	}
	n := runtime.NumCPU()
	var wg sync.WaitGroup
	errs := make(chan string, 100)
	for w := 0; w < n; w++ {
		wg.Add(1)
		go func(w int) {
			defer wg.Done()
			buf := make([]byte, 8)
			for c := w; c < 100000000; c += n {
				x := c
				for i := 7; i >= 0; i-- {
					buf[i] = byte('0' + x%10)
					x /= 10
				}
				pin := string(buf)
				f, err := ValidatePin(pin)
				if (err == nil) == trivial[pin] {
					select {
					case errs <- fmt.Sprintf("pin %s: err %v", pin, err):
					default:
					}
					continue
				}
				if err == nil && f != pin[:3]+"-"+pin[3:5]+"-"+pin[5:] {
					errs <- "fmt " + pin + " " + f
				}
				cat := uint8(c * 7 % 256)
				fl := util.SetupFlag(c % 16)
				uri, err := util.XHMURI(pin, "AB12", cat, []util.SetupFlag{fl & 1, fl & 2, fl & 4, fl & 8})
				code, dc, dfl, ver, res, sid, ok := zzDecode(uri)
				if err != nil || !ok || code != uint64(c) || dc != uint64(cat) || dfl != uint64(fl) || ver != 0 || res != 0 || sid != "AB12" || len(uri) != 20 {
					select {
					case errs <- fmt.Sprintf("uri %s for %s %d %d: %v %d %d %d", uri, pin, cat, fl, err, code, dc, dfl):
					default:
					}
				}
			}
		}(w)
	}
	wg.Wait()
	close(errs)
	for e := range errs {
		t.Error(e)
	}
}

func TestZZPinsOther(t *testing.T) {
	bad := []string{"", "1", "1234567", "123456789", "0010200a", "001-02-003", "001-02-0", " 0010200", "0010200 ", "+0010200", "-0010200", "0010200\n", "٠٠١٠٢٠٠٣", "１２３４５６７９", "0010.003", "1e234567", "0x102003", "00102003\x00", "\x0000102003", "001020\xff3", "१२३४", "0_102003"}
	for _, p := range bad {
		if f, err := ValidatePin(p); err == nil {
			t.Errorf("%q accepted as %q", p, f)
		}
		if _, err := NewIPTransport(Config{StoragePath: t.TempDir(), Pin: p}, zzBuild(0, nil)[0]); err == nil && p != "" {
			t.Errorf("transport accepted %q", p)
		}
	}
}

package hc

import (
	"strings"
	"testing"
	"time"

	"github.com/brutella/dnssd"
	"github.com/brutella/hc/accessory"
	"github.com/miekg/dns"
)

// Clause of C20 shown broken: "it advertises itself as discoverable exactly
// when no controller pairing is stored" (BORDERLINE: the encoding happens in the
// third-party packages dnssd / miekg-dns, hc hands the name over unchecked).
//
// Configuration: fresh storage, an accessory whose Name value ends with a dot
// ("Heizung Wohnz."), contains two dots in a row, or is 64 bytes long (the
// longest name HAP allows). newService (ip_transport.go:330-347) uses the name
// as the DNS-SD instance name without escaping dots or limiting it to one
// 63-byte label. dnssd builds "<name>._hap._tcp.local." from it; miekg/dns
// cannot pack that ("dns: bad rdata"), and dnssd drops messages which do not
// pack without reporting it. Start() runs, nothing is ever announced or
// answered: the accessory is not discoverable although no pairing is stored.
//
// The test takes the service which the running transport registered with its
// responder and encodes the announcement (SRV, PTR, TXT) the way
// dnssd.announceAtInterface does.
func TestZZHunt4_AnnouncementOfUnpairedAccessoryCanBeEncoded(t *testing.T) {
	for _, name := range []string{
		"Plain Lamp",            // control
		strings.Repeat("n", 63), // control
		"Heizung Wohnz.",
		"Lamp..2",
		strings.Repeat("n", 64),
	} {
		a := accessory.NewSwitch(accessory.Info{Name: name})
		tr, err := NewIPTransport(Config{StoragePath: t.TempDir()}, a.Accessory)
		if err != nil {
			t.Fatal(err)
		}
		go tr.Start()
		for i := 0; i < 200 && tr.handle == nil; i++ {
			time.Sleep(10 * time.Millisecond)
		}
		time.Sleep(100 * time.Millisecond)
		svc := tr.handle.Service()
		if svc.Text["sf"] != "1" {
			t.Errorf("%q: sf=%s without a pairing", name, svc.Text["sf"])
		}
		msg := new(dns.Msg)
		msg.Answer = []dns.RR{dnssd.SRV(svc), dnssd.PTR(svc), dnssd.TXT(svc)}
		msg.Response = true
		msg.Authoritative = true
		if _, err := msg.Pack(); err != nil {
			t.Errorf("accessory %q, no pairing stored: the announcement of %q cannot be encoded and is never sent: %v", name, svc.ServiceInstanceName(), err)
		}
		<-tr.Stop()
	}
}

package hc

import (
	"bytes"
	"fmt"
	"io"
	"math/rand"
	nethttp "net/http"
	"net/http/httptest"
	"os"
	"sort"
	"strings"
	"testing"
	"time"

	"github.com/brutella/dnssd"
	"github.com/brutella/hc/accessory"
	"github.com/brutella/hc/db"
	"github.com/brutella/hc/hap"
	"github.com/brutella/hc/hap/endpoint"
	"github.com/brutella/hc/hap/pair"
	"github.com/brutella/hc/service"
	"github.com/brutella/hc/util"
)

type zzFakeHandle struct {
	text map[string]string
	n    int
}

func (h *zzFakeHandle) UpdateText(text map[string]string, r dnssd.Responder) { h.text = text; h.n++ }
func (h *zzFakeHandle) Service() dnssd.Service                               { return dnssd.Service{} }

// structure variants
func zzBuild(variant int, rnd *rand.Rand) []*accessory.Accessory {
	if rnd == nil {
		rnd = rand.New(rand.NewSource(1))
	}
	info := func(n string) accessory.Info {
		return accessory.Info{Name: n, SerialNumber: fmt.Sprint(rnd.Intn(1000)), Manufacturer: fmt.Sprint("m", rnd.Intn(1000)), Model: fmt.Sprint("x", rnd.Intn(10)), FirmwareRevision: fmt.Sprintf("%d.%d", rnd.Intn(9), rnd.Intn(9))}
	}
	var as []*accessory.Accessory
	switch variant {
	case 0:
		s := accessory.NewSwitch(info("Acc"))
		s.Switch.On.SetValue(rnd.Intn(2) == 0)
		as = append(as, s.Accessory)
	case 1:
		s := accessory.NewSwitch(info("Acc"))
		s.Switch.On.SetValue(rnd.Intn(2) == 0)
		l := service.NewLightbulb()
		l.On.SetValue(rnd.Intn(2) == 0)
		s.AddService(l.Service)
		as = append(as, s.Accessory)
	case 2:
		b := accessory.NewBridge(info("Acc"))
		th := accessory.NewTemperatureSensor(info("T"), rnd.Float64()*50, 0, 100, 0.1)
		th.TempSensor.CurrentTemperature.SetValue(rnd.Float64() * 100)
		as = append(as, b.Accessory, th.Accessory)
	case 3:
		b := accessory.NewBridge(info("Acc"))
		th := accessory.NewThermostat(info("T"), rnd.Float64()*30, 10, 38, 0.1)
		th.Thermostat.TargetTemperature.SetValue(10 + rnd.Float64()*20)
		o := accessory.NewOutlet(info("O"))
		o.Outlet.On.SetValue(rnd.Intn(2) == 0)
		as = append(as, b.Accessory, th.Accessory, o.Accessory)
	case 4:
		b := accessory.NewBridge(info("Acc"))
		o := accessory.NewOutlet(info("O"))
		th := accessory.NewThermostat(info("T"), rnd.Float64()*30, 10, 38, 0.1)
		as = append(as, b.Accessory, o.Accessory, th.Accessory)
	case 5:
		l := accessory.NewColoredLightbulb(info("Acc"))
		l.Lightbulb.Hue.SetValue(rnd.Float64() * 360)
		l.Lightbulb.Brightness.SetValue(rnd.Intn(100))
		as = append(as, l.Accessory)
	}
	return as
}

func zzPairSetup(t *testing.T, port string, pin string, name string) (rerr error) {
	defer func() {
		if r := recover(); r != nil { // the client-role controller panics on an error code
			rerr = fmt.Errorf("client panic: %v", r)
		}
	}()
	cdb, _ := db.NewTempDatabase()
	c, _ := hap.NewDevice(name, cdb)
	client := pair.NewSetupClientController(pin, c, cdb)
	hc := &nethttp.Client{Transport: &nethttp.Transport{MaxConnsPerHost: 1}}
	defer hc.CloseIdleConnections()
	post := func(r io.Reader) (io.Reader, error) {
		resp, err := hc.Post("http://127.0.0.1:"+port+"/pair-setup", hap.HTTPContentTypePairingTLV8, r)
		if err != nil {
			return nil, err
		}
		defer resp.Body.Close()
		b, _ := io.ReadAll(resp.Body)
		if resp.StatusCode != 200 {
			return nil, fmt.Errorf("status %d", resp.StatusCode)
		}
		return bytes.NewReader(b), nil
	}
	req := client.InitialPairingRequest()
	for i := 0; i < 3; i++ {
		resp, err := post(req)
		if err != nil {
			return err
		}
		req, err = pair.HandleReaderForHandler(resp, client)
		if err != nil {
			return err
		}
	}
	return nil
}

func zzPairings(tr *ipTransport, method pair.PairMethodType, name string, key []byte) int {
	ep := endpoint.NewPairing(pair.NewPairingController(tr.database), tr.emitter)
	in := util.NewTLV8Container()
	in.SetByte(pair.TagSequence, 1)
	in.SetByte(pair.TagPairingMethod, method.Byte())
	in.SetString(pair.TagUsername, name)
	if key != nil {
		in.SetBytes(pair.TagPublicKey, key)
		in.SetByte(pair.TagPermission, 0)
	}
	rec := httptest.NewRecorder()
	req := httptest.NewRequest("POST", "/pairings", in.BytesBuffer())
	ep.ServeHTTP(rec, req)
	return rec.Code
}

func zzFiles(dir string) map[string]string {
	m := map[string]string{}
	es, _ := os.ReadDir(dir)
	for _, e := range es {
		b, _ := os.ReadFile(dir + "/" + e.Name())
		m[e.Name()] = string(b)
	}
	return m
}

func TestZZHistory(t *testing.T) {
	seed := time.Now().UnixNano()
	if s := os.Getenv("ZZSEED"); s != "" {
		fmt.Sscan(s, &seed)
	}
	t.Log("seed", seed)
	rnd := rand.New(rand.NewSource(seed))
	for h := 0; h < 6; h++ {
		zzOneHistory(t, rnd)
	}
}

func zzOneHistory(t *testing.T, rnd *rand.Rand) {
	dir, _ := os.MkdirTemp("", "zzh")
	defer os.RemoveAll(dir)

	var (
		modelID      string
		modelPub     string
		modelPairs   = map[string]bool{}
		modelVersion = int64(1)
		lastVariant  = -1
	)
	names := []string{"ctrl-A", "ctrl-B", "", "AA:BB:CC:DD:EE:FF", "uuid", "version", strings.Repeat("n", 60), "\xff\xfe", "ctrl-a"}
	variant := rnd.Intn(6)
	for run := 0; run < 5; run++ {
		if rnd.Intn(2) == 0 {
			variant = rnd.Intn(6)
		}
		as := zzBuild(variant, rnd)
		tr, err := NewIPTransport(Config{StoragePath: dir, Pin: "11122333"}, as[0], as[1:]...)
		if err != nil {
			t.Fatal(err)
		}
		if lastVariant != -1 && lastVariant != variant {
			modelVersion++
		}
		lastVariant = variant
		go tr.Start()
		for i := 0; tr.server == nil || tr.handle == nil; i++ {
			time.Sleep(10 * time.Millisecond)
		}
		time.Sleep(50 * time.Millisecond)
		real := tr.handle
		startTxt := real.Service().Text
		fake := &zzFakeHandle{}
		tr.handle = fake
		if rnd.Intn(4) == 0 {
			// the real handle for the whole run: UpdateText sleeps a second.
			// Wait until the responder has registered the service (the
			// announcement window is known and not the subject here).
			time.Sleep(2500 * time.Millisecond)
			tr.handle = real
		}

		check := func(where string, txt map[string]string) {
			if modelID == "" {
				modelID = txt["id"]
				modelPub = string(tr.device.PublicKey())
			}
			if txt["id"] != modelID || tr.device.Name() != modelID {
				t.Fatalf("%s: id %s / %s, expected %s", where, txt["id"], tr.device.Name(), modelID)
			}
			if string(tr.device.PublicKey()) != modelPub {
				t.Fatalf("%s: key pair changed", where)
			}
			if txt["c#"] != fmt.Sprint(modelVersion) {
				t.Fatalf("%s: c# %s expected %d (variant %d)", where, txt["c#"], modelVersion, variant)
			}
			wantSf := "1"
			if len(modelPairs) > 0 {
				wantSf = "0"
			}
			if txt["sf"] != wantSf {
				t.Fatalf("%s: sf %s expected %s; pairs %v files %v", where, txt["sf"], wantSf, modelPairs, zzFiles(dir))
			}
			// stored pairings
			es, err := tr.database.Entities()
			if err != nil {
				t.Fatalf("%s: %v", where, err)
			}
			var got, want []string
			for _, e := range es {
				if e.Name != modelID {
					got = append(got, e.Name)
				}
			}
			for n := range modelPairs {
				want = append(want, n)
			}
			sort.Strings(got)
			sort.Strings(want)
			if fmt.Sprintf("%q", got) != fmt.Sprintf("%q", want) {
				t.Fatalf("%s: pairings %q expected %q", where, got, want)
			}
		}
		check(fmt.Sprintf("run %d start", run), startTxt)

		nops := rnd.Intn(5)
		for op := 0; op < nops; op++ {
			name := names[rnd.Intn(len(names))]
			if rnd.Intn(6) == 0 {
				name = modelID
			}
			where := ""
			switch rnd.Intn(4) {
			case 0:
				err := zzPairSetup(t, tr.server.Port(), "111-22-333", name)
				where = fmt.Sprintf("run %d op %d pair-setup %q: %v", run, op, name, err)
				if err == nil {
					if name == modelID {
						t.Fatal("paired under the name of the accessory")
					}
					modelPairs[name] = true
				} else if name == modelID {
				} else if strings.Contains(err.Error(), "invalid") {
					// known SRP flake
					t.Log(where)
				} else {
					t.Fatal(where)
				}
			case 1:
				code := zzPairings(tr, pair.PairingMethodAdd, name, bytes.Repeat([]byte{byte(op + 1)}, 32))
				where = fmt.Sprintf("run %d op %d add %q: %d", run, op, name, code)
				if code == 200 {
					modelPairs[name] = true
				}
			case 2:
				code := zzPairings(tr, pair.PairingMethodDelete, name, nil)
				where = fmt.Sprintf("run %d op %d delete %q: %d", run, op, name, code)
				if code == 200 {
					delete(modelPairs, name)
				}
			case 3:
				// value changes
				for _, a := range as {
					for _, s := range a.Services {
						for _, c := range s.Characteristics {
							switch c.Format {
							case "bool":
								c.UpdateValue(rnd.Intn(2) == 0)
							case "string":
								if c.Type != "23" {
									c.UpdateValue(fmt.Sprint("v", rnd.Intn(100)))
								}
							case "float":
								c.UpdateValue(rnd.Float64() * 100)
							default:
								c.UpdateValue(rnd.Intn(100))
							}
						}
					}
				}
				where = fmt.Sprintf("run %d op %d values", run, op)
			}
			txt := fake.text
			if tr.handle == real {
				txt = real.Service().Text
				fake.text = nil
			}
			if txt == nil {
				txt = tr.config.txtRecords()
			}
			t.Log(where, txt["sf"], txt["c#"])
			check(where, txt)
		}
		select {
		case <-tr.Stop():
		case <-time.After(5 * time.Second):
			t.Fatal("stop timeout")
		}
		f := zzFiles(dir)
		if f["uuid"] != modelID || f["version"] != fmt.Sprint(modelVersion) {
			t.Fatalf("files after run %d: %v (id %s version %d)", run, f, modelID, modelVersion)
		}
	}
}

package accessory

import (
	"bytes"
	"encoding/json"
	"fmt"
	"math"
	"math/rand"
	"testing"

	"github.com/brutella/hc/characteristic"
	"github.com/brutella/hc/service"
)

func zzAllServices() []*service.Service {
	return []*service.Service{
		service.NewAccessoryInformation().Service,
		service.NewAirPurifier().Service,
		service.NewAirQualitySensor().Service,
		service.NewBatteryService().Service,
		service.NewBridgeConfiguration().Service,
		service.NewBridgingState().Service,
		service.NewCameraControl().Service,
		service.NewCameraRTPStreamManagement().Service,
		service.NewCameraRecordingManagement().Service,
		service.NewCarbonDioxideSensor().Service,
		service.NewCarbonMonoxideSensor().Service,
		service.NewColoredLightbulb().Service,
		service.NewContactSensor().Service,
		service.NewCooler().Service,
		service.NewDoor().Service,
		service.NewDoorbell().Service,
		service.NewFan().Service,
		service.NewFanV2().Service,
		service.NewFaucet().Service,
		service.NewFilterMaintenance().Service,
		service.NewGarageDoorOpener().Service,
		service.NewHeater().Service,
		service.NewHeaterCooler().Service,
		service.NewHumidifierDehumidifier().Service,
		service.NewHumiditySensor().Service,
		service.NewInputSource().Service,
		service.NewIrrigationSystem().Service,
		service.NewLeakSensor().Service,
		service.NewLightSensor().Service,
		service.NewLightbulb().Service,
		service.NewLockManagement().Service,
		service.NewLockMechanism().Service,
		service.NewMicrophone().Service,
		service.NewMotionSensor().Service,
		service.NewOccupancySensor().Service,
		service.NewOutlet().Service,
		service.NewSecuritySystem().Service,
		service.NewServiceLabel().Service,
		service.NewSlat().Service,
		service.NewSmokeSensor().Service,
		service.NewSpeaker().Service,
		service.NewStatefulProgrammableSwitch().Service,
		service.NewStatelessProgrammableSwitch().Service,
		service.NewSwitch().Service,
		service.NewTelevision().Service,
		service.NewTemperatureSensor().Service,
		service.NewThermostat().Service,
		service.NewTimeInformation().Service,
		service.NewTunneledBTLEAccessoryService().Service,
		service.NewValve().Service,
		service.NewWifiTransport().Service,
		service.NewWindow().Service,
		service.NewWindowCovering().Service,
	}
}

func zzRandomValue(c *characteristic.Characteristic, rnd *rand.Rand) interface{} {
	switch rnd.Intn(6) {
	case 0:
		return rnd.Intn(2) == 0
	case 1:
		return rnd.Intn(2000) - 1000
	case 2:
		return rnd.Float64()*2000 - 1000
	case 3:
		return fmt.Sprint("s", rnd.Intn(100), "\"value\":{}")
	case 4:
		return []byte{byte(rnd.Intn(256)), 2, 3}
	default:
		return []interface{}{int64(math.MaxInt64), math.SmallestNonzeroFloat64, "", "value", -0.0, 1e300, uint64(math.MaxUint64), int8(-3), float32(0.1), nil}[rnd.Intn(10)]
	}
}

// clause: the configuration number never increases because characteristic values changed
// (the hash which decides it must not depend on values).
func TestZZHashIgnoresValues(t *testing.T) {
	rnd := rand.New(rand.NewSource(7))
	build := func() *Container {
		c := NewContainer()
		b := NewBridge(Info{Name: "B"})
		c.AddAccessory(b.Accessory)
		for i, s := range zzAllServices() {
			a := New(Info{Name: fmt.Sprint("A", i)}, TypeOther)
			a.AddService(s)
			c.AddAccessory(a)
		}
		c.AddAccessory(NewCamera(Info{Name: "cam"}).Accessory)
		c.AddAccessory(NewTelevision(Info{Name: "tv"}).Accessory)
		c.AddAccessory(NewThermostat(Info{Name: "th"}, 20, 10, 30, 0.5).Accessory)
		c.AddAccessory(NewTemperatureSensor(Info{Name: "ts"}, 20, -10, 30, 0.5).Accessory)
		c.AddAccessory(NewWindow(Info{Name: "w"}, 1).Accessory)
		c.AddAccessory(NewColoredLightbulb(Info{Name: "cl"}).Accessory)
		return c
	}
	c := build()
	h0 := c.ContentHash()
	if h1 := build().ContentHash(); !bytes.Equal(h0, h1) {
		t.Fatal("not deterministic")
	}
	meta := func() string {
		var sb bytes.Buffer
		for _, a := range c.Accessories {
			for _, s := range a.Services {
				for _, ch := range s.Characteristics {
					fmt.Fprintf(&sb, "%d.%d %s %v %q %s %s %d %v %v %v|", a.ID, ch.ID, ch.Type, ch.Perms, ch.Description, ch.Format, ch.Unit, ch.MaxLen, ch.MaxValue, ch.MinValue, ch.StepValue)
				}
			}
		}
		return sb.String()
	}
	m0 := meta()
	for round := 0; round < 300; round++ {
		for _, a := range c.Accessories {
			for _, s := range a.Services {
				for _, ch := range s.Characteristics {
					func() {
						defer func() {
							if r := recover(); r != nil {
								// conversions of foreign types may panic; not the subject here
							}
						}()
						v := zzRandomValue(ch, rnd)
						if rnd.Intn(2) == 0 {
							ch.UpdateValue(v)
						} else {
							ch.UpdateValueFromConnection(v, nil)
						}
					}()
				}
			}
		}
		var h []byte
		func() {
			defer func() {
				if r := recover(); r != nil {
					b, err := json.Marshal(c)
					t.Fatalf("round %d: ContentHash panicked: %v (%d %v)", round, r, len(b), err)
				}
			}()
			h = c.ContentHash()
		}()
		if !bytes.Equal(h, h0) {
			t.Fatalf("round %d: hash changed by values", round)
		}
		if m := meta(); m != m0 {
			t.Fatalf("round %d: metadata changed by values", round)
		}
	}
}

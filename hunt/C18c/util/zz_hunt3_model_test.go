package util

import (
	"bytes"
	"fmt"
	"math/rand"
	"os"
	"path/filepath"
	"sort"
	"strings"
	"testing"
)

// runHistory drives a random history of Set / Get / Delete / KeysWithSuffix /
// reopen against a reference map. It returns the first divergence.
func hunt3RunHistory(t *testing.T, seed int64, keys []string, steps int) error {
	rnd := rand.New(rand.NewSource(seed))
	dir := filepath.Join(os.Getenv("TMPDIR"), fmt.Sprintf("hunt3-model-%d-%d", os.Getpid(), seed))
	os.RemoveAll(dir)
	defer os.RemoveAll(dir)

	st, err := NewFileStorage(dir)
	if err != nil {
		return err
	}
	ref := map[string][]byte{}
	var log []string

	for i := 0; i < steps; i++ {
		k := keys[rnd.Intn(len(keys))]
		switch op := rnd.Intn(10); {
		case op < 4: // set
			var n int
			switch rnd.Intn(4) {
			case 0:
				n = 0
			case 1:
				n = rnd.Intn(40)
			case 2:
				n = 4096
			default:
				n = rnd.Intn(4097)
			}
			v := make([]byte, n)
			rnd.Read(v)
			log = append(log, fmt.Sprintf("Set(%q, %d bytes)", k, n))
			if err := st.Set(k, v); err != nil {
				return fmt.Errorf("%v: Set: %v", log[len(log)-1], err)
			}
			ref[k] = v
		case op < 6: // delete
			log = append(log, fmt.Sprintf("Delete(%q)", k))
			err := st.Delete(k)
			_, live := ref[k]
			if live && err != nil {
				return fmt.Errorf("%v: live key: %v", log[len(log)-1], err)
			}
			if !live && err == nil {
				return fmt.Errorf("%v: dead key deleted without error", log[len(log)-1])
			}
			delete(ref, k)
		case op < 7: // reopen
			log = append(log, "reopen")
			if st, err = NewFileStorage(dir); err != nil {
				return err
			}
		case op < 8: // list
			suffixes := []string{"", ".txt", ".tmp", ".entity", "t", k}
			suffix := suffixes[rnd.Intn(len(suffixes))]
			log = append(log, fmt.Sprintf("KeysWithSuffix(%q)", suffix))
			got, err := st.KeysWithSuffix(suffix)
			if err != nil {
				return err
			}
			var want []string
			for rk := range ref {
				if strings.HasSuffix(rk, suffix) {
					want = append(want, rk)
				}
			}
			sort.Strings(got)
			sort.Strings(want)
			if fmt.Sprint(got) != fmt.Sprint(want) {
				return fmt.Errorf("after %v: listing %q is=%q want=%q", tail(log), suffix, got, want)
			}
		default:
		}
		// check every key after every step
		for _, ck := range keys {
			got, err := st.Get(ck)
			want, live := ref[ck]
			if live {
				if err != nil {
					return fmt.Errorf("after %v: Get(%q) live key: %v", tail(log), ck, err)
				}
				if !bytes.Equal(got, want) {
					return fmt.Errorf("after %v: Get(%q) is %d bytes want %d bytes", tail(log), ck, len(got), len(want))
				}
			} else if err == nil {
				return fmt.Errorf("after %v: Get(%q) dead key returned %d bytes, no error", tail(log), ck, len(got))
			}
		}
	}
	return nil
}

func tail(l []string) []string {
	if len(l) > 6 {
		return l[len(l)-6:]
	}
	return l
}

// plain keys: nothing surprising in the names
func TestHunt3ModelPlainKeys(t *testing.T) {
	keys := []string{"uuid", "version", "configHash", "a.txt", "b.txt", "c.dat", "My Accessory.serial", "6162.entity", ".entity", "UPPER", "upper", "ünï.txt", "with space", "-dash", "~tilde"}
	for seed := int64(1); seed <= 30; seed++ {
		if err := hunt3RunHistory(t, seed, keys, 300); err != nil {
			t.Fatalf("seed %d: %v", seed, err)
		}
	}
}

// keys whose names are related to each other
func TestHunt3ModelRelatedKeys(t *testing.T) {
	pools := map[string][]string{
		"tmp":      {"k", "k.tmp", "k.tmp.tmp", "other"},
		"colon":    {"a:b", "ab", "a:b.txt", "ab.txt", ":"},
		"dots":     {"k", "k.", ".k", "k..", "..k"},
		"slash":    {"k", "k/", "./k"},
		"long":     {strings.Repeat("a", 250), strings.Repeat("a", 251), strings.Repeat("a", 252), strings.Repeat("a", 255)},
		"trailing": {"k", "k ", " k"},
	}
	for name, keys := range pools {
		keys := keys
		t.Run(name, func(t *testing.T) {
			for seed := int64(1); seed <= 10; seed++ {
				if err := hunt3RunHistory(t, seed, keys, 200); err != nil {
					t.Errorf("seed %d: %v", seed, err)
					break
				}
			}
		})
	}
}

package util

import (
	"bytes"
	"sync"
	"testing"
)

// OUTSIDE the quantifier (histories are sequential): two writers of one key
// share one temporary file.
func TestHunt3ConcurrentSetSameKey(t *testing.T) {
	st, _ := hunt3Storage(t, "conc")
	a := bytes.Repeat([]byte("a"), 4096)
	b := bytes.Repeat([]byte("b"), 1000)
	bad, errs := 0, 0
	for i := 0; i < 2000; i++ {
		var wg sync.WaitGroup
		var e1, e2 error
		wg.Add(2)
		go func() { defer wg.Done(); e1 = st.Set("k", a) }()
		go func() { defer wg.Done(); e2 = st.Set("k", b) }()
		wg.Wait()
		if e1 != nil || e2 != nil {
			errs++
		}
		got, err := st.Get("k")
		if err != nil || !(bytes.Equal(got, a) || bytes.Equal(got, b)) {
			bad++
		}
	}
	if bad > 0 || errs > 0 {
		t.Errorf("of 2000 rounds: %d ended with a value that is neither writer's, %d with a Set error", bad, errs)
	}
}

package util

import (
	"bytes"
	"os"
	"path/filepath"
	"reflect"
	"sort"
	"strings"
	"testing"
)

func hunt3Storage(t *testing.T, name string) (Storage, string) {
	dir := filepath.Join(os.Getenv("TMPDIR"), "hunt3-keys-"+name)
	os.RemoveAll(dir)
	t.Cleanup(func() { os.RemoveAll(dir) })
	st, err := NewFileStorage(dir)
	if err != nil {
		t.Fatal(err)
	}
	return st, dir
}

// Clause: "a get returns exactly the last value set for that key" and
// "listing returns exactly the live entries".
//
// History over two keys: Set("state.tmp", A); Set("state", B).
// Set writes the value of key K into the file of key K+".tmp" and renames it
// (util/file_storage.go Set, tempFileSuffix): the second Set truncates the file
// of the live key "state.tmp" and then moves it away. The key "state.tmp" was
// never deleted but is gone; before the rename it holds the value of the other
// key.
func TestHunt3SetDestroysSiblingKeyWithTmpSuffix(t *testing.T) {
	st, _ := hunt3Storage(t, "tmp")

	a := []byte("value of state.tmp")
	b := []byte("value of state")
	if err := st.Set("state.tmp", a); err != nil {
		t.Fatal(err)
	}
	if err := st.Set("state", b); err != nil {
		t.Fatal(err)
	}

	// reopen: the loss is on disk
	st, _ = NewFileStorage(st.(*fileStorage).dirPath)

	if got, err := st.Get("state"); err != nil || !bytes.Equal(got, b) {
		t.Errorf("Get(state) = %q, %v", got, err)
	}
	if got, err := st.Get("state.tmp"); err != nil || !bytes.Equal(got, a) {
		t.Errorf("Get(state.tmp) = %q, %v; want %q (set, never deleted)", got, err, a)
	}
	keys, _ := st.KeysWithSuffix("")
	sort.Strings(keys)
	if want := []string{"state", "state.tmp"}; !reflect.DeepEqual(keys, want) {
		t.Errorf("KeysWithSuffix(\"\") = %q want %q", keys, want)
	}
}

// Same root cause, overwrite flavour: the sibling is not only removed, an
// application that sets it again afterwards and then overwrites the base key
// loses it again; and Delete of the (live) sibling reports not-found.
func TestHunt3OverwriteDestroysSiblingKeyWithTmpSuffix(t *testing.T) {
	st, _ := hunt3Storage(t, "tmp2")
	st.Set("k", []byte("1"))
	st.Set("k.tmp", []byte("sibling"))
	st.Set("k", []byte("a longer value 2")) // overwrite with a longer value
	if err := st.Delete("k.tmp"); err != nil {
		t.Errorf("Delete(k.tmp) of a live key: %v", err)
	}
}

// Clause: "a get returns exactly the last value set for that key" (after an
// overwrite) for a key of 252..255 bytes. Such a key is a valid file name and
// Get / Delete accept it, Set cannot store it because the temporary file name
// is four bytes longer than the key (regression of the atomic-replace repair:
// the in-place Set stored these keys).
func TestHunt3LongKeyCannotBeSet(t *testing.T) {
	st, dir := hunt3Storage(t, "long")
	for _, n := range []int{251, 252, 255} {
		key := strings.Repeat("k", n)
		err := st.Set(key, []byte("v"))
		if err != nil {
			t.Errorf("Set(%d byte key): %v", n, shortErr(err, dir))
			continue
		}
		if got, err := st.Get(key); err != nil || string(got) != "v" {
			t.Errorf("Get(%d byte key) = %q, %v", n, got, err)
		}
	}
}

func shortErr(err error, dir string) string {
	s := err.Error()
	if i := strings.LastIndex(s, ": "); i >= 0 {
		return "..." + s[i:]
	}
	return s
}

// Clause: "listing returns exactly the live entries" / "a get returns exactly
// the last value set for that key or not-found after a delete".
//
// The key-to-file mapping drops every ':' (removeInvalidFileNameCharacters), so
// it is not injective and listing cannot give back the key:
//   - one key: Set("AA:BB.state") is listed as "AABB.state";
//   - two keys: "a:b" and "ab" are one entry: setting one overwrites the other,
//     deleting one deletes the other.
func TestHunt3ColonKeys(t *testing.T) {
	st, _ := hunt3Storage(t, "colon")

	st.Set("AA:BB.state", []byte("x"))
	keys, err := st.KeysWithSuffix(".state")
	if want := []string{"AA:BB.state"}; err != nil || !reflect.DeepEqual(keys, want) {
		t.Errorf("KeysWithSuffix(.state) = %q, %v; want %q", keys, err, want)
	}

	st.Set("a:b", []byte("first"))
	st.Set("ab", []byte("second"))
	if got, err := st.Get("a:b"); err != nil || string(got) != "first" {
		t.Errorf("Get(a:b) = %q, %v; want \"first\"", got, err)
	}
	st.Delete("ab")
	if got, err := st.Get("a:b"); err != nil || string(got) != "first" {
		t.Errorf("after Delete(ab): Get(a:b) = %q, %v; want \"first\"", got, err)
	}
	// a key that was never set is found
	if got, err := st.Get(":"); err == nil {
		t.Errorf("Get(\":\") of a key never set = %q, nil; want not-found", got)
	}
}

// Clause: "not-found" / "exactly the last value set": keys which differ only in
// path syntax are one entry (filepath.Join cleans the name), and a key can name
// a file outside the storage directory.
func TestHunt3PathSyntaxKeys(t *testing.T) {
	st, dir := hunt3Storage(t, "path")

	st.Set("k", []byte("first"))
	if err := st.Set("./k", []byte("second")); err == nil {
		if got, _ := st.Get("k"); string(got) != "first" {
			t.Errorf("after Set(./k): Get(k) = %q want \"first\"", got)
		}
	}
	if got, err := st.Get(""); err == nil {
		t.Errorf("Get(\"\") of a key never set = %q, nil; want not-found", got)
	}
	if got, err := st.Get("."); err == nil {
		t.Errorf("Get(\".\") of a key never set = %q, nil; want not-found", got)
	}

	// a failing Set of the key "" leaves a file beside (outside) the directory
	if err := st.Set("", []byte("v")); err == nil {
		if got, err := st.Get(""); err != nil || string(got) != "v" {
			t.Errorf("Set(\"\") succeeded, Get(\"\") = %q, %v", got, err)
		}
		st.Delete("")
	}
	if _, err := os.Stat(dir + ".tmp"); err == nil {
		os.Remove(dir + ".tmp")
		t.Errorf("Set(\"\") left %s behind, outside the storage directory", filepath.Base(dir)+".tmp")
	}

	// escapes the directory
	if err := st.Set("../hunt3-escaped", []byte("v")); err == nil {
		p := filepath.Join(filepath.Dir(dir), "hunt3-escaped")
		if _, err := os.Stat(p); err == nil {
			os.Remove(p)
			t.Errorf("Set(../hunt3-escaped) wrote outside the storage directory")
		}
	}
}

// Exported helper beside the storage: the serial number of an accessory whose
// name contains '/' is not persistent, because the failing Set is ignored.
func TestHunt3SerialForNameWithSlash(t *testing.T) {
	st, _ := hunt3Storage(t, "serial")
	one := GetSerialNumberForAccessoryName("A/C", st)
	two := GetSerialNumberForAccessoryName("A/C", st)
	if one != two {
		t.Errorf("serial of accessory \"A/C\" changes between calls: %s, %s", one, two)
	}
}

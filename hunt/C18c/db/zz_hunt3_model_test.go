package db

import (
	"bytes"
	"fmt"
	"math/rand"
	"os"
	"path/filepath"
	"sort"
	"strings"
	"testing"

	"github.com/brutella/hc/util"
)

func hunt3Names(rnd *rand.Rand) []string {
	names := []string{"", "a", "A", "a ", "My Name", "AA:BB:CC:DD:EE:FF", "\x00", "\xff", "\xff\xfe", "\xfe\xff", "a\xffb", "a\xfeb", "a�b",
		"../x", "x/y", ".", "..", "ab", "6162", strings.Repeat("\xff", 100), strings.Repeat("z", 100), strings.Repeat("z", 99) + "y"}
	for i := 0; i < 6; i++ {
		b := make([]byte, rnd.Intn(101))
		rnd.Read(b)
		names = append(names, string(b))
	}
	return names
}

func hunt3Key(rnd *rand.Rand) []byte {
	switch rnd.Intn(5) {
	case 0:
		return nil
	case 1:
		return []byte{}
	case 2:
		b := make([]byte, 4096)
		rnd.Read(b)
		return b
	default:
		b := make([]byte, rnd.Intn(64))
		rnd.Read(b)
		return b
	}
}

func hunt3SameEntity(a, b Entity) bool {
	return a.Name == b.Name && bytes.Equal(a.PublicKey, b.PublicKey) && bytes.Equal(a.PrivateKey, b.PrivateKey)
}

func hunt3RunDB(seed int64, steps int, shared bool) error {
	rnd := rand.New(rand.NewSource(seed))
	dir := filepath.Join(os.Getenv("TMPDIR"), fmt.Sprintf("hunt3-db-%d-%d", os.Getpid(), seed))
	os.RemoveAll(dir)
	defer os.RemoveAll(dir)

	open := func() (Database, util.Storage, error) {
		if shared {
			st, err := util.NewFileStorage(dir)
			if err != nil {
				return nil, nil, err
			}
			return NewDatabaseWithStorage(st), st, nil
		}
		d, err := NewDatabase(dir)
		return d, nil, err
	}
	d, st, err := open()
	if err != nil {
		return err
	}
	names := hunt3Names(rnd)
	ref := map[string]Entity{}
	var log []string
	for i := 0; i < steps; i++ {
		n := names[rnd.Intn(len(names))]
		switch op := rnd.Intn(10); {
		case op < 4:
			e := NewEntity(n, hunt3Key(rnd), hunt3Key(rnd))
			log = append(log, fmt.Sprintf("Save(%q,%d,%d)", n, len(e.PublicKey), len(e.PrivateKey)))
			if err := d.SaveEntity(e); err != nil {
				return fmt.Errorf("%v: %v", log, err)
			}
			ref[n] = e
		case op < 6:
			log = append(log, fmt.Sprintf("Delete(%q)", n))
			d.DeleteEntity(Entity{Name: n})
			delete(ref, n)
		case op < 7:
			log = append(log, "reopen")
			if d, st, err = open(); err != nil {
				return err
			}
		case op < 8 && shared:
			// what the transport stores beside the entities
			ks := []string{"uuid", "version", "configHash", n + ".serial"}
			k := ks[rnd.Intn(len(ks))]
			v := make([]byte, rnd.Intn(100))
			rnd.Read(v)
			log = append(log, fmt.Sprintf("storage.Set(%q)", k))
			st.Set(k, v) // may fail for odd names; not checked here
		}
		if len(log) > 8 {
			log = log[len(log)-8:]
		}

		for _, cn := range names {
			got, err := d.EntityWithName(cn)
			want, live := ref[cn]
			if live {
				if err != nil {
					return fmt.Errorf("after %v: EntityWithName(%q): %v", log, cn, err)
				}
				if !hunt3SameEntity(got, want) {
					return fmt.Errorf("after %v: EntityWithName(%q) is=%q/%d/%d want %q/%d/%d", log, cn, got.Name, len(got.PublicKey), len(got.PrivateKey), want.Name, len(want.PublicKey), len(want.PrivateKey))
				}
			} else if err == nil {
				return fmt.Errorf("after %v: EntityWithName(%q) found a dead entity %q", log, cn, got.Name)
			}
		}
		es, err := d.Entities()
		if err != nil {
			return fmt.Errorf("after %v: Entities: %v", log, err)
		}
		var gotNames, wantNames []string
		for _, e := range es {
			gotNames = append(gotNames, e.Name)
			if w, ok := ref[e.Name]; !ok || !hunt3SameEntity(e, w) {
				return fmt.Errorf("after %v: Entities lists %q which is not live / differs", log, e.Name)
			}
		}
		for n := range ref {
			wantNames = append(wantNames, n)
		}
		sort.Strings(gotNames)
		sort.Strings(wantNames)
		if fmt.Sprintf("%q", gotNames) != fmt.Sprintf("%q", wantNames) {
			return fmt.Errorf("after %v: Entities is=%q want=%q", log, gotNames, wantNames)
		}
	}
	return nil
}

func TestHunt3ModelDB(t *testing.T) {
	for seed := int64(1); seed <= 20; seed++ {
		if err := hunt3RunDB(seed, 200, false); err != nil {
			t.Fatalf("seed %d: %v", seed, err)
		}
	}
}

func TestHunt3ModelDBSharedStorage(t *testing.T) {
	for seed := int64(1); seed <= 20; seed++ {
		if err := hunt3RunDB(seed, 200, true); err != nil {
			t.Fatalf("seed %d: %v", seed, err)
		}
	}
}

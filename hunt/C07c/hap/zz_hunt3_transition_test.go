package hap

import (
	"bytes"
	"testing"
	"time"
)

// Connection-level view of TestH3E2EFirstFramePipelinedBehindM3 (hap/http): the calls are
// issued in the order in which net/http issues them. net/http starts a one byte "background"
// read as soon as the handler has read the request body to its end, i.e. before the pair-verify
// handler installs the keys. The controller sent its first frame in the same segment as the
// pair-verify finish request.
//
// Clause: "Data read from an encrypted connection is exactly the concatenation of the
// plaintexts the peer sent" / "never signals a decryption error while the peer is sending
// well-formed frames". (Borderline: the frame arrives before the accessory answered M3.)
func TestH3TransitionFrameBehindFinishRequest(t *testing.T) {
	server, client := h3Pair(t)
	m3 := []byte("POST /pair-verify HTTP/1.1\r\nContent-Length: 3\r\n\r\nabc")
	msg := []byte("GET /accessories HTTP/1.1\r\nHost: x\r\n\r\n")
	segment := append(append([]byte{}, m3...), h3Encrypt(t, client, msg)...)

	conn := &h3Conn{script: []h3Event{{data: segment}}}
	ctx := NewContextForSecuredDevice(nil)
	hc := NewConnection(conn, ctx)

	// net/http reads the request (it asks for 4096 bytes and gets one at a time)
	var req []byte
	for len(req) < len(m3) {
		if len(req) == len(m3)-3 {
			// the handler starts; with the suggested repair the endpoint announces the body
			if h, ok := interface{}(hc).(interface{ HoldReadsAfter(int64) }); ok {
				h.HoldReadsAfter(3)
			}
		}
		b := make([]byte, 4096)
		n, err := hc.Read(b)
		if err != nil {
			t.Fatal(err)
		}
		req = append(req, b[:n]...)
	}
	if !bytes.Equal(req, m3) {
		t.Fatalf("request %q", req)
	}

	// the body hit EOF: net/http starts its background read of one byte ...
	var got []byte
	one := make([]byte, 1)
	done := make(chan int, 1)
	go func() {
		n, err := hc.Read(one)
		t.Logf("background read: (%d, %v) %x", n, err, one[:n])
		done <- n
	}()
	returned := false
	select {
	case n := <-done:
		got = append(got, one[:n]...)
		returned = true
	case <-time.After(100 * time.Millisecond):
		// the read waits (repaired library)
	}

	// ... then the handler has verified the controller and installs the keys, M4 is written
	ctx.GetSessionForConnection(conn).SetCryptographer(server)
	hc.Write([]byte("HTTP/1.1 200 OK\r\n\r\n"))
	if !returned {
		got = append(got, one[:<-done]...)
	}

	// net/http reads the next request
	for len(got) < len(msg) {
		b := make([]byte, 4096)
		n, err := hc.Read(b)
		got = append(got, b[:n]...)
		if err != nil {
			t.Errorf("Read = (%d, %v) after %d of %d bytes", n, err, len(got), len(msg))
			break
		}
	}
	if !bytes.Equal(got, msg) {
		t.Errorf("read %q (% x ...), the peer sent %q", got, got[:1], msg)
	}
}

package http

import (
	"bufio"
	"bytes"
	"context"
	"encoding/binary"
	"fmt"
	"io"
	"io/ioutil"
	mrand "math/rand"
	"net"
	"net/http"
	"reflect"
	"sync"
	"syscall"
	"testing"
	"time"
	"unsafe"

	"github.com/brutella/hc/accessory"
	"github.com/brutella/hc/crypto"
	"github.com/brutella/hc/db"
	"github.com/brutella/hc/event"
	"github.com/brutella/hc/hap"
	"github.com/brutella/hc/hap/pair"
	"github.com/brutella/hc/util"
)

type h3Env struct {
	srv      *Server
	cancel   context.CancelFunc
	client   hap.Device
	clientDB db.Database
	acc      *accessory.Switch
	ctx      hap.Context
}

// h3SlowDB is a database whose look-ups take a while (a slow disk)
type h3SlowDB struct {
	db.Database
	delay time.Duration
}

func (d h3SlowDB) EntityWithName(name string) (db.Entity, error) {
	time.Sleep(d.delay)
	return d.Database.EntityWithName(name)
}

func h3Start(t testing.TB) *h3Env { return h3StartSlow(t, 0) }

func h3StartSlow(t testing.TB, delay time.Duration) *h3Env {
	storage, err := util.NewTempFileStorage()
	if err != nil {
		t.Fatal(err)
	}
	database := db.NewDatabaseWithStorage(storage)
	device, err := hap.NewSecuredDevice("Hunt Bridge", "001-02-003", database)
	if err != nil {
		t.Fatal(err)
	}
	hctx := hap.NewContextForSecuredDevice(device)

	clientDB, _ := db.NewTempDatabase()
	if err := clientDB.SaveEntity(db.NewEntity(device.Name(), device.PublicKey(), nil)); err != nil {
		t.Fatal(err)
	}
	client, _ := hap.NewDevice("Hunt Client", clientDB)
	if err := database.SaveEntity(db.NewEntity(client.Name(), client.PublicKey(), nil)); err != nil {
		t.Fatal(err)
	}

	acc := accessory.NewSwitch(accessory.Info{Name: "Switch"})
	container := accessory.NewContainer()
	container.AddAccessory(acc.Accessory)

	if delay > 0 {
		database = h3SlowDB{database, delay}
	}
	srv := NewServer(Config{
		Port:      "127.0.0.1:0",
		Context:   hctx,
		Database:  database,
		Container: container,
		Device:    device,
		Mutex:     &sync.Mutex{},
		Emitter:   event.NewEmitter(),
	})
	ctx, cancel := context.WithCancel(context.Background())
	go func() {
		server := http.Server{Handler: srv.Mux}
		go func() {
			<-ctx.Done()
			srv.listener.Close()
		}()
		server.Serve(srv)
	}()
	return &h3Env{srv: srv, cancel: cancel, client: client, clientDB: clientDB, acc: acc, ctx: hctx}
}

func h3SharedKey(v *pair.VerifyClientController) [32]byte {
	f := reflect.ValueOf(v).Elem().FieldByName("session")
	s := *(**pair.VerifySession)(unsafe.Pointer(f.UnsafeAddr()))
	return s.SharedKey
}

func h3Post(path string, body []byte) []byte {
	var b bytes.Buffer
	fmt.Fprintf(&b, "POST %s HTTP/1.1\r\nHost: hunt\r\nContent-Type: application/pairing+tlv8\r\nContent-Length: %d\r\n\r\n", path, len(body))
	b.Write(body)
	return b.Bytes()
}

// h3Verify runs pair-verify M1..M2 and returns the M3 request bytes and the client's session
func h3VerifyUntilM3(t testing.TB, e *h3Env, c net.Conn, br *bufio.Reader) ([]byte, crypto.Cryptographer) {
	v := pair.NewVerifyClientController(e.client, e.clientDB)
	m1, _ := ioutil.ReadAll(v.InitialKeyVerifyRequest())
	if _, err := c.Write(h3Post("/pair-verify", m1)); err != nil {
		t.Fatal(err)
	}
	resp, err := http.ReadResponse(br, nil)
	if err != nil {
		t.Fatal(err)
	}
	m2, _ := ioutil.ReadAll(resp.Body)
	resp.Body.Close()
	m3r, err := pair.HandleReaderForHandler(bytes.NewReader(m2), v)
	if err != nil {
		t.Fatal(err)
	}
	m3, _ := ioutil.ReadAll(m3r)
	cs, err := crypto.NewSecureClientSessionFromSharedKey(h3SharedKey(v))
	if err != nil {
		t.Fatal(err)
	}
	return h3Post("/pair-verify", m3), cs
}

func h3Enc(t testing.TB, cs crypto.Cryptographer, msg []byte) []byte {
	r, err := cs.Encrypt(bytes.NewReader(msg))
	if err != nil {
		t.Fatal(err)
	}
	b, _ := ioutil.ReadAll(r)
	return b
}

// h3ReadFrames reads encrypted frames from br until a complete HTTP response has been decrypted
func h3ReadEncryptedResponse(cs crypto.Cryptographer, c net.Conn, br *bufio.Reader, d time.Duration) (*http.Response, []byte, error) {
	var plain bytes.Buffer
	c.SetReadDeadline(time.Now().Add(d))
	defer c.SetReadDeadline(time.Time{})
	for {
		var hdr [2]byte
		if _, err := io.ReadFull(br, hdr[:]); err != nil {
			return nil, plain.Bytes(), err
		}
		l := int(binary.LittleEndian.Uint16(hdr[:]))
		frame := make([]byte, 2+l+16)
		copy(frame, hdr[:])
		if _, err := io.ReadFull(br, frame[2:]); err != nil {
			return nil, plain.Bytes(), err
		}
		r, err := cs.Decrypt(bytes.NewReader(frame))
		if err != nil {
			return nil, plain.Bytes(), fmt.Errorf("client could not decrypt: %v (frame starts %q)", err, frame[:8])
		}
		io.Copy(&plain, r)
		b := plain.Bytes()
		b = bytes.Replace(b, []byte("EVENT/1.0"), []byte("HTTP/1.0"), 1)
		resp, err := http.ReadResponse(bufio.NewReader(bytes.NewReader(b)), nil)
		if err == nil {
			body, err := ioutil.ReadAll(resp.Body)
			if err == nil {
				return resp, body, nil
			}
		}
	}
}

// h3ReadM4 reads the plain-text M4 response. It returns false when the known key hand-over
// race struck (M4 was sent encrypted): the iteration is to be skipped then.
func h3ReadM4(c net.Conn, br *bufio.Reader) bool {
	c.SetReadDeadline(time.Now().Add(2 * time.Second))
	defer c.SetReadDeadline(time.Time{})
	p, err := br.Peek(5)
	if err != nil || string(p) != "HTTP/" {
		return false
	}
	resp, err := http.ReadResponse(br, nil)
	if err != nil {
		return false
	}
	ioutil.ReadAll(resp.Body)
	return resp.StatusCode == 200
}

// Control: the controller waits for M4 and then sends its first encrypted request.
func TestH3E2EWaitForM4(t *testing.T) {
	e := h3Start(t)
	defer e.cancel()
	skipped := 0
	for i := 0; i < 50; i++ {
		c, err := net.Dial("tcp", e.srv.listener.Addr().String())
		if err != nil {
			t.Fatal(err)
		}
		br := bufio.NewReader(c)
		m3, cs := h3VerifyUntilM3(t, e, c, br)
		c.Write(m3)
		if !h3ReadM4(c, br) {
			skipped++
			c.Close()
			continue
		}
		c.Write(h3Enc(t, cs, []byte("GET /accessories HTTP/1.1\r\nHost: hunt\r\n\r\n")))
		r, body, err := h3ReadEncryptedResponse(cs, c, br, 2*time.Second)
		if err != nil {
			t.Fatalf("iteration %d: %v", i, err)
		}
		if r.StatusCode != 200 || len(body) == 0 {
			t.Fatalf("status %d body %q", r.StatusCode, body)
		}
		c.Close()
	}
	t.Logf("skipped %d of 50 (known M4 race)", skipped)
}

// The controller sends the pair-verify finish request (M3) and its first encrypted request in
// one segment: it knows the session keys since M2. (Borderline: the controller does not wait for M4.)
func TestH3E2EFirstFramePipelinedBehindM3(t *testing.T) {
	h3Pipelined(t, h3Start(t), 30)
}

// The same with a storage that needs 20 ms per look-up: deterministic.
func TestH3E2EFirstFramePipelinedBehindM3SlowStorage(t *testing.T) {
	h3Pipelined(t, h3StartSlow(t, 20*time.Millisecond), 5)
}

func h3Pipelined(t *testing.T, e *h3Env, N int) {
	defer e.cancel()
	skipped, failed := 0, 0
	var firstErr error
	for i := 0; i < N; i++ {
		c, err := net.Dial("tcp", e.srv.listener.Addr().String())
		if err != nil {
			t.Fatal(err)
		}
		br := bufio.NewReader(c)
		m3, cs := h3VerifyUntilM3(t, e, c, br)
		req := h3Enc(t, cs, []byte("GET /accessories HTTP/1.1\r\nHost: hunt\r\n\r\n"))
		c.Write(append(append([]byte{}, m3...), req...))
		if !h3ReadM4(c, br) {
			skipped++
			c.Close()
			continue
		}
		r, body, err := h3ReadEncryptedResponse(cs, c, br, 2*time.Second)
		if err != nil || r.StatusCode != 200 || len(body) == 0 {
			failed++
			if firstErr == nil {
				firstErr = fmt.Errorf("iteration %d: err=%v", i, err)
			}
		}
		c.Close()
	}
	t.Logf("skipped %d (known M4 race), failed %d of %d", skipped, failed, N)
	if failed > 0 {
		t.Errorf("the first encrypted request, sent in one segment with M3, was not answered in %d of %d connections: %v", failed, N-skipped, firstErr)
	}
}

// Steady state over real TCP: requests of many sizes (header padding), written in random
// pieces with pauses, several requests per write; every request must be answered, in order.
func TestH3E2ESegmentation(t *testing.T) {
	e := h3Start(t)
	defer e.cancel()
	var c net.Conn
	var br *bufio.Reader
	var cs crypto.Cryptographer
	for {
		var err error
		c, err = net.Dial("tcp", e.srv.listener.Addr().String())
		if err != nil {
			t.Fatal(err)
		}
		br = bufio.NewReader(c)
		var m3 []byte
		m3, cs = h3VerifyUntilM3(t, e, c, br)
		c.Write(m3)
		if h3ReadM4(c, br) {
			break
		}
		c.Close()
	}
	defer c.Close()
	rnd := mrand.New(mrand.NewSource(3))
	pads := []int{0, 1, 900, 979, 980, 981, 982, 983, 984, 985, 2000, 2004, 2005, 2006, 3000, 3050, 3053, 3054, 3055}
	for i := 0; i < 300; i++ {
		k := 1 + rnd.Intn(3)
		var stream []byte
		for j := 0; j < k; j++ {
			pad := pads[rnd.Intn(len(pads))]
			if rnd.Intn(3) == 0 {
				pad = rnd.Intn(3500)
			}
			req := fmt.Sprintf("GET /characteristics?id=1.%d HTTP/1.1\r\nHost: hunt\r\nX-Pad: %s\r\n\r\n", 9+rnd.Intn(2), bytes.Repeat([]byte("a"), pad))
			stream = append(stream, h3Enc(t, cs, []byte(req))...)
		}
		done := make(chan struct{})
		go func() {
			defer close(done)
			rest := stream
			for len(rest) > 0 {
				n := 1 + rnd.Intn(len(rest))
				if rnd.Intn(2) == 0 && n > 3 {
					n = 1 + rnd.Intn(3)
				}
				c.Write(rest[:n])
				rest = rest[n:]
				if rnd.Intn(2) == 0 {
					time.Sleep(time.Duration(rnd.Intn(300)) * time.Microsecond)
				}
			}
		}()
		<-done
		for j := 0; j < k; j++ {
			r, body, err := h3ReadEncryptedResponse(cs, c, br, 3*time.Second)
			if err != nil {
				t.Fatalf("round %d request %d of %d (stream %d bytes): %v", i, j, k, len(stream), err)
			}
			if r.StatusCode != 200 && r.StatusCode != 207 {
				t.Fatalf("round %d: status %d body %q", i, r.StatusCode, body)
			}
		}
	}
}

// Many controllers at once, each with its own connection: every request is answered.
func TestH3E2EManyConnections(t *testing.T) {
	e := h3Start(t)
	defer e.cancel()
	var wg sync.WaitGroup
	errs := make(chan error, 100)
	var mu sync.Mutex
	for g := 0; g < 16; g++ {
		wg.Add(1)
		go func(g int) {
			defer wg.Done()
			for it := 0; it < 10; it++ {
				c, err := net.Dial("tcp", e.srv.listener.Addr().String())
				if err != nil {
					errs <- err
					return
				}
				br := bufio.NewReader(c)
				mu.Lock() // the client controllers print; keep them apart
				m3, cs := h3VerifyUntilM3(t, e, c, br)
				mu.Unlock()
				c.Write(m3)
				if !h3ReadM4(c, br) {
					c.Close()
					continue
				}
				for k := 0; k < 5; k++ {
					req := fmt.Sprintf("GET /accessories HTTP/1.1\r\nHost: hunt\r\nX-Pad: %s\r\n\r\n", bytes.Repeat([]byte("a"), 500*k))
					enc := h3Enc(t, cs, []byte(req))
					c.Write(enc[:len(enc)/2])
					c.Write(enc[len(enc)/2:])
					r, _, err := h3ReadEncryptedResponse(cs, c, br, 5*time.Second)
					if err != nil || r.StatusCode != 200 {
						errs <- fmt.Errorf("goroutine %d connection %d request %d: %v", g, it, k, err)
						c.Close()
						return
					}
				}
				c.Close()
			}
		}(g)
	}
	wg.Wait()
	close(errs)
	for err := range errs {
		t.Error(err)
	}
}

// A controller which reconnects from the same address and port right after it reset its
// previous connection: the new connection has the same session key in the context.
func TestH3E2EReconnectSamePort(t *testing.T) {
	e := h3Start(t)
	defer e.cancel()
	l, _ := net.Listen("tcp", "127.0.0.1:0")
	local := l.Addr().(*net.TCPAddr)
	l.Close()
	d := net.Dialer{LocalAddr: local, Control: func(network, address string, c syscall.RawConn) error {
		return c.Control(func(fd uintptr) { syscall.SetsockoptInt(int(fd), syscall.SOL_SOCKET, syscall.SO_REUSEADDR, 1) })
	}}
	ok, skipped := 0, 0
	for i := 0; i < 60; i++ {
		c, err := d.Dial("tcp", e.srv.listener.Addr().String())
		if err != nil {
			t.Logf("dial %d: %v", i, err)
			time.Sleep(10 * time.Millisecond)
			continue
		}
		br := bufio.NewReader(c)
		m3, cs := h3VerifyUntilM3(t, e, c, br)
		c.Write(m3)
		if !h3ReadM4(c, br) {
			skipped++
			c.(*net.TCPConn).SetLinger(0)
			c.Close()
			continue
		}
		for k := 0; k < 2; k++ {
			c.Write(h3Enc(t, cs, []byte("GET /accessories HTTP/1.1\r\nHost: hunt\r\n\r\n")))
			r, _, err := h3ReadEncryptedResponse(cs, c, br, 2*time.Second)
			if err != nil || r.StatusCode != 200 {
				t.Fatalf("connection %d request %d: %v", i, k, err)
			}
		}
		ok++
		c.(*net.TCPConn).SetLinger(0)
		c.Close()
	}
	t.Logf("%d connections served, %d skipped (known M4 race)", ok, skipped)
}

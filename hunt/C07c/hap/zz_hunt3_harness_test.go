package hap

import (
	"bytes"
	"fmt"
	"io/ioutil"
	"math/rand"
	"net"
	"sync"
	"testing"
	"time"

	"github.com/brutella/hc/crypto"
)

type h3Addr string

func (a h3Addr) Network() string { return "tcp" }
func (a h3Addr) String() string  { return string(a) }

type h3Timeout struct{}

func (h3Timeout) Error() string   { return "i/o timeout" }
func (h3Timeout) Timeout() bool   { return true }
func (h3Timeout) Temporary() bool { return true }

// h3Event is one step of the network script: a segment (data != nil) or an idle period
type h3Event struct {
	data []byte
}

// h3Conn is a scripted net.Conn. Read hands out the next segment (at most len(p) of it,
// the rest stays "in the kernel"), or a time-out for an idle period. At the end of the
// script every Read times out (the peer stays connected and silent).
type h3Conn struct {
	mu        sync.Mutex
	script    []h3Event
	pending   []byte
	delivered int
	closed    bool
	written   bytes.Buffer
	local     string
	remote    string
}

func (c *h3Conn) Read(p []byte) (int, error) {
	c.mu.Lock()
	defer c.mu.Unlock()
	if c.closed {
		return 0, fmt.Errorf("use of closed connection")
	}
	if len(c.pending) == 0 {
		if len(c.script) == 0 {
			return 0, h3Timeout{}
		}
		ev := c.script[0]
		c.script = c.script[1:]
		if ev.data == nil {
			return 0, h3Timeout{}
		}
		c.pending = ev.data
	}
	n := copy(p, c.pending)
	c.pending = c.pending[n:]
	c.delivered += n
	return n, nil
}

func (c *h3Conn) exhausted() bool {
	c.mu.Lock()
	defer c.mu.Unlock()
	return len(c.pending) == 0 && len(c.script) == 0
}

func (c *h3Conn) Write(p []byte) (int, error) {
	c.mu.Lock()
	defer c.mu.Unlock()
	return c.written.Write(p)
}
func (c *h3Conn) Close() error {
	c.mu.Lock()
	defer c.mu.Unlock()
	c.closed = true
	return nil
}
func (c *h3Conn) LocalAddr() net.Addr {
	if c.local == "" {
		return h3Addr("10.0.0.1:5000")
	}
	return h3Addr(c.local)
}
func (c *h3Conn) RemoteAddr() net.Addr {
	if c.remote == "" {
		return h3Addr("10.0.0.2:40000")
	}
	return h3Addr(c.remote)
}
func (c *h3Conn) SetDeadline(t time.Time) error      { return nil }
func (c *h3Conn) SetReadDeadline(t time.Time) error  { return nil }
func (c *h3Conn) SetWriteDeadline(t time.Time) error { return nil }

func h3Pair(t testing.TB) (server crypto.Cryptographer, client crypto.Cryptographer) {
	var key [32]byte
	copy(key[:], []byte("0123456789abcdef0123456789abcdef"))
	s, err := crypto.NewSecureSessionFromSharedKey(key)
	if err != nil {
		t.Fatal(err)
	}
	c, err := crypto.NewSecureClientSessionFromSharedKey(key)
	if err != nil {
		t.Fatal(err)
	}
	return s, c
}

func h3Encrypt(t testing.TB, c crypto.Cryptographer, msg []byte) []byte {
	r, err := c.Encrypt(bytes.NewReader(msg))
	if err != nil {
		t.Fatal(err)
	}
	b, _ := ioutil.ReadAll(r)
	return b
}

// frameEnds returns, for a stream of frames, the pairs (cipher offset of the end of frame i,
// plaintext offset of the end of frame i)
func h3FrameEnds(stream []byte) (cipherEnd []int, plainEnd []int) {
	off, plain := 0, 0
	for off < len(stream) {
		l := int(stream[off]) | int(stream[off+1])<<8
		off += 2 + l + 16
		plain += l
		cipherEnd = append(cipherEnd, off)
		plainEnd = append(plainEnd, plain)
	}
	return
}

func h3RunOne(t *testing.T, rnd *rand.Rand, trial int) bool {
	server, client := h3Pair(t)

	lens := []int{0, 1, 2, 15, 16, 17, 511, 512, 1022, 1023, 1024, 1025, 1026, 2047, 2048, 2049, 3072, 4095, 4096, 4097, 5000, 8192}
	bufs := []int{1, 2, 3, 16, 512, 1023, 1024, 1025, 2048, 4096, 8192}

	var plain, stream []byte
	nmsg := 1 + rnd.Intn(6)
	for i := 0; i < nmsg; i++ {
		var l int
		if rnd.Intn(3) == 0 {
			l = rnd.Intn(3000)
		} else {
			l = lens[rnd.Intn(len(lens))]
		}
		m := make([]byte, l)
		rnd.Read(m)
		if rnd.Intn(4) == 0 && l > 0 {
			// a peer which uses smaller frames (well-formed, any size 1..1024)
			for len(m) > 0 {
				k := 1 + rnd.Intn(1024)
				if k > len(m) {
					k = len(m)
				}
				stream = append(stream, h3Encrypt(t, client, m[:k])...)
				plain = append(plain, m[:k]...)
				m = m[k:]
			}
		} else {
			plain = append(plain, m...)
			stream = append(stream, h3Encrypt(t, client, m)...)
		}
	}
	cipherEnd, plainEnd := h3FrameEnds(stream)

	// segmentation
	var script []h3Event
	rest := stream
	mode := rnd.Intn(4)
	for len(rest) > 0 {
		var k int
		switch mode {
		case 0:
			k = 1 + rnd.Intn(5)
		case 1:
			k = 1 + rnd.Intn(1500)
		case 2:
			k = 1 + rnd.Intn(6000)
		default:
			k = len(rest)
		}
		if k > len(rest) {
			k = len(rest)
		}
		script = append(script, h3Event{data: rest[:k]})
		rest = rest[k:]
		for rnd.Intn(3) == 0 {
			script = append(script, h3Event{})
		}
	}

	conn := &h3Conn{script: script}
	ctx := NewContextForSecuredDevice(nil)
	hc := NewConnection(conn, ctx)
	ctx.GetSessionForConnection(conn).SetCryptographer(server)

	var got []byte
	fixed := 0
	if rnd.Intn(2) == 0 {
		fixed = bufs[rnd.Intn(len(bufs))]
	}
	idle := 0
	for len(got) < len(plain) || !conn.exhausted() {
		sz := fixed
		if sz == 0 {
			sz = bufs[rnd.Intn(len(bufs))]
		}
		b := make([]byte, sz)
		n, err := hc.Read(b)
		got = append(got, b[:n]...)
		if !bytes.HasPrefix(plain, got) {
			t.Errorf("trial %d: bytes differ after %d bytes (n=%d err=%v)", trial, len(got), n, err)
			return false
		}
		if err != nil {
			if ne, ok := err.(net.Error); !ok || !ne.Timeout() {
				t.Errorf("trial %d: Read = (%d, %v) after %d of %d bytes", trial, n, err, len(got), len(plain))
				return false
			}
		}
		if n == 0 {
			// nothing returned: no complete frame with undelivered plaintext may be in what arrived
			conn.mu.Lock()
			d := conn.delivered
			conn.mu.Unlock()
			for i, ce := range cipherEnd {
				if ce <= d && plainEnd[i] > len(got) {
					t.Errorf("trial %d: Read = (0, %v) although frame %d (cipher end %d) arrived completely (%d bytes arrived); got %d plaintext bytes, frame ends at %d", trial, err, i, ce, d, len(got), plainEnd[i])
					return false
				}
			}
			idle++
			if idle > 100000 {
				t.Errorf("trial %d: no progress", trial)
				return false
			}
		}
	}
	if !bytes.Equal(got, plain) {
		t.Errorf("trial %d: got %d bytes, want %d", trial, len(got), len(plain))
		return false
	}
	return true
}

func TestH3RandomisedReads(t *testing.T) {
	rnd := rand.New(rand.NewSource(7))
	for i := 0; i < 20000; i++ {
		if !h3RunOne(t, rnd, i) {
			return
		}
	}
}

// Exhaustive: a stream of messages with lengths around the boundaries, cut into two or three
// segments at every offset, an idle period at every cut, caller buffers of 1, 1024 and 4096 bytes.
func TestH3EverySplit(t *testing.T) {
	for _, lens := range [][]int{{1, 1024, 1}, {1023, 1025}, {2048, 1}, {0, 1, 0, 2}} {
		for _, bufsz := range []int{1, 1024, 4096} {
			_, c0 := h3Pair(t)
			var stream0 []byte
			for _, l := range lens {
				stream0 = append(stream0, h3Encrypt(t, c0, bytes.Repeat([]byte{'x'}, l))...)
			}
			step := 1
			if bufsz == 1 {
				step = 7
			}
			for cut := 1; cut < len(stream0); cut += step {
				server, client := h3Pair(t)
				var plain, stream []byte
				for i, l := range lens {
					m := bytes.Repeat([]byte{byte('a' + i)}, l)
					plain = append(plain, m...)
					stream = append(stream, h3Encrypt(t, client, m)...)
				}
				cut2 := cut + (len(stream)-cut)/2
				script := []h3Event{{data: stream[:cut]}, {}, {data: stream[cut:cut2]}, {}, {}, {data: stream[cut2:]}}
				if cut2 == cut || cut2 == len(stream) {
					script = []h3Event{{data: stream[:cut]}, {}, {data: stream[cut:]}}
				}
				conn := &h3Conn{script: script}
				ctx := NewContextForSecuredDevice(nil)
				hc := NewConnection(conn, ctx)
				ctx.GetSessionForConnection(conn).SetCryptographer(server)
				var got []byte
				idle := 0
				for len(got) < len(plain) && idle < 20 {
					b := make([]byte, bufsz)
					n, err := hc.Read(b)
					got = append(got, b[:n]...)
					if err != nil {
						if ne, ok := err.(net.Error); !ok || !ne.Timeout() {
							t.Fatalf("lens %v buf %d cut %d: Read = (%d, %v) after %d bytes", lens, bufsz, cut, n, err, len(got))
						}
						idle++
					}
				}
				if !bytes.Equal(got, plain) {
					t.Fatalf("lens %v buf %d cut %d: got %d bytes, want %d", lens, bufsz, cut, len(got), len(plain))
				}
			}
		}
	}
}

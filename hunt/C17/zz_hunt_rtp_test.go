package rtp

import (
	"bytes"
	"encoding/binary"
	"math"
	"math/rand"
	"reflect"
	"testing"
	"testing/quick"

	"github.com/brutella/hc/tlv8"
)

// ---- independent reference encoder (spec: little endian, 255 byte fragments, 00 00 between list elements)

func refItem(out *[]byte, tag byte, v []byte) {
	for len(v) > 255 {
		*out = append(*out, tag, 255)
		*out = append(*out, v[:255]...)
		v = v[255:]
	}
	if len(v) > 0 {
		*out = append(*out, tag, byte(len(v)))
		*out = append(*out, v...)
	}
}

func refStruct(v reflect.Value) []byte {
	var out []byte
	t := v.Type()
	for i := 0; i < t.NumField(); i++ {
		ts, ok := t.Field(i).Tag.Lookup("tlv8")
		if !ok {
			continue
		}
		tag := byte(0)
		if ts != "-" {
			n := 0
			for _, c := range ts {
				n = n*10 + int(c-'0')
			}
			tag = byte(n)
		}
		f := v.Field(i)
		switch f.Kind() {
		case reflect.Uint8:
			refItem(&out, tag, []byte{byte(f.Uint())})
		case reflect.Uint16:
			b := make([]byte, 2)
			binary.LittleEndian.PutUint16(b, uint16(f.Uint()))
			refItem(&out, tag, b)
		case reflect.Uint32:
			b := make([]byte, 4)
			binary.LittleEndian.PutUint32(b, uint32(f.Uint()))
			refItem(&out, tag, b)
		case reflect.Uint64:
			b := make([]byte, 8)
			binary.LittleEndian.PutUint64(b, f.Uint())
			refItem(&out, tag, b)
		case reflect.Int16:
			b := make([]byte, 2)
			binary.LittleEndian.PutUint16(b, uint16(f.Int()))
			refItem(&out, tag, b)
		case reflect.Int32:
			b := make([]byte, 4)
			binary.LittleEndian.PutUint32(b, uint32(f.Int()))
			refItem(&out, tag, b)
		case reflect.Int64:
			b := make([]byte, 8)
			binary.LittleEndian.PutUint64(b, uint64(f.Int()))
			refItem(&out, tag, b)
		case reflect.Float32:
			b := make([]byte, 4)
			binary.LittleEndian.PutUint32(b, math.Float32bits(float32(f.Float())))
			refItem(&out, tag, b)
		case reflect.Bool:
			if f.Bool() {
				refItem(&out, tag, []byte{1})
			} else {
				refItem(&out, tag, []byte{0})
			}
		case reflect.String:
			refItem(&out, tag, []byte(f.String()))
		case reflect.Struct:
			refItem(&out, tag, refStruct(f))
		case reflect.Slice:
			if f.Type().Elem().Kind() == reflect.Uint8 {
				refItem(&out, tag, f.Bytes())
				continue
			}
			for j := 0; j < f.Len(); j++ {
				if j > 0 {
					out = append(out, 0, 0)
				}
				if ts == "-" {
					out = append(out, refStruct(f.Index(j))...)
				} else {
					refItem(&out, tag, refStruct(f.Index(j)))
				}
			}
		default:
			panic("kind " + f.Kind().String())
		}
	}
	return out
}

// normalise: nil and empty slices are the same value
func norm(v reflect.Value) {
	switch v.Kind() {
	case reflect.Struct:
		for i := 0; i < v.NumField(); i++ {
			norm(v.Field(i))
		}
	case reflect.Slice:
		if v.Len() == 0 {
			v.Set(reflect.Zero(v.Type()))
			return
		}
		if v.Type().Elem().Kind() == reflect.Uint8 {
			return
		}
		for i := 0; i < v.Len(); i++ {
			norm(v.Index(i))
		}
	case reflect.Float32:
		if v.Float() != v.Float() { // NaN
			v.SetFloat(0)
		}
	}
}

func checkType(t *testing.T, proto interface{}) {
	typ := reflect.TypeOf(proto)
	f := func(seed int64) bool {
		r := rand.New(rand.NewSource(seed))
		val, ok := quick.Value(typ, r)
		if !ok {
			t.Fatalf("cannot generate %v", typ)
		}
		norm1 := reflect.New(typ)
		norm1.Elem().Set(val)
		norm(norm1.Elem())
		in := norm1.Elem()

		b, err := tlv8.Marshal(in.Interface())
		if err != nil {
			t.Errorf("%v marshal: %v", typ, err)
			return false
		}
		if ref := refStruct(in); !bytes.Equal(ref, b) {
			t.Errorf("%v wire mismatch\n is  % x\n ref % x\n val %+v", typ, b, ref, in.Interface())
			return false
		}
		out := reflect.New(typ)
		if err := tlv8.Unmarshal(b, out.Interface()); err != nil {
			t.Errorf("%v unmarshal: %v", typ, err)
			return false
		}
		norm(out.Elem())
		if !reflect.DeepEqual(in.Interface(), out.Elem().Interface()) {
			t.Errorf("%v round trip\n in  %+v\n out %+v\n bytes % x", typ, in.Interface(), out.Elem().Interface(), b)
			return false
		}
		return true
	}
	if err := quick.Check(f, &quick.Config{MaxCount: 300}); err != nil {
		t.Error(err)
	}
}

var allTypes = []interface{}{
	SetupEndpoints{}, SetupEndpointsResponse{}, StreamConfiguration{}, StreamingStatus{},
	VideoStreamConfiguration{}, AudioStreamConfiguration{}, Configuration{},
	VideoCodecConfiguration{}, VideoCodecParameters{}, AudioCodecConfiguration{}, RTPParams{}, Addr{}, CryptoSuite{},
	VideoParameters{}, AudioParameters{}, SessionControlCommand{},
}

func TestHuntRTPRoundTrip(t *testing.T) {
	for _, p := range allTypes {
		checkType(t, p)
	}
}

func TestHuntRTPDefaults(t *testing.T) {
	for _, p := range []interface{}{DefaultVideoStreamConfiguration(), DefaultAudioStreamConfiguration(), NewConfiguration(CryptoSuite_AES_CM_128_HMAC_SHA1_80), NewConfiguration(2)} {
		in := reflect.ValueOf(p)
		b, err := tlv8.Marshal(p)
		if err != nil {
			t.Fatal(err)
		}
		if ref := refStruct(in); !bytes.Equal(ref, b) {
			t.Errorf("wire mismatch % x / % x", b, ref)
		}
		out := reflect.New(in.Type())
		if err := tlv8.Unmarshal(b, out.Interface()); err != nil {
			t.Fatal(err)
		}
		if !reflect.DeepEqual(p, out.Elem().Interface()) {
			t.Errorf("round trip\n in  %+v\n out %+v", p, out.Elem().Interface())
		}
	}
}

// ---- decoder robustness

func tryUnmarshal(t *testing.T, typ reflect.Type, b []byte) {
	defer func() {
		if r := recover(); r != nil {
			t.Errorf("PANIC %v into %v on % x", r, typ, b)
		}
	}()
	out := reflect.New(typ)
	tlv8.Unmarshal(b, out.Interface())
}

func TestHuntRTPFuzz(t *testing.T) {
	r := rand.New(rand.NewSource(1))
	for _, p := range allTypes {
		typ := reflect.TypeOf(p)
		// pure random
		for i := 0; i < 3000; i++ {
			n := r.Intn(40)
			b := make([]byte, n)
			for j := range b {
				switch r.Intn(3) {
				case 0:
					b[j] = byte(r.Intn(8))
				case 1:
					b[j] = byte(r.Intn(256))
				default:
					b[j] = byte(r.Intn(3))
				}
			}
			tryUnmarshal(t, typ, b)
		}
		// mutated valid encodings
		for i := 0; i < 2000; i++ {
			val, _ := quick.Value(typ, r)
			b, _ := tlv8.Marshal(val.Interface())
			if len(b) == 0 {
				continue
			}
			b = append([]byte{}, b...)
			for k := 0; k < 1+r.Intn(3); k++ {
				switch r.Intn(4) {
				case 0:
					b[r.Intn(len(b))] = byte(r.Intn(256))
				case 1:
					b = b[:r.Intn(len(b)+1)]
				case 2:
					p := r.Intn(len(b) + 1)
					b = append(b[:p:p], append([]byte{byte(r.Intn(8)), byte(r.Intn(4))}, b[p:]...)...)
				case 3:
					if len(b) > 0 {
						p := r.Intn(len(b))
						b = append(b[:p:p], b[p+1:]...)
					}
				}
				if len(b) == 0 {
					break
				}
			}
			tryUnmarshal(t, typ, b)
		}
	}
}

type zKinds struct {
	U8  uint8   `tlv8:"1"`
	U16 uint16  `tlv8:"2"`
	U32 uint32  `tlv8:"3"`
	U64 uint64  `tlv8:"4"`
	I16 int16   `tlv8:"5"`
	I32 int32   `tlv8:"6"`
	I64 int64   `tlv8:"7"`
	F   float32 `tlv8:"8"`
	B   bool    `tlv8:"9"`
	S   string  `tlv8:"10"`
	Bs  []byte  `tlv8:"11"`
}
type zOne struct {
	V int64 `tlv8:"200"`
}
type zAll struct {
	K zKinds   `tlv8:"1"`
	L []zKinds `tlv8:"2"`
	I []zOne   `tlv8:"-"`
	X uint64   `tlv8:"255"`
}

func TestHuntSyntheticQuick(t *testing.T) {
	checkType(t, zKinds{})
	checkType(t, zAll{})
}

package tlv8

import (
	"bytes"
	"math"
	"math/rand"
	"reflect"
	"strings"
	"testing"
)

type hKinds struct {
	U8  uint8   `tlv8:"1"`
	U16 uint16  `tlv8:"2"`
	U32 uint32  `tlv8:"3"`
	U64 uint64  `tlv8:"4"`
	I16 int16   `tlv8:"5"`
	I32 int32   `tlv8:"6"`
	I64 int64   `tlv8:"7"`
	F   float32 `tlv8:"8"`
	B   bool    `tlv8:"9"`
	S   string  `tlv8:"10"`
	Bs  []byte  `tlv8:"11"`
}

func rt(t *testing.T, in interface{}, out interface{}) []byte {
	t.Helper()
	b, err := Marshal(in)
	if err != nil {
		t.Fatalf("marshal: %v", err)
	}
	if err := Unmarshal(b, out); err != nil {
		t.Fatalf("unmarshal: %v (bytes % x)", err, b)
	}
	return b
}

func TestHuntKindsExtremes(t *testing.T) {
	cases := []hKinds{
		{255, 65535, math.MaxUint32, math.MaxUint64, math.MinInt16, math.MinInt32, math.MinInt64, math.MaxFloat32, true, "x", []byte{0}},
		{0, 0, 0, 0, 0, 0, 0, 0, false, "", nil},
		{1, 1, 1, 1, -1, -1, -1, -1, true, "a", []byte{1}},
		{1, 256, 65536, 1 << 32, math.MaxInt16, math.MaxInt32, math.MaxInt64, math.SmallestNonzeroFloat32, true, "a", []byte{1}},
		{1, 255, 65535, 1<<32 - 1, -256, -65536, -(1 << 32), float32(math.Inf(-1)), true, "a", []byte{1}},
		{1, 0xff00, 0xff000000, 0xff00000000000000, 0x0100, 0x01000000, 0x0100000000000000, 1.5, true, "a", []byte{1}},
		{1, 0x00ff, 0x00ffffff, 0x00ffffffffffffff, 0x7f, 0x7fff, 0x7fffffff, 1.5, true, "a", []byte{1}},
		{1, 1, 1, 1, 128, 32768, 1 << 31, 1.5, true, "a", []byte{1}},
		{1, 1, 1, 1, -129, -32769, -(1 << 31) - 1, 1.5, true, "a", []byte{1}},
	}
	for i, c := range cases {
		var o hKinds
		b := rt(t, c, &o)
		if len(c.Bs) == 0 && len(o.Bs) == 0 {
			o.Bs = c.Bs
		}
		if !reflect.DeepEqual(c, o) {
			t.Errorf("case %d: in=%+v out=%+v bytes=% x", i, c, o, b)
		}
	}
}

func TestHuntWire(t *testing.T) {
	c := hKinds{0x12, 0x1234, 0x12345678, 0x123456789abcdef0, -2, -3, -4, 1.0, true, "hi", []byte{9, 8}}
	b, _ := Marshal(c)
	want := []byte{
		1, 1, 0x12,
		2, 2, 0x34, 0x12,
		3, 4, 0x78, 0x56, 0x34, 0x12,
		4, 8, 0xf0, 0xde, 0xbc, 0x9a, 0x78, 0x56, 0x34, 0x12,
		5, 2, 0xfe, 0xff,
		6, 4, 0xfd, 0xff, 0xff, 0xff,
		7, 8, 0xfc, 0xff, 0xff, 0xff, 0xff, 0xff, 0xff, 0xff,
		8, 4, 0, 0, 0x80, 0x3f,
		9, 1, 1,
		10, 2, 'h', 'i',
		11, 2, 9, 8,
	}
	if !bytes.Equal(b, want) {
		t.Fatalf("is % x want % x", b, want)
	}
}

func TestHuntNaN(t *testing.T) {
	c := hKinds{F: float32(math.NaN())}
	var o hKinds
	rt(t, c, &o)
	if math.Float32bits(c.F) != math.Float32bits(o.F) {
		t.Fatalf("nan bits differ")
	}
	c = hKinds{F: float32(math.Copysign(0, -1))}
	o = hKinds{}
	rt(t, c, &o)
	if math.Float32bits(c.F) != math.Float32bits(o.F) {
		t.Fatalf("-0 bits differ %x %x", math.Float32bits(c.F), math.Float32bits(o.F))
	}
}

type hStr struct {
	A string `tlv8:"1"`
	B []byte `tlv8:"2"`
	C uint8  `tlv8:"3"`
}

func TestHuntLongValues(t *testing.T) {
	for _, n := range []int{0, 1, 254, 255, 256, 509, 510, 511, 765, 1000} {
		in := hStr{strings.Repeat("s", n), bytes.Repeat([]byte{7}, n), 3}
		var out hStr
		b := rt(t, in, &out)
		if in.A != out.A || !bytes.Equal(in.B, out.B) || in.C != out.C {
			t.Errorf("n=%d mismatch: lenA=%d lenB=%d C=%d", n, len(out.A), len(out.B), out.C)
		}
		// reference encoding
		var ref []byte
		enc := func(tag byte, v []byte) {
			for len(v) > 255 {
				ref = append(ref, tag, 255)
				ref = append(ref, v[:255]...)
				v = v[255:]
			}
			if len(v) > 0 {
				ref = append(ref, tag, byte(len(v)))
				ref = append(ref, v...)
			}
		}
		enc(1, []byte(in.A))
		enc(2, in.B)
		enc(3, []byte{3})
		if !bytes.Equal(ref, b) {
			t.Errorf("n=%d wire mismatch len is=%d ref=%d", n, len(b), len(ref))
		}
	}
}

type hPair struct {
	A uint8 `tlv8:"1"`
	B uint8 `tlv8:"2"`
}

type hInline struct {
	L []hPair `tlv8:"-"`
}

func TestHuntInlineMultiField(t *testing.T) {
	in := hInline{[]hPair{{1, 2}, {3, 4}, {5, 6}}}
	var out hInline
	b := rt(t, in, &out)
	if !reflect.DeepEqual(in, out) {
		t.Fatalf("in=%+v out=%+v bytes=% x", in, out, b)
	}
}

type hTagged struct {
	L []hPair `tlv8:"7"`
	X uint8   `tlv8:"8"`
}

func TestHuntTaggedMultiField(t *testing.T) {
	in := hTagged{[]hPair{{1, 2}, {3, 4}, {0, 0}, {5, 6}}, 9}
	var out hTagged
	b := rt(t, in, &out)
	if !reflect.DeepEqual(in, out) {
		t.Fatalf("in=%+v out=%+v bytes=% x", in, out, b)
	}
}

type hBig struct {
	S string `tlv8:"1"`
	N uint8  `tlv8:"2"`
}
type hBigList struct {
	L []hBig `tlv8:"9"`
	I []hBig `tlv8:"-"`
}

func TestHuntBigElements(t *testing.T) {
	for _, n := range []int{1, 250, 251, 252, 253, 255, 256, 300, 505, 506, 507, 508, 600} {
		in := hBigList{L: []hBig{{strings.Repeat("a", n), 1}, {strings.Repeat("b", n), 2}, {strings.Repeat("c", n), 3}}}
		var out hBigList
		rt(t, in, &out)
		if len(out.I) == 0 {
			out.I = nil
		}
		if !reflect.DeepEqual(in, out) {
			t.Errorf("tagged n=%d: lens %d", n, len(out.L))
			for _, e := range out.L {
				t.Logf("  elem len=%d N=%d", len(e.S), e.N)
			}
		}
	}
}

func TestHuntBigInlineElements(t *testing.T) {
	for _, n := range []int{1, 255, 256, 600} {
		in := hBigList{I: []hBig{{strings.Repeat("a", n), 1}, {strings.Repeat("b", n), 2}, {strings.Repeat("c", n), 3}}}
		var out hBigList
		rt(t, in, &out)
		if len(out.L) == 0 {
			out.L = nil
		}
		if !reflect.DeepEqual(in, out) {
			t.Errorf("inline n=%d: lens %d", n, len(out.I))
			for _, e := range out.I {
				t.Logf("  elem len=%d N=%d", len(e.S), e.N)
			}
		}
	}
}

type hNest struct {
	P *hPair `tlv8:"1"`
	V hPair  `tlv8:"2"`
	Z uint8  `tlv8:"3"`
}

func TestHuntNilPtr(t *testing.T) {
	defer func() {
		if r := recover(); r != nil {
			t.Fatalf("panic: %v", r)
		}
	}()
	in := hNest{nil, hPair{1, 2}, 3}
	var out hNest
	rt(t, in, &out)
	if !reflect.DeepEqual(in, out) {
		t.Fatalf("in=%+v out=%+v", in, out)
	}
}

type hEmptyable struct {
	S string `tlv8:"1"`
}
type hEmptyList struct {
	L []hEmptyable `tlv8:"5"`
	N uint8        `tlv8:"6"`
}

func TestHuntEmptyElement(t *testing.T) {
	in := hEmptyList{[]hEmptyable{{""}, {"a"}, {""}, {"b"}}, 1}
	var out hEmptyList
	b := rt(t, in, &out)
	if !reflect.DeepEqual(in, out) {
		t.Fatalf("in=%+v out=%+v bytes=% x", in, out, b)
	}
}

type hOpt struct {
	S string `tlv8:"1"`
	N uint8  `tlv8:"2"`
}
type hOptInline struct {
	L []hOpt `tlv8:"-"`
}

// inline list whose first element has an empty string (no item on the wire for it)
func TestHuntInlineMissingField(t *testing.T) {
	in := hOptInline{[]hOpt{{"", 1}, {"b", 2}}}
	var out hOptInline
	b := rt(t, in, &out)
	if !reflect.DeepEqual(in, out) {
		t.Fatalf("in=%+v out=%+v bytes=% x", in, out, b)
	}
}

type hPtrList struct {
	L []*hPair `tlv8:"4"`
}

func TestHuntPtrSlice(t *testing.T) {
	defer func() {
		if r := recover(); r != nil {
			t.Fatalf("panic: %v", r)
		}
	}()
	in := hPtrList{[]*hPair{{1, 2}, {3, 4}}}
	var out hPtrList
	rt(t, in, &out)
	if !reflect.DeepEqual(in, out) {
		t.Fatalf("in=%+v out=%+v", in, out)
	}
}

type hAll struct {
	K  hKinds   `tlv8:"1"`
	P  *hKinds  `tlv8:"2"`
	L  []hKinds `tlv8:"3"`
	I  []hPair  `tlv8:"-"`
	F  float32  `tlv8:"4"`
	I6 int64    `tlv8:"5"`
	U6 uint64   `tlv8:"6"`
	N  hNest    `tlv8:"7"`
}

func TestHuntFuzzAll(t *testing.T) {
	r := rand.New(rand.NewSource(7))
	try := func(b []byte) {
		defer func() {
			if rec := recover(); rec != nil {
				t.Errorf("PANIC %v on % x", rec, b)
			}
		}()
		var o hAll
		Unmarshal(b, &o)
		var k hKinds
		Unmarshal(b, &k)
		var l hBigList
		Unmarshal(b, &l)
	}
	for i := 0; i < 200000; i++ {
		n := r.Intn(30)
		b := make([]byte, n)
		for j := range b {
			switch r.Intn(3) {
			case 0:
				b[j] = byte(r.Intn(12))
			case 1:
				b[j] = byte(r.Intn(256))
			default:
				b[j] = byte(r.Intn(3))
			}
		}
		try(b)
	}
}

package hc

import (
	"encoding/json"
	"io/ioutil"
	"os"
	"testing"

	"github.com/brutella/hc/accessory"
	"github.com/brutella/hc/service"
)

type zzDB struct {
	Accessories []struct {
		Aid      uint64 `json:"aid"`
		Services []struct {
			Iid    uint64   `json:"iid"`
			Type   string   `json:"type"`
			Linked []uint64 `json:"linked"`
			Chars  []struct {
				Iid  uint64 `json:"iid"`
				Type string `json:"type"`
			} `json:"characteristics"`
		} `json:"services"`
	} `json:"accessories"`
}

func zzServed(t *testing.T, tr *ipTransport) zzDB {
	// what hap/http/accessories.go writes for GET /accessories: the JSON of the container
	b, err := json.Marshal(tr.container)
	if err != nil {
		t.Fatal(err)
	}
	var v zzDB
	if err := json.Unmarshal(b, &v); err != nil {
		t.Fatal(err)
	}
	return v
}

func zzCheck(t *testing.T, v zzDB) {
	aids := map[uint64]bool{}
	for _, a := range v.Accessories {
		if a.Aid == 0 || aids[a.Aid] {
			t.Errorf("aid %d zero or duplicate", a.Aid)
		}
		aids[a.Aid] = true
		iids := map[uint64]bool{}
		zero, dup := 0, 0
		note := func(id uint64) {
			if id == 0 {
				zero++
			}
			if iids[id] {
				dup++
			}
			iids[id] = true
		}
		for _, s := range a.Services {
			note(s.Iid)
			for _, c := range s.Chars {
				note(c.Iid)
			}
			for _, l := range s.Linked {
				if l == 0 {
					t.Errorf("aid %d: service iid %d (type %s) is linked to iid 0", a.Aid, s.Iid, s.Type)
				}
			}
		}
		if zero > 0 || dup > 0 {
			t.Errorf("aid %d: %d instance ids are zero, %d are duplicates", a.Aid, zero, dup)
		}
	}
}

// the flow of _example/tv/main.go: input sources are added after NewIPTransport
func TestZZTelevisionExampleFlow(t *testing.T) {
	dir, _ := ioutil.TempDir("", "zzhunt")
	defer os.RemoveAll(dir)

	acc := accessory.NewTelevision(accessory.Info{Name: "Television"})
	tr, err := NewIPTransport(Config{Pin: "12344321", StoragePath: dir}, acc.Accessory)
	if err != nil {
		t.Fatal(err)
	}
	for i := 1; i <= 3; i++ {
		in := service.NewInputSource()
		in.Identifier.SetValue(i)
		acc.AddService(in.Service)
		acc.Television.AddLinkedService(in.Service)
	}
	zzCheck(t, zzServed(t, tr))
}

// explicit id for the first accessory, automatic ids for the rest
func TestZZExplicitAndAutomaticIDs(t *testing.T) {
	dir, _ := ioutil.TempDir("", "zzhunt")
	defer os.RemoveAll(dir)

	a := accessory.NewSwitch(accessory.Info{Name: "A", ID: 1})
	b := accessory.NewSwitch(accessory.Info{Name: "B"})
	tr, err := NewIPTransport(Config{Pin: "12344321", StoragePath: dir}, a.Accessory, b.Accessory)
	if err != nil {
		t.Fatal(err)
	}
	if a.ID == b.ID {
		t.Errorf("both accessories of the transport have accessory id %d", a.ID)
	}
	v := zzServed(t, tr)
	if len(v.Accessories) != 2 {
		t.Errorf("%d accessories served, 2 were given", len(v.Accessories))
	}
	zzCheck(t, v)
}

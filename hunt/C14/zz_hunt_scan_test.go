package accessory

import (
	"encoding/json"
	"reflect"
	"sort"
	"testing"

	"github.com/brutella/hc/characteristic"
	"github.com/brutella/hc/service"
)

var _ = service.New

func zzChar(v interface{}) *characteristic.Characteristic {
	rv := reflect.ValueOf(v)
	for {
		if rv.Kind() == reflect.Ptr {
			if c, ok := rv.Interface().(*characteristic.Characteristic); ok {
				return c
			}
			rv = rv.Elem()
			continue
		}
		if rv.Kind() == reflect.Struct {
			rv = rv.Field(0)
			continue
		}
		panic("no char")
	}
}

var zzValidPerms = map[string]bool{"pr": true, "pw": true, "ev": true, "aa": true, "tw": true, "hd": true, "wr": true}
var zzValidFormats = map[string]bool{"bool": true, "uint8": true, "uint16": true, "uint32": true, "uint64": true, "int": true, "int32": true, "float": true, "string": true, "tlv8": true, "data": true}

func zzCheckChar(t *testing.T, where string, c *characteristic.Characteristic) {
	if c == nil {
		t.Errorf("%s: nil characteristic", where)
		return
	}
	if c.Type == "" {
		t.Errorf("%s: empty type", where)
	}
	if !zzValidFormats[c.Format] {
		t.Errorf("%s: format %q", where, c.Format)
	}
	if len(c.Perms) == 0 {
		t.Errorf("%s: perms empty/nil %v", where, c.Perms)
	}
	seen := map[string]bool{}
	for _, p := range c.Perms {
		if !zzValidPerms[p] {
			t.Errorf("%s: perm %q", where, p)
		}
		if seen[p] {
			t.Errorf("%s: dup perm %q", where, p)
		}
		seen[p] = true
	}
}

func TestZZScanChars(t *testing.T) {
	types := map[string][]string{}
	for n, c := range zzAllChars() {
		zzCheckChar(t, n, c)
		types[c.Type] = append(types[c.Type], n)
	}
	for ty, ns := range types {
		if len(ns) > 1 {
			sort.Strings(ns)
			t.Logf("char type %s shared by %v", ty, ns)
		}
	}
}

func TestZZScanServices(t *testing.T) {
	types := map[string][]string{}
	for n, s := range zzAllServices() {
		if s == nil {
			t.Errorf("%s nil service", n)
			continue
		}
		if s.Type == "" {
			t.Errorf("%s empty type", n)
		}
		types[s.Type] = append(types[s.Type], n)
		ptrs := map[*characteristic.Characteristic]bool{}
		ctypes := map[string]bool{}
		for i, c := range s.Characteristics {
			zzCheckChar(t, n, c)
			if c == nil {
				continue
			}
			if ptrs[c] {
				t.Errorf("%s: char %d added twice", n, i)
			}
			ptrs[c] = true
			if ctypes[c.Type] {
				t.Errorf("%s: char type %s twice", n, c.Type)
			}
			ctypes[c.Type] = true
		}
	}
	for ty, ns := range types {
		if len(ns) > 1 {
			sort.Strings(ns)
			t.Logf("service type %s shared by %v (intended variants)", ty, ns)
		}
	}
}

// all services in one accessory: ids unique, nonzero; JSON wellformed
func TestZZAllServicesOneAccessory(t *testing.T) {
	a := New(Info{Name: "x"}, TypeOther)
	names := []string{}
	all := zzAllServices()
	for n := range all {
		names = append(names, n)
	}
	sort.Strings(names)
	for _, n := range names {
		a.AddService(all[n])
	}
	c := NewContainer()
	if err := c.AddAccessory(a); err != nil {
		t.Fatal(err)
	}
	zzCheckContainerJSON(t, c)
}

func zzCheckContainerJSON(t *testing.T, c *Container) {
	t.Helper()
	b, err := json.Marshal(c)
	if err != nil {
		t.Fatal(err)
	}
	var v struct {
		Accessories []struct {
			Aid      *uint64 `json:"aid"`
			Services []struct {
				Iid    *uint64  `json:"iid"`
				Type   *string  `json:"type"`
				Linked []uint64 `json:"linked"`
				Chars  []struct {
					Iid    *uint64     `json:"iid"`
					Type   *string     `json:"type"`
					Perms  interface{} `json:"perms"`
					Format *string     `json:"format"`
				} `json:"characteristics"`
			} `json:"services"`
		} `json:"accessories"`
	}
	if err := json.Unmarshal(b, &v); err != nil {
		t.Fatal(err)
	}
	aids := map[uint64]bool{}
	for _, a := range v.Accessories {
		if a.Aid == nil || *a.Aid == 0 {
			t.Errorf("aid missing/zero")
			continue
		}
		if aids[*a.Aid] {
			t.Errorf("dup aid %d", *a.Aid)
		}
		aids[*a.Aid] = true
		iids := map[uint64]bool{}
		svcids := map[uint64]bool{}
		for _, s := range a.Services {
			if s.Iid == nil || *s.Iid == 0 {
				t.Errorf("aid %d: service iid missing/zero type %v", *a.Aid, s.Type)
			} else {
				if iids[*s.Iid] {
					t.Errorf("aid %d: dup iid %d", *a.Aid, *s.Iid)
				}
				iids[*s.Iid] = true
				svcids[*s.Iid] = true
			}
			if s.Type == nil || *s.Type == "" {
				t.Errorf("service without type")
			}
			for _, ch := range s.Chars {
				if ch.Iid == nil || *ch.Iid == 0 {
					t.Errorf("aid %d: char iid missing/zero type %v", *a.Aid, ch.Type)
				} else {
					if iids[*ch.Iid] {
						t.Errorf("aid %d: dup iid %d", *a.Aid, *ch.Iid)
					}
					iids[*ch.Iid] = true
				}
				if ch.Type == nil || *ch.Type == "" {
					t.Errorf("char without type")
				}
				if ch.Format == nil || *ch.Format == "" {
					t.Errorf("char %v without format", *ch.Type)
				}
				ps, ok := ch.Perms.([]interface{})
				if !ok {
					t.Errorf("aid %d iid %v: perms is %T(%v), not a list", *a.Aid, *ch.Iid, ch.Perms, ch.Perms)
				}
				for _, p := range ps {
					if s, ok := p.(string); !ok || !zzValidPerms[s] {
						t.Errorf("bad perm %v", p)
					}
				}
			}
		}
		for _, s := range a.Services {
			for _, l := range s.Linked {
				if !svcids[l] {
					t.Errorf("aid %d: service %d links to %d which is no service of the accessory", *a.Aid, *s.Iid, l)
				}
			}
		}
	}
}

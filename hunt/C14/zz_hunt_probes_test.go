package accessory

import (
	"encoding/json"
	"math"
	"testing"

	"github.com/brutella/hc/characteristic"
	"github.com/brutella/hc/service"
)

// P1: a service added after the accessory has been put into the container
// (what _example/tv/main.go does, and what the AddService comment promises to handle)
func TestZZAddServiceAfterAddAccessory(t *testing.T) {
	tv := NewTelevision(Info{Name: "TV"})
	c := NewContainer()
	if err := c.AddAccessory(tv.Accessory); err != nil {
		t.Fatal(err)
	}
	for i := 0; i < 3; i++ {
		in := service.NewInputSource()
		tv.AddService(in.Service)
		tv.Television.AddLinkedService(in.Service)
	}
	zzCheckContainerJSON(t, c)
}

// P2: explicit id first, automatic ids afterwards
func TestZZExplicitThenAuto(t *testing.T) {
	c := NewContainer()
	a := NewSwitch(Info{Name: "a", ID: 1})
	b := NewSwitch(Info{Name: "b"})
	if err := c.AddAccessory(a.Accessory); err != nil {
		t.Fatal(err)
	}
	if err := c.AddAccessory(b.Accessory); err != nil {
		t.Errorf("automatic id: %v", err)
	}
	t.Logf("a.ID=%d b.ID=%d len=%d", a.ID, b.ID, len(c.Accessories))
	zzCheckContainerJSON(t, c)
}

// P2b: explicit id 2 between automatic ones
func TestZZAutoExplicitAuto(t *testing.T) {
	c := NewContainer()
	as := []*Accessory{
		NewBridge(Info{Name: "br"}).Accessory,
		NewSwitch(Info{Name: "a", ID: 2}).Accessory,
		NewSwitch(Info{Name: "b"}).Accessory,
		NewSwitch(Info{Name: "c"}).Accessory,
	}
	for i, a := range as {
		if err := c.AddAccessory(a); err != nil {
			t.Errorf("accessory %d: %v", i, err)
		}
	}
	ids := map[uint64]int{}
	for i, a := range as {
		if j, ok := ids[a.ID]; ok {
			t.Errorf("accessories %d and %d both have id %d", j, i, a.ID)
		}
		ids[a.ID] = i
	}
	zzCheckContainerJSON(t, c)
}

// P3: custom characteristic built with the generic constructors, no perms given
func TestZZGenericCharacteristicPerms(t *testing.T) {
	s := service.New("00000001-0000-1000-8000-0026BB765291")
	ch := characteristic.NewBool("00000002-0000-1000-8000-0026BB765291")
	ch.SetValue(true)
	s.AddCharacteristic(ch.Characteristic)
	a := New(Info{Name: "x"}, TypeOther)
	a.AddService(s)
	c := NewContainer()
	c.AddAccessory(a)
	zzCheckContainerJSON(t, c)
}

// P4: removed accessory, then one with same explicit id
func TestZZRemoveThenAddSameID(t *testing.T) {
	c := NewContainer()
	a := NewSwitch(Info{Name: "a", ID: 5})
	c.AddAccessory(a.Accessory)
	c.RemoveAccessory(a.Accessory)
	b := NewSwitch(Info{Name: "b", ID: 5})
	if err := c.AddAccessory(b.Accessory); err != nil {
		t.Errorf("%v", err)
	}
	zzCheckContainerJSON(t, c)
}

// P5: remove and re-add same accessory: ids stable?
func TestZZReAddStable(t *testing.T) {
	c := NewContainer()
	a := NewSwitch(Info{Name: "a"})
	c.AddAccessory(a.Accessory)
	before, _ := json.Marshal(c)
	err := c.AddAccessory(a.Accessory) // duplicate, is rejected
	after, _ := json.Marshal(c)
	if string(before) != string(after) {
		t.Errorf("rejected AddAccessory (%v) changed the served database:\n%s\n%s", err, before, after)
	}
	zzCheckContainerJSON(t, c)
}

// P6: rebuild determinism
func zzBuild() *Container {
	c := NewContainer()
	c.AddAccessory(NewBridge(Info{Name: "b"}).Accessory)
	c.AddAccessory(NewSwitch(Info{Name: "s"}).Accessory)
	c.AddAccessory(NewTelevision(Info{Name: "t"}).Accessory)
	c.AddAccessory(NewCamera(Info{Name: "c"}).Accessory)
	c.AddAccessory(NewThermostat(Info{Name: "th"}, 1, 0, 10, 1).Accessory)
	c.AddAccessory(NewTemperatureSensor(Info{Name: "te"}, 1, 0, 10, 1).Accessory)
	c.AddAccessory(NewWindow(Info{Name: "w"}, 1).Accessory)
	c.AddAccessory(NewOutlet(Info{Name: "o"}).Accessory)
	c.AddAccessory(NewLightbulb(Info{Name: "l"}).Accessory)
	c.AddAccessory(NewColoredLightbulb(Info{Name: "cl", ID: 77}).Accessory)
	for i := 0; i < 40; i++ {
		c.AddAccessory(NewSwitch(Info{Name: "s"}).Accessory)
	}
	return c
}

func TestZZRebuild(t *testing.T) {
	c1, c2 := zzBuild(), zzBuild()
	b1, _ := json.Marshal(c1)
	b2, _ := json.Marshal(c2)
	if string(b1) != string(b2) {
		t.Errorf("differs")
	}
	if string(c1.ContentHash()) != string(c2.ContentHash()) {
		t.Errorf("hash differs")
	}
	if len(c1.Accessories) != 50 {
		t.Errorf("len %d", len(c1.Accessories))
	}
	zzCheckContainerJSON(t, c1)
}

// P7: max id
func TestZZMaxID(t *testing.T) {
	c := NewContainer()
	a := NewSwitch(Info{Name: "a", ID: math.MaxUint64})
	if err := c.AddAccessory(a.Accessory); err != nil {
		t.Fatal(err)
	}
	b := NewSwitch(Info{Name: "b"})
	if err := c.AddAccessory(b.Accessory); err != nil {
		t.Fatal(err)
	}
	zzCheckContainerJSON(t, c)
}

// P8: hidden / primary / linked
func TestZZHiddenPrimaryLinked(t *testing.T) {
	a := New(Info{Name: "x"}, TypeOther)
	s1 := service.NewSwitch()
	s2 := service.NewSwitch()
	s1.Primary = true
	s2.Hidden = true
	s1.AddLinkedService(s2.Service)
	s2.AddLinkedService(s1.Service)
	// linked first, before target is added
	a.AddService(s1.Service)
	a.AddService(s2.Service)
	c := NewContainer()
	c.AddAccessory(a)
	zzCheckContainerJSON(t, c)
	b, _ := json.Marshal(c)
	t.Logf("%s", b)
}

// P9: same accessory in two containers
func TestZZTwoContainers(t *testing.T) {
	a := NewSwitch(Info{Name: "a"})
	c1 := NewContainer()
	c1.AddAccessory(a.Accessory)
	b1, _ := json.Marshal(c1)
	c2 := NewContainer()
	c2.AddAccessory(NewBridge(Info{Name: "b"}).Accessory)
	c2.AddAccessory(a.Accessory)
	b1b, _ := json.Marshal(c1)
	if string(b1) != string(b1b) {
		t.Logf("container 1 changed after accessory was added to container 2:\n%s\n%s", b1, b1b)
	}
	zzCheckContainerJSON(t, c1)
	zzCheckContainerJSON(t, c2)
}

// P10 (misuse, informational): one service object in two accessories
func TestZZInfoSharedService(t *testing.T) {
	x := service.NewSwitch()
	a := New(Info{Name: "a"}, TypeOther)
	a.AddService(service.NewSwitch().Service)
	a.AddService(x.Service)
	b := New(Info{Name: "b"}, TypeOther)
	b.AddService(x.Service)
	c := NewContainer()
	c.AddAccessory(a)
	c.AddAccessory(b)
	zzCheckContainerJSON(t, c)
}

// P11: optional characteristic added to a service after the accessory is in the container
func TestZZCharacteristicAddedLater(t *testing.T) {
	l := NewLightbulb(Info{Name: "l"})
	c := NewContainer()
	c.AddAccessory(l.Accessory)
	ct := characteristic.NewColorTemperature()
	l.Lightbulb.AddCharacteristic(ct.Characteristic)
	zzCheckContainerJSON(t, c)
}

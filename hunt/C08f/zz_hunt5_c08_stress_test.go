package hc

import (
	"bytes"
	"fmt"
	"net"
	"sync"
	"testing"
	"time"
)

// Probe: one connection, three kinds of writers (responses to its own small
// requests, events triggered by the application, events triggered by writes of
// a second controller). Every frame must open with the next counter and the
// plain stream must be a sequence of whole HTTP/EVENT messages.
func TestZ5ProbeStressWriters(t *testing.T) {
	tr, sw, addr, name, priv := z5Transport(t)
	defer func() { <-tr.Stop() }()

	cb := z5Dial(t, addr, 0)
	defer cb.Close()
	b := z5NewPeer(t, cb, name, priv)
	b.verify(t)
	cc := z5Dial(t, addr, 0)
	defer cc.Close()
	c := z5NewPeer(t, cc, name, priv)
	c.verify(t)

	body := fmt.Sprintf(`{"characteristics":[{"aid":%d,"iid":%d,"ev":true}]}`, sw.Accessory.ID, sw.Switch.On.ID)
	b.send(t, []byte(fmt.Sprintf("PUT /characteristics HTTP/1.1\r\nHost: x\r\nContent-Length: %d\r\n\r\n%s", len(body), body)))

	stop := make(chan struct{})
	var wg sync.WaitGroup
	wg.Add(3)
	go func() { // application
		defer wg.Done()
		for i := 0; ; i++ {
			select {
			case <-stop:
				return
			default:
			}
			sw.Switch.On.SetValue(i%2 == 0)
			time.Sleep(50 * time.Microsecond)
		}
	}()
	go func() { // other controller writes values; drains its answers
		defer wg.Done()
		go func() {
			for {
				if _, err := c.readFrame(); err != nil {
					return
				}
			}
		}()
		for i := 0; ; i++ {
			select {
			case <-stop:
				return
			default:
			}
			body := fmt.Sprintf(`{"characteristics":[{"aid":%d,"iid":%d,"value":%v}]}`, sw.Accessory.ID, sw.Switch.On.ID, i%2 == 0)
			c.send(t, []byte(fmt.Sprintf("PUT /characteristics HTTP/1.1\r\nHost: x\r\nContent-Length: %d\r\n\r\n%s", len(body), body)))
			time.Sleep(200 * time.Microsecond)
		}
	}()
	go func() { // own requests
		defer wg.Done()
		for i := 0; ; i++ {
			select {
			case <-stop:
				return
			default:
			}
			b.send(t, []byte(fmt.Sprintf("GET /characteristics?id=%d.%d HTTP/1.1\r\nHost: x\r\n\r\n", sw.Accessory.ID, sw.Switch.On.ID)))
			time.Sleep(300 * time.Microsecond)
		}
	}()

	deadline := time.Now().Add(3 * time.Second)
	frames, events, resps := 0, 0, 0
	for time.Now().Before(deadline) {
		cb.SetReadDeadline(time.Now().Add(time.Second))
		f, err := b.readFrame()
		if err != nil {
			if ne, ok := err.(net.Error); ok && ne.Timeout() {
				continue
			}
			t.Errorf("after %d frames: %v", frames, err)
			break
		}
		frames++
		// small messages: each write is one frame, each frame one whole message
		switch {
		case bytes.HasPrefix(f, []byte("EVENT/1.0 200 OK\r\n")):
			events++
		case bytes.HasPrefix(f, []byte("HTTP/1.1 20")):
			resps++
		default:
			t.Errorf("frame %d is not the start of a message: %q", frames, f)
		}
		if !bytes.HasSuffix(bytes.TrimSpace(f), []byte("}")) && !bytes.Contains(f, []byte("204 No Content")) {
			t.Errorf("frame %d is not a whole message: %q", frames, f)
		}
	}
	close(stop)
	wg.Wait()
	t.Logf("%d frames, %d events, %d responses", frames, events, resps)
}

package hc

import (
	"fmt"
	"net"
	"net/http"
	"sync"
	"testing"
	"time"
)

// Same history as TestZ5LateWriteOfOldConnectionTakesCounterOfNewConnection,
// but the new connection has a writer of its own at that moment (events which
// the application triggers). The two writers hold different write mutexes (one
// per hap.Connection) and use the same cryptographer: run with -race to see
// the report on secureSession.encryptCount ("No frame counter is reused").
// Without -race the test fails like the other: a frame does not open.
func TestZ5LateWriteOfOldConnectionRacesWithEventsOfNewConnection(t *testing.T) {
	tr, sw, addr, name, priv := z5Transport(t)
	defer func() { <-tr.Stop() }()

	entered := make(chan struct{})
	release := make(chan struct{})
	var once sync.Once
	sw.Switch.On.OnValueRemoteUpdate(func(on bool) {
		once.Do(func() {
			close(entered)
			<-release
		})
	})

	ca := z5Dial(t, addr, 0)
	localPort := ca.LocalAddr().(*net.TCPAddr).Port
	a := z5NewPeer(t, ca, name, priv)
	a.verify(t)
	body := fmt.Sprintf(`{"characteristics":[{"aid":%d,"iid":%d,"value":true}]}`, sw.Accessory.ID, sw.Switch.On.ID)
	a.send(t, []byte(fmt.Sprintf("PUT /characteristics HTTP/1.1\r\nHost: x\r\nContent-Length: %d\r\n\r\n%s", len(body), body)))
	<-entered

	ca.(*net.TCPConn).SetLinger(0)
	ca.Close()
	cb := z5Dial(t, addr, localPort)
	defer cb.Close()
	b := z5NewPeer(t, cb, name, priv)
	b.verify(t)

	// B subscribes to the name characteristic's sibling: the switch state
	// cannot be used (the PUT handler of A holds no lock, but keep it apart)
	body = fmt.Sprintf(`{"characteristics":[{"aid":%d,"iid":%d,"ev":true}]}`, sw.Accessory.ID, sw.Switch.On.ID)
	b.send(t, []byte(fmt.Sprintf("PUT /characteristics HTTP/1.1\r\nHost: x\r\nContent-Length: %d\r\n\r\n%s", len(body), body)))
	cb.SetReadDeadline(time.Now().Add(3 * time.Second))
	rd := b.br2()
	resp, err := http.ReadResponse(rd, nil)
	if err != nil {
		t.Fatal(err)
	}
	if resp.StatusCode != 204 {
		t.Fatal(resp.StatusCode)
	}

	// the application changes the value again and again: events to B
	stop := make(chan struct{})
	done := make(chan struct{})
	go func() {
		defer close(done)
		for i := 0; ; i++ {
			select {
			case <-stop:
				return
			default:
			}
			sw.Switch.On.SetValue(i%2 == 0)
		}
	}()

	time.Sleep(20 * time.Millisecond)
	close(release) // A's response is written while events are written to B
	time.Sleep(200 * time.Millisecond)
	close(stop)
	<-done

	// the peer opens everything that arrived
	cb.SetReadDeadline(time.Now().Add(500 * time.Millisecond))
	frames := 0
	for {
		_, err := b.readFrame()
		if err != nil {
			if ne, ok := err.(net.Error); ok && ne.Timeout() {
				break
			}
			t.Fatalf("after %d good frames: %v", frames, err)
		}
		frames++
	}
	t.Logf("%d frames opened", frames)
}

package hc

import (
	"fmt"
	"io"
	"net"
	"net/http"
	"testing"
	"time"
)

// Clause broken: "the peer can decrypt every frame in the order it arrives. No
// frame counter is reused or emitted out of order."
//
// History: a controller resets its connection while the application is still
// busy with a write it sent (a slow OnValueRemoteUpdate callback), connects
// again from the same port (the history of repair 3a64b84) and pair-verifies.
// When the callback returns, net/http writes the response of the old request
// to the old hap.Connection. Connection.Write looks its encrypter up by the
// addresses of the connection (hap/connection.go getEncrypter), finds the
// session of the NEW connection, seals the response with the new connection's
// key and counter 0 and writes it to the dead socket. The first frame the peer
// then gets on the new connection was sealed with counter 1.
func TestZ5LateWriteOfOldConnectionTakesCounterOfNewConnection(t *testing.T) {
	tr, sw, addr, name, priv := z5Transport(t)
	defer func() { <-tr.Stop() }()

	entered := make(chan struct{})
	release := make(chan struct{})
	first := true
	sw.Switch.On.OnValueRemoteUpdate(func(on bool) {
		if first {
			first = false
			close(entered)
			<-release // the application is slow (talks to a device)
		}
	})

	// connection A
	ca := z5Dial(t, addr, 0)
	localPort := ca.LocalAddr().(*net.TCPAddr).Port
	a := z5NewPeer(t, ca, name, priv)
	a.verify(t)

	body := fmt.Sprintf(`{"characteristics":[{"aid":%d,"iid":%d,"value":true}]}`, sw.Accessory.ID, sw.Switch.On.ID)
	a.send(t, []byte(fmt.Sprintf("PUT /characteristics HTTP/1.1\r\nHost: x\r\nContent-Length: %d\r\n\r\n%s", len(body), body)))
	select {
	case <-entered:
	case <-time.After(3 * time.Second):
		t.Fatal("callback not reached")
	}

	// the controller resets A and comes back from the same port
	ca.(*net.TCPConn).SetLinger(0)
	ca.Close()
	cb := z5Dial(t, addr, localPort)
	defer cb.Close()
	b := z5NewPeer(t, cb, name, priv)
	b.verify(t)

	// wait until the server reads the next request on B (its keys are in use;
	// Encrypter() only reads)
	for i := 0; ; i++ {
		active := false
		for _, c := range tr.context.ActiveConnections() {
			if s := tr.context.GetSessionForConnection(c); s != nil && s.Encrypter() != nil {
				active = true
			}
		}
		if active {
			break
		}
		if i > 300 {
			t.Fatal("keys of B not active")
		}
		time.Sleep(10 * time.Millisecond)
	}

	// the application returns; the old request is answered
	close(release)
	time.Sleep(300 * time.Millisecond)

	// single writer on B from here on: one request, one response
	b.send(t, []byte(fmt.Sprintf("GET /characteristics?id=%d.%d HTTP/1.1\r\nHost: x\r\n\r\n", sw.Accessory.ID, sw.Switch.On.ID)))
	cb.SetReadDeadline(time.Now().Add(3 * time.Second))
	resp, err := http.ReadResponse(b.br2(), nil)
	if err != nil {
		t.Fatalf("the peer cannot read the response on the new connection: %v", err)
	}
	buf, _ := io.ReadAll(resp.Body)
	t.Logf("response: %d %s", resp.StatusCode, buf)
}

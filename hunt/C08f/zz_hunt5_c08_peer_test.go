package hc

// Reference controller ("the peer") written from the HAP specification only:
// pair-verify client, frame sealing and frame opening with x/crypto. Nothing
// of the library's crypto or pair packages is used on this side.

import (
	"bufio"
	"bytes"
	"crypto/ed25519"
	"crypto/rand"
	"crypto/sha512"
	"encoding/binary"
	"fmt"
	"io"
	"net"
	"net/http"
	"syscall"
	"testing"
	"time"

	"github.com/brutella/hc/accessory"
	"github.com/brutella/hc/db"
	"golang.org/x/crypto/chacha20poly1305"
	"golang.org/x/crypto/curve25519"
	"golang.org/x/crypto/hkdf"
)

type z5Peer struct {
	conn net.Conn
	br   *bufio.Reader

	name string
	priv ed25519.PrivateKey

	readKey  []byte // accessory -> controller
	writeKey []byte // controller -> accessory
	readCnt  uint64
	writeCnt uint64

	plain bytes.Buffer // decrypted bytes not consumed yet
}

func z5hkdf(secret []byte, salt, info string) []byte {
	out := make([]byte, 32)
	io.ReadFull(hkdf.New(sha512.New, secret, []byte(salt), []byte(info)), out)
	return out
}

func z5tlv(items ...interface{}) []byte {
	var b bytes.Buffer
	for i := 0; i < len(items); i += 2 {
		tag := byte(items[i].(int))
		val := items[i+1].([]byte)
		for {
			n := len(val)
			if n > 255 {
				n = 255
			}
			b.WriteByte(tag)
			b.WriteByte(byte(n))
			b.Write(val[:n])
			val = val[n:]
			if len(val) == 0 {
				break
			}
		}
	}
	return b.Bytes()
}

func z5untlv(b []byte) map[byte][]byte {
	m := map[byte][]byte{}
	for len(b) >= 2 {
		tag, n := b[0], int(b[1])
		m[tag] = append(m[tag], b[2:2+n]...)
		b = b[2+n:]
	}
	return m
}

func z5seal(key []byte, nonce []byte, msg, ad []byte) []byte {
	a, _ := chacha20poly1305.New(key)
	var n [12]byte
	copy(n[12-len(nonce):], nonce)
	return a.Seal(nil, n[:], msg, ad)
}

func z5open(key []byte, nonce []byte, msg, ad []byte) ([]byte, error) {
	a, _ := chacha20poly1305.New(key)
	var n [12]byte
	copy(n[12-len(nonce):], nonce)
	return a.Open(nil, n[:], msg, ad)
}

// z5Dial connects from a given local port (0 = any).
func z5Dial(t testing.TB, addr string, localPort int) net.Conn {
	d := net.Dialer{Timeout: 2 * time.Second}
	if localPort != 0 {
		d.LocalAddr = &net.TCPAddr{IP: net.IPv4(127, 0, 0, 1), Port: localPort}
		d.Control = func(network, address string, c syscall.RawConn) error {
			return c.Control(func(fd uintptr) {
				syscall.SetsockoptInt(int(fd), syscall.SOL_SOCKET, syscall.SO_REUSEADDR, 1)
			})
		}
	}
	var c net.Conn
	var err error
	for i := 0; i < 100; i++ {
		c, err = d.Dial("tcp4", addr)
		if err == nil {
			return c
		}
		time.Sleep(20 * time.Millisecond)
	}
	t.Fatal("dial: ", err)
	return nil
}

func (p *z5Peer) plainRoundTrip(t testing.TB, path string, body []byte) []byte {
	req := fmt.Sprintf("POST %s HTTP/1.1\r\nHost: x\r\nContent-Type: application/pairing+tlv8\r\nContent-Length: %d\r\n\r\n", path, len(body))
	if _, err := p.conn.Write(append([]byte(req), body...)); err != nil {
		t.Fatal(err)
	}
	resp, err := http.ReadResponse(p.br, nil)
	if err != nil {
		t.Fatal("plain response: ", err)
	}
	var b bytes.Buffer
	io.Copy(&b, resp.Body)
	resp.Body.Close()
	if resp.StatusCode != 200 {
		t.Fatalf("%s: status %d", path, resp.StatusCode)
	}
	return b.Bytes()
}

// verify runs pair-verify (M1..M4) and installs the session keys.
func (p *z5Peer) verify(t testing.TB) {
	var priv [32]byte
	rand.Read(priv[:])
	pub, _ := curve25519.X25519(priv[:], curve25519.Basepoint)

	m2 := z5untlv(p.plainRoundTrip(t, "/pair-verify", z5tlv(6, []byte{1}, 3, pub)))
	if len(m2[3]) != 32 {
		t.Fatalf("M2 without public key: %v", m2)
	}
	shared, err := curve25519.X25519(priv[:], m2[3])
	if err != nil {
		t.Fatal(err)
	}
	k := z5hkdf(shared, "Pair-Verify-Encrypt-Salt", "Pair-Verify-Encrypt-Info")
	if _, err := z5open(k, []byte("PV-Msg02"), m2[5], nil); err != nil {
		t.Fatal("M2 does not open: ", err)
	}

	material := append(append(append([]byte{}, pub...), p.name...), m2[3]...)
	sig := ed25519.Sign(p.priv, material)
	sub := z5tlv(1, []byte(p.name), 10, sig)
	m4 := z5untlv(p.plainRoundTrip(t, "/pair-verify", z5tlv(6, []byte{3}, 5, z5seal(k, []byte("PV-Msg03"), sub, nil))))
	if len(m4[7]) != 0 {
		t.Fatalf("M4 carries error %v", m4[7])
	}

	p.readKey = z5hkdf(shared, "Control-Salt", "Control-Read-Encryption-Key")
	p.writeKey = z5hkdf(shared, "Control-Salt", "Control-Write-Encryption-Key")
	p.readCnt, p.writeCnt = 0, 0
}

func (p *z5Peer) send(t testing.TB, msg []byte) {
	var out bytes.Buffer
	for len(msg) > 0 {
		n := len(msg)
		if n > 1024 {
			n = 1024
		}
		var l [2]byte
		binary.LittleEndian.PutUint16(l[:], uint16(n))
		var nonce [8]byte
		binary.LittleEndian.PutUint64(nonce[:], p.writeCnt)
		p.writeCnt++
		out.Write(l[:])
		out.Write(z5seal(p.writeKey, nonce[:], msg[:n], l[:]))
		msg = msg[n:]
	}
	if _, err := p.conn.Write(out.Bytes()); err != nil {
		t.Fatal(err)
	}
}

// readFrame reads the next frame from the socket and opens it with the next
// counter, as a controller does.
func (p *z5Peer) readFrame() ([]byte, error) {
	var l [2]byte
	if _, err := io.ReadFull(p.br, l[:]); err != nil {
		return nil, err
	}
	n := int(binary.LittleEndian.Uint16(l[:]))
	body := make([]byte, n+16)
	if _, err := io.ReadFull(p.br, body); err != nil {
		return nil, err
	}
	var nonce [8]byte
	binary.LittleEndian.PutUint64(nonce[:], p.readCnt)
	plain, err := z5open(p.readKey, nonce[:], body, l[:])
	if err != nil {
		// which counter was it sealed with?
		for c := uint64(0); c < p.readCnt+64; c++ {
			binary.LittleEndian.PutUint64(nonce[:], c)
			if _, e := z5open(p.readKey, nonce[:], body, l[:]); e == nil {
				return nil, fmt.Errorf("frame expected with counter %d does not open (%v); it was sealed with counter %d", p.readCnt, err, c)
			}
		}
		return nil, fmt.Errorf("frame expected with counter %d does not open: %v", p.readCnt, err)
	}
	p.readCnt++
	return plain, nil
}

// Read hands out decrypted bytes (for http.ReadResponse).
func (p *z5Peer) Read(b []byte) (int, error) {
	if p.plain.Len() == 0 {
		f, err := p.readFrame()
		if err != nil {
			return 0, err
		}
		p.plain.Write(f)
	}
	return p.plain.Read(b)
}

func z5NewPeer(t testing.TB, c net.Conn, name string, priv ed25519.PrivateKey) *z5Peer {
	return &z5Peer{conn: c, br: bufio.NewReader(c), name: name, priv: priv}
}

// z5Transport starts a transport with one switch on a free port and stores
// a controller pairing. It returns the transport, the switch, the address
// and the controller's identity.
func z5Transport(t testing.TB) (*ipTransport, *accessory.Switch, string, string, ed25519.PrivateKey) {
	ln, err := net.Listen("tcp4", "127.0.0.1:0")
	if err != nil {
		t.Fatal(err)
	}
	_, port, _ := net.SplitHostPort(ln.Addr().String())
	ln.Close()

	dir := t.(interface{ TempDir() string }).TempDir()
	sw := accessory.NewSwitch(accessory.Info{Name: "Z5 Switch"})
	tr, err := NewIPTransport(Config{StoragePath: dir, Port: port, Pin: "00102003"}, sw.Accessory)
	if err != nil {
		t.Fatal(err)
	}

	pub, priv, _ := ed25519.GenerateKey(rand.Reader)
	name := "11111111-2222-3333-4444-555555555555"
	if err := tr.database.SaveEntity(db.NewEntity(name, pub, nil)); err != nil {
		t.Fatal(err)
	}

	go tr.Start()
	return tr, sw, "127.0.0.1:" + port, name, priv
}

// br2 returns a buffered reader over the decrypted stream.
func (p *z5Peer) br2() *bufio.Reader { return bufio.NewReader(p) }

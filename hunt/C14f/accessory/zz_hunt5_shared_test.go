package accessory

import (
	"encoding/json"
	"fmt"
	"testing"

	"github.com/brutella/hc/characteristic"
	"github.com/brutella/hc/service"
)

// zzDupIIDs returns the instance ids which occur more than once (or are zero)
// inside one accessory of the marshalled container.
func zzDupIIDs(t *testing.T, c *Container) []string {
	b, err := json.Marshal(c)
	if err != nil {
		t.Fatal(err)
	}
	var db struct {
		Accessories []struct {
			Aid      uint64 `json:"aid"`
			Services []struct {
				Iid             uint64 `json:"iid"`
				Characteristics []struct {
					Iid uint64 `json:"iid"`
				} `json:"characteristics"`
			} `json:"services"`
		} `json:"accessories"`
	}
	if err := json.Unmarshal(b, &db); err != nil {
		t.Fatal(err)
	}
	var out []string
	for _, a := range db.Accessories {
		seen := map[uint64]int{}
		for _, s := range a.Services {
			seen[s.Iid]++
			for _, ch := range s.Characteristics {
				seen[ch.Iid]++
			}
		}
		for id, n := range seen {
			if n > 1 || id == 0 {
				out = append(out, fmt.Sprintf("aid %d: iid %d occurs %d times", a.Aid, id, n))
			}
		}
	}
	return out
}

// Clause: "within each accessory all service and characteristic instance ids are unique".
// Composition: a bridge with two bridged sensors which are powered by one battery; the
// application builds ONE battery service and adds it to both accessories. Every call is
// accepted without an error, the attribute database then has duplicate iids in the first sensor.
func TestZZSharedServiceBetweenTwoAccessories(t *testing.T) {
	battery := service.NewBatteryService() // 1 service + 3 characteristics

	a := New(Info{Name: "sensor A"}, TypeSensor)
	a.AddService(battery.Service)
	a.AddService(service.NewTemperatureSensor().Service)

	b := New(Info{Name: "sensor B"}, TypeSensor)
	b.AddService(service.NewMotionSensor().Service)
	b.AddService(battery.Service)

	c := NewContainer()
	for _, x := range []*Accessory{NewBridge(Info{Name: "bridge"}).Accessory, a, b} {
		if err := c.AddAccessory(x); err != nil {
			t.Logf("refused (that is fine, the container stays well-formed): %v", err)
		}
	}
	for _, d := range zzDupIIDs(t, c) {
		t.Error(d)
	}
}

// Same clause, one accessory: the same service object added twice (every call accepted).
func TestZZSameServiceAddedTwice(t *testing.T) {
	a := New(Info{Name: "a"}, TypeSwitch)
	sw := service.NewSwitch()
	a.AddService(sw.Service)
	a.AddService(sw.Service)
	c := NewContainer()
	if err := c.AddAccessory(a); err != nil {
		t.Logf("refused (that is fine, the container stays well-formed): %v", err)
	}
	for _, d := range zzDupIIDs(t, c) {
		t.Error(d)
	}
}

// Same clause: one characteristic object (a Name) used by two services of one accessory.
func TestZZSharedCharacteristicBetweenTwoServices(t *testing.T) {
	a := New(Info{Name: "a"}, TypeSwitch)
	name := characteristic.NewName()
	name.SetValue("left")
	s1, s2 := service.NewSwitch(), service.NewOutlet()
	s1.AddCharacteristic(name.Characteristic)
	s2.AddCharacteristic(name.Characteristic)
	a.AddService(s1.Service)
	a.AddService(s2.Service)
	c := NewContainer()
	if err := c.AddAccessory(a); err != nil {
		t.Logf("refused (that is fine, the container stays well-formed): %v", err)
	}
	for _, d := range zzDupIIDs(t, c) {
		t.Error(d)
	}
}

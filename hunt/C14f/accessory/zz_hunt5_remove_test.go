package accessory

import (
	"math/rand"
	"testing"
)

// Probe (found nothing): random add / remove histories keep accessory ids unique and non-zero
// and the container's list free of removed accessories.
func TestZZRandomAddRemove(t *testing.T) {
	for seed := int64(1); seed <= 3000; seed++ {
		r := rand.New(rand.NewSource(seed))
		c := NewContainer()
		var in []*Accessory
		var out []*Accessory
		for step := 0; step < 60; step++ {
			switch r.Intn(4) {
			case 0, 1:
				var id uint64
				if r.Intn(3) == 0 {
					id = uint64(1 + r.Intn(20))
				}
				a := New(Info{Name: "a", ID: id}, TypeOther)
				if c.AddAccessory(a) == nil {
					in = append(in, a)
				}
			case 2:
				if len(in) > 0 {
					i := r.Intn(len(in))
					c.RemoveAccessory(in[i])
					out = append(out, in[i])
					in = append(in[:i:i], in[i+1:]...)
				}
			case 3:
				if len(out) > 0 {
					i := r.Intn(len(out))
					if c.AddAccessory(out[i]) == nil {
						in = append(in, out[i])
						out = append(out[:i:i], out[i+1:]...)
					}
				}
			}
			if len(c.Accessories) != len(in) {
				t.Fatalf("seed %d step %d: %d in container, model %d", seed, step, len(c.Accessories), len(in))
			}
			seen := map[uint64]bool{}
			for i, a := range c.Accessories {
				if a != in[i] {
					t.Fatalf("seed %d step %d: order", seed, step)
				}
				if a.ID == 0 || seen[a.ID] {
					t.Fatalf("seed %d step %d: id %d", seed, step, a.ID)
				}
				seen[a.ID] = true
			}
		}
	}
}

package accessory

import (
	"encoding/json"
	"math/rand"
	"sort"
	"testing"

	"github.com/brutella/hc/service"
)

type zzSvcSpec struct {
	ctor            string
	hidden, primary bool
	links           []int // indices into the accessory's services (0 = info)
}
type zzAccSpec struct {
	id       uint64
	svcs     []zzSvcSpec
	addEarly bool // added to the container before its services are added
}

func zzBuild(t *testing.T, specs []zzAccSpec) (*Container, []bool) {
	c := NewContainer()
	ok := make([]bool, len(specs))
	for i, sp := range specs {
		a := New(Info{Name: "a", ID: sp.id}, TypeOther)
		if sp.addEarly {
			ok[i] = c.AddAccessory(a) == nil
		}
		var ss []*service.Service
		ss = append(ss, a.Info.Service)
		for _, s := range sp.svcs {
			sv := zzAllServices[s.ctor]()
			sv.Hidden, sv.Primary = s.hidden, s.primary
			a.AddService(sv)
			ss = append(ss, sv)
		}
		for j, s := range sp.svcs {
			for _, l := range s.links {
				ss[j+1].AddLinkedService(ss[l])
			}
		}
		if !sp.addEarly {
			ok[i] = c.AddAccessory(a) == nil
		}
	}
	return c, ok
}

func TestZZRandomCompositions(t *testing.T) {
	names := []string{}
	for n := range zzAllServices {
		names = append(names, n)
	}
	sort.Strings(names)
	for seed := int64(1); seed <= 1500; seed++ {
		r := rand.New(rand.NewSource(seed))
		n := 1 + r.Intn(40)
		specs := make([]zzAccSpec, n)
		for i := range specs {
			switch r.Intn(6) {
			case 0:
				specs[i].id = uint64(1 + r.Intn(n+3))
			case 1:
				specs[i].id = []uint64{1 << 31, 1 << 32, 1<<53 + 1, 1 << 63, 1<<64 - 1, 1<<64 - 2}[r.Intn(6)]
			}
			specs[i].addEarly = r.Intn(3) == 0
			k := r.Intn(6)
			for j := 0; j < k; j++ {
				s := zzSvcSpec{ctor: names[r.Intn(len(names))], hidden: r.Intn(4) == 0, primary: r.Intn(4) == 0}
				for l := r.Intn(3); l > 0; l-- {
					s.links = append(s.links, r.Intn(k+1))
				}
				specs[i].svcs = append(specs[i].svcs, s)
			}
		}
		c1, ok1 := zzBuild(t, specs)
		c2, ok2 := zzBuild(t, specs)
		b1, err := json.Marshal(c1)
		if err != nil {
			t.Fatal(err)
		}
		b2, _ := json.Marshal(c2)
		if string(b1) != string(b2) {
			t.Fatalf("seed %d: rebuild differs", seed)
		}
		for i := range ok1 {
			if ok1[i] != ok2[i] {
				t.Fatalf("seed %d: acceptance differs", seed)
			}
		}
		if errs := zzCheckDB(b1); len(errs) > 0 {
			t.Fatalf("seed %d: %v", seed, errs)
		}
		// model: accepted accessories only, in order; sequential iids
		taken := map[uint64]bool{}
		var next uint64 = 1
		idx := 0
		for i, sp := range specs {
			want := sp.id
			if want == 0 {
				for taken[next] {
					next++
				}
				want = next
				next++
			} else if taken[want] {
				if ok1[i] {
					t.Fatalf("seed %d: duplicate accepted", seed)
				}
				continue
			}
			taken[want] = true
			if !ok1[i] {
				t.Fatalf("seed %d: acc %d (id %d) rejected", seed, i, sp.id)
			}
			a := c1.Accessories[idx]
			idx++
			if a.ID != want {
				t.Fatalf("seed %d: acc %d id %d want %d", seed, i, a.ID, want)
			}
			var iid uint64 = 1
			for _, s := range a.Services {
				if s.ID != iid {
					t.Fatalf("seed %d: svc iid %d want %d", seed, s.ID, iid)
				}
				iid++
				for _, ch := range s.Characteristics {
					if ch.ID != iid {
						t.Fatalf("seed %d: chr iid %d want %d", seed, ch.ID, iid)
					}
					iid++
				}
			}
		}
		if idx != len(c1.Accessories) {
			t.Fatalf("seed %d: %d accessories in container, model %d", seed, len(c1.Accessories), idx)
		}
	}
}

package accessory

import (
	"encoding/json"
	"fmt"
	"regexp"
	"sort"
	"testing"

	"github.com/brutella/hc/service"
)

var zzHex = regexp.MustCompile(`^[0-9A-F]{1,8}$|^[0-9A-Fa-f]{8}-[0-9A-Fa-f]{4}-[0-9A-Fa-f]{4}-[0-9A-Fa-f]{4}-[0-9A-Fa-f]{12}$`)
var zzFormats = map[string]bool{"int32": true, "bool": true, "uint8": true, "uint16": true, "uint32": true, "uint64": true, "int": true, "float": true, "string": true, "tlv8": true, "data": true}
var zzPerms = map[string]bool{"pr": true, "pw": true, "ev": true, "aa": true, "tw": true, "hd": true, "wr": true}

func zzNum(v interface{}) (json.Number, bool) { n, ok := v.(json.Number); return n, ok }

// zzCheckDB validates a marshalled container against the property's statement.
func zzCheckDB(b []byte) []string {
	var errs []string
	var root map[string]interface{}
	dec := json.NewDecoder(bytesReader(b))
	dec.UseNumber()
	if err := dec.Decode(&root); err != nil {
		return []string{"not JSON: " + err.Error()}
	}
	accs, ok := root["accessories"].([]interface{})
	if !ok {
		return []string{"no accessories array"}
	}
	aids := map[string]bool{}
	for ai, a := range accs {
		am, ok := a.(map[string]interface{})
		if !ok {
			errs = append(errs, fmt.Sprintf("acc[%d] not an object", ai))
			continue
		}
		aid, ok := zzNum(am["aid"])
		if !ok || aid.String() == "0" {
			errs = append(errs, fmt.Sprintf("acc[%d] aid %v", ai, am["aid"]))
		}
		if aids[aid.String()] {
			errs = append(errs, fmt.Sprintf("acc[%d] duplicate aid %v", ai, aid))
		}
		aids[aid.String()] = true
		svcs, ok := am["services"].([]interface{})
		if !ok {
			errs = append(errs, fmt.Sprintf("acc[%d] services %v", ai, am["services"]))
			continue
		}
		iids := map[string]string{}
		svcIids := map[string]bool{}
		for si, s := range svcs {
			sm, ok := s.(map[string]interface{})
			if !ok {
				errs = append(errs, fmt.Sprintf("acc[%d].svc[%d] not an object: %v", ai, si, s))
				continue
			}
			iid, ok := zzNum(sm["iid"])
			if !ok || iid.String() == "0" {
				errs = append(errs, fmt.Sprintf("acc[%d].svc[%d] iid %v", ai, si, sm["iid"]))
			}
			if w, dup := iids[iid.String()]; dup {
				errs = append(errs, fmt.Sprintf("acc[%d].svc[%d] iid %v also used by %s", ai, si, iid, w))
			}
			iids[iid.String()] = fmt.Sprintf("svc[%d]", si)
			svcIids[iid.String()] = true
			if t, ok := sm["type"].(string); !ok || !zzHex.MatchString(t) {
				errs = append(errs, fmt.Sprintf("acc[%d].svc[%d] type %v", ai, si, sm["type"]))
			}
			chars, ok := sm["characteristics"].([]interface{})
			if !ok {
				errs = append(errs, fmt.Sprintf("acc[%d].svc[%d] characteristics %v", ai, si, sm["characteristics"]))
				continue
			}
			for ci, c := range chars {
				cm, ok := c.(map[string]interface{})
				where := fmt.Sprintf("acc[%d].svc[%d].chr[%d]", ai, si, ci)
				if !ok {
					errs = append(errs, where+fmt.Sprintf(" not an object: %v", c))
					continue
				}
				iid, ok := zzNum(cm["iid"])
				if !ok || iid.String() == "0" {
					errs = append(errs, where+fmt.Sprintf(" iid %v", cm["iid"]))
				}
				if w, dup := iids[iid.String()]; dup {
					errs = append(errs, where+fmt.Sprintf(" iid %v also used by %s", iid, w))
				}
				iids[iid.String()] = where
				if t, ok := cm["type"].(string); !ok || !zzHex.MatchString(t) {
					errs = append(errs, where+fmt.Sprintf(" type %v", cm["type"]))
				}
				if f, ok := cm["format"].(string); !ok || !zzFormats[f] {
					errs = append(errs, where+fmt.Sprintf(" type %v format %q", cm["type"], cm["format"]))
				}
				ps, ok := cm["perms"].([]interface{})
				if !ok || len(ps) == 0 {
					errs = append(errs, where+fmt.Sprintf(" type %v perms %v", cm["type"], cm["perms"]))
				}
				seen := map[string]bool{}
				for _, p := range ps {
					s, ok := p.(string)
					if !ok || !zzPerms[s] || seen[s] {
						errs = append(errs, where+fmt.Sprintf(" type %v perm %v", cm["type"], p))
					}
					seen[s] = true
				}
			}
		}
		// linked ids must name services of this accessory
		for si, s := range svcs {
			sm, _ := s.(map[string]interface{})
			if l, ok := sm["linked"]; ok {
				ls, ok := l.([]interface{})
				if !ok {
					errs = append(errs, fmt.Sprintf("acc[%d].svc[%d] linked %v", ai, si, l))
				}
				for _, x := range ls {
					n, _ := zzNum(x)
					if !svcIids[n.String()] {
						errs = append(errs, fmt.Sprintf("acc[%d].svc[%d] linked %v is not a service iid", ai, si, x))
					}
				}
			}
		}
	}
	return errs
}

func TestZZAllConstructorsWellFormed(t *testing.T) {
	names := []string{}
	for n := range zzAllServices {
		names = append(names, n)
	}
	sort.Strings(names)
	c := NewContainer()
	for _, n := range names {
		a := New(Info{Name: n}, TypeOther)
		a.AddService(zzAllServices[n]())
		if err := c.AddAccessory(a); err != nil {
			t.Fatal(err)
		}
	}
	cn := []string{}
	for n := range zzAllChars {
		cn = append(cn, n)
	}
	sort.Strings(cn)
	a := New(Info{Name: "allchars"}, TypeOther)
	s := service.New("FFFF")
	for _, n := range cn {
		s.AddCharacteristic(zzAllChars[n]())
	}
	a.AddService(s)
	c.AddAccessory(a)
	info := Info{Name: "x"}
	for _, x := range []*Accessory{NewBridge(info).Accessory, NewCamera(info).Accessory, NewColoredLightbulb(info).Accessory, NewLightbulb(info).Accessory,
		NewOutlet(info).Accessory, NewSwitch(info).Accessory, NewTelevision(info).Accessory, NewTemperatureSensor(info, 1, 0, 10, 1).Accessory, NewThermostat(info, 1, 0, 10, 1).Accessory, NewWindow(info, 3).Accessory} {
		if err := c.AddAccessory(x); err != nil {
			t.Fatal(err)
		}
	}
	b, err := json.Marshal(c)
	if err != nil {
		t.Fatal(err)
	}
	for _, e := range zzCheckDB(b) {
		t.Error(e)
	}
}

func bytesReader(b []byte) *zzReader { return &zzReader{b: b} }

type zzReader struct {
	b []byte
	i int
}

func (r *zzReader) Read(p []byte) (int, error) {
	if r.i >= len(r.b) {
		return 0, fmt.Errorf("EOF")
	}
	n := copy(p, r.b[r.i:])
	r.i += n
	return n, nil
}

package http

import (
	"encoding/json"
	"net/http/httptest"
	"sync"
	"testing"

	"github.com/brutella/hc/accessory"
	"github.com/brutella/hc/service"
)

func TestZZAccessoriesBig(t *testing.T) {
	c := accessory.NewContainer()
	for i := 0; i < 60; i++ {
		a := accessory.NewTelevision(accessory.Info{Name: "tv<&>\xff"})
		for j := 0; j < 20; j++ {
			in := service.NewInputSource()
			a.AddService(in.Service)
			a.Television.AddLinkedService(in.Service)
		}
		if err := c.AddAccessory(a.Accessory); err != nil {
			t.Fatal(err)
		}
	}
	srv := testable(Config{Container: c, Mutex: &sync.Mutex{}})
	w := httptest.NewRecorder()
	r := httptest.NewRequest("GET", "/accessories", nil)
	srv.Accessories(w, r)
	var got, want interface{}
	if err := json.Unmarshal(w.Body.Bytes(), &got); err != nil {
		t.Fatal(err)
	}
	b, _ := json.Marshal(c)
	json.Unmarshal(b, &want)
	gb, _ := json.Marshal(got)
	wb, _ := json.Marshal(want)
	if string(gb) != string(wb) {
		t.Fatal("differs")
	}
	t.Log(len(b), w.Code)
}

package util

// Hunt-3 C19: the temporary file of Set(key) is "<key>.tmp" in the SAME
// directory and the SAME name space as the keys (util/file_storage.go:46), and
// Storage accepts any key. So a write of key "a" goes through the file of the
// key "a.tmp".
//
// Clause broken: "... and all other keys are untouched."
//
// BORDERLINE with respect to the quantifier: the library's own keys (uuid,
// version, configHash, <hex>.entity, <name>.serial) never end in ".tmp"; only
// an application which uses the exported util.Storage with such a key (or
// lists keys with KeysWithSuffix("")) is hit.

import (
	"fmt"
	"io/ioutil"
	"os"
	"os/exec"
	"reflect"
	"sort"
	"strings"
	"testing"
)

// Process killed (real SIGKILL, strace injection) when it is about to write the
// new value of key "a": after restart the OTHER key "a.tmp" is empty.
// The variant without a kill: Set("a") completes, the other key "a.tmp" is gone.
func TestHunt3TmpNameIsAKey(t *testing.T) {
	if os.Getenv("HUNT3_CHILD") != "" {
		t.Skip()
	}
	if _, err := exec.LookPath("strace"); err != nil {
		t.Skip("no strace")
	}
	for _, pt := range []string{"write:1", "none"} {
		dir, _ := ioutil.TempDir("", "h3c19n")
		st, _ := NewFileStorage(dir)
		st.Set("a", []byte("old-a"))
		st.Set("a.tmp", []byte("value of the other key"))
		valfile := dir + ".val"
		ioutil.WriteFile(valfile, []byte("new-a"), 0600)
		args := []string{"-f", "-o", "/dev/null"}
		if pt != "none" {
			sc := strings.Split(pt, ":")
			args = append(args, "-e", fmt.Sprintf("inject=%s:signal=SIGKILL:when=%s", sc[0], sc[1]))
		}
		args = append(args, os.Args[0], "-test.run=^TestHunt3Child$")
		cmd := exec.Command("strace", args...)
		cmd.Env = append(os.Environ(), "HUNT3_CHILD=1", "HUNT3_DIR="+dir, "HUNT3_KEY=a", "HUNT3_VALFILE="+valfile)
		out, err := cmd.CombinedOutput()
		killed := !strings.Contains(string(out), "CHILD-DONE")
		if killed != (pt != "none") {
			t.Fatalf("crash point %s: killed=%v err=%v out=%s", pt, killed, err, out)
		}

		fresh, _ := NewFileStorage(dir)
		a, _ := fresh.Get("a")
		other, oerr := fresh.Get("a.tmp")
		t.Logf("crash point %s: a=%q a.tmp=%q (err %v)", pt, a, other, oerr)
		if oerr != nil || string(other) != "value of the other key" {
			t.Errorf("crash point %s of Set(\"a\"): the other key \"a.tmp\" was touched: %q (err %v)", pt, other, oerr)
		}
		os.RemoveAll(dir)
		os.Remove(valfile)
	}
}

// Process killed at the rename: after restart the store has a key which was
// never set ("uuid.tmp"), visible through KeysWithSuffix and Get.
func TestHunt3PhantomKeyAfterCrash(t *testing.T) {
	if os.Getenv("HUNT3_CHILD") != "" {
		t.Skip()
	}
	if _, err := exec.LookPath("strace"); err != nil {
		t.Skip("no strace")
	}
	dir, _ := ioutil.TempDir("", "h3c19p")
	defer os.RemoveAll(dir)
	st, _ := NewFileStorage(dir)
	st.Set("uuid", []byte("11:22:33:44:55:66"))
	st.Set("version", []byte("1"))
	before, _ := st.KeysWithSuffix("")
	valfile := dir + ".val"
	defer os.Remove(valfile)
	ioutil.WriteFile(valfile, []byte("AA:BB:CC:DD:EE:FF"), 0600)
	cmd := exec.Command("strace", "-f", "-o", "/dev/null",
		"-e", "inject=renameat:signal=SIGKILL:when=1", os.Args[0], "-test.run=^TestHunt3Child$")
	cmd.Env = append(os.Environ(), "HUNT3_CHILD=1", "HUNT3_DIR="+dir, "HUNT3_KEY=uuid", "HUNT3_VALFILE="+valfile)
	out, _ := cmd.CombinedOutput()
	if strings.Contains(string(out), "CHILD-DONE") {
		t.Fatalf("not killed: %s", out)
	}
	fresh, _ := NewFileStorage(dir)
	after, _ := fresh.KeysWithSuffix("")
	sort.Strings(before)
	sort.Strings(after)
	if !reflect.DeepEqual(before, after) {
		v, _ := fresh.Get("uuid.tmp")
		t.Errorf("keys before the killed Set(\"uuid\"): %v, after restart: %v (Get(\"uuid.tmp\") = %q)", before, after, v)
	}
}

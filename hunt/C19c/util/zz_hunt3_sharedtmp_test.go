package util

// Hunt-3 C19: every writer of a key uses the SAME temporary file "<key>.tmp"
// (util/file_storage.go:46). Two writes of one key which overlap in time
// therefore share one inode:
//
//   - the second open truncates what the first writer has written (or is about
//     to rename into place): the key becomes EMPTY / TRUNCATED;
//   - the second writer writes at offset 0 into what the first writer has
//     written: the key becomes a MIXTURE of the two values;
//   - after the first rename the second writer writes IN PLACE into the live
//     value file, i.e. exactly the pre-fix behaviour.
//
// Clause broken: "the key holds either its previous value or the new value in
// full (never a mixture, an empty or a truncated value)". Here even without a
// crash: the wrong value is what a fresh store reads after both Set calls have
// returned; a process killed at any later point restarts with it.
//
// BORDERLINE with respect to the quantifier: the quantifier ranges over crash
// points of a write; that two writes of one key overlap is an additional
// schedule. The library itself produces it (POST /pairings and pair-setup M5
// call SaveEntity without any lock, one goroutine per connection).

import (
	"bytes"
	"fmt"
	"io/ioutil"
	"os"
	"os/exec"
	"strings"
	"sync"
	"syscall"
	"testing"
	"time"
)

// Statistical variant, in process, no tools: two goroutines set one key to A
// resp. B at the same time; when both have returned a FRESH store must read A
// or B in full.
func TestHunt3SharedTmpConcurrentSetRate(t *testing.T) {
	if os.Getenv("HUNT3_CHILD") != "" {
		t.Skip()
	}
	dir, _ := ioutil.TempDir("", "h3c19s")
	defer os.RemoveAll(dir)
	st, _ := NewFileStorage(dir)
	a := bytes.Repeat([]byte("A"), 4096)
	b := bytes.Repeat([]byte("B"), 16)
	const rounds = 3000
	bad, errs := 0, 0
	var first string
	for i := 0; i < rounds; i++ {
		st.Set("k", []byte("old"))
		var wg sync.WaitGroup
		start := make(chan struct{})
		var e1, e2 error
		wg.Add(2)
		go func() { defer wg.Done(); <-start; e1 = st.Set("k", a) }()
		go func() { defer wg.Done(); <-start; e2 = st.Set("k", b) }()
		close(start)
		wg.Wait()
		if e1 != nil || e2 != nil {
			errs++
		}
		fresh, _ := NewFileStorage(dir)
		got, err := fresh.Get("k")
		if err != nil || !(bytes.Equal(got, a) || bytes.Equal(got, b)) {
			bad++
			if first == "" {
				first = fmt.Sprintf("round %d: len=%d head=%q tail=%q err=%v (Set errors: %v / %v)", i, len(got), h3short(got), h3tail(got), err, e1, e2)
			}
		}
	}
	t.Logf("rounds=%d, rounds with a Set error=%d, rounds with a corrupt value at rest=%d", rounds, errs, bad)
	if bad > 0 {
		t.Errorf("after two overlapping Set(k,A), Set(k,B) had both returned, a fresh store read neither A nor B in %d of %d rounds; first: %s", bad, rounds, first)
	}
}

func h3tail(b []byte) string {
	if len(b) > 8 {
		return string(b[len(b)-8:])
	}
	return string(b)
}

// Child for the deterministic variants: writer 1 starts at t=0, writer 2 at
// t=HUNT3_W2_AT ms; optionally the process kills itself (SIGKILL) at
// t=HUNT3_KILL_AT ms. The order of the file operations is fixed from outside by
// strace, which delays every write(2) / renameat(2) on the two files.
func TestHunt3SharedTmpChild(t *testing.T) {
	if os.Getenv("HUNT3_CHILD") != "2" {
		t.Skip("child only")
	}
	st, _ := NewFileStorage(os.Getenv("HUNT3_DIR"))
	var w2at, killat int
	fmt.Sscan(os.Getenv("HUNT3_W2_AT"), &w2at)
	fmt.Sscan(os.Getenv("HUNT3_KILL_AT"), &killat)
	a := bytes.Repeat([]byte("A"), 16)
	b := bytes.Repeat([]byte("B"), 4)
	if killat > 0 {
		go func() {
			time.Sleep(time.Duration(killat) * time.Millisecond)
			syscall.Kill(os.Getpid(), syscall.SIGKILL)
		}()
	}
	var wg sync.WaitGroup
	wg.Add(2)
	go func() { defer wg.Done(); fmt.Println("W1:", st.Set("k", a)) }()
	go func() {
		defer wg.Done()
		time.Sleep(time.Duration(w2at) * time.Millisecond)
		fmt.Println("W2:", st.Set("k", b))
	}()
	wg.Wait()
	fmt.Println("CHILD-DONE")
	os.Exit(0)
}

func h3runSharedTmp(t *testing.T, inject []string, w2at, killat int) (dir string, out string) {
	if _, err := exec.LookPath("strace"); err != nil {
		t.Skip("no strace")
	}
	dir, _ = ioutil.TempDir("", "h3c19d")
	st, _ := NewFileStorage(dir)
	st.Set("k", []byte("old"))
	st.Set("other", []byte("other"))
	args := []string{"-f", "-o", "/dev/null"}
	for _, i := range inject {
		args = append(args, "-e", "inject="+i)
	}
	args = append(args, os.Args[0], "-test.run=^TestHunt3SharedTmpChild$")
	cmd := exec.Command("strace", args...)
	cmd.Env = append(os.Environ(), "HUNT3_CHILD=2", "HUNT3_DIR="+dir,
		fmt.Sprintf("HUNT3_W2_AT=%d", w2at), fmt.Sprintf("HUNT3_KILL_AT=%d", killat))
	o, _ := cmd.CombinedOutput()
	return dir, string(o)
}

// Deterministic, no crash needed. Schedule (ms): W1 open 0 | W2 open 300 |
// W1 write A 500, close, rename | W2 write B 800 (into the live file) , close,
// rename fails. At rest the key holds BBBBAAAAAAAAAAAA.
func TestHunt3SharedTmpMixtureDeterministic(t *testing.T) {
	if os.Getenv("HUNT3_CHILD") != "" {
		t.Skip()
	}
	dir, out := h3runSharedTmp(t, []string{"write:delay_enter=500000"}, 300, 0)
	defer os.RemoveAll(dir)
	if !strings.Contains(out, "CHILD-DONE") {
		t.Fatalf("child: %s", out)
	}
	t.Logf("child output:\n%s", out)
	fresh, _ := NewFileStorage(dir)
	got, err := fresh.Get("k")
	a, b := bytes.Repeat([]byte("A"), 16), bytes.Repeat([]byte("B"), 4)
	if err != nil || !(bytes.Equal(got, a) || bytes.Equal(got, b) || string(got) == "old") {
		t.Errorf("MIXTURE: after Set(k,%q) and Set(k,%q) a fresh store reads %q (err %v)", a, b, got, err)
	}
}

// Deterministic, with a real SIGKILL. Schedule (ms): W1 open 0, write A 600,
// close | W2 open+truncate 700 | W1 rename 1000 (the truncated file becomes the
// value) | SIGKILL 1150 | (W2 would write at 1300).
// After restart the key is EMPTY.
func TestHunt3SharedTmpEmptyAfterKillDeterministic(t *testing.T) {
	if os.Getenv("HUNT3_CHILD") != "" {
		t.Skip()
	}
	dir, out := h3runSharedTmp(t, []string{"renameat:delay_enter=400000", "write:delay_enter=600000"}, 700, 1150)
	defer os.RemoveAll(dir)
	if strings.Contains(out, "CHILD-DONE") {
		t.Fatalf("child was not killed: %s", out)
	}
	t.Logf("child output before the kill:\n%s", out)
	fresh, _ := NewFileStorage(dir)
	got, err := fresh.Get("k")
	a, b := bytes.Repeat([]byte("A"), 16), bytes.Repeat([]byte("B"), 4)
	if err != nil || !(bytes.Equal(got, a) || bytes.Equal(got, b) || string(got) == "old") {
		t.Errorf("EMPTY/TRUNCATED: process killed while two Set(k) overlapped; after restart a fresh store reads %q (err %v), want %q, %q or %q", got, err, "old", a, b)
	}
	if o, _ := fresh.Get("other"); string(o) != "other" {
		t.Errorf("other key: %q", o)
	}
}

package util

// Hunt-3 C19 probe: REAL crash injection into the unmodified fileStorage.Set.
//
// The child (this test binary re-executed with HUNT3_CHILD=1) performs one
// Set on a prepared directory. The parent runs it under
//   strace -f -P <file> -P <file>.tmp -e inject=<syscall>:signal=SIGKILL:when=<n>
// so that the child is killed when it enters the n-th openat / fcntl / write /
// close / newfstatat / renameat on the value file or its temporary file, and
// additionally under RLIMIT_FSIZE so that it is killed in the middle of the
// write (SIGXFSZ after a partial write).
//
// After each kill a fresh store on the same directory is asked for the key and
// for the other keys.

import (
	"bytes"
	"fmt"
	"io/ioutil"
	"os"
	"os/exec"
	"path/filepath"
	"sort"
	"strings"
	"testing"
)

func TestHunt3Child(t *testing.T) {
	if os.Getenv("HUNT3_CHILD") != "1" {
		t.Skip("child only")
	}
	st, err := NewFileStorage(os.Getenv("HUNT3_DIR"))
	if err != nil {
		fmt.Println("CHILD-ERR", err)
		os.Exit(3)
	}
	val, _ := ioutil.ReadFile(os.Getenv("HUNT3_VALFILE"))
	if err := st.Set(os.Getenv("HUNT3_KEY"), val); err != nil {
		fmt.Println("CHILD-SET-ERR", err)
		os.Exit(4)
	}
	fmt.Println("CHILD-DONE")
	os.Exit(0)
}

type h3case struct {
	name     string
	old, new []byte // old == nil: absent
}

func h3cases() []h3case {
	big := bytes.Repeat([]byte("0123456789abcdef"), 400) // 6400 bytes
	return []h3case{
		{"absent->value", nil, []byte("NEWVALUE")},
		{"shorter->longer", []byte("ab"), []byte("NEWVALUE-LONGER")},
		{"equal", []byte("OLDVALUE"), []byte("NEWVALUE")},
		{"longer->shorter", []byte("OLDVALUE-LONGER-LONGER"), []byte("xy")},
		{"value->empty", []byte("OLDVALUE"), []byte{}},
		{"big->big", bytes.ToUpper(big), big},
		{"absent->big", nil, big},
	}
}

func h3prepare(t *testing.T, c h3case, key string) (dir string, others map[string][]byte) {
	dir, err := ioutil.TempDir("", "h3c19")
	if err != nil {
		t.Fatal(err)
	}
	st, _ := NewFileStorage(dir)
	others = map[string][]byte{
		"version":     []byte("7"),
		"configHash":  []byte("HASHHASHHASH"),
		"3132.entity": []byte(`{"Name":"12","PublicKey":"AAAA","PrivateKey":null}`),
	}
	for k, v := range others {
		if err := st.Set(k, v); err != nil {
			t.Fatal(err)
		}
	}
	if c.old != nil {
		if err := st.Set(key, c.old); err != nil {
			t.Fatal(err)
		}
	}
	return
}

func h3check(t *testing.T, where string, dir, key string, c h3case, others map[string][]byte) {
	st, _ := NewFileStorage(dir) // fresh store, "after restart"
	got, err := st.Get(key)
	isOld := (c.old == nil && err != nil) || (c.old != nil && err == nil && bytes.Equal(got, c.old))
	isNew := err == nil && bytes.Equal(got, c.new)
	if !isOld && !isNew {
		t.Errorf("%s: key %q holds %q (err %v): neither old %q nor new %q", where, key, h3short(got), err, h3short(c.old), h3short(c.new))
	}
	for k, v := range others {
		g, err := st.Get(k)
		if err != nil || !bytes.Equal(g, v) {
			t.Errorf("%s: other key %q = %q (err %v), want %q", where, k, g, err, v)
		}
	}
	// the set of keys which carry the suffixes the library asks for is unchanged
	ks, _ := st.KeysWithSuffix(".entity")
	if len(ks) != 1 || ks[0] != "3132.entity" {
		t.Errorf("%s: entity keys %v", where, ks)
	}
}

func h3short(b []byte) string {
	if len(b) > 24 {
		return fmt.Sprintf("%s...(%d bytes)", b[:24], len(b))
	}
	return string(b)
}

func TestHunt3CrashInjectionStrace(t *testing.T) {
	if os.Getenv("HUNT3_CHILD") == "1" {
		t.Skip()
	}
	if _, err := exec.LookPath("strace"); err != nil {
		t.Skip("no strace")
	}
	key := "uuid"
	for _, c := range h3cases() {
		killed, withTmp := 0, 0
		// strace counts "when" per system call, so the crash points are
		// enumerated as (system call, n-th invocation).
		// Default: only calls which touch <key> or <key>.tmp count (strace -P).
		// HUNT3_NOPATH=1 (for a library whose temporary file has another
		// name): no path filter; then many of the points kill the child
		// before it reaches Set, the points which matter are those with
		// "tmp left=true".
		nopath := os.Getenv("HUNT3_NOPATH") == "1"
		points := []string{"openat:1", "fcntl:1", "fcntl:2", "fcntl:3", "fcntl:4", "epoll_ctl:1",
			"write:1", "close:1", "newfstatat:1", "renameat:1"}
		if nopath {
			points = nil
			for sc, n := range map[string]int{"openat": 12, "fcntl": 8, "epoll_ctl": 3, "write": 1, "close": 8, "newfstatat": 3, "renameat": 1} {
				for i := 1; i <= n; i++ {
					points = append(points, fmt.Sprintf("%s:%d", sc, i))
				}
			}
			sort.Strings(points)
		}
		for _, pt := range points {
			sc := strings.Split(pt, ":")
			dir, others := h3prepare(t, c, key)
			valfile := filepath.Join(dir, "..", filepath.Base(dir)+".val")
			ioutil.WriteFile(valfile, c.new, 0600)
			p := filepath.Join(dir, key)
			args := []string{"-f", "-o", valfile + ".trace"}
			if !nopath {
				args = append(args, "-P", p, "-P", p+".tmp")
			}
			args = append(args, "-e", fmt.Sprintf("inject=%s:signal=SIGKILL:when=%s", sc[0], sc[1]),
				os.Args[0], "-test.run=^TestHunt3Child$")
			cmd := exec.Command("strace", args...)
			cmd.Env = append(os.Environ(), "HUNT3_CHILD=1", "HUNT3_DIR="+dir, "HUNT3_KEY="+key, "HUNT3_VALFILE="+valfile)
			out, err := cmd.CombinedOutput()
			survived := strings.Contains(string(out), "CHILD-DONE")
			tr, _ := ioutil.ReadFile(valfile + ".trace")
			tmps, _ := filepath.Glob(p + ".*tmp")
			where := fmt.Sprintf("%s kill at %s (survived=%v, err=%v, tmp left=%v)", c.name, pt, survived, err, len(tmps) > 0)
			if len(tmps) > 0 {
				withTmp++
			}
			if testing.Verbose() {
				var last string
				for _, l := range strings.Split(string(tr), "\n") {
					if !strings.Contains(l, "+++") && l != "" {
						last = l
					}
				}
				t.Logf("%s; last call: %s", where, last)
			}
			h3check(t, where, dir, key, c, others)
			os.RemoveAll(dir)
			os.Remove(valfile)
			os.Remove(valfile + ".trace")
			if survived {
				if strings.Contains(string(out), "ERR") {
					t.Errorf("%s: %s", where, out)
				}
				if !nopath {
					t.Errorf("%s: child survived", where)
				}
				continue
			}
			killed++
		}
		t.Logf("%s: %d kills, %d of them with a temporary file left behind", c.name, killed, withTmp)
		if withTmp < 3 || (!nopath && (withTmp != 9 || killed != 10)) {
			t.Errorf("%s: the crash points were not reached", c.name)
		}
	}
}

// Kill in the middle of the write: RLIMIT_FSIZE makes the kernel write only
// part of the value and then sends SIGXFSZ, which terminates a Go process.
func TestHunt3CrashMidWriteFsize(t *testing.T) {
	if os.Getenv("HUNT3_CHILD") == "1" {
		t.Skip()
	}
	key := "uuid"
	for _, c := range h3cases() {
		if len(c.new) < 1024 {
			continue
		}
		dir, others := h3prepare(t, c, key)
		valfile := dir + ".val"
		ioutil.WriteFile(valfile, c.new, 0600)
		cmd := exec.Command("sh", "-c", "ulimit -f 1; exec \"$0\" -test.run='^TestHunt3Child$'", os.Args[0])
		cmd.Env = append(os.Environ(), "HUNT3_CHILD=1", "HUNT3_DIR="+dir, "HUNT3_KEY="+key, "HUNT3_VALFILE="+valfile)
		out, err := cmd.CombinedOutput()
		fi, _ := os.Stat(filepath.Join(dir, key+".tmp"))
		var sz int64 = -1
		if fi != nil {
			sz = fi.Size()
		}
		t.Logf("%s: child err=%v tmp size=%d out=%q", c.name, err, sz, h3short(out))
		h3check(t, c.name+" mid-write", dir, key, c, others)
		os.RemoveAll(dir)
		os.Remove(valfile)
	}
}

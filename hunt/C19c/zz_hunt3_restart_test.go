package hc

// Hunt-3 C19 probe (found nothing): the configuration is rewritten on every
// start (NewIPTransport -> cfg.save). A paired accessory whose content changed
// is started in a child process which is killed (real SIGKILL, strace
// injection) at every file operation of that rewrite. After "restart" every
// key must be old or new in full, and the identity (uuid, key pair) and the
// pairing untouched.

import (
	"bytes"
	"fmt"
	"io/ioutil"
	"os"
	"os/exec"
	"path/filepath"
	"strings"
	"testing"

	"github.com/brutella/hc/accessory"
	"github.com/brutella/hc/db"
	"github.com/brutella/hc/service"
)

func TestHunt3RestartChild(t *testing.T) {
	if os.Getenv("HUNT3_CHILD") != "3" {
		t.Skip("child only")
	}
	a := accessory.NewSwitch(accessory.Info{Name: "h3switch"})
	if os.Getenv("HUNT3_EXTRA") == "1" {
		a.AddService(service.NewLightbulb().Service)
	}
	_, err := NewIPTransport(Config{StoragePath: os.Getenv("HUNT3_DIR")}, a.Accessory)
	fmt.Println("CHILD-DONE", err)
	os.Exit(0)
}

func h3snapshot(dir string) map[string]string {
	m := map[string]string{}
	fis, _ := ioutil.ReadDir(dir)
	for _, fi := range fis {
		if strings.HasSuffix(fi.Name(), ".tmp") {
			continue
		}
		b, _ := ioutil.ReadFile(filepath.Join(dir, fi.Name()))
		m[fi.Name()] = string(b)
	}
	return m
}

func h3child(t *testing.T, dir string, extra bool, inject string) (string, bool) {
	args := []string{"-f", "-o", "/dev/null"}
	for _, k := range []string{"uuid", "version", "configHash"} {
		args = append(args, "-P", filepath.Join(dir, k), "-P", filepath.Join(dir, k+".tmp"))
	}
	if inject != "" {
		args = append(args, "-e", "inject="+inject)
	}
	args = append(args, os.Args[0], "-test.run=^TestHunt3RestartChild$")
	cmd := exec.Command("strace", args...)
	cmd.Env = append(os.Environ(), "HUNT3_CHILD=3", "HUNT3_DIR="+dir)
	if extra {
		cmd.Env = append(cmd.Env, "HUNT3_EXTRA=1")
	}
	out, _ := cmd.CombinedOutput()
	return string(out), strings.Contains(string(out), "CHILD-DONE <nil>")
}

func TestHunt3RestartCrashInjection(t *testing.T) {
	if os.Getenv("HUNT3_CHILD") != "" {
		t.Skip()
	}
	if _, err := exec.LookPath("strace"); err != nil {
		t.Skip("no strace")
	}
	// reference: start 1 (first start), pairing, start 2 with changed content, no kill
	mk := func() (string, map[string]string) {
		dir, _ := ioutil.TempDir("", "h3c19r")
		if out, ok := h3child(t, dir, false, ""); !ok {
			t.Fatalf("first start: %s", out)
		}
		d, _ := db.NewDatabase(dir)
		if err := d.SaveEntity(db.NewEntity("controller-1", bytes.Repeat([]byte{7}, 32), nil)); err != nil {
			t.Fatal(err)
		}
		return dir, h3snapshot(dir)
	}
	dir, old := mk()
	if out, ok := h3child(t, dir, true, ""); !ok {
		t.Fatalf("second start: %s", out)
	}
	ref := h3snapshot(dir)
	os.RemoveAll(dir)
	t.Logf("old version=%s new version=%s; keys: %d", old["version"], ref["version"], len(old))
	if old["version"] == ref["version"] || old["configHash"] == ref["configHash"] {
		t.Fatalf("the content change did not change version/configHash")
	}

	killed := 0
	for _, sc := range []string{"openat", "write", "close", "newfstatat", "renameat"} {
		for n := 1; n <= 4; n++ {
			dir, old := mk()
			out, ok := h3child(t, dir, true, fmt.Sprintf("%s:signal=SIGKILL:when=%d", sc, n))
			now := h3snapshot(dir)
			where := fmt.Sprintf("kill at %s:%d (survived=%v)", sc, n, ok)
			if !ok {
				killed++
			} else if n <= 3 && sc != "newfstatat" {
				t.Logf("%s: not killed: %s", where, out)
			}
			for k, v := range old {
				g, present := now[k]
				switch k {
				case "version", "configHash":
					// same uuid is written again: old == new
					if !present || (g != v && g != ref[k]) {
						t.Errorf("%s: key %s = %q, want old %q or new %q", where, k, g, v, ref[k])
					}
				default: // uuid, key pair entity, controller entity
					if !present || g != v {
						t.Errorf("%s: key %s = %q, want %q", where, k, g, v)
					}
				}
			}
			for k := range now {
				if _, ok := old[k]; !ok {
					t.Errorf("%s: new key %s", where, k)
				}
			}
			// and a restart keeps identity and pairing
			if out, ok := h3child(t, dir, true, ""); !ok {
				t.Errorf("%s: restart failed: %s", where, out)
			}
			after := h3snapshot(dir)
			for k, v := range old {
				if k != "version" && k != "configHash" && after[k] != v {
					t.Errorf("%s: after restart key %s = %q, want %q", where, k, after[k], v)
				}
			}
			if after["configHash"] != ref["configHash"] {
				t.Errorf("%s: after restart configHash differs from reference", where)
			}
			t.Logf("%s: version after kill %s, after restart %s (reference %s)", where, now["version"], after["version"], ref["version"])
			os.RemoveAll(dir)
		}
	}
	if killed < 10 {
		t.Errorf("only %d kills", killed)
	}
}

package hc

import (
	"fmt"
	"testing"

	"github.com/brutella/hc/characteristic"
)

// BORDERLINE, outside the wording of the statement (it speaks of a remote WRITE):
// a remote READ of a characteristic without write permission invokes the
// application's remote-update callback (OnValueRemoteUpdate: "calls fn when the
// value was updated by a client") when the application also installed a getter.
// characteristic.go:110-113: getValue -> updateValue(getter(), conn, checkPerms=false).
// The library's own TestCharacteristicGetValue pins this behaviour.
func TestH3BorderlineRemoteGetFiresRemoteUpdateCallback(t *testing.T) {
	rig := newH3Rig(t)
	temp := characteristic.NewCurrentTemperature() // pr, ev
	if temp.IsWritable() {
		t.Fatal("writable")
	}
	temp.OnValueRemoteGet(func() float64 { return 21.5 })
	calls := 0
	temp.OnValueRemoteUpdate(func(v float64) { calls++ })
	a := h3accessoryWith(temp.Characteristic)
	rig.tr.addAccessory(a)
	p := rig.peer()

	code, body := rig.do(p, "GET", fmt.Sprintf("/characteristics?id=%d.%d", a.ID, temp.ID), "")
	t.Log(code, body)
	if calls != 0 {
		t.Errorf("remote GET of a characteristic with perms %v invoked the remote-update callback %d time(s)", temp.Perms, calls)
	}
}

package hc

import "github.com/brutella/hc/characteristic"

func init() {
	C := func(name string, mk func() *characteristic.Characteristic) {
		h3ctors = append(h3ctors, h3ctor{name, mk})
	}
	for _, f := range []string{"", "bool", "uint8", "uint16", "uint32", "uint64", "int32", "int", "float", "string", "tlv8", "data", "array", "dict"} {
		f := f
		C("NewCharacteristic/"+f, func() *characteristic.Characteristic { c := characteristic.NewCharacteristic("X"); c.Format = f; return c })
		C("NewInt/"+f, func() *characteristic.Characteristic { c := characteristic.NewInt("X"); c.Format = f; return c.Characteristic })
		C("NewFloat/"+f, func() *characteristic.Characteristic { c := characteristic.NewFloat("X"); c.Format = f; return c.Characteristic })
		C("NewBool/"+f, func() *characteristic.Characteristic { c := characteristic.NewBool("X"); if f != "" { c.Format = f }; return c.Characteristic })
		C("NewString/"+f, func() *characteristic.Characteristic { c := characteristic.NewString("X"); if f != "" { c.Format = f }; return c.Characteristic })
		C("NewBytes/"+f, func() *characteristic.Characteristic { c := characteristic.NewBytes("X"); if f != "" { c.Format = f }; return c.Characteristic })
	}
}

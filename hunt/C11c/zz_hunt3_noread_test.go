package hc

import (
	"fmt"
	"strings"
	"testing"

	"github.com/brutella/hc/characteristic"
)

// Clause shown broken: "a characteristic without read permission never stores or
// reveals a value", for constructor x custom permission set.
//
// A custom permission set can only be given to a characteristic by assigning
// Perms after the constructor returned (the library's own TestReadOnlyValue does
// `c := NewBrightness(); c.Perms = PermsRead()`). 160 of the 168 constructors
// store an initial value under their default (readable) permissions. With a
// custom set without "pr" that value
//   - stays in c.Value,
//   - is served to every pair-verified peer in GET /accessories,
//   - is sent in EVENT messages (set with "ev") each time another peer writes:
//     the event carries the constructor's value, not even the written one,
// while GET /characteristics correctly answers -70405 for the same id.

// TestH3NoReadRevealedInAccessories: On with the custom set {pw}.
func TestH3NoReadRevealedInAccessories(t *testing.T) {
	rig := newH3Rig(t)
	on := characteristic.NewOn()
	on.Perms = characteristic.PermsWriteOnly()
	a := h3accessoryWith(on.Characteristic)
	rig.tr.addAccessory(a)
	p := rig.peer()

	if on.IsReadable() {
		t.Fatal("readable")
	}
	_, body := rig.do(p, "GET", fmt.Sprintf("/characteristics?id=%d.%d", a.ID, on.ID), "")
	if !strings.Contains(body, `"status":-70405`) {
		t.Fatalf("GET /characteristics: %s", body)
	}

	_, body = rig.do(p, "GET", "/accessories", "")
	obj := h3findChar(body, a.ID, on.ID)
	if obj == nil {
		t.Fatal(body)
	}
	if v, ok := obj["value"]; ok {
		t.Errorf("/accessories reveals value %v of a characteristic with perms %v: %v", v, obj["perms"], obj)
	}
	if on.Value != nil {
		// not an assertion: with an exported Perms field the library cannot drop the
		// value at the moment of the assignment; it can only refuse to hand it out
		t.Logf("characteristic with perms %v stores %#v", on.Perms, on.Value)
	}
}

// TestH3NoReadRevealedInEvents: On with the custom set {pw, ev}; peer B subscribes
// (allowed: ev), peer A writes true. B must not learn a value.
func TestH3NoReadRevealedInEvents(t *testing.T) {
	rig := newH3Rig(t)
	on := characteristic.NewOn()
	on.Perms = []string{characteristic.PermWrite, characteristic.PermEvents}
	a := h3accessoryWith(on.Characteristic)
	rig.tr.addAccessory(a)
	pa, pb := rig.peer(), rig.peer()

	if code, body := rig.do(pb, "PUT", "/characteristics", fmt.Sprintf(`{"characteristics":[{"aid":%d,"iid":%d,"ev":true}]}`, a.ID, on.ID)); code != 204 {
		t.Fatal(code, body)
	}
	var got interface{}
	on.OnValueRemoteUpdate(func(v bool) { got = v })
	if code, body := rig.do(pa, "PUT", "/characteristics", fmt.Sprintf(`{"characteristics":[{"aid":%d,"iid":%d,"value":true}]}`, a.ID, on.ID)); code != 204 {
		t.Fatal(code, body)
	}
	if got != true {
		t.Fatalf("callback got %v", got)
	}
	ev := pb.take()
	if !strings.HasPrefix(ev, "EVENT/1.0 200 OK") {
		t.Fatalf("no event: %q", ev)
	}
	if i := strings.Index(ev, `"value":`); i >= 0 && !strings.Contains(ev, `"value":null`) {
		t.Errorf("EVENT reveals a value of a characteristic with perms %v: %s", on.Perms, ev[strings.Index(ev, "{"):])
	}
}

// TestH3NoReadAllConstructors: the same over every constructor and every custom
// permission set without pr.
func TestH3NoReadAllConstructors(t *testing.T) {
	rig := newH3Rig(t)
	sets := [][]string{{}, {"pw"}, {"ev"}, {"pw", "ev"}, {"pw", "hd"}}
	bad, total := 0, 0
	var first []string
	for _, ct := range h3ctors {
		if strings.Contains(ct.name, "/") {
			continue // base constructors with a type argument: no initial value
		}
		for _, perms := range sets {
			total++
			c := ct.mk()
			c.Perms = append([]string{}, perms...)
			a := h3accessoryWith(c)
			rig.reset()
			rig.tr.addAccessory(a)
			_, body := rig.do(rig.peer(), "GET", "/accessories", "")
			obj := h3findChar(body, a.ID, c.ID)
			if v, ok := obj["value"]; ok {
				bad++
				if len(first) < 5 {
					first = append(first, fmt.Sprintf("%s%v value=%v", ct.name, perms, v))
				}
			}
		}
	}
	if bad > 0 {
		t.Errorf("%d of %d (constructor, permission set without pr) reveal a value in /accessories, e.g. %v", bad, total, first)
	}
}

package hc

import (
	"encoding/json"
	"fmt"
	"math"
	"net"
	"reflect"
	"sort"
	"strings"
	"testing"

	"github.com/brutella/hc/characteristic"
)

var h3permSets = [][]string{
	nil, // as constructed
	{},
	{"pr"},
	{"pw"},
	{"ev"},
	{"pr", "pw"},
	{"pr", "ev"},
	{"pw", "ev"},
	{"pr", "pw", "ev"},
	{"hd"},
	{"pw", "hd"},
	{"wr", "pw"},
	{"ev", "pw"},
	{"ev", "pr"},
}

var h3jsonValues = []string{
	`true`, `false`, `0`, `1`, `2`, `-1`, `1.5`, `0.5`, `100`, `255`, `256`, `65535`, `65536`, `4294967295`, `4294967296`, `1e10`, `-1e10`, `1e19`, `1e300`, `-1e300`,
	`""`, `"abc"`, `"1"`, `"0"`, `"true"`, `"false"`, `"AQID"`, `"NaN"`, `"Inf"`, `"-5"`, `"1e3"`,
	`[]`, `[1]`, `{}`, `{"a":1}`, `[[1]]`,
}

var h3goValues = []interface{}{
	true, false, 0, 1, 2, -1, int8(3), uint8(200), int64(-7), uint64(math.MaxUint64), float32(2.5), 1.5, math.NaN(), math.Inf(1), math.Inf(-1),
	"", "abc", "7", []byte{1, 2, 3}, []interface{}{1}, map[string]interface{}{"a": 1}, struct{}{}, json.Number("5"),
}

type h3finding struct {
	kind string
	who  string
}

// TestH3Sweep runs every constructor with every permission set and every value through
// the HTTP PUT path and the in-process API and checks the three clauses of the property.
func TestH3Sweep(t *testing.T) {
	rig := newH3Rig(t)
	findings := map[string][]string{}
	add := func(kind, who string) {
		findings[kind] = append(findings[kind], who)
	}

	for _, ct := range h3ctors {
		for _, perms := range h3permSets {
			c := ct.mk()
			if perms != nil {
				c.Perms = append([]string{}, perms...)
			}
			who := fmt.Sprintf("%s%v", ct.name, c.Perms)
			pr, pw, ev := has(c.Perms, "pr"), has(c.Perms, "pw"), has(c.Perms, "ev")

			if !pr && c.Value != nil {
				add("A: value of the constructor stays stored without pr", who)
				c.Value = nil
			}

			remote, local := 0, 0
			c.OnValueUpdateFromConn(func(conn net.Conn, c *characteristic.Characteristic, n, o interface{}) { remote++ })
			c.OnValueUpdate(func(c *characteristic.Characteristic, n, o interface{}) { local++ })

			a := h3accessoryWith(c)
			rig.reset()
			rig.tr.addAccessory(a)
			pa, pb := rig.peer(), rig.peer()

			// subscription by B
			code, body := rig.do(pb, "PUT", "/characteristics", fmt.Sprintf(`{"characteristics":[{"aid":%d,"iid":%d,"ev":true}]}`, a.ID, c.ID))
			if !ev {
				if !strings.Contains(body, `"status":-70406`) {
					add("E1: subscription without ev not rejected with a status", fmt.Sprintf("%s -> %d %q", who, code, body))
				}
			} else if code != 204 {
				add("E0: subscription with ev refused", fmt.Sprintf("%s -> %d %q", who, code, body))
			}

			check := func(step string, before interface{}, r0, l0 int, remoteWrite bool) {
				if remoteWrite && !pw {
					if !reflect.DeepEqual(before, c.Value) && !(isNaN(before) && isNaN(c.Value)) {
						add("W1: remote write without pw changed the value", fmt.Sprintf("%s %s: %#v -> %#v", who, step, before, c.Value))
					}
					if remote != r0 || local != l0 {
						add("W2: remote write without pw invoked callbacks", fmt.Sprintf("%s %s", who, step))
					}
				}
				if !pr {
					if c.Value != nil {
						add("R1: value stored without pr", fmt.Sprintf("%s %s: %#v", who, step, c.Value))
						c.Value = nil
					}
				}
				evs := pb.take()
				if !ev && evs != "" {
					add("E2: event without ev", fmt.Sprintf("%s %s: %q", who, step, evs))
				}
				if !pr && evs != "" {
					if i := strings.Index(evs, "\r\n\r\n"); i >= 0 {
						var doc struct {
							Characteristics []map[string]interface{} `json:"characteristics"`
						}
						json.Unmarshal([]byte(evs[i+4:]), &doc)
						for _, e := range doc.Characteristics {
							if v, ok := e["value"]; ok && v != nil {
								add("R2: event reveals a value without pr", fmt.Sprintf("%s %s: %q", who, step, evs))
							}
						}
					}
				}
				if x := pa.take(); x != "" {
					add("X: event to the writer", fmt.Sprintf("%s %s: %q", who, step, x))
				}
			}

			reveal := func(step string) {
				if pr {
					return
				}
				_, body := rig.do(pa, "GET", "/accessories", "")
				obj := h3findChar(body, a.ID, c.ID)
				if obj == nil {
					add("Z: characteristic not in /accessories", who)
				} else if v, ok := obj["value"]; ok {
					add("R3: /accessories reveals a value without pr", fmt.Sprintf("%s %s: %v", who, step, v))
				}
				code, body := rig.do(pa, "GET", fmt.Sprintf("/characteristics?id=%d.%d", a.ID, c.ID), "")
				if strings.Contains(body, `"value"`) || !strings.Contains(body, `"status":-70405`) {
					add("R4: GET /characteristics without pr", fmt.Sprintf("%s %s: %d %q", who, step, code, body))
				}
			}

			reveal("initially")

			for _, v := range h3jsonValues {
				before, r0, l0 := c.Value, remote, local
				func() {
					defer func() {
						if e := recover(); e != nil {
							add("P: panic in PUT", fmt.Sprintf("%s %s: %v", who, v, e))
						}
					}()
					rig.do(pa, "PUT", "/characteristics", fmt.Sprintf(`{"characteristics":[{"aid":%d,"iid":%d,"value":%s}]}`, a.ID, c.ID, v))
				}()
				check("PUT "+v, before, r0, l0, true)
			}
			reveal("after PUTs")

			for _, v := range h3goValues {
				before, r0, l0 := c.Value, remote, local
				func() {
					defer func() {
						if e := recover(); e != nil {
							add("P: panic in UpdateValueFromConnection", fmt.Sprintf("%s %#v: %v", who, v, e))
						}
					}()
					c.UpdateValueFromConnection(v, pa)
				}()
				check(fmt.Sprintf("UpdateValueFromConnection(%#v)", v), before, r0, l0, true)
			}
			reveal("after API")

			// local updates: events only with ev, nothing stored without pr
			for _, v := range []interface{}{1, 0, true, "x", 2.5} {
				before, r0, l0 := c.Value, remote, local
				func() {
					defer func() { recover() }()
					c.UpdateValue(v)
				}()
				check(fmt.Sprintf("UpdateValue(%#v)", v), before, r0, l0, false)
			}
			reveal("after local")
		}
	}

	kinds := []string{}
	for k := range findings {
		kinds = append(kinds, k)
	}
	sort.Strings(kinds)
	for _, k := range kinds {
		l := findings[k]
		if strings.HasPrefix(k, "P:") {
			// not a clause of the property: base constructors with an unset / unknown format and pr+pw
			// compare two uncomparable values (array, object) in updateValue
			t.Logf("(outside the property) %s: %d cases", k, len(l))
		} else {
			t.Errorf("%s: %d cases", k, len(l))
		}
		for i, s := range l {
			if i >= 6 {
				break
			}
			t.Logf("    %s", s)
		}
	}
}

func has(l []string, s string) bool {
	for _, x := range l {
		if x == s {
			return true
		}
	}
	return false
}

func isNaN(v interface{}) bool {
	f, ok := v.(float64)
	return ok && math.IsNaN(f)
}

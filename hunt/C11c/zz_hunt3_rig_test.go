package hc

import (
	"bytes"
	"context"
	"encoding/json"
	"net"
	nethttp "net/http"
	"net/http/httptest"
	"strings"
	"sync"
	"testing"
	"time"

	"github.com/brutella/hc/accessory"
	"github.com/brutella/hc/characteristic"
	"github.com/brutella/hc/crypto"
	"github.com/brutella/hc/db"
	"github.com/brutella/hc/event"
	"github.com/brutella/hc/hap"
	"github.com/brutella/hc/hap/http"
	"github.com/brutella/hc/service"
	"github.com/brutella/hc/util"
)

// h3conn is a fake peer connection: it records what the accessory writes to it.
type h3conn struct {
	mu     sync.Mutex
	buf    bytes.Buffer
	remote net.Addr
	local  net.Addr
}

func (c *h3conn) Read(b []byte) (int, error) { select {} }
func (c *h3conn) Write(b []byte) (int, error) {
	c.mu.Lock()
	defer c.mu.Unlock()
	return c.buf.Write(b)
}
func (c *h3conn) Close() error                       { return nil }
func (c *h3conn) LocalAddr() net.Addr                { return c.local }
func (c *h3conn) RemoteAddr() net.Addr               { return c.remote }
func (c *h3conn) SetDeadline(t time.Time) error      { return nil }
func (c *h3conn) SetReadDeadline(t time.Time) error  { return nil }
func (c *h3conn) SetWriteDeadline(t time.Time) error { return nil }
func (c *h3conn) take() string {
	c.mu.Lock()
	defer c.mu.Unlock()
	s := c.buf.String()
	c.buf.Reset()
	return s
}

// h3rig is the accessory side of an ip transport (container, context, the real
// http handlers and the real event fan-out of ipTransport) without sockets, mdns
// and encryption; peers are pair-verified sessions on fake connections.
type h3rig struct {
	t      *testing.T
	tr     *ipTransport
	srv    *http.Server
	peers  []*h3conn
	nextIP int
}

func newH3Rig(t *testing.T) *h3rig {
	storage, err := util.NewTempFileStorage()
	if err != nil {
		t.Fatal(err)
	}
	database := db.NewDatabaseWithStorage(storage)
	device, err := hap.NewSecuredDevice("h3", "00102003", database)
	if err != nil {
		t.Fatal(err)
	}
	tr := &ipTransport{
		storage:   storage,
		database:  database,
		device:    device,
		container: accessory.NewContainer(),
		mutex:     &sync.Mutex{},
		context:   hap.NewContextForSecuredDevice(device),
		emitter:   event.NewEmitter(),
	}
	srv := http.NewServer(http.Config{
		Port:      "127.0.0.1:0",
		Context:   tr.context,
		Database:  tr.database,
		Container: tr.container,
		Device:    tr.device,
		Mutex:     tr.mutex,
		Emitter:   tr.emitter,
	})
	t.Cleanup(func() { srv.Close() })
	return &h3rig{t: t, tr: tr, srv: srv}
}

// reset empties the container and drops all peers.
func (r *h3rig) reset() {
	*r.tr.container = *accessory.NewContainer()
	for _, p := range r.peers {
		r.tr.context.DeleteSessionForConnection(p)
	}
	r.peers = nil
}

// peer returns a new pair-verified peer.
func (r *h3rig) peer() *h3conn {
	r.nextIP++
	c := &h3conn{
		remote: &net.TCPAddr{IP: net.IPv4(10, 0, byte(r.nextIP>>8), byte(r.nextIP)), Port: 40000},
		local:  &net.TCPAddr{IP: net.IPv4(10, 0, 0, 0), Port: 5000},
	}
	sess := hap.NewSession(c)
	cr, err := crypto.NewSecureSessionFromSharedKey([32]byte{1})
	if err != nil {
		r.t.Fatal(err)
	}
	sess.SetCryptographer(cr)
	sess.Decrypter() // the keys become active
	r.tr.context.SetSessionForConnection(sess, c)
	r.peers = append(r.peers, c)
	return c
}

func (r *h3rig) do(p *h3conn, method, url, body string) (int, string) {
	req := httptest.NewRequest(method, url, strings.NewReader(body))
	req.RemoteAddr = p.remote.String()
	req = req.WithContext(context.WithValue(req.Context(), nethttp.LocalAddrContextKey, p.local))
	w := httptest.NewRecorder()
	r.srv.Mux.ServeHTTP(w, req)
	return w.Code, w.Body.String()
}

// accessoryWith returns an accessory with one extra service which consists of the characteristics.
func h3accessoryWith(cs ...*characteristic.Characteristic) *accessory.Accessory {
	a := accessory.New(accessory.Info{Name: "h3"}, accessory.TypeOther)
	s := service.New("FFFF")
	for _, c := range cs {
		s.AddCharacteristic(c)
	}
	a.AddService(s)
	return a
}

func h3json(v interface{}) string {
	b, err := json.Marshal(v)
	if err != nil {
		panic(err)
	}
	return string(b)
}

// h3findChar returns the JSON object of characteristic iid of accessory aid in an /accessories body.
func h3findChar(body string, aid, iid uint64) map[string]interface{} {
	var doc struct {
		Accessories []struct {
			Aid      uint64 `json:"aid"`
			Services []struct {
				Characteristics []map[string]interface{} `json:"characteristics"`
			} `json:"services"`
		} `json:"accessories"`
	}
	if err := json.Unmarshal([]byte(body), &doc); err != nil {
		return nil
	}
	for _, a := range doc.Accessories {
		if a.Aid != aid {
			continue
		}
		for _, s := range a.Services {
			for _, c := range s.Characteristics {
				if id, ok := c["iid"].(float64); ok && uint64(id) == iid {
					return c
				}
			}
		}
	}
	return nil
}

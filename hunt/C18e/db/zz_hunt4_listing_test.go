package db

import (
	"testing"

	"github.com/brutella/hc/util"
)

// BORDERLINE (a schedule, not a sequential history). Property C18, clause
// "listing returns exactly the live entries".
//
// Entities() lists the keys and then reads every key (db/database.go Entities).
// An entity which is deleted between the two steps makes the read fail, and the
// failure of one read discards the whole listing: Entities() returns (nil, err)
// although other entities are live the whole time. ipTransport.isPaired treats
// that error as "not paired" and the accessory announces itself as unpaired.
//
// The schedule is made deterministic with a storage wrapper which performs the
// concurrent DeleteEntity at the moment the key listing returns.
type h4hookStorage struct {
	util.Storage
	afterList func()
}

func (s *h4hookStorage) KeysWithSuffix(suffix string) ([]string, error) {
	ks, err := s.Storage.KeysWithSuffix(suffix)
	if f := s.afterList; f != nil {
		s.afterList = nil
		f()
	}
	return ks, err
}

func TestHunt4EntitiesDuringDeleteOfAnotherEntity(t *testing.T) {
	st, err := util.NewFileStorage(h4dir(t))
	if err != nil {
		t.Fatal(err)
	}
	hook := &h4hookStorage{Storage: st}
	d := NewDatabaseWithStorage(hook)
	stay := NewEntity("stays", []byte{1}, nil)
	goes := NewEntity("goes", []byte{2}, nil)
	d.SaveEntity(stay)
	d.SaveEntity(goes)

	// what another connection does (DELETE pairing of "goes") while Entities runs
	hook.afterList = func() { d.DeleteEntity(goes) }

	es, err := d.Entities()
	found := false
	for _, e := range es {
		if e.Name == "stays" {
			found = true
		}
	}
	if err != nil || !found {
		t.Fatalf(`Entities() during DeleteEntity("goes") = %v, %v; "stays" is live before, during and after the call`, es, err)
	}
}

// BORDERLINE (needs a storage key which ends in ".entity"). The transport opens
// the key-value store and the pairing database on ONE directory
// (ip_transport.go: NewFileStorage(cfg.StoragePath); NewDatabaseWithStorage(storage)),
// so a history over both APIs is a history on one store. A value set under a key
// with the suffix ".entity" is taken for an entity: Entities() fails as a whole.
func TestHunt4StorageKeyWithEntitySuffixBreaksListing(t *testing.T) {
	st, err := util.NewFileStorage(h4dir(t))
	if err != nil {
		t.Fatal(err)
	}
	d := NewDatabaseWithStorage(st)
	d.SaveEntity(NewEntity("controller", []byte{1}, nil))
	if err := st.Set("backup.entity", []byte("not json")); err != nil {
		t.Fatal(err)
	}
	es, err := d.Entities()
	if err != nil || len(es) != 1 || es[0].Name != "controller" {
		t.Fatalf(`SaveEntity("controller") Set("backup.entity") Entities() = %v, %v; want exactly "controller"`, es, err)
	}
}

// Statistical variant of TestHunt4EntitiesDuringDeleteOfAnotherEntity with real
// goroutines and the unwrapped file storage: the rate is logged.
func TestHunt4EntitiesDuringDeleteRate(t *testing.T) {
	d, err := NewDatabase(h4dir(t))
	if err != nil {
		t.Fatal(err)
	}
	d.SaveEntity(NewEntity("stays", []byte{1}, nil))
	goes := NewEntity("goes", []byte{2}, nil)
	stop := make(chan struct{})
	done := make(chan struct{})
	go func() {
		defer close(done)
		for {
			select {
			case <-stop:
				return
			default:
			}
			d.SaveEntity(goes)
			d.DeleteEntity(goes)
		}
	}()
	const n = 20000
	bad := 0
	var last error
	for i := 0; i < n; i++ {
		es, err := d.Entities()
		ok := false
		for _, e := range es {
			ok = ok || e.Name == "stays"
		}
		if err != nil || !ok {
			bad++
			last = err
		}
	}
	close(stop)
	<-done
	if bad > 0 {
		t.Fatalf(`%d of %d Entities() calls did not list the live entity "stays" (last error: %v)`, bad, n, last)
	}
}

package db

import (
	"bytes"
	"fmt"
	"math/rand"
	"os"
	"sort"
	"strings"
	"testing"
)

func h4dir(t *testing.T) string {
	d, err := os.MkdirTemp("", "h4db")
	if err != nil {
		t.Fatal(err)
	}
	t.Cleanup(func() { os.RemoveAll(d) })
	return d
}

func TestHunt4DBModel(t *testing.T) {
	for seed := int64(0); seed < 40; seed++ {
		seed := seed
		t.Run(fmt.Sprint(seed), func(t *testing.T) {
			r := rand.New(rand.NewSource(seed))
			dir := h4dir(t)
			d, err := NewDatabase(dir)
			if err != nil {
				t.Fatal(err)
			}
			names := []string{"", "a", "A", ":", "a:b", "ab", "\x00", "\xff", "\xff\xfe", "ä", ".", "..", "/", "a/b", " ", "a ", strings.Repeat("\xff", 100), strings.Repeat("x", 100), strings.Repeat("x", 99), "x.entity", ".entity", "61", "6", "name\n", "\"", "\\", " ", "<>&"}
			for i := 0; i < 6; i++ {
				b := make([]byte, r.Intn(101))
				r.Read(b)
				names = append(names, string(b))
			}
			model := map[string]Entity{}
			var hist []string
			for step := 0; step < 300; step++ {
				n := names[r.Intn(len(names))]
				switch r.Intn(6) {
				case 0, 1:
					pk := make([]byte, r.Intn(4097))
					r.Read(pk)
					var sk []byte
					switch r.Intn(3) {
					case 0:
						sk = make([]byte, r.Intn(4097))
						r.Read(sk)
					case 1:
						sk = []byte{}
					}
					if r.Intn(5) == 0 {
						pk = nil
					}
					e := NewEntity(n, pk, sk)
					err := d.SaveEntity(e)
					hist = append(hist, fmt.Sprintf("Save(%q,%d,%d)=%v", n, len(pk), len(sk), err))
					if err != nil {
						t.Errorf("save %q: %v", n, err)
					} else {
						model[n] = e
					}
				case 2:
					d.DeleteEntity(Entity{Name: n})
					hist = append(hist, fmt.Sprintf("Delete(%q)", n))
					delete(model, n)
				case 3:
					d, err = NewDatabase(dir)
					if err != nil {
						t.Fatal(err)
					}
				case 4:
					got, err := d.EntityWithName(n)
					want, ok := model[n]
					if ok && (err != nil || got.Name != want.Name || !bytes.Equal(got.PublicKey, want.PublicKey) || !bytes.Equal(got.PrivateKey, want.PrivateKey)) {
						t.Errorf("EntityWithName(%q) = %q %d %d, %v", n, got.Name, len(got.PublicKey), len(got.PrivateKey), err)
					}
					if !ok && err == nil {
						t.Errorf("EntityWithName(%q) of absent = %+v", n, got)
					}
				case 5:
					got, err := d.Entities()
					if err != nil {
						t.Errorf("Entities: %v", err)
					}
					var gs, ws []string
					for _, e := range got {
						gs = append(gs, fmt.Sprintf("%q %x %x", e.Name, e.PublicKey, e.PrivateKey))
					}
					for _, e := range model {
						ws = append(ws, fmt.Sprintf("%q %x %x", e.Name, e.PublicKey, e.PrivateKey))
					}
					sort.Strings(gs)
					sort.Strings(ws)
					if strings.Join(gs, "\n") != strings.Join(ws, "\n") {
						var gn, wn []string
						for _, e := range got {
							gn = append(gn, fmt.Sprintf("%q", e.Name))
						}
						for k := range model {
							wn = append(wn, fmt.Sprintf("%q", k))
						}
						sort.Strings(gn)
						sort.Strings(wn)
						t.Errorf("Entities names = %v\nwant %v", gn, wn)
					}
				}
				if t.Failed() {
					l := len(hist) - 8
					if l < 0 {
						l = 0
					}
					t.Logf("history tail:\n%s", strings.Join(hist[l:], "\n"))
					break
				}
			}
		})
	}
}

package util

import (
	"bytes"
	"fmt"
	"testing"
)

// Property C18, clauses "a get returns exactly the last value set for that key
// or not-found after a delete" and "listing returns exactly the live entries".
//
// The file of a key is the key with every ':' removed (removeInvalidFileNameCharacters,
// util/file_storage.go). The mapping key -> file is not injective and listing
// returns file names, not keys: "a:b", ":ab", "ab:" and "ab" are one entry.

// History: Set(k1,v1) Set(k2,v2) Get(k1). k1 != k2. Get(k1) must be v1.
func TestHunt4ColonKeyIsOverwrittenByAnotherKey(t *testing.T) {
	st, err := NewFileStorage(h4dir(t))
	if err != nil {
		t.Fatal(err)
	}
	v1, v2 := []byte("value of a:b"), []byte("value of ab")
	if err := st.Set("a:b", v1); err != nil {
		t.Fatal(err)
	}
	if err := st.Set("ab", v2); err != nil {
		t.Fatal(err)
	}
	got, err := st.Get("a:b")
	if err != nil || !bytes.Equal(got, v1) {
		t.Fatalf(`Set("a:b",%q) Set("ab",%q) Get("a:b") = %q, %v; want %q`, v1, v2, got, err, v1)
	}
}

// History: Set(k1,v1) Get(k2) for a k2 that was never set: must be not-found.
// Then Delete(k2) (never set) must not remove k1.
func TestHunt4ColonKeyIsReadAndDeletedUnderAnotherKey(t *testing.T) {
	st, err := NewFileStorage(h4dir(t))
	if err != nil {
		t.Fatal(err)
	}
	v1 := []byte("value of a:b")
	if err := st.Set("a:b", v1); err != nil {
		t.Fatal(err)
	}
	if got, err := st.Get("ab"); err == nil {
		t.Errorf(`Set("a:b") Get("ab") = %q, nil; "ab" was never set: want not-found`, got)
	}
	st.Delete("ab")                                   // never set
	st, _ = NewFileStorage(st.(*fileStorage).dirPath) // reopen
	if got, err := st.Get("a:b"); err != nil || !bytes.Equal(got, v1) {
		t.Errorf(`Set("a:b",v1) Delete("ab") reopen Get("a:b") = %q, %v; want %q`, got, err, v1)
	}
}

// History: Set(k) KeysWithSuffix(s). The listing must contain k itself.
func TestHunt4ColonKeyIsListedUnderAnotherName(t *testing.T) {
	st, err := NewFileStorage(h4dir(t))
	if err != nil {
		t.Fatal(err)
	}
	if err := st.Set("a:b", []byte("v")); err != nil {
		t.Fatal(err)
	}
	if err := st.Set("dev:", []byte("v")); err != nil {
		t.Fatal(err)
	}
	all, err := st.KeysWithSuffix("")
	if fmt.Sprint(all) != fmt.Sprint([]string{"a:b", "dev:"}) || err != nil {
		t.Errorf(`KeysWithSuffix("") = %q, %v; want ["a:b" "dev:"]`, all, err)
	}
	col, err := st.KeysWithSuffix(":")
	if fmt.Sprint(col) != fmt.Sprint([]string{"dev:"}) || err != nil {
		t.Errorf(`KeysWithSuffix(":") = %q, %v; want ["dev:"]`, col, err)
	}
	// every listed key must be readable back: holds only by accident of the same conflation
	for _, k := range all {
		if _, err := st.Get(k); err != nil {
			t.Errorf("listed key %q: %v", k, err)
		}
	}
}

// The same through the library's own user of the storage: two accessory names
// which differ in a colon share one serial-number entry.
func TestHunt4ColonSerialNumbersCollide(t *testing.T) {
	st, err := NewFileStorage(h4dir(t))
	if err != nil {
		t.Fatal(err)
	}
	s1 := GetSerialNumberForAccessoryName("Lamp: 1", st)
	s2 := GetSerialNumberForAccessoryName("Lamp 1", st)
	if s1 == s2 {
		t.Errorf(`accessories "Lamp: 1" and "Lamp 1" got the same serial number %s: the keys "Lamp: 1.serial" and "Lamp 1.serial" are one file`, s1)
	}
}

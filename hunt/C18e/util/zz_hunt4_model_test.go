package util

import (
	"bytes"
	"fmt"
	"math/rand"
	"os"
	"sort"
	"strings"
	"testing"
)

func h4dir(t *testing.T) string {
	d, err := os.MkdirTemp("", "h4")
	if err != nil {
		t.Fatal(err)
	}
	t.Cleanup(func() { os.RemoveAll(d) })
	return d
}

func h4keys(r *rand.Rand) []string {
	base := []string{"a", "ab", "a:b", ":ab", "ab:", "A", "uuid", "x.tmp", "x", "x.entity", ".hidden", "..a", "a..", " ", "a b", "ä", "\xff\xfe", "a\x01", "a\nb", "a\\b", "*", "?", "~", "-", "a.", ".a", "AB", "aB", "%41", "a%2fb", strings.Repeat("k", 255), strings.Repeat("k", 254) + ":", "name.serial", "My Lamp: 1.serial", "My Lamp 1.serial", "0", "00", "configHash", "version", "a\x00b"}
	if os.Getenv("H4COLON") == "" {
		var o []string
		for _, k := range base {
			if !strings.Contains(k, ":") && !strings.Contains(k, "\x00") {
				o = append(o, k)
			}
		}
		return o
	}
	return base
}

func TestHunt4StorageModel(t *testing.T) {
	for seed := int64(0); seed < 60; seed++ {
		seed := seed
		t.Run(fmt.Sprint(seed), func(t *testing.T) {
			r := rand.New(rand.NewSource(seed))
			dir := h4dir(t)
			st, err := NewFileStorage(dir)
			if err != nil {
				t.Fatal(err)
			}
			model := map[string][]byte{}
			keys := h4keys(r)
			hist := []string{}
			for step := 0; step < 400; step++ {
				k := keys[r.Intn(len(keys))]
				switch r.Intn(6) {
				case 0, 1:
					v := make([]byte, r.Intn(4097))
					if r.Intn(4) == 0 {
						v = make([]byte, r.Intn(40))
					}
					r.Read(v)
					err := st.Set(k, v)
					hist = append(hist, fmt.Sprintf("Set(%q,%d)=%v", k, len(v), err))
					if err == nil {
						model[k] = v
					}
				case 2:
					err := st.Delete(k)
					hist = append(hist, fmt.Sprintf("Delete(%q)=%v", k, err))
					_, was := model[k]
					if was && err != nil {
						t.Errorf("seed %d: delete of live key %q failed: %v", seed, k, err)
					}
					if !was && err == nil {
						t.Errorf("seed %d: delete of absent key %q succeeded\n%s", seed, k, strings.Join(hist[max(0, len(hist)-8):], "\n"))
					}
					delete(model, k)
				case 3:
					st, err = NewFileStorage(dir)
					if err != nil {
						t.Fatal(err)
					}
				case 4:
					got, err := st.Get(k)
					want, ok := model[k]
					if ok && (err != nil || !bytes.Equal(got, want)) {
						t.Errorf("seed %d: Get(%q) = %d bytes, %v; want %d bytes", seed, k, len(got), err, len(want))
					}
					if !ok && err == nil {
						t.Errorf("seed %d: Get(%q) of absent key = %d bytes, nil", seed, k, len(got))
					}
				case 5:
					suf := []string{"", "b", ".tmp", ".entity", ".serial", "k", ":", "B"}[r.Intn(8)]
					got, err := st.KeysWithSuffix(suf)
					if err != nil {
						t.Errorf("seed %d: KeysWithSuffix: %v", seed, err)
					}
					var want []string
					for k := range model {
						if strings.HasSuffix(k, suf) {
							want = append(want, k)
						}
					}
					sort.Strings(want)
					sort.Strings(got)
					if fmt.Sprint(got) != fmt.Sprint(want) {
						t.Errorf("seed %d: KeysWithSuffix(%q) = %q want %q", seed, suf, got, want)
					}
				}
				if t.Failed() {
					t.Logf("history tail:\n%s", strings.Join(hist[max(0, len(hist)-10):], "\n"))
					break
				}
			}
		})
	}
}

func max(a, b int) int {
	if a > b {
		return a
	}
	return b
}

package util

import (
	"os"
	"testing"
)

// BORDERLINE (the keys "" and "." are degenerate). Property C18, clause "a get
// returns ... not-found" for a key which was never set, and "survives": the file
// of the key "" (and ".") is the storage directory itself.
//   - Get("") opens the directory, the read error is ignored (file_storage.go Get:
//     `n, _ := file.Read`) and the result is (empty, nil): found, not not-found.
//   - Delete("") on a store without entries removes the storage directory; every
//     later Set fails until the store is reopened.
func TestHunt4EmptyKeyIsTheDirectory(t *testing.T) {
	dir := h4dir(t)
	st, err := NewFileStorage(dir)
	if err != nil {
		t.Fatal(err)
	}
	if err := st.Set("", []byte("v")); err == nil {
		t.Log(`Set("") succeeded`)
	} else {
		t.Logf(`Set("") = %v`, err)
	}
	for _, k := range []string{"", "."} {
		if b, err := st.Get(k); err == nil {
			t.Errorf("Get(%q) of a key that was never (successfully) set = %q, nil; want not-found", k, b)
		}
	}
	st.Delete("") // never set
	if _, err := os.Stat(dir); err != nil {
		t.Errorf(`Delete("") removed the storage directory: %v`, err)
	}
	if err := st.Set("uuid", []byte("id")); err != nil {
		t.Errorf(`Set("uuid") after Delete(""): %v`, err)
	}
}

package pair

import (
	"crypto/ed25519"
	"crypto/rand"
	"crypto/sha512"
	"encoding/hex"
	"fmt"
	"io/ioutil"
	"os"
	"sort"
	"strings"
	"testing"

	"github.com/brutella/hc/crypto/chacha20poly1305"
	"github.com/brutella/hc/crypto/hkdf"
	"github.com/brutella/hc/db"
	"github.com/brutella/hc/hap"
	"github.com/brutella/hc/util"
	"github.com/tadglines/go-pkgs/crypto/srp"
)

const huntPin = "001-02-003"
const huntAccName = "Hunt Bridge"

type huntServer struct {
	t      *testing.T
	dir    string
	db     db.Database
	device hap.SecuredDevice
}

func newHuntServer(t *testing.T) *huntServer {
	dir, err := ioutil.TempDir("", "huntc02")
	if err != nil {
		t.Fatal(err)
	}
	st, err := util.NewFileStorage(dir)
	if err != nil {
		t.Fatal(err)
	}
	database := db.NewDatabaseWithStorage(st)
	dev, err := hap.NewSecuredDevice(huntAccName, huntPin, database)
	if err != nil {
		t.Fatal(err)
	}
	return &huntServer{t: t, dir: dir, db: database, device: dev}
}

func (s *huntServer) cleanup() { os.RemoveAll(s.dir) }

// snapshot returns the raw content of the store: file name -> content
func (s *huntServer) snapshot() string {
	infos, err := ioutil.ReadDir(s.dir)
	if err != nil {
		s.t.Fatal(err)
	}
	var lines []string
	for _, i := range infos {
		b, _ := ioutil.ReadFile(s.dir + "/" + i.Name())
		lines = append(lines, i.Name()+"="+string(b))
	}
	sort.Strings(lines)
	return strings.Join(lines, "\n")
}

func (s *huntServer) conn() *huntConn {
	c, err := NewSetupServerController(s.device, s.db)
	if err != nil {
		s.t.Fatal(err)
	}
	return &huntConn{srv: s, ctrl: c}
}

// huntConn is one connection: its own controller plus what a client on that connection knows
type huntConn struct {
	srv  *huntServer
	ctrl *SetupServerController

	salt, B []byte // from last start response

	// material of the last proof the client computed
	A, M1 []byte
	S     []byte
	K     [32]byte
	haveK bool
}

func (c *huntConn) send(in util.Container) (util.Container, error) {
	// go through the wire encoding like the endpoint does
	parsed, err := util.NewTLV8ContainerFromReader(in.BytesBuffer())
	if err != nil {
		c.srv.t.Fatal(err)
	}
	return c.ctrl.Handle(parsed)
}

func huntMsg(step byte) util.Container {
	m := util.NewTLV8Container()
	m.SetByte(TagPairingMethod, 0)
	m.SetByte(TagSequence, step)
	return m
}

func (c *huntConn) start() (util.Container, error) {
	out, err := c.send(huntMsg(1))
	if err == nil && out != nil && len(out.GetBytes(TagSalt)) > 0 {
		c.salt = out.GetBytes(TagSalt)
		c.B = out.GetBytes(TagPublicKey)
	}
	return out, err
}

// computeProof computes A, M1, S, K for pin against the last seen salt/B
func (c *huntConn) computeProof(pin string) (A, M1, S []byte, K [32]byte, err error) {
	rp, _ := srp.NewSRP(SRPGroup, sha512.New, KeyDerivativeFuncRFC2945(sha512.New, []byte("Pair-Setup")))
	cs := rp.NewClientSession([]byte("Pair-Setup"), []byte(pin))
	S, err = cs.ComputeKey(c.salt, c.B)
	if err != nil {
		return
	}
	A = cs.GetA()
	M1 = cs.ComputeAuthenticator()
	K, _ = hkdf.Sha512(S, []byte("Pair-Setup-Encrypt-Salt"), []byte("Pair-Setup-Encrypt-Info"))
	return
}

func huntVerifyMsg(A, M1 []byte) util.Container {
	m := huntMsg(3)
	if A != nil {
		m.SetBytes(TagPublicKey, A)
	}
	if M1 != nil {
		m.SetBytes(TagProof, M1)
	}
	return m
}

// verify sends M3 computed with pin. Remembers keys when pin is the right one.
func (c *huntConn) verify(pin string) (util.Container, error) {
	if c.B == nil {
		// never saw a start response: use garbage
		return c.send(huntVerifyMsg([]byte{2}, make([]byte, 64)))
	}
	A, M1, S, K, err := c.computeProof(pin)
	if err != nil {
		c.srv.t.Fatal(err)
	}
	out, err := c.send(huntVerifyMsg(A, M1))
	if pin == huntPin {
		c.A, c.M1, c.S, c.K, c.haveK = A, M1, S, K, true
	}
	return out, err
}

type huntIdentity struct {
	name string
	pub  ed25519.PublicKey
	priv ed25519.PrivateKey
}

func newHuntIdentity(name string) huntIdentity {
	pub, priv, _ := ed25519.GenerateKey(rand.Reader)
	return huntIdentity{name, pub, priv}
}

// huntKxPlain returns the sub-TLV of M5 signed with hash derived from S
func huntKxPlain(S []byte, id huntIdentity) []byte {
	hash, _ := hkdf.Sha512(S, []byte("Pair-Setup-Controller-Sign-Salt"), []byte("Pair-Setup-Controller-Sign-Info"))
	var material []byte
	material = append(material, hash[:]...)
	material = append(material, []byte(id.name)...)
	material = append(material, id.pub...)
	sig := ed25519.Sign(id.priv, material)
	sub := util.NewTLV8Container()
	sub.SetString(TagUsername, id.name)
	sub.SetBytes(TagPublicKey, id.pub)
	sub.SetBytes(TagSignature, sig)
	return sub.BytesBuffer().Bytes()
}

func huntSeal(K [32]byte, plain []byte) []byte {
	enc, mac, err := chacha20poly1305.EncryptAndSeal(K[:], []byte("PS-Msg05"), plain, nil)
	if err != nil {
		panic(err)
	}
	return append(enc, mac[:]...)
}

func huntKxMsg(data []byte) util.Container {
	m := huntMsg(5)
	if data != nil {
		m.SetBytes(TagEncryptedData, data)
	}
	return m
}

func huntDescribe(out util.Container, err error) string {
	if err != nil {
		return "err(" + err.Error() + ")"
	}
	if out == nil {
		return "nil"
	}
	return fmt.Sprintf("state=%d err=%d proof=%d enc=%d", out.GetByte(TagSequence), out.GetByte(TagErrCode), len(out.GetBytes(TagProof)), len(out.GetBytes(TagEncryptedData)))
}

func huntEntityKey(name string) string { return hex.EncodeToString([]byte(name)) + ".entity" }

func sealWithNonce(K [32]byte, nonce string, plain []byte) ([]byte, [16]byte, error) {
	return chacha20poly1305.EncryptAndSeal(K[:], []byte(nonce), plain, nil)
}

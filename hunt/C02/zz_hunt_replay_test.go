package pair

import (
	"bytes"
	"testing"

	"github.com/brutella/hc/util"
)

// huntWire sends recorded bytes, like a party that knows nothing but what went over the wire
func huntWire(t *testing.T, c *huntConn, wire []byte) (util.Container, error) {
	in, err := util.NewTLV8ContainerFromReader(bytes.NewBuffer(wire))
	if err != nil {
		t.Fatal(err)
	}
	return c.ctrl.Handle(in)
}

// An exchange that consists only of messages repeated from an earlier exchange on the same connection.
// The sender of the second exchange holds no secret at all (no setup code, no S, no K, no Ed25519 key):
// it only repeats recorded bytes. The first exchange did not store anything (the honest controller sent
// its M3 twice, which ended the exchange, so its M5 was refused).
func TestHuntReplayedExchangeSameConnection(t *testing.T) {
	p := newHuntProbe(t)
	defer p.srv.cleanup()
	c := p.srv.conn()
	honest := newHuntIdentity("honest-controller")

	// --- exchange 1: honest controller, knows the code
	m1 := huntMsg(1).BytesBuffer().Bytes()
	out, err := c.start()
	p.noChange("x1 start", out, err)
	A, M1, S, K, _ := c.computeProof(huntPin)
	m3 := huntVerifyMsg(A, M1).BytesBuffer().Bytes()
	out, err = huntWire(t, c, m3)
	p.noChange("x1 verify right", out, err)
	out, err = huntWire(t, c, m3)
	p.noChange("x1 verify repeated (ends the exchange)", out, err)
	m5 := huntKxMsg(huntSeal(K, huntKxPlain(S, honest))).BytesBuffer().Bytes()
	out, err = huntWire(t, c, m5)
	p.noChange("x1 key-exchange (refused, exchange is over)", out, err)

	// --- exchange 2: nothing but recorded bytes
	out, err = huntWire(t, c, m1)
	p.noChange("x2 start (repeated bytes)", out, err)
	out, err = huntWire(t, c, m3)
	p.noChange("x2 verify (repeated bytes)", out, err)
	if out != nil && len(out.GetBytes(TagProof)) > 0 {
		t.Logf("the proof recorded in exchange 1 is accepted again in exchange 2: same salt and B")
	}
	out, err = huntWire(t, c, m5)
	p.noChange("x2 key-exchange replayed from exchange 1", out, err)
}

// Same, second flavour: exchange 1 completes, the pairing is removed afterwards (what /pairings remove does),
// then the recorded bytes re-install the removed controller without any knowledge of the code.
func TestHuntReplayReinstallsRemovedPairing(t *testing.T) {
	p := newHuntProbe(t)
	defer p.srv.cleanup()
	c := p.srv.conn()
	honest := newHuntIdentity("honest-controller")

	m1 := huntMsg(1).BytesBuffer().Bytes()
	out, err := c.start()
	p.noChange("x1 start", out, err)
	A, M1, S, K, _ := c.computeProof(huntPin)
	m3 := huntVerifyMsg(A, M1).BytesBuffer().Bytes()
	out, err = huntWire(t, c, m3)
	p.noChange("x1 verify right", out, err)
	m5 := huntKxMsg(huntSeal(K, huntKxPlain(S, honest))).BytesBuffer().Bytes()
	out, err = huntWire(t, c, m5)
	p.changedTo("x1 key-exchange", honest, out, err)

	e, _ := p.srv.db.EntityWithName(honest.name)
	p.srv.db.DeleteEntity(e)
	p.snap = p.srv.snapshot()

	out, err = huntWire(t, c, m1)
	p.noChange("x2 start (refused: step is M6, resets)", out, err)
	out, err = huntWire(t, c, m1)
	p.noChange("x2 start (repeated bytes)", out, err)
	out, err = huntWire(t, c, m3)
	p.noChange("x2 verify (repeated bytes)", out, err)
	out, err = huntWire(t, c, m5)
	p.noChange("x2 key-exchange replayed from exchange 1", out, err)
}

// Control: the same replay on another connection is refused (fresh salt and B)
func TestHuntReplayedExchangeOtherConnection(t *testing.T) {
	p := newHuntProbe(t)
	defer p.srv.cleanup()
	c := p.srv.conn()
	honest := newHuntIdentity("honest-controller")
	m1 := huntMsg(1).BytesBuffer().Bytes()
	out, err := c.start()
	p.noChange("x1 start", out, err)
	A, M1, S, K, _ := c.computeProof(huntPin)
	m3 := huntVerifyMsg(A, M1).BytesBuffer().Bytes()
	out, err = huntWire(t, c, m3)
	p.noChange("x1 verify right", out, err)
	out, err = huntWire(t, c, m3)
	p.noChange("x1 verify repeated", out, err)
	m5 := huntKxMsg(huntSeal(K, huntKxPlain(S, honest))).BytesBuffer().Bytes()

	c2 := p.srv.conn()
	out, err = huntWire(t, c2, m1)
	p.noChange("c2 start", out, err)
	out, err = huntWire(t, c2, m3)
	p.noChange("c2 verify replayed", out, err)
	out, err = huntWire(t, c2, m5)
	p.noChange("c2 kx replayed", out, err)
}

package pair

import (
	"fmt"
	mrand "math/rand"
	"testing"

	"github.com/brutella/hc/util"
)

// Random histories over the message alphabet on two interleaved connections.
// Oracle (written from the property, not from the code): the store may change at message i only if
// message i is a key exchange sealed under the K and signed over the S of a right proof that was
// sent freshly (not replayed) on the same connection at j<i, answered with M2, and between j and i there is
// no start / verify / key-exchange message on that connection. The change must be exactly that identity.
type huntModelConn struct {
	c *huntConn
	// index of the last accepted fresh right proof that is still "open", -1 otherwise
	open       bool
	started    bool
	openReplay bool // the open proof was a replayed M3
	// old material for replays
	oldA, oldM1 [][]byte
	oldS        [][]byte
	oldK        [][32]byte
	oldM5       [][]byte
}

func TestHuntRandomHistories(t *testing.T) {
	for seed := int64(1); seed <= 10; seed++ {
		huntRandomRun(t, seed, 500)
	}
}

func huntRandomRun(t *testing.T, seed int64, n int) {
	r := mrand.New(mrand.NewSource(seed))
	srv := newHuntServer(t)
	defer srv.cleanup()
	conns := []*huntModelConn{{c: srv.conn()}, {c: srv.conn()}}
	snap := srv.snapshot()
	idn := 0
	var trace []string
	legit, replayStores := 0, 0

	for i := 0; i < n; i++ {
		mc := conns[r.Intn(2)]
		c := mc.c
		ci := 0
		if mc == conns[1] {
			ci = 1
		}
		var out util.Container
		var err error
		var label string
		allowed := false
		var expect *huntIdentity

		kind := r.Intn(20)
		if r.Intn(100) < 55 {
			// bias towards the natural next message so that deep states are reached
			switch {
			case mc.open:
				kind = 9
			case mc.started:
				kind = 3
				if r.Intn(4) == 0 {
					kind = 8
				}
			default:
				kind = 0
			}
		}
		wasStarted := mc.started
		_ = wasStarted
		if kind != 18 && kind != 19 {
			mc.started = kind <= 2
		}
		switch kind {
		case 0, 1, 2:
			label = "start"
			out, err = c.start()
			mc.open = false
		case 3, 4, 5:
			label = "verify right"
			out, err = c.verify(huntPin)
			mc.open = err == nil && out != nil && len(out.GetBytes(TagProof)) > 0
			mc.openReplay = false
			if c.B != nil {
				mc.oldA = append(mc.oldA, c.A)
				mc.oldM1 = append(mc.oldM1, c.M1)
				mc.oldS = append(mc.oldS, c.S)
				mc.oldK = append(mc.oldK, c.K)
			}
		case 6:
			label = "verify wrong"
			out, err = c.verify(fmt.Sprintf("%03d-%02d-%03d", r.Intn(1000), r.Intn(100), r.Intn(1000)))
			mc.open = false
		case 7:
			label = "verify bad A"
			As := [][]byte{nil, {}, {0}, huntGroupN().Bytes()}
			out, err = c.send(huntVerifyMsg(As[r.Intn(len(As))], make([]byte, 64)))
			mc.open = false
		case 8:
			label = "verify replayed"
			if len(mc.oldA) == 0 {
				continue
			}
			k := r.Intn(len(mc.oldA))
			out, err = c.send(huntVerifyMsg(mc.oldA[k], mc.oldM1[k]))
			mc.open = err == nil && out != nil && len(out.GetBytes(TagProof)) > 0
			mc.openReplay = true
			if mc.open {
				// the replaying party would also hold the matching keys only if it is the same party;
				// remember them so that a replayed M5 can be tried
				c.S, c.K, c.haveK = mc.oldS[k], mc.oldK[k], true
			}
		case 9, 10, 11:
			label = "kx genuine"
			idn++
			id := newHuntIdentity(fmt.Sprintf("ctrl-%d", idn))
			S, K := c.S, c.K
			m5 := huntSeal(K, huntKxPlain(S, id))
			mc.oldM5 = append(mc.oldM5, m5)
			out, err = c.send(huntKxMsg(m5))
			if mc.open {
				allowed = true
				expect = &id
			}
			mc.open = false
		case 12:
			label = "kx tampered"
			id := newHuntIdentity("tampered")
			d := huntSeal(c.K, huntKxPlain(c.S, id))
			d[r.Intn(len(d))] ^= byte(1 + r.Intn(255))
			out, err = c.send(huntKxMsg(d))
			mc.open = false
		case 13:
			label = "kx short"
			out, err = c.send(huntKxMsg(make([]byte, r.Intn(17))))
			mc.open = false
		case 14:
			label = "kx zero key"
			out, err = c.send(huntAttackKx(newHuntIdentity("zero"), nil, huntZeroKey))
			mc.open = false
		case 15:
			label = "kx other connection's keys"
			o := conns[1-ci].c
			out, err = c.send(huntAttackKx(newHuntIdentity("cross"), o.S, o.K))
			mc.open = false
		case 16:
			label = "kx replayed M5"
			all := append(append([][]byte{}, conns[0].oldM5...), conns[1].oldM5...)
			if len(all) == 0 {
				continue
			}
			out, err = c.send(huntKxMsg(all[r.Intn(len(all))]))
			mc.open = false
		case 17:
			label = "kx bad signature"
			id := newHuntIdentity("badsig")
			out, err = c.send(huntKxMsg(huntSeal(c.K, huntKxPlain([]byte("other"), id))))
			mc.open = false
		case 18:
			label = "unknown step"
			out, err = c.send(huntMsg([]byte{0, 2, 4, 6, 7, 200}[r.Intn(6)]))
		case 19:
			label = "unknown method"
			m := util.NewTLV8Container()
			m.SetByte(TagPairingMethod, byte(1+r.Intn(4)))
			m.SetByte(TagSequence, byte(1+2*r.Intn(3)))
			out, err = c.send(m)
		}
		trace = append(trace, fmt.Sprintf("#%d c%d %s -> %s", i, ci, label, huntDescribe(out, err)))
		now := srv.snapshot()
		if now != snap {
			if !allowed {
				t.Errorf("seed %d: VIOLATION store changed at %s\ntrace tail:\n%s", seed, trace[len(trace)-1], huntTail(trace, 12))
			} else {
				e, gerr := srv.db.EntityWithName(expect.name)
				if gerr != nil || string(e.PublicKey) != string(expect.pub) {
					t.Errorf("seed %d: stored something else than delivered", seed)
				}
				if mc.openReplay {
					replayStores++
				} else {
					legit++
				}
			}
			snap = now
		} else if allowed {
			// not a violation of the property, but the model and the code disagree: report for inspection
			t.Logf("seed %d: note: genuine exchange did not store at %s\n%s", seed, trace[len(trace)-1], huntTail(trace, 6))
		}
	}
	t.Logf("seed %d: %d legit stores, %d stores on a replayed proof", seed, legit, replayStores)
}

func huntTail(tr []string, n int) string {
	if len(tr) > n {
		tr = tr[len(tr)-n:]
	}
	s := ""
	for _, l := range tr {
		s += "   " + l + "\n"
	}
	return s
}

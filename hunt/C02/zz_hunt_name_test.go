package pair

import (
	"bytes"
	"testing"
)

// A controller that proved the code delivers a name (HAP: pairing identifier, an opaque byte string on the
// wire) that is not valid UTF-8. The signature is checked over the delivered bytes, the entity file is keyed
// by the delivered bytes, but the name that is stored is a different one (U+FFFD replacement by encoding/json).
func TestHuntStoredNameIsNotDeliveredName(t *testing.T) {
	for _, name := range []string{"caf\xe9", "\xff\xfe", "ctrl-\xc3"} {
		p := newHuntProbe(t)
		c := p.srv.conn()
		id := newHuntIdentity(name)
		out, err := c.start()
		p.noChange("start", out, err)
		out, err = c.verify(huntPin)
		p.noChange("verify", out, err)
		out, err = c.send(huntAttackKx(id, c.S, c.K))
		t.Logf("delivered name %q -> %s", name, huntDescribe(out, err))

		es, err := p.srv.db.Entities()
		if err != nil {
			t.Fatal(err)
		}
		for _, e := range es {
			if e.Name == huntAccName {
				continue
			}
			if e.Name != name {
				t.Errorf("VIOLATION: delivered and signed name %q (% x), stored name %q (% x), key equal: %v",
					name, name, e.Name, e.Name, bytes.Equal(e.PublicKey, id.pub))
			}
			// consequence: the stored name does not lead back to the stored entity
			if _, err := p.srv.db.EntityWithName(e.Name); err != nil {
				t.Logf("   EntityWithName(%q) (the stored name) fails: %v", e.Name, err)
			}
		}
		p.srv.cleanup()
	}
}

// Two different delivered names end up as the same stored name
func TestHuntDistinctNamesStoredAsSameName(t *testing.T) {
	p := newHuntProbe(t)
	defer p.srv.cleanup()
	c := p.srv.conn()
	for _, name := range []string{"x\xff", "x\xfe"} {
		id := newHuntIdentity(name)
		if _, err := c.start(); err != nil { // the first start after a finished exchange only resets
			c.start()
		}
		c.verify(huntPin)
		c.send(huntAttackKx(id, c.S, c.K))
	}
	es, _ := p.srv.db.Entities()
	seen := map[string]int{}
	for _, e := range es {
		seen[e.Name]++
	}
	for n, k := range seen {
		if k > 1 {
			t.Errorf("VIOLATION: %d stored pairings carry the same name %q although two different names were delivered", k, n)
		}
	}
}

package pair

import (
	"testing"
)

// NOT a C02 violation (the controller proved the code): a controller that names itself like the accessory
// replaces the accessory's own entity, long-term private key included, because both live in the same store.
func TestHuntObservationAccessoryEntityOverwritten(t *testing.T) {
	p := newHuntProbe(t)
	defer p.srv.cleanup()
	c := p.srv.conn()
	id := newHuntIdentity(huntAccName)
	c.start()
	c.verify(huntPin)
	out, err := c.send(huntAttackKx(id, c.S, c.K))
	t.Logf("kx -> %s", huntDescribe(out, err))
	e, err := p.srv.db.EntityWithName(huntAccName)
	if err != nil {
		t.Fatal(err)
	}
	if len(e.PrivateKey) == 0 {
		t.Errorf("OBSERVATION: the accessory's own entity %q lost its private key and now carries the controller's public key", huntAccName)
	}
}

package pair

import (
	"bytes"
	"crypto/rand"
	"crypto/sha512"
	"math/big"
	"strings"
	"testing"

	"github.com/brutella/hc/util"
	"github.com/tadglines/go-pkgs/crypto/srp"
)

// step runs one message and fails when the store changed although it must not
type huntProbe struct {
	t    *testing.T
	srv  *huntServer
	snap string
}

func newHuntProbe(t *testing.T) *huntProbe {
	s := newHuntServer(t)
	return &huntProbe{t: t, srv: s, snap: s.snapshot()}
}

func (p *huntProbe) noChange(label string, out util.Container, err error) {
	now := p.srv.snapshot()
	p.t.Logf("%-40s -> %s", label, huntDescribe(out, err))
	if now != p.snap {
		p.t.Errorf("VIOLATION after %q: store changed\nbefore:\n%s\nafter:\n%s", label, p.snap, now)
		p.snap = now
	}
}

func (p *huntProbe) changedTo(label string, id huntIdentity, out util.Container, err error) {
	p.t.Logf("%-40s -> %s", label, huntDescribe(out, err))
	e, gerr := p.srv.db.EntityWithName(id.name)
	if gerr != nil || !bytes.Equal(e.PublicKey, id.pub) || e.Name != id.name {
		p.t.Errorf("expected %q to be stored after %q: %v %+v", id.name, label, gerr, e)
	}
	p.snap = p.srv.snapshot()
}

func huntGroupN() *big.Int {
	rp, _ := srp.NewSRP(SRPGroup, sha512.New, nil)
	return rp.Group.Prime
}

var huntZeroKey [32]byte

func huntAttackKx(id huntIdentity, S []byte, K [32]byte) util.Container {
	return huntKxMsg(huntSeal(K, huntKxPlain(S, id)))
}

// 1: the original three message history plus variants of the invalid SRP key
func TestHuntInvalidSRPKeyThenZeroKey(t *testing.T) {
	N := huntGroupN()
	twoN := new(big.Int).Mul(N, big.NewInt(2))
	cases := map[string][]byte{
		"A=0":        {0},
		"A=empty":    {},
		"A=missing":  nil,
		"A=N":        N.Bytes(),
		"A=2N":       twoN.Bytes(),
		"A=0x00*384": make([]byte, 384),
	}
	for name, A := range cases {
		p := newHuntProbe(t)
		c := p.srv.conn()
		evil := newHuntIdentity("evil")
		out, err := c.start()
		p.noChange(name+" start", out, err)
		out, err = c.send(huntVerifyMsg(A, make([]byte, 64)))
		p.noChange(name+" verify", out, err)
		for _, S := range [][]byte{nil, {}, make([]byte, 64)} {
			out, err = c.send(huntAttackKx(evil, S, huntZeroKey))
			p.noChange(name+" kx zero key", out, err)
			// again after the reset
			out, err = c.send(huntAttackKx(evil, S, huntZeroKey))
			p.noChange(name+" kx zero key again", out, err)
		}
		p.srv.cleanup()
	}
}

// 2: wrong proof, then everything an attacker can seal
func TestHuntWrongProofThenKx(t *testing.T) {
	p := newHuntProbe(t)
	defer p.srv.cleanup()
	c := p.srv.conn()
	evil := newHuntIdentity("evil")
	out, err := c.start()
	p.noChange("start", out, err)
	out, err = c.verify("111-11-111")
	p.noChange("verify wrong", out, err)
	// attacker knows the S it computed with the wrong pin
	_, _, S, K, _ := c.computeProof("111-11-111")
	out, err = c.send(huntAttackKx(evil, S, K))
	p.noChange("kx under attacker K", out, err)
	out, err = c.send(huntAttackKx(evil, nil, huntZeroKey))
	p.noChange("kx zero key", out, err)
	out, err = c.start()
	p.noChange("start", out, err)
	out, err = c.send(huntAttackKx(evil, nil, huntZeroKey))
	p.noChange("kx zero key directly after start", out, err)
	out, err = c.start()
	p.noChange("start (after failed kx)", out, err)
	// verify: right A, missing / empty / short proof
	A, M1, _, _, _ := c.computeProof(huntPin)
	for _, proof := range [][]byte{nil, {}, M1[:63], append(append([]byte{}, M1...), 0)} {
		out, err = c.send(huntVerifyMsg(A, proof))
		p.noChange("verify right A bad proof", out, err)
		out, err = c.send(huntAttackKx(evil, nil, huntZeroKey))
		p.noChange("kx zero", out, err)
		out, err = c.start()
		p.noChange("start", out, err)
	}
}

// 3: out of order first messages
func TestHuntOutOfOrder(t *testing.T) {
	p := newHuntProbe(t)
	defer p.srv.cleanup()
	evil := newHuntIdentity("evil")
	c := p.srv.conn()
	out, err := c.send(huntAttackKx(evil, nil, huntZeroKey))
	p.noChange("kx first", out, err)
	out, err = c.verify(huntPin)
	p.noChange("verify first", out, err)
	out, err = c.send(huntAttackKx(evil, nil, huntZeroKey))
	p.noChange("kx after verify-first", out, err)
	out, err = c.start()
	p.noChange("start", out, err)
	out, err = c.start()
	p.noChange("start again", out, err)
	out, err = c.send(huntAttackKx(evil, nil, huntZeroKey))
	p.noChange("kx after 2 starts", out, err)
	// unknown steps and methods interleaved
	for _, st := range []byte{0, 2, 4, 6, 7, 255} {
		out, err = c.send(huntMsg(st))
		p.noChange("unknown step", out, err)
		out, err = c.send(huntAttackKx(evil, nil, huntZeroKey))
		p.noChange("kx after unknown step", out, err)
	}
	out, err = c.start()
	p.noChange("start", out, err)
	m := huntAttackKx(evil, nil, huntZeroKey)
	out, err = c.send(m)
	p.noChange("kx", out, err)
	out, err = c.start()
	p.noChange("start", out, err)
	bad := util.NewTLV8Container()
	bad.SetByte(TagPairingMethod, 1)
	bad.SetByte(TagSequence, 3)
	out, err = c.send(bad)
	p.noChange("verify with method 1", out, err)
	out, err = c.send(huntAttackKx(evil, nil, huntZeroKey))
	p.noChange("kx after bad method", out, err)
}

// 4: right proof, then tampered / short / wrongly signed key exchanges; retry must not work
func TestHuntRightProofBadKx(t *testing.T) {
	good := newHuntIdentity("good")
	other := newHuntIdentity("other")
	type mk func(c *huntConn) []byte
	cases := map[string]mk{
		"missing":                func(c *huntConn) []byte { return nil },
		"empty":                  func(c *huntConn) []byte { return []byte{} },
		"15":                     func(c *huntConn) []byte { return make([]byte, 15) },
		"16":                     func(c *huntConn) []byte { return make([]byte, 16) },
		"empty plaintext sealed": func(c *huntConn) []byte { return huntSeal(c.K, nil) },
		"bitflip": func(c *huntConn) []byte {
			d := huntSeal(c.K, huntKxPlain(c.S, good))
			d[3] ^= 1
			return d
		},
		"truncated": func(c *huntConn) []byte {
			d := huntSeal(c.K, huntKxPlain(c.S, good))
			return d[:len(d)-1]
		},
		"zero key":         func(c *huntConn) []byte { return huntSeal(huntZeroKey, huntKxPlain(c.S, good)) },
		"random key":       func(c *huntConn) []byte { var k [32]byte; rand.Read(k[:]); return huntSeal(k, huntKxPlain(c.S, good)) },
		"sig over wrong S": func(c *huntConn) []byte { return huntSeal(c.K, huntKxPlain([]byte("x"), good)) },
		"sig by other key": func(c *huntConn) []byte {
			x := good
			x.priv = other.priv
			return huntSeal(c.K, huntKxPlain(c.S, x))
		},
		"name swapped after signing": func(c *huntConn) []byte {
			plain := huntKxPlain(c.S, good)
			plain = bytes.Replace(plain, []byte("good"), []byte("evil"), 1)
			return huntSeal(c.K, plain)
		},
		"truncated tlv inside": func(c *huntConn) []byte {
			plain := huntKxPlain(c.S, good)
			return huntSeal(c.K, plain[:len(plain)-5])
		},
		"wrong nonce": func(c *huntConn) []byte {
			// sealed as M6 would be
			d := huntSeal(c.K, huntKxPlain(c.S, good))
			_ = d
			return huntSealNonce(c.K, "PS-Msg06", huntKxPlain(c.S, good))
		},
	}
	for name, f := range cases {
		p := newHuntProbe(t)
		c := p.srv.conn()
		out, err := c.start()
		p.noChange(name+": start", out, err)
		out, err = c.verify(huntPin)
		p.noChange(name+": verify right", out, err)
		if out == nil || len(out.GetBytes(TagProof)) == 0 {
			t.Fatalf("right proof refused")
		}
		out, err = c.send(huntKxMsg(f(c)))
		p.noChange(name+": bad kx", out, err)
		// a retry of the genuine message must now be refused: the exchange is over
		out, err = c.send(huntAttackKx(good, c.S, c.K))
		p.noChange(name+": genuine kx after failure", out, err)
		p.srv.cleanup()
	}
}

// 5: genuine exchange stores; repeats and replays afterwards
func TestHuntGenuineThenRepeats(t *testing.T) {
	p := newHuntProbe(t)
	defer p.srv.cleanup()
	c := p.srv.conn()
	good := newHuntIdentity("good")
	evil := newHuntIdentity("evil")
	out, err := c.start()
	p.noChange("start", out, err)
	out, err = c.verify(huntPin)
	p.noChange("verify", out, err)
	m5 := huntSeal(c.K, huntKxPlain(c.S, good))
	out, err = c.send(huntKxMsg(m5))
	p.changedTo("kx genuine", good, out, err)
	S1, K1 := c.S, c.K

	out, err = c.send(huntAttackKx(evil, S1, K1))
	p.noChange("second kx same keys", out, err)
	out, err = c.send(huntAttackKx(evil, S1, K1))
	p.noChange("third kx same keys", out, err)
	out, err = c.start()
	p.noChange("start", out, err)
	out, err = c.verify("999-99-999")
	p.noChange("verify wrong", out, err)
	out, err = c.send(huntAttackKx(evil, S1, K1))
	p.noChange("kx with old keys after wrong verify", out, err)
	out, err = c.start()
	p.noChange("start", out, err)
	out, err = c.send(huntAttackKx(evil, S1, K1))
	p.noChange("kx with old keys after start", out, err)

	// other connection: its own right proof, then M5 of the first connection
	c2 := p.srv.conn()
	out, err = c2.start()
	p.noChange("c2 start", out, err)
	out, err = c2.verify(huntPin)
	p.noChange("c2 verify", out, err)
	out, err = c2.send(huntKxMsg(m5))
	p.noChange("c2 kx replayed from c1", out, err)

	// c3: proof on c3, exchange finished on c4
	c3 := p.srv.conn()
	c4 := p.srv.conn()
	out, err = c3.start()
	p.noChange("c3 start", out, err)
	out, err = c4.start()
	p.noChange("c4 start", out, err)
	out, err = c3.verify(huntPin)
	p.noChange("c3 verify", out, err)
	out, err = c4.send(huntAttackKx(evil, c3.S, c3.K))
	p.noChange("c4 kx with c3 keys", out, err)
	out, err = c4.verify("000-00-000")
	p.noChange("c4 verify wrong (out of order)", out, err)
	out, err = c4.send(huntAttackKx(evil, c3.S, c3.K))
	p.noChange("c4 kx with c3 keys", out, err)
}

// 6: proof transplanted across connections (A and M1 of c1 sent on c2)
func TestHuntProofFromOtherConnection(t *testing.T) {
	p := newHuntProbe(t)
	defer p.srv.cleanup()
	c1 := p.srv.conn()
	c2 := p.srv.conn()
	evil := newHuntIdentity("evil")
	out, err := c1.start()
	p.noChange("c1 start", out, err)
	out, err = c2.start()
	p.noChange("c2 start", out, err)
	out, err = c1.verify(huntPin)
	p.noChange("c1 verify", out, err)
	out, err = c2.send(huntVerifyMsg(c1.A, c1.M1))
	p.noChange("c2 verify with c1 proof", out, err)
	out, err = c2.send(huntAttackKx(evil, c1.S, c1.K))
	p.noChange("c2 kx with c1 keys", out, err)
}

func huntSealNonce(K [32]byte, nonce string, plain []byte) []byte {
	enc, mac, err := sealWithNonce(K, nonce, plain)
	if err != nil {
		panic(err)
	}
	return append(enc, mac[:]...)
}

// 7: strange names
func TestHuntStrangeNames(t *testing.T) {
	for _, name := range []string{"", "a/b", "../x", "a:b", strings.Repeat("n", 100), "caf\u00e9"} {
		p := newHuntProbe(t)
		c := p.srv.conn()
		id := newHuntIdentity(name)
		out, err := c.start()
		p.noChange("start", out, err)
		out, err = c.verify(huntPin)
		p.noChange("verify", out, err)
		out, err = c.send(huntAttackKx(id, c.S, c.K))
		t.Logf("name %q -> %s", name, huntDescribe(out, err))
		es, err := p.srv.db.Entities()
		if err != nil {
			t.Errorf("name %q: Entities: %v", name, err)
		}
		found := false
		for _, e := range es {
			if e.Name == huntAccName {
				continue
			}
			if e.Name != name || !bytes.Equal(e.PublicKey, id.pub) {
				t.Errorf("VIOLATION: delivered name %q, stored entity has name %q (key equal: %v)", name, e.Name, bytes.Equal(e.PublicKey, id.pub))
			} else {
				found = true
			}
		}
		t.Logf("name %q stored exactly: %v", name, found)
		p.srv.cleanup()
	}
}

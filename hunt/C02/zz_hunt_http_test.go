package http

import (
	"bufio"
	"bytes"
	"context"
	"crypto/ed25519"
	"crypto/rand"
	"crypto/sha512"
	"fmt"
	"io/ioutil"
	"net"
	nethttp "net/http"
	"os"
	"sort"
	"strings"
	"sync"
	"testing"
	"time"

	"github.com/brutella/hc/accessory"
	"github.com/brutella/hc/crypto/chacha20poly1305"
	"github.com/brutella/hc/crypto/hkdf"
	"github.com/brutella/hc/db"
	"github.com/brutella/hc/event"
	"github.com/brutella/hc/hap"
	"github.com/brutella/hc/hap/pair"
	"github.com/brutella/hc/util"
	"github.com/tadglines/go-pkgs/crypto/srp"
)

const hPin = "031-45-154"

type hSrv struct {
	t    *testing.T
	dir  string
	db   db.Database
	addr string
	stop func()
}

func newHSrv(t *testing.T) *hSrv {
	dir, _ := ioutil.TempDir("", "hunthttp")
	st, _ := util.NewFileStorage(dir)
	database := db.NewDatabaseWithStorage(st)
	dev, err := hap.NewSecuredDevice("Hunt HTTP", hPin, database)
	if err != nil {
		t.Fatal(err)
	}
	s := NewServer(Config{
		Port:      "127.0.0.1:0",
		Context:   hap.NewContextForSecuredDevice(dev),
		Database:  database,
		Container: accessory.NewContainer(),
		Device:    dev,
		Mutex:     &sync.Mutex{},
		Emitter:   event.NewEmitter(),
	})
	ctx, cancel := context.WithCancel(context.Background())
	go s.ListenAndServe(ctx)
	return &hSrv{t: t, dir: dir, db: database, addr: "127.0.0.1:" + s.Port(), stop: func() { cancel(); time.Sleep(20 * time.Millisecond); os.RemoveAll(dir) }}
}

func (s *hSrv) snapshot() string {
	infos, _ := ioutil.ReadDir(s.dir)
	var l []string
	for _, i := range infos {
		b, _ := ioutil.ReadFile(s.dir + "/" + i.Name())
		l = append(l, i.Name()+"="+string(b))
	}
	sort.Strings(l)
	return strings.Join(l, "\n")
}

type hConn struct {
	t       *testing.T
	c       net.Conn
	r       *bufio.Reader
	salt, B []byte
	A, M1   []byte
	S       []byte
	K       [32]byte
}

func (s *hSrv) dial() *hConn {
	c, err := net.Dial("tcp", s.addr)
	if err != nil {
		s.t.Fatal(err)
	}
	return &hConn{t: s.t, c: c, r: bufio.NewReader(c)}
}

// post returns status and parsed body (nil when not parseable)
func (c *hConn) post(body []byte) (int, util.Container) {
	req, _ := nethttp.NewRequest("POST", "http://x/pair-setup", bytes.NewReader(body))
	req.Header.Set("Content-Type", "application/pairing+tlv8")
	c.c.SetDeadline(time.Now().Add(5 * time.Second))
	if err := req.Write(c.c); err != nil {
		c.t.Fatal(err)
	}
	resp, err := nethttp.ReadResponse(c.r, req)
	if err != nil {
		c.t.Fatal(err)
	}
	b, _ := ioutil.ReadAll(resp.Body)
	resp.Body.Close()
	out, _ := util.NewTLV8ContainerFromReader(bytes.NewBuffer(b))
	return resp.StatusCode, out
}

func hMsg(step byte) util.Container {
	m := util.NewTLV8Container()
	m.SetByte(pair.TagPairingMethod, 0)
	m.SetByte(pair.TagSequence, step)
	return m
}

func (c *hConn) start() int {
	code, out := c.post(hMsg(1).BytesBuffer().Bytes())
	if out != nil && len(out.GetBytes(pair.TagSalt)) > 0 {
		c.salt, c.B = out.GetBytes(pair.TagSalt), out.GetBytes(pair.TagPublicKey)
	}
	return code
}

func (c *hConn) proof(pin string) []byte {
	rp, _ := srp.NewSRP(pair.SRPGroup, sha512.New, pair.KeyDerivativeFuncRFC2945(sha512.New, []byte("Pair-Setup")))
	cs := rp.NewClientSession([]byte("Pair-Setup"), []byte(pin))
	S, err := cs.ComputeKey(c.salt, c.B)
	if err != nil {
		c.t.Fatal(err)
	}
	c.S, c.A, c.M1 = S, cs.GetA(), cs.ComputeAuthenticator()
	c.K, _ = hkdf.Sha512(S, []byte("Pair-Setup-Encrypt-Salt"), []byte("Pair-Setup-Encrypt-Info"))
	m := hMsg(3)
	m.SetBytes(pair.TagPublicKey, c.A)
	m.SetBytes(pair.TagProof, c.M1)
	return m.BytesBuffer().Bytes()
}

func hKx(S []byte, K [32]byte, name string) ([]byte, ed25519.PublicKey) {
	pub, priv, _ := ed25519.GenerateKey(rand.Reader)
	hash, _ := hkdf.Sha512(S, []byte("Pair-Setup-Controller-Sign-Salt"), []byte("Pair-Setup-Controller-Sign-Info"))
	var material []byte
	material = append(material, hash[:]...)
	material = append(material, []byte(name)...)
	material = append(material, pub...)
	sub := util.NewTLV8Container()
	sub.SetString(pair.TagUsername, name)
	sub.SetBytes(pair.TagPublicKey, pub)
	sub.SetBytes(pair.TagSignature, ed25519.Sign(priv, material))
	enc, mac, _ := chacha20poly1305.EncryptAndSeal(K[:], []byte("PS-Msg05"), sub.BytesBuffer().Bytes(), nil)
	m := hMsg(5)
	m.SetBytes(pair.TagEncryptedData, append(enc, mac[:]...))
	return m.BytesBuffer().Bytes(), pub
}

func hDesc(code int, out util.Container) string {
	if out == nil {
		return fmt.Sprintf("http %d", code)
	}
	return fmt.Sprintf("http %d state=%d err=%d proof=%d enc=%d", code, out.GetByte(pair.TagSequence), out.GetByte(pair.TagErrCode), len(out.GetBytes(pair.TagProof)), len(out.GetBytes(pair.TagEncryptedData)))
}

func TestHuntHTTPHistories(t *testing.T) {
	s := newHSrv(t)
	defer s.stop()
	snap := s.snapshot()
	check := func(label string, code int, out util.Container) {
		t.Logf("%-50s -> %s", label, hDesc(code, out))
		if now := s.snapshot(); now != snap {
			t.Errorf("VIOLATION after %s: store changed\nbefore:\n%s\nafter:\n%s", label, snap, now)
			snap = now
		}
	}
	var zero [32]byte

	// H1: start, verify with A=0, key exchange sealed under the zero key (same TCP connection)
	c1 := s.dial()
	check("c1 start", c1.start(), nil)
	m := hMsg(3)
	m.SetBytes(pair.TagPublicKey, []byte{0})
	m.SetBytes(pair.TagProof, make([]byte, 64))
	code, out := c1.post(m.BytesBuffer().Bytes())
	check("c1 verify A=0", code, out)
	kx, _ := hKx(nil, zero, "evil")
	code, out = c1.post(kx)
	check("c1 kx zero key", code, out)

	// H2: body that is not TLV8 between the messages, then kx
	check("c1 start", c1.start(), nil)
	code, out = c1.post([]byte{6, 200, 1})
	check("c1 truncated tlv8 body", code, out)
	code, out = c1.post(kx)
	check("c1 kx zero key", code, out)

	// H3: proof on c2, key exchange on c3 and on c1
	c2 := s.dial()
	c3 := s.dial()
	check("c2 start", c2.start(), nil)
	check("c3 start", c3.start(), nil)
	code, out = c2.post(c2.proof(hPin))
	check("c2 verify right", code, out)
	kx2, _ := hKx(c2.S, c2.K, "evil")
	code, out = c3.post(kx2)
	check("c3 kx with c2 keys", code, out)
	code, out = c1.post(kx2)
	check("c1 kx with c2 keys", code, out)
	// proof of c2 sent on c3
	m = hMsg(3)
	m.SetBytes(pair.TagPublicKey, c2.A)
	m.SetBytes(pair.TagProof, c2.M1)
	check("c3 start", c3.start(), nil)
	code, out = c3.post(m.BytesBuffer().Bytes())
	check("c3 verify with c2's proof", code, out)
	code, out = c3.post(kx2)
	check("c3 kx with c2 keys", code, out)

	// H4: c2 closes after its proof; a new connection tries to continue
	c2.c.Close()
	time.Sleep(50 * time.Millisecond)
	c4 := s.dial()
	code, out = c4.post(kx2)
	check("c4 kx with c2 keys after c2 closed", code, out)

	// H5: wrong code on c4, then kx with the keys the attacker derived
	check("c4 start", c4.start(), nil)
	code, out = c4.post(c4.proof("000-00-000"))
	check("c4 verify wrong", code, out)
	kx4, _ := hKx(c4.S, c4.K, "evil")
	code, out = c4.post(kx4)
	check("c4 kx attacker keys", code, out)

	// H6: genuine exchange on c4 stores exactly the delivered identity
	check("c4 start", c4.start(), nil)
	code, out = c4.post(c4.proof(hPin))
	check("c4 verify right", code, out)
	kxg, pub := hKx(c4.S, c4.K, "good")
	code, out = c4.post(kxg)
	t.Logf("%-50s -> %s", "c4 kx genuine", hDesc(code, out))
	e, err := s.db.EntityWithName("good")
	if err != nil || !bytes.Equal(e.PublicKey, pub) {
		t.Errorf("genuine exchange did not store: %v", err)
	}
	snap = s.snapshot()
	code, out = c4.post(kx4)
	check("c4 kx again", code, out)
}

// Replay over one keep-alive TCP connection: exchange 2 consists only of the bytes of exchange 1.
func TestHuntHTTPReplaySameConnection(t *testing.T) {
	s := newHSrv(t)
	defer s.stop()
	snap := s.snapshot()
	check := func(label string, code int, out util.Container) {
		t.Logf("%-50s -> %s", label, hDesc(code, out))
		if now := s.snapshot(); now != snap {
			t.Errorf("VIOLATION after %s: store changed\nbefore:\n%s\nafter:\n%s", label, snap, now)
			snap = now
		}
	}
	c := s.dial()
	m1 := hMsg(1).BytesBuffer().Bytes()
	check("x1 start", c.start(), nil)
	m3 := c.proof(hPin)
	code, out := c.post(m3)
	check("x1 verify right", code, out)
	code, out = c.post(m3)
	check("x1 verify repeated (exchange ends)", code, out)
	m5, _ := hKx(c.S, c.K, "honest")
	code, out = c.post(m5)
	check("x1 kx (refused)", code, out)

	code, out = c.post(m1)
	check("x2 start, recorded bytes", code, out)
	code, out = c.post(m3)
	check("x2 verify, recorded bytes", code, out)
	code, out = c.post(m5)
	check("x2 kx, recorded bytes", code, out)
}

package hc

import (
	"bufio"
	"bytes"
	"net"
	"syscall"
	"testing"
	"time"
)

// probe: a legitimate verified connection is reset and a peer connects at once from the same address and port
func TestH4SameAddressAfterReset(t *testing.T) {
	f := h4Start(t)
	defer f.stop()
	admin := h4NewCtrl("admin-A")
	f.store(admin)
	onID := itoa(f.acc.Lightbulb.On.ID)
	reused, refused := 0, 0
	for i := 0; i < 150; i++ {
		k := h4Verified(t, f, admin)
		sub := []byte(`{"characteristics":[{"aid":1,"iid":` + onID + `,"ev":true}]}`)
		if st, _, _, err := k.roundTrip("PUT", h4Req("PUT", "/characteristics", "application/hap+json", sub)); err != nil || st != 204 {
			t.Fatalf("subscribe: %d %v", st, err)
		}
		local := k.c.LocalAddr().(*net.TCPAddr)
		k.c.(*net.TCPConn).SetLinger(0)
		k.c.Close() // RST
		d := net.Dialer{LocalAddr: local, Timeout: time.Second, Control: func(network, address string, c syscall.RawConn) error {
			return c.Control(func(fd uintptr) { syscall.SetsockoptInt(int(fd), syscall.SOL_SOCKET, syscall.SO_REUSEADDR, 1) })
		}}
		c, err := d.Dial("tcp", f.addr)
		if err != nil {
			continue
		}
		reused++
		x := &h4Conn{c: c, br: bufio.NewReader(c)}
		st, _, body, err := x.roundTrip("GET", h4Req("GET", "/accessories", "", nil))
		if err == nil && st != 470 || bytes.Contains(body, []byte(h4Canary)) {
			t.Errorf("iteration %d: unverified connection from the address of a verified one: %d %q", i, st, body)
		}
		if st == 470 {
			refused++
		}
		f.acc.Lightbulb.On.SetValue(i%2 == 0)
		c.SetReadDeadline(time.Now().Add(30 * time.Millisecond))
		buf := make([]byte, 256)
		if n, _ := x.br.Read(buf); n > 0 {
			t.Errorf("iteration %d: bytes for the new connection: %q", i, buf[:n])
		}
		c.Close()
	}
	t.Logf("address reused %d times, refused with 470: %d", reused, refused)
}

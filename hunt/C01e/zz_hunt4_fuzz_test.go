package hc

import (
	"bytes"
	"crypto/ed25519"
	"fmt"
	"image"
	"io/ioutil"
	"math/rand"
	"net"
	"sort"
	"strings"
	"sync"
	"testing"
	"time"

	"github.com/brutella/hc/crypto"
	"github.com/brutella/hc/crypto/chacha20poly1305"
	"github.com/brutella/hc/crypto/curve25519"
	"github.com/brutella/hc/crypto/hkdf"
	"github.com/brutella/hc/hap/pair"
	"github.com/brutella/hc/util"
)

func h4Snapshot(f *h4Fixture) string {
	es, _ := f.tr.database.Entities()
	var s []string
	for _, e := range es {
		s = append(s, fmt.Sprintf("%q:%x:%d", e.Name, e.PublicKey, len(e.PrivateKey)))
	}
	sort.Strings(s)
	return strings.Join(s, ",")
}

// random histories of an unverified peer, with a legitimate controller working on another connection
func TestH4FuzzUnverified(t *testing.T) {
	dir, _ := ioutil.TempDir("", "h4")
	f := h4StartCam(t, dir)
	defer f.stop()
	admin := h4NewCtrl("admin-A")
	f.store(admin)
	accName := f.tr.device.Name()

	var mu sync.Mutex
	callbacks := 0
	f.acc.Lightbulb.On.OnValueRemoteUpdate(func(on bool) { mu.Lock(); callbacks++; mu.Unlock() })
	snaps := 0

	before := h4Snapshot(f)

	// legit controller
	stopLegit := make(chan struct{})
	legitDone := make(chan struct{})
	go func() {
		defer close(legitDone)
		k := h4Dial(t, f.addr)
		if code, st, err := k.verify(admin); err != nil || code != 0 {
			t.Errorf("legit verify %d %d %v", code, st, err)
			return
		}
		for {
			select {
			case <-stopLegit:
				return
			default:
			}
			st, _, body, err := k.roundTrip("GET", h4Req("GET", "/accessories", "", nil))
			if err != nil || st != 200 || !bytes.Contains(body, []byte(h4Canary)) {
				t.Errorf("legit GET: %d %v", st, err)
				return
			}
			time.Sleep(2 * time.Millisecond)
		}
	}()

	seed := time.Now().UnixNano()
	rng := rand.New(rand.NewSource(seed))
	t.Logf("seed %d", seed)
	onID := itoa(f.acc.Lightbulb.On.ID)

	paths := []string{"/accessories", "/characteristics", "/characteristics?id=1.2,1.3,1." + onID, "/pairings", "/resource", "/accessories/", "//accessories", "/./characteristics?id=1.3", "/characteristics/../accessories", "/ACCESSORIES", "/pair-verify/../accessories", "*", "http://x/accessories", "/accessories?x=1", "/characteristics%3Fid=1.3"}
	methods := []string{"GET", "PUT", "POST", "HEAD", "OPTIONS", "DELETE", "CONNECT", "PATCH", "TRACE", "get"}
	bodies := [][]byte{
		nil,
		[]byte(`{"characteristics":[{"aid":1,"iid":` + onID + `,"value":true,"ev":true}]}`),
		h4PairingTLV(3, "evil", make([]byte, 32), 1),
		h4PairingTLV(4, "admin-A", nil, 0),
		[]byte(`{"resource-type":"image","image-width":10,"image-height":10}`),
	}

	check := func(what string, resp []byte) {
		if bytes.Contains(resp, []byte(h4Canary)) || bytes.Contains(resp, []byte(`"iid"`)) || bytes.Contains(resp, []byte("JFIF")) {
			t.Errorf("disclosure after %s: %q", what, resp)
		}
	}

	for iter := 0; iter < 150; iter++ {
		c, err := net.Dial("tcp", f.addr)
		if err != nil {
			t.Fatal(err)
		}
		var hist []string
		var priv, pub, B, shared [32]byte
		var encKey [32]byte
		haveM2 := false
		nsteps := 1 + rng.Intn(8)
		for s := 0; s < nsteps; s++ {
			var raw []byte
			what := ""
			switch rng.Intn(12) {
			case 0, 1, 2, 3:
				m := methods[rng.Intn(len(methods))]
				p := paths[rng.Intn(len(paths))]
				b := bodies[rng.Intn(len(bodies))]
				req := h4Req(m, p, "application/hap+json", b)
				switch rng.Intn(5) {
				case 0:
					req = strings.Replace(req, "HTTP/1.1", "HTTP/1.0", 1)
				case 1:
					req = strings.Replace(req, "\r\n\r\n", "\r\nConnection: close\r\n\r\n", 1)
				case 2:
					req = strings.Replace(req, "\r\n\r\n", "\r\nExpect: 100-continue\r\n\r\n", 1)
				case 3:
					if b != nil {
						req = fmt.Sprintf("%s %s HTTP/1.1\r\nHost: x\r\nTransfer-Encoding: chunked\r\n\r\n%x\r\n%s\r\n0\r\n\r\n", m, p, len(b), b)
					}
				}
				raw = []byte(req)
				what = m + " " + p
			case 4: // verify M1 valid
				priv = curve25519.GeneratePrivateKey()
				pub = curve25519.PublicKey(priv)
				if rng.Intn(4) == 0 {
					pub = [32]byte{} // low order point
				}
				m1 := util.NewTLV8Container()
				m1.SetByte(pair.TagSequence, 1)
				m1.SetBytes(pair.TagPublicKey, pub[:])
				raw = []byte(h4Req("POST", "/pair-verify", "application/pairing+tlv8", m1.BytesBuffer().Bytes()))
				what = "PV-M1"
			case 5: // M3 with forged content
				names := []string{"admin-A", accName, "", "nobody", "admin-A\x00", "../uuid"}
				name := names[rng.Intn(len(names))]
				_, evilPriv, _ := ed25519.GenerateKey(rng)
				var material []byte
				material = append(material, pub[:]...)
				material = append(material, []byte(name)...)
				material = append(material, B[:]...)
				sig := ed25519.Sign(evilPriv, material)
				switch rng.Intn(4) {
				case 0:
					sig = nil
				case 1:
					sig = make([]byte, 64)
				}
				sub := util.NewTLV8Container()
				sub.SetString(pair.TagUsername, name)
				sub.SetBytes(pair.TagSignature, sig)
				enc, mac, _ := chacha20poly1305.EncryptAndSeal(encKey[:], []byte("PV-Msg03"), sub.BytesBuffer().Bytes(), nil)
				m3 := util.NewTLV8Container()
				m3.SetByte(pair.TagSequence, 3)
				m3.SetBytes(pair.TagEncryptedData, append(enc, mac[:]...))
				if rng.Intn(5) == 0 {
					m3.SetByte(pair.TagErrCode, 0)
				}
				raw = []byte(h4Req("POST", "/pair-verify", "application/pairing+tlv8", m3.BytesBuffer().Bytes()))
				what = "PV-M3 as " + name
			case 6: // garbage verify
				m := util.NewTLV8Container()
				m.SetByte(pair.TagSequence, byte(rng.Intn(6)))
				m.SetBytes(pair.TagEncryptedData, make([]byte, rng.Intn(40)))
				raw = []byte(h4Req("POST", "/pair-verify", "application/pairing+tlv8", m.BytesBuffer().Bytes()))
				what = "PV-garbage"
			case 7: // pair-setup steps
				m := util.NewTLV8Container()
				seq := []byte{1, 3, 5, 2, 4, 6, 0}[rng.Intn(7)]
				m.SetByte(pair.TagSequence, seq)
				if seq == 3 {
					a := make([]byte, 384)
					rng.Read(a)
					if rng.Intn(3) == 0 {
						a = make([]byte, 384) // A = 0
					}
					m.SetBytes(pair.TagPublicKey, a)
					m.SetBytes(pair.TagProof, make([]byte, 64))
				}
				if seq == 5 {
					enc, mac, _ := chacha20poly1305.EncryptAndSeal(make([]byte, 32), []byte("PS-Msg05"), []byte{1, 1, 'x'}, nil)
					m.SetBytes(pair.TagEncryptedData, append(enc, mac[:]...))
				}
				raw = []byte(h4Req("POST", "/pair-setup", "application/pairing+tlv8", m.BytesBuffer().Bytes()))
				what = fmt.Sprintf("PS-%d", seq)
			case 8: // ciphertext under the key the peer derived itself
				if haveM2 {
					cs, _ := crypto.NewSecureClientSessionFromSharedKey(shared)
					r, _ := cs.Encrypt(strings.NewReader(h4Req("GET", "/accessories", "", nil)))
					raw, _ = ioutil.ReadAll(r)
					what = "ciphertext GET /accessories"
				} else {
					continue
				}
			case 9: // pipelined pair
				raw = []byte(h4Req("GET", "/accessories", "", nil) + h4Req("PUT", "/characteristics", "application/hap+json", bodies[1]))
				what = "pipelined"
			case 10:
				raw = []byte(h4Req("POST", "/identify", "", nil))
				what = "identify"
			case 11:
				raw = []byte("PRI * HTTP/2.0\r\n\r\nSM\r\n\r\n")
				what = "h2 preface"
			}
			hist = append(hist, what)
			c.SetDeadline(time.Now().Add(300 * time.Millisecond))
			if _, err := c.Write(raw); err != nil {
				break
			}
			buf := make([]byte, 65536)
			n, _ := c.Read(buf)
			// read a bit more if there is
			if n > 0 {
				c.SetDeadline(time.Now().Add(20 * time.Millisecond))
				m, _ := c.Read(buf[n:])
				n += m
			}
			resp := buf[:n]
			check(strings.Join(hist, " ; "), resp)
			if what == "PV-M1" && bytes.HasPrefix(resp, []byte("HTTP/1.1 200")) {
				if i := bytes.Index(resp, []byte("\r\n\r\n")); i > 0 {
					if m2, err := util.NewTLV8ContainerFromReader(bytes.NewReader(resp[i+4:])); err == nil && len(m2.GetBytes(pair.TagPublicKey)) == 32 {
						copy(B[:], m2.GetBytes(pair.TagPublicKey))
						shared = curve25519.SharedSecret(priv, B)
						encKey, _ = hkdf.Sha512(shared[:], []byte("Pair-Verify-Encrypt-Salt"), []byte("Pair-Verify-Encrypt-Info"))
						haveM2 = true
					}
				}
			}
			if strings.HasPrefix(what, "PV-M3") && bytes.HasPrefix(resp, []byte("HTTP/1.1 200")) {
				if i := bytes.Index(resp, []byte("\r\n\r\n")); i > 0 {
					if m4, err := util.NewTLV8ContainerFromReader(bytes.NewReader(resp[i+4:])); err == nil && m4.GetByte(pair.TagErrCode) == 0 {
						t.Errorf("M4 without error after %v", hist)
					}
				}
			}
		}
		// the session of this connection must not be verified, nor subscribed
		for _, ac := range f.tr.context.ActiveConnections() {
			if ac.RemoteAddr().String() == c.LocalAddr().String() {
				s := f.tr.context.GetSessionForConnection(ac)
				if s != nil && (s.Encrypter() != nil || s.Decrypter() != nil || s.IsSubscribedTo(f.acc.Lightbulb.On.Characteristic)) {
					t.Errorf("session verified/subscribed after %v", hist)
				}
			}
		}
		if rng.Intn(2) == 0 {
			c.Close()
		} else if tc, ok := c.(*net.TCPConn); ok && rng.Intn(2) == 0 {
			tc.CloseWrite()
			defer c.Close()
		} else {
			defer c.Close()
		}
		if h4Snapshot(f) != before {
			t.Fatalf("database changed after %v: %s -> %s", hist, before, h4Snapshot(f))
		}
		mu.Lock()
		cb := callbacks
		mu.Unlock()
		if cb != 0 || f.acc.Lightbulb.On.GetValue() != false {
			t.Fatalf("value/callback changed after %v", hist)
		}
	}
	close(stopLegit)
	<-legitDone
	_ = snaps
}

func h4StartCam(t *testing.T, dir string) *h4Fixture {
	f := h4StartIn(t, dir)
	return f
}

var _ = image.Rect

package hc

// Harness for the fourth hunt on C01: a reference controller / attacker that
// talks to a real ipTransport over loopback TCP.

import (
	"bufio"
	"bytes"
	"crypto/ed25519"
	"crypto/rand"
	"encoding/binary"
	"fmt"
	"image"
	"io"
	"io/ioutil"
	"net"
	nethttp "net/http"
	"os"
	"strings"
	"testing"
	"time"

	"github.com/brutella/hc/accessory"
	"github.com/brutella/hc/crypto"
	"github.com/brutella/hc/crypto/chacha20poly1305"
	"github.com/brutella/hc/crypto/curve25519"
	"github.com/brutella/hc/crypto/hkdf"
	"github.com/brutella/hc/db"
	"github.com/brutella/hc/hap/pair"
	"github.com/brutella/hc/util"
)

const h4Canary = "CANARY-7f3a9c"

type h4Fixture struct {
	t      *testing.T
	dir    string
	tr     *ipTransport
	acc    *accessory.Lightbulb
	addr   string
	doneCh chan struct{}
}

func h4Start(t *testing.T) *h4Fixture {
	dir, err := ioutil.TempDir("", "h4")
	if err != nil {
		t.Fatal(err)
	}
	return h4StartIn(t, dir)
}

func h4StartIn(t *testing.T, dir string) *h4Fixture {
	acc := accessory.NewLightbulb(accessory.Info{Name: "Lamp", SerialNumber: h4Canary, Manufacturer: h4Canary, Model: h4Canary})
	tr, err := NewIPTransport(Config{StoragePath: dir, Pin: "11223344"}, acc.Accessory)
	if err != nil {
		t.Fatal(err)
	}
	tr.CameraSnapshotReq = func(w, h uint) (*image.Image, error) {
		var img image.Image = image.NewRGBA(image.Rect(0, 0, 4, 4))
		return &img, nil
	}
	f := &h4Fixture{t: t, dir: dir, tr: tr, acc: acc, doneCh: make(chan struct{})}
	go func() {
		tr.Start()
		close(f.doneCh)
	}()
	// wait for the server
	for i := 0; i < 500; i++ {
		if tr.server != nil && tr.config.servePort != 0 {
			break
		}
		time.Sleep(5 * time.Millisecond)
	}
	time.Sleep(20 * time.Millisecond)
	f.addr = fmt.Sprintf("127.0.0.1:%d", tr.config.servePort)
	return f
}

func (f *h4Fixture) stop() {
	<-f.tr.Stop()
	os.RemoveAll(f.dir)
}

// a controller identity
type h4Ctrl struct {
	name string
	pub  ed25519.PublicKey
	priv ed25519.PrivateKey
}

func h4NewCtrl(name string) *h4Ctrl {
	pub, priv, _ := ed25519.GenerateKey(rand.Reader)
	return &h4Ctrl{name: name, pub: pub, priv: priv}
}

// store simulates an earlier successful pair-setup
func (f *h4Fixture) store(c *h4Ctrl) {
	if err := f.tr.database.SaveEntity(db.NewEntity(c.name, c.pub, nil)); err != nil {
		f.t.Fatal(err)
	}
}

type h4Conn struct {
	c    net.Conn
	br   *bufio.Reader
	sess crypto.Cryptographer
	dec  *h4DecReader
}

func h4Dial(t *testing.T, addr string) *h4Conn {
	c, err := net.Dial("tcp", addr)
	if err != nil {
		t.Fatal(err)
	}
	return &h4Conn{c: c, br: bufio.NewReader(c)}
}

// h4DecReader decrypts frame by frame
type h4DecReader struct {
	br   *bufio.Reader
	sess crypto.Cryptographer
	buf  bytes.Buffer
}

func (d *h4DecReader) Read(p []byte) (int, error) {
	for d.buf.Len() == 0 {
		var hdr [2]byte
		if _, err := io.ReadFull(d.br, hdr[:]); err != nil {
			return 0, err
		}
		n := int(binary.LittleEndian.Uint16(hdr[:]))
		frame := make([]byte, 2+n+16)
		copy(frame, hdr[:])
		if _, err := io.ReadFull(d.br, frame[2:]); err != nil {
			return 0, err
		}
		r, err := d.sess.Decrypt(bytes.NewReader(frame))
		if err != nil {
			return 0, fmt.Errorf("client decrypt: %v", err)
		}
		io.Copy(&d.buf, r)
	}
	return d.buf.Read(p)
}

func (k *h4Conn) write(b []byte) error {
	if k.sess != nil {
		r, err := k.sess.Encrypt(bytes.NewReader(b))
		if err != nil {
			return err
		}
		enc, _ := ioutil.ReadAll(r)
		_, err = k.c.Write(enc)
		return err
	}
	_, err := k.c.Write(b)
	return err
}

func (k *h4Conn) reader() *bufio.Reader {
	if k.sess != nil {
		if k.dec == nil {
			k.dec = &h4DecReader{br: k.br, sess: k.sess}
		}
		return bufio.NewReader(k.dec)
	}
	return k.br
}

// roundTrip sends a raw request and reads one response (status, header, body)
func (k *h4Conn) roundTrip(method, raw string) (int, nethttp.Header, []byte, error) {
	if err := k.write([]byte(raw)); err != nil {
		return 0, nil, nil, err
	}
	return k.readResponse(method)
}

func (k *h4Conn) readResponse(method string) (int, nethttp.Header, []byte, error) {
	k.c.SetReadDeadline(time.Now().Add(3 * time.Second))
	defer k.c.SetReadDeadline(time.Time{})
	var rd *bufio.Reader
	if k.sess != nil {
		if k.dec == nil {
			k.dec = &h4DecReader{br: k.br, sess: k.sess}
		}
		rd = bufio.NewReader(k.dec)
	} else {
		rd = k.br
	}
	resp, err := nethttp.ReadResponse(rd, &nethttp.Request{Method: method})
	if err != nil {
		return 0, nil, nil, err
	}
	body, err := ioutil.ReadAll(resp.Body)
	if k.sess != nil && rd.Buffered() > 0 {
		// push back what was read ahead
		rest, _ := rd.Peek(rd.Buffered())
		var nb bytes.Buffer
		nb.Write(rest)
		nb.Write(k.dec.buf.Bytes())
		k.dec.buf = nb
	}
	return resp.StatusCode, resp.Header, body, err
}

func h4Req(method, path, ctype string, body []byte) string {
	var b strings.Builder
	fmt.Fprintf(&b, "%s %s HTTP/1.1\r\nHost: lamp.local\r\n", method, path)
	if ctype != "" {
		fmt.Fprintf(&b, "Content-Type: %s\r\n", ctype)
	}
	if body != nil || method == "POST" || method == "PUT" {
		fmt.Fprintf(&b, "Content-Length: %d\r\n", len(body))
	}
	b.WriteString("\r\n")
	b.Write(body)
	return b.String()
}

// verify runs pair-verify as controller c. It returns the error code of M4 (0 = verified).
func (k *h4Conn) verify(c *h4Ctrl) (byte, int, error) {
	priv := curve25519.GeneratePrivateKey()
	pub := curve25519.PublicKey(priv)

	m1 := util.NewTLV8Container()
	m1.SetByte(pair.TagSequence, 1)
	m1.SetBytes(pair.TagPublicKey, pub[:])
	st, _, body, err := k.roundTrip("POST", h4Req("POST", "/pair-verify", "application/pairing+tlv8", m1.BytesBuffer().Bytes()))
	if err != nil || st != 200 {
		return 0xff, st, fmt.Errorf("M2: status %d err %v", st, err)
	}
	m2, err := util.NewTLV8ContainerFromReader(bytes.NewReader(body))
	if err != nil {
		return 0xff, st, err
	}
	var B [32]byte
	copy(B[:], m2.GetBytes(pair.TagPublicKey))
	shared := curve25519.SharedSecret(priv, B)
	encKey, _ := hkdf.Sha512(shared[:], []byte("Pair-Verify-Encrypt-Salt"), []byte("Pair-Verify-Encrypt-Info"))

	var material []byte
	material = append(material, pub[:]...)
	material = append(material, []byte(c.name)...)
	material = append(material, B[:]...)
	sig := ed25519.Sign(c.priv, material)

	sub := util.NewTLV8Container()
	sub.SetString(pair.TagUsername, c.name)
	sub.SetBytes(pair.TagSignature, sig)
	enc, mac, _ := chacha20poly1305.EncryptAndSeal(encKey[:], []byte("PV-Msg03"), sub.BytesBuffer().Bytes(), nil)

	m3 := util.NewTLV8Container()
	m3.SetByte(pair.TagSequence, 3)
	m3.SetBytes(pair.TagEncryptedData, append(enc, mac[:]...))
	st, _, body, err = k.roundTrip("POST", h4Req("POST", "/pair-verify", "application/pairing+tlv8", m3.BytesBuffer().Bytes()))
	if err != nil {
		return 0xff, st, err
	}
	if st != 200 {
		return 0xff, st, nil
	}
	m4, err := util.NewTLV8ContainerFromReader(bytes.NewReader(body))
	if err != nil {
		return 0xff, st, err
	}
	code := m4.GetByte(pair.TagErrCode)
	if code == 0 && m4.GetByte(pair.TagSequence) == 4 {
		k.sess, _ = crypto.NewSecureClientSessionFromSharedKey(shared)
		// let the accessory's pending read switch over (the known M4 ordering race is not the subject here)
		time.Sleep(30 * time.Millisecond)
	}
	return code, st, nil
}

func h4PairingTLV(method byte, name string, key []byte, perm byte) []byte {
	c := util.NewTLV8Container()
	c.SetByte(pair.TagSequence, 1)
	c.SetByte(pair.TagPairingMethod, method)
	c.SetString(pair.TagUsername, name)
	if key != nil {
		c.SetBytes(pair.TagPublicKey, key)
		c.SetByte(pair.TagPermission, perm)
	}
	return c.BytesBuffer().Bytes()
}

func TestH4HarnessSanity(t *testing.T) {
	f := h4Start(t)
	defer f.stop()
	ctrl := h4NewCtrl("ctrl-A")
	f.store(ctrl)

	// unverified: refused
	a := h4Dial(t, f.addr)
	st, _, body, err := a.roundTrip("GET", h4Req("GET", "/accessories", "", nil))
	t.Logf("unverified /accessories: %d %q %v", st, body, err)
	if st != 470 {
		t.Fatalf("want 470")
	}

	k := h4Dial(t, f.addr)
	code, st, err := k.verify(ctrl)
	if err != nil || code != 0 {
		t.Fatalf("verify: code %d status %d err %v", code, st, err)
	}
	st, _, body, err = k.roundTrip("GET", h4Req("GET", "/accessories", "", nil))
	if err != nil || st != 200 || !bytes.Contains(body, []byte(h4Canary)) {
		t.Fatalf("verified /accessories: %d %v %q", st, err, body)
	}
	st, _, body, err = k.roundTrip("GET", h4Req("GET", "/characteristics?id=1.3", "", nil))
	t.Logf("verified GET chars: %d %q %v", st, body, err)
}

// h4Verified dials and pair-verifies as c. The known hand-over race (M4 now and
// then goes out encrypted) is not the subject here: such an attempt is repeated
// on a new connection.
func h4Verified(t *testing.T, f *h4Fixture, c *h4Ctrl) *h4Conn {
	var last string
	for i := 0; i < 10; i++ {
		k := h4Dial(t, f.addr)
		code, st, err := k.verify(c)
		if err == nil && code == 0 && st == 200 {
			return k
		}
		last = fmt.Sprintf("code %d status %d err %v", code, st, err)
		k.c.Close()
	}
	t.Fatalf("pair-verify of %s failed: %s", c.name, last)
	return nil
}

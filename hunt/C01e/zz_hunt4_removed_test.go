package hc

import (
	"bytes"
	"testing"
	"time"
)

// C01, clause "a connection that has not completed pair-verify with a controller
// key STORED ON THE ACCESSORY is refused every protected operation ... changes
// nothing (no characteristic value, application callback, subscription or stored pairing)".
//
// History: controller B pair-verifies while its key is stored. The admin A removes
// B's pairing on its own connection (legitimate controller on another connection).
// From that moment B is a peer without the setup code and without a paired
// long-term key (a fresh pair-verify of B is refused, asserted below), yet every
// request B sends on the connection it still holds is served: it lists the
// accessories, writes a characteristic (application callback runs), keeps getting
// events and finally stores its own key again through /pairings.
func TestH4RemovedControllerKeepsItsConnection(t *testing.T) {
	f := h4Start(t)
	defer f.stop()

	admin := h4NewCtrl("admin-A")
	victim := h4NewCtrl("ctrl-B")
	f.store(admin)
	f.store(victim)

	callbacks := 0
	f.acc.Lightbulb.On.OnValueRemoteUpdate(func(on bool) { callbacks++ })

	b := h4Verified(t, f, victim)
	onID := f.acc.Lightbulb.On.ID
	sub := []byte(`{"characteristics":[{"aid":1,"iid":` + itoa(onID) + `,"ev":true}]}`)
	if st, _, _, err := b.roundTrip("PUT", h4Req("PUT", "/characteristics", "application/hap+json", sub)); err != nil || st != 204 {
		t.Fatalf("B subscribe: %d %v", st, err)
	}

	a := h4Verified(t, f, admin)
	st, _, _, err := a.roundTrip("POST", h4Req("POST", "/pairings", "application/pairing+tlv8", h4PairingTLV(4, victim.name, nil, 0)))
	if err != nil || st != 200 {
		t.Fatalf("A removes B: %d %v", st, err)
	}
	if _, err := f.tr.database.EntityWithName(victim.name); err == nil {
		t.Fatalf("pairing of B is still stored")
	}
	// give the accessory time to tear the connection down (HAP: within 5 s; we are lenient with the demo and only wait briefly,
	// the library has no code which would ever do it)
	time.Sleep(300 * time.Millisecond)

	// B is not paired any more: a fresh pair-verify is refused
	b2 := h4Dial(t, f.addr)
	if code, st, _ := b2.verify(victim); code == 0 && st == 200 {
		t.Fatalf("B can still pair-verify")
	}

	violations := 0

	// 1. listing accessories
	st, _, body, err := b.roundTrip("GET", h4Req("GET", "/accessories", "", nil))
	if err == nil && st == 200 && bytes.Contains(body, []byte(h4Canary)) {
		t.Errorf("removed controller lists the accessories: status %d, canary disclosed", st)
		violations++
	}

	// 2. writing a characteristic
	wr := []byte(`{"characteristics":[{"aid":1,"iid":` + itoa(onID) + `,"value":true}]}`)
	st, _, _, err = b.roundTrip("PUT", h4Req("PUT", "/characteristics", "application/hap+json", wr))
	if f.acc.Lightbulb.On.GetValue() == true || callbacks > 0 {
		t.Errorf("removed controller wrote On: status %d err %v value %v callbacks %d", st, err, f.acc.Lightbulb.On.GetValue(), callbacks)
		violations++
	}

	// 3. events
	f.acc.Lightbulb.On.SetValue(false)
	b.c.SetReadDeadline(time.Now().Add(500 * time.Millisecond))
	buf := make([]byte, 512)
	n, _ := b.reader().Read(buf)
	if n > 0 && bytes.HasPrefix(buf[:n], []byte("EVENT/1.0")) {
		t.Errorf("removed controller still receives events: %q", buf[:n])
		violations++
	}
	b.c.SetReadDeadline(time.Time{})

	// 4. adding a pairing: B stores its own key again
	st, _, _, err = b.roundTrip("POST", h4Req("POST", "/pairings", "application/pairing+tlv8", h4PairingTLV(3, victim.name, victim.pub, 1)))
	if e, derr := f.tr.database.EntityWithName(victim.name); derr == nil {
		t.Errorf("removed controller stored a pairing again: status %d err %v entity %q", st, err, e.Name)
		violations++
		b3 := h4Dial(t, f.addr)
		if code, st, _ := b3.verify(victim); code == 0 && st == 200 {
			t.Errorf("... and pair-verifies on a new connection with it")
		}
	}
	t.Logf("violations: %d", violations)
}

func itoa(u uint64) string {
	if u == 0 {
		return "0"
	}
	var b []byte
	for u > 0 {
		b = append([]byte{byte('0' + u%10)}, b...)
		u /= 10
	}
	return string(b)
}

// Variant of the same clause: the admin replaces the key stored for B (add pairing
// with the same name and a new key). The connection B verified with the OLD key,
// which is not stored on the accessory any more, is still served.
func TestH4ReplacedKeyKeepsItsConnection(t *testing.T) {
	f := h4Start(t)
	defer f.stop()

	admin := h4NewCtrl("admin-A")
	old := h4NewCtrl("ctrl-B")
	f.store(admin)
	f.store(old)

	b := h4Verified(t, f, old)
	a := h4Verified(t, f, admin)
	fresh := h4NewCtrl("ctrl-B")
	st, _, _, err := a.roundTrip("POST", h4Req("POST", "/pairings", "application/pairing+tlv8", h4PairingTLV(3, fresh.name, fresh.pub, 0)))
	if err != nil || st != 200 {
		t.Fatalf("A replaces the key of B: %d %v", st, err)
	}
	if e, err := f.tr.database.EntityWithName("ctrl-B"); err != nil || !bytes.Equal(e.PublicKey, fresh.pub) {
		t.Fatalf("key not replaced")
	}
	// the old key does not verify any more
	b2 := h4Dial(t, f.addr)
	if code, st, _ := b2.verify(old); code == 0 && st == 200 {
		t.Fatalf("old key still verifies")
	}
	st, _, body, err := b.roundTrip("GET", h4Req("GET", "/accessories", "", nil))
	if err == nil && st == 200 && bytes.Contains(body, []byte(h4Canary)) {
		t.Errorf("connection verified with a key that is not stored any more lists the accessories: status %d, canary disclosed", st)
	}
}

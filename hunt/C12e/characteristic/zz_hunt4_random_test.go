package characteristic

import (
	"math/rand"
	"net"
	"strings"
	"testing"
)

func TestZZH4Random(t *testing.T) {
	rnd := rand.New(rand.NewSource(4))
	pick := func() interface{} { return zzH4Values[rnd.Intn(len(zzH4Values))] }
	for _, e := range zzH4All() {
		e := e
		depth := 0
		hook := false
		e.c.OnValueUpdate(func(c *Characteristic, n, o interface{}) {
			if depth < 2 && rnd.Intn(4) == 0 {
				depth++
				c.UpdateValue(pick())
				depth--
			}
		})
		e.c.OnValueUpdateFromConn(func(conn net.Conn, c *Characteristic, n, o interface{}) {
			if depth < 2 && rnd.Intn(4) == 0 {
				depth++
				c.UpdateValueFromConnection(pick(), conn)
				depth--
			}
		})
		bad := 0
		for i := 0; i < 3000 && bad < 3; i++ {
			func() {
				defer func() {
					if r := recover(); r != nil {
						bad++
						t.Errorf("%s step %d panics: %v", e.name, i, r)
					}
				}()
				switch rnd.Intn(6) {
				case 0:
					e.c.UpdateValue(pick())
				case 1:
					e.c.UpdateValueFromConnection(pick(), TestConn)
				case 2:
					if readPerm(e.c.Perms) {
						e.getter()
					}
				case 3:
					e.c.GetValueFromConnection(TestConn)
				case 4:
					if !hook {
						hook = true
						e.c.OnValueGet(func() interface{} { return pick() })
					}
				case 5:
					e.c.GetValue()
				}
				if err := zzH4Check(e.c); err != nil && !strings.Contains(err.Error(), "unsigned holds") {
					bad++
					t.Errorf("%s step %d: %v", e.name, i, err)
				}
			}()
		}
	}
}

package characteristic

// generated table of every zero-argument constructor
type zzH4Entry struct {
	name   string
	c      *Characteristic
	getter func() interface{}
}

func zzH4All() []zzH4Entry {
	var out []zzH4Entry
	{
		x := NewAccessoryFlags()
		out = append(out, zzH4Entry{"NewAccessoryFlags", zzH4Char(x), func() interface{} { return x.GetValue() }})
	}
	{
		x := NewAccessoryIdentifier()
		out = append(out, zzH4Entry{"NewAccessoryIdentifier", zzH4Char(x), func() interface{} { return x.GetValue() }})
	}
	{
		x := NewActive()
		out = append(out, zzH4Entry{"NewActive", zzH4Char(x), func() interface{} { return x.GetValue() }})
	}
	{
		x := NewActiveIdentifier()
		out = append(out, zzH4Entry{"NewActiveIdentifier", zzH4Char(x), func() interface{} { return x.GetValue() }})
	}
	{
		x := NewAdministratorOnlyAccess()
		out = append(out, zzH4Entry{"NewAdministratorOnlyAccess", zzH4Char(x), func() interface{} { return x.GetValue() }})
	}
	{
		x := NewAirParticulateDensity()
		out = append(out, zzH4Entry{"NewAirParticulateDensity", zzH4Char(x), func() interface{} { return x.GetValue() }})
	}
	{
		x := NewAirParticulateSize()
		out = append(out, zzH4Entry{"NewAirParticulateSize", zzH4Char(x), func() interface{} { return x.GetValue() }})
	}
	{
		x := NewAirQuality()
		out = append(out, zzH4Entry{"NewAirQuality", zzH4Char(x), func() interface{} { return x.GetValue() }})
	}
	{
		x := NewAppMatchingIdentifier()
		out = append(out, zzH4Entry{"NewAppMatchingIdentifier", zzH4Char(x), func() interface{} { return x.GetValue() }})
	}
	{
		x := NewAudioFeedback()
		out = append(out, zzH4Entry{"NewAudioFeedback", zzH4Char(x), func() interface{} { return x.GetValue() }})
	}
	{
		x := NewBatteryLevel()
		out = append(out, zzH4Entry{"NewBatteryLevel", zzH4Char(x), func() interface{} { return x.GetValue() }})
	}
	{
		x := NewBrightness()
		out = append(out, zzH4Entry{"NewBrightness", zzH4Char(x), func() interface{} { return x.GetValue() }})
	}
	{
		x := NewCarbonDioxideDetected()
		out = append(out, zzH4Entry{"NewCarbonDioxideDetected", zzH4Char(x), func() interface{} { return x.GetValue() }})
	}
	{
		x := NewCarbonDioxideLevel()
		out = append(out, zzH4Entry{"NewCarbonDioxideLevel", zzH4Char(x), func() interface{} { return x.GetValue() }})
	}
	{
		x := NewCarbonDioxidePeakLevel()
		out = append(out, zzH4Entry{"NewCarbonDioxidePeakLevel", zzH4Char(x), func() interface{} { return x.GetValue() }})
	}
	{
		x := NewCarbonMonoxideDetected()
		out = append(out, zzH4Entry{"NewCarbonMonoxideDetected", zzH4Char(x), func() interface{} { return x.GetValue() }})
	}
	{
		x := NewCarbonMonoxideLevel()
		out = append(out, zzH4Entry{"NewCarbonMonoxideLevel", zzH4Char(x), func() interface{} { return x.GetValue() }})
	}
	{
		x := NewCarbonMonoxidePeakLevel()
		out = append(out, zzH4Entry{"NewCarbonMonoxidePeakLevel", zzH4Char(x), func() interface{} { return x.GetValue() }})
	}
	{
		x := NewCategory()
		out = append(out, zzH4Entry{"NewCategory", zzH4Char(x), func() interface{} { return x.GetValue() }})
	}
	{
		x := NewChargingState()
		out = append(out, zzH4Entry{"NewChargingState", zzH4Char(x), func() interface{} { return x.GetValue() }})
	}
	{
		x := NewClosedCaptions()
		out = append(out, zzH4Entry{"NewClosedCaptions", zzH4Char(x), func() interface{} { return x.GetValue() }})
	}
	{
		x := NewColorTemperature()
		out = append(out, zzH4Entry{"NewColorTemperature", zzH4Char(x), func() interface{} { return x.GetValue() }})
	}
	{
		x := NewConfigureBridgedAccessory()
		out = append(out, zzH4Entry{"NewConfigureBridgedAccessory", zzH4Char(x), func() interface{} { return x.GetValue() }})
	}
	{
		x := NewConfigureBridgedAccessoryStatus()
		out = append(out, zzH4Entry{"NewConfigureBridgedAccessoryStatus", zzH4Char(x), func() interface{} { return x.GetValue() }})
	}
	{
		x := NewConfiguredName()
		out = append(out, zzH4Entry{"NewConfiguredName", zzH4Char(x), func() interface{} { return x.GetValue() }})
	}
	{
		x := NewContactSensorState()
		out = append(out, zzH4Entry{"NewContactSensorState", zzH4Char(x), func() interface{} { return x.GetValue() }})
	}
	{
		x := NewCoolingThresholdTemperature()
		out = append(out, zzH4Entry{"NewCoolingThresholdTemperature", zzH4Char(x), func() interface{} { return x.GetValue() }})
	}
	{
		x := NewCurrentAirPurifierState()
		out = append(out, zzH4Entry{"NewCurrentAirPurifierState", zzH4Char(x), func() interface{} { return x.GetValue() }})
	}
	{
		x := NewCurrentAmbientLightLevel()
		out = append(out, zzH4Entry{"NewCurrentAmbientLightLevel", zzH4Char(x), func() interface{} { return x.GetValue() }})
	}
	{
		x := NewCurrentDoorState()
		out = append(out, zzH4Entry{"NewCurrentDoorState", zzH4Char(x), func() interface{} { return x.GetValue() }})
	}
	{
		x := NewCurrentFanState()
		out = append(out, zzH4Entry{"NewCurrentFanState", zzH4Char(x), func() interface{} { return x.GetValue() }})
	}
	{
		x := NewCurrentHeaterCoolerState()
		out = append(out, zzH4Entry{"NewCurrentHeaterCoolerState", zzH4Char(x), func() interface{} { return x.GetValue() }})
	}
	{
		x := NewCurrentHeatingCoolingState()
		out = append(out, zzH4Entry{"NewCurrentHeatingCoolingState", zzH4Char(x), func() interface{} { return x.GetValue() }})
	}
	{
		x := NewCurrentHorizontalTiltAngle()
		out = append(out, zzH4Entry{"NewCurrentHorizontalTiltAngle", zzH4Char(x), func() interface{} { return x.GetValue() }})
	}
	{
		x := NewCurrentHumidifierDehumidifierState()
		out = append(out, zzH4Entry{"NewCurrentHumidifierDehumidifierState", zzH4Char(x), func() interface{} { return x.GetValue() }})
	}
	{
		x := NewCurrentMediaState()
		out = append(out, zzH4Entry{"NewCurrentMediaState", zzH4Char(x), func() interface{} { return x.GetValue() }})
	}
	{
		x := NewCurrentPosition()
		out = append(out, zzH4Entry{"NewCurrentPosition", zzH4Char(x), func() interface{} { return x.GetValue() }})
	}
	{
		x := NewCurrentRelativeHumidity()
		out = append(out, zzH4Entry{"NewCurrentRelativeHumidity", zzH4Char(x), func() interface{} { return x.GetValue() }})
	}
	{
		x := NewCurrentSlatState()
		out = append(out, zzH4Entry{"NewCurrentSlatState", zzH4Char(x), func() interface{} { return x.GetValue() }})
	}
	{
		x := NewCurrentTemperature()
		out = append(out, zzH4Entry{"NewCurrentTemperature", zzH4Char(x), func() interface{} { return x.GetValue() }})
	}
	{
		x := NewCurrentTiltAngle()
		out = append(out, zzH4Entry{"NewCurrentTiltAngle", zzH4Char(x), func() interface{} { return x.GetValue() }})
	}
	{
		x := NewCurrentTime()
		out = append(out, zzH4Entry{"NewCurrentTime", zzH4Char(x), func() interface{} { return x.GetValue() }})
	}
	{
		x := NewCurrentTransport()
		out = append(out, zzH4Entry{"NewCurrentTransport", zzH4Char(x), func() interface{} { return x.GetValue() }})
	}
	{
		x := NewCurrentVerticalTiltAngle()
		out = append(out, zzH4Entry{"NewCurrentVerticalTiltAngle", zzH4Char(x), func() interface{} { return x.GetValue() }})
	}
	{
		x := NewCurrentVisibilityState()
		out = append(out, zzH4Entry{"NewCurrentVisibilityState", zzH4Char(x), func() interface{} { return x.GetValue() }})
	}
	{
		x := NewDayOfTheWeek()
		out = append(out, zzH4Entry{"NewDayOfTheWeek", zzH4Char(x), func() interface{} { return x.GetValue() }})
	}
	{
		x := NewDigitalZoom()
		out = append(out, zzH4Entry{"NewDigitalZoom", zzH4Char(x), func() interface{} { return x.GetValue() }})
	}
	{
		x := NewDiscoverBridgedAccessories()
		out = append(out, zzH4Entry{"NewDiscoverBridgedAccessories", zzH4Char(x), func() interface{} { return x.GetValue() }})
	}
	{
		x := NewDiscoveredBridgedAccessories()
		out = append(out, zzH4Entry{"NewDiscoveredBridgedAccessories", zzH4Char(x), func() interface{} { return x.GetValue() }})
	}
	{
		x := NewDisplayOrder()
		out = append(out, zzH4Entry{"NewDisplayOrder", zzH4Char(x), func() interface{} { return x.GetValue() }})
	}
	{
		x := NewFilterChangeIndication()
		out = append(out, zzH4Entry{"NewFilterChangeIndication", zzH4Char(x), func() interface{} { return x.GetValue() }})
	}
	{
		x := NewFilterLifeLevel()
		out = append(out, zzH4Entry{"NewFilterLifeLevel", zzH4Char(x), func() interface{} { return x.GetValue() }})
	}
	{
		x := NewFirmwareRevision()
		out = append(out, zzH4Entry{"NewFirmwareRevision", zzH4Char(x), func() interface{} { return x.GetValue() }})
	}
	{
		x := NewHardwareRevision()
		out = append(out, zzH4Entry{"NewHardwareRevision", zzH4Char(x), func() interface{} { return x.GetValue() }})
	}
	{
		x := NewHeatingThresholdTemperature()
		out = append(out, zzH4Entry{"NewHeatingThresholdTemperature", zzH4Char(x), func() interface{} { return x.GetValue() }})
	}
	{
		x := NewHoldPosition()
		out = append(out, zzH4Entry{"NewHoldPosition", zzH4Char(x), func() interface{} { return x.GetValue() }})
	}
	{
		x := NewHue()
		out = append(out, zzH4Entry{"NewHue", zzH4Char(x), func() interface{} { return x.GetValue() }})
	}
	{
		x := NewIdentifier()
		out = append(out, zzH4Entry{"NewIdentifier", zzH4Char(x), func() interface{} { return x.GetValue() }})
	}
	{
		x := NewIdentify()
		out = append(out, zzH4Entry{"NewIdentify", zzH4Char(x), func() interface{} { return x.GetValue() }})
	}
	{
		x := NewImageMirroring()
		out = append(out, zzH4Entry{"NewImageMirroring", zzH4Char(x), func() interface{} { return x.GetValue() }})
	}
	{
		x := NewImageRotation()
		out = append(out, zzH4Entry{"NewImageRotation", zzH4Char(x), func() interface{} { return x.GetValue() }})
	}
	{
		x := NewInUse()
		out = append(out, zzH4Entry{"NewInUse", zzH4Char(x), func() interface{} { return x.GetValue() }})
	}
	{
		x := NewInputDeviceType()
		out = append(out, zzH4Entry{"NewInputDeviceType", zzH4Char(x), func() interface{} { return x.GetValue() }})
	}
	{
		x := NewInputSourceType()
		out = append(out, zzH4Entry{"NewInputSourceType", zzH4Char(x), func() interface{} { return x.GetValue() }})
	}
	{
		x := NewIsConfigured()
		out = append(out, zzH4Entry{"NewIsConfigured", zzH4Char(x), func() interface{} { return x.GetValue() }})
	}
	{
		x := NewLeakDetected()
		out = append(out, zzH4Entry{"NewLeakDetected", zzH4Char(x), func() interface{} { return x.GetValue() }})
	}
	{
		x := NewLinkQuality()
		out = append(out, zzH4Entry{"NewLinkQuality", zzH4Char(x), func() interface{} { return x.GetValue() }})
	}
	{
		x := NewLockControlPoint()
		out = append(out, zzH4Entry{"NewLockControlPoint", zzH4Char(x), func() interface{} { return x.GetValue() }})
	}
	{
		x := NewLockCurrentState()
		out = append(out, zzH4Entry{"NewLockCurrentState", zzH4Char(x), func() interface{} { return x.GetValue() }})
	}
	{
		x := NewLockLastKnownAction()
		out = append(out, zzH4Entry{"NewLockLastKnownAction", zzH4Char(x), func() interface{} { return x.GetValue() }})
	}
	{
		x := NewLockManagementAutoSecurityTimeout()
		out = append(out, zzH4Entry{"NewLockManagementAutoSecurityTimeout", zzH4Char(x), func() interface{} { return x.GetValue() }})
	}
	{
		x := NewLockPhysicalControls()
		out = append(out, zzH4Entry{"NewLockPhysicalControls", zzH4Char(x), func() interface{} { return x.GetValue() }})
	}
	{
		x := NewLockTargetState()
		out = append(out, zzH4Entry{"NewLockTargetState", zzH4Char(x), func() interface{} { return x.GetValue() }})
	}
	{
		x := NewLogs()
		out = append(out, zzH4Entry{"NewLogs", zzH4Char(x), func() interface{} { return x.GetValue() }})
	}
	{
		x := NewManufacturer()
		out = append(out, zzH4Entry{"NewManufacturer", zzH4Char(x), func() interface{} { return x.GetValue() }})
	}
	{
		x := NewModel()
		out = append(out, zzH4Entry{"NewModel", zzH4Char(x), func() interface{} { return x.GetValue() }})
	}
	{
		x := NewMotionDetected()
		out = append(out, zzH4Entry{"NewMotionDetected", zzH4Char(x), func() interface{} { return x.GetValue() }})
	}
	{
		x := NewMute()
		out = append(out, zzH4Entry{"NewMute", zzH4Char(x), func() interface{} { return x.GetValue() }})
	}
	{
		x := NewName()
		out = append(out, zzH4Entry{"NewName", zzH4Char(x), func() interface{} { return x.GetValue() }})
	}
	{
		x := NewNightVision()
		out = append(out, zzH4Entry{"NewNightVision", zzH4Char(x), func() interface{} { return x.GetValue() }})
	}
	{
		x := NewNitrogenDioxideDensity()
		out = append(out, zzH4Entry{"NewNitrogenDioxideDensity", zzH4Char(x), func() interface{} { return x.GetValue() }})
	}
	{
		x := NewObstructionDetected()
		out = append(out, zzH4Entry{"NewObstructionDetected", zzH4Char(x), func() interface{} { return x.GetValue() }})
	}
	{
		x := NewOccupancyDetected()
		out = append(out, zzH4Entry{"NewOccupancyDetected", zzH4Char(x), func() interface{} { return x.GetValue() }})
	}
	{
		x := NewOn()
		out = append(out, zzH4Entry{"NewOn", zzH4Char(x), func() interface{} { return x.GetValue() }})
	}
	{
		x := NewOpticalZoom()
		out = append(out, zzH4Entry{"NewOpticalZoom", zzH4Char(x), func() interface{} { return x.GetValue() }})
	}
	{
		x := NewOutletInUse()
		out = append(out, zzH4Entry{"NewOutletInUse", zzH4Char(x), func() interface{} { return x.GetValue() }})
	}
	{
		x := NewOzoneDensity()
		out = append(out, zzH4Entry{"NewOzoneDensity", zzH4Char(x), func() interface{} { return x.GetValue() }})
	}
	{
		x := NewPM10Density()
		out = append(out, zzH4Entry{"NewPM10Density", zzH4Char(x), func() interface{} { return x.GetValue() }})
	}
	{
		x := NewPairSetup()
		out = append(out, zzH4Entry{"NewPairSetup", zzH4Char(x), func() interface{} { return x.GetValue() }})
	}
	{
		x := NewPairVerify()
		out = append(out, zzH4Entry{"NewPairVerify", zzH4Char(x), func() interface{} { return x.GetValue() }})
	}
	{
		x := NewPairingFeatures()
		out = append(out, zzH4Entry{"NewPairingFeatures", zzH4Char(x), func() interface{} { return x.GetValue() }})
	}
	{
		x := NewPairingPairings()
		out = append(out, zzH4Entry{"NewPairingPairings", zzH4Char(x), func() interface{} { return x.GetValue() }})
	}
	{
		x := NewPictureMode()
		out = append(out, zzH4Entry{"NewPictureMode", zzH4Char(x), func() interface{} { return x.GetValue() }})
	}
	{
		x := NewPositionState()
		out = append(out, zzH4Entry{"NewPositionState", zzH4Char(x), func() interface{} { return x.GetValue() }})
	}
	{
		x := NewPowerModeSelection()
		out = append(out, zzH4Entry{"NewPowerModeSelection", zzH4Char(x), func() interface{} { return x.GetValue() }})
	}
	{
		x := NewProgramMode()
		out = append(out, zzH4Entry{"NewProgramMode", zzH4Char(x), func() interface{} { return x.GetValue() }})
	}
	{
		x := NewProgrammableSwitchEvent()
		out = append(out, zzH4Entry{"NewProgrammableSwitchEvent", zzH4Char(x), func() interface{} { return x.GetValue() }})
	}
	{
		x := NewProgrammableSwitchOutputState()
		out = append(out, zzH4Entry{"NewProgrammableSwitchOutputState", zzH4Char(x), func() interface{} { return x.GetValue() }})
	}
	{
		x := NewReachable()
		out = append(out, zzH4Entry{"NewReachable", zzH4Char(x), func() interface{} { return x.GetValue() }})
	}
	{
		x := NewRelativeHumidityDehumidifierThreshold()
		out = append(out, zzH4Entry{"NewRelativeHumidityDehumidifierThreshold", zzH4Char(x), func() interface{} { return x.GetValue() }})
	}
	{
		x := NewRelativeHumidityHumidifierThreshold()
		out = append(out, zzH4Entry{"NewRelativeHumidityHumidifierThreshold", zzH4Char(x), func() interface{} { return x.GetValue() }})
	}
	{
		x := NewRemainingDuration()
		out = append(out, zzH4Entry{"NewRemainingDuration", zzH4Char(x), func() interface{} { return x.GetValue() }})
	}
	{
		x := NewRemoteKey()
		out = append(out, zzH4Entry{"NewRemoteKey", zzH4Char(x), func() interface{} { return x.GetValue() }})
	}
	{
		x := NewResetFilterIndication()
		out = append(out, zzH4Entry{"NewResetFilterIndication", zzH4Char(x), func() interface{} { return x.GetValue() }})
	}
	{
		x := NewRotationDirection()
		out = append(out, zzH4Entry{"NewRotationDirection", zzH4Char(x), func() interface{} { return x.GetValue() }})
	}
	{
		x := NewRotationSpeed()
		out = append(out, zzH4Entry{"NewRotationSpeed", zzH4Char(x), func() interface{} { return x.GetValue() }})
	}
	{
		x := NewSaturation()
		out = append(out, zzH4Entry{"NewSaturation", zzH4Char(x), func() interface{} { return x.GetValue() }})
	}
	{
		x := NewSecuritySystemAlarmType()
		out = append(out, zzH4Entry{"NewSecuritySystemAlarmType", zzH4Char(x), func() interface{} { return x.GetValue() }})
	}
	{
		x := NewSecuritySystemCurrentState()
		out = append(out, zzH4Entry{"NewSecuritySystemCurrentState", zzH4Char(x), func() interface{} { return x.GetValue() }})
	}
	{
		x := NewSecuritySystemTargetState()
		out = append(out, zzH4Entry{"NewSecuritySystemTargetState", zzH4Char(x), func() interface{} { return x.GetValue() }})
	}
	{
		x := NewSelectedCameraRecordingConfiguration()
		out = append(out, zzH4Entry{"NewSelectedCameraRecordingConfiguration", zzH4Char(x), func() interface{} { return x.GetValue() }})
	}
	{
		x := NewSelectedRTPStreamConfiguration()
		out = append(out, zzH4Entry{"NewSelectedRTPStreamConfiguration", zzH4Char(x), func() interface{} { return x.GetValue() }})
	}
	{
		x := NewSelectedStreamConfiguration()
		out = append(out, zzH4Entry{"NewSelectedStreamConfiguration", zzH4Char(x), func() interface{} { return x.GetValue() }})
	}
	{
		x := NewSerialNumber()
		out = append(out, zzH4Entry{"NewSerialNumber", zzH4Char(x), func() interface{} { return x.GetValue() }})
	}
	{
		x := NewServiceLabelIndex()
		out = append(out, zzH4Entry{"NewServiceLabelIndex", zzH4Char(x), func() interface{} { return x.GetValue() }})
	}
	{
		x := NewServiceLabelNamespace()
		out = append(out, zzH4Entry{"NewServiceLabelNamespace", zzH4Char(x), func() interface{} { return x.GetValue() }})
	}
	{
		x := NewSetDuration()
		out = append(out, zzH4Entry{"NewSetDuration", zzH4Char(x), func() interface{} { return x.GetValue() }})
	}
	{
		x := NewSetupEndpoints()
		out = append(out, zzH4Entry{"NewSetupEndpoints", zzH4Char(x), func() interface{} { return x.GetValue() }})
	}
	{
		x := NewSlatType()
		out = append(out, zzH4Entry{"NewSlatType", zzH4Char(x), func() interface{} { return x.GetValue() }})
	}
	{
		x := NewSleepDiscoveryMode()
		out = append(out, zzH4Entry{"NewSleepDiscoveryMode", zzH4Char(x), func() interface{} { return x.GetValue() }})
	}
	{
		x := NewSmokeDetected()
		out = append(out, zzH4Entry{"NewSmokeDetected", zzH4Char(x), func() interface{} { return x.GetValue() }})
	}
	{
		x := NewSoftwareRevision()
		out = append(out, zzH4Entry{"NewSoftwareRevision", zzH4Char(x), func() interface{} { return x.GetValue() }})
	}
	{
		x := NewStatusActive()
		out = append(out, zzH4Entry{"NewStatusActive", zzH4Char(x), func() interface{} { return x.GetValue() }})
	}
	{
		x := NewStatusFault()
		out = append(out, zzH4Entry{"NewStatusFault", zzH4Char(x), func() interface{} { return x.GetValue() }})
	}
	{
		x := NewStatusJammed()
		out = append(out, zzH4Entry{"NewStatusJammed", zzH4Char(x), func() interface{} { return x.GetValue() }})
	}
	{
		x := NewStatusLowBattery()
		out = append(out, zzH4Entry{"NewStatusLowBattery", zzH4Char(x), func() interface{} { return x.GetValue() }})
	}
	{
		x := NewStatusTampered()
		out = append(out, zzH4Entry{"NewStatusTampered", zzH4Char(x), func() interface{} { return x.GetValue() }})
	}
	{
		x := NewStreamingStatus()
		out = append(out, zzH4Entry{"NewStreamingStatus", zzH4Char(x), func() interface{} { return x.GetValue() }})
	}
	{
		x := NewSulphurDioxideDensity()
		out = append(out, zzH4Entry{"NewSulphurDioxideDensity", zzH4Char(x), func() interface{} { return x.GetValue() }})
	}
	{
		x := NewSupportedAudioRecordingConfiguration()
		out = append(out, zzH4Entry{"NewSupportedAudioRecordingConfiguration", zzH4Char(x), func() interface{} { return x.GetValue() }})
	}
	{
		x := NewSupportedAudioStreamConfiguration()
		out = append(out, zzH4Entry{"NewSupportedAudioStreamConfiguration", zzH4Char(x), func() interface{} { return x.GetValue() }})
	}
	{
		x := NewSupportedCameraRecordingConfiguration()
		out = append(out, zzH4Entry{"NewSupportedCameraRecordingConfiguration", zzH4Char(x), func() interface{} { return x.GetValue() }})
	}
	{
		x := NewSupportedRTPConfiguration()
		out = append(out, zzH4Entry{"NewSupportedRTPConfiguration", zzH4Char(x), func() interface{} { return x.GetValue() }})
	}
	{
		x := NewSupportedVideoRecordingConfiguration()
		out = append(out, zzH4Entry{"NewSupportedVideoRecordingConfiguration", zzH4Char(x), func() interface{} { return x.GetValue() }})
	}
	{
		x := NewSupportedVideoStreamConfiguration()
		out = append(out, zzH4Entry{"NewSupportedVideoStreamConfiguration", zzH4Char(x), func() interface{} { return x.GetValue() }})
	}
	{
		x := NewSwingMode()
		out = append(out, zzH4Entry{"NewSwingMode", zzH4Char(x), func() interface{} { return x.GetValue() }})
	}
	{
		x := NewTargetAirPurifierState()
		out = append(out, zzH4Entry{"NewTargetAirPurifierState", zzH4Char(x), func() interface{} { return x.GetValue() }})
	}
	{
		x := NewTargetAirQuality()
		out = append(out, zzH4Entry{"NewTargetAirQuality", zzH4Char(x), func() interface{} { return x.GetValue() }})
	}
	{
		x := NewTargetDoorState()
		out = append(out, zzH4Entry{"NewTargetDoorState", zzH4Char(x), func() interface{} { return x.GetValue() }})
	}
	{
		x := NewTargetFanState()
		out = append(out, zzH4Entry{"NewTargetFanState", zzH4Char(x), func() interface{} { return x.GetValue() }})
	}
	{
		x := NewTargetHeaterCoolerState()
		out = append(out, zzH4Entry{"NewTargetHeaterCoolerState", zzH4Char(x), func() interface{} { return x.GetValue() }})
	}
	{
		x := NewTargetHeatingCoolingState()
		out = append(out, zzH4Entry{"NewTargetHeatingCoolingState", zzH4Char(x), func() interface{} { return x.GetValue() }})
	}
	{
		x := NewTargetHorizontalTiltAngle()
		out = append(out, zzH4Entry{"NewTargetHorizontalTiltAngle", zzH4Char(x), func() interface{} { return x.GetValue() }})
	}
	{
		x := NewTargetHumidifierDehumidifierState()
		out = append(out, zzH4Entry{"NewTargetHumidifierDehumidifierState", zzH4Char(x), func() interface{} { return x.GetValue() }})
	}
	{
		x := NewTargetMediaState()
		out = append(out, zzH4Entry{"NewTargetMediaState", zzH4Char(x), func() interface{} { return x.GetValue() }})
	}
	{
		x := NewTargetPosition()
		out = append(out, zzH4Entry{"NewTargetPosition", zzH4Char(x), func() interface{} { return x.GetValue() }})
	}
	{
		x := NewTargetRelativeHumidity()
		out = append(out, zzH4Entry{"NewTargetRelativeHumidity", zzH4Char(x), func() interface{} { return x.GetValue() }})
	}
	{
		x := NewTargetSlatState()
		out = append(out, zzH4Entry{"NewTargetSlatState", zzH4Char(x), func() interface{} { return x.GetValue() }})
	}
	{
		x := NewTargetTemperature()
		out = append(out, zzH4Entry{"NewTargetTemperature", zzH4Char(x), func() interface{} { return x.GetValue() }})
	}
	{
		x := NewTargetTiltAngle()
		out = append(out, zzH4Entry{"NewTargetTiltAngle", zzH4Char(x), func() interface{} { return x.GetValue() }})
	}
	{
		x := NewTargetVerticalTiltAngle()
		out = append(out, zzH4Entry{"NewTargetVerticalTiltAngle", zzH4Char(x), func() interface{} { return x.GetValue() }})
	}
	{
		x := NewTargetVisibilityState()
		out = append(out, zzH4Entry{"NewTargetVisibilityState", zzH4Char(x), func() interface{} { return x.GetValue() }})
	}
	{
		x := NewTemperatureDisplayUnits()
		out = append(out, zzH4Entry{"NewTemperatureDisplayUnits", zzH4Char(x), func() interface{} { return x.GetValue() }})
	}
	{
		x := NewTimeUpdate()
		out = append(out, zzH4Entry{"NewTimeUpdate", zzH4Char(x), func() interface{} { return x.GetValue() }})
	}
	{
		x := NewTunnelConnectionTimeout()
		out = append(out, zzH4Entry{"NewTunnelConnectionTimeout", zzH4Char(x), func() interface{} { return x.GetValue() }})
	}
	{
		x := NewTunneledAccessoryAdvertising()
		out = append(out, zzH4Entry{"NewTunneledAccessoryAdvertising", zzH4Char(x), func() interface{} { return x.GetValue() }})
	}
	{
		x := NewTunneledAccessoryConnected()
		out = append(out, zzH4Entry{"NewTunneledAccessoryConnected", zzH4Char(x), func() interface{} { return x.GetValue() }})
	}
	{
		x := NewTunneledAccessoryStateNumber()
		out = append(out, zzH4Entry{"NewTunneledAccessoryStateNumber", zzH4Char(x), func() interface{} { return x.GetValue() }})
	}
	{
		x := NewVOCDensity()
		out = append(out, zzH4Entry{"NewVOCDensity", zzH4Char(x), func() interface{} { return x.GetValue() }})
	}
	{
		x := NewValveType()
		out = append(out, zzH4Entry{"NewValveType", zzH4Char(x), func() interface{} { return x.GetValue() }})
	}
	{
		x := NewVersion()
		out = append(out, zzH4Entry{"NewVersion", zzH4Char(x), func() interface{} { return x.GetValue() }})
	}
	{
		x := NewVolume()
		out = append(out, zzH4Entry{"NewVolume", zzH4Char(x), func() interface{} { return x.GetValue() }})
	}
	{
		x := NewVolumeControlType()
		out = append(out, zzH4Entry{"NewVolumeControlType", zzH4Char(x), func() interface{} { return x.GetValue() }})
	}
	{
		x := NewVolumeSelector()
		out = append(out, zzH4Entry{"NewVolumeSelector", zzH4Char(x), func() interface{} { return x.GetValue() }})
	}
	{
		x := NewWaterLevel()
		out = append(out, zzH4Entry{"NewWaterLevel", zzH4Char(x), func() interface{} { return x.GetValue() }})
	}
	{
		x := NewWifiCapabilities()
		out = append(out, zzH4Entry{"NewWifiCapabilities", zzH4Char(x), func() interface{} { return x.GetValue() }})
	}
	{
		x := NewWifiConfigurationControl()
		out = append(out, zzH4Entry{"NewWifiConfigurationControl", zzH4Char(x), func() interface{} { return x.GetValue() }})
	}
	return out
}

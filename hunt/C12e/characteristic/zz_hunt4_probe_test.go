package characteristic

import (
	"encoding/json"
	"fmt"
	"reflect"
	"testing"
)

func zzH4Char(x interface{}) *Characteristic {
	v := reflect.ValueOf(x)
	for {
		if c, ok := v.Interface().(*Characteristic); ok {
			return c
		}
		if v.Kind() == reflect.Ptr {
			v = v.Elem()
		}
		// first embedded field
		v = v.Field(0)
	}
}

func zzH4Check(c *Characteristic) error {
	v := c.Value
	if v == nil {
		if readPerm(c.Perms) {
			return fmt.Errorf("nil value on readable")
		}
		return nil
	}
	switch c.Format {
	case FormatFloat:
		f, ok := v.(float64)
		if !ok {
			return fmt.Errorf("float holds %T", v)
		}
		if c.MinValue != nil {
			m, ok := c.MinValue.(float64)
			if !ok {
				return fmt.Errorf("min is %T", c.MinValue)
			}
			if f < m {
				return fmt.Errorf("%v < min %v", f, m)
			}
		}
		if c.MaxValue != nil {
			m, ok := c.MaxValue.(float64)
			if !ok {
				return fmt.Errorf("max is %T", c.MaxValue)
			}
			if f > m {
				return fmt.Errorf("%v > max %v", f, m)
			}
		}
		if c.StepValue != nil {
			if _, ok := c.StepValue.(float64); !ok {
				return fmt.Errorf("step is %T", c.StepValue)
			}
		}
	case FormatUInt8, FormatUInt16, FormatUInt32, FormatUInt64, FormatInt32:
		f, ok := v.(int)
		if !ok {
			return fmt.Errorf("int holds %T", v)
		}
		if c.MinValue != nil {
			m, ok := c.MinValue.(int)
			if !ok {
				return fmt.Errorf("min is %T", c.MinValue)
			}
			if f < m {
				return fmt.Errorf("%v < min %v", f, m)
			}
		}
		if c.MaxValue != nil {
			m, ok := c.MaxValue.(int)
			if !ok {
				return fmt.Errorf("max is %T", c.MaxValue)
			}
			if f > m {
				return fmt.Errorf("%v > max %v", f, m)
			}
		}
		if c.StepValue != nil {
			if _, ok := c.StepValue.(int); !ok {
				return fmt.Errorf("step is %T", c.StepValue)
			}
		}
		if c.Format != FormatInt32 && f < 0 {
			return fmt.Errorf("unsigned holds %v", f)
		}
	case FormatBool:
		if _, ok := v.(bool); !ok {
			return fmt.Errorf("bool holds %T", v)
		}
	case FormatString, FormatTLV8, FormatData:
		if _, ok := v.(string); !ok {
			return fmt.Errorf("string holds %T", v)
		}
	default:
		return fmt.Errorf("unknown format %q", c.Format)
	}
	if _, err := json.Marshal(c); err != nil {
		return err
	}
	return nil
}

func TestZZH4Fresh(t *testing.T) {
	for _, e := range zzH4All() {
		if err := zzH4Check(e.c); err != nil {
			t.Errorf("%s fresh: %v", e.name, err)
		}
		func() {
			defer func() {
				if r := recover(); r != nil {
					t.Errorf("%s getter panics: %v (perms %v)", e.name, r, e.c.Perms)
				}
			}()
			e.getter()
		}()
	}
}

var zzH4Values = []interface{}{
	nil, true, false, 0.0, -0.0, 1.0, -1.0, 0.5, -0.5, 2.5, 1e3, -1e3, 255.0, 256.0, 65535.0, 65536.0, 4294967295.0, 4294967296.0, 2147483647.0, 2147483648.0, -2147483648.0, -2147483649.0,
	9.3e18, -9.3e18, 1.9e19, 1e300, -1e300, 5e-324, 1e-300,
	"", "abc", "1", "-1", "1.5", "1e3", "true", "NaN", "Inf", "-Inf", "1e999", "0x10", " 1", "9223372036854775808", "18446744073709551616", "-9223372036854775809",
	[]interface{}{}, []interface{}{1.0, "a"}, map[string]interface{}{}, map[string]interface{}{"a": 1.0, "b": []interface{}{nil}},
	1, -1, int8(-3), uint8(200), int64(-1 << 63), uint64(1<<64 - 1), float32(1.5), uint(7), int32(-5), uint32(1 << 31), int16(-7), uint16(9),
}

func TestZZH4Updates(t *testing.T) {
	for _, remote := range []bool{false, true} {
		for _, e := range zzH4All() {
			for i, v := range zzH4Values {
				func() {
					defer func() {
						if r := recover(); r != nil {
							t.Errorf("%s update %d %#v remote=%v panics: %v", e.name, i, v, remote, r)
						}
					}()
					if remote {
						e.c.UpdateValueFromConnection(v, TestConn)
					} else {
						e.c.UpdateValue(v)
					}
					if err := zzH4Check(e.c); err != nil {
						t.Errorf("%s after %#v (%T) remote=%v: %v", e.name, v, v, remote, err)
					}
					if readPerm(e.c.Perms) {
						e.getter()
					}
					// repeat
					if remote {
						e.c.UpdateValueFromConnection(v, TestConn)
					} else {
						e.c.UpdateValue(v)
					}
				}()
			}
		}
	}
}

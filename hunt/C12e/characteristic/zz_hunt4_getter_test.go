package characteristic

import "testing"

// Clause of C12 shown broken: "Consequently the typed getters never fail."
//
// BORDERLINE: the library documents Value == nil for write-only characteristics
// (characteristic.go, comment on the Value field), so the nil is intended; what is
// not handled is that the typed getters assert the dynamic type of that nil.
//
// (a) the eight write-only constructors: the typed getter panics right after
//
//	construction and still after a controller wrote a well-typed value;
//
// (b) the five generic constructors (NewInt, NewFloat, NewString, NewBool, NewBytes):
//
//	readable (PermsAll since fix efa5ae7) but without a value until the first
//	update, the typed getter panics on the fresh object.
func zzH4MustNotPanic(t *testing.T, name string, fn func()) {
	t.Helper()
	defer func() {
		if r := recover(); r != nil {
			t.Errorf("%s: typed getter failed: %v", name, r)
		}
	}()
	fn()
}

func TestZZH4TypedGetterOnWriteOnly(t *testing.T) {
	id := NewIdentify()
	zzH4MustNotPanic(t, "NewIdentify fresh", func() { id.GetValue() })
	id.UpdateValueFromConnection(true, TestConn) // a controller identifies the accessory
	zzH4MustNotPanic(t, "NewIdentify after remote write of true", func() { id.GetValue() })

	rk := NewRemoteKey()
	rk.UpdateValueFromConnection(float64(4), TestConn)
	zzH4MustNotPanic(t, "NewRemoteKey after remote write of 4", func() { rk.GetValue() })

	lcp := NewLockControlPoint()
	lcp.UpdateValueFromConnection("AQEA", TestConn)
	zzH4MustNotPanic(t, "NewLockControlPoint after remote write", func() { lcp.GetValue() })

	zzH4MustNotPanic(t, "NewHoldPosition", func() { NewHoldPosition().GetValue() })
	zzH4MustNotPanic(t, "NewPowerModeSelection", func() { NewPowerModeSelection().GetValue() })
	zzH4MustNotPanic(t, "NewResetFilterIndication", func() { NewResetFilterIndication().GetValue() })
	zzH4MustNotPanic(t, "NewVolumeSelector", func() { NewVolumeSelector().GetValue() })
	zzH4MustNotPanic(t, "NewConfigureBridgedAccessory", func() { NewConfigureBridgedAccessory().GetValue() })
}

func TestZZH4TypedGetterOnFreshGeneric(t *testing.T) {
	zzH4MustNotPanic(t, "NewInt", func() { NewInt("X").GetValue() })
	zzH4MustNotPanic(t, "NewFloat", func() { NewFloat("X").GetValue() })
	zzH4MustNotPanic(t, "NewString", func() { NewString("X").GetValue() })
	zzH4MustNotPanic(t, "NewBool", func() { NewBool("X").GetValue() })
	zzH4MustNotPanic(t, "NewBytes", func() { NewBytes("X").GetValue() })
}

package http

import (
	"encoding/json"
	"fmt"
	"net/http"
	"net/http/httptest"
	"reflect"
	"sort"
	"strings"
	"sync"
	"testing"

	"github.com/brutella/hc/accessory"
	"github.com/brutella/hc/characteristic"
	"github.com/brutella/hc/hap"
	"github.com/brutella/hc/service"
)

func zzH4Char(x interface{}) *characteristic.Characteristic {
	v := reflect.ValueOf(x)
	for {
		if c, ok := v.Interface().(*characteristic.Characteristic); ok {
			return c
		}
		if v.Kind() == reflect.Ptr {
			v = v.Elem()
		}
		v = v.Field(0)
	}
}

func zzH4Check(c *characteristic.Characteristic) error {
	v := c.Value
	if v == nil {
		// write-only constructors were made readable by this harness and have no value yet
		return nil
	}
	switch c.Format {
	case characteristic.FormatFloat:
		f, ok := v.(float64)
		if !ok {
			return fmt.Errorf("float holds %T", v)
		}
		if m, ok := c.MinValue.(float64); ok && f < m {
			return fmt.Errorf("%v < min %v", f, m)
		}
		if m, ok := c.MaxValue.(float64); ok && f > m {
			return fmt.Errorf("%v > max %v", f, m)
		}
	case characteristic.FormatUInt8, characteristic.FormatUInt16, characteristic.FormatUInt32, characteristic.FormatUInt64, characteristic.FormatInt32:
		f, ok := v.(int)
		if !ok {
			return fmt.Errorf("int holds %T", v)
		}
		if m, ok := c.MinValue.(int); ok && f < m {
			return fmt.Errorf("%v < min %v", f, m)
		}
		if m, ok := c.MaxValue.(int); ok && f > m {
			return fmt.Errorf("%v > max %v", f, m)
		}
	case characteristic.FormatBool:
		if _, ok := v.(bool); !ok {
			return fmt.Errorf("bool holds %T", v)
		}
	default:
		if _, ok := v.(string); !ok {
			return fmt.Errorf("string holds %T", v)
		}
	}
	return nil
}

func TestZZH4Put(t *testing.T) {
	all := zzH4All()
	names := []string{}
	for n := range all {
		names = append(names, n)
	}
	sort.Strings(names)
	acc := accessory.New(accessory.Info{Name: "x"}, accessory.TypeOther)
	svc := service.New("FFFF")
	chars := []*characteristic.Characteristic{}
	for _, n := range names {
		c := zzH4Char(all[n])
		// make everything writable so that the remote path reaches the value
		c.Perms = characteristic.PermsAll()
		svc.AddCharacteristic(c)
		chars = append(chars, c)
	}
	acc.AddService(svc)
	cont := accessory.NewContainer()
	if err := cont.AddAccessory(acc); err != nil {
		t.Fatal(err)
	}
	ctx := hap.NewContextForSecuredDevice(nil)
	srv := testable(Config{Context: ctx, Container: cont, Mutex: &sync.Mutex{}})
	sess := hap.NewSession(characteristic.TestConn)
	ctx.Set("1.2.3.4:5", sess)

	vals := []string{
		`null`, `true`, `false`, `0`, `-0`, `-0.0`, `1`, `-1`, `0.5`, `1e2`, `1E+2`, `1e-2`, `255`, `256`, `65536`, `4294967296`, `-2147483649`,
		`9223372036854775807`, `9223372036854775808`, `18446744073709551615`, `18446744073709551616`, `1e19`, `1e308`, `-1e308`, `5e-324`, `1e-400`,
		`""`, `"abc"`, `"1"`, `"-1"`, `"1.5"`, `"true"`, `"NaN"`, `"Infinity"`, `"+Inf"`, `"1e999"`, `"\u0000"`, `"\ud800"`, `"<script>"`,
		`[]`, `[1,"a",null]`, `{}`, `{"a":[{}]}`, `[[[[]]]]`, `{"value":1}`,
	}
	put := func(body string) int {
		r := httptest.NewRequest("PUT", "/characteristics", strings.NewReader(body))
		r.RemoteAddr = "1.2.3.4:5"
		w := httptest.NewRecorder()
		srv.Characteristics(w, r)
		return w.Code
	}
	for _, v := range vals {
		for rep := 0; rep < 2; rep++ {
			for _, c := range chars {
				body := fmt.Sprintf(`{"characteristics":[{"aid":%d,"iid":%d,"value":%s}]}`, acc.ID, c.ID, v)
				func() {
					defer func() {
						if r := recover(); r != nil {
							t.Errorf("%s value %s: panic %v", c.Type, v, r)
						}
					}()
					put(body)
				}()
				if err := zzH4Check(c); err != nil {
					t.Errorf("%s (%s) after %s: %v", c.Type, c.Format, v, err)
				}
			}
			// the attribute database encodes and decodes
			r := httptest.NewRequest("GET", "/accessories", nil)
			r.RemoteAddr = "1.2.3.4:5"
			w := httptest.NewRecorder()
			srv.Accessories(w, r)
			var out map[string]interface{}
			if err := json.Unmarshal(w.Body.Bytes(), &out); err != nil {
				t.Errorf("after %s: /accessories does not decode: %v (code %d, %d bytes)", v, err, w.Code, w.Body.Len())
			}
		}
	}
	// duplicate keys, same id twice, value and ev, extra members
	bodies := []string{
		`{"characteristics":[{"aid":1,"iid":%d,"value":1,"value":[1]}]}`,
		`{"characteristics":[{"aid":1,"iid":%d,"value":[1]},{"aid":1,"iid":%[1]d,"value":[1]}]}`,
		`{"characteristics":[{"aid":1,"iid":%d,"value":{"a":1},"ev":{"a":1}},{"aid":1,"iid":%[1]d,"value":{"a":1},"ev":[1]}]}`,
		`{"characteristics":[{"aid":1,"iid":%d,"VALUE":[2],"Value":[2]}]}`,
		`{"characteristics":[{"aid":1,"iid":%d,"value":[2]}],"characteristics":[{"aid":1,"iid":%[1]d,"value":[2]}]}`,
	}
	for _, b := range bodies {
		for _, c := range chars {
			func() {
				defer func() {
					if r := recover(); r != nil {
						t.Errorf("%s body %s: panic %v", c.Type, b, r)
					}
				}()
				put(fmt.Sprintf(b, c.ID))
				put(fmt.Sprintf(b, c.ID))
			}()
			if err := zzH4Check(c); err != nil {
				t.Errorf("%s (%s) after %s: %v", c.Type, c.Format, b, err)
			}
		}
	}
	_ = http.StatusOK
}

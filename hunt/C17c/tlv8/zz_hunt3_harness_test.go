package tlv8_test

// Exploration harness (hunt3 C17): random values of the rtp message types and of
// synthetic structs, reference encoder, round trip, decoder fuzz.

import (
	"bytes"
	"encoding/binary"
	"fmt"
	"math"
	"math/rand"
	"reflect"
	"regexp"
	"strconv"
	"strings"
	"testing"

	"github.com/brutella/hc/rtp"
	"github.com/brutella/hc/tlv8"
)

// ---------- reference encoder (independent of the library) ----------

func refItem(buf *bytes.Buffer, tag byte, val []byte) {
	// value split into fragments of 255 bytes; an empty value is not written
	// (same convention as the library: absent == empty)
	for len(val) > 0 {
		n := len(val)
		if n > 255 {
			n = 255
		}
		buf.WriteByte(tag)
		buf.WriteByte(byte(n))
		buf.Write(val[:n])
		val = val[n:]
	}
}

func refStruct(v reflect.Value) []byte {
	for v.Kind() == reflect.Ptr {
		v = v.Elem()
	}
	var buf bytes.Buffer
	t := v.Type()
	for i := 0; i < t.NumField(); i++ {
		tagStr, ok := t.Field(i).Tag.Lookup("tlv8")
		if !ok {
			continue
		}
		var tag byte
		if tagStr != "-" {
			n, _ := strconv.Atoi(strings.Split(tagStr, ",")[0])
			tag = byte(n)
		}
		f := v.Field(i)
		switch f.Kind() {
		case reflect.Uint8:
			refItem(&buf, tag, []byte{byte(f.Uint())})
		case reflect.Bool:
			if f.Bool() {
				refItem(&buf, tag, []byte{1})
			} else {
				refItem(&buf, tag, []byte{0})
			}
		case reflect.Uint16:
			b := make([]byte, 2)
			binary.LittleEndian.PutUint16(b, uint16(f.Uint()))
			refItem(&buf, tag, b)
		case reflect.Uint32:
			b := make([]byte, 4)
			binary.LittleEndian.PutUint32(b, uint32(f.Uint()))
			refItem(&buf, tag, b)
		case reflect.Uint64:
			b := make([]byte, 8)
			binary.LittleEndian.PutUint64(b, f.Uint())
			refItem(&buf, tag, b)
		case reflect.Int16:
			b := make([]byte, 2)
			binary.LittleEndian.PutUint16(b, uint16(f.Int()))
			refItem(&buf, tag, b)
		case reflect.Int32:
			b := make([]byte, 4)
			binary.LittleEndian.PutUint32(b, uint32(f.Int()))
			refItem(&buf, tag, b)
		case reflect.Int64:
			b := make([]byte, 8)
			binary.LittleEndian.PutUint64(b, uint64(f.Int()))
			refItem(&buf, tag, b)
		case reflect.Float32:
			b := make([]byte, 4)
			binary.LittleEndian.PutUint32(b, math.Float32bits(float32(f.Float())))
			refItem(&buf, tag, b)
		case reflect.String:
			refItem(&buf, tag, []byte(f.String()))
		case reflect.Slice:
			if f.Type().Elem().Kind() == reflect.Uint8 {
				refItem(&buf, tag, f.Bytes())
				continue
			}
			for j := 0; j < f.Len(); j++ {
				if j > 0 {
					buf.Write([]byte{0, 0})
				}
				p := refStruct(f.Index(j))
				if tagStr == "-" {
					buf.Write(p)
				} else {
					refItem(&buf, tag, p)
				}
			}
		case reflect.Struct, reflect.Ptr:
			refItem(&buf, tag, refStruct(f))
		default:
			panic("kind " + f.Kind().String())
		}
	}
	return buf.Bytes()
}

// ---------- random values biased to the extremes ----------

var lens = []int{0, 0, 1, 1, 2, 3, 16, 254, 255, 256, 509, 510, 511, 700}

func randBytes(r *rand.Rand) []byte {
	n := lens[r.Intn(len(lens))]
	b := make([]byte, n)
	r.Read(b)
	if r.Intn(4) == 0 {
		for i := range b {
			b[i] = 0
		}
	}
	return b
}

func fill(r *rand.Rand, v reflect.Value, depth int) {
	switch v.Kind() {
	case reflect.Uint8, reflect.Uint16, reflect.Uint32, reflect.Uint64:
		bits := uint(v.Type().Bits())
		var max uint64 = math.MaxUint64
		if bits < 64 {
			max = 1<<bits - 1
		}
		c := []uint64{0, 1, max, max - 1, max >> 1, (max >> 1) + 1, 255, 256, r.Uint64() & max}
		v.SetUint(c[r.Intn(len(c))] & max)
	case reflect.Int16, reflect.Int32, reflect.Int64:
		bits := uint(v.Type().Bits())
		min := int64(-1) << (bits - 1)
		max := -(min + 1)
		c := []int64{0, 1, -1, min, max, 127, 128, 255, 256, -128, -129, -256}
		x := c[r.Intn(len(c))]
		if r.Intn(3) == 0 {
			x = int64(r.Uint64())
		}
		switch bits {
		case 16:
			x = int64(int16(x))
		case 32:
			x = int64(int32(x))
		}
		v.SetInt(x)
	case reflect.Float32:
		c := []float32{0, float32(math.Copysign(0, -1)), 1, -1, math.MaxFloat32, -math.MaxFloat32, math.SmallestNonzeroFloat32, float32(math.Inf(1)), float32(math.Inf(-1)), float32(math.NaN()), 1.234567}
		v.SetFloat(float64(c[r.Intn(len(c))]))
	case reflect.Bool:
		v.SetBool(r.Intn(2) == 0)
	case reflect.String:
		v.SetString(string(randBytes(r)))
	case reflect.Slice:
		if v.Type().Elem().Kind() == reflect.Uint8 {
			v.SetBytes(randBytes(r))
			return
		}
		ns := []int{0, 1, 2, 3, 3, 5, 40}
		n := ns[r.Intn(len(ns))]
		if depth > 4 && n > 5 {
			n = 3
		}
		s := reflect.MakeSlice(v.Type(), n, n)
		for i := 0; i < n; i++ {
			fill(r, s.Index(i), depth+1)
		}
		v.Set(s)
	case reflect.Struct:
		for i := 0; i < v.NumField(); i++ {
			fill(r, v.Field(i), depth+1)
		}
	case reflect.Ptr:
		p := reflect.New(v.Type().Elem())
		fill(r, p.Elem(), depth+1)
		v.Set(p)
	default:
		panic("kind " + v.Kind().String())
	}
}

// equal: nil and empty slices are the same, floats compared by bits
func equal(a, b reflect.Value) (bool, string) {
	switch a.Kind() {
	case reflect.Float32:
		if math.Float32bits(float32(a.Float())) != math.Float32bits(float32(b.Float())) {
			return false, fmt.Sprintf("float %v != %v", a.Float(), b.Float())
		}
		return true, ""
	case reflect.Slice:
		if a.Len() != b.Len() {
			return false, fmt.Sprintf("len %d != %d", a.Len(), b.Len())
		}
		for i := 0; i < a.Len(); i++ {
			if ok, w := equal(a.Index(i), b.Index(i)); !ok {
				return false, fmt.Sprintf("[%d]%s", i, w)
			}
		}
		return true, ""
	case reflect.Struct:
		for i := 0; i < a.NumField(); i++ {
			if ok, w := equal(a.Field(i), b.Field(i)); !ok {
				return false, "." + a.Type().Field(i).Name + w
			}
		}
		return true, ""
	case reflect.Ptr:
		if a.IsNil() != b.IsNil() {
			return false, " nil-ness differs"
		}
		if a.IsNil() {
			return true, ""
		}
		return equal(a.Elem(), b.Elem())
	default:
		if !reflect.DeepEqual(a.Interface(), b.Interface()) {
			s := fmt.Sprintf(" %v != %v", a.Interface(), b.Interface())
			if len(s) > 120 {
				s = s[:120] + "..."
			}
			return false, s
		}
		return true, ""
	}
}

var digits = regexp.MustCompile(`[0-9]+`)

var rtpTypes = []interface{}{
	rtp.SetupEndpoints{}, rtp.SetupEndpointsResponse{}, rtp.StreamConfiguration{},
	rtp.VideoStreamConfiguration{}, rtp.AudioStreamConfiguration{}, rtp.Configuration{},
	rtp.StreamingStatus{}, rtp.VideoCodecConfiguration{}, rtp.VideoCodecParameters{},
	rtp.Addr{}, rtp.CryptoSuite{}, rtp.CryptoSuiteType{}, rtp.RTPParams{}, rtp.VideoParameters{}, rtp.AudioParameters{},
	rtp.SessionControlCommand{}, rtp.AudioCodecConfiguration{}, rtp.AudioCodecParameters{}, rtp.VideoCodecAttributes{},
}

type SLeaf struct {
	A uint8  `tlv8:"1"`
	S string `tlv8:"2"`
}
type SInl struct {
	K uint16 `tlv8:"21"`
	V []byte `tlv8:"22"`
}
type SInl2 struct {
	X int32 `tlv8:"31"`
}
type SAll struct {
	U8     uint8   `tlv8:"1"`
	U16    uint16  `tlv8:"2"`
	U32    uint32  `tlv8:"3"`
	U64    uint64  `tlv8:"4"`
	I16    int16   `tlv8:"5"`
	I32    int32   `tlv8:"6"`
	I64    int64   `tlv8:"7"`
	F32    float32 `tlv8:"8"`
	B      bool    `tlv8:"9"`
	Str    string  `tlv8:"10"`
	Bytes  []byte  `tlv8:"11"`
	Nested SLeaf   `tlv8:"12"`
	Ptr    *SLeaf  `tlv8:"13"`
	Tagged []SLeaf `tlv8:"14"`
	Inl    []SInl  `tlv8:"-"`
	Inl2   []SInl2 `tlv8:"-"`
	Last   uint8   `tlv8:"40"`
}
type SStrOnly struct {
	S string `tlv8:"1"`
}
type SLists struct {
	T []SStrOnly `tlv8:"1"`
	N SStrOnly   `tlv8:"2"`
	P *SStrOnly  `tlv8:"3"`
}

var synTypes = []interface{}{SAll{}, SLeaf{}, SLists{}}

func roundTrip(t *testing.T, types []interface{}, iters int, strictBytes bool) {
	r := rand.New(rand.NewSource(1))
	fails := map[string]int{}
	for _, proto := range types {
		typ := reflect.TypeOf(proto)
		for i := 0; i < iters; i++ {
			in := reflect.New(typ)
			fill(r, in.Elem(), 0)
			var b []byte
			var err error
			func() {
				defer func() {
					if p := recover(); p != nil {
						err = fmt.Errorf("PANIC %v", p)
					}
				}()
				b, err = tlv8.Marshal(in.Elem().Interface())
			}()
			if err != nil {
				key := typ.Name() + " marshal: " + err.Error()
				if fails[key] == 0 {
					t.Errorf("%s: %+v", key, in.Elem().Interface())
				}
				fails[key]++
				continue
			}
			if ref := refStruct(in.Elem()); !bytes.Equal(ref, b) {
				key := typ.Name() + " bytes differ from reference"
				if fails[key] == 0 {
					t.Errorf("%s:\n lib %x\n ref %x", key, b, ref)
				}
				fails[key]++
			}
			out := reflect.New(typ)
			func() {
				defer func() {
					if p := recover(); p != nil {
						err = fmt.Errorf("PANIC %v", p)
					}
				}()
				err = tlv8.Unmarshal(b, out.Interface())
			}()
			if err != nil {
				key := typ.Name() + " unmarshal: " + err.Error()
				if fails[key] == 0 {
					t.Errorf("%s: %+v", key, in.Elem().Interface())
				}
				fails[key]++
				continue
			}
			if ok, where := equal(in.Elem(), out.Elem()); !ok {
				key := typ.Name() + " roundtrip " + digits.ReplaceAllString(where, "N")
				if fails[key] == 0 {
					t.Errorf("%s (%s) encoded len %d", key, where, len(b))
				}
				fails[key]++
			}
		}
	}
	for k, n := range fails {
		t.Logf("%5d x %s", n, k)
	}
}

func TestHunt3RoundTripRTP(t *testing.T) { roundTrip(t, rtpTypes, 1500, true) }
func TestHunt3RoundTripSyn(t *testing.T) { roundTrip(t, synTypes, 3000, true) }

// ---------- decoder fuzz ----------

func mutate(r *rand.Rand, b []byte) []byte {
	b = append([]byte(nil), b...)
	n := 1 + r.Intn(4)
	for k := 0; k < n; k++ {
		switch r.Intn(6) {
		case 0:
			if len(b) > 0 {
				b[r.Intn(len(b))] = byte(r.Intn(256))
			}
		case 1:
			if len(b) > 0 {
				b = b[:r.Intn(len(b))]
			}
		case 2:
			if len(b) > 0 {
				i := r.Intn(len(b))
				b = append(b[:i], b[i+1:]...)
			}
		case 3:
			i := r.Intn(len(b) + 1)
			b = append(b[:i], append([]byte{byte(r.Intn(256))}, b[i:]...)...)
		case 4:
			if len(b) > 0 {
				b[r.Intn(len(b))] = byte(r.Intn(4))
			}
		case 5:
			// well-formed random item
			tag := byte(r.Intn(16))
			l := r.Intn(10)
			it := append([]byte{tag, byte(l)}, make([]byte, l)...)
			r.Read(it[2:])
			i := r.Intn(len(b) + 1)
			b = append(b[:i], append(it, b[i:]...)...)
		}
	}
	return b
}

func TestHunt3DecodeFuzz(t *testing.T) {
	r := rand.New(rand.NewSource(2))
	all := append(append([]interface{}{}, rtpTypes...), synTypes...)
	seen := map[string]bool{}
	for _, proto := range all {
		typ := reflect.TypeOf(proto)
		for i := 0; i < 20000; i++ {
			var data []byte
			switch r.Intn(3) {
			case 0:
				data = make([]byte, r.Intn(40))
				r.Read(data)
			case 1:
				// sequence of well formed small items with small tags
				for k := r.Intn(12); k > 0; k-- {
					l := r.Intn(6)
					if r.Intn(10) == 0 {
						l = 255
					}
					it := make([]byte, l)
					r.Read(it)
					for j := range it {
						if r.Intn(2) == 0 {
							it[j] = byte(r.Intn(8))
						}
					}
					data = append(data, byte(r.Intn(8)), byte(l))
					data = append(data, it...)
				}
			case 2:
				in := reflect.New(typ)
				fill(r, in.Elem(), 1)
				func() {
					defer func() { recover() }()
					data = refStruct(in.Elem())
				}()
				data = mutate(r, data)
			}
			func() {
				defer func() {
					if p := recover(); p != nil {
						key := fmt.Sprintf("%s: %v", typ.Name(), p)
						if !seen[key] {
							seen[key] = true
							t.Errorf("PANIC %s on %x", key, data)
						}
					}
				}()
				out := reflect.New(typ)
				tlv8.Unmarshal(data, out.Interface())
			}()
		}
	}
}

package endpoint

import (
	"bytes"
	"fmt"
	"net/http"
	"net/http/httptest"
	"testing"

	"github.com/brutella/hc/crypto"
	"github.com/brutella/hc/crypto/chacha20poly1305"
	"github.com/brutella/hc/crypto/curve25519"
	"github.com/brutella/hc/crypto/hkdf"
	"github.com/brutella/hc/db"
	"github.com/brutella/hc/hap"
	"github.com/brutella/hc/hap/pair"
	"github.com/brutella/hc/util"
)

const huntAddr = "10.0.0.9:40000"

type huntRig struct {
	t        *testing.T
	ctx      hap.Context
	database db.Database
	sess     hap.Session
	ep       *PairVerify
	acc      hap.SecuredDevice
	ctrl     db.Entity // paired controller, with private key (only known to the test)
	other    db.Entity // a second paired controller
	stranger db.Entity // NOT stored
}

func newHuntRig(t *testing.T) *huntRig {
	database, err := db.NewTempDatabase()
	if err != nil {
		t.Fatal(err)
	}
	acc, err := hap.NewSecuredDevice("Accessory", "001-02-003", database)
	if err != nil {
		t.Fatal(err)
	}
	ctx := hap.NewContextForSecuredDevice(acc)
	sess := hap.NewSession(nil)
	ctx.Set(huntAddr, sess)

	ctrl, _ := db.NewRandomEntityWithName("Controller")
	other, _ := db.NewRandomEntityWithName("Other")
	stranger, _ := db.NewRandomEntityWithName("Stranger")
	database.SaveEntity(db.NewEntity(ctrl.Name, ctrl.PublicKey, nil))
	database.SaveEntity(db.NewEntity(other.Name, other.PublicKey, nil))

	return &huntRig{t: t, ctx: ctx, database: database, sess: sess, ep: NewPairVerify(ctx, database), acc: acc, ctrl: ctrl, other: other, stranger: stranger}
}

func (r *huntRig) post(body []byte) (int, util.Container) {
	req := httptest.NewRequest("POST", "/pair-verify", bytes.NewReader(body))
	req.RemoteAddr = huntAddr
	rec := httptest.NewRecorder()
	r.ep.ServeHTTP(rec, req)
	var c util.Container
	if rec.Body.Len() > 0 {
		var err error
		c, err = util.NewTLV8ContainerFromReader(bytes.NewReader(rec.Body.Bytes()))
		if err != nil {
			r.t.Fatalf("unparsable response: %v", err)
		}
	}
	return rec.Code, c
}

func (r *huntRig) verified() bool {
	return r.sess.Decrypter() != nil || r.sess.Encrypter() != nil
}

// isError: answered with an error = HTTP error status or a TLV8 error code
func isError(code int, c util.Container) bool {
	if code != http.StatusOK {
		return true
	}
	return c != nil && c.GetByte(pair.TagErrCode) != 0
}

type huntExchange struct {
	priv, A, B [32]byte
	K          [32]byte
	shared     [32]byte
}

func startBody(pub []byte) []byte {
	c := util.NewTLV8Container()
	c.SetByte(pair.TagPairingMethod, 0)
	c.SetByte(pair.TagSequence, pair.VerifyStepStartRequest.Byte())
	c.SetBytes(pair.TagPublicKey, pub)
	return c.BytesBuffer().Bytes()
}

// start performs a valid start request and returns the exchange's keys
func (r *huntRig) start() *huntExchange {
	x := &huntExchange{}
	x.priv = curve25519.GeneratePrivateKey()
	x.A = curve25519.PublicKey(x.priv)
	code, out := r.post(startBody(x.A[:]))
	if code != 200 || out == nil || out.GetByte(pair.TagSequence) != 2 {
		r.t.Fatalf("valid start not accepted: %d", code)
	}
	copy(x.B[:], out.GetBytes(pair.TagPublicKey))
	x.shared = curve25519.SharedSecret(x.priv, x.B)
	x.K, _ = hkdf.Sha512(x.shared[:], []byte("Pair-Verify-Encrypt-Salt"), []byte("Pair-Verify-Encrypt-Info"))
	return x
}

func sealFinish(K []byte, inner []byte) []byte {
	enc, mac, err := chacha20poly1305.EncryptAndSeal(K, []byte("PV-Msg03"), inner, nil)
	if err != nil {
		panic(err)
	}
	c := util.NewTLV8Container()
	c.SetByte(pair.TagSequence, pair.VerifyStepFinishRequest.Byte())
	c.SetBytes(pair.TagEncryptedData, append(enc, mac[:]...))
	return c.BytesBuffer().Bytes()
}

func finishInner(name string, sig []byte) []byte {
	c := util.NewTLV8Container()
	c.SetString(pair.TagUsername, name)
	c.SetBytes(pair.TagSignature, sig)
	return c.BytesBuffer().Bytes()
}

func sign(priv []byte, parts ...[]byte) []byte {
	var m []byte
	for _, p := range parts {
		m = append(m, p...)
	}
	s, err := crypto.ED25519Signature(priv, m)
	if err != nil {
		panic(err)
	}
	return s
}

func (x *huntExchange) genuine(e db.Entity) []byte {
	return sealFinish(x.K[:], finishInner(e.Name, sign(e.PrivateKey, x.A[:], []byte(e.Name), x.B[:])))
}

func (r *huntRig) expectRejected(what string, body []byte) {
	r.t.Helper()
	code, out := r.post(body)
	if !isError(code, out) {
		r.t.Errorf("%s: not answered with an error (status %d)", what, code)
	}
	if r.verified() {
		r.t.Errorf("%s: connection became verified", what)
	}
}

// ---- probes ----

func TestHuntC03_P01_GenuineVerifies(t *testing.T) {
	r := newHuntRig(t)
	x := r.start()
	if r.verified() {
		t.Fatal("verified after start")
	}
	code, out := r.post(x.genuine(r.ctrl))
	if isError(code, out) || !r.verified() {
		t.Fatalf("genuine finish not accepted: %d", code)
	}
	// serves ciphertext under keys the peer derived
	cl, _ := crypto.NewSecureClientSessionFromSharedKey(x.shared)
	enc, _ := r.sess.Encrypter().Encrypt(bytes.NewBufferString("hello"))
	dec, err := cl.Decrypt(enc)
	if err != nil {
		t.Fatal(err)
	}
	var b bytes.Buffer
	b.ReadFrom(dec)
	if b.String() != "hello" {
		t.Fatal("wrong session keys")
	}
}

func TestHuntC03_P02_FailingFinishes(t *testing.T) {
	type mk func(r *huntRig, x *huntExchange) []byte
	cases := map[string]mk{
		"signed by a wrong key (other paired controller)": func(r *huntRig, x *huntExchange) []byte {
			return sealFinish(x.K[:], finishInner(r.ctrl.Name, sign(r.other.PrivateKey, x.A[:], []byte(r.ctrl.Name), x.B[:])))
		},
		"signed by stranger key": func(r *huntRig, x *huntExchange) []byte {
			return sealFinish(x.K[:], finishInner(r.ctrl.Name, sign(r.stranger.PrivateKey, x.A[:], []byte(r.ctrl.Name), x.B[:])))
		},
		"unknown name": func(r *huntRig, x *huntExchange) []byte {
			return x.genuine(r.stranger)
		},
		"empty name": func(r *huntRig, x *huntExchange) []byte {
			return sealFinish(x.K[:], finishInner("", sign(r.ctrl.PrivateKey, x.A[:], x.B[:])))
		},
		"accessory name signed by controller key": func(r *huntRig, x *huntExchange) []byte {
			return sealFinish(x.K[:], finishInner(r.acc.Name(), sign(r.ctrl.PrivateKey, x.A[:], []byte(r.acc.Name()), x.B[:])))
		},
		"reordered material B|name|A": func(r *huntRig, x *huntExchange) []byte {
			return sealFinish(x.K[:], finishInner(r.ctrl.Name, sign(r.ctrl.PrivateKey, x.B[:], []byte(r.ctrl.Name), x.A[:])))
		},
		"material without name": func(r *huntRig, x *huntExchange) []byte {
			return sealFinish(x.K[:], finishInner(r.ctrl.Name, sign(r.ctrl.PrivateKey, x.A[:], x.B[:])))
		},
		"name of other, signed by ctrl over ctrl name": func(r *huntRig, x *huntExchange) []byte {
			return sealFinish(x.K[:], finishInner(r.other.Name, sign(r.ctrl.PrivateKey, x.A[:], []byte(r.ctrl.Name), x.B[:])))
		},
		"sealed under wrong key": func(r *huntRig, x *huntExchange) []byte {
			var k [32]byte
			k[0] = 1
			return sealFinish(k[:], finishInner(r.ctrl.Name, sign(r.ctrl.PrivateKey, x.A[:], []byte(r.ctrl.Name), x.B[:])))
		},
		"sealed under shared secret instead of derived key": func(r *huntRig, x *huntExchange) []byte {
			return sealFinish(x.shared[:], finishInner(r.ctrl.Name, sign(r.ctrl.PrivateKey, x.A[:], []byte(r.ctrl.Name), x.B[:])))
		},
		"empty encrypted data": func(r *huntRig, x *huntExchange) []byte {
			c := util.NewTLV8Container()
			c.SetByte(pair.TagSequence, 3)
			return c.BytesBuffer().Bytes()
		},
		"15 bytes": func(r *huntRig, x *huntExchange) []byte {
			c := util.NewTLV8Container()
			c.SetByte(pair.TagSequence, 3)
			c.SetBytes(pair.TagEncryptedData, make([]byte, 15))
			return c.BytesBuffer().Bytes()
		},
		"16 zero bytes": func(r *huntRig, x *huntExchange) []byte {
			c := util.NewTLV8Container()
			c.SetByte(pair.TagSequence, 3)
			c.SetBytes(pair.TagEncryptedData, make([]byte, 16))
			return c.BytesBuffer().Bytes()
		},
		"valid seal over empty plaintext": func(r *huntRig, x *huntExchange) []byte {
			return sealFinish(x.K[:], nil)
		},
		"valid seal over malformed tlv8": func(r *huntRig, x *huntExchange) []byte {
			return sealFinish(x.K[:], []byte{0x01, 0x20, 'a'})
		},
		"signature 63 bytes": func(r *huntRig, x *huntExchange) []byte {
			s := sign(r.ctrl.PrivateKey, x.A[:], []byte(r.ctrl.Name), x.B[:])
			return sealFinish(x.K[:], finishInner(r.ctrl.Name, s[:63]))
		},
		"signature 65 bytes": func(r *huntRig, x *huntExchange) []byte {
			s := sign(r.ctrl.PrivateKey, x.A[:], []byte(r.ctrl.Name), x.B[:])
			return sealFinish(x.K[:], finishInner(r.ctrl.Name, append(s, 0)))
		},
		"no signature": func(r *huntRig, x *huntExchange) []byte {
			return sealFinish(x.K[:], finishInner(r.ctrl.Name, nil))
		},
		"name with trailing NUL": func(r *huntRig, x *huntExchange) []byte {
			n := r.ctrl.Name + "\x00"
			return sealFinish(x.K[:], finishInner(n, sign(r.ctrl.PrivateKey, x.A[:], []byte(n), x.B[:])))
		},
		"name lower case": func(r *huntRig, x *huntExchange) []byte {
			n := "controller"
			return sealFinish(x.K[:], finishInner(n, sign(r.ctrl.PrivateKey, x.A[:], []byte(n), x.B[:])))
		},
		"wrong nonce PV-Msg02": func(r *huntRig, x *huntExchange) []byte {
			inner := finishInner(r.ctrl.Name, sign(r.ctrl.PrivateKey, x.A[:], []byte(r.ctrl.Name), x.B[:]))
			enc, mac, _ := chacha20poly1305.EncryptAndSeal(x.K[:], []byte("PV-Msg02"), inner, nil)
			c := util.NewTLV8Container()
			c.SetByte(pair.TagSequence, 3)
			c.SetBytes(pair.TagEncryptedData, append(enc, mac[:]...))
			return c.BytesBuffer().Bytes()
		},
	}
	for name, f := range cases {
		t.Run(name, func(t *testing.T) {
			r := newHuntRig(t)
			r.t = t
			x := r.start()
			r.expectRejected(name, f(r, x))
			// the call after the error: a genuine finish for the aborted exchange must not be accepted either
			r.expectRejected(name+" / then genuine finish without new start", x.genuine(r.ctrl))
			// and a completely new exchange still works
			y := r.start()
			code, out := r.post(y.genuine(r.ctrl))
			if isError(code, out) || !r.verified() {
				t.Fatalf("fresh exchange after failure not accepted")
			}
		})
	}
}

func TestHuntC03_P03_FinishWithoutStart(t *testing.T) {
	r := newHuntRig(t)
	// sealed under the all-zero key which is what a never-started session holds
	var zero [32]byte
	r.expectRejected("finish first", sealFinish(zero[:], finishInner(r.ctrl.Name, sign(r.ctrl.PrivateKey, zero[:], []byte(r.ctrl.Name), zero[:]))))
}

func TestHuntC03_P04_StartTwiceThenFinish(t *testing.T) {
	r := newHuntRig(t)
	x := r.start()
	code, out := r.post(startBody(x.A[:]))
	if !isError(code, out) {
		t.Fatalf("second start accepted")
	}
	r.expectRejected("finish after out-of-order start", x.genuine(r.ctrl))
}

func TestHuntC03_P05_ReplayAcrossExchanges(t *testing.T) {
	r := newHuntRig(t)
	x := r.start()
	fin := x.genuine(r.ctrl)
	r.expectRejected("bad", sealFinish(x.K[:], finishInner(r.ctrl.Name, make([]byte, 64))))
	y := r.start() // different A
	_ = y
	r.expectRejected("finish of the earlier exchange replayed in a new exchange", fin)
}

func TestHuntC03_P06_StaleSignatureNewSeal(t *testing.T) {
	r := newHuntRig(t)
	x := r.start()
	sig := sign(r.ctrl.PrivateKey, x.A[:], []byte(r.ctrl.Name), x.B[:])
	r.expectRejected("bad", sealFinish(x.K[:], finishInner(r.ctrl.Name, make([]byte, 64))))
	y := r.start()
	r.expectRejected("stale signature sealed under the new key", sealFinish(y.K[:], finishInner(r.ctrl.Name, sig)))
}

// A start request that is REJECTED (wrong-length key) must not open the way for a finish.
func TestHuntC03_P07_RejectedStartThenFinishOfAbortedExchange(t *testing.T) {
	for _, n := range []int{0, 1, 31, 33, 64} {
		r := newHuntRig(t)
		x := r.start()
		// first exchange ends with a failure
		r.expectRejected("bad signature", sealFinish(x.K[:], finishInner(r.ctrl.Name, make([]byte, 64))))
		// control: now a finish is out of order
		r.expectRejected("finish without start", x.genuine(r.ctrl))

		code, out := r.post(startBody(make([]byte, n)))
		if !isError(code, out) {
			t.Fatalf("start with %d byte key accepted", n)
		}
		if r.verified() {
			t.Fatal("verified by start")
		}
		// the start request was rejected: no exchange is open, a finish is out of order
		r.expectRejected(fmt.Sprintf("finish after a rejected start request (key length %d)", n), x.genuine(r.ctrl))
	}
}

func TestHuntC03_P08_StoredKeyDegenerate(t *testing.T) {
	for _, n := range []int{0, 31, 33, 64} {
		r := newHuntRig(t)
		r.database.SaveEntity(db.NewEntity("Short", make([]byte, n), nil))
		x := r.start()
		r.expectRejected("stored key of odd length", sealFinish(x.K[:], finishInner("Short", make([]byte, 64))))
	}
}

func TestHuntC03_P09_InvalidSequenceValues(t *testing.T) {
	r := newHuntRig(t)
	x := r.start()
	for _, s := range []byte{0, 2, 4, 5, 255} {
		c := util.NewTLV8Container()
		c.SetByte(pair.TagSequence, s)
		c.SetBytes(pair.TagPublicKey, x.A[:])
		code, out := r.post(c.BytesBuffer().Bytes())
		if !isError(code, out) || r.verified() {
			t.Fatalf("sequence %d", s)
		}
	}
	// empty body and garbage body
	for _, b := range [][]byte{nil, {0x06}, {0x06, 0x05, 0x03}} {
		code, out := r.post(b)
		if !isError(code, out) || r.verified() {
			t.Fatalf("body %v: %d", b, code)
		}
	}
}

func TestHuntC03_P10_LowOrderPoint(t *testing.T) {
	// A = 0: shared secret is all zero and known to everybody; still needs a signature
	r := newHuntRig(t)
	var A [32]byte
	code, out := r.post(startBody(A[:]))
	if code != 200 {
		t.Skip("zero key rejected")
	}
	var B [32]byte
	copy(B[:], out.GetBytes(pair.TagPublicKey))
	var shared [32]byte
	K, _ := hkdf.Sha512(shared[:], []byte("Pair-Verify-Encrypt-Salt"), []byte("Pair-Verify-Encrypt-Info"))
	r.expectRejected("zero point, stranger", sealFinish(K[:], finishInner(r.ctrl.Name, sign(r.stranger.PrivateKey, A[:], []byte(r.ctrl.Name), B[:]))))
}

func TestHuntC03_P11_TwoConnectionsIndependent(t *testing.T) {
	r := newHuntRig(t)
	sess2 := hap.NewSession(nil)
	r.ctx.Set("10.0.0.9:40001", sess2)
	x := r.start()
	// finish of connection 1 posted on connection 2
	req := httptest.NewRequest("POST", "/pair-verify", bytes.NewReader(x.genuine(r.ctrl)))
	req.RemoteAddr = "10.0.0.9:40001"
	rec := httptest.NewRecorder()
	r.ep.ServeHTTP(rec, req)
	if rec.Code == 200 {
		c, _ := util.NewTLV8ContainerFromReader(bytes.NewReader(rec.Body.Bytes()))
		if c.GetByte(pair.TagErrCode) == 0 {
			t.Fatal("accepted on other connection")
		}
	}
	if sess2.Decrypter() != nil || r.verified() {
		t.Fatal("verified")
	}
}

func TestHuntC03_P12_MethodNotZero(t *testing.T) {
	r := newHuntRig(t)
	x := r.start()
	r.expectRejected("method 1 in finish", append([]byte{0x00, 0x01, 0x01}, x.genuine(r.ctrl)...))
	r2 := newHuntRig(t)
	r2.expectRejected("method 1 in start", append([]byte{0x00, 0x01, 0x01}, startBody(x.A[:])...))
	r2.expectRejected("finish after start refused for its method", x.genuine(r2.ctrl))
}

// The quantifier lists a finish "naming ... the accessory itself" among the finishes that must fail.
// The accessory's own identity lives in the same database as the pairings, under its name,
// so a finish naming the accessory and signed with the accessory's own long-term key passes the lookup.
func TestHuntC03_P13_AccessoryNamesItself(t *testing.T) {
	r := newHuntRig(t)
	x := r.start()
	n := r.acc.Name()
	r.expectRejected("finish naming the accessory itself, signed with the accessory's own long-term key",
		sealFinish(x.K[:], finishInner(n, sign(r.acc.PrivateKey(), x.A[:], []byte(n), x.B[:]))))
}

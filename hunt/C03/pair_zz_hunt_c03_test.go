package pair

import (
	"testing"

	"github.com/brutella/hc/crypto"
	"github.com/brutella/hc/crypto/chacha20poly1305"
	"github.com/brutella/hc/db"
	"github.com/brutella/hc/hap"
	"github.com/brutella/hc/util"
)

// On a fresh connection the very first message is a start request with a wrong-length key.
// It is rejected, so no exchange exists: ephemeral keys, shared secret and encryption key
// are still zero. A finish request that follows must be refused as out of order.
func TestHuntC03_FreshConnection_RejectedStartThenFinish(t *testing.T) {
	database, err := db.NewTempDatabase()
	if err != nil {
		t.Fatal(err)
	}
	acc, err := hap.NewSecuredDevice("Accessory", "001-02-003", database)
	if err != nil {
		t.Fatal(err)
	}
	ctx := hap.NewContextForSecuredDevice(acc)
	ctrl, _ := db.NewRandomEntityWithName("Controller")
	database.SaveEntity(db.NewEntity(ctrl.Name, ctrl.PublicKey, nil))

	server := NewVerifyServerController(database, ctx)

	// control: finish as the very first message is refused
	var zero [32]byte
	finish := func() util.Container {
		var material []byte
		material = append(material, zero[:]...) // "controller ephemeral key" of an exchange that never started
		material = append(material, ctrl.Name...)
		material = append(material, server.session.PublicKey[:]...)
		sig, _ := crypto.ED25519Signature(ctrl.PrivateKey, material)
		inner := util.NewTLV8Container()
		inner.SetString(TagUsername, ctrl.Name)
		inner.SetBytes(TagSignature, sig)
		enc, mac, _ := chacha20poly1305.EncryptAndSeal(zero[:], []byte("PV-Msg03"), inner.BytesBuffer().Bytes(), nil)
		c := util.NewTLV8Container()
		c.SetByte(TagSequence, VerifyStepFinishRequest.Byte())
		c.SetBytes(TagEncryptedData, append(enc, mac[:]...))
		return c
	}
	if out, err := server.Handle(finish()); err == nil && out.GetByte(TagErrCode) == 0 {
		t.Fatal("control failed: finish as first message accepted")
	}

	// start request with a 31 byte key: rejected
	start := util.NewTLV8Container()
	start.SetByte(TagSequence, VerifyStepStartRequest.Byte())
	start.SetBytes(TagPublicKey, make([]byte, 31))
	if _, err := server.Handle(start); err != errInvalidClientKeyLength {
		t.Fatalf("expected the start request to be rejected, got %v", err)
	}
	if server.step != VerifyStepWaiting {
		t.Errorf("start request was rejected but the step is %q", server.step)
	}

	out, err := server.Handle(finish())
	if err == nil && out.GetByte(TagErrCode) == 0 && out.GetByte(TagSequence) == VerifyStepFinishResponse.Byte() {
		t.Errorf("finish after a rejected start request answered with state 4 and no error; shared key of the session to be installed: %x", server.SharedKey())
	}
}

package http

import (
	"bufio"
	"bytes"
	"context"
	"fmt"
	"io/ioutil"
	"net"
	gohttp "net/http"
	"sync"
	"testing"
	"time"

	"github.com/brutella/hc/accessory"
	"github.com/brutella/hc/crypto"
	"github.com/brutella/hc/crypto/chacha20poly1305"
	"github.com/brutella/hc/crypto/curve25519"
	"github.com/brutella/hc/crypto/hkdf"
	"github.com/brutella/hc/db"
	"github.com/brutella/hc/event"
	"github.com/brutella/hc/hap"
	"github.com/brutella/hc/hap/pair"
	"github.com/brutella/hc/util"
)

type huntWire struct {
	t    *testing.T
	conn net.Conn
	br   *bufio.Reader
}

func (w *huntWire) post(path string, body []byte) (int, []byte, error) {
	w.conn.SetDeadline(time.Now().Add(3 * time.Second))
	fmt.Fprintf(w.conn, "POST %s HTTP/1.1\r\nHost: x\r\nContent-Type: application/pairing+tlv8\r\nContent-Length: %d\r\n\r\n", path, len(body))
	w.conn.Write(body)
	return w.read("POST")
}

func (w *huntWire) get(path string) (int, []byte, error) {
	w.conn.SetDeadline(time.Now().Add(3 * time.Second))
	fmt.Fprintf(w.conn, "GET %s HTTP/1.1\r\nHost: x\r\n\r\n", path)
	return w.read("GET")
}

func (w *huntWire) read(method string) (int, []byte, error) {
	req, _ := gohttp.NewRequest(method, "/", nil)
	resp, err := gohttp.ReadResponse(w.br, req)
	if err != nil {
		return 0, nil, err
	}
	b, _ := ioutil.ReadAll(resp.Body)
	resp.Body.Close()
	return resp.StatusCode, b, nil
}

func huntStartBody(pub []byte) []byte {
	c := util.NewTLV8Container()
	c.SetByte(pair.TagPairingMethod, 0)
	c.SetByte(pair.TagSequence, pair.VerifyStepStartRequest.Byte())
	c.SetBytes(pair.TagPublicKey, pub)
	return c.BytesBuffer().Bytes()
}

func huntFinishBody(K []byte, name string, sig []byte) []byte {
	inner := util.NewTLV8Container()
	inner.SetString(pair.TagUsername, name)
	inner.SetBytes(pair.TagSignature, sig)
	enc, mac, _ := chacha20poly1305.EncryptAndSeal(K, []byte("PV-Msg03"), inner.BytesBuffer().Bytes(), nil)
	c := util.NewTLV8Container()
	c.SetByte(pair.TagSequence, pair.VerifyStepFinishRequest.Byte())
	c.SetBytes(pair.TagEncryptedData, append(enc, mac[:]...))
	return c.BytesBuffer().Bytes()
}

// Over a real TCP connection: after a failed exchange and a REJECTED start request the
// connection has to stay unverified and in plaintext, whatever finish request follows.
func TestHuntC03_TCP_RejectedStartThenFinish(t *testing.T) {
	database, err := db.NewTempDatabase()
	if err != nil {
		t.Fatal(err)
	}
	dev, err := hap.NewSecuredDevice("Accessory", "001-02-003", database)
	if err != nil {
		t.Fatal(err)
	}
	ctrl, _ := db.NewRandomEntityWithName("Controller")
	database.SaveEntity(db.NewEntity(ctrl.Name, ctrl.PublicKey, nil))

	hctx := hap.NewContextForSecuredDevice(dev)
	acc := accessory.New(accessory.Info{Name: "Lamp"}, accessory.TypeLightbulb)
	cont := accessory.NewContainer()
	cont.AddAccessory(acc)

	s := NewServer(Config{Port: "127.0.0.1:0", Context: hctx, Database: database, Container: cont, Device: dev, Mutex: &sync.Mutex{}, Emitter: event.NewEmitter()})
	cctx, cancel := context.WithCancel(context.Background())
	defer cancel()
	go s.ListenAndServe(cctx)

	c, err := net.Dial("tcp", "127.0.0.1:"+s.Port())
	if err != nil {
		t.Fatal(err)
	}
	defer c.Close()
	w := &huntWire{t: t, conn: c, br: bufio.NewReader(c)}

	// plaintext, unverified: protected resource refused
	if code, _, err := w.get("/accessories"); err != nil || code != 470 {
		t.Fatalf("control: expected 470 in plaintext, got %d %v", code, err)
	}

	// exchange 1: valid start, finish with a bad signature
	priv := curve25519.GeneratePrivateKey()
	A := curve25519.PublicKey(priv)
	code, body, err := w.post("/pair-verify", huntStartBody(A[:]))
	if err != nil || code != 200 {
		t.Fatalf("start: %d %v", code, err)
	}
	out, _ := util.NewTLV8ContainerFromReader(bytes.NewReader(body))
	var B [32]byte
	copy(B[:], out.GetBytes(pair.TagPublicKey))
	shared := curve25519.SharedSecret(priv, B)
	K, _ := hkdf.Sha512(shared[:], []byte("Pair-Verify-Encrypt-Salt"), []byte("Pair-Verify-Encrypt-Info"))

	code, body, err = w.post("/pair-verify", huntFinishBody(K[:], ctrl.Name, make([]byte, 64)))
	if err != nil {
		t.Fatal(err)
	}
	out, _ = util.NewTLV8ContainerFromReader(bytes.NewReader(body))
	if code != 200 || out.GetByte(pair.TagErrCode) != 4 {
		t.Fatalf("bad signature: %d %v", code, body)
	}

	var material []byte
	material = append(material, A[:]...)
	material = append(material, ctrl.Name...)
	material = append(material, B[:]...)
	sig, _ := crypto.ED25519Signature(ctrl.PrivateKey, material)
	genuine := huntFinishBody(K[:], ctrl.Name, sig)

	// control: exchange 1 is over, its finish is out of order now
	if code, _, err = w.post("/pair-verify", genuine); err != nil || code != 500 {
		t.Fatalf("control: finish without start: %d %v", code, err)
	}
	if code, _, err := w.get("/accessories"); err != nil || code != 470 {
		t.Fatalf("control: expected 470 in plaintext, got %d %v", code, err)
	}

	// start request with a 31 byte key: rejected
	if code, _, err = w.post("/pair-verify", huntStartBody(make([]byte, 31))); err != nil || code != 500 {
		t.Fatalf("wrong-length start: %d %v", code, err)
	}

	// finish of the aborted exchange 1
	code, body, err = w.post("/pair-verify", genuine)
	if err != nil {
		t.Fatal(err)
	}
	out, _ = util.NewTLV8ContainerFromReader(bytes.NewReader(body))
	if code == 200 && out.GetByte(pair.TagErrCode) == 0 {
		t.Errorf("finish after a rejected start request: answered %d state %d without error code", code, out.GetByte(pair.TagSequence))
	}

	// the connection has to be in plaintext still
	code, _, err = w.get("/accessories")
	if err != nil || code != 470 {
		t.Errorf("after rejected start + finish: plaintext GET /accessories is no longer answered in plaintext with 470 (status %d, err %v): the server switched the connection to the encrypted session", code, err)
	}
}

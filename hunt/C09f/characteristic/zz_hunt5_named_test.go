package characteristic

import "testing"

type h5Celsius float64
type h5Level int

// Borderline probe (generic UpdateValue(interface{}) with a named numeric type):
// a named float becomes 0, a named int is kept.
func TestHunt5NamedTypes(t *testing.T) {
	f := NewCurrentTemperature()
	f.UpdateValue(h5Celsius(21.5))
	if f.GetValue() != 21.5 {
		t.Errorf("float characteristic set to h5Celsius(21.5) reads %v", f.GetValue())
	}
	b := NewBrightness()
	b.UpdateValue(h5Level(42))
	if b.GetValue() != 42 {
		t.Errorf("int characteristic set to h5Level(42) reads %v", b.GetValue())
	}
}

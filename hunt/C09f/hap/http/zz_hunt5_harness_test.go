package http

import (
	"bufio"
	"bytes"
	"context"
	"encoding/binary"
	"encoding/json"
	"fmt"
	"io"
	"io/ioutil"
	"net"
	gohttp "net/http"
	"sync"
	"testing"
	"time"

	"github.com/brutella/hc/accessory"
	"github.com/brutella/hc/crypto"
	"github.com/brutella/hc/db"
	"github.com/brutella/hc/event"
	"github.com/brutella/hc/hap"
)

// ---- reference controller: speaks HTTP over the HAP frame encryption ----

type h5frameReader struct {
	c   net.Conn
	dec crypto.Cryptographer
	buf bytes.Buffer
}

func (f *h5frameReader) Read(p []byte) (int, error) {
	for f.buf.Len() == 0 {
		var hdr [2]byte
		if _, err := io.ReadFull(f.c, hdr[:]); err != nil {
			return 0, err
		}
		n := int(binary.LittleEndian.Uint16(hdr[:]))
		body := make([]byte, n+16)
		if _, err := io.ReadFull(f.c, body); err != nil {
			return 0, err
		}
		if n > 1024 {
			return 0, fmt.Errorf("frame of %d bytes", n)
		}
		r, err := f.dec.Decrypt(bytes.NewReader(append(hdr[:], body...)))
		if err != nil {
			return 0, err
		}
		b, _ := ioutil.ReadAll(r)
		f.buf.Write(b)
	}
	return f.buf.Read(p)
}

type h5ctrl struct {
	t    testing.TB
	conn net.Conn
	cr   crypto.Cryptographer
	br   *bufio.Reader
	sess hap.Session
}

func (c *h5ctrl) send(raw []byte) {
	r, err := c.cr.Encrypt(bytes.NewReader(raw))
	if err != nil {
		c.t.Fatal(err)
	}
	b, _ := ioutil.ReadAll(r)
	if _, err := c.conn.Write(b); err != nil {
		c.t.Fatal(err)
	}
}

func (c *h5ctrl) do(method, target string, body []byte) (int, []byte, gohttp.Header) {
	var req bytes.Buffer
	fmt.Fprintf(&req, "%s %s HTTP/1.1\r\nHost: x.local\r\n", method, target)
	if body != nil {
		fmt.Fprintf(&req, "Content-Type: application/hap+json\r\nContent-Length: %d\r\n", len(body))
	}
	req.WriteString("\r\n")
	req.Write(body)
	c.send(req.Bytes())
	c.conn.SetReadDeadline(time.Now().Add(10 * time.Second))
	resp, err := gohttp.ReadResponse(c.br, &gohttp.Request{Method: method})
	if err != nil {
		c.t.Fatalf("%s %s: reading response: %v", method, target, err)
	}
	b, err := ioutil.ReadAll(resp.Body)
	if err != nil {
		c.t.Fatalf("%s %s: reading body: %v", method, target, err)
	}
	resp.Body.Close()
	return resp.StatusCode, b, resp.Header
}

type h5env struct {
	t      testing.TB
	srv    *Server
	ctx    hap.Context
	cont   *accessory.Container
	cancel context.CancelFunc
	mu     *sync.Mutex
}

func h5newEnv(t testing.TB, accs ...*accessory.Accessory) *h5env {
	database, err := db.NewTempDatabase()
	if err != nil {
		t.Fatal(err)
	}
	dev, err := hap.NewSecuredDevice("h5", "00102003", database)
	if err != nil {
		t.Fatal(err)
	}
	cont := accessory.NewContainer()
	for _, a := range accs {
		if err := cont.AddAccessory(a); err != nil {
			t.Fatal(err)
		}
	}
	hctx := hap.NewContextForSecuredDevice(dev)
	mu := &sync.Mutex{}
	srv := NewServer(Config{Port: "127.0.0.1:0", Context: hctx, Database: database, Container: cont, Device: dev, Mutex: mu, Emitter: event.NewEmitter()})
	cctx, cancel := context.WithCancel(context.Background())
	go srv.ListenAndServe(cctx)
	e := &h5env{t: t, srv: srv, ctx: hctx, cont: cont, cancel: cancel, mu: mu}
	return e
}

func (e *h5env) close() { e.cancel() }

// verified controller: connects and installs the keys a completed pair-verify would have installed
func (e *h5env) controller() *h5ctrl {
	conn, err := net.Dial("tcp", "127.0.0.1:"+e.srv.Port())
	if err != nil {
		e.t.Fatal(err)
	}
	var sess hap.Session
	for i := 0; i < 500 && sess == nil; i++ {
		for _, c := range e.ctx.ActiveConnections() {
			if c.RemoteAddr().String() == conn.LocalAddr().String() {
				sess = e.ctx.GetSessionForConnection(c.(*hap.Connection))
			}
		}
		if sess == nil {
			time.Sleep(2 * time.Millisecond)
		}
	}
	if sess == nil {
		e.t.Fatal("no session")
	}
	var key [32]byte
	copy(key[:], []byte("0123456789abcdef0123456789abcdef"))
	sc, _ := crypto.NewSecureSessionFromSharedKey(key)
	cc, _ := crypto.NewSecureClientSessionFromSharedKey(key)
	sess.SetCryptographer(sc)
	sess.Decrypter() // activates
	c := &h5ctrl{t: e.t, conn: conn, cr: cc, sess: sess}
	c.br = bufio.NewReaderSize(&h5frameReader{c: conn, dec: cc}, 4096)
	return c
}

type h5entry struct {
	Aid    uint64           `json:"aid"`
	Iid    uint64           `json:"iid"`
	Value  *json.RawMessage `json:"value"`
	Status *int             `json:"status"`
}

func h5parseEntries(t testing.TB, body []byte) []h5entry {
	var r struct {
		Characteristics []h5entry `json:"characteristics"`
	}
	dec := json.NewDecoder(bytes.NewReader(body))
	if err := dec.Decode(&r); err != nil {
		t.Fatalf("body %q: %v", body, err)
	}
	return r.Characteristics
}

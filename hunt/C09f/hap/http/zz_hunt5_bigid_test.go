package http

import (
	"fmt"
	"strings"
	"testing"

	"github.com/brutella/hc/accessory"
)

func TestHunt5BigAccessoryIDs(t *testing.T) {
	ids := []uint64{1, 1<<53 + 1, 1<<63 - 1, 1 << 63, 1<<64 - 1}
	var accs []*accessory.Accessory
	var lbs []*accessory.Lightbulb
	for i, id := range ids {
		lb := accessory.NewLightbulb(accessory.Info{Name: fmt.Sprintf("L%d", i), ID: id})
		accs = append(accs, lb.Accessory)
		lbs = append(lbs, lb)
	}
	e := h5newEnv(t, accs...)
	defer e.close()
	ctl := e.controller()
	for i, id := range ids {
		on := lbs[i].Lightbulb.On
		code, body, _ := ctl.do("GET", fmt.Sprintf("/characteristics?id=%d.%d", id, on.ID), nil)
		if code != 200 || !strings.Contains(string(body), fmt.Sprintf(`{"aid":%d,"iid":%d,"value":false}`, id, on.ID)) {
			t.Errorf("GET aid %d: %d %s", id, code, body)
		}
		code, body, _ = ctl.do("PUT", "/characteristics", []byte(fmt.Sprintf(`{"characteristics":[{"aid":%d,"iid":%d,"value":true}]}`, id, on.ID)))
		if code != 204 || !on.GetValue() {
			t.Errorf("PUT aid %d: %d %s getter %v", id, code, body, on.GetValue())
		}
		for j, other := range lbs {
			if j > i && other.Lightbulb.On.GetValue() {
				t.Errorf("PUT aid %d changed accessory %d", id, ids[j])
			}
		}
	}
	_, body, _ := ctl.do("GET", "/accessories", nil)
	for _, id := range ids {
		if !strings.Contains(string(body), fmt.Sprintf(`{"aid":%d,`, id)) {
			t.Errorf("/accessories lacks aid %d", id)
		}
	}
}

package http

import (
	"bytes"
	"fmt"
	"io/ioutil"
	gohttp "net/http"
	"strings"
	"testing"
	"time"

	"github.com/brutella/hc/accessory"
)

func h5small(t *testing.T) (*h5env, *accessory.Lightbulb) {
	lb := accessory.NewLightbulb(accessory.Info{Name: "Lamp"})
	e := h5newEnv(t, lb.Accessory)
	return e, lb
}

func (c *h5ctrl) readResp(method string) (int, []byte) {
	c.conn.SetReadDeadline(time.Now().Add(5 * time.Second))
	resp, err := gohttp.ReadResponse(c.br, &gohttp.Request{Method: method})
	if err != nil {
		c.t.Fatalf("reading response: %v", err)
	}
	b, err := ioutil.ReadAll(resp.Body)
	if err != nil {
		c.t.Fatalf("reading body: %v", err)
	}
	return resp.StatusCode, b
}

func TestHunt5Pipelining(t *testing.T) {
	e, lb := h5small(t)
	defer e.close()
	ctl := e.controller()
	on := lb.Lightbulb.On
	body := fmt.Sprintf(`{"characteristics":[{"aid":1,"iid":%d,"value":true}]}`, on.ID)
	var req bytes.Buffer
	fmt.Fprintf(&req, "GET /characteristics?id=1.%d HTTP/1.1\r\nHost: a\r\n\r\n", on.ID)
	fmt.Fprintf(&req, "PUT /characteristics HTTP/1.1\r\nHost: a\r\nContent-Length: %d\r\n\r\n%s", len(body), body)
	fmt.Fprintf(&req, "GET /characteristics?id=1.%d HTTP/1.1\r\nHost: a\r\n\r\n", on.ID)
	fmt.Fprintf(&req, "GET /accessories HTTP/1.1\r\nHost: a\r\n\r\n")
	ctl.send(req.Bytes())
	c1, b1 := ctl.readResp("GET")
	c2, b2 := ctl.readResp("PUT")
	c3, b3 := ctl.readResp("GET")
	c4, b4 := ctl.readResp("GET")
	t.Log(c1, string(b1), c2, string(b2), c3, string(b3), c4, len(b4))
	if c1 != 200 || !strings.Contains(string(b1), `"value":false`) {
		t.Errorf("first GET: %d %s", c1, b1)
	}
	if c2 != 204 {
		t.Errorf("PUT: %d %s", c2, b2)
	}
	if c3 != 200 || !strings.Contains(string(b3), `"value":true`) {
		t.Errorf("second GET: %d %s", c3, b3)
	}
	if c4 != 200 {
		t.Errorf("acc: %d", c4)
	}
	if !on.GetValue() {
		t.Errorf("getter false")
	}
}

func TestHunt5ByteFrames(t *testing.T) {
	e, lb := h5small(t)
	defer e.close()
	ctl := e.controller()
	on := lb.Lightbulb.On
	body := fmt.Sprintf(`{"characteristics":[{"aid":1,"iid":%d,"value":1}]}`, on.ID)
	req := fmt.Sprintf("PUT /characteristics HTTP/1.1\r\nHost: a\r\nContent-Length: %d\r\n\r\n%s", len(body), body)
	for i := 0; i < len(req); i++ {
		ctl.send([]byte{req[i]})
	}
	c2, b2 := ctl.readResp("PUT")
	if c2 != 204 || !on.GetValue() {
		t.Errorf("PUT: %d %s %v", c2, b2, on.GetValue())
	}
}

func TestHunt5ExpectAndChunkedPut(t *testing.T) {
	e, lb := h5small(t)
	defer e.close()
	ctl := e.controller()
	on := lb.Lightbulb.On
	body := fmt.Sprintf(`{"characteristics":[{"aid":1,"iid":%d,"value":true}]}`, on.ID)
	ctl.send([]byte(fmt.Sprintf("PUT /characteristics HTTP/1.1\r\nHost: a\r\nExpect: 100-continue\r\nContent-Length: %d\r\n\r\n", len(body))))
	c, _ := ctl.readResp("PUT")
	if c != 100 {
		t.Fatalf("expected 100, got %d", c)
	}
	ctl.send([]byte(body))
	c, b := ctl.readResp("PUT")
	if c != 204 || !on.GetValue() {
		t.Errorf("PUT: %d %s %v", c, b, on.GetValue())
	}
	// chunked body
	body = fmt.Sprintf(`{"characteristics":[{"aid":1,"iid":%d,"value":false}]}`, on.ID)
	var req bytes.Buffer
	fmt.Fprintf(&req, "PUT /characteristics HTTP/1.1\r\nHost: a\r\nTransfer-Encoding: chunked\r\n\r\n")
	fmt.Fprintf(&req, "%x\r\n%s\r\n", 10, body[:10])
	fmt.Fprintf(&req, "%x\r\n%s\r\n0\r\n\r\n", len(body)-10, body[10:])
	ctl.send(req.Bytes())
	c, b = ctl.readResp("PUT")
	if c != 204 || on.GetValue() {
		t.Errorf("chunked PUT: %d %s %v", c, b, on.GetValue())
	}
	// HTTP/1.0
	ctl.send([]byte(fmt.Sprintf("GET /characteristics?id=1.%d HTTP/1.0\r\n\r\n", on.ID)))
	c, b = ctl.readResp("GET")
	if c != 200 || !strings.Contains(string(b), `"value":false`) {
		t.Errorf("1.0 GET: %d %s", c, b)
	}
}

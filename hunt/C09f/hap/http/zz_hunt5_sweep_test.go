package http

import (
	"encoding/json"
	"fmt"
	"strings"
	"testing"
)

func TestHunt5LengthSweep(t *testing.T) {
	e, lb := h5small(t)
	defer e.close()
	ctl := e.controller()
	name := lb.Info.Name
	bad := 0
	for n := 0; n <= 6200 && bad < 10; n++ {
		s := strings.Repeat("x", n)
		if n%3 == 1 {
			s = strings.Repeat("<", n) // 6 bytes each once escaped
		}
		name.SetValue(s)
		code, body, _ := ctl.do("GET", fmt.Sprintf("/characteristics?id=1.%d", name.ID), nil)
		ents := h5parseEntries(t, body)
		if code != 200 || len(ents) != 1 || ents[0].Value == nil || !h5same(s, *ents[0].Value) {
			bad++
			t.Errorf("len %d: GET %d %d bytes", n, code, len(body))
		}
		code, body, _ = ctl.do("GET", "/accessories", nil)
		if code != 200 || !json.Valid(body) || !strings.Contains(string(body), `"value":"`+strings.Replace(s, "<", `\u003c`, -1)+`"`) {
			bad++
			t.Errorf("len %d: /accessories %d %d bytes", n, code, len(body))
		}
		// controller writes a value of that length to a writable string: there is none in a lightbulb except Name? use PUT on name (pr only -> ignored)
	}
}
